/-
The ring counters modulo 2^32: the model keeps `write`, `read1`, `read2` as unbounded naturals
(queue positions); the Go fields hold their residues modulo 2^32. This file states that
refinement explicitly (`wrap32`) and proves that the wrap is invisible to the model: it uses
the counters only through `slotOf`, i.e. through residues, never through an order comparison.
Helper lemmas for C02.wrap_around_invisible.
-/
import Rv.Lemmas.RingOrder
namespace Rv.Ring

/-- the state as the Go fields hold it: every counter reduced modulo 2^32 -/
def wrap32 (σ : State) : State :=
  { σ with write := σ.write % 2 ^ 32, read1 := σ.read1 % 2 ^ 32, read2 := σ.read2 % 2 ^ 32 }

theorem succ_wrap (x : Nat) : (x % 2 ^ 32 + 1) % 2 ^ 32 = (x + 1) % 2 ^ 32 := by
  have : (2 : Nat) ^ 32 = 4294967296 := by decide
  rw [this]; omega

theorem slotOf_succ_wrap (k x : Nat) : slotOf k (x % 2 ^ 32 + 1) = slotOf k (x + 1) := by
  unfold slotOf; rw [succ_wrap]

theorem enabled_wrap32 (k : Nat) (l : Label) (σ : State) : enabled k l (wrap32 σ) = enabled k l σ := by
  cases l <;> simp only [enabled, wrap32, locked, slotOf_succ_wrap]

theorem apply_wrap32 (k : Nat) (l : Label) (σ : State) :
    wrap32 (apply k l (wrap32 σ)) = wrap32 (apply k l σ) := by
  cases l <;> simp only [Ring.apply, Ring.take, wrap32, slotOf_succ_wrap] <;>
    (repeat' split) <;> (try simp_all [succ_wrap, Nat.mod_mod]) <;> (try rfl) <;> (try congr)


/-- one step of the ring as the Go code performs it: on wrapped counters, wrapping the result -/
def apply32 (k : Nat) (l : Label) (σ : State) : State := wrap32 (apply k l σ)

def run32 (k : Nat) : State → List Label → Option State
  | σ, [] => some σ
  | σ, l :: ls => if enabled k l σ then run32 k (apply32 k l σ) ls else none

/-- the uint32 run is the image of the unbounded run: same enabled transitions at every step, and
    the state reached is the unbounded state with its counters reduced modulo 2^32 -/
theorem run_wrap32 (k : Nat) : ∀ (ls : List Label) (σ : State),
    run32 k (wrap32 σ) ls = (run k σ ls).map wrap32 := by
  intro ls
  induction ls with
  | nil => intro σ; rfl
  | cons l ls ih =>
    intro σ
    simp only [run32, run, enabled_wrap32]
    split
    · rw [apply32, apply_wrap32, ih]
    · rfl

/-- on residues only equality is meaningful: while fewer than 2^32 commands separate two
    positions, their residues are equal exactly when the positions are equal -/
theorem residue_equality_exact (a b : Nat) (h1 : a ≤ b) (h2 : b < a + 2 ^ 32) :
    a % 2 ^ 32 = b % 2 ^ 32 ↔ a = b := by
  have : (2 : Nat) ^ 32 = 4294967296 := by decide
  rw [this] at *
  constructor
  · intro h; omega
  · intro h; rw [h]

/-- the order of residues says nothing: one command queued across the wrap has
    `read1 < write` as positions but `read1 mod 2^32 > write mod 2^32` -/
theorem residue_order_meaningless :
    ∃ read1 write : Nat, read1 < write ∧ write = read1 + 1 ∧ write % 2 ^ 32 < read1 % 2 ^ 32 :=
  ⟨4294967295, 4294967296, by decide, by decide, by decide⟩

/-- `read1 = write` (as positions, hence as residues) really means "nothing for the writer" -/
theorem nothing_queued_of_eq {k : Nat} (hk : k ≤ 32) {σ : State} (h : Reachable k σ)
    (he : σ.read1 = σ.write) : (σ.slot (slotOf k (σ.read1 + 1))).mark ≠ 1 := by
  have f := Full.of_reachable hk h
  have hp := pow_pos' k
  rw [slotOf_eq k _ hk]
  have hsN : (σ.read1 + 1) % 2 ^ k < 2 ^ k := Nat.mod_lt _ hp
  intro hm
  have ha := f.i.a
  have hgt : σ.read1 < (σ.slot ((σ.read1 + 1) % 2 ^ k)).gen := by have := ha.mark2 _ hsN; omega
  have hhi := ha.genhi _ hsN
  have hgen := ha.gen_of_window (σ.read1 + 1) (by have := ha.r21; omega) (by omega)
  have := filled_le_write f _ hsN (by omega)
  omega

/-- `read2 = write` really means "no reply outstanding" -/
theorem nothing_in_flight_of_eq {k : Nat} (hk : k ≤ 32) {σ : State} (h : Reachable k σ)
    (he : σ.read2 = σ.write) : (σ.slot (slotOf k (σ.read2 + 1))).mark ≠ 2 := by
  have f := Full.of_reachable hk h
  have hp := pow_pos' k
  rw [slotOf_eq k _ hk]
  have hsN : (σ.read2 + 1) % 2 ^ k < 2 ^ k := Nat.mod_lt _ hp
  intro hm
  have ha := f.i.a
  have hgen := ha.gen_of_window (σ.read2 + 1) (by omega) (by omega)
  have hle : σ.read2 + 1 ≤ σ.read1 := by have := (ha.mark2 _ hsN).1 hm; omega
  -- the slot of position read1 is in flight, hence its position was ticketed
  have hs1 : σ.read1 % 2 ^ k < 2 ^ k := Nat.mod_lt _ hp
  have g1 := ha.gen_of_window σ.read1 (by omega) (by have := ha.r1N; omega)
  have m1 := (ha.mark2 _ hs1).2 (by omega)
  have := filled_le_write f _ hs1 (by omega)
  omega

end Rv.Ring
