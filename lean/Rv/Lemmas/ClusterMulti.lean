/-
Lemmas about the batch model (`Rv.Model.ClusterMulti`): the pending map, grouping with index
lists, ASKING interleaving, transaction search, invariants of the round loop.
-/
import Rv.Model.ClusterMulti
namespace Rv.ClusterMultiL
open Rv Rv.Topology Rv.ClusterRoute Rv.ClusterMulti

/-! ### the pending map -/

theorem find_map_hit (cc : Conn) (r : Retry) : ∀ (p : Pending), p.any (fun e => decide (e.1 = cc)) = true →
    (p.map fun e => if e.1 = cc then (cc, r) else e).find? (fun e => decide (e.1 = cc)) = some (cc, r) := by
  intro p
  induction p with
  | nil => intro h; simp at h
  | cons e rest ih =>
    intro h
    by_cases he : e.1 = cc
    · simp [he]
    · simp only [List.any_cons, he, decide_false, Bool.false_or] at h
      simp only [List.map_cons, he, if_false]
      rw [List.find?_cons_of_neg (by simp [he])]
      exact ih h

theorem find_map_other (cc cc' : Conn) (r : Retry) (h : cc' ≠ cc) : ∀ (p : Pending),
    (p.map fun e => if e.1 = cc then (cc, r) else e).find? (fun e => decide (e.1 = cc')) =
      p.find? (fun e => decide (e.1 = cc')) := by
  intro p
  induction p with
  | nil => rfl
  | cons e rest ih =>
    by_cases he : e.1 = cc
    · have hne : ¬ e.1 = cc' := fun h' => h (h'.symm.trans he)
      simp only [List.map_cons, he, if_true]
      rw [List.find?_cons_of_neg (by simp; exact fun h' => h h'.symm), List.find?_cons_of_neg (by simp [hne])]
      exact ih
    · simp only [List.map_cons, he, if_false]
      by_cases hc : e.1 = cc'
      · rw [List.find?_cons_of_pos (by simp [hc]), List.find?_cons_of_pos (by simp [hc])]
      · rw [List.find?_cons_of_neg (by simp [hc]), List.find?_cons_of_neg (by simp [hc])]
        exact ih

theorem pget_pset_same (cc : Conn) (r : Retry) (p : Pending) : pget cc (pset cc r p) = r := by
  unfold pget pset
  by_cases h : p.any (fun e => decide (e.1 = cc)) = true
  · rw [if_pos h, find_map_hit cc r p h]; rfl
  · rw [if_neg h]
    have hn : p.find? (fun e => decide (e.1 = cc)) = none := by
      rw [List.find?_eq_none]
      intro x hx hxe
      exact h (List.any_eq_true.mpr ⟨x, hx, hxe⟩)
    rw [List.find?_append, hn]
    simp

theorem pget_pset_other (cc cc' : Conn) (r : Retry) (p : Pending) (h : cc' ≠ cc) :
    pget cc' (pset cc r p) = pget cc' p := by
  unfold pget pset
  by_cases ha : p.any (fun e => decide (e.1 = cc)) = true
  · rw [if_pos ha, find_map_other cc cc' r h p]
  · rw [if_neg ha, List.find?_append]
    have : List.find? (fun e => decide (e.1 = cc')) [(cc, r)] = none := by
      rw [List.find?_cons_of_neg (by simp; exact fun h' => h h'.symm)]; rfl
    rw [this]
    simp

theorem mem_pset (cc : Conn) (r : Retry) (p : Pending) (x : Conn × Retry) (hx : x ∈ pset cc r p) :
    x = (cc, r) ∨ x ∈ p := by
  unfold pset at hx
  split at hx
  · obtain ⟨e, he, hf⟩ := List.mem_map.mp hx
    by_cases hc : e.1 = cc
    · rw [if_pos hc] at hf; exact Or.inl hf.symm
    · rw [if_neg hc] at hf; exact Or.inr (hf ▸ he)
  · rcases List.mem_append.mp hx with h | h
    · exact Or.inr h
    · exact Or.inl (List.mem_singleton.mp h)

theorem pget_empty_or_mem (cc : Conn) (p : Pending) : pget cc p = {} ∨ ∃ x ∈ p, x.2 = pget cc p := by
  unfold pget
  cases h : p.find? (fun e => decide (e.1 = cc)) with
  | none => exact Or.inl rfl
  | some x => exact Or.inr ⟨x, List.mem_of_find?_eq_some h, rfl⟩

theorem addCmds_cmds (cc : Conn) (es : List Entry) (p : Pending) :
    (pget cc (addCmds cc es p)).cmds = (pget cc p).cmds ++ es ∧ (pget cc (addCmds cc es p)).asks = (pget cc p).asks := by
  unfold addCmds
  simp only [pget_pset_same]
  exact ⟨trivial, trivial⟩

theorem addCmds_other (cc cc' : Conn) (es : List Entry) (p : Pending) (h : cc' ≠ cc) :
    pget cc' (addCmds cc es p) = pget cc' p := by
  unfold addCmds
  exact pget_pset_other cc cc' _ p h

theorem addAsks_asks (cc : Conn) (es : List Entry) (p : Pending) :
    (pget cc (addAsks cc es p)).asks = (pget cc p).asks ++ es ∧ (pget cc (addAsks cc es p)).cmds = (pget cc p).cmds := by
  unfold addAsks
  simp only [pget_pset_same]
  exact ⟨trivial, trivial⟩

/-! ### grouping -/

theorem groupBy_spec (cc : Conn) : ∀ (L : List (Entry × Conn)) (p : Pending),
    (pget cc (groupBy L p)).cmds = (pget cc p).cmds ++ ((L.filter fun x => decide (x.2 = cc)).map (·.1)) ∧
    (pget cc (groupBy L p)).asks = (pget cc p).asks := by
  intro L
  induction L with
  | nil => intro p; simp [groupBy]
  | cons x rest ih =>
    intro p
    obtain ⟨e, c0⟩ := x
    unfold groupBy
    obtain ⟨h1, h2⟩ := ih (addCmds c0 [e] p)
    by_cases hc : c0 = cc
    · subst hc
      obtain ⟨a1, a2⟩ := addCmds_cmds c0 [e] p
      rw [h1, h2, a1, a2]
      simp [List.filter_cons]
    · have := addCmds_other c0 cc [e] p (fun h => hc h.symm)
      rw [h1, h2, this]
      simp [List.filter_cons, hc]

theorem enumFrom_getElem? {α : Type} : ∀ (xs : List α) (k j : Nat),
    (enumFrom k xs)[j]? = (xs[j]?).map fun x => (k + j, x) := by
  intro xs
  induction xs with
  | nil => intro k j; simp [enumFrom]
  | cons x rest ih =>
    intro k j
    cases j with
    | zero => simp [enumFrom]
    | succ j =>
      simp only [enumFrom, List.getElem?_cons_succ]
      rw [ih (k + 1) j]
      cases rest[j]? <;> simp <;> omega

theorem enumFrom_length {α : Type} : ∀ (xs : List α) (k : Nat), (enumFrom k xs).length = xs.length := by
  intro xs
  induction xs with
  | nil => intro k; rfl
  | cons x rest ih => intro k; simp [enumFrom, ih]

theorem enumZip_lower {α β : Type} : ∀ (xs : List α) (ys : List β) (k : Nat),
    ∀ a ∈ (enumFrom k xs).zip ys, k ≤ a.1.1 := by
  intro xs
  induction xs with
  | nil => intro ys k a h; simp [enumFrom] at h
  | cons x rest ih =>
    intro ys k a h
    cases ys with
    | nil => simp at h
    | cons y ys =>
      simp only [enumFrom, List.zip_cons_cons, List.mem_cons] at h
      rcases h with h | h
      · subst h; simp
      · have := ih ys (k + 1) a h; omega

theorem enumZip_sorted {α β : Type} : ∀ (xs : List α) (ys : List β) (k : Nat),
    ((enumFrom k xs).zip ys).Pairwise fun a b => a.1.1 < b.1.1 := by
  intro xs
  induction xs with
  | nil => intro ys k; simp [enumFrom]
  | cons x rest ih =>
    intro ys k
    cases ys with
    | nil => simp
    | cons y ys =>
      simp only [enumFrom, List.zip_cons_cons, List.pairwise_cons]
      refine ⟨?_, ih ys (k + 1)⟩
      intro a ha
      have := enumZip_lower rest ys (k + 1) a ha
      omega

/-! ### ASKING interleaving -/

theorem askingItems_strip : ∀ (es : List Entry) (b : Bool),
    (askingItems b es).filter (fun it => !decide (it = Item.asking)) = es.map fun e => Item.cmd e.2.id := by
  intro es
  induction es with
  | nil => intro b; cases b <;> rfl
  | cons e rest ih =>
    intro b
    cases b with
    | true =>
      simp only [askingItems, List.map_cons]
      rw [List.filter_cons_of_pos (by simp), ih]
    | false =>
      simp only [askingItems, List.map_cons]
      rw [List.filter_cons_of_neg (by simp), List.filter_cons_of_pos (by simp), ih]

/-- inside a transaction no ASKING is inserted until the EXEC has passed -/
theorem askingItems_inTx (members : List Entry) (x : Entry) (rest : List Entry)
    (hm : ∀ e ∈ members, e.2.isExec = false) (hx : x.2.isExec = true) :
    askingItems true (members ++ x :: rest) =
      (members.map fun e => Item.cmd e.2.id) ++ Item.cmd x.2.id :: askingItems false rest := by
  induction members with
  | nil => simp [askingItems, hx]
  | cons e ms ih =>
    have he : e.2.isExec = false := hm e (List.mem_cons_self ..)
    simp only [List.cons_append, askingItems, he, Bool.not_false, List.map_cons]
    rw [ih (fun e' h' => hm e' (List.mem_cons_of_mem _ h'))]

/-! ### transaction search -/

def marker (cs : List Entry) (k : Nat) : Bool := isM cs k || isE cs k

theorem scanDown_spec (cs : List Entry) (m : Nat) (hm : marker cs m = true) : ∀ (j : Nat), m ≤ j →
    (∀ k, m < k → k ≤ j → marker cs k = false) → scanDown cs j = some m := by
  intro j
  induction j with
  | zero =>
    intro h _
    have : m = 0 := by omega
    subst this
    unfold scanDown
    simp only [marker] at hm
    simp [hm]
  | succ j ih =>
    intro h hno
    unfold scanDown
    by_cases e : m = j + 1
    · subst e
      simp only [marker] at hm
      simp [hm]
    · have hj := hno (j + 1) (by omega) (by omega)
      simp only [marker] at hj
      simp only [hj]
      exact ih (by omega) (fun k h1 h2 => hno k h1 (by omega))

theorem scanUp_spec (cs : List Entry) (e : Nat) (he : e < cs.length) (hm : marker cs e = true) : ∀ (fuel i : Nat),
    i ≤ e → e - i < fuel → (∀ k, i ≤ k → k < e → marker cs k = false) → scanUp cs fuel i = e := by
  intro fuel
  induction fuel with
  | zero => intro i _ h _; omega
  | succ fuel ih =>
    intro i hi hf hno
    unfold scanUp
    by_cases hie : i = e
    · subst hie
      simp only [marker] at hm
      simp [hm]
    · have hk := hno i (Nat.le_refl _) (by omega)
      simp only [marker] at hk
      have hlt : i < cs.length := by omega
      simp only [hlt, hk, Bool.not_false, and_self, if_true]
      exact ih (i + 1) (by omega) (by omega) (fun k h1 h2 => hno k (by omega) h2)

end Rv.ClusterMultiL
