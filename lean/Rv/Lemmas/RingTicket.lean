import Rv.Lemmas.RingInvB
import Rv.Lemmas.RingCount
namespace Rv.Ring

/-- the queue position the next fill of slot s will get -/
def fillNext (k : Nat) (σ : State) (s : Nat) : Nat :=
  if (σ.slot s).mark = 0 then (σ.slot s).gen else (σ.slot s).gen + 2 ^ k

/-- ticket accounting per slot: positions filled + callers still holding a ticket for the slot
    = tickets issued for the slot -/
structure InvT (k : Nat) (σ : State) : Prop where
  topmod : ∀ s, s < 2 ^ k → σ.top s % 2 ^ k = s
  toplo : ∀ s, s < 2 ^ k → σ.write < σ.top s
  tophi : ∀ s, s < 2 ^ k → σ.top s ≤ σ.write + 2 ^ k
  cntI : ∀ s, s < 2 ^ k → fillNext k σ s + 2 ^ k * cnt σ.pc (outB s) σ.ncalls = σ.top s

theorem InvT.init (k : Nat) : InvT k (init k) := by
  have hp := pow_pos' k
  refine ⟨?_, ?_, ?_, ?_⟩
  · intro s hs; simp only [Ring.init, gen0]; split
    · subst_vars; simp
    · exact Nat.mod_eq_of_lt hs
  · intro s hs; simp only [Ring.init, gen0]; split <;> omega
  · intro s hs; simp only [Ring.init, gen0]; split <;> omega
  · intro s hs; simp [Ring.init, fillNext, cnt]

theorem InvT.congr {k : Nat} {σ τ : State} (h : InvT k σ)
    (ew : τ.write = σ.write) (en : τ.ncalls = σ.ncalls) (et : τ.top = σ.top)
    (ef : ∀ s, fillNext k τ s = fillNext k σ s)
    (ec : ∀ s, cnt τ.pc (outB s) σ.ncalls = cnt σ.pc (outB s) σ.ncalls) : InvT k τ := by
  refine ⟨?_, ?_, ?_, ?_⟩
  · rw [et]; exact h.topmod
  · rw [et, ew]; exact h.toplo
  · rw [et, ew]; exact h.tophi
  · intro s hs; rw [ef, en, ec, et]; exact h.cntI s hs

theorem cnt_swap (f : Nat → Pc) (s c n : Nat) (v : Pc) (hc : c < n) (e : outB s v = outB s (f c)) :
    cnt (upd f c v) (outB s) n = cnt f (outB s) n := by
  have := cnt_upd f (outB s) c v n hc
  rw [e] at this; omega

theorem lt_ncalls {k : Nat} {σ : State} (hi : Inv k σ) (c : Nat) (h : σ.pc c ≠ .idle) : c < σ.ncalls := by
  apply Classical.byContradiction
  intro hn
  exact h (hi.b.fresh c (by omega))

theorem InvT.step {k : Nat} (hk : k ≤ 32) {σ : State} (hi : Inv k σ) (h : InvT k σ) (l : Label)
    (he : enabled k l σ = true) : InvT k (apply k l σ) := by
  have hp := pow_pos' k
  cases l with
  | arrive =>
    simp only [Ring.apply]
    have hs0 : slotOf k (σ.write + 1) = (σ.write + 1) % 2 ^ k := slotOf_eq k _ hk
    have hs0N : slotOf k (σ.write + 1) < 2 ^ k := hs0 ▸ Nat.mod_lt _ hp
    have htop : σ.top (slotOf k (σ.write + 1)) = σ.write + 1 := by
      have a := h.topmod _ hs0N
      have b := h.toplo _ hs0N
      have c := h.tophi _ hs0N
      exact mod_window_unique (2 ^ k) _ _ (by rw [a, hs0]) (by omega) (by omega)
    generalize slotOf k (σ.write + 1) = s0 at *
    refine ⟨?_, ?_, ?_, ?_⟩
    · intro s hs; simp only [upd_apply]; split
      · rename_i e; subst e; rw [Nat.add_mod_right]; exact h.topmod s hs
      · exact h.topmod s hs
    · intro s hs; simp only [upd_apply]; split
      · rename_i e; subst e; omega
      · rename_i e
        have a := h.toplo s hs
        have b := h.topmod s hs
        have : σ.top s ≠ σ.write + 1 := by
          intro e2; rw [e2, ← hs0] at b; exact e b.symm
        omega
    · intro s hs; simp only [upd_apply]; split
      · rename_i e; subst e; omega
      · have := h.tophi s hs; omega
    · intro s hs
      have hc := h.cntI s hs
      show fillNext k σ s + 2 ^ k * cnt (upd σ.pc σ.ncalls (Pc.ready s0)) (outB s) (σ.ncalls + 1) = _
      rw [cnt_succ, cnt_upd_ge _ _ _ _ _ (Nat.le_refl _), upd_same]
      simp only [upd_apply]
      by_cases e : s = s0
      · subst e; simp [outB, Nat.mul_succ]; omega
      · have : outB s (Pc.ready s0) = false := by simp [outB]; exact fun e2 => e e2.symm
        simp [this, e]; exact hc
  | enter c =>
    simp only [Ring.apply]
    split
    · rename_i s0 hpc
      have hcl := lt_ncalls hi c (by rw [hpc]; simp)
      split
      · rename_i hm
        refine ⟨h.topmod, h.toplo, h.tophi, ?_⟩
        intro s hs
        have hc := h.cntI s hs
        have hu := cnt_upd σ.pc (outB s) c (if (σ.slot s0).slept then Pc.bcast s0 else Pc.filled s0) σ.ncalls hcl
        have hv : outB s (if (σ.slot s0).slept then Pc.bcast s0 else Pc.filled s0) = false := by
          split <;> simp [outB]
        rw [hv, hpc] at hu
        simp only [fillNext, upd_apply] at hc ⊢
        by_cases e : s = s0
        · subst e
          have : outB s (Pc.ready s) = true := by simp [outB]
          rw [this] at hu
          simp only [if_true, hm] at hc ⊢
          simp at hu ⊢
          have : 2 ^ k * cnt σ.pc (outB s) σ.ncalls = 2 ^ k * cnt (upd σ.pc c (if (σ.slot s).slept = true then Pc.bcast s else Pc.filled s)) (outB s) σ.ncalls + 2 ^ k := by
            rw [← hu, Nat.mul_succ]
          omega
        · have : outB s (Pc.ready s0) = false := by simp [outB]; exact fun e2 => e e2.symm
          rw [this] at hu
          simp only [e, if_false] at hc ⊢
          simp at hu
          rw [hu]; exact hc
      · refine h.congr rfl rfl rfl (fun _ => rfl) ?_
        intro s; exact cnt_swap _ _ _ _ _ hcl (by rw [hpc]; simp [outB])
    · exact h
  | bcast c =>
    simp only [Ring.apply]
    split
    · rename_i s0 hpc
      have hcl := lt_ncalls hi c (by rw [hpc]; simp)
      refine h.congr rfl rfl rfl (fun _ => rfl) ?_
      intro s; exact cnt_swap _ _ _ _ _ hcl (by rw [hpc]; simp [outB])
    · exact h
  | wTry =>
    simp only [Ring.apply]
    split
    · rename_i hm
      refine h.congr rfl rfl rfl ?_ (fun _ => rfl)
      intro s; simp only [fillNext, Ring.take, upd_apply]; split
      · rename_i e; subst e; simp [hm]
      · rfl
    · exact h
  | wWait =>
    simp only [Ring.apply]
    split
    · rename_i hm
      refine h.congr rfl rfl rfl ?_ (fun _ => rfl)
      intro s; simp only [fillNext, Ring.take, upd_apply]; split
      · rename_i e; subst e; simp [hm]
      · rfl
    · refine h.congr rfl rfl rfl ?_ (fun _ => rfl)
      intro s; simp only [fillNext, upd_apply]; split
      · rename_i e; subst e; rfl
      · rfl
  | wWake =>
    simp only [Ring.apply]
    split
    · rename_i s0 hw
      split
      · rename_i hm
        refine h.congr rfl rfl rfl ?_ (fun _ => rfl)
        intro s; simp only [fillNext, Ring.take, upd_apply]; split
        · rename_i e; subst e; simp [hm]
        · rfl
      · refine h.congr rfl rfl rfl ?_ (fun _ => rfl)
        intro s; simp only [fillNext, upd_apply]; split
        · rename_i e; subst e; rfl
        · rfl
    · exact h
  | rBegin =>
    simp only [Ring.apply]
    split
    · rename_i hm
      refine h.congr rfl rfl rfl ?_ (fun _ => rfl)
      intro s; simp only [fillNext, upd_apply]; split
      · rename_i e; subst e; simp [hm]
      · rfl
    · exact h.congr rfl rfl rfl (fun _ => rfl) (fun _ => rfl)
  | rDeliver c =>
    simp only [Ring.apply]
    split
    · rename_i s0 r hr
      simp only [enabled, hr] at he
      have hpc : σ.pc c = .filled s0 := by simpa using he
      have hcl := lt_ncalls hi c (by rw [hpc]; simp)
      refine h.congr rfl rfl rfl (fun _ => rfl) ?_
      intro s; exact cnt_swap _ _ _ _ _ hcl (by rw [hpc]; simp [outB])
    · exact h
  | rUnlock =>
    simp only [Ring.apply]
    split
    · exact h.congr rfl rfl rfl (fun _ => rfl) (fun _ => rfl)
    · exact h
  | rSignal w =>
    simp only [Ring.apply]
    split
    · rename_i s0 hr
      simp only [enabled, hr] at he
      split
      · rename_i c
        have hpc : σ.pc c = .waiting s0 := by simpa using he
        have hcl := lt_ncalls hi c (by rw [hpc]; simp)
        refine h.congr rfl rfl rfl (fun _ => rfl) ?_
        intro s; exact cnt_swap _ _ _ _ _ hcl (by rw [hpc]; simp [outB])
      · exact h.congr rfl rfl rfl (fun _ => rfl) (fun _ => rfl)
    · exact h

end Rv.Ring
