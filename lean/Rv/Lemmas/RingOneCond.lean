/-
Sensitivity of the deadlock-freedom theorems to the wake-up targets.

In the model of ring.go (Rv/Model/Ring.lean) every slot has TWO wait sets:
  c1 — callers in `Pc.waiting s`;  woken by `rSignal (some c)` (FinishResult: c1.Signal, one waiter)
  c2 — the writer in `WPc.sleeping s`; woken by `bcast c` (PutOne/PutMulti: c2.Broadcast)
`C02.no_stuck` / `C02.ring_no_deadlock` / `C02.ring_progress` are theorems about exactly that
assignment. This file defines the variant with ONE wait set per slot (writer and callers park
on the same condition variable; FinishResult's Signal wakes one arbitrary member of it, the
callers' Broadcast wakes all of it) and exhibits a reachable deadlock in it: ring of 2 slots
full of in-flight commands, writer parked on the oldest slot, one more caller parked behind it;
the reader's Signal goes to the writer, which finds mark = 0 and parks again; nobody wakes the
caller. So the theorems do depend on who is signalled by which step.
-/
import Rv.Lemmas.RingLive
namespace Rv.Ring.OneCond
open Rv.Ring

inductive Label1
  | base (l : Label)
  | rSignalWriter        -- FinishResult's Signal picks the writer out of the shared wait set
deriving DecidableEq, Repr

def enabled1 (k : Nat) : Label1 → State → Bool
  | .rSignalWriter, σ => match σ.rpc with
    | .signal s => σ.wpc == .sleeping s
    | _ => false
  | .base (.rSignal none), σ =>
    -- "no waiter" now also requires that the writer is not parked on this slot
    enabled k (.rSignal none) σ && (match σ.rpc with
      | .signal s => σ.wpc != .sleeping s
      | _ => true)
  | .base l, σ => enabled k l σ

def apply1 (k : Nat) : Label1 → State → State
  | .rSignalWriter, σ => match σ.rpc with
    | .signal s => { σ with rpc := .idle, wpc := .woken s }
    | _ => σ
  | .base (.bcast c), σ =>
    -- Broadcast on the shared condition variable wakes the writer and every waiting caller
    match σ.pc c with
    | .bcast s =>
      let σ' := apply k (.bcast c) σ
      { σ' with pc := fun c' => if σ'.pc c' = .waiting s then .ready s else σ'.pc c' }
    | _ => σ
  | .base l, σ => apply k l σ

/-- as `Ring.productive`; in addition a woken writer that finds its slot unfilled just parks again -/
def productive1 (k : Nat) : Label1 → State → Bool
  | .rSignalWriter, _ => true
  | .base .wWake, σ => match σ.wpc with
    | .woken s => (σ.slot s).mark == 1
    | _ => true
  | .base l, σ => productive k l σ

def run1 (k : Nat) : State → List Label1 → Option State
  | σ, [] => some σ
  | σ, l :: ls => if enabled1 k l σ then run1 k (apply1 k l σ) ls else none

/-- all labels that mention callers that have arrived (the others are never enabled) -/
def labels (σ : State) : List Label1 :=
  [.rSignalWriter, .base .wTry, .base .wWait, .base .wWake, .base .rBegin, .base .rUnlock,
   .base (.rSignal none)] ++
  (List.range σ.ncalls).flatMap fun c =>
    [.base (.enter c), .base (.bcast c), .base (.rDeliver c), .base (.rSignal (some c))]

/-- no productive transition is enabled -/
def stuck1 (k : Nat) (σ : State) : Bool :=
  (labels σ).all fun l => !(enabled1 k l σ && productive1 k l σ)

/-- 2 slots: callers 0 and 1 fill both, the writer takes both and parks on slot 1 (mark 2);
    caller 2 (ticket 3 → slot 1) parks behind it; the reader completes position 1 and its Signal
    wakes the writer, which parks again; the reader completes position 2 -/
def deadlockSchedule : List Label1 :=
  [.base .arrive, .base .arrive, .base (.enter 0), .base (.enter 1), .base .wTry, .base .wTry,
   .base .wWait, .base .arrive, .base (.enter 2),
   .base .rBegin, .base (.rDeliver 0), .base .rUnlock, .rSignalWriter, .base .wWake,
   .base .rBegin, .base (.rDeliver 1), .base .rUnlock, .base (.rSignal none)]

/-- the one-condition-variable variant deadlocks: caller 2 waits for ever on a free slot, the
    writer sleeps on that slot, the reader is idle with nothing left to answer -/
theorem one_cond_var_deadlocks :
    (run1 1 (init 1) deadlockSchedule).map
      (fun σ => stuck1 1 σ && σ.pc 2 == .waiting 1 && σ.wpc == .sleeping 1 && σ.rpc == .idle &&
        (σ.slot 1).mark == 0 && σ.read1 == 2 && σ.read2 == 2) = some true := by
  decide

/-- in the model of the code as it is, the same situation cannot lose the wake-up: after the
    reader unlocked slot 1 the only enabled Signal outcome is "caller 2 is woken" -/
theorem two_cond_vars_wake_the_caller :
    (run 1 (init 1)
      [.arrive, .arrive, .enter 0, .enter 1, .wTry, .wTry, .wWait, .arrive, .enter 2,
       .rBegin, .rDeliver 0, .rUnlock]).map
      (fun σ => !enabled 1 (.rSignal none) σ && enabled 1 (.rSignal (some 2)) σ &&
        σ.wpc == .sleeping 1) = some true := by
  decide

end Rv.Ring.OneCond
