/-
Lemmas for C17: word arithmetic of the 8-byte length field, the header reader, and the main
structural induction (Msg.rec with a list motive): `unView` inverts `serialize` and fails
with ErrCacheUnmarshal on every proper prefix.
-/
import Rv.Model.CacheMarshal
namespace Rv.CodecL
open Rv Rv.CacheMarshal

/-! ### word arithmetic -/

theorem be8_length (n : Nat) : (be8 n).length = 8 := rfl

theorem rd8_be8 (n : Nat) (h : n < 18446744073709551616) : rd8 (be8 n) = n := by
  simp only [rd8, be8, List.foldl, UInt8.toNat_ofNat']
  omega

theorem i64_nat (n : Nat) (h : n < 9223372036854775808) : i64 n = n := by
  unfold i64; rw [if_pos h]

theorem i64_u64 (v : Int) (h1 : -9223372036854775808 ≤ v) (h2 : v < 9223372036854775808) : i64 (u64 v) = v := by
  unfold i64 u64; split <;> omega

theorem u64_lt (v : Int) : u64 v < 18446744073709551616 := by unfold u64; omega

/-! ### header -/

theorem hdr_short (bs : List UInt8) (h : bs.length < 9) : hdr bs = none := by
  cases bs with
  | nil => rfl
  | cons t r =>
    have : r.length < 8 := by simp at h; omega
    simp [hdr, this]

theorem hdr_frame (t : UInt8) (n : Nat) (hn : n < 18446744073709551616) (rest : List UInt8) :
    hdr (t :: (be8 n ++ rest)) = some (t, i64 n, rest) := by
  have h1 : ¬ (be8 n ++ rest).length < 8 := by simp [be8_length]
  have h2 : (be8 n ++ rest).take 8 = be8 n := by
    rw [List.take_append_of_le_length (by simp [be8_length])]
    exact List.take_of_length_le (by simp [be8_length])
  have h3 : (be8 n ++ rest).drop 8 = rest := by
    have := List.drop_append_of_le_length (l₁ := be8 n) (l₂ := rest) (i := 8) (by simp [be8_length])
    rw [this]; simp [be8_length]
  simp only [hdr, h1, if_false, h2, h3, rd8_be8 n hn]

theorem allocMsgs_ok (L n : Nat) (hL : L ≤ maxAlloc) (h : n * msgBytes ≤ L) : allocMsgs L (n : Int) = .ok () := by
  unfold allocMsgs
  have h1 : ¬ ((n : Int) < 0) := by omega
  have h2 : ¬ ((n : Int).toNat * msgBytes > maxAlloc) := by simp; omega
  have h3 : ¬ ((n : Int).toNat * msgBytes > L) := by simp; omega
  rw [if_neg h1, if_neg h2, if_neg h3]

theorem strCase_ok (c : Nat) (t : UInt8) (s rest : List UInt8) (hc : c < 4611686018427387904)
    (hs : s.length < 4611686018427387904) :
    strCase c t (s.length : Int) (s ++ rest) = .ok (Msg.mk t s s.length [] [], rest) := by
  unfold strCase
  have h1 : ¬ ((s.length : Int) < 0) := by omega
  have h2 : ¬ ((c : Int) + (s.length : Int) ≥ 9223372036854775808) := by omega
  have h3 : ¬ ((s ++ rest).length < (s.length : Int).toNat) := by simp
  rw [if_neg h1, if_neg h2, if_neg h3]
  simp

theorem strCase_short (c : Nat) (t : UInt8) (n : Nat) (r : List UInt8) (hc : c < 4611686018427387904)
    (hs : n < 4611686018427387904) (hr : r.length < n) :
    strCase c t (n : Int) r = .err errUnmarshal := by
  unfold strCase
  have h1 : ¬ ((n : Int) < 0) := by omega
  have h2 : ¬ ((c : Int) + (n : Int) ≥ 9223372036854775808) := by omega
  have h3 : r.length < (n : Int).toNat := by simpa using hr
  rw [if_neg h1, if_neg h2, if_pos h3]

theorem take_frame (k : Nat) (hk : 9 ≤ k) (t : UInt8) (n : Nat) (X : List UInt8) :
    (t :: (be8 n ++ X)).take k = t :: (be8 n ++ X.take (k - 9)) := by
  obtain ⟨j, rfl⟩ : ∃ j, k = j + 9 := ⟨k - 9, by omega⟩
  rw [show j + 9 = (j + 8) + 1 from rfl, List.take_succ_cons, List.take_append]
  rw [List.take_of_length_le (by simp [be8_length])]
  simp [be8_length]


/-! ### sizes, nesting depth, representable trees -/

mutual
/-- nesting depth of what `serialize` writes (children of non-aggregates are not written) -/
def depth : Msg → Nat
  | .mk t _ _ xs _ => match kindOf t with
    | .agg => 1 + depthL xs
    | _ => 1
def depthL : List Msg → Nat
  | [] => 0
  | x :: xs => max (depth x) (depthL xs)
end

/-- per-node size conditions: integers are int64, strings are shorter than 2^62 bytes,
    an element slice fits in one allocation of `L` bytes -/
def FitsNode (L : Nat) (k : Kind) (s : List UInt8) (i : Int) (n : Nat) : Prop :=
  match k with
  | .int => -9223372036854775808 ≤ i ∧ i < 9223372036854775808
  | .agg => n * msgBytes ≤ L
  | .str => s.length < 4611686018427387904

mutual
def Fits (L : Nat) : Msg → Prop
  | .mk t s i xs _ => FitsNode L (kindOf t) s i xs.length ∧ FitsL L xs
def FitsL (L : Nat) : List Msg → Prop
  | [] => True
  | x :: xs => Fits L x ∧ FitsL L xs
end

theorem serialize_length : ∀ m : Msg, (serialize m).length = cachesize m := by
  intro m
  refine Msg.rec (motive_1 := fun m => (serialize m).length = cachesize m)
    (motive_2 := fun xs => (serializeL xs).length = cachesizeL xs) ?_ ?_ ?_ m
  · intro t s i xs ats ih _
    simp only [serialize, cachesize, List.length_cons]
    cases kindOf t <;> simp [frame, frameSize, be8_length, ih] <;> omega
  · rfl
  · intro x xs ihx ihxs
    simp [serializeL, cachesizeL, ihx, ihxs]

theorem depth_le : ∀ m : Msg, 9 * depth m ≤ (serialize m).length := by
  intro m
  refine Msg.rec (motive_1 := fun m => 9 * depth m ≤ (serialize m).length)
    (motive_2 := fun xs => 9 * depthL xs ≤ (serializeL xs).length) ?_ ?_ ?_ m
  · intro t s i xs ats ih _
    simp only [serialize, depth, List.length_cons]
    cases kindOf t <;> simp [frame, be8_length] <;> omega
  · simp [depthL]
  · intro x xs ihx ihxs
    simp only [serializeL, depthL, List.length_append]
    omega

/-- round trip and truncation for one message -/
def MsgOK (L : Nat) (m : Msg) : Prop :=
  Fits L m →
  (∀ tot f rest, tot < 4611686018427387904 → depth m ≤ f →
      unView L tot f (serialize m ++ rest) = .ok (norm m, rest)) ∧
  (∀ tot f k, tot < 4611686018427387904 → k < (serialize m).length → k < 9 * f →
      unView L tot f ((serialize m).take k) = .err errUnmarshal)

def ListOK (L : Nat) (xs : List Msg) : Prop :=
  FitsL L xs →
  (∀ tot f rest, tot < 4611686018427387904 → depthL xs ≤ f →
      loopN (unView L tot f) xs.length (serializeL xs ++ rest) = .ok (normL xs, rest)) ∧
  (∀ tot f k, tot < 4611686018427387904 → k < (serializeL xs).length → k < 9 * f →
      loopN (unView L tot f) xs.length ((serializeL xs).take k) = .err errUnmarshal)

theorem list_nil (L : Nat) : ListOK L [] := by
  intro _
  refine ⟨?_, ?_⟩
  · intro tot f rest _ _; simp [loopN, serializeL, normL]
  · intro tot f k _ hk _; simp [serializeL] at hk

theorem list_cons (L : Nat) (x : Msg) (xs : List Msg) (hx : MsgOK L x) (hxs : ListOK L xs) : ListOK L (x :: xs) := by
  intro hf
  obtain ⟨hfx, hfxs⟩ := hf
  obtain ⟨rx, tx⟩ := hx hfx
  obtain ⟨rxs, txs⟩ := hxs hfxs
  refine ⟨?_, ?_⟩
  · intro tot f rest ht hd
    simp only [depthL] at hd
    simp only [serializeL, List.length_cons, loopN, List.append_assoc, normL]
    rw [rx tot f _ ht (by omega)]
    simp only []
    rw [rxs tot f rest ht (by omega)]
  · intro tot f k ht hk hkf
    simp only [serializeL, List.length_append] at hk
    simp only [serializeL, List.length_cons, loopN]
    by_cases hlt : k < (serialize x).length
    · rw [List.take_append_of_le_length (by omega), tx tot f k ht hlt hkf]
    · have hd := depth_le x
      rw [List.take_append, List.take_of_length_le (by omega)]
      rw [rx tot f _ ht (by omega)]
      simp only []
      rw [txs tot f _ ht (by omega) (by omega)]

theorem msg_ok (L : Nat) (hL : L ≤ maxAlloc) (t : UInt8) (s : List UInt8) (i : Int) (xs ats : List Msg)
    (hxs : ListOK L xs) : MsgOK L (.mk t s i xs ats) := by
  intro hf
  obtain ⟨hnode, hkids⟩ := hf
  have hlen := serialize_length (.mk t s i xs ats)
  refine ⟨?_, ?_⟩
  · intro tot f rest ht hd
    cases f with
    | zero => simp only [depth] at hd; cases hk : kindOf t <;> simp [hk] at hd
    | succ f =>
      simp only [serialize, norm, depth] at *
      cases hk : kindOf t
      · -- int
        simp only [hk, FitsNode] at hnode
        simp only [frame, unView, List.cons_append]
        rw [hdr_frame t _ (u64_lt i)]
        simp only [hk]
        rw [i64_u64 i hnode.1 hnode.2]
      · -- agg
        simp only [hk, FitsNode] at hnode
        simp only [hk] at hd
        have h40 : xs.length * 40 ≤ L := hnode
        have hL' : L ≤ 281474976710656 := hL
        have hn : xs.length < 18446744073709551616 := by omega
        have hn' : xs.length < 9223372036854775808 := by omega
        simp only [frame, unView, List.cons_append, List.append_assoc]
        rw [hdr_frame t _ hn]
        simp only [hk]
        rw [i64_nat _ hn', allocMsgs_ok L _ hL hnode, Int.toNat_natCast]
        rw [(hxs hkids).1 tot f rest ht (by omega)]
        rfl
      · -- str
        simp only [hk, FitsNode] at hnode
        simp only [frame, unView, List.cons_append, List.append_assoc]
        rw [hdr_frame t _ (by omega)]
        simp only [hk]
        rw [i64_nat _ (by omega)]
        exact strCase_ok _ t s rest (by omega) hnode
  · intro tot f k ht hk hkf
    cases f with
    | zero => omega
    | succ f =>
      by_cases h9 : k < 9
      · simp only [unView]
        rw [hdr_short _ (by simp; omega)]
      · simp only [serialize] at hk ⊢
        cases hkind : kindOf t
        · simp [hkind, frame, be8_length] at hk; omega
        · -- agg
          simp only [hkind, FitsNode] at hnode
          have h40 : xs.length * 40 ≤ L := hnode
          have hL' : L ≤ 281474976710656 := hL
          have hn : xs.length < 18446744073709551616 := by omega
          have hn' : xs.length < 9223372036854775808 := by omega
          simp only [hkind, frame, List.length_cons, List.length_append, be8_length] at hk
          simp only [frame]
          rw [take_frame k (by omega), unView, hdr_frame t _ hn]
          simp only [hkind]
          rw [i64_nat _ hn', allocMsgs_ok L _ hL hnode, Int.toNat_natCast]
          rw [(hxs hkids).2 tot f (k - 9) ht (by omega) (by omega)]
          rfl
        · -- str
          simp only [hkind, FitsNode] at hnode
          simp only [hkind, frame, List.length_cons, List.length_append, be8_length] at hk
          simp only [frame]
          rw [take_frame k (by omega), unView, hdr_frame t _ (by omega)]
          simp only [hkind]
          rw [i64_nat _ (by omega)]
          exact strCase_short _ t _ _ (by omega) hnode (by simp; omega)

theorem all_ok (L : Nat) (hL : L ≤ maxAlloc) (m : Msg) : MsgOK L m := by
  refine Msg.rec (motive_1 := fun m => MsgOK L m) (motive_2 := fun xs => ListOK L xs) ?_ ?_ ?_ m
  · intro t s i xs ats ihxs _; exact msg_ok L hL t s i xs ats ihxs
  · exact list_nil L
  · intro x xs ihx ihxs; exact list_cons L x xs ihx ihxs

end Rv.CodecL
