/-
C29 helper: the C12 reader model is monotone in its fuel — a successful read stays the
same read with more fuel. Consequence (`readNext_ok_det`): whenever `readNext` succeeds on
the encoding of a well-formed wire form followed by `tl` — with *any* fuel — it returned
the denoted value and left exactly `tl`.
-/
import Rv.Lemmas.RespRound2
namespace Rv.StreamL
open Rv Rv.Resp Rv.Spec Rv.RespL

theorem wrapFixed_mono (t : UInt8) (len : Int) (a b : Res (List Msg × List UInt8))
    (h : ∀ y, a = .ok y → b = .ok y) (x) (hx : wrapFixed t len a = .ok x) : wrapFixed t len b = .ok x := by
  cases a with
  | ok y => rw [h y rfl]; exact hx
  | err e => simp [wrapFixed] at hx
  | panic => simp [wrapFixed] at hx
  | oom => simp [wrapFixed] at hx

theorem wrapStream_mono (t : UInt8) (a b : Res (List Msg × List UInt8))
    (h : ∀ y, a = .ok y → b = .ok y) (x) (hx : wrapStream t a = .ok x) : wrapStream t b = .ok x := by
  cases a with
  | ok y => rw [h y rfl]; exact hx
  | err e => simp [wrapStream] at hx
  | panic => simp [wrapStream] at hx
  | oom => simp [wrapStream] at hx

theorem fixedBody_mono (t : UInt8) (len : Int) (k k' : Nat → Res (List Msg × List UInt8))
    (h : ∀ n y, k n = .ok y → k' n = .ok y) (x) (hx : fixedBody t len k = .ok x) : fixedBody t len k' = .ok x := by
  unfold fixedBody at hx ⊢
  cases hp : preFixed len with
  | ok u => rw [hp] at hx; exact wrapFixed_mono t len _ _ (h _) x hx
  | err e => rw [hp] at hx; cases hx
  | panic => rw [hp] at hx; cases hx
  | oom => rw [hp] at hx; cases hx

theorem arrCase_mono (t : UInt8) (ri : IRes) (kA kA' : Nat → List UInt8 → Res (List Msg × List UInt8))
    (kE kE' : List UInt8 → Res (List Msg × List UInt8))
    (hA : ∀ n r y, kA n r = .ok y → kA' n r = .ok y) (hE : ∀ r y, kE r = .ok y → kE' r = .ok y)
    (x) (hx : arrCase t ri kA kE = .ok x) : arrCase t ri kA' kE' = .ok x := by
  cases ri with
  | num len r =>
    unfold arrCase at hx ⊢
    simp only at hx ⊢
    split
    · rename_i h; simpa [h] using hx
    · rename_i h; simp only [h, if_false] at hx
      exact fixedBody_mono t len _ _ (fun n y => hA n r y) x hx
  | chunked r0 =>
    unfold arrCase at hx ⊢
    exact wrapStream_mono t _ _ (hE r0) x hx
  | fail e => unfold arrCase at hx; cases hx

theorem mapCase_mono (t : UInt8) (ri : IRes) (kA kA' : Nat → List UInt8 → Res (List Msg × List UInt8))
    (kE kE' : List UInt8 → Res (List Msg × List UInt8))
    (hA : ∀ n r y, kA n r = .ok y → kA' n r = .ok y) (hE : ∀ r y, kE r = .ok y → kE' r = .ok y)
    (x) (hx : mapCase t ri kA kE = .ok x) : mapCase t ri kA' kE' = .ok x := by
  cases ri with
  | num len r =>
    unfold mapCase at hx ⊢
    exact fixedBody_mono t _ _ _ (fun n y => hA n r y) x hx
  | chunked r0 =>
    unfold mapCase at hx ⊢
    exact wrapStream_mono t _ _ (hE r0) x hx
  | fail e => unfold mapCase at hx; cases hx

/-- leaf readers do not look at the fuel -/
theorem leaf_body_fuel (B f g : Nat) (t : UInt8) (rk : RK) (bs : List UInt8)
    (hrk : rk ≠ .array ∧ rk ≠ .map) : readBody B f t rk bs = readBody B g t rk bs := by
  cases rk with
  | blob => rw [readBody, readBody]
  | simple => rw [readBody, readBody]
  | integer => rw [readBody, readBody]
  | null => rw [readBody, readBody]
  | bool => cases bs <;> rw [readBody, readBody]
  | array => exact absurd rfl hrk.1
  | map => exact absurd rfl hrk.2

def Mono (B f : Nat) : Prop :=
  (∀ ats bs x, readNext B f ats bs = .ok x → readNext B (f + 1) ats bs = .ok x) ∧
  (∀ t rk bs x, readBody B f t rk bs = .ok x → readBody B (f + 1) t rk bs = .ok x) ∧
  (∀ n bs x, readArr B f n bs = .ok x → readArr B (f + 1) n bs = .ok x) ∧
  (∀ acc bs x, readEnd B f acc bs = .ok x → readEnd B (f + 1) acc bs = .ok x)

theorem mono_all (B : Nat) : ∀ f, Mono B f := by
  intro f
  induction f with
  | zero =>
    refine ⟨?_, ?_, ?_, ?_⟩
    · intro ats bs x h; rw [readNext] at h; cases h
    · intro t rk bs x h
      by_cases hl : rk ≠ .array ∧ rk ≠ .map
      · rw [← leaf_body_fuel B 0 1 t rk bs hl]; exact h
      · have : rk = .array ∨ rk = .map := by cases rk <;> simp_all
        rcases this with e | e <;> subst e <;> rw [readBody] at h <;> cases h
    · intro n bs x h
      cases n with
      | zero => rw [readArr] at h ⊢; exact h
      | succ n => rw [readArr] at h; cases h
    · intro acc bs x h; rw [readEnd] at h; cases h
  | succ f ih =>
    obtain ⟨ihN, ihB, ihA, ihE⟩ := ih
    refine ⟨?_, ?_, ?_, ?_⟩
    · intro ats bs x h
      cases bs with
      | nil => rw [readNext] at h; cases h
      | cons t bs =>
        rw [readNext] at h ⊢
        cases hr : readerOf t with
        | none => rw [hr] at h; cases h
        | some rk =>
          rw [hr] at h
          simp only at h ⊢
          cases hb : readBody B f t rk bs with
          | err e => rw [hb] at h; cases h
          | panic => rw [hb] at h; cases h
          | oom => rw [hb] at h; cases h
          | ok y =>
            rw [hb] at h
            rw [ihB t rk bs y hb]
            obtain ⟨om, r⟩ := y
            cases om with
            | none => exact h
            | some m =>
              simp only at h ⊢
              split
              · rename_i ht; rw [if_pos ht] at h; exact ihN _ _ _ h
              · rename_i ht; rw [if_neg ht] at h; exact h
    · intro t rk bs x h
      by_cases hl : rk ≠ .array ∧ rk ≠ .map
      · rw [← leaf_body_fuel B (f + 1) (f + 1 + 1) t rk bs hl]; exact h
      · have : rk = .array ∨ rk = .map := by cases rk <;> simp_all
        rcases this with e | e <;> subst e <;> rw [readBody] at h ⊢
        · exact arrCase_mono _ _ _ _ _ _ (fun n r y hy => ihA n r y hy) (fun r y hy => ihE [] r y hy) x h
        · exact mapCase_mono _ _ _ _ _ _ (fun n r y hy => ihA n r y hy) (fun r y hy => ihE [] r y hy) x h
    · intro n bs x h
      cases n with
      | zero => rw [readArr] at h ⊢; exact h
      | succ n =>
        rw [readArr] at h ⊢
        cases h1 : readNext B f [] bs with
        | err e => rw [h1] at h; cases h
        | panic => rw [h1] at h; cases h
        | oom => rw [h1] at h; cases h
        | ok y =>
          rw [h1] at h
          rw [ihN [] bs y h1]
          obtain ⟨m, r⟩ := y
          simp only at h ⊢
          cases h2 : readArr B f n r with
          | err e => rw [h2] at h; cases h
          | panic => rw [h2] at h; cases h
          | oom => rw [h2] at h; cases h
          | ok z => rw [h2] at h; rw [ihA n r z h2]; exact h
    · intro acc bs x h
      rw [readEnd] at h ⊢
      cases h1 : readNext B f [] bs with
      | err e => rw [h1] at h; cases h
      | panic => rw [h1] at h; cases h
      | oom => rw [h1] at h; cases h
      | ok y =>
        rw [h1] at h
        rw [ihN [] bs y h1]
        obtain ⟨m, r⟩ := y
        simp only at h ⊢
        split
        · rename_i ht; rw [if_pos ht] at h; exact h
        · rename_i ht; rw [if_neg ht] at h; exact ihE _ _ _ h

theorem readNext_mono_le (B : Nat) (f g : Nat) (hfg : f ≤ g) (ats : List Msg) (bs : List UInt8) (x)
    (h : readNext B f ats bs = .ok x) : readNext B g ats bs = .ok x := by
  induction hfg with
  | refl => exact h
  | step _ ih => exact (mono_all B _).1 ats bs x ih

theorem readBody_mono_le (B : Nat) (f g : Nat) (hfg : f ≤ g) (t : UInt8) (rk : RK) (bs : List UInt8) (x)
    (h : readBody B f t rk bs = .ok x) : readBody B g t rk bs = .ok x := by
  induction hfg with
  | refl => exact h
  | step _ ih => exact (mono_all B _).2.1 t rk bs x ih

/-- a successful read of a well-formed frame, with any fuel, is *the* read -/
theorem readNext_ok_det (B : Nat) (hb : 32 ≤ B) (w : Wire) (hwf : WF w = true) (f : Nat) (ats : List Msg)
    (tl : List UInt8) (m : Msg) (r : List UInt8) (h : readNext B f ats (bytes w ++ tl) = .ok (m, r)) :
    m = value w ats ∧ r = tl := by
  have h1 := readNext_mono_le B f (max f (need w)) (Nat.le_max_left _ _) ats _ _ h
  have h2 := (wire_ok B hb w).1 hwf (max f (need w)) ats tl (Nat.le_max_right _ _)
  rw [h2] at h1
  cases h1
  exact ⟨rfl, rfl⟩

/-- the same for the attribute frame read by `readBody … 124 .map` -/
theorem readBody_attr_ok_det (B : Nat) (hb : 32 ≤ B) (a : Wire) (ha : attrOK a = true) (atl : List UInt8)
    (hbytes : bytes a = 124 :: atl) (f : Nat) (tl : List UInt8) (x) (h : readBody B f 124 .map (atl ++ tl) = .ok x) :
    x = (some (value a []), tl) := by
  obtain ⟨tl', htl', hok⟩ := (wire_ok B hb a).2.2 ha
  have : tl' = atl := by rw [hbytes] at htl'; cases htl'; rfl
  subst this
  have h1 := readBody_mono_le B f (max f (need a)) (Nat.le_max_left _ _) 124 .map _ _ h
  have h2 := hok (max f (need a)) tl (by have := Nat.le_max_right f (need a); omega)
  rw [h2] at h1
  cases h1
  rfl

end Rv.StreamL
