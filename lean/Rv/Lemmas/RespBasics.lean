/-
Helper lemmas for C12/C13/C14: decimal digits, line splitting, `readI`, `readB`.
-/
import Rv.Model.Resp
import Rv.Spec.Wire
namespace Rv.RespL
open Rv Rv.Resp Rv.Spec

theorem wrap64_id {v : Int} (h1 : -9223372036854775808 ≤ v) (h2 : v < 9223372036854775808) : wrap64 v = v := by
  unfold wrap64; omega

/-- every rendered digit is an ASCII digit -/
abbrev isDigit (c : UInt8) : Prop := 48 ≤ c.toNat ∧ c.toNat ≤ 57

theorem ofNat_digit (d : Nat) (h : d < 10) : isDigit (UInt8.ofNat (48 + d)) ∧ ((UInt8.ofNat (48 + d)) - 48).toNat = d := by
  have : d = 0 ∨ d = 1 ∨ d = 2 ∨ d = 3 ∨ d = 4 ∨ d = 5 ∨ d = 6 ∨ d = 7 ∨ d = 8 ∨ d = 9 := by omega
  rcases this with h|h|h|h|h|h|h|h|h|h <;> subst h <;> decide

theorem digits_all (n : Nat) : ∀ c ∈ digits n, isDigit c := by
  induction n using digits.induct with
  | case1 n h => 
    intro c hc; rw [digits] at hc; simp only [h, dite_true, List.mem_singleton] at hc
    subst hc; exact (ofNat_digit n h).1
  | case2 n h ih =>
    intro c hc; rw [digits] at hc; simp only [h, dite_false, List.mem_append, List.mem_singleton] at hc
    rcases hc with hc | hc
    · exact ih c hc
    · subst hc; exact (ofNat_digit (n % 10) (Nat.mod_lt _ (by decide))).1

theorem digits_ne_nil (n : Nat) : digits n ≠ [] := by
  rw [digits]; split <;> simp

theorem digits_len (k : Nat) : ∀ n, n < 10 ^ (k + 1) → (digits n).length ≤ k + 1 := by
  induction k with
  | zero => intro n h; rw [digits]; simp at h; simp [h]
  | succ k ih =>
    intro n h
    rw [digits]
    split
    · simp
    · have : n / 10 < 10 ^ (k + 1) := by
        rw [Nat.div_lt_iff_lt_mul (by decide)]; rw [Nat.pow_succ] at h; exact h
      have := ih _ this
      simp; omega

/-- the digit loop of `readI` parses what `digits` renders (no int64 wrap below 2^63) -/
theorem digitsVal_digits (n : Nat) (hn : n < 9223372036854775808) (cs : List UInt8) :
    digitsVal (digits n ++ cs) 0 = digitsVal cs n := by
  induction n using digits.induct generalizing cs with
  | case1 n h =>
    rw [digits]; simp only [h, dite_true]
    have h1 := (ofNat_digit n h).2
    have h9 : n ≤ 9 := by omega
    have hw : wrap64 ((0 : Int) * 10 + (n : Int)) = (n : Int) := by unfold wrap64; omega
    simp only [List.cons_append, List.nil_append, digitsVal, h1, h9, if_true, hw]
  | case2 n h ih =>
    rw [digits]; simp only [h, dite_false]
    rw [List.append_assoc, ih (by omega)]
    have h1 := (ofNat_digit (n % 10) (Nat.mod_lt _ (by decide))).2
    have h9 : n % 10 ≤ 9 := by omega
    have hw : wrap64 (((n / 10 : Nat) : Int) * 10 + ((n % 10 : Nat) : Int)) = (n : Int) := by
      unfold wrap64; omega
    simp only [List.cons_append, List.nil_append, digitsVal, h1, h9, if_true, hw]

theorem splitLine_append (l rest : List UInt8) (h : ∀ c ∈ l, c ≠ 10) :
    splitLine (l ++ 10 :: rest) = some (l ++ [10], rest) := by
  induction l with
  | nil => simp [splitLine]
  | cons x xs ih =>
    have hx : x ≠ 10 := h x (by simp)
    have := ih (fun c hc => h c (by simp [hc]))
    simp [splitLine, hx, this]

theorem digit_ne {c : UInt8} (h : isDigit c) : c ≠ 10 ∧ c ≠ 63 ∧ c ≠ 45 ∧ c ≠ 13 := by
  refine ⟨?_, ?_, ?_, ?_⟩ <;> (intro e; subst e; revert h; decide)

theorem digits_head (n : Nat) : ∃ d r, digits n = d :: r ∧ isDigit d := by
  cases h : digits n with
  | nil => exact absurd h (digits_ne_nil n)
  | cons d r => exact ⟨d, r, rfl, digits_all n d (by simp [h])⟩

theorem digits_len63 (n : Nat) (hn : n < 9223372036854775808) : (digits n).length ≤ 19 :=
  digits_len 18 n (by omega)

theorem readI_digits (bufSize n : Nat) (hb : 32 ≤ bufSize) (hn : n < 9223372036854775808) (rest : List UInt8) :
    readI bufSize (digits n ++ crlf ++ rest) = .num n rest := by
  have hsplit : splitLine (digits n ++ crlf ++ rest) = some (digits n ++ [13] ++ [10], rest) := by
    have := splitLine_append (digits n ++ [13]) rest (by
      intro c hc
      simp only [List.mem_append, List.mem_singleton] at hc
      rcases hc with hc | hc
      · exact (digit_ne (digits_all n c hc)).1
      · subst hc; decide)
    simpa [crlf, List.append_assoc] using this
  obtain ⟨d, r, hd, hdig⟩ := digits_head n
  have hlen := digits_len63 n hn
  have hne := digit_ne hdig
  unfold readI
  rw [hsplit]
  have hl : (digits n ++ [13] ++ [10]).length = (digits n).length + 2 := by simp
  have h1 : ¬ (digits n ++ [13] ++ [10]).length > bufSize := by omega
  have h2 : ¬ (digits n ++ [13] ++ [10]).length < 3 := by
    rw [hl, hd]; simp
  have hh : (digits n ++ [13] ++ [10]).head? = some d := by simp [hd]
  have h3 : ¬ (some d = some (63 : UInt8)) := by simp [hne.2.1]
  have h4 : ¬ (some d = some (45 : UInt8)) := by simp [hne.2.2.1]
  have htake : (digits n ++ [13] ++ [10]).take ((digits n ++ [13] ++ [10]).length - 2) = digits n := by
    rw [hl, List.append_assoc]; simp
  have hv := digitsVal_digits n hn []
  simp only [List.append_nil] at hv
  simp only [h1, h2, hh, h3, h4, if_false, decide_false, htake, hv, digitsVal]
  have hw : wrap64 (n : Int) = n := by unfold wrap64; omega
  simp [hw]

theorem readI_neg (bufSize n : Nat) (hb : 32 ≤ bufSize) (hn : n < 9223372036854775808) (rest : List UInt8) :
    readI bufSize (45 :: digits n ++ crlf ++ rest) = .num (-(n : Int)) rest := by
  have hsplit : splitLine (45 :: digits n ++ crlf ++ rest) = some (45 :: digits n ++ [13] ++ [10], rest) := by
    have := splitLine_append (45 :: digits n ++ [13]) rest (by
      intro c hc
      simp only [List.cons_append, List.mem_cons, List.mem_append, List.mem_singleton] at hc
      rcases hc with hc | hc | hc
      · subst hc; decide
      · exact (digit_ne (digits_all n c hc)).1
      · simp at hc; subst hc; decide)
    simpa [crlf, List.append_assoc] using this
  have hlen := digits_len63 n hn
  have hnn := digits_ne_nil n
  unfold readI
  rw [hsplit]
  have hl : (45 :: digits n ++ [13] ++ [10]).length = (digits n).length + 3 := by simp
  have h1 : ¬ (45 :: digits n ++ [13] ++ [10]).length > bufSize := by omega
  have h2 : ¬ (45 :: digits n ++ [13] ++ [10]).length < 3 := by omega
  have htake : ((45 :: digits n ++ [13] ++ [10]).tail).take ((45 :: digits n ++ [13] ++ [10]).tail.length - 2) = digits n := by
    simp [List.append_assoc]
  have hv := digitsVal_digits n hn []
  simp only [List.append_nil] at hv
  have hw : wrap64 (-(n : Int)) = -(n : Int) := by unfold wrap64; omega
  simp [htake, hv, digitsVal, hw]
  have h1' : ¬ bufSize < (digits n).length + 2 + 1 := by omega
  have h2' : ¬ (digits n).length + 2 + 1 < 3 := by omega
  simp [h1', h2']

theorem readI_q (bufSize : Nat) (hb : 32 ≤ bufSize) (rest : List UInt8) :
    readI bufSize (63 :: 13 :: 10 :: rest) = .chunked rest := by
  have hsplit : splitLine (63 :: 13 :: 10 :: rest) = some ([63, 13, 10], rest) := by simp [splitLine]
  unfold readI; rw [hsplit]
  have : ¬ (3 > bufSize) := by omega
  simp [this]

theorem alloc_ok (req : Nat) (received cap : Nat) (h : req ≤ max cap received) :
    alloc (req : Int) received cap = .ok () := by
  unfold alloc
  have h1 : ¬ ((req : Int) < 0) := by omega
  have h2 : ¬ ((req : Int).toNat > max cap received) := by simp; omega
  rw [if_neg h1, if_neg h2]

theorem grow_ok (fuel n len avail : Nat) (h : len ≤ avail) : grow fuel n len avail = .ok () := by
  induction fuel generalizing n with
  | zero => rfl
  | succ f ih =>
    unfold grow
    split
    · rename_i hlt
      have hk : min (len - n) n ≤ max capBytes n := by omega
      rw [alloc_ok _ _ _ hk]
      have : ¬ avail < n + min (len - n) n := by omega
      simp [this, ih]
    · rfl

theorem readB_blob (bufSize : Nat) (hb : 32 ≤ bufSize) (s rest : List UInt8) (hs : s.length < 9223372036854775808) :
    readB bufSize (digits s.length ++ crlf ++ (s ++ crlf ++ rest)) = .str s rest := by
  unfold readB
  rw [readI_digits bufSize s.length hb hs]
  have h1 : ¬ ((s.length : Int) = -1) := by omega
  have h2 : ¬ ((s.length : Int) < 0) := by omega
  simp only [h1, h2, if_false, Int.toNat_natCast]
  have ha : alloc ((min s.length capBytes : Nat) : Int) 0 capBytes = .ok () := alloc_ok _ _ _ (by omega)
  simp only [ha]
  have hl : (s ++ crlf ++ rest).length = s.length + 2 + rest.length := by simp [crlf]; omega
  have h3 : ¬ (s ++ crlf ++ rest).length < min s.length capBytes := by omega
  simp only [h3, if_false]
  rw [grow_ok _ _ _ _ (by omega)]
  have h4 : ¬ ((s ++ crlf ++ rest).drop s.length).length < 2 := by simp [crlf]
  simp only [h4, if_false]
  simp [crlf, List.append_assoc]

theorem digits_zero : digits 0 = [48] := by rw [digits]; simp

theorem readS_line (s rest : List UInt8) (h : ∀ c ∈ s, c ≠ 10) :
    readS (s ++ crlf ++ rest) = .ok (s, rest) := by
  have hsplit : splitLine (s ++ crlf ++ rest) = some (s ++ [13] ++ [10], rest) := by
    have := splitLine_append (s ++ [13]) rest (by
      intro c hc
      simp only [List.mem_append, List.mem_singleton] at hc
      rcases hc with hc | hc
      · exact h c hc
      · subst hc; decide)
    simpa [crlf, List.append_assoc] using this
  unfold readS; rw [hsplit]
  have h1 : ¬ (s ++ [13] ++ [10]).length < 2 := by simp
  simp only [h1, if_false]
  simp [List.append_assoc]

theorem chunks_len (cs : List (List UInt8)) : cs.length ≤ ((cs.map chunkBytes).flatten).length := by
  induction cs with
  | nil => simp
  | cons c cs ih => simp [chunkBytes] at *; omega

theorem readChunks_end (bufSize : Nat) (hb : 32 ≤ bufSize) (f : Nat) (acc rest : List UInt8) :
    readChunks bufSize (f + 1) acc (59 :: 48 :: 13 :: 10 :: rest) = .ok (acc, rest) := by
  have := readI_digits bufSize 0 hb (by omega) rest
  rw [digits_zero] at this
  simp only [crlf, List.cons_append, List.nil_append] at this
  simp [readChunks, this]

theorem readChunks_step (bufSize : Nat) (hb : 32 ≤ bufSize) (c : List UInt8) (hne : c ≠ [])
    (hlt : c.length < 9223372036854775808) (f : Nat) (acc tl : List UInt8) :
    readChunks bufSize (f + 1) acc (chunkBytes c ++ tl) = readChunks bufSize f (acc ++ c) tl := by
  have hl : 0 < c.length := List.length_pos_iff.mpr hne
  have hI := readI_digits bufSize c.length hb hlt (c ++ crlf ++ tl)
  have hshape : chunkBytes c ++ tl = 59 :: (digits c.length ++ crlf ++ (c ++ crlf ++ tl)) := by
    simp [chunkBytes, List.append_assoc]
  rw [hshape]
  simp only [readChunks, hI]
  have h1 : ¬ ((c.length : Int) = 0) := by omega
  have h2 : ¬ ((c.length : Int) < 0) := by omega
  simp only [h1, h2, if_false]
  have ha : alloc (min (c.length : Int) (capBytes : Int)) 0 capBytes = .ok () := by
    have : min (c.length : Int) (capBytes : Int) = ((min c.length capBytes : Nat) : Int) := by omega
    rw [this]; exact alloc_ok _ _ _ (by omega)
  simp only [ha, Int.toNat_natCast]
  have h3 : ¬ (c ++ crlf ++ tl).length < c.length := by simp
  have h4 : ¬ ((c ++ crlf ++ tl).drop c.length).length < 2 := by simp [crlf, List.append_assoc]
  simp only [h3, h4, if_false]
  have hd : (c ++ crlf ++ tl).drop (c.length + 2) = tl := by
    rw [← List.drop_drop]; simp [crlf, List.append_assoc]
  have ht : (c ++ crlf ++ tl).take c.length = c := by simp [List.append_assoc]
  rw [hd, ht]

theorem readChunks_ok (bufSize : Nat) (hb : 32 ≤ bufSize) (cs : List (List UInt8))
    (hcs : ∀ c ∈ cs, c ≠ [] ∧ c.length < 9223372036854775808) (fuel : Nat) (hf : cs.length < fuel)
    (acc rest : List UInt8) :
    readChunks bufSize fuel acc ((cs.map chunkBytes).flatten ++ (59 :: 48 :: 13 :: 10 :: rest)) = .ok (acc ++ cs.flatten, rest) := by
  induction cs generalizing fuel acc with
  | nil =>
    cases fuel with
    | zero => omega
    | succ f => simp [readChunks_end bufSize hb]
  | cons c cs ih =>
    cases fuel with
    | zero => omega
    | succ f =>
      have ⟨hne, hlt⟩ := hcs c (by simp)
      simp only [List.map_cons, List.flatten_cons, List.append_assoc]
      rw [readChunks_step bufSize hb c hne hlt, ih (fun x hx => hcs x (by simp [hx])) f (by simp at hf; omega)]
      simp [List.append_assoc]

end Rv.RespL
