/-
Pipe life model: the scalar invariant `InvA` is preserved by the steps of the `_background` exit path and of Close.
-/
import Rv.Lemmas.PipeLifeBasic
namespace Rv.PipeLife

theorem A_tdSpawn {s s' : St} (h : tdSpawn s = some s') (ha : InvA (scal s)) : InvA (scal s') := by
  obtain ⟨a1, a2, a3, a4, a5, a6, a7, a8, a9, a10, a11, a12, a13⟩ := ha
  unfold tdSpawn at h; crunch h <;> finishA

theorem A_bgPingPut {s s' : St} (h : bgPingPut s = some s') (ha : InvA (scal s)) : InvA (scal s') := by
  unfold bgPingPut at h; crunch h; exact ha

theorem A_draining {v : Scal} (ha : InvA v) {c : Bool} (htd : v.td = .draining c) (x : Td)
    (hx : x = .loopDone ∨ ∃ c', x = .draining c') : InvA { v with td := x } := by
  obtain ⟨a1, a2, a3, a4, a5, a6, a7, a8, a9, a10, a11, a12, a13⟩ := ha
  rcases hx with rfl | ⟨c', rfl⟩ <;> constructor <;> simp_all [tdPast] <;> omega

theorem A_tdIter {s s' : St} (h : tdIter s = some s') (ha : InvA (scal s)) : InvA (scal s') := by
  unfold tdIter at h; crunch h
  · exact A_draining ha (c := ‹Bool›) (by assumption) _ (Or.inl rfl)
  · rw [scal_deliver]
    exact A_draining ha (c := ‹Bool›) (by assumption) _ (Or.inr ⟨_, rfl⟩)
  · exact A_draining ha (c := ‹Bool›) (by assumption) _ (Or.inr ⟨_, rfl⟩)

theorem A_tdClose {s s' : St} (h : tdClose s = some s') (ha : InvA (scal s)) : InvA (scal s') := by
  obtain ⟨a1, a2, a3, a4, a5, a6, a7, a8, a9, a10, a11, a12, a13⟩ := ha
  unfold tdClose at h; crunch h; finishA

/-- only Close's program counter changes -/
theorem A_setClose {v : Scal} (ha : InvA v) (c : ClosePc) (h5 : c = .done → v.connUp = false)
    (h7 : c ≠ .idle → v.err ≠ none)
    (h8 : (∃ b, c = .casDone b) ∨ c = .pingWait ∨ c = .tail ∨ c = .done → 2 ≤ v.state)
    (h13 : v.td = .off → (c = .idle ∨ ∃ w, c = .entered w) → v.state = 0) : InvA { v with close := c } :=
  ⟨ha.a1, ha.a2, ha.a3, ha.a4, h5, ha.a6, h7, h8, ha.a9, ha.a10, ha.a11, ha.a12, h13⟩

theorem A_closeEnter {w : Why} {s s' : St} (h : closeEnter w s = some s') (ha : InvA (scal s)) : InvA (scal s') := by
  unfold closeEnter at h; crunch h
  rename_i hcl
  have hs0 : s.td = .off → s.state = 0 := fun h => ha.a13 h (Or.inl hcl)
  exact ⟨fun _ => latch_ne _ _, fun h => ⟨(ha.a2 h).1, (ha.a2 h).2.1, latch_ne _ _⟩, ha.a3, ha.a4,
    fun h => (by cases h), ha.a6, fun _ => latch_ne _ _,
    fun h => (by rcases h with ⟨b, h⟩ | h | h | h <;> cases h),
    fun h => ⟨(ha.a9 h).1, latch_ne _ _⟩, ha.a10, ha.a11, ha.a12, fun h _ => hs0 h⟩

theorem A_casSt {s : St} {w : Nat} (hc : s.close = .entered w) (ha : InvA (scal s)) : InvA (scal (casSt s)) := by
  have herr : s.err ≠ none := ha.a7 (by show s.close ≠ .idle; rw [hc]; simp)
  have h10 := ha.a10
  simp only [scal] at h10
  by_cases hst : isStopping s.state = true
  · -- state 0 or 1 becomes 2
    have hs : s.state = 0 ∨ s.state = 1 := by simpa [isStopping] using hst
    have e : scal (casSt s) = { scal s with state := 2, close := .casDone true } := by simp [scal, casSt, hst]
    rw [e]
    refine ⟨fun _ => herr, fun h => ?_, ha.a3, fun h => (by cases h), fun h => (by cases h), ?_, fun _ => herr,
      fun _ => Nat.le_refl 2, ha.a9, Or.inr (Or.inr (Or.inl rfl)), ha.a11, fun _ h => (by cases h), ?_⟩
    · have := ha.a2 h; exact ⟨Nat.le_refl 2, this.2.1, this.2.2⟩
    · constructor
      · intro h; cases h
      · intro h; have := ha.a6.mpr h; simp only [scal] at this; omega
    · intro _ h; rcases h with h | ⟨w, h⟩ <;> cases h
  · have hs : ¬ (s.state = 0 ∨ s.state = 1) := by simpa [isStopping] using hst
    have h2 : 2 ≤ s.state := by omega
    have e : scal (casSt s) = { scal s with close := .casDone false } := by simp [scal, casSt, hst]
    rw [e]
    exact A_setClose ha _ (fun h => (by cases h)) (fun _ => herr) (fun _ => h2)
      (fun _ h => (by rcases h with h | ⟨w, h⟩ <;> cases h))

theorem A_closeCas {s s' : St} (h : closeCas s = some s') (ha : InvA (scal s)) : InvA (scal s') := by
  unfold closeCas at h; crunch h
  · rw [scal_startBg]; exact (A_casSt (by assumption) ha).startBg
  · exact A_casSt (by assumption) ha

theorem A_late {s : St} (ha : InvA (scal s)) (hl : (∃ b, s.close = .casDone b) ∨ s.close = .pingWait ∨ s.close = .tail)
    (c : ClosePc) (hc : c = .pingWait ∨ c = .tail) : InvA { scal s with close := c } := by
  have h2 : 2 ≤ s.state := ha.a8 (by rcases hl with h | h | h <;> simp [scal, h])
  have herr : s.err ≠ none := ha.a7 (by show s.close ≠ .idle; rcases hl with ⟨b, h⟩ | h | h <;> rw [h] <;> simp)
  exact A_setClose ha c (fun h => by rcases hc with h1 | h1 <;> rw [h1] at h <;> cases h) (fun _ => herr)
    (fun _ => h2) (fun _ h => by rcases hc with h1 | h1 <;> rw [h1] at h <;> rcases h with h | ⟨w, h⟩ <;> cases h)

theorem A_closePing {s s' : St} (h : closePing s = some s') (ha : InvA (scal s)) : InvA (scal s') := by
  unfold closePing at h; crunch h
  · exact A_late ha (Or.inl ⟨_, by assumption⟩) .pingWait (Or.inl rfl)
  · exact A_late ha (Or.inl ⟨_, by assumption⟩) .tail (Or.inr rfl)

theorem A_closeGot {s s' : St} (h : closeGot s = some s') (ha : InvA (scal s)) : InvA (scal s') := by
  unfold closeGot at h; crunch h
  exact A_late ha (Or.inr (Or.inl (by assumption))) .tail (Or.inr rfl)

theorem A_closeGrace {s s' : St} (h : closeGrace s = some s') (ha : InvA (scal s)) : InvA (scal s') := by
  unfold closeGrace at h; crunch h
  exact A_late ha (Or.inr (Or.inl (by assumption))) .tail (Or.inr rfl)

theorem A_closeTail {s s' : St} (h : closeTail s = some s') (ha : InvA (scal s)) : InvA (scal s') := by
  unfold closeTail at h; crunch h
  rename_i hcl
  have h2 : 2 ≤ s.state := ha.a8 (Or.inr (Or.inr (Or.inl hcl)))
  have herr : s.err ≠ none := ha.a7 (by show s.close ≠ .idle; rw [hcl]; simp)
  exact ⟨ha.a1, fun h => ⟨(ha.a2 h).1, rfl, (ha.a2 h).2.2⟩, ha.a3, ha.a4, fun _ => rfl, ha.a6, fun _ => herr,
    fun _ => h2, fun h => ⟨rfl, (ha.a9 h).2⟩, ha.a10, ha.a11, ha.a12,
    fun _ h => (by rcases h with h | ⟨w, h⟩ <;> cases h)⟩

end Rv.PipeLife
