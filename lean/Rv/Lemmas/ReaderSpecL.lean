/-
C01 helper lemmas about the answer-discipline specification alone (Rv/Spec/ReaderSpec.lean):
what one accepted frame does, conservation / matching for whole histories, a write may be
moved earlier, and the block grammar is accepted by `onMsg`.
-/
import Rv.Spec.ReaderSpec
namespace Rv.ReaderL
open Rv.Reader Rv.Spec.Reader

/-! ### marking batches -/

theorem mark_cons (c : Cmd) (l : Batch) : mark (c :: l) = (c, l.isEmpty) :: mark l := by
  cases l <;> rfl

def marks : List Batch → List (Cmd × Bool)
  | [] => []
  | b :: r => mark b ++ marks r

theorem marks_append (q : List Batch) (b : Batch) : marks (q ++ [b]) = marks q ++ mark b := by
  induction q with
  | nil => simp [marks]
  | cons a q ih => simp [marks, ih]

/-! ### what one accepted frame does -/

/-- an accepted frame is either skipped (pending commands untouched) or it is handed, as it is,
    to the oldest pending command, which it answers -/
theorem onMsg_cases {t t' : SpecSt} {i : In} {o : Out} (h : onMsg t i = some (t', o)) :
    (o = .skipped ∧ t'.pend = t.pend) ∨
    (∃ c d, t.pend = (c, d) :: t'.pend ∧ o = .deliver c.id (payload i) d ∧ answers c i = true) := by
  cases i with
  | push mid k =>
    cases k with
    | data =>
      simp only [onMsg] at h
      injection h with h; injection h with h1 h2; subst h1 h2
      exact .inl ⟨rfl, rfl⟩
    | unsub =>
      simp only [onMsg] at h
      split at h
      · cases h
      · injection h with h; injection h with h1 h2; subst h1 h2
        exact .inl ⟨rfl, rfl⟩
    | sub =>
      simp only [onMsg, onSub] at h
      split at h
      · injection h with h; injection h with h1 h2; subst h1 h2
        exact .inl ⟨rfl, rfl⟩
      · split at h
        · cases h
        · split at h
          · cases h
          · rename_i c d r hp
            split at h
            · rename_i hk
              simp only [pop] at h
              injection h with h; injection h with h1 h2; subst h1 h2
              exact .inr ⟨c, d, hp, rfl, by simp [answers, hk]⟩
            · cases h
  | reply mid p q =>
    simp only [onMsg, onReply] at h
    split at h
    · cases h
    · split at h
      · split at h
        · injection h with h; injection h with h1 h2; subst h1 h2
          exact .inl ⟨rfl, rfl⟩
        · cases h
      · split at h
        · cases h
        · rename_i c d r hp
          split at h
          · rename_i hk
            simp only [pop] at h
            injection h with h; injection h with h1 h2; subst h1 h2
            exact .inr ⟨c, d, hp, rfl, by simp [answers, hk]⟩
          · rename_i hk
            split at h
            · cases h
            · rename_i hq
              simp only [pop] at h
              injection h with h; injection h with h1 h2; subst h1 h2
              exact .inr ⟨c, d, hp, rfl, by simp [answers, hk, hq]⟩
          · rename_i hk
            split at h
            · cases h
            · rename_i hq
              simp only [pop] at h
              injection h with h; injection h with h1 h2; subst h1 h2
              exact .inr ⟨c, d, hp, rfl, by simp [answers, hk, hq]⟩


/-! ### corollaries for whole histories (specification side) -/

theorem specRun_no_panic (es : List Ev) : ∀ (t : SpecSt) (w : String), Out.panic w ∉ specRun t es := by
  induction es with
  | nil => intro t w h; cases h
  | cons e es ih =>
    intro t w
    cases e with
    | w b => simp only [specRun]; exact ih _ w
    | m i =>
      simp only [specRun]
      cases ho : onMsg t i with
      | none => intro h; cases h
      | some to =>
        obtain ⟨t', o⟩ := to
        simp only [List.mem_cons, not_or]
        refine ⟨?_, ih t' w⟩
        rcases onMsg_cases ho with ⟨h1, _⟩ | ⟨c, d, _, h1, _⟩ <;> (rw [h1]; intro e; cases e)

theorem delivered_skipped (os : List Out) : delivered (.skipped :: os) = delivered os := rfl
theorem delivered_deliver (c : Nat) (mid : Option Nat) (d : Bool) (os : List Out) :
    delivered (.deliver c mid d :: os) = (c, d) :: delivered os := rfl

/-- conservation: delivered commands followed by the still pending ones are the commands that
    were pending at the start followed by the written ones -/
theorem spec_conservation (es : List Ev) : ∀ (t : SpecSt), disc t es = true →
    delivered (specRun t es) ++ (specEnd t es).pend.map key = (t.pend ++ written es).map key := by
  induction es with
  | nil => intro t _; simp [specRun, specEnd, delivered, written]
  | cons e es ih =>
    intro t hd
    cases e with
    | w b =>
      simp only [disc, Bool.and_eq_true] at hd
      simp only [specRun, specEnd, written]
      rw [ih _ hd.2]
      simp [specWrite]
    | m i =>
      simp only [disc] at hd
      simp only [specRun, specEnd, written]
      cases ho : onMsg t i with
      | none => rw [ho] at hd; cases hd
      | some to =>
        obtain ⟨t', o⟩ := to
        rw [ho] at hd
        simp only
        have := ih t' hd
        rcases onMsg_cases ho with ⟨h1, h2⟩ | ⟨c, d, h2, h1, _⟩
        · rw [h1, delivered_skipped, this, h2]
        · rw [h1, delivered_deliver, h2, List.cons_append, this]
          simp [key]

/-- one output per frame; a delivery made on frame `i` hands out `i` itself -/
theorem spec_payload (es : List Ev) : ∀ (t : SpecSt), disc t es = true →
    (specRun t es).length = (frames es).length ∧
    ((frames es).zip (specRun t es)).all (fun p => okPayload p.1 p.2) = true := by
  induction es with
  | nil => intro t _; simp [specRun, frames]
  | cons e es ih =>
    intro t hd
    cases e with
    | w b =>
      simp only [disc, Bool.and_eq_true] at hd
      simp only [specRun, frames]
      exact ih _ hd.2
    | m i =>
      simp only [disc] at hd
      simp only [specRun, frames]
      cases ho : onMsg t i with
      | none => rw [ho] at hd; cases hd
      | some to =>
        obtain ⟨t', o⟩ := to
        rw [ho] at hd
        obtain ⟨h1, h2⟩ := ih t' hd
        have ok : okPayload i o = true := by
          rcases onMsg_cases ho with ⟨e, _⟩ | ⟨c, d, _, e, _⟩ <;> (rw [e]; simp [okPayload])
        simp only [List.length_cons, h1, List.zip_cons_cons, List.all_cons, ok, h2, Bool.and_self, and_self]

theorem deliveries_skipped (i : In) (is : List In) (os : List Out) :
    deliveries (i :: is) (.skipped :: os) = deliveries is os := rfl
theorem deliveries_deliver (i : In) (is : List In) (c : Nat) (mid : Option Nat) (d : Bool) (os : List Out) :
    deliveries (i :: is) (.deliver c mid d :: os) = (i, .deliver c mid d) :: deliveries is os := rfl

/-- the complete characterisation: the commands pending at the start followed by the written
    ones split into an answered prefix `ds` and the still pending rest; the k-th command of `ds`
    got the k-th delivery, made on a frame that answers it and carrying that very frame -/
theorem spec_matched (es : List Ev) : ∀ (t : SpecSt), disc t es = true →
    ∃ ds, t.pend ++ written es = ds ++ (specEnd t es).pend ∧
      Matched ds (deliveries (frames es) (specRun t es)) := by
  induction es with
  | nil => intro t _; exact ⟨[], by simp [written, specEnd], .nil⟩
  | cons e es ih =>
    intro t hd
    cases e with
    | w b =>
      simp only [disc, Bool.and_eq_true] at hd
      simp only [specRun, specEnd, written, frames]
      obtain ⟨ds, h1, h2⟩ := ih _ hd.2
      refine ⟨ds, ?_, h2⟩
      rw [← h1]; simp [specWrite]
    | m i =>
      simp only [disc] at hd
      simp only [specRun, specEnd, written, frames]
      cases ho : onMsg t i with
      | none => rw [ho] at hd; cases hd
      | some to =>
        obtain ⟨t', o⟩ := to
        rw [ho] at hd
        simp only
        obtain ⟨ds, h1, h2⟩ := ih t' hd
        rcases onMsg_cases ho with ⟨e1, e2⟩ | ⟨c, d, e2, e1, ha⟩
        · rw [e1, deliveries_skipped, ← e2]; exact ⟨ds, h1, h2⟩
        · rw [e1, deliveries_deliver, e2]
          exact ⟨(c, d) :: ds, by rw [List.cons_append, h1, List.cons_append], .cons ha h2⟩


/-! ### a write may come earlier -/

theorem onSub_write {t t' : SpecSt} {o : Out} (b : Batch) (h : onSub t = some (t', o)) :
    onSub (specWrite t b) = some (specWrite t' b, o) := by
  unfold onSub at h ⊢
  show (if t.more ≠ 0 then _ else if t.eat = true then _ else match t.pend ++ mark b with | [] => _ | (c, d) :: r => _) = _
  split at h
  · rename_i hm
    rw [if_pos hm]
    injection h with h; injection h with h1 h2; subst h1 h2; rfl
  · rename_i hm
    rw [if_neg hm]
    split at h
    · cases h
    · rename_i he
      rw [if_neg he]
      split at h
      · cases h
      · rename_i c d r hp
        rw [hp]
        simp only [List.cons_append]
        split at h
        · rename_i hk
          rw [if_pos hk]
          simp only [pop] at h ⊢
          injection h with h; injection h with h1 h2; subst h1 h2; rfl
        · cases h

theorem onReply_write {t t' : SpecSt} {o : Out} (b : Batch) (mid : Nat) (p q : Bool)
    (h : onReply t mid p q = some (t', o)) :
    onReply (specWrite t b) mid p q = some (specWrite t' b, o) := by
  unfold onReply at h ⊢
  show (if t.more ≠ 0 then _ else if t.eat = true then _ else match t.pend ++ mark b with | [] => _ | (c, d) :: r => _) = _
  split at h
  · cases h
  · rename_i hm
    rw [if_neg hm]
    split at h
    · rename_i he
      rw [if_pos he]
      split at h
      · rename_i hpq
        rw [if_pos hpq]
        injection h with h; injection h with h1 h2; subst h1 h2; rfl
      · cases h
    · rename_i he
      rw [if_neg he]
      split at h
      · cases h
      · rename_i c d r hp
        rw [hp]
        simp only [List.cons_append]
        split at h
        · rename_i hk
          simp only [pop] at h ⊢
          injection h with h; injection h with h1 h2; subst h1 h2; rfl
        · rename_i hk
          split at h
          · cases h
          · rename_i hq
            simp only [pop, hq] at h ⊢
            injection h with h; injection h with h1 h2; subst h1 h2; rfl
        · rename_i hk
          split at h
          · cases h
          · rename_i hq
            simp only [pop, hq] at h ⊢
            injection h with h; injection h with h1 h2; subst h1 h2; rfl

/-- appending a batch to the FIFO does not change how an accepted frame is handled -/
theorem onMsg_write {t t' : SpecSt} {o : Out} {i : In} (b : Batch) (h : onMsg t i = some (t', o)) :
    onMsg (specWrite t b) i = some (specWrite t' b, o) := by
  cases i with
  | reply mid p q => exact onReply_write b mid p q h
  | push mid k =>
    cases k with
    | data =>
      simp only [onMsg] at h ⊢
      injection h with h; injection h with h1 h2; subst h1 h2; rfl
    | sub => exact onSub_write b h
    | unsub =>
      simp only [onMsg] at h ⊢
      show (if t.more ≠ 0 then _ else _) = _
      split at h
      · cases h
      · rename_i hm
        rw [if_neg hm]
        injection h with h; injection h with h1 h2; subst h1 h2; rfl

/-- moving a write one frame earlier keeps the history disciplined and changes no output -/
theorem spec_write_earlier (pre es : List Ev) (i : In) (b : Batch) : ∀ (t : SpecSt),
    disc t (pre ++ .m i :: .w b :: es) = true →
    disc t (pre ++ .w b :: .m i :: es) = true ∧
    specRun t (pre ++ .w b :: .m i :: es) = specRun t (pre ++ .m i :: .w b :: es) := by
  induction pre with
  | nil =>
    intro t hd
    simp only [List.nil_append, disc, specRun] at hd ⊢
    cases ho : onMsg t i with
    | none => rw [ho] at hd; cases hd
    | some to =>
      obtain ⟨t', o⟩ := to
      rw [ho] at hd
      simp only [Bool.and_eq_true] at hd
      rw [onMsg_write b ho]
      simp only [hd.1, hd.2, Bool.and_self, and_self]
  | cons e pre ih =>
    intro t hd
    cases e with
    | w b' =>
      simp only [List.cons_append, disc, specRun, Bool.and_eq_true] at hd ⊢
      exact ⟨⟨hd.1, (ih _ hd.2).1⟩, (ih _ hd.2).2⟩
    | m i' =>
      simp only [List.cons_append, disc, specRun] at hd ⊢
      cases ho : onMsg t i' with
      | none => rw [ho] at hd; cases hd
      | some to =>
        obtain ⟨t', o⟩ := to
        rw [ho] at hd
        simp only at hd ⊢
        exact ⟨(ih _ hd).1, by rw [(ih _ hd).2]⟩


/-! ### the block grammar is accepted by `onMsg` -/

/-- acceptor on frames only -/
def accF : SpecSt → List In → Option SpecSt
  | t, [] => some t
  | t, i :: is =>
    match onMsg t i with
    | some (t', _) => accF t' is
    | none => none

theorem accF_append (xs ys : List In) : ∀ (t t' : SpecSt), accF t xs = some t' →
    accF t (xs ++ ys) = accF t' ys := by
  induction xs with
  | nil => intro t t' h; simp only [accF] at h; injection h with h; subst h; rfl
  | cons i xs ih =>
    intro t t' h
    simp only [accF, List.cons_append] at h ⊢
    cases ho : onMsg t i with
    | none => rw [ho] at h; cases h
    | some to => rw [ho] at h; exact ih _ _ h

theorem disc_frames (fs : List In) (es : List Ev) : ∀ (t t' : SpecSt), accF t fs = some t' →
    disc t (fs.map .m ++ es) = disc t' es ∧ specEnd t (fs.map .m ++ es) = specEnd t' es := by
  induction fs with
  | nil => intro t t' h; simp only [accF] at h; injection h with h; subst h; exact ⟨rfl, rfl⟩
  | cons i fs ih =>
    intro t t' h
    simp only [accF, List.map_cons, List.cons_append, disc, specEnd] at h ⊢
    cases ho : onMsg t i with
    | none => rw [ho] at h; cases h
    | some to => rw [ho] at h; exact ih _ _ h

theorem accF_noise (ns : List In) (t : SpecSt) (hm : t.more = 0) (h : ns.all isNoise = true) :
    accF t ns = some t := by
  induction ns with
  | nil => rfl
  | cons i ns ih =>
    simp only [List.all_cons, Bool.and_eq_true] at h
    have : onMsg t i = some (t, .skipped) := by
      cases i with
      | reply mid p q => simp [isNoise] at h
      | push mid k =>
        cases k with
        | data => rfl
        | sub => simp [isNoise] at h
        | unsub => simp [onMsg, hm]
    simp only [accF, this]
    exact ih h.2

theorem accF_confs {n : Nat} {l : List In} (h : Confs n l) (pend : List (Cmd × Bool)) :
    accF { pend := pend, more := n, eat := false } l = some { pend := pend, more := 0, eat := false } := by
  induction h with
  | done => rfl
  | @data n i l hi _ ih =>
    have : ∀ t : SpecSt, onMsg t i = some (t, .skipped) := by
      intro t
      cases i with
      | reply mid p q => simp [isData] at hi
      | push mid k => cases k <;> first | rfl | simp [isData] at hi
    simp only [accF, this]; exact ih
  | @conf n mid l _ ih =>
    have : onMsg { pend := pend, more := n + 1, eat := false } (.push mid .sub) =
        some ({ pend := pend, more := n, eat := false }, .skipped) := by
      simp [onMsg, onSub]
    simp only [accF, this]; exact ih

theorem accF_block {c : Cmd} {bl : List In} (h : Block c bl) (d : Bool) (r : List (Cmd × Bool)) :
    accF { pend := (c, d) :: r, more := 0, eat := false } bl = some { pend := r, more := 0, eat := false } := by
  cases h with
  | regular hk => simp [accF, onMsg, onReply, hk, pop]
  | sub hk hc =>
    simp only [accF, onMsg, onSub, hk, pop, ne_eq, not_true_eq_false, if_false, Bool.false_eq_true, if_true]
    exact accF_confs hc r
  | subRefused hk => simp [accF, onMsg, onReply, hk, pop]
  | unsub hk => simp [accF, onMsg, onReply, hk, pop]
  | @unsubRefused mid mid' ns hk hn =>
    have h1 : onMsg { pend := (c, d) :: r, more := 0, eat := false } (.reply mid false false) =
        some ({ pend := r, more := 0, eat := true }, .deliver c.id (some mid) d) := by
      simp [onMsg, onReply, hk, pop]
    rw [List.cons_append]
    simp only [accF, h1]
    rw [accF_append ns _ _ _ (accF_noise ns _ rfl hn)]
    simp [accF, onMsg, onReply]

theorem accF_blocks {cs : List Cmd} {fs : List In} (h : Blocks cs fs) :
    ∀ (P R : List (Cmd × Bool)), P.map Prod.fst = cs →
      accF { pend := P ++ R, more := 0, eat := false } fs = some { pend := R, more := 0, eat := false } := by
  induction h with
  | nil => intro P R hP; simp at hP; subst hP; rfl
  | @noise cs i l hi _ ih =>
    intro P R hP
    have := accF_noise [i] { pend := P ++ R, more := 0, eat := false } rfl (by simp [hi])
    rw [show i :: l = [i] ++ l from rfl, accF_append _ _ _ _ this]
    exact ih P R hP
  | @block c cs bl l hb _ ih =>
    intro P R hP
    cases P with
    | nil => simp at hP
    | cons cd P' =>
      obtain ⟨c', d⟩ := cd
      simp only [List.map_cons, List.cons.injEq] at hP
      obtain ⟨rfl, hP'⟩ := hP
      rw [List.cons_append, accF_append _ _ _ _ (accF_block hb d (P' ++ R))]
      exact ih P' R hP'

theorem mark_fst (b : Batch) : (mark b).map Prod.fst = b := by
  induction b with
  | nil => rfl
  | cons c l ih => rw [mark_cons, List.map_cons, ih]

theorem marks_fst (bs : List Batch) : (marks bs).map Prod.fst = bs.flatten := by
  induction bs with
  | nil => rfl
  | cons b bs ih => simp [marks, mark_fst, ih]

theorem disc_writes (bs : List Batch) (es : List Ev) (hw : ∀ b, b ∈ bs → wfBatch b = true) :
    ∀ (t : SpecSt), disc t (bs.map .w ++ es) = disc { t with pend := t.pend ++ marks bs } es ∧
      specEnd t (bs.map .w ++ es) = specEnd { t with pend := t.pend ++ marks bs } es := by
  induction bs with
  | nil => intro t; simp [marks]
  | cons b bs ih =>
    intro t
    have := ih (fun x hx => hw x (List.mem_cons_of_mem _ hx)) (specWrite t b)
    simp only [List.map_cons, List.cons_append, disc, specEnd, hw b (List.mem_cons_self ..), Bool.true_and]
    rw [this.1, this.2]
    simp [specWrite, marks]

/-- all batches written, then a frame stream that follows the block grammar: disciplined,
    and at the end nothing is pending -/
theorem blocks_disc (bs : List Batch) (fs : List In) (hw : ∀ b, b ∈ bs → wfBatch b = true)
    (h : Blocks bs.flatten fs) :
    disc {} (bs.map .w ++ fs.map .m) = true ∧ (specEnd {} (bs.map .w ++ fs.map .m)).pend = [] := by
  have h1 := disc_writes bs (fs.map .m) hw {}
  have h2 := accF_blocks h (marks bs) [] (marks_fst bs)
  have h3 := disc_frames fs [] _ _ h2
  simp only [List.append_nil] at h3
  rw [h1.1, h1.2]
  simp only [List.nil_append]
  rw [h3.1, h3.2]
  exact ⟨rfl, rfl⟩

end Rv.ReaderL
