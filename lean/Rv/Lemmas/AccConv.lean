/-
Lemmas for C16 `model_conv_eq_spec`: the model of the scalar conversions
(Rv/Model/Accessors.lean, following the code's control flow) agrees with the declarative
specification Rv/Spec/Conv.lean.
-/
import Rv.Lemmas.AccPanic
import Rv.Spec.Conv
namespace Rv.Acc
open Rv.Conv

/-- model result vs. specification result: equal, except that the specification does not say
    which strconv error (syntax / range) a non-numeric text gives -/
inductive Agree {α : Type} : Res α → Res α → Prop
  | ok (v : α) : Agree (.ok v) (.ok v)
  | err (e : String) : Agree (.err e) (.err e)
  | num (fn : String) (k : NumErr) : Agree (.err (numErrTag fn k)) (.err eNum)

/-! ### decimal texts -/
theorem digitVal_of_isDigit {c : UInt8} (h : Conv.isDigit c) : digitVal c = some (c.toNat - 48) := by
  unfold Conv.isDigit at h
  simp [digitVal, h]

theorem digit_lt_ten {c : UInt8} (h : Conv.isDigit c) : c.toNat - 48 < 10 := by
  unfold Conv.isDigit at h
  have h2 : c.toNat ≤ 57 := by have := h.2; simpa [UInt8.le_iff_toNat_le] using this
  omega

theorem digit_ne_95 {c : UInt8} (h : Conv.isDigit c) : c ≠ 95 := by
  intro e; subst e; revert h; decide

theorem digitVal_not_digit {c : UInt8} (h : ¬ Conv.isDigit c) : digitVal c = none ∨ ∃ d, digitVal c = some d ∧ d ≥ 10 := by
  unfold Conv.isDigit at h
  unfold digitVal
  simp only [h, if_false]
  split
  · right; rename_i hl; refine ⟨_, rfl, ?_⟩; omega
  · left; rfl

theorem decFold_ge : ∀ (cs : Bytes) (n v : Nat), decFold cs n = some v → n ≤ v
  | [], n, v, h => by simp [decFold] at h; omega
  | c :: cs, n, v, h => by
    unfold decFold at h
    split at h
    · have := decFold_ge cs _ v h; omega
    · simp at h

/-- the digit loop of ParseUint (base 10) succeeds exactly on digit strings whose value fits -/
theorem uintLoop_spec : ∀ (cs : Bytes) (n : Nat) (u : Bool), n < 18446744073709551616 →
    (∀ v, decFold cs n = some v → v < 18446744073709551616 → uintLoop 10 false cs n u = .ok (v, u)) ∧
    ((decFold cs n = none ∨ ∃ v, decFold cs n = some v ∧ v ≥ 18446744073709551616) →
      ∃ k, uintLoop 10 false cs n u = .error k)
  | [], n, u, hn => by
    constructor
    · intro v h _; simp [decFold] at h; simp [uintLoop, h]
    · rintro (h | ⟨v, h, hv⟩)
      · simp [decFold] at h
      · simp [decFold] at h; omega
  | c :: cs, n, u, hn => by
    by_cases hd : Conv.isDigit c
    · have hdv := digitVal_of_isDigit hd
      have h10 := digit_lt_ten hd
      have h95 := digit_ne_95 hd
      by_cases hov : n * 10 + (c.toNat - 48) ≥ 18446744073709551616
      · constructor
        · intro v h hv
          simp only [decFold, hd, if_true] at h
          have := decFold_ge _ _ _ h; omega
        · intro _
          exact ⟨.range, by simp [uintLoop, h95, hdv, hov]; omega⟩
      · have ih := uintLoop_spec cs (n * 10 + (c.toNat - 48)) u (by omega)
        have hstep : uintLoop 10 false (c :: cs) n u = uintLoop 10 false cs (n * 10 + (c.toNat - 48)) u := by
          have a : ¬ (10 ≤ c.toNat - 48) := by omega
          have b : ¬ (18446744073709551616 ≤ n * 10 + (c.toNat - 48)) := hov
          simp [uintLoop, h95, hdv, a, b]
        rw [hstep]
        simp only [decFold, hd, if_true]
        exact ih
    · constructor
      · intro v h _; simp [decFold, hd] at h
      · intro _
        rcases digitVal_not_digit hd with h | ⟨d, h, hge⟩
        · refine ⟨.syntax, ?_⟩
          by_cases h95 : c = 95 <;> simp [uintLoop, h]
        · refine ⟨.syntax, ?_⟩
          simp [uintLoop, h, hge]

theorem parseUint_spec (s : Bytes) :
    (∀ v, decUint64 s = some v → parseUint s 10 = .ok v) ∧ (decUint64 s = none → ∃ k, parseUint s 10 = .error k) := by
  by_cases hs : s = []
  · subst hs; constructor
    · intro v h; simp [decUint64, decNat] at h
    · intro _; exact ⟨.syntax, rfl⟩
  · have hl := uintLoop_spec s 0 false (by omega)
    have hcfg : uintCfg s 10 = (10, s, false) := by simp [uintCfg]
    constructor
    · intro v h
      simp only [decUint64, decNat, hs, if_false] at h
      cases hf : decFold s 0 with
      | none => simp [hf] at h
      | some w =>
        simp only [hf] at h
        split at h
        · rename_i hw
          simp at h; subst h
          simp [parseUint, hs, hcfg, hl.1 w hf hw]
        · simp at h
    · intro h
      simp only [decUint64, decNat, hs, if_false] at h
      have : decFold s 0 = none ∨ ∃ v, decFold s 0 = some v ∧ v ≥ 18446744073709551616 := by
        cases hf : decFold s 0 with
        | none => left; rfl
        | some w =>
          right; refine ⟨w, rfl, ?_⟩
          simp only [hf] at h
          split at h
          · simp at h
          · omega
      obtain ⟨k, hk⟩ := hl.2 this
      exact ⟨k, by simp [parseUint, hs, hcfg, hk]⟩

theorem liftNum_agree_uint (s : Bytes) : Agree (liftNum "ParseUint" (parseUint s 10)) (numOf (decUint64 s)) := by
  have h := parseUint_spec s
  cases hd : decUint64 s with
  | some v => rw [h.1 v hd]; exact Agree.ok v
  | none =>
    obtain ⟨k, hk⟩ := h.2 hd
    rw [hk]; exact Agree.num _ k

/-- unsigned core of ParseInt vs. the specification's sign-free value -/
theorem parseUint_decNat (r : Bytes) :
    (∀ v, decNat r = some v → v < 18446744073709551616 → parseUint r 10 = .ok v) ∧
    ((decNat r = none ∨ ∃ v, decNat r = some v ∧ v ≥ 18446744073709551616) → ∃ k, parseUint r 10 = .error k) := by
  have h := parseUint_spec r
  constructor
  · intro v hv hlt
    apply h.1
    simp [decUint64, hv, hlt]
  · intro hh
    apply h.2
    rcases hh with hh | ⟨v, hv, hge⟩
    · simp [decUint64, hh]
    · have : ¬ v < 18446744073709551616 := by omega
      simp [decUint64, hv, this]

theorem signed_agree (neg : Bool) (r : Bytes) :
    Agree (liftNum "ParseInt" (intOfUint neg (parseUint r 10))) (numOf (signed neg (decNat r))) := by
  have h := parseUint_decNat r
  cases hd : decNat r with
  | none =>
    obtain ⟨k, hk⟩ := h.2 (Or.inl hd)
    simp only [hk, liftNum, numOf, intOfUint, signed]; exact Agree.num _ k
  | some v =>
    by_cases hv : v < 18446744073709551616
    · rw [h.1 v hd hv]
      cases neg
      · by_cases h63 : v < 9223372036854775808
        · have : ¬ (v ≥ 9223372036854775808) := by omega
          simp [intOfUint, signed, this, h63, liftNum, numOf]; exact Agree.ok _
        · have : v ≥ 9223372036854775808 := by omega
          simp [intOfUint, signed, this, h63, liftNum, numOf]; exact Agree.num _ _
      · by_cases h63 : v ≤ 9223372036854775808
        · have : ¬ (v > 9223372036854775808) := by omega
          simp [intOfUint, signed, this, h63, liftNum, numOf]; exact Agree.ok _
        · have : v > 9223372036854775808 := by omega
          simp [intOfUint, signed, this, h63, liftNum, numOf]; exact Agree.num _ _
    · obtain ⟨k, hk⟩ := h.2 (Or.inr ⟨v, hd, by omega⟩)
      have h1 : ¬ v < 9223372036854775808 := by omega
      have h2 : ¬ v ≤ 9223372036854775808 := by omega
      cases neg <;> simp [hk, liftNum, numOf, intOfUint, signed, h1, h2] <;> exact Agree.num _ k

theorem liftNum_agree_int (s : Bytes) : Agree (liftNum "ParseInt" (parseInt s 10)) (numOf (decInt64 s)) := by
  match s with
  | [] => simp [parseInt, decInt64, decNat, signed, liftNum, numOf]; exact Agree.num _ _
  | c :: r =>
    by_cases h43 : c = 43
    · subst h43; simpa [parseInt, signSplit, decInt64] using signed_agree false r
    · by_cases h45 : c = 45
      · subst h45; simpa [parseInt, signSplit, decInt64] using signed_agree true r
      · have e1 : signSplit (c :: r) = (false, c :: r) := by
          unfold signSplit; split <;> simp_all
        have e2 : decInt64 (c :: r) = signed false (decNat (c :: r)) := by
          unfold decInt64; split <;> simp_all
        simpa [parseInt, e1, e2] using signed_agree false (c :: r)

/-! ### the conversions -/
theorem trimErr_eq_stripErr (s : Bytes) : trimErr s = stripErr s := by
  match s with
  | [] => rfl
  | [_] => simp [trimErr, stripErr, errPrefix]
  | [_, _] => simp [trimErr, stripErr, errPrefix]
  | [_, _, _] => simp [trimErr, stripErr, errPrefix]
  | a :: b :: c :: d :: r =>
    unfold trimErr stripErr errPrefix
    by_cases h : a = 69 ∧ b = 82 ∧ c = 82 ∧ d = 32
    · obtain ⟨rfl, rfl, rfl, rfl⟩ := h; simp
    · have h1 : ¬ (List.take 4 (a :: b :: c :: d :: r) = [69, 82, 82, 32]) := by
        simp; intro h1 h2 h3 h4; exact h ⟨h1, h2, h3, h4⟩
      simp only [h1, if_false]
      split
      · rename_i heq; simp at heq; exact absurd ⟨heq.1, heq.2.1, heq.2.2.1, heq.2.2.2.1⟩ h
      · rfl

theorem typ_cases (t : UInt8) :
    (t = 36 ∨ t = 43 ∨ t = 58 ∨ t = 44 ∨ t = 35 ∨ t = 95 ∨ t = 45 ∨ t = 33 ∨ t = 42 ∨ t = 37 ∨ t = 126 ∨ t = 62 ∨ t = 124) ∨
    (t ≠ 36 ∧ t ≠ 43 ∧ t ≠ 58 ∧ t ≠ 44 ∧ t ≠ 35 ∧ t ≠ 95 ∧ t ≠ 45 ∧ t ≠ 33 ∧ t ≠ 42 ∧ t ≠ 37 ∧ t ≠ 126 ∧ t ≠ 62 ∧ t ≠ 124) := by
  by_cases h : (t = 36 ∨ t = 43 ∨ t = 58 ∨ t = 44 ∨ t = 35 ∨ t = 95 ∨ t = 45 ∨ t = 33 ∨ t = 42 ∨ t = 37 ∨ t = 126 ∨ t = 62 ∨ t = 124)
  · exact Or.inl h
  · right; simp only [not_or] at h; exact h

theorem toStr_agree (m : Msg) (h : InRange m) : Agree (toStr m) (specToString m) := by
  have hk := h.kids
  simp only [isAggK] at hk
  rcases typ_cases m.typ with (ht|ht|ht|ht|ht|ht|ht|ht|ht|ht|ht|ht|ht) | ht
  all_goals
    simp_all [toStr, specToString, errOf, replyError, isNullK, isErrK, isString, hasArray, isAggTyp, isIntK, isAggK,
      tBlob, tSimple, tInt, tArray, tMap, tSet, tPush, tAttr, tNull, tErr, tBlobErr, trimErr_eq_stripErr]
  all_goals first | exact Agree.err _ | exact Agree.ok _

macro "conv_cases" m:term : tactic => `(tactic|
  rcases typ_cases ($m).typ with (ht|ht|ht|ht|ht|ht|ht|ht|ht|ht|ht|ht|ht) | ht)

theorem asBool_agree (m : Msg) : Agree (asBool m) (specAsBool m) := by
  rcases typ_cases m.typ with (ht|ht|ht|ht|ht|ht|ht|ht|ht|ht|ht|ht|ht) | ht
  all_goals
    simp_all [asBool, specAsBool, errOf, replyError, isNullK, isErrK, isString, isStrK, isIntK, isBoolK, okBytes,
      tBlob, tSimple, tInt, tBool, tNull, tErr, tBlobErr, trimErr_eq_stripErr]
  all_goals first | exact Agree.err _ | exact Agree.ok _

theorem toBool_agree (m : Msg) : Agree (Acc.toBool m) (specToBool m) := by
  rcases typ_cases m.typ with (ht|ht|ht|ht|ht|ht|ht|ht|ht|ht|ht|ht|ht) | ht
  all_goals
    simp_all [Acc.toBool, specToBool, errOrParse, errOf, replyError, isNullK, isErrK, isBoolK,
      tBool, tNull, tErr, tBlobErr, trimErr_eq_stripErr]
  all_goals first | exact Agree.err _ | exact Agree.ok _

theorem toInt64_agree (m : Msg) : Agree (toInt64 m) (specToInt64 m) := by
  rcases typ_cases m.typ with (ht|ht|ht|ht|ht|ht|ht|ht|ht|ht|ht|ht|ht) | ht
  all_goals
    simp_all [toInt64, specToInt64, errOrParse, errOf, replyError, isNullK, isErrK, isIntK,
      tInt, tNull, tErr, tBlobErr, trimErr_eq_stripErr]
  all_goals first | exact Agree.err _ | exact Agree.ok _

theorem utilFloat_eq_floatOf (fp : FP) (s : Bytes) : utilFloat fp s = floatOf fp s := by
  by_cases h : fp.ok s = true <;> by_cases h2 : s = [45, 110, 97, 110] <;> simp [utilFloat, floatOf, minusNan, h, h2]

theorem floatOf_agree (fp : FP) (s : Bytes) : Agree (floatOf fp s) (floatOf fp s) := by
  unfold floatOf; repeat' split
  all_goals first | exact Agree.err _ | exact Agree.ok _

theorem toFloat64_agree (fp : FP) (m : Msg) : Agree (toFloat64 fp m) (specToFloat64 fp m) := by
  rcases typ_cases m.typ with (ht|ht|ht|ht|ht|ht|ht|ht|ht|ht|ht|ht|ht) | ht
  all_goals
    simp_all [toFloat64, specToFloat64, errOrParse, errOf, replyError, isNullK, isErrK, isDblK, utilFloat_eq_floatOf,
      tFloat, tNull, tErr, tBlobErr, trimErr_eq_stripErr]
  all_goals first | exact Agree.err _ | exact Agree.ok _ | exact floatOf_agree _ _

/-- the text-based conversions factor through ToString on both sides -/
theorem via_text {α} (m : Msg) (h : InRange m) (f : Bytes → Res α) (g : Bytes → Res α)
    (hfg : ∀ s, Agree (f s) (g s)) :
    Agree (match toStr m with | .ok v => f v | .err e => .err e | .panic => .panic | .oom => .oom)
          (match specToString m with | .ok s => g s | .err e => .err e | _ => .err "unreachable") := by
  have := toStr_agree m h
  revert this
  cases toStr m <;> cases specToString m <;> intro ha <;> cases ha
  · exact hfg _
  · exact Agree.err _
  · exact Agree.num _ _

theorem asInt64_agree (m : Msg) (h : InRange m) : Agree (asInt64 m) (specAsInt64 m) := by
  unfold asInt64 specAsInt64
  by_cases hi : m.typ = 58
  · simp [hi, isIntK, tInt]; exact Agree.ok _
  · simp only [isIntK, tInt, hi, if_false]
    exact via_text m h _ _ liftNum_agree_int

theorem asUint64_agree (m : Msg) (h : InRange m) : Agree (asUint64 m) (specAsUint64 m) := by
  unfold asUint64 specAsUint64
  by_cases hi : m.typ = 58
  · simp [hi, isIntK, tInt, toU64]; exact Agree.ok _
  · simp only [isIntK, tInt, hi, if_false]
    exact via_text m h _ _ liftNum_agree_uint

theorem asFloat64_agree (fp : FP) (m : Msg) (h : InRange m) : Agree (asFloat64 fp m) (specAsFloat64 fp m) := by
  unfold asFloat64 specAsFloat64
  by_cases hf : m.typ = 44
  · have hs : specToString m = .ok m.str := by
      simp [specToString, replyError, isNullK, isErrK, isIntK, isAggK, hf]
    simp [hf, tFloat, hs, utilFloat_eq_floatOf]; exact floatOf_agree _ _
  · simp only [tFloat, hf, if_false]
    exact via_text m h _ _ (fun s => by rw [utilFloat_eq_floatOf]; exact floatOf_agree fp s)

/-! ### slices -/
theorem mapR_agree {α} (f g : Msg → Res α) (vs : List Msg) (h : ∀ v ∈ vs, Agree (f v) (g v)) :
    Agree (mapR f vs)
      (vs.foldr (fun v acc =>
        match g v, acc with
        | .ok x, .ok xs => .ok (x :: xs)
        | .ok _, r => r
        | .err e, _ => .err e
        | _, _ => .err "unreachable") (.ok [])) := by
  induction vs with
  | nil => exact Agree.ok _
  | cons v r ih =>
    have hv := h v (by simp)
    have hr := ih (fun x hx => h x (by simp [hx]))
    simp only [List.foldr_cons, mapR]
    revert hv hr
    generalize f v = a
    generalize g v = b
    generalize mapR f r = c
    generalize (r.foldr _ _) = d
    intro hv hr
    cases hv <;> cases hr <;> first | exact Agree.ok _ | exact Agree.err _ | exact Agree.num _ _

theorem toArray_head (m : Msg) :
    toArray m = if m.typ = 42 ∨ m.typ = 126 then .ok m.arr
      else match replyError m with | some e => .err e | none => .err eParse := by
  rcases typ_cases m.typ with (ht|ht|ht|ht|ht|ht|ht|ht|ht|ht|ht|ht|ht) | ht
  all_goals
    simp_all [toArray, isArray, errOrParse, errOf, replyError, isNullK, isErrK, tArray, tSet, tNull, tErr, tBlobErr,
      trimErr_eq_stripErr]

theorem slice_agree {α} (f g : Msg → Res α) (m : Msg) (h : ∀ v ∈ m.arr, Agree (f v) (g v)) :
    Agree (match toArray m with | .ok vs => mapR f vs | .err e => .err e | .panic => .panic | .oom => .oom)
      (sliceOf g m) := by
  rw [toArray_head]
  unfold sliceOf
  by_cases ha : m.typ = 42 ∨ m.typ = 126
  · simp only [ha, if_true]; exact mapR_agree f g m.arr h
  · simp only [ha, if_false]
    cases replyError m <;> exact Agree.err _

theorem intElem_agree (v : Msg) (h : InRange v) (ha : ¬ isAggK v) : Agree (intElem v) (elemInt v) := by
  unfold intElem elemInt
  by_cases hs : v.str = []
  · simp only [hs, ne_eq, not_true_eq_false, if_false]
    by_cases hk : isIntK v ∨ isBoolK v
    · simp only [hk, if_true]; exact Agree.ok _
    · simp only [hk, if_false]
      have := h.textLen (fun x => hk (Or.inl x)) (fun x => hk (Or.inr x)) ha hs
      rw [this]; exact Agree.ok _
  · simp only [ne_eq, hs, not_false_eq_true, if_true]; exact liftNum_agree_int _

theorem floatElem_agree (fp : FP) (v : Msg) (h : InRange v) (ha : ¬ isAggK v) :
    Agree (floatElem fp v) (elemFloat fp v) := by
  unfold floatElem elemFloat
  by_cases hs : v.str = []
  · simp only [hs, ne_eq, not_true_eq_false, if_false]
    by_cases hk : isIntK v ∨ isBoolK v
    · simp only [hk, if_true]; exact Agree.ok _
    · simp only [hk, if_false]
      have := h.textLen (fun x => hk (Or.inl x)) (fun x => hk (Or.inr x)) ha hs
      rw [this]; exact Agree.ok _
  · simp only [ne_eq, hs, not_false_eq_true, if_true]
    rw [utilFloat_eq_floatOf]; exact floatOf_agree _ _

theorem boolElem_agree (v : Msg) : Agree (orZero (asBool v) false) (elemBool v) := by
  have := asBool_agree v
  unfold elemBool orZero
  revert this
  cases asBool v <;> cases specAsBool v <;> intro ha <;> cases ha <;> exact Agree.ok _

theorem asStrSlice_agree (m : Msg) : Agree (asStrSlice m) (specAsStrSlice m) := by
  have h := slice_agree (fun v => Res.ok v.str) elemStr m (fun v _ => Agree.ok _)
  have hm : ∀ vs : List Msg, mapR (fun v => Res.ok v.str) vs = .ok (vs.map Msg.str) := by
    intro vs; induction vs with
    | nil => rfl
    | cons x r ih => simp [mapR, ih]
  unfold asStrSlice specAsStrSlice
  cases ht : toArray m <;> simp only [ht, hm] at h ⊢ <;> exact h

theorem asIntSlice_agree (m : Msg) (h : ∀ v ∈ m.arr, InRange v ∧ ¬ isAggK v) :
    Agree (asIntSlice m) (specAsIntSlice m) :=
  slice_agree intElem elemInt m (fun v hv => intElem_agree v (h v hv).1 (h v hv).2)

theorem asFloatSlice_agree (fp : FP) (m : Msg) (h : ∀ v ∈ m.arr, InRange v ∧ ¬ isAggK v) :
    Agree (asFloatSlice fp m) (specAsFloatSlice fp m) :=
  slice_agree (floatElem fp) (elemFloat fp) m (fun v hv => floatElem_agree fp v (h v hv).1 (h v hv).2)

theorem asBoolSlice_agree (m : Msg) : Agree (asBoolSlice m) (specAsBoolSlice m) :=
  slice_agree (fun v => orZero (asBool v) false) elemBool m (fun v _ => boolElem_agree v)

end Rv.Acc
