/-
Counting lemmas for the lock model (C34): `cnt n p` = number of indices below `n` with `p`,
the pigeonhole argument behind quorum intersection, and point updates.
-/
import Rv.Model.Lock

namespace Rv.AddonCount
open Rv.Lock

theorem cnt_le (n : Nat) (p : Nat → Bool) : cnt n p ≤ n := by
  induction n with
  | zero => simp [cnt]
  | succ k ih => simp only [cnt]; split <;> omega

theorem cnt_add_le (n : Nat) (a b : Nat → Bool) :
    cnt n a + cnt n b ≤ n + cnt n (fun i => a i && b i) := by
  induction n with
  | zero => simp [cnt]
  | succ k ih =>
    simp only [cnt]
    by_cases ha : a k = true <;> by_cases hb : b k = true <;> simp [ha, hb] <;> omega

theorem exists_of_cnt_pos (n : Nat) (p : Nat → Bool) (h : 0 < cnt n p) : ∃ i, i < n ∧ p i = true := by
  induction n with
  | zero => simp [cnt] at h
  | succ k ih =>
    simp only [cnt] at h
    cases hp : p k with
    | true => exact ⟨k, by omega, hp⟩
    | false =>
      simp [hp] at h
      obtain ⟨i, hi, hpi⟩ := ih h
      exact ⟨i, by omega, hpi⟩

theorem cnt_congr (n : Nat) (p q : Nat → Bool) (h : ∀ i, i < n → p i = q i) : cnt n p = cnt n q := by
  induction n with
  | zero => rfl
  | succ k ih =>
    simp only [cnt]
    rw [ih (fun i hi => h i (by omega)), h k (by omega)]

theorem cnt_upd_succ (n i : Nat) (p q : Nat → Bool) (hi : i < n) (hp : p i = false) (hq : q i = true)
    (hrest : ∀ j, j ≠ i → q j = p j) : cnt n q = cnt n p + 1 := by
  induction n with
  | zero => omega
  | succ k ih =>
    simp only [cnt]
    by_cases hik : i = k
    · subst hik
      rw [cnt_congr i q p (fun j hj => hrest j (by omega)), hp, hq]
      simp
    · rw [ih (by omega), hrest k (fun h => hik h.symm)]
      omega

/-- two sets of at least `m` of `2m−1` indices share an index (pigeonhole), for every `m` -/
theorem quorum (m : Nat) (a b : Nat → Bool) (ha : m ≤ cnt (2 * m - 1) a) (hb : m ≤ cnt (2 * m - 1) b)
    (hm : 1 ≤ m) : ∃ i, i < 2 * m - 1 ∧ a i = true ∧ b i = true := by
  have h := cnt_add_le (2 * m - 1) a b
  have hpos : 0 < cnt (2 * m - 1) (fun i => a i && b i) := by omega
  obtain ⟨i, hi, hab⟩ := exists_of_cnt_pos _ _ hpos
  simp only [Bool.and_eq_true] at hab
  exact ⟨i, hi, hab.1, hab.2⟩

end Rv.AddonCount
