/-
Pending slots of the adapter model stay until their own `Update`/`Cancel` or `Close`;
what a lookup sees while one is pending.
-/
import Rv.Lemmas.AdapterRefine
namespace Rv.Adapter
open Rv.Lru (Bytes FRes pack unixMilli relativePTTL)

/-- operations that end the flight of (k, c) on the adapter -/
def Op.resolves (k c : Bytes) : Op → Bool
  | .update k' c' _ _ => k' == k && c' == c
  | .cancel k' c' _ => k' == k && c' == c
  | .close _ => true
  | _ => false

theorem slot_foldl_delKey_pending (keys : List Bytes) (s : State) (k c : Bytes) (e : AEntry)
    (h : slot s k c = some (some e)) : slot (keys.foldl delKey s) k c = some (some e) := by
  induction keys generalizing s with
  | nil => exact h
  | cons k0 rest ih =>
    apply ih
    rw [slot_delKey, h]; simp

theorem miss_slot (s : State) (k c : Bytes) (ttl now : Int) (k' c' : Bytes) (e : AEntry)
    (h : slot s k' c' = some (some e)) : slot (miss s k c ttl now).1 k' c' = some (some e) := by
  unfold miss
  split
  · exact h
  · rename_i hnp
    split
    · exact h
    · rename_i fl hfl
      rw [slot_put s fl hfl k c _ _ rfl]
      have : (k', c') ≠ (k, c) := by intro heq; cases heq; exact hnp e h
      simp only [this, if_false]; exact h

/-- a pending slot stays until its own `Update`/`Cancel` or `Close` -/
theorem pending_persists {s : State} {k c : Bytes} {e : AEntry} (h : slot s k c = some (some e)) (op : Op)
    (hno : op.resolves k c = false) : slot (step s op).1 k c = some (some e) := by
  cases op with
  | flight k' c' ttl now =>
    simp only [step]
    unfold flight
    split
    · split
      · exact h
      · exact miss_slot _ _ _ _ _ _ _ _ h
    · exact miss_slot _ _ _ _ _ _ _ _ h
  | update k' c' v raw =>
    have hne : ¬ (k' = k ∧ c' = c) := by simpa [Op.resolves] using hno
    simp only [step]
    unfold update
    split
    · rename_i fl e' hfl hsl
      rw [slot_put s fl hfl k' c' none _ rfl]
      have : (k, c) ≠ (k', c') := by intro heq; cases heq; exact hne ⟨rfl, rfl⟩
      simp only [this, if_false]; exact h
    · exact h
  | cancel k' c' err =>
    have hne : ¬ (k' = k ∧ c' = c) := by simpa [Op.resolves] using hno
    simp only [step]
    unfold cancel
    split
    · rename_i fl e' hfl hsl
      rw [slot_put s fl hfl k' c' none _ rfl]
      have : (k, c) ≠ (k', c') := by intro heq; cases heq; exact hne ⟨rfl, rfl⟩
      simp only [this, if_false]; exact h
    · exact h
  | delete keys =>
    cases keys with
    | none => exact slot_foldl_delKey_pending _ s k c e h
    | some ks => exact slot_foldl_delKey_pending _ s k c e h
  | close err => simp [Op.resolves] at hno

def run (s : State) : List Op → State
  | [] => s
  | op :: rest => run (step s op).1 rest

theorem pending_persists_run {s : State} {k c : Bytes} {e : AEntry} (h : slot s k c = some (some e)) (ops : List Op)
    (hno : ∀ op ∈ ops, op.resolves k c = false) : slot (run s ops) k c = some (some e) := by
  induction ops generalizing s with
  | nil => exact h
  | cons op rest ih =>
    exact ih (pending_persists h op (hno op List.mem_cons_self)) (fun o ho => hno o (List.mem_cons_of_mem _ ho))

/-- with a pending slot, a lookup is never told to send, and if it waits it waits on that entry -/
theorem flight_of_pending {s : State} {k c : Bytes} {e : AEntry} (h : slot s k c = some (some e)) (ttl now : Int) :
    (flight s k c ttl now).2 ≠ .send ∧ ∀ i, (flight s k c ttl now).2 = .wait i → i = e.id := by
  have hm : (miss s k c ttl now).2 = .wait e.id := by unfold miss; simp [h]
  unfold flight
  split
  · split
    · simp
    · rw [hm]; simp
  · rw [hm]; simp

/-- a lookup that is told to send on an open adapter leaves a pending slot with a fresh id and the client expiry -/
theorem send_creates_pending {s : State} (k c : Bytes) (ttl now : Int) (hopen : s.flights ≠ none)
    (h : (flight s k c ttl now).2 = .send) :
    slot (flight s k c ttl now).1 k c = some (some { id := s.nextId, xat := unixMilli (now + ttl) }) := by
  have hm : (miss s k c ttl now).2 = .send →
      slot (miss s k c ttl now).1 k c = some (some { id := s.nextId, xat := unixMilli (now + ttl) }) := by
    unfold miss
    split
    · simp
    · split
      · rename_i hfl; exact absurd hfl hopen
      · rename_i fl hfl
        intro _
        rw [slot_put s fl hfl k c _ _ rfl]; simp
  unfold flight at h ⊢
  cases hg : get s.store (k ++ c) with
  | none => simp only [hg] at h ⊢; exact hm h
  | some p =>
    obtain ⟨v, exp⟩ := p
    simp only [hg] at h ⊢
    by_cases hrel : relativePTTL exp (unixMilli now) > 0
    · simp [hrel] at h
    · simp only [hrel, if_false] at h ⊢; exact hm h

end Rv.Adapter
