/-
Flow buffer: the reply-channel ids of the circulating tokens are pairwise distinct, and the
callers blocked on a channel are exactly the owners of the commands travelling with it.
Helper lemmas for Rv/Props/C02.lean (flow_reply_to_enqueuer, flow_no_deadlock).
-/
import Rv.Model.FlowBuffer
namespace Rv.Flow
open Rv.Ring (upd upd_apply)

/-- how many tokens carry channel id x (over f, the callers in between, w, r and b.c) -/
def tcount (σ : State) (x : Nat) : Nat :=
  σ.f.count x + (σ.hold.map (·.2)).count x + (σ.w.map (·.1)).count x + (σ.r.map (·.1)).count x +
    (match σ.cur with | some (ch, _) => if ch = x then 1 else 0 | none => 0)

/-- token (ch, c) is in front of the reader: in w, in r, or in b.c with the reply not yet sent -/
def inFlight (σ : State) (ch c : Nat) : Prop :=
  (ch, c) ∈ σ.w ∨ (ch, c) ∈ σ.r ∨ (σ.cur = some (ch, c) ∧ σ.delivered = false)

structure InvU (σ : State) : Prop where
  tc : ∀ x, tcount σ x ≤ 1
  fil : ∀ c ch, σ.pc c = .filled ch → inFlight σ ch c
  tok : ∀ ch c, inFlight σ ch c → σ.pc c = .filled ch
  hid : ∀ c ch, (c, ch) ∈ σ.hold → σ.pc c = .idle ∧ c < σ.ncalls
  hnd : (σ.hold.map (·.1)).Nodup
  fresh : ∀ c, σ.ncalls ≤ c → σ.pc c = .idle

theorem InvU.init (size : Nat) : InvU (init size) := by
  refine ⟨?_, ?_, ?_, ?_, ?_, ?_⟩
  · intro x; simp [tcount, Flow.init]; split <;> omega
  · intro c ch h; simp [Flow.init] at h
  · intro ch c h; simp [inFlight, Flow.init] at h
  · intro c ch h; simp [Flow.init] at h
  · simp [Flow.init]
  · intro c _; rfl

theorem mem_w_count {σ : State} {ch c : Nat} (h : (ch, c) ∈ σ.w) : 0 < (σ.w.map (·.1)).count ch :=
  List.count_pos_iff.2 (List.mem_map_of_mem (f := (·.1)) h)

theorem mem_r_count {σ : State} {ch c : Nat} (h : (ch, c) ∈ σ.r) : 0 < (σ.r.map (·.1)).count ch :=
  List.count_pos_iff.2 (List.mem_map_of_mem (f := (·.1)) h)

/-- two in-flight tokens with the same channel carry the same command -/
theorem InvU.cur_unique {σ : State} (h : InvU σ) {ch cmd c : Nat} (hc : σ.cur = some (ch, cmd))
    (hf : inFlight σ ch c) : c = cmd := by
  have t := h.tc ch
  simp only [tcount, hc, if_true] at t
  rcases hf with hf | hf | hf
  · have := mem_w_count hf; omega
  · have := mem_r_count hf; omega
  · rw [hc] at hf; injection hf.1 with e; injection e with _ e; exact e.symm

theorem InvU.deliver_eq {σ : State} (h : InvU σ) {ch cmd c : Nat} (hc : σ.cur = some (ch, cmd))
    (hpc : σ.pc c = .filled ch) : c = cmd := h.cur_unique hc (h.fil c ch hpc)

end Rv.Flow
