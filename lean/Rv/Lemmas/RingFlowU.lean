/-
Flow buffer: the reply-channel ids of the circulating tokens are pairwise distinct, and the
callers blocked on a channel are exactly the owners of the commands travelling with it.
Helper lemmas for Rv/Props/C02.lean (flow_reply_to_enqueuer, flow_no_deadlock).
-/
import Rv.Model.FlowBuffer
namespace Rv.Flow
open Rv.Ring (upd upd_apply)

/-- how many tokens carry channel id x (over f, the callers in between, w, r and b.c) -/
def tcount (σ : State) (x : Nat) : Nat :=
  σ.f.count x + (σ.hold.map (·.2)).count x + (σ.w.map (·.1)).count x + (σ.r.map (·.1)).count x +
    (match σ.cur with | some (ch, _) => if ch = x then 1 else 0 | none => 0)

/-- token (ch, c) is in front of the reader: in w, in r, or in b.c with the reply not yet sent -/
def inFlight (σ : State) (ch c : Nat) : Prop :=
  (ch, c) ∈ σ.w ∨ (ch, c) ∈ σ.r ∨ (σ.cur = some (ch, c) ∧ σ.delivered = false)

structure InvU (σ : State) : Prop where
  tc : ∀ x, tcount σ x ≤ 1
  fil : ∀ c ch, σ.pc c = .filled ch → inFlight σ ch c
  tok : ∀ ch c, inFlight σ ch c → σ.pc c = .filled ch
  hid : ∀ c ch, (c, ch) ∈ σ.hold → σ.pc c = .idle ∧ c < σ.ncalls
  hnd : (σ.hold.map (·.1)).Nodup
  fresh : ∀ c, σ.ncalls ≤ c → σ.pc c = .idle

theorem InvU.init (size : Nat) : InvU (init size) := by
  refine ⟨?_, ?_, ?_, ?_, ?_, ?_⟩
  · intro x; simp [tcount, Flow.init]; split <;> omega
  · intro c ch h; simp [Flow.init] at h
  · intro ch c h; simp [inFlight, Flow.init] at h
  · intro c ch h; simp [Flow.init] at h
  · simp [Flow.init]
  · intro c _; rfl

theorem mem_w_count {σ : State} {ch c : Nat} (h : (ch, c) ∈ σ.w) : 0 < (σ.w.map (·.1)).count ch :=
  List.count_pos_iff.2 (List.mem_map_of_mem (f := (·.1)) h)

theorem mem_r_count {σ : State} {ch c : Nat} (h : (ch, c) ∈ σ.r) : 0 < (σ.r.map (·.1)).count ch :=
  List.count_pos_iff.2 (List.mem_map_of_mem (f := (·.1)) h)

/-- two in-flight tokens with the same channel carry the same command -/
theorem InvU.cur_unique {σ : State} (h : InvU σ) {ch cmd c : Nat} (hc : σ.cur = some (ch, cmd))
    (hf : inFlight σ ch c) : c = cmd := by
  have t := h.tc ch
  simp only [tcount, hc, if_true] at t
  rcases hf with hf | hf | hf
  · have := mem_w_count hf; omega
  · have := mem_r_count hf; omega
  · rw [hc] at hf; injection hf.1 with e; injection e with _ e; exact e.symm

theorem InvU.deliver_eq {σ : State} (h : InvU σ) {ch cmd c : Nat} (hc : σ.cur = some (ch, cmd))
    (hpc : σ.pc c = .filled ch) : c = cmd := h.cur_unique hc (h.fil c ch hpc)


theorem find_spec {hold : List (Nat × Nat)} {c c' ch : Nat}
    (hf : hold.find? (fun p => p.1 == c) = some (c', ch)) : c' = c ∧ (c, ch) ∈ hold := by
  have h1 := List.find?_some hf
  have h2 := List.mem_of_find?_eq_some hf
  simp at h1; subst h1; exact ⟨rfl, h2⟩

theorem InvU.step {σ : State} (h : InvU σ) (l : Label) (he : enabled l σ = true) : InvU (apply l σ) := by
  cases l with
  | recv =>
    simp only [Flow.apply]
    split
    · rename_i ch rest hf
      refine ⟨?_, h.fil, h.tok, ?_, ?_, ?_⟩
      · intro x; have := h.tc x
        simp only [tcount, hf, List.count_cons, List.map_cons] at this ⊢
        omega
      · intro c ch' hm
        simp only [List.mem_cons] at hm
        rcases hm with hm | hm
        · injection hm with a b; subst a
          exact ⟨h.fresh _ (Nat.le_refl _), by simp⟩
        · have := h.hid c ch' hm; exact ⟨this.1, by simp only; omega⟩
      · simp only [List.map_cons, List.nodup_cons]
        refine ⟨?_, h.hnd⟩
        intro hm
        obtain ⟨p, hp, e⟩ := List.mem_map.1 hm
        have := (h.hid p.1 p.2 hp).2
        have e' : p.1 = σ.ncalls := e
        omega
      · intro c hc; exact h.fresh c (by simp only at hc; omega)
    · exact h
  | send c =>
    simp only [Flow.apply]
    split
    · rename_i c' ch hf
      obtain ⟨e, hmem⟩ := find_spec hf
      subst e
      have hperm : σ.hold.Perm ((c', ch) :: σ.hold.erase (c', ch)) := List.perm_cons_erase hmem
      obtain ⟨hidle, hlt⟩ := h.hid c' ch hmem
      have hnotin : ∀ ch2, (c', ch2) ∉ σ.hold.erase (c', ch) := by
        intro ch2 hm
        have hn := (hperm.map (·.1)).nodup_iff.1 h.hnd
        simp only [List.map_cons, List.nodup_cons] at hn
        exact hn.1 (List.mem_map_of_mem (f := (·.1)) hm)
      refine ⟨?_, ?_, ?_, ?_, ?_, ?_⟩
      · intro x; have := h.tc x
        have hc := (hperm.map (·.2)).count_eq x
        simp only [tcount, List.map_cons, List.count_cons, List.map_append, List.count_append, List.count_nil, List.map_nil] at this hc ⊢
        omega
      · intro c ch2; simp only [upd_apply]; split
        · rename_i e; subst e; intro hh; injection hh with hh; subst hh
          left; simp
        · intro hh
          rcases h.fil c ch2 hh with t | t | t
          · left; simp [t]
          · exact Or.inr (Or.inl t)
          · exact Or.inr (Or.inr t)
      · intro ch2 c hfl
        simp only [upd_apply]
        rcases hfl with t | t | t
        · simp only [List.mem_append, List.mem_singleton] at t
          rcases t with t | t
          · have := h.tok ch2 c (Or.inl t)
            split
            · rename_i e; subst e; rw [hidle] at this; cases this
            · exact this
          · injection t with a b; subst a; subst b; simp
        · have := h.tok ch2 c (Or.inr (Or.inl t))
          split
          · rename_i e; subst e; rw [hidle] at this; cases this
          · exact this
        · have := h.tok ch2 c (Or.inr (Or.inr t))
          split
          · rename_i e; subst e; rw [hidle] at this; cases this
          · exact this
      · intro c ch2 hm
        have hm' := List.mem_of_mem_erase hm
        have := h.hid c ch2 hm'
        refine ⟨?_, this.2⟩
        simp only [upd_apply]; split
        · rename_i e; subst e; exact absurd hm (hnotin ch2)
        · exact this.1
      · exact List.Nodup.sublist ((List.erase_sublist).map _) h.hnd
      · intro c hc; simp only [upd_apply]; split
        · rename_i e; subst e; simp only at hc; omega
        · exact h.fresh c hc
    · exact h
  | wTake =>
    simp only [Flow.apply]
    split
    · rename_i t rest hw
      refine ⟨?_, ?_, ?_, h.hid, h.hnd, h.fresh⟩
      · intro x; have := h.tc x
        simp only [tcount, hw, List.map_cons, List.count_cons, List.map_append, List.count_append, List.count_nil, List.map_nil] at this ⊢
        omega
      · intro c ch hh
        rcases h.fil c ch hh with a | a | a
        · rw [hw] at a; simp only [List.mem_cons] at a
          rcases a with a | a
          · right; left; simp [a]
          · exact Or.inl a
        · right; left; simp [a]
        · exact Or.inr (Or.inr a)
      · intro ch c hfl
        apply h.tok ch c
        rcases hfl with a | a | a
        · left; rw [hw]; exact List.mem_cons_of_mem _ a
        · simp only [List.mem_append, List.mem_singleton] at a
          rcases a with a | a
          · exact Or.inr (Or.inl a)
          · left; rw [hw, a]; exact List.mem_cons_self
        · exact Or.inr (Or.inr a)
    · exact h
  | rBegin =>
    simp only [Flow.apply]
    have hc : σ.cur = none := by
      simp only [enabled, Bool.and_eq_true] at he
      have := he.1; cases hcur : σ.cur <;> simp_all
    split
    · rename_i t rest hr
      obtain ⟨tch, tcmd⟩ := t
      refine ⟨?_, ?_, ?_, h.hid, h.hnd, h.fresh⟩
      · intro x; have := h.tc x
        simp only [tcount, hr, hc, List.map_cons, List.count_cons] at this ⊢
        simp only [beq_iff_eq] at this ⊢
        omega
      · intro c ch hh
        rcases h.fil c ch hh with a | a | a
        · exact Or.inl a
        · rw [hr] at a; simp only [List.mem_cons] at a
          rcases a with a | a
          · right; right; simp [a]
          · exact Or.inr (Or.inl a)
        · rw [hc] at a; cases a.1
      · intro ch c hfl
        apply h.tok ch c
        rcases hfl with a | a | a
        · exact Or.inl a
        · right; left; rw [hr]; exact List.mem_cons_of_mem _ a
        · right; left; rw [hr]
          simp only at a
          injection a.1 with a; rw [a]; exact List.mem_cons_self
    · exact h
  | rDeliver c =>
    simp only [Flow.apply]
    split
    · rename_i ch cmd hcur
      simp only [enabled, hcur, Bool.and_eq_true] at he
      have hpc : σ.pc c = .filled ch := by simpa using he.2
      have hcc : c = cmd := h.deliver_eq hcur hpc
      subst hcc
      refine ⟨?_, ?_, ?_, ?_, h.hnd, ?_⟩
      · intro x; exact h.tc x
      · intro c' ch'; simp only [upd_apply]; split
        · intro hh; cases hh
        · rename_i e
          intro hh
          rcases h.fil c' ch' hh with a | a | a
          · exact Or.inl a
          · exact Or.inr (Or.inl a)
          · rw [hcur] at a; injection a.1 with a; injection a with _ a; exact absurd a.symm e
      · intro ch' c' hfl
        have hold : inFlight σ ch' c' := by
          rcases hfl with a | a | a
          · exact Or.inl a
          · exact Or.inr (Or.inl a)
          · simp only at a; cases a.2
        have hp := h.tok ch' c' hold
        simp only [upd_apply]; split
        · rename_i e; subst e
          -- c' = c is the command in b.c: it cannot also travel in w or r
          rw [hpc] at hp; injection hp with hp; subst hp
          rcases hfl with a | a | a
          · have t := h.tc ch; simp only [tcount, hcur, if_true] at t
            have a' : (ch, c') ∈ σ.w := a
            have := mem_w_count a'; omega
          · have t := h.tc ch; simp only [tcount, hcur, if_true] at t
            have a' : (ch, c') ∈ σ.r := a
            have := mem_r_count a'; omega
          · simp only at a; cases a.2
        · exact hp
      · intro c' ch' hm
        have := h.hid c' ch' hm
        refine ⟨?_, this.2⟩
        simp only [upd_apply]; split
        · rename_i e; subst e; rw [hpc] at this; cases this.1
        · exact this.1
      · intro c' hc'
        have := h.fresh c' hc'
        simp only [upd_apply]; split
        · rename_i e; subst e; rw [hpc] at this; cases this
        · exact this
    · exact h
  | rFinish =>
    simp only [Flow.apply]
    split
    · rename_i ch cmd hcur
      have hd : σ.delivered = true := by
        simp only [enabled, Bool.and_eq_true] at he
        exact he.1.2
      refine ⟨?_, ?_, ?_, h.hid, h.hnd, h.fresh⟩
      · intro x; have := h.tc x
        simp only [tcount, hcur, List.count_append, List.count_cons, List.count_nil] at this ⊢
        simp only [beq_iff_eq] at this ⊢
        omega
      · intro c ch' hh
        rcases h.fil c ch' hh with a | a | a
        · exact Or.inl a
        · exact Or.inr (Or.inl a)
        · rw [hd] at a; cases a.2
      · intro ch' c hfl
        apply h.tok ch' c
        rcases hfl with a | a | a
        · exact Or.inl a
        · exact Or.inr (Or.inl a)
        · simp only at a; cases a.1
    · exact h

theorem InvU.of_reachable {size : Nat} {σ : State} (h : Reachable size σ) : InvU σ := by
  induction h with
  | init => exact InvU.init size
  | step l _ he ih => exact ih.step l he


end Rv.Flow
