/-
C29 helper: the C12 reader model never succeeds on a *strict prefix* of a well-formed
frame (`trunc_all`): wherever the server stops — inside a header line, a payload, a trailing
CRLF, between the chunks of a streamed string, between the elements of an aggregate, inside
the `.` terminator, between an attribute frame and its reply — `readNext` does not return a
value, with any fuel. Proved by mutual structural induction over the wire tree; complete
sub-frames are handled by `readNext_ok_det` (fuel monotonicity + the C12 round trip).
-/
import Rv.Lemmas.StreamMono
import Rv.Props.C13
namespace Rv.StreamL
open Rv Rv.Resp Rv.Spec Rv.RespL

/-- the result is not a value (an error, or — never, by C13 — a panic) -/
def NotOk {α : Type} (r : Res α) : Prop := ∀ a, r ≠ .ok a

theorem notOk_err {α : Type} (e : String) : NotOk (Res.err e : Res α) := fun _ h => by cases h
theorem notOk_panic {α : Type} : NotOk (Res.panic : Res α) := fun _ h => by cases h
theorem notOk_oom {α : Type} : NotOk (Res.oom : Res α) := fun _ h => by cases h

/-! ### lines without a line feed -/

theorem splitLine_none (l : List UInt8) (h : ∀ c ∈ l, c ≠ 10) : splitLine l = none := by
  induction l with
  | nil => rfl
  | cons x xs ih =>
    have hx : x ≠ 10 := h x (by simp)
    simp [splitLine, hx, ih (fun c hc => h c (by simp [hc]))]

theorem readI_noLF (B : Nat) (l : List UInt8) (h : ∀ c ∈ l, c ≠ 10) : readI B l = .fail "io" := by
  unfold readI; rw [splitLine_none l h]

theorem readS_noLF (l : List UInt8) (h : ∀ c ∈ l, c ≠ 10) : readS l = .err "io" := by
  unfold readS; rw [splitLine_none l h]

/-- a strict prefix of `x CR LF` (whatever follows) contains no line feed when `x` has none -/
theorem take_line_noLF (x tl : List UInt8) (hx : ∀ c ∈ x, c ≠ 10) (k : Nat) (hk : k < x.length + 2) :
    ∀ c ∈ (x ++ crlf ++ tl).take k, c ≠ 10 := by
  have he : x ++ crlf ++ tl = (x ++ [13]) ++ (10 :: tl) := by simp [crlf]
  rw [he, List.take_append_of_le_length (by simp; omega)]
  intro c hc
  have := List.mem_of_mem_take hc
  simp only [List.mem_append, List.mem_singleton] at this
  rcases this with h | h
  · exact hx c h
  · subst h; decide

theorem readI_cut (B : Nat) (x tl : List UInt8) (hx : ∀ c ∈ x, c ≠ 10) (k : Nat) (hk : k < x.length + 2) :
    readI B ((x ++ crlf ++ tl).take k) = .fail "io" :=
  readI_noLF B _ (take_line_noLF x tl hx k hk)

theorem digits_noLF (n : Nat) : ∀ c ∈ digits n, c ≠ 10 := fun c hc => (digit_ne (digits_all n c hc)).1

theorem decI_noLF (v : Int) : ∀ c ∈ decI v, c ≠ 10 := by
  intro c hc
  unfold decI at hc
  split at hc
  · simp only [List.mem_cons] at hc
    rcases hc with h | h
    · subst h; decide
    · exact digits_noLF _ c h
  · exact digits_noLF _ c hc

/-- splitting a prefix of `a ++ b` -/
theorem take_append_cases (a b : List UInt8) (k : Nat) (hk : k < (a ++ b).length) :
    (k < a.length ∧ (a ++ b).take k = a.take k) ∨
    (∃ j, j < b.length ∧ (a ++ b).take k = a ++ b.take j) := by
  by_cases h : k < a.length
  · left; exact ⟨h, List.take_append_of_le_length (by omega)⟩
  · right
    refine ⟨k - a.length, by simp at hk; omega, ?_⟩
    rw [List.take_append]
    rw [List.take_of_length_le (by omega)]

/-! ### the frame level: from the body reader to `readNext` -/

theorem readNext_zero_notOk (B : Nat) (ats : List Msg) (bs : List UInt8) : NotOk (readNext B 0 ats bs) := by
  rw [readNext]; exact notOk_err _

theorem readNext_nil_notOk (B f : Nat) (ats : List Msg) : NotOk (readNext B f ats []) := by
  cases f with
  | zero => exact readNext_zero_notOk B ats []
  | succ f => rw [readNext]; exact notOk_err _

theorem readNext_of_body_notOk (B f : Nat) (ats : List Msg) (t : UInt8) (rk : RK) (bs : List UInt8)
    (hr : readerOf t = some rk) (hb : NotOk (readBody B f t rk bs)) : NotOk (readNext B (f + 1) ats (t :: bs)) := by
  rw [readNext]
  simp only [hr]
  cases h : readBody B f t rk bs with
  | ok y => exact absurd h (hb y)
  | err e => exact notOk_err _
  | panic => exact notOk_panic
  | oom => exact notOk_oom

/-- if the body reader fails on every strict prefix of the body, `readNext` fails on every
    strict prefix of the frame -/
theorem readNext_cut (B : Nat) (t : UInt8) (rk : RK) (body : List UInt8) (hr : readerOf t = some rk)
    (hbody : ∀ k, k < body.length → ∀ f, NotOk (readBody B f t rk (body.take k))) :
    ∀ k, k < (t :: body).length → ∀ f ats, NotOk (readNext B f ats ((t :: body).take k)) := by
  intro k hk f ats
  cases k with
  | zero => exact readNext_nil_notOk B f ats
  | succ k =>
    cases f with
    | zero => exact readNext_zero_notOk B ats _
    | succ f =>
      rw [List.take_succ_cons]
      exact readNext_of_body_notOk B f ats t rk _ hr (hbody k (by simpa using hk) f)

/-! ### leaf bodies -/

/-- a header line `x CR LF …` cut inside the line, or complete: the two ways a prefix can look -/
theorem take_header_cases (x b : List UInt8) (k : Nat) (hk : k < (x ++ crlf ++ b).length) :
    k < x.length + 2 ∨ ∃ j, j < b.length ∧ (x ++ crlf ++ b).take k = x ++ crlf ++ b.take j := by
  rcases take_append_cases (x ++ crlf) b k hk with ⟨h, _⟩ | ⟨j, hj, he⟩
  · left; simpa [crlf] using h
  · right; exact ⟨j, hj, he⟩

/-- `readB` after a complete `$n` header when fewer than `n + 2` bytes follow -/
theorem readB_short (B : Nat) (hb : 32 ≤ B) (n : Nat) (hn : n < 9223372036854775808) (r : List UInt8)
    (hr : r.length < n + 2) : ∃ x, readB B (digits n ++ crlf ++ r) = .fail x := by
  unfold readB
  rw [readI_digits B n hb hn]
  have h1 : ¬ ((n : Int) = -1) := by omega
  have h2 : ¬ ((n : Int) < 0) := by omega
  simp only [h1, h2, if_false, Int.toNat_natCast]
  split
  · exact ⟨_, rfl⟩
  · exact ⟨_, rfl⟩
  · exact ⟨_, rfl⟩
  · split
    · exact ⟨_, rfl⟩
    · split
      · exact ⟨_, rfl⟩
      · exact ⟨_, rfl⟩
      · exact ⟨_, rfl⟩
      · have : (r.drop n).length < 2 := by simp only [List.length_drop]; omega
        rw [if_pos this]
        exact ⟨_, rfl⟩

theorem readB_of_readI_fail (B : Nat) (bs : List UInt8) (e : String) (h : readI B bs = .fail e) :
    readB B bs = .fail (.err e) := by
  unfold readB; rw [h]

theorem readBody_blob_fail (B f : Nat) (t : UInt8) (bs : List UInt8) (x : Res Unit) (h : readB B bs = .fail x) :
    NotOk (readBody B f t .blob bs) := by
  rw [readBody, h]
  cases x with
  | ok u => exact notOk_err _
  | err e => exact notOk_err _
  | panic => exact notOk_panic
  | oom => exact notOk_oom

/-- body of a `$n` / `!n` / `=n` blob frame -/
theorem blob_body_cut (B : Nat) (hb : 32 ≤ B) (t : UInt8) (s : List UInt8) (hs : s.length < 9223372036854775808) :
    ∀ k, k < (digits s.length ++ crlf ++ (s ++ crlf)).length → ∀ f,
      NotOk (readBody B f t .blob ((digits s.length ++ crlf ++ (s ++ crlf)).take k)) := by
  intro k hk f
  rcases take_header_cases (digits s.length) (s ++ crlf) k hk with h | ⟨j, hj, he⟩
  · exact readBody_blob_fail B f t _ _ (readB_of_readI_fail B _ _ (readI_cut B _ _ (digits_noLF _) k h))
  · rw [he]
    obtain ⟨x, hx⟩ := readB_short B hb s.length hs ((s ++ crlf).take j) (by
      simp only [List.length_take, List.length_append, crlf, List.length_cons, List.length_nil] at hj ⊢; omega)
    exact readBody_blob_fail B f t _ x hx

/-- the chunk loop of the normal reader on a strict prefix of `chunks ;0` -/
theorem readChunks_cut (B : Nat) (hb : 32 ≤ B) (cs : List (List UInt8))
    (hcs : ∀ c ∈ cs, c ≠ [] ∧ c.length < 9223372036854775808) :
    ∀ j, j < ((cs.map chunkBytes).flatten ++ [59, 48, 13, 10]).length → ∀ f acc,
      NotOk (readChunks B f acc (((cs.map chunkBytes).flatten ++ [59, 48, 13, 10]).take j)) := by
  induction cs with
  | nil =>
    intro j hj f acc
    cases f with
    | zero => rw [readChunks]; exact notOk_err _
    | succ f =>
      simp only [List.map_nil, List.flatten_nil, List.nil_append]
      cases j with
      | zero => rw [List.take_zero, readChunks]; exact notOk_err _
      | succ j =>
        rw [List.take_succ_cons, readChunks]
        have : readI B (([48] ++ crlf ++ []).take j) = .fail "io" :=
          readI_cut B [48] [] (by decide) j (by simp at hj ⊢; omega)
        have he : ([48] ++ crlf ++ ([] : List UInt8)) = [48, 13, 10] := rfl
        rw [he] at this
        simp only [this]
        exact notOk_err _
  | cons c cs ih =>
    intro j hj f acc
    have ⟨hne, hlt⟩ := hcs c (by simp)
    cases f with
    | zero => rw [readChunks]; exact notOk_err _
    | succ f =>
      have hshape : ((c :: cs).map chunkBytes).flatten ++ [59, 48, 13, 10] =
          chunkBytes c ++ ((cs.map chunkBytes).flatten ++ [59, 48, 13, 10]) := by simp
      rw [hshape] at hj ⊢
      rcases take_append_cases (chunkBytes c) _ j hj with ⟨hjc, he⟩ | ⟨j', hj', he⟩
      · rw [he]
        cases j with
        | zero => rw [List.take_zero, readChunks]; exact notOk_err _
        | succ j =>
          have hcb : chunkBytes c = 59 :: (digits c.length ++ crlf ++ (c ++ crlf)) := by simp [chunkBytes]
          rw [hcb, List.take_succ_cons, readChunks]
          rw [hcb] at hjc
          rcases take_header_cases (digits c.length) (c ++ crlf) j (by simpa using hjc) with h | ⟨i, hi, hei⟩
          · rw [readI_cut B _ _ (digits_noLF _) j h]; exact notOk_err _
          · rw [hei, readI_digits B c.length hb hlt]
            have hl : 0 < c.length := List.length_pos_iff.mpr hne
            have h1 : ¬ ((c.length : Int) = 0) := by omega
            have h2 : ¬ ((c.length : Int) < 0) := by omega
            simp only [h1, h2, if_false, Int.toNat_natCast]
            have hr : ((c ++ crlf).take i).length < c.length + 2 := by
              simp only [List.length_take, List.length_append, crlf, List.length_cons, List.length_nil] at hi ⊢; omega
            split
            · exact notOk_err _
            · exact notOk_panic
            · exact notOk_oom
            · split
              · exact notOk_err _
              · have : ((List.take i (c ++ crlf)).drop c.length).length < 2 := by
                  simp only [List.length_drop]; omega
                rw [if_pos this]; exact notOk_err _
      · rw [he, readChunks_step B hb c hne hlt]
        exact ih (fun x hx => hcs x (by simp [hx])) j' hj' f _

/-- body of a streamed string `$?` … `;0` -/
theorem chunked_body_cut (B : Nat) (hb : 32 ≤ B) (t : UInt8) (cs : List (List UInt8))
    (hcs : ∀ c ∈ cs, c ≠ [] ∧ c.length < 9223372036854775808) :
    ∀ k, k < (63 :: 13 :: 10 :: ((cs.map chunkBytes).flatten ++ [59, 48, 13, 10])).length → ∀ f,
      NotOk (readBody B f t .blob ((63 :: 13 :: 10 :: ((cs.map chunkBytes).flatten ++ [59, 48, 13, 10])).take k)) := by
  intro k hk f
  have hsh : (63 :: 13 :: 10 :: ((cs.map chunkBytes).flatten ++ [59, 48, 13, 10])) =
      [63] ++ crlf ++ ((cs.map chunkBytes).flatten ++ [59, 48, 13, 10]) := rfl
  rw [hsh] at hk ⊢
  rcases take_header_cases [63] _ k hk with h | ⟨j, hj, he⟩
  · exact readBody_blob_fail B f t _ _ (readB_of_readI_fail B _ _ (readI_cut B _ _ (by decide) k h))
  · rw [he]
    have hq : readB B ([63] ++ crlf ++ (((cs.map chunkBytes).flatten ++ [59, 48, 13, 10]).take j)) =
        .chunked (((cs.map chunkBytes).flatten ++ [59, 48, 13, 10]).take j) := readB_q B hb _
    rw [readBody, hq]
    simp only
    have := readChunks_cut B hb cs hcs j hj
      ((((cs.map chunkBytes).flatten ++ [59, 48, 13, 10]).take j).length + 1) []
    cases hc : readChunks B ((((cs.map chunkBytes).flatten ++ [59, 48, 13, 10]).take j).length + 1) []
        (((cs.map chunkBytes).flatten ++ [59, 48, 13, 10]).take j) with
    | ok y => exact absurd hc (this y)
    | err e => exact notOk_err _
    | panic => exact notOk_panic
    | oom => exact notOk_oom

/-- body `-1 CR LF` of a RESP2 null (`$-1`, `*-1`): any strict prefix has no complete line -/
theorem readI_m1_cut (B : Nat) (k : Nat) (hk : k < 4) : readI B (([45, 49, 13, 10] : List UInt8).take k) = .fail "io" := by
  have := readI_cut B [45, 49] [] (by decide) k (by simpa using hk)
  exact this

theorem simple_body_cut (B : Nat) (t : UInt8) (s : List UInt8) (hs : ∀ c ∈ s, c ≠ 10) :
    ∀ k, k < (s ++ crlf).length → ∀ f, NotOk (readBody B f t .simple ((s ++ crlf).take k)) := by
  intro k hk f
  rw [readBody]
  have := readS_noLF _ (take_line_noLF s [] hs k (by simpa [crlf] using hk))
  simp only [List.append_nil] at this
  rw [this]; exact notOk_err _

theorem int_body_cut (B : Nat) (v : Int) :
    ∀ k, k < (decI v ++ crlf).length → ∀ f, NotOk (readBody B f 58 .integer ((decI v ++ crlf).take k)) := by
  intro k hk f
  rw [readBody]
  have := readI_cut B (decI v) [] (decI_noLF v) k (by simpa [crlf] using hk)
  simp only [List.append_nil] at this
  rw [this]; exact notOk_err _

theorem null_body_cut (B : Nat) (t : UInt8) :
    ∀ k, k < ([13, 10] : List UInt8).length → ∀ f, NotOk (readBody B f t .null (([13, 10] : List UInt8).take k)) := by
  intro k hk f
  rw [readBody]
  have : k = 0 ∨ k = 1 := by simp at hk; omega
  rcases this with h | h <;> subst h <;> exact notOk_err _

theorem bool_body_cut (B : Nat) (t c : UInt8) :
    ∀ k, k < ([c, 13, 10] : List UInt8).length → ∀ f, NotOk (readBody B f t .bool (([c, 13, 10] : List UInt8).take k)) := by
  intro k hk f
  have : k = 0 ∨ k = 1 ∨ k = 2 := by simp at hk; omega
  rcases this with h | h | h <;> subst h
  · rw [List.take_zero, readBody]; exact notOk_err _
  · show NotOk (readBody B f t .bool [c])
    rw [readBody]; exact notOk_err _
  · show NotOk (readBody B f t .bool [c, 13])
    rw [readBody]; exact notOk_err _

/-! ### aggregates -/

theorem wrapFixed_notOk (t : UInt8) (len : Int) (a : Res (List Msg × List UInt8)) (h : NotOk a) :
    NotOk (wrapFixed t len a) := by
  cases a with
  | ok y => exact absurd rfl (h y)
  | err e => exact notOk_err _
  | panic => exact notOk_panic
  | oom => exact notOk_oom

theorem wrapStream_notOk (t : UInt8) (a : Res (List Msg × List UInt8)) (h : NotOk a) : NotOk (wrapStream t a) := by
  cases a with
  | ok y => exact absurd rfl (h y)
  | err e => exact notOk_err _
  | panic => exact notOk_panic
  | oom => exact notOk_oom

/-- what the two element loops do on a strict prefix of the elements' bytes -/
def ListCut (B : Nat) (xs : List Wire) : Prop :=
  (∀ j, j < (bytesL xs).length → ∀ f, NotOk (readArr B f xs.length ((bytesL xs).take j))) ∧
  (∀ j, j < (bytesL xs ++ [46, 13, 10]).length → ∀ f acc,
      NotOk (readEnd B f acc ((bytesL xs ++ [46, 13, 10]).take j)))

/-- `readNext` never succeeds on a strict prefix of the frame (for replies and for attribute frames) -/
def WireCut (B : Nat) (w : Wire) : Prop :=
  (WF w = true ∨ attrOK w = true) → ∀ k, k < (bytes w).length → ∀ f ats, NotOk (readNext B f ats ((bytes w).take k))

theorem readArr_of_next_notOk (B f n : Nat) (bs : List UInt8) (h : NotOk (readNext B f [] bs)) :
    NotOk (readArr B (f + 1) (n + 1) bs) := by
  rw [readArr]
  cases h1 : readNext B f [] bs with
  | ok y => exact absurd h1 (h y)
  | err e => exact notOk_err _
  | panic => exact notOk_panic
  | oom => exact notOk_oom

theorem readEnd_of_next_notOk (B f : Nat) (acc : List Msg) (bs : List UInt8) (h : NotOk (readNext B f [] bs)) :
    NotOk (readEnd B (f + 1) acc bs) := by
  rw [readEnd]
  cases h1 : readNext B f [] bs with
  | ok y => exact absurd h1 (h y)
  | err e => exact notOk_err _
  | panic => exact notOk_panic
  | oom => exact notOk_oom

theorem cut_nil (B : Nat) : ListCut B [] := by
  refine ⟨?_, ?_⟩
  · intro j hj; simp [bytesL] at hj
  · intro j hj f acc
    cases f with
    | zero => rw [readEnd]; exact notOk_err _
    | succ f =>
      simp only [bytesL, List.nil_append]
      exact readEnd_of_next_notOk B f acc _
        (readNext_cut B 46 .null [13, 10] (by decide) (null_body_cut B 46) j (by simpa [bytesL] using hj) f [])

theorem cut_cons (B : Nat) (hb : 32 ≤ B) (x : Wire) (xs : List Wire) (hx : WireCut B x) (hwx : WF x = true)
    (hxs : ListCut B xs) : ListCut B (x :: xs) := by
  refine ⟨?_, ?_⟩
  · intro j hj f
    cases f with
    | zero => rw [List.length_cons, readArr]; exact notOk_err _
    | succ f =>
      simp only [bytesL] at hj ⊢
      rw [List.length_cons]
      rcases take_append_cases (bytes x) (bytesL xs) j hj with ⟨hjx, he⟩ | ⟨j', hj', he⟩
      · rw [he]; exact readArr_of_next_notOk B f _ _ (hx (Or.inl hwx) j hjx f [])
      · rw [he, readArr]
        cases h1 : readNext B f [] (bytes x ++ (bytesL xs).take j') with
        | err e => exact notOk_err _
        | panic => exact notOk_panic
        | oom => exact notOk_oom
        | ok y =>
          obtain ⟨m, r⟩ := y
          obtain ⟨_, hr⟩ := readNext_ok_det B hb x hwx f [] _ m r h1
          subst hr
          simp only
          have := hxs.1 j' hj' f
          cases h2 : readArr B f xs.length ((bytesL xs).take j') with
          | ok z => exact absurd h2 (this z)
          | err e => exact notOk_err _
          | panic => exact notOk_panic
          | oom => exact notOk_oom
  · intro j hj f acc
    cases f with
    | zero => rw [readEnd]; exact notOk_err _
    | succ f =>
      simp only [bytesL, List.append_assoc] at hj ⊢
      rcases take_append_cases (bytes x) (bytesL xs ++ [46, 13, 10]) j hj with ⟨hjx, he⟩ | ⟨j', hj', he⟩
      · rw [he]; exact readEnd_of_next_notOk B f acc _ (hx (Or.inl hwx) j hjx f [])
      · rw [he, readEnd]
        cases h1 : readNext B f [] (bytes x ++ (bytesL xs ++ [46, 13, 10]).take j') with
        | err e => exact notOk_err _
        | panic => exact notOk_panic
        | oom => exact notOk_oom
        | ok y =>
          obtain ⟨m, r⟩ := y
          obtain ⟨hm, hr⟩ := readNext_ok_det B hb x hwx f [] _ m r h1
          subst hr
          have htyp : ¬ (m.typ = 46) := by rw [hm]; exact (wire_ok B hb x).2.1 hwx []
          simp only [htyp, if_false]
          exact hxs.2 j' hj' f _

theorem arr_body_cut (B : Nat) (hb : 32 ≤ B) (t : UInt8) (xs : List Wire) (hlen : xs.length < 9223372036854775808)
    (hl : ListCut B xs) :
    ∀ k, k < (digits xs.length ++ crlf ++ bytesL xs).length → ∀ f,
      NotOk (readBody B f t .array ((digits xs.length ++ crlf ++ bytesL xs).take k)) := by
  intro k hk f
  cases f with
  | zero => rw [readBody]; exact notOk_err _
  | succ f =>
    rw [readBody]
    rcases take_header_cases (digits xs.length) (bytesL xs) k hk with h | ⟨j, hj, he⟩
    · rw [readI_cut B _ _ (digits_noLF _) k h]; unfold arrCase; exact notOk_err _
    · rw [he, readI_digits B xs.length hb hlen, arrCase_num]
      exact wrapFixed_notOk _ _ _ (hl.1 j hj f)

theorem map_body_cut (B : Nat) (hb : 32 ≤ B) (t : UInt8) (xs : List Wire) (heven : xs.length % 2 = 0)
    (hlen : xs.length < 9223372036854775808) (hl : ListCut B xs) :
    ∀ k, k < (digits (xs.length / 2) ++ crlf ++ bytesL xs).length → ∀ f,
      NotOk (readBody B f t .map ((digits (xs.length / 2) ++ crlf ++ bytesL xs).take k)) := by
  intro k hk f
  cases f with
  | zero => rw [readBody]; exact notOk_err _
  | succ f =>
    rw [readBody]
    rcases take_header_cases (digits (xs.length / 2)) (bytesL xs) k hk with h | ⟨j, hj, he⟩
    · rw [readI_cut B _ _ (digits_noLF _) k h]; unfold mapCase; exact notOk_err _
    · rw [he, readI_digits B (xs.length / 2) hb (by omega), mapCase_num t xs.length heven hlen]
      exact wrapFixed_notOk _ _ _ (hl.1 j hj f)

theorem stream_body_cut (B : Nat) (hb : 32 ≤ B) (t : UInt8) (rk : RK) (hrk : rk = .array ∨ rk = .map) (xs : List Wire)
    (hl : ListCut B xs) :
    ∀ k, k < (63 :: 13 :: 10 :: (bytesL xs ++ [46, 13, 10])).length → ∀ f,
      NotOk (readBody B f t rk ((63 :: 13 :: 10 :: (bytesL xs ++ [46, 13, 10])).take k)) := by
  intro k hk f
  have hsh : (63 :: 13 :: 10 :: (bytesL xs ++ [46, 13, 10])) = [63] ++ crlf ++ (bytesL xs ++ [46, 13, 10]) := rfl
  rw [hsh] at hk ⊢
  cases f with
  | zero => rcases hrk with h | h <;> subst h <;> rw [readBody] <;> exact notOk_err _
  | succ f =>
    rcases take_header_cases [63] _ k hk with h | ⟨j, hj, he⟩
    · rcases hrk with e | e <;> subst e <;> rw [readBody, readI_cut B _ _ (by decide) k h]
      · unfold arrCase; exact notOk_err _
      · unfold mapCase; exact notOk_err _
    · have hq : readI B ([63] ++ crlf ++ (bytesL xs ++ [46, 13, 10]).take j) = .chunked ((bytesL xs ++ [46, 13, 10]).take j) :=
        readI_q B hb _
      rcases hrk with e | e <;> subst e <;> rw [he, readBody, hq]
      · rw [arrCase_chunked]; exact wrapStream_notOk _ _ (hl.2 j hj f [])
      · rw [mapCase_chunked]; exact wrapStream_notOk _ _ (hl.2 j hj f [])

theorem nullArr_body_cut (B : Nat) (t : UInt8) :
    ∀ k, k < ([45, 49, 13, 10] : List UInt8).length → ∀ f,
      NotOk (readBody B f t .array (([45, 49, 13, 10] : List UInt8).take k)) := by
  intro k hk f
  cases f with
  | zero => rw [readBody]; exact notOk_err _
  | succ f =>
    rw [readBody, readI_m1_cut B k (by simpa using hk)]
    unfold arrCase; exact notOk_err _

theorem nullBlob_body_cut (B : Nat) (t : UInt8) :
    ∀ k, k < ([45, 49, 13, 10] : List UInt8).length → ∀ f,
      NotOk (readBody B f t .blob (([45, 49, 13, 10] : List UInt8).take k)) := by
  intro k hk f
  exact readBody_blob_fail B f t _ _ (readB_of_readI_fail B _ _ (readI_m1_cut B k (by simpa using hk)))

/-! ### the induction over the wire tree -/

theorem attr_head (a : Wire) (ha : attrOK a = true) : ∃ atl, bytes a = 124 :: atl := by
  cases a with
  | map t xs =>
    simp only [attrOK, Bool.and_eq_true, beq_iff_eq] at ha
    obtain ⟨⟨⟨ht, _⟩, _⟩, _⟩ := ha; subst ht; exact ⟨_, by simp only [bytes, List.cons_append]; rfl⟩
  | stream t xs =>
    simp only [attrOK, Bool.and_eq_true, beq_iff_eq] at ha
    obtain ⟨ht, _⟩ := ha; subst ht; exact ⟨_, by simp only [bytes, List.cons_append]; rfl⟩
  | _ => simp [attrOK] at ha

theorem cut_attr (B : Nat) (hb : 32 ≤ B) (a w : Wire) (iha : WireCut B a) (ihw : WireCut B w) : WireCut B (.attr a w) := by
  intro h k hk f ats
  have hwf : WF (.attr a w) = true := by
    rcases h with h | h
    · exact h
    · simp [attrOK] at h
  simp only [WF, Bool.and_eq_true] at hwf
  obtain ⟨ha, hw⟩ := hwf
  simp only [bytes] at hk ⊢
  rcases take_append_cases (bytes a) (bytes w) k hk with ⟨hka, he⟩ | ⟨j, hj, he⟩
  · rw [he]; exact iha (Or.inr ha) k hka f ats
  · rw [he]
    obtain ⟨atl, hatl⟩ := attr_head a ha
    cases f with
    | zero => exact readNext_zero_notOk B ats _
    | succ f =>
      rw [hatl, List.cons_append, readNext]
      have hr : readerOf 124 = some .map := by decide
      simp only [hr]
      cases hbody : readBody B f 124 .map (atl ++ (bytes w).take j) with
      | err e => exact notOk_err _
      | panic => exact notOk_panic
      | oom => exact notOk_oom
      | ok y =>
        have := readBody_attr_ok_det B hb a ha atl hatl f _ y hbody
        subst this
        simp only [if_true]
        exact ihw (Or.inl hw) j hj f _

/-- **the reader never succeeds on a strict prefix of a well-formed frame** -/
theorem trunc_all (B : Nat) (hb : 32 ≤ B) (w : Wire) : WireCut B w := by
  refine Wire.rec (motive_1 := fun w => WireCut B w) (motive_2 := fun xs => WFL xs = true → ListCut B xs)
    ?blob ?chunked ?nullBlob ?line ?int ?null ?bool ?arr ?map ?stream ?nullArr ?attr ?nil ?cons w
  case blob =>
    intro t s h
    have hwf : WF (.blob t s) = true := by rcases h with h | h; exact h; simp [attrOK] at h
    simp only [WF, Bool.and_eq_true, lim] at hwf
    obtain ⟨hr, _⟩ := readerOf_blob hwf.1
    have hsh : bytes (.blob t s) = t :: (digits s.length ++ crlf ++ (s ++ crlf)) := by simp [bytes, List.append_assoc]
    rw [hsh]
    exact readNext_cut B t .blob _ hr (blob_body_cut B hb t s (of_decide_eq_true hwf.2))
  case chunked =>
    intro t cs h
    have hwf : WF (.chunked t cs) = true := by rcases h with h | h; exact h; simp [attrOK] at h
    simp only [WF, Bool.and_eq_true, lim, List.all_eq_true, Bool.not_eq_true'] at hwf
    obtain ⟨ht, hcs⟩ := hwf
    obtain ⟨hr, _⟩ := readerOf_blob ht
    have hcs' : ∀ c ∈ cs, c ≠ [] ∧ c.length < 9223372036854775808 := by
      intro c hc
      have := hcs c hc
      exact ⟨by intro e; subst e; simp at this, of_decide_eq_true this.2⟩
    have hsh : bytes (.chunked t cs) = t :: (63 :: 13 :: 10 :: ((cs.map chunkBytes).flatten ++ [59, 48, 13, 10])) := by
      simp [bytes, crlf]
    rw [hsh]
    exact readNext_cut B t .blob _ hr (chunked_body_cut B hb t cs hcs')
  case nullBlob =>
    intro t h
    have hwf : WF (.nullBlob t) = true := by rcases h with h | h; exact h; simp [attrOK] at h
    simp only [WF] at hwf
    obtain ⟨hr, _⟩ := readerOf_blob hwf
    exact readNext_cut B t .blob [45, 49, 13, 10] hr (nullBlob_body_cut B t)
  case line =>
    intro t s h
    have hwf : WF (.line t s) = true := by rcases h with h | h; exact h; simp [attrOK] at h
    simp only [WF, Bool.and_eq_true, Bool.not_eq_true'] at hwf
    obtain ⟨hr, _⟩ := readerOf_line hwf.1
    have hs' : ∀ c ∈ s, c ≠ 10 := by
      intro c hc e; subst e; simp_all
    have hsh : bytes (.line t s) = t :: (s ++ crlf) := by simp [bytes]
    rw [hsh]
    exact readNext_cut B t .simple _ hr (simple_body_cut B t s hs')
  case int =>
    intro v _
    have hsh : bytes (.int v) = 58 :: (decI v ++ crlf) := by simp [bytes]
    rw [hsh]
    exact readNext_cut B 58 .integer _ (by decide) (int_body_cut B v)
  case null =>
    intro _
    exact readNext_cut B 95 .null [13, 10] (by decide) (null_body_cut B 95)
  case bool =>
    intro b _
    exact readNext_cut B 35 .bool [if b then 116 else 102, 13, 10] (by decide) (bool_body_cut B 35 _)
  case arr =>
    intro t xs ih h
    have hwf : WF (.arr t xs) = true := by rcases h with h | h; exact h; simp [attrOK] at h
    simp only [WF, Bool.and_eq_true] at hwf
    obtain ⟨⟨ht, hlen⟩, hw⟩ := hwf
    have hlen := of_decide_eq_true hlen
    simp only [lim] at hlen
    obtain ⟨hr, _⟩ := readerOf_arr ht
    have hsh : bytes (.arr t xs) = t :: (digits xs.length ++ crlf ++ bytesL xs) := by simp [bytes]
    rw [hsh]
    exact readNext_cut B t .array _ hr (arr_body_cut B hb t xs hlen (ih hw))
  case map =>
    intro t xs ih h
    have hall : readerOf t = some .map ∧ xs.length % 2 = 0 ∧ xs.length < 9223372036854775808 ∧ WFL xs = true := by
      rcases h with h | h
      · simp only [WF, Bool.and_eq_true, beq_iff_eq, lim] at h
        obtain ⟨⟨⟨ht, he⟩, hl⟩, hw⟩ := h
        subst ht; exact ⟨by decide, of_decide_eq_true he, of_decide_eq_true hl, hw⟩
      · simp only [attrOK, Bool.and_eq_true, beq_iff_eq, lim] at h
        obtain ⟨⟨⟨ht, he⟩, hl⟩, hw⟩ := h
        subst ht; exact ⟨by decide, of_decide_eq_true he, of_decide_eq_true hl, hw⟩
    obtain ⟨hr, heven, hlen, hw⟩ := hall
    have hsh : bytes (.map t xs) = t :: (digits (xs.length / 2) ++ crlf ++ bytesL xs) := by simp [bytes]
    rw [hsh]
    exact readNext_cut B t .map _ hr (map_body_cut B hb t xs heven hlen (ih hw))
  case stream =>
    intro t xs ih h
    have hall : (readerOf t = some .array ∨ readerOf t = some .map) ∧ WFL xs = true := by
      rcases h with h | h
      · simp only [WF, Bool.and_eq_true, isStreamT, Bool.or_eq_true, beq_iff_eq] at h
        obtain ⟨ht, hw⟩ := h
        refine ⟨?_, hw⟩
        rcases ht with ht | ht
        · exact Or.inl (readerOf_arr ht).1
        · subst ht; exact Or.inr (by decide)
      · simp only [attrOK, Bool.and_eq_true, beq_iff_eq] at h
        obtain ⟨ht, hw⟩ := h
        subst ht; exact ⟨Or.inr (by decide), hw⟩
    obtain ⟨hr, hw⟩ := hall
    have hsh : bytes (.stream t xs) = t :: (63 :: 13 :: 10 :: (bytesL xs ++ [46, 13, 10])) := by simp [bytes, crlf]
    rw [hsh]
    rcases hr with hr | hr
    · exact readNext_cut B t .array _ hr (stream_body_cut B hb t .array (Or.inl rfl) xs (ih hw))
    · exact readNext_cut B t .map _ hr (stream_body_cut B hb t .map (Or.inr rfl) xs (ih hw))
  case nullArr =>
    intro t h
    have hwf : WF (.nullArr t) = true := by rcases h with h | h; exact h; simp [attrOK] at h
    simp only [WF] at hwf
    obtain ⟨hr, _⟩ := readerOf_arr hwf
    exact readNext_cut B t .array [45, 49, 13, 10] hr (nullArr_body_cut B t)
  case attr =>
    intro a w iha ihw
    exact cut_attr B hb a w iha ihw
  case nil => intro _; exact cut_nil B
  case cons =>
    intro x xs ihx ihxs hwf
    simp only [WFL, Bool.and_eq_true] at hwf
    exact cut_cons B hb x xs ihx hwf.1 (ihxs hwf.2)

/-- corollary for the decoder entry point -/
theorem decode_cut (B : Nat) (hb : 32 ≤ B) (w : Wire) (hwf : WF w = true) (k : Nat) (hk : k < (bytes w).length) :
    ∃ e, decode B ((bytes w).take k) = .err e := by
  have hn : NotOk (decode B ((bytes w).take k)) := by
    unfold decode; exact trunc_all B hb w (Or.inl hwf) k hk _ []
  rcases Rv.C13.decode_never_panics B ((bytes w).take k) with ⟨m, r, h⟩ | ⟨e, h⟩
  · exact absurd h (hn (m, r))
  · exact ⟨e, h⟩

end Rv.StreamL
