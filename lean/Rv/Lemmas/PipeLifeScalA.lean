/-
Pipe life model: the scalar invariant `InvA` is preserved by the callers', the environment's, the writer's and
the reader's steps.
-/
import Rv.Lemmas.PipeLifeBasic
namespace Rv.PipeLife

theorem A_same {s s' : St} (h : scal s' = scal s) (ha : InvA (scal s)) : InvA (scal s') := h ▸ ha

theorem A_enter {i : Nat} {s s' : St} (h : enter i s = some s') (ha : InvA (scal s)) : InvA (scal s') := by
  unfold enter at h; crunch h <;> exact ha

theorem A_decide {fix : Bool} {i : Nat} {s s' : St} (h : decide fix i s = some s') (ha : InvA (scal s)) :
    InvA (scal s') := by
  unfold decide at h; crunch h
  · exact ha
  · exact ha
  · show InvA (scal (startBg s)); rw [scal_startBg]; exact ha.startBg
  · exact ha
  · exact ha

theorem A_put {i : Nat} {s s' : St} (h : put i s = some s') (ha : InvA (scal s)) : InvA (scal s') := by
  unfold put at h; crunch h; exact ha

theorem A_putFail {i : Nat} {s s' : St} (h : putFail i s = some s') (ha : InvA (scal s)) : InvA (scal s') := by
  unfold putFail at h; crunch h; exact ha

theorem A_syncOk {i : Nat} {s s' : St} (h : syncOk i s = some s') (ha : InvA (scal s)) : InvA (scal s') := by
  unfold syncOk at h; crunch h; exact ha

theorem A_broken {v : Scal} (ha : InvA v) : InvA { v with err := latch .broken v.err, connUp := false } := by
  obtain ⟨a1, a2, a3, a4, a5, a6, a7, a8, a9, a10, a11, a12, a13⟩ := ha
  constructor <;> simp_all

theorem A_syncErr {i : Nat} {s s' : St} (h : syncErr i s = some s') (ha : InvA (scal s)) : InvA (scal s') := by
  unfold syncErr at h; crunch h <;>
    (show InvA (scal (startBg _)); rw [scal_startBg]; exact (A_broken ha).startBg)

theorem A_leave {i : Nat} {s s' : St} (h : leave i s = some s') (ha : InvA (scal s)) : InvA (scal s') := by
  unfold leave at h; crunch h
  · rw [scal_startBg]; exact ha.startBg
  · exact ha

theorem A_abort {i : Nat} {s s' : St} (h : abort i s = some s') (ha : InvA (scal s)) : InvA (scal s') := by
  unfold abort at h; crunch h; exact ha

theorem A_cancel {i : Nat} {s s' : St} (h : cancel i s = some s') (ha : InvA (scal s)) : InvA (scal s') := by
  unfold cancel at h; crunch h; exact ha

theorem A_connBreak {s s' : St} (h : connBreak s = some s') (ha : InvA (scal s)) : InvA (scal s') := by
  obtain ⟨a1, a2, a3, a4, a5, a6, a7, a8, a9, a10, a11, a12, a13⟩ := ha
  unfold connBreak at h; crunch h; finishA

theorem A_exit {v : Scal} (ha : InvA v) (w : Why) :
    InvA { v with err := latch w v.err, state := if v.state = 1 then 2 else v.state, connUp := false } := by
  obtain ⟨a1, a2, a3, a4, a5, a6, a7, a8, a9, a10, a11, a12, a13⟩ := ha
  constructor <;> simp_all <;> (try split) <;> (try omega) <;> simp_all <;> omega

theorem scal_exitConn (w : Why) (s : St) : scal (exitConn w s) =
    { scal s with err := latch w s.err, state := if s.state = 1 then 2 else s.state, connUp := false } := rfl

theorem A_pingFail {s s' : St} (h : pingFail s = some s') (ha : InvA (scal s)) : InvA (scal s') := by
  unfold pingFail at h; crunch h; rw [scal_exitConn]; exact A_exit ha _

theorem A_wTake {s s' : St} (h : wTake s = some s') (ha : InvA (scal s)) : InvA (scal s') := by
  obtain ⟨a1, a2, a3, a4, a5, a6, a7, a8, a9, a10, a11, a12, a13⟩ := ha
  unfold wTake at h; crunch h; finishA

theorem A_wFlush {s s' : St} (h : wFlush s = some s') (ha : InvA (scal s)) : InvA (scal s') := by
  unfold wFlush at h; crunch h
  · obtain ⟨a1, a2, a3, a4, a5, a6, a7, a8, a9, a10, a11, a12, a13⟩ := ha
    finishA
  · have hx := A_exit ha .broken
    obtain ⟨a1, a2, a3, a4, a5, a6, a7, a8, a9, a10, a11, a12, a13⟩ := hx
    constructor <;> simp_all [scal, exitConn]

theorem A_rFetch {s s' : St} (h : rFetch s = some s') (ha : InvA (scal s)) : InvA (scal s') := by
  unfold rFetch at h; crunch h; exact ha

theorem A_rDeliver {s s' : St} (h : rDeliver s = some s') (ha : InvA (scal s)) : InvA (scal s') := by
  unfold rDeliver at h; crunch h; rw [scal_deliver]; exact ha

theorem A_exited {v : Scal} (ha : InvA v) (htd : v.td = .reading) :
    InvA { v with err := latch .broken v.err, state := if v.state = 1 then 2 else v.state, connUp := false,
                  td := .exited } := by
  obtain ⟨a1, a2, a3, a4, a5, a6, a7, a8, a9, a10, a11, a12, a13⟩ := ha
  rcases a10 with h0 | h0 | h0 | h0 <;> constructor <;> simp_all [tdPast]

theorem A_rErr {s s' : St} (h : rErr s = some s') (ha : InvA (scal s)) : InvA (scal s') := by
  unfold rErr at h; crunch h
  have hd : InvA (scal (deferDeliver s)) := by rw [scal_deferDeliver]; exact ha
  have htd : (scal (deferDeliver s)).td = .reading := by rw [scal_deferDeliver]; assumption
  exact A_exited hd htd

end Rv.PipeLife
