import Rv.Lemmas.RingInvA
namespace Rv.Ring

/-- number of replies delivered so far -/
def ndeliv (σ : State) : Nat :=
  match σ.rpc with
  | .holding _ (some _) => σ.read2 - 1
  | _ => σ.read2

def posList (f : Nat → Nat) (n : Nat) : List Nat := (List.range n).map fun i => f (i + 1)

structure InvB (k : Nat) (σ : State) : Prop where
  wn : σ.write = σ.ncalls
  fresh : ∀ c, σ.ncalls ≤ c → σ.pc c = .idle
  idl : ∀ c, σ.pc c = .idle → σ.pos c = 0
  rdy : ∀ c s, σ.pc c = .ready s → s < 2 ^ k ∧ σ.pos c = 0
  wtg : ∀ c s, σ.pc c = .waiting s → s < 2 ^ k ∧ σ.pos c = 0
  live : ∀ c s, (σ.pc c = .filled s ∨ σ.pc c = .bcast s) →
    s < 2 ^ k ∧ (((σ.slot s).mark ≠ 0 ∧ (σ.slot s).cmd = some c) ∨ σ.rpc = .holding s (some c))
  occ : ∀ s, s < 2 ^ k → (σ.slot s).mark ≠ 0 →
    ∃ c, (σ.slot s).cmd = some c ∧ (σ.pc c = .filled s ∨ σ.pc c = .bcast s) ∧
      σ.atPos (σ.slot s).gen = c ∧ σ.pos c = (σ.slot s).gen
  hold : ∀ s c, σ.rpc = .holding s (some c) →
    (σ.pc c = .filled s ∨ σ.pc c = .bcast s) ∧ σ.atPos σ.read2 = c ∧ σ.pos c = σ.read2 ∧ 1 ≤ σ.read2
  atpos : ∀ p, 1 ≤ p → p ≤ σ.read1 → σ.pos (σ.atPos p) = p
  dne : ∀ c r, σ.pc c = .done r → r = c ∧ 1 ≤ σ.pos c ∧ σ.pos c ≤ ndeliv σ
  wlog_eq : σ.wlog = posList σ.atPos σ.read1
  clog_eq : σ.clog = (posList σ.atPos (ndeliv σ)).map fun c => (c, c)

theorem InvB.init (k : Nat) : InvB k (init k) := by
  refine ⟨rfl, ?_, ?_, ?_, ?_, ?_, ?_, ?_, ?_, ?_, ?_, ?_⟩ <;>
    simp [Ring.init, ndeliv, posList] <;> (intros; omega)

theorem posList_congr (f g : Nat → Nat) (n : Nat) (h : ∀ p, 1 ≤ p → p ≤ n → g p = f p) :
    posList g n = posList f n := by
  unfold posList
  apply List.map_congr_left
  intro i hi
  have := List.mem_range.1 hi
  exact h (i + 1) (by omega) (by omega)

theorem posList_succ (f : Nat → Nat) (n : Nat) : posList f (n + 1) = posList f n ++ [f (n + 1)] := by
  simp [posList, List.range_succ]

theorem InvB.take {k : Nat} {σ : State} (ha : InvA k σ) (h : InvB k σ) (s : Nat)
    (hs : s = (σ.read1 + 1) % 2 ^ k) (hm : (σ.slot s).mark = 1) (b : Bool) : InvB k (take σ s b) := by
  have hp := pow_pos' k
  have hsN : s < 2 ^ k := hs ▸ Nat.mod_lt _ hp
  have hgen : (σ.slot s).gen = σ.read1 + 1 := by
    have hgt : σ.read1 < (σ.slot s).gen := by have := (ha.mark2 s hsN); omega
    have hhi := ha.genhi s hsN
    have := ha.gen_of_window (σ.read1 + 1) (by have := ha.r21; omega) (by omega)
    rw [← hs] at this; exact this
  obtain ⟨c0, hc0, hpc0, hat0, hpos0⟩ := h.occ s hsN (by omega)
  refine ⟨h.wn, h.fresh, h.idl, h.rdy, h.wtg, ?_, ?_, ?_, ?_, ?_, ?_, ?_⟩
  · intro c s' hh
    have := h.live c s' hh
    simp only [Ring.take, upd_apply]
    by_cases e : s' = s
    · subst e; simp; simp [hm] at this; exact this
    · simp [e]; exact this
  · intro s' hs' hm'
    simp only [Ring.take, upd_apply] at hm' ⊢
    by_cases e : s' = s
    · subst e; simp; exact ⟨c0, hc0, hpc0, hat0, hpos0⟩
    · simp [e] at hm' ⊢; exact h.occ s' hs' hm'
  · intro s' c hh; exact h.hold s' c hh
  · intro p hp1 hp2
    simp only [Ring.take] at hp2 ⊢
    by_cases e : p = σ.read1 + 1
    · rw [e, ← hgen, hat0, hpos0]
    · exact h.atpos p hp1 (by omega)
  · intro c r hh
    have := h.dne c r hh
    simpa [Ring.take, ndeliv] using this
  · simp only [Ring.take]
    rw [posList_succ, ← h.wlog_eq, ← hgen, hat0, hc0]
    rfl
  · have := h.clog_eq
    simpa [Ring.take, ndeliv, posList] using this



theorem InvB.arrive {k : Nat} (hk : k ≤ 32) {σ : State} (h : InvB k σ) : InvB k (apply k .arrive σ) := by
  have hp := pow_pos' k
  have hidle : σ.pc σ.ncalls = .idle := h.fresh _ (Nat.le_refl _)
  have hne : ∀ c, σ.pc c ≠ .idle → c ≠ σ.ncalls := by
    intro c hc e; subst e; exact hc hidle
  simp only [Ring.apply]
  refine ⟨?_, ?_, ?_, ?_, ?_, ?_, ?_, ?_, h.atpos, ?_, h.wlog_eq, h.clog_eq⟩
  · simp [h.wn]
  · intro c hc; simp only [upd_apply]
    have : c ≠ σ.ncalls := by simp only at hc; omega
    simp [this]; exact h.fresh c (by simp only at hc; omega)
  · intro c; simp only [upd_apply]; split
    · intro hh; cases hh
    · exact h.idl c
  · intro c s; simp only [upd_apply]; split
    · rename_i e; intro hh; injection hh with hh; subst hh; subst e
      exact ⟨by rw [slotOf_eq k _ hk]; exact Nat.mod_lt _ hp, h.idl _ hidle⟩
    · exact h.rdy c s
  · intro c s; simp only [upd_apply]; split
    · intro hh; cases hh
    · exact h.wtg c s
  · intro c s; simp only [upd_apply]; split
    · intro hh; rcases hh with hh | hh <;> cases hh
    · exact h.live c s
  · intro s hs hm
    obtain ⟨c, h1, h2, h3⟩ := h.occ s hs hm
    refine ⟨c, h1, ?_, h3⟩
    have : c ≠ σ.ncalls := hne c (by rcases h2 with h2 | h2 <;> simp [h2])
    simp only [upd_apply, this]; exact h2
  · intro s c hh
    obtain ⟨h1, h2⟩ := h.hold s c hh
    refine ⟨?_, h2⟩
    have : c ≠ σ.ncalls := hne c (by rcases h1 with h1 | h1 <;> simp [h1])
    simp only [upd_apply, this]; exact h1
  · intro c r; simp only [upd_apply]; split
    · intro hh; cases hh
    · exact h.dne c r

theorem InvB.pcSwap {k : Nat} {σ : State} (h : InvB k σ) (c : Nat) (u v : Pc)
    (hu : σ.pc c = u) (hui : u ≠ .idle) (hvi : v ≠ .idle) (hvd : ∀ r, v ≠ .done r)
    (hpos : ∀ s, (v = .ready s ∨ v = .waiting s) → s < 2 ^ k ∧ σ.pos c = 0)
    (hlv : ∀ s, (v = .filled s ∨ v = .bcast s) ↔ (u = .filled s ∨ u = .bcast s)) :
    InvB k { σ with pc := upd σ.pc c v } := by
  refine ⟨h.wn, ?_, ?_, ?_, ?_, ?_, ?_, ?_, h.atpos, ?_, h.wlog_eq, h.clog_eq⟩
  · intro c' hc'; simp only [upd_apply]
    have := h.fresh c' hc'
    split
    · rename_i e; subst e; rw [hu] at this; exact absurd this hui
    · exact this
  · intro c'; simp only [upd_apply]; split
    · intro hh; exact absurd hh hvi
    · exact h.idl c'
  · intro c' s; simp only [upd_apply]; split
    · rename_i e; subst e; intro hh; exact hpos s (Or.inl hh)
    · exact h.rdy c' s
  · intro c' s; simp only [upd_apply]; split
    · rename_i e; subst e; intro hh; exact hpos s (Or.inr hh)
    · exact h.wtg c' s
  · intro c' s; simp only [upd_apply]; split
    · rename_i e; subst e; intro hh; exact h.live c' s (hu ▸ (hlv s).1 hh)
    · exact h.live c' s
  · intro s hs hm
    obtain ⟨c', h1, h2, h3⟩ := h.occ s hs hm
    refine ⟨c', h1, ?_, h3⟩
    simp only [upd_apply]; split
    · rename_i e; subst e; exact (hlv s).2 (hu ▸ h2)
    · exact h2
  · intro s c' hh
    obtain ⟨h1, h2⟩ := h.hold s c' hh
    refine ⟨?_, h2⟩
    simp only [upd_apply]; split
    · rename_i e; subst e; exact (hlv s).2 (hu ▸ h1)
    · exact h1
  · intro c' r; simp only [upd_apply]; split
    · intro hh; exact absurd hh (hvd r)
    · exact h.dne c' r




theorem InvB.congr {k : Nat} {σ τ : State} (h : InvB k σ)
    (e1 : τ.read1 = σ.read1) (e2 : τ.read2 = σ.read2) (ew : τ.write = σ.write) (en : τ.ncalls = σ.ncalls)
    (epc : τ.pc = σ.pc) (epos : τ.pos = σ.pos) (eat : τ.atPos = σ.atPos) (er : τ.rpc = σ.rpc)
    (ewl : τ.wlog = σ.wlog) (ecl : τ.clog = σ.clog)
    (eg : ∀ s, (τ.slot s).gen = (σ.slot s).gen) (em : ∀ s, (τ.slot s).mark = (σ.slot s).mark)
    (ec : ∀ s, (τ.slot s).cmd = (σ.slot s).cmd) : InvB k τ := by
  have end' : ndeliv τ = ndeliv σ := by simp [ndeliv, er, e2]
  refine ⟨?_, ?_, ?_, ?_, ?_, ?_, ?_, ?_, ?_, ?_, ?_, ?_⟩
  · rw [ew, en]; exact h.wn
  · rw [en, epc]; exact h.fresh
  · rw [epc, epos]; exact h.idl
  · rw [epc, epos]; exact h.rdy
  · rw [epc, epos]; exact h.wtg
  · intro c s; rw [epc, em, ec, er]; exact h.live c s
  · intro s hs; rw [em, ec, epc, eat, epos, eg]; exact h.occ s hs
  · intro s c; rw [er, epc, eat, epos, e2]; exact h.hold s c
  · rw [eat, epos, e1]; exact h.atpos
  · intro c r; rw [epc, epos, end']; exact h.dne c r
  · rw [ewl, eat, e1]; exact h.wlog_eq
  · rw [ecl, eat, end']; exact h.clog_eq

theorem InvB.fill {k : Nat} {σ : State} (ha : InvA k σ) (h : InvB k σ) (c s : Nat)
    (hpc : σ.pc c = .ready s) (hm : (σ.slot s).mark = 0) (hl : locked σ s = false) :
    InvB k { σ with
      slot := upd σ.slot s { σ.slot s with mark := 1, cmd := some c }
      pc := upd σ.pc c (if (σ.slot s).slept then .bcast s else .filled s)
      atPos := upd σ.atPos (σ.slot s).gen c
      pos := upd σ.pos c (σ.slot s).gen } := by
  obtain ⟨hsN, hpos0⟩ := h.rdy c s hpc
  have hgt : σ.read1 < (σ.slot s).gen := by
    have := ha.mark2 s hsN; omega
  have hlo := ha.genlo s hsN
  have hr21 := ha.r21
  have hv : ((if (σ.slot s).slept then Pc.bcast s else Pc.filled s) = Pc.filled s ∨
      (if (σ.slot s).slept then Pc.bcast s else Pc.filled s) = Pc.bcast s) := by
    split <;> simp
  have hnl : ∀ g, σ.rpc ≠ .holding s g := by
    intro g e; simp [locked, e] at hl
  have hne : ∀ c' s', (σ.pc c' = .filled s' ∨ σ.pc c' = .bcast s') → c' ≠ c := by
    intro c' s' hh e; subst e; rw [hpc] at hh; rcases hh with hh | hh <;> cases hh
  have hatp : ∀ p, p ≤ σ.read1 → upd σ.atPos (σ.slot s).gen c p = σ.atPos p := by
    intro p hp; rw [upd_other]; omega
  have hndl : ndeliv σ ≤ σ.read1 := by
    unfold ndeliv; split <;> omega
  refine ⟨h.wn, ?_, ?_, ?_, ?_, ?_, ?_, ?_, ?_, ?_, ?_, ?_⟩
  · intro c' hc'; simp only [upd_apply]
    have := h.fresh c' hc'
    split
    · rename_i e; subst e; rw [hpc] at this; cases this
    · exact this
  · intro c'; simp only [upd_apply]; split
    · intro hh; split at hh <;> cases hh
    · exact h.idl c'
  · intro c' s'; simp only [upd_apply]; split
    · intro hh; split at hh <;> cases hh
    · exact h.rdy c' s'
  · intro c' s'; simp only [upd_apply]; split
    · intro hh; split at hh <;> cases hh
    · exact h.wtg c' s'
  · intro c' s'; simp only [upd_apply]
    by_cases e : c' = c
    · subst e; simp only [if_true]
      intro hh
      have : s' = s := by
        split at hh <;> rcases hh with hh | hh <;> first | cases hh; rfl | cases hh
      subst this; simp [hsN]
    · simp only [e, if_false]
      intro hh
      obtain ⟨l1, l2⟩ := h.live c' s' hh
      refine ⟨l1, ?_⟩
      by_cases e2 : s' = s
      · subst e2
        rcases l2 with l2 | l2
        · exact absurd hm l2.1
        · exact absurd l2 (hnl _)
      · simp [e2]; exact l2
  · intro s' hs' hm'
    simp only [upd_apply] at hm' ⊢
    by_cases e2 : s' = s
    · subst e2; simp
    · simp only [e2, if_false] at hm' ⊢
      obtain ⟨c', h1, h2, h3, h4⟩ := h.occ s' hs' hm'
      have hc' := hne c' s' h2
      have hg := mod_ne_of_gen ha hsN hs' e2
      refine ⟨c', h1, ?_, ?_, ?_⟩
      · simp [hc']; exact h2
      · simp [hg]; exact h3
      · simp [hc']; exact h4
  · intro s' c' hh
    obtain ⟨h1, h2, h3, h4⟩ := h.hold s' c' hh
    have hc' := hne c' s' h1
    refine ⟨?_, ?_, ?_, h4⟩
    · simp [upd_apply, hc']; exact h1
    · simp only; rw [upd_other]; exact h2; omega
    · simp [upd_apply, hc']; exact h3
  · intro p hp1 hp2
    simp only at hp2 ⊢
    rw [hatp p hp2]
    have := h.atpos p hp1 hp2
    have hcne : σ.atPos p ≠ c := by intro e; rw [e] at this; omega
    simp [upd_apply, hcne]; exact this
  · intro c' r; simp only [upd_apply]; split
    · intro hh; split at hh <;> cases hh
    · have : ndeliv { σ with
          slot := upd σ.slot s { σ.slot s with mark := 1, cmd := some c }
          pc := upd σ.pc c (if (σ.slot s).slept then .bcast s else .filled s)
          atPos := upd σ.atPos (σ.slot s).gen c
          pos := upd σ.pos c (σ.slot s).gen } = ndeliv σ := rfl
      rw [this]; exact h.dne c' r
  · simp only
    rw [posList_congr σ.atPos _ σ.read1 (fun p _ hp => hatp p hp)]; exact h.wlog_eq
  · show σ.clog = _
    have : ndeliv { σ with
          slot := upd σ.slot s { σ.slot s with mark := 1, cmd := some c }
          pc := upd σ.pc c (if (σ.slot s).slept then .bcast s else .filled s)
          atPos := upd σ.atPos (σ.slot s).gen c
          pos := upd σ.pos c (σ.slot s).gen } = ndeliv σ := rfl
    rw [this]
    simp only
    rw [posList_congr σ.atPos _ (ndeliv σ) (fun p _ hp => hatp p (by omega))]; exact h.clog_eq




theorem InvB.rpcOnly {k : Nat} {σ : State} (h : InvB k σ) (r' : RPc)
    (h0 : ∀ s c, σ.rpc ≠ .holding s (some c)) (h1 : ∀ s c, r' ≠ .holding s (some c)) :
    InvB k { σ with rpc := r' } := by
  have e0 : ndeliv σ = σ.read2 := by
    unfold ndeliv; split
    · rename_i s c e; exact absurd e (h0 s c)
    · rfl
  have e1 : ndeliv { σ with rpc := r' } = σ.read2 := by
    unfold ndeliv; split
    · rename_i s c e; exact absurd e (h1 s c)
    · rfl
  refine ⟨h.wn, h.fresh, h.idl, h.rdy, h.wtg, ?_, h.occ, ?_, h.atpos, ?_, h.wlog_eq, ?_⟩
  · intro c s hh
    obtain ⟨l1, l2⟩ := h.live c s hh
    refine ⟨l1, ?_⟩
    rcases l2 with l2 | l2
    · exact Or.inl l2
    · exact absurd l2 (h0 s c)
  · intro s c hh; exact absurd hh (h1 s c)
  · intro c r hh; rw [e1, ← e0]; exact h.dne c r hh
  · rw [e1, ← e0]; exact h.clog_eq

theorem InvB.rBeginOk {k : Nat} {σ : State} (ha : InvA k σ) (h : InvB k σ) (s : Nat)
    (hs : s = (σ.read2 + 1) % 2 ^ k) (hm : (σ.slot s).mark = 2) (hidle : σ.rpc = .idle) :
    InvB k { σ with
        slot := upd σ.slot s { σ.slot s with mark := 0, cmd := none, gen := (σ.slot s).gen + 2 ^ k }
        read2 := σ.read2 + 1
        rpc := .holding s (σ.slot s).cmd } := by
  have hp := pow_pos' k
  have hsN : s < 2 ^ k := hs ▸ Nat.mod_lt _ hp
  have hgen : (σ.slot s).gen = σ.read2 + 1 := by
    rw [hs]; exact ha.gen_of_window _ (by omega) (by omega)
  obtain ⟨c0, hc0, hpc0, hat0, hpos0⟩ := h.occ s hsN (by omega)
  have e0 : ndeliv σ = σ.read2 := by simp [ndeliv, hidle]
  rw [hc0]
  have e1 : ndeliv { σ with
        slot := upd σ.slot s { σ.slot s with mark := 0, cmd := none, gen := (σ.slot s).gen + 2 ^ k }
        read2 := σ.read2 + 1
        rpc := .holding s (some c0) } = σ.read2 := by simp [ndeliv]
  refine ⟨h.wn, h.fresh, h.idl, h.rdy, h.wtg, ?_, ?_, ?_, h.atpos, ?_, h.wlog_eq, ?_⟩
  · intro c s' hh
    obtain ⟨l1, l2⟩ := h.live c s' hh
    refine ⟨l1, ?_⟩
    rcases l2 with l2 | l2
    · by_cases e : s' = s
      · subst e; right
        have : c = c0 := by have := l2.2; rw [hc0] at this; injection this with this; exact this.symm
        subst this; rfl
      · left; simp [upd_apply, e]; exact l2
    · rw [hidle] at l2; cases l2
  · intro s' hs' hm'
    simp only [upd_apply] at hm' ⊢
    by_cases e : s' = s
    · subst e; simp at hm'
    · simp only [e, if_false] at hm' ⊢; exact h.occ s' hs' hm'
  · intro s' c hh
    injection hh with a b; subst a; injection b with b; subst b
    simp only
    rw [← hgen]
    exact ⟨hpc0, hat0, hpos0, by omega⟩
  · intro c r hh; rw [e1, ← e0]; exact h.dne c r hh
  · rw [e1, ← e0]; exact h.clog_eq

theorem InvB.deliver {k : Nat} {σ : State} (ha : InvA k σ) (h : InvB k σ) (c s r : Nat)
    (hr : σ.rpc = .holding s (some r)) (hpc : σ.pc c = .filled s) :
    c = r ∧ InvB k { σ with pc := upd σ.pc c (.done r), rpc := .holding s none, clog := σ.clog ++ [(r, c)] } := by
  have hm0 := ha.hmark s r hr
  have hcr : c = r := by
    obtain ⟨_, l2⟩ := h.live c s (Or.inl hpc)
    rcases l2 with l2 | l2
    · exact absurd hm0 l2.1
    · rw [hr] at l2; injection l2 with _ b; injection b with b; exact b.symm
  refine ⟨hcr, ?_⟩
  subst hcr
  obtain ⟨_, hat, hpos, h1⟩ := h.hold s c hr
  have e0 : ndeliv σ = σ.read2 - 1 := by simp [ndeliv, hr]
  have e1 : ndeliv { σ with pc := upd σ.pc c (.done c), rpc := .holding s none, clog := σ.clog ++ [(c, c)] }
      = σ.read2 := by simp [ndeliv]
  refine ⟨h.wn, ?_, ?_, ?_, ?_, ?_, ?_, ?_, h.atpos, ?_, h.wlog_eq, ?_⟩
  · intro c' hc'; simp only [upd_apply]
    have := h.fresh c' hc'
    split
    · rename_i e; subst e; rw [hpc] at this; cases this
    · exact this
  · intro c'; simp only [upd_apply]; split
    · intro hh; cases hh
    · exact h.idl c'
  · intro c' s'; simp only [upd_apply]; split
    · intro hh; cases hh
    · exact h.rdy c' s'
  · intro c' s'; simp only [upd_apply]; split
    · intro hh; cases hh
    · exact h.wtg c' s'
  · intro c' s'; simp only [upd_apply]; split
    · intro hh; rcases hh with hh | hh <;> cases hh
    · rename_i e
      intro hh
      obtain ⟨l1, l2⟩ := h.live c' s' hh
      refine ⟨l1, ?_⟩
      rcases l2 with l2 | l2
      · exact Or.inl l2
      · rw [hr] at l2; injection l2 with _ b; injection b with b; exact absurd b.symm e
  · intro s' hs' hm'
    obtain ⟨c', h1, h2, h3⟩ := h.occ s' hs' hm'
    refine ⟨c', h1, ?_, h3⟩
    have : c' ≠ c := by
      intro e; subst e
      rw [hpc] at h2
      rcases h2 with h2 | h2
      · injection h2 with h2; subst h2; exact hm' hm0
      · cases h2
    simp [upd_apply, this]; exact h2
  · intro s' c' hh; cases hh
  · intro c' r; simp only [upd_apply]; split
    · rename_i e; subst e; intro hh; injection hh with hh; subst hh
      rw [e1]; exact ⟨rfl, by omega, by omega⟩
    · intro hh; rw [e1]
      have := h.dne c' r hh
      rw [e0] at this; omega
  · rw [e1]
    have : σ.read2 = (σ.read2 - 1) + 1 := by omega
    rw [this, posList_succ, List.map_append, ← e0, ← h.clog_eq, e0, ← this, hat]
    rfl




theorem InvB.step {k : Nat} (hk : k ≤ 32) {σ : State} (ha : InvA k σ) (h : InvB k σ) (l : Label)
    (he : enabled k l σ = true) : InvB k (apply k l σ) := by
  have hp := pow_pos' k
  cases l with
  | arrive => exact h.arrive hk
  | enter c =>
    simp only [Ring.apply]
    split
    · rename_i s hpc
      simp only [enabled, hpc] at he
      split
      · rename_i hm
        exact h.fill ha c s hpc hm (by simpa using he)
      · obtain ⟨a, b⟩ := h.rdy c s hpc
        exact h.pcSwap c (.ready s) (.waiting s) hpc (by simp) (by simp) (by simp)
          (by intro s' hh; rcases hh with hh | hh <;> cases hh; exact ⟨a, b⟩) (by simp)
    · exact h
  | bcast c =>
    simp only [Ring.apply]
    split
    · rename_i s hpc
      have := h.pcSwap c (.bcast s) (.filled s) hpc (by simp) (by simp) (by simp)
          (by intro s' hh; rcases hh with hh | hh <;> cases hh)
          (by intro s'; constructor <;> (intro hh; rcases hh with hh | hh <;> cases hh <;> simp))
      exact this.congr rfl rfl rfl rfl rfl rfl rfl rfl rfl rfl (fun _ => rfl) (fun _ => rfl) (fun _ => rfl)
    · exact h
  | wTry =>
    simp only [Ring.apply]
    split
    · rename_i hm; exact h.take ha _ (slotOf_eq k _ hk) hm _
    · exact h
  | wWait =>
    simp only [Ring.apply]
    split
    · rename_i hm; exact h.take ha _ (slotOf_eq k _ hk) hm _
    · refine h.congr rfl rfl rfl rfl rfl rfl rfl rfl rfl rfl ?_ ?_ ?_ <;>
        (intro s'; simp only [upd_apply]; split <;> simp_all)
  | wWake =>
    simp only [Ring.apply]
    split
    · rename_i s hw
      split
      · rename_i hm; exact h.take ha _ (ha.wwk s hw) hm _
      · refine h.congr rfl rfl rfl rfl rfl rfl rfl rfl rfl rfl ?_ ?_ ?_ <;>
          (intro s'; simp only [upd_apply]; split <;> simp_all)
    · exact h
  | rBegin =>
    simp only [Ring.apply]
    have hidle : σ.rpc = .idle := by simpa [enabled] using he
    split
    · rename_i hm; exact h.rBeginOk ha _ (slotOf_eq k _ hk) hm hidle
    · exact h.rpcOnly _ (by simp [hidle]) (by simp)
  | rDeliver c =>
    simp only [Ring.apply]
    split
    · rename_i s r hr
      simp only [enabled, hr] at he
      exact (h.deliver ha c s r hr (by simpa using he)).2
    · exact h
  | rUnlock =>
    simp only [Ring.apply]
    split
    · rename_i s g hr
      simp only [enabled, hr] at he
      have : g = none := by cases g <;> simp_all
      subst this
      exact h.rpcOnly _ (by simp [hr]) (by simp)
    · exact h
  | rSignal w =>
    simp only [Ring.apply]
    split
    · rename_i s hr
      simp only [enabled, hr] at he
      split
      · rename_i c
        have hpc : σ.pc c = .waiting s := by simpa using he
        obtain ⟨a, b⟩ := h.wtg c s hpc
        have := (h.rpcOnly .idle (by simp [hr]) (by simp)).pcSwap c (.waiting s) (.ready s) hpc
          (by simp) (by simp) (by simp)
          (by intro s' hh; rcases hh with hh | hh <;> cases hh; exact ⟨a, b⟩) (by simp)
        exact this
      · exact h.rpcOnly .idle (by simp [hr]) (by simp)
    · exact h

/-- the full safety invariant -/
structure Inv (k : Nat) (σ : State) : Prop where
  a : InvA k σ
  b : InvB k σ

theorem Inv.of_reachable {k : Nat} (hk : k ≤ 32) {σ : State} (h : Reachable k σ) : Inv k σ := by
  induction h with
  | init => exact ⟨InvA.init k, InvB.init k⟩
  | step l _ he ih => exact ⟨ih.a.step hk l he, ih.b.step hk ih.a l he⟩


end Rv.Ring
