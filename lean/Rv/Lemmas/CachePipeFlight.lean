/-
Single-flight invariant of the connection-level cache model `Rv.CachePipe`: the fetches on the wire and
the pending entries of the store correspond one to one (`SF`), preserved by every event.
-/
import Rv.Lemmas.CachePipe
namespace Rv.Lru

/-- pending entries after `Update(k, c, …)`: old ones, of other commands -/
theorem update_pending_sub (s : State) (hi : Inv s) (k c : Bytes) (v : Nat) (vsz raw : Int) :
    ∀ x ∈ (update s k c v vsz raw).1.list, x.pend = true → x ∈ s.list ∧ ¬ (x.key = k ∧ x.cmd = c) := by
  intro x hx hp
  have o := update_cases s k c v vsz raw
  cases o with
  | closed hc hs hp' => rw [hs] at hx; rw [hi.closedNil hc] at hx; cases hx
  | absent hc hf hs hp' => rw [hs] at hx; exact ⟨hx, find?_none hf x hx⟩
  | fill e hc hf hpend hp' hl hsz hd hcl hmx hn =>
    have hf' := find?_some hf
    rw [hl] at hx
    have hx := (evict_sublist _ _ _).subset hx
    rcases mem_replace hi.nodup.nodup hx with hx | hx
    · refine ⟨hx.1, fun hkc => hx.2 (hi.nodup.eq_of_sameKC hx.1 hf'.1 ⟨hkc.1.trans hf'.2.1.symm, hkc.2.trans hf'.2.2.symm⟩)⟩
    · rw [hx.2] at hp; simp [updEntry] at hp
  | stale e hc hf hpend hp' hl hsz hd hcl hmx hn =>
    have hf' := find?_some hf
    rw [hl] at hx
    have hx := (evict_sublist _ _ _).subset hx
    refine ⟨hx, fun hkc => ?_⟩
    have := hi.nodup.eq_of_sameKC hx hf'.1 ⟨hkc.1.trans hf'.2.1.symm, hkc.2.trans hf'.2.2.symm⟩
    rw [this, hpend] at hp; cases hp

/-- pending entries after `Cancel(k, c, …)`: old ones, of other commands -/
theorem cancel_pending_sub (s : State) (hi : Inv s) (k c : Bytes) (err : Nat) :
    ∀ x ∈ (cancel s k c err).list, x.pend = true → x ∈ s.list ∧ ¬ (x.key = k ∧ x.cmd = c) := by
  intro x hx hp
  unfold cancel at hx
  split at hx
  · rename_i hc; rw [hi.closedNil hc] at hx; cases hx
  · split at hx
    · rename_i hf; exact ⟨hx, find?_none hf x hx⟩
    · rename_i e hf
      have hf' := find?_some hf
      split at hx
      · have hx : x ∈ s.list.erase e := hx
        refine ⟨List.mem_of_mem_erase hx, fun hkc => ?_⟩
        exact mem_erase_not_sameKC hi.nodup hf'.1 hx ⟨hkc.1.trans hf'.2.1.symm, hkc.2.trans hf'.2.2.symm⟩
      · rename_i hpe
        refine ⟨hx, fun hkc => ?_⟩
        have := hi.nodup.eq_of_sameKC hx hf'.1 ⟨hkc.1.trans hf'.2.1.symm, hkc.2.trans hf'.2.2.symm⟩
        rw [this] at hp; exact hpe hp

end Rv.Lru

namespace Rv.CachePipe
open Rv.Lru (Bytes FRes Entry)

/-- the command a message answers -/
def cmdOf : Msg → Option (Bytes × Bytes)
  | .reply k c _ _ _ => some (k, c)
  | .fail k c _ => some (k, c)
  | _ => none

/-- the fetches of the connection that are on the wire: sent and not yet answered, or answered and not yet handled -/
def inFlight (st : St) : List (Bytes × Bytes) := st.reqQ ++ st.respQ.filterMap cmdOf

/-- single-flight invariant of the connection: the fetches on the wire and the pending entries of the store
    correspond one to one -/
structure SF (st : St) : Prop where
  nodup : (inFlight st).Nodup
  pend_of : ∀ kc ∈ inFlight st, ∃ e ∈ st.store.list, e.key = kc.1 ∧ e.cmd = kc.2 ∧ e.pend = true
  flight_of : ∀ e ∈ st.store.list, e.pend = true → (e.key, e.cmd) ∈ inFlight st

theorem sf_init (mx base : Int) : SF (init mx base) :=
  ⟨by simp [inFlight, init], by simp [inFlight, init], by simp [init, Lru.init]⟩

/-- transport of the invariant when the store is untouched and the in-flight list is only permuted -/
theorem sf_perm {st st' : St} (h : SF st) (hs : st'.store = st.store) (hp : (inFlight st').Perm (inFlight st)) : SF st' :=
  ⟨hp.nodup_iff.2 h.nodup, fun kc hkc => by rw [hs]; exact h.pend_of kc (hp.mem_iff.1 hkc),
   fun e he hpe => hp.mem_iff.2 (h.flight_of e (by rw [← hs]; exact he) hpe)⟩


theorem sf_step {st : St} (hp : PInv st) (h : SF st) (ev : Ev) : SF (step st ev) := by
  have hi := hp.store
  cases ev with
  | start k c ttl now =>
    simp only [step]
    split
    · exact h
    · rename_i hopen
      have o := Lru.flight_cases st.store k c ttl now
      generalize hr : (Lru.flight st.store k c ttl now).2 = r at o
      generalize hs1 : (Lru.flight st.store k c ttl now).1 = s1 at o
      -- the two miss cases share one argument
      have miss : ∀ (hnone : ∀ x ∈ st.store.list, x.pend = true → ¬ (x.key = k ∧ x.cmd = c))
          (hl : ∀ x, x ∈ s1.list ↔ (x = Lru.newEntry st.store k c ttl now ∨ (x ∈ st.store.list ∧ (x.pend = true ∨ x ∈ s1.list)))),
          (∀ x ∈ st.store.list, x.pend = true → x ∈ s1.list) →
          SF { st with store := s1, reqQ := st.reqQ ++ [(k, c)] } := by
        intro hnone hl hkeep
        have hnotin : (k, c) ∉ inFlight st := by
          intro hin
          obtain ⟨e, he, hk, hc, hpe⟩ := h.pend_of _ hin
          exact hnone e he hpe ⟨hk, hc⟩
        have hperm : (inFlight { st with store := s1, reqQ := st.reqQ ++ [(k, c)] }).Perm ((k, c) :: inFlight st) := by
          show ((st.reqQ ++ [(k, c)]) ++ st.respQ.filterMap cmdOf).Perm ((k, c) :: (st.reqQ ++ st.respQ.filterMap cmdOf))
          rw [List.append_assoc]
          exact (List.perm_middle).trans (List.Perm.refl _)
        refine ⟨hperm.nodup_iff.2 (List.nodup_cons.2 ⟨hnotin, h.nodup⟩), ?_, ?_⟩
        · intro kc hkc
          rcases List.mem_cons.1 (hperm.mem_iff.1 hkc) with rfl | hkc
          · exact ⟨Lru.newEntry st.store k c ttl now, (hl _).2 (Or.inl rfl), rfl, rfl, rfl⟩
          · obtain ⟨e, he, hk, hc, hpe⟩ := h.pend_of kc hkc
            exact ⟨e, hkeep e he hpe, hk, hc, hpe⟩
        · intro e he hpe
          apply hperm.mem_iff.2
          rcases (hl e).1 he with rfl | ⟨hel, _⟩
          · exact List.mem_cons_self
          · exact List.mem_cons_of_mem _ (h.flight_of e hel hpe)
      cases o with
      | closed hc hs hr' => exact absurd hc hopen
      | found e hc hf hv hr' hl hsz hn fr =>
        have hns : r ≠ .send := by rw [hr']; unfold Lru.resOf; split <;> simp
        simp only [hns, if_false]
        have hmem : ∀ x, x ∈ s1.list ↔ x ∈ st.store.list := by
          intro x
          rcases hl with hl | hl
          · rw [hl]
          · rw [hl]; simp only [Lru.moveToBack, List.mem_append, List.mem_singleton]
            have he := (Lru.find?_some hf).1
            constructor
            · rintro (hx | hx)
              · exact List.mem_of_mem_erase hx
              · exact hx ▸ he
            · intro hx
              by_cases hxe : x = e
              · exact Or.inr hxe
              · exact Or.inl ((List.mem_erase_of_ne hxe).2 hx)
        exact ⟨h.nodup, fun kc hkc => by
            obtain ⟨e', he', hk, hc', hpe⟩ := h.pend_of kc hkc
            exact ⟨e', (hmem e').2 he', hk, hc', hpe⟩,
          fun e' he' hpe => h.flight_of e' ((hmem e').1 he') hpe⟩
      | expired e hc hf hv hr' hl hsz hn fr =>
        have hf' := Lru.find?_some hf
        have hpe : e.pend = false := by
          cases hpp : e.pend
          · rfl
          · simp [Lru.valid, hpp] at hv
        simp only [hr', if_true]
        apply miss
        · intro x hx hpx hkc
          have := hi.nodup.eq_of_sameKC hx hf'.1 ⟨hkc.1.trans hf'.2.1.symm, hkc.2.trans hf'.2.2.symm⟩
          rw [this, hpe] at hpx; cases hpx
        · intro x
          rw [hl]; simp only [List.mem_append, List.mem_singleton]
          constructor
          · rintro (hx | hx)
            · exact Or.inr ⟨List.mem_of_mem_erase hx, Or.inr (Or.inl hx)⟩
            · exact Or.inl hx
          · rintro (hx | ⟨hx, hx' | hx'⟩)
            · exact Or.inr hx
            · have : x ≠ e := by intro hh; rw [hh, hpe] at hx'; cases hx'
              exact Or.inl ((List.mem_erase_of_ne this).2 hx)
            · exact hx'
        · intro x hx hpx
          rw [hl]
          have : x ≠ e := by intro hh; rw [hh, hpe] at hpx; cases hpx
          exact List.mem_append_left _ ((List.mem_erase_of_ne this).2 hx)
      | absent hc hf hr' hl hsz hn fr =>
        simp only [hr', if_true]
        apply miss
        · intro x hx _ hkc; exact Lru.find?_none hf x hx hkc
        · intro x
          rw [hl]; simp only [List.mem_append, List.mem_singleton]
          constructor
          · rintro (hx | hx)
            · exact Or.inr ⟨hx, Or.inr (Or.inl hx)⟩
            · exact Or.inl hx
          · rintro (hx | ⟨hx, _⟩)
            · exact Or.inr hx
            · exact Or.inl hx
        · intro x hx _; rw [hl]; exact List.mem_append_left _ hx
  | startDone k c ttl now err =>
    simp only [step]
    split
    · exact h
    · rename_i hopen
      have o := Lru.flight_cases st.store k c ttl now
      have hi1 := Lru.inv_flight hi k c ttl now
      generalize hr : (Lru.flight st.store k c ttl now).2 = r at o
      generalize hs1 : (Lru.flight st.store k c ttl now).1 = s1 at o hi1
      -- the call became the fetcher, nothing is written, its own flight is cancelled: the pending entries are as before
      have miss : (∀ x ∈ st.store.list, x.pend = true → ¬ (x.key = k ∧ x.cmd = c)) →
          (∀ x ∈ s1.list, x.pend = true → x = Lru.newEntry st.store k c ttl now ∨ x ∈ st.store.list) →
          (∀ x ∈ st.store.list, x.pend = true → x ∈ s1.list) →
          SF { st with store := Lru.cancel s1 k c err } := by
        intro hnone hold hkeep
        refine ⟨h.nodup, ?_, ?_⟩
        · intro kc hkc
          obtain ⟨e, he, hk, hc, hpe⟩ := h.pend_of kc hkc
          have hne : ¬ (e.key = k ∧ e.cmd = c) := hnone e he hpe
          refine ⟨e, Lru.pending_persists hi1 (hkeep e he hpe) hpe (.cancel k c err) ?_, hk, hc, hpe⟩
          simp only [Lru.Op.resolves]
          simpa using (fun (h1 : k = e.key) (h2 : c = e.cmd) => hne ⟨h1.symm, h2.symm⟩)
        · intro x hx hpx
          obtain ⟨hx1, hne⟩ := Lru.cancel_pending_sub s1 hi1 k c err x hx hpx
          rcases hold x hx1 hpx with rfl | hxo
          · exact absurd ⟨rfl, rfl⟩ hne
          · exact h.flight_of x hxo hpx
      cases o with
      | closed hc hs hr' => exact absurd hc hopen
      | found e hc hf hv hr' hl hsz hn fr =>
        have hns : r ≠ .send := by rw [hr']; unfold Lru.resOf; split <;> simp
        simp only [hns, if_false]
        have hmem : ∀ x, x ∈ s1.list ↔ x ∈ st.store.list := by
          intro x
          rcases hl with hl | hl
          · rw [hl]
          · rw [hl]; simp only [Lru.moveToBack, List.mem_append, List.mem_singleton]
            have he := (Lru.find?_some hf).1
            constructor
            · rintro (hx | hx)
              · exact List.mem_of_mem_erase hx
              · exact hx ▸ he
            · intro hx
              by_cases hxe : x = e
              · exact Or.inr hxe
              · exact Or.inl ((List.mem_erase_of_ne hxe).2 hx)
        exact ⟨h.nodup, fun kc hkc => by
            obtain ⟨e', he', hk, hc', hpe⟩ := h.pend_of kc hkc
            exact ⟨e', (hmem e').2 he', hk, hc', hpe⟩,
          fun e' he' hpe => h.flight_of e' ((hmem e').1 he') hpe⟩
      | expired e hc hf hv hr' hl hsz hn fr =>
        have hf' := Lru.find?_some hf
        have hpe : e.pend = false := by
          cases hpp : e.pend
          · rfl
          · simp [Lru.valid, hpp] at hv
        simp only [hr', if_true]
        apply miss
        · intro x hx hpx hkc
          have := hi.nodup.eq_of_sameKC hx hf'.1 ⟨hkc.1.trans hf'.2.1.symm, hkc.2.trans hf'.2.2.symm⟩
          rw [this, hpe] at hpx; cases hpx
        · intro x hx _
          rw [hl] at hx
          rcases List.mem_append.1 hx with hx | hx
          · exact Or.inr (List.mem_of_mem_erase hx)
          · left; simpa using hx
        · intro x hx hpx
          rw [hl]
          have : x ≠ e := by intro hh; rw [hh, hpe] at hpx; cases hpx
          exact List.mem_append_left _ ((List.mem_erase_of_ne this).2 hx)
      | absent hc hf hr' hl hsz hn fr =>
        simp only [hr', if_true]
        apply miss
        · intro x hx _ hkc; exact Lru.find?_none hf x hx hkc
        · intro x hx _
          rw [hl] at hx
          rcases List.mem_append.1 hx with hx | hx
          · exact Or.inr hx
          · left; simpa using hx
        · intro x hx _; rw [hl]; exact List.mem_append_left _ hx
  | exec vsz pttl =>
    simp only [step]
    split
    · exact h
    · rename_i k c rest hq
      refine @sf_perm st _ h rfl ?_
      show (rest ++ (st.respQ ++ [Msg.reply k c (st.ver k) vsz pttl]).filterMap cmdOf).Perm (st.reqQ ++ st.respQ.filterMap cmdOf)
      rw [hq, List.filterMap_append]
      simp only [List.filterMap_cons, cmdOf, List.filterMap_nil, List.cons_append]
      rw [← List.append_assoc]
      exact List.perm_append_singleton _ _
  | execFail err =>
    simp only [step]
    split
    · exact h
    · rename_i k c rest hq
      refine @sf_perm st _ h rfl ?_
      show (rest ++ (st.respQ ++ [Msg.fail k c err]).filterMap cmdOf).Perm (st.reqQ ++ st.respQ.filterMap cmdOf)
      rw [hq, List.filterMap_append]
      simp only [List.filterMap_cons, cmdOf, List.filterMap_nil, List.cons_append]
      rw [← List.append_assoc]
      exact List.perm_append_singleton _ _
  | write k =>
    simp only [step]
    split
    · refine @sf_perm st _ h rfl ?_
      show (st.reqQ ++ (st.respQ ++ [Msg.push k (st.ver k + 1)]).filterMap cmdOf).Perm _
      rw [List.filterMap_append]
      simp only [List.filterMap_cons, List.filterMap_nil, cmdOf, List.append_nil]
      exact List.Perm.refl _
    · exact @sf_perm st _ h rfl (List.Perm.refl _)
  | flushall =>
    simp only [step]
    split
    · exact @sf_perm st _ h rfl (List.Perm.refl _)
    · refine @sf_perm st _ h rfl ?_
      show (st.reqQ ++ (st.respQ ++ [Msg.pushAll fun k => st.ver k + 1]).filterMap cmdOf).Perm _
      rw [List.filterMap_append]
      simp only [List.filterMap_cons, List.filterMap_nil, cmdOf, List.append_nil]
      exact List.Perm.refl _
  | disconnect err =>
    simp only [step]
    exact ⟨by simp [inFlight], by simp [inFlight], by simp [Lru.close]⟩
  | deliver tnow =>
    simp only [step]
    split
    · exact h
    · rename_i m rest hq
      -- dropping an answered command from the in-flight list
      have answered : ∀ (k c : Bytes) (s1 : Lru.State) (st' : St), cmdOf m = some (k, c) →
          st'.store = s1 → st'.reqQ = st.reqQ → st'.respQ = rest →
          (∀ x ∈ s1.list, x.pend = true → x ∈ st.store.list ∧ ¬ (x.key = k ∧ x.cmd = c)) →
          (∀ x ∈ st.store.list, x.pend = true → ¬ (x.key = k ∧ x.cmd = c) → x ∈ s1.list) → SF st' := by
        intro k c s1 st' hm hs hrq hrs hsub hkeep
        have hin : inFlight st = st.reqQ ++ (k, c) :: rest.filterMap cmdOf := by
          simp [inFlight, hq, hm]
        have hin' : inFlight st' = st.reqQ ++ rest.filterMap cmdOf := by simp [inFlight, hrq, hrs]
        have hnd := h.nodup
        rw [hin] at hnd
        have hperm : (st.reqQ ++ (k, c) :: rest.filterMap cmdOf).Perm ((k, c) :: (st.reqQ ++ rest.filterMap cmdOf)) :=
          List.perm_middle
        have hnd2 := List.nodup_cons.1 (hperm.nodup_iff.1 hnd)
        refine ⟨by rw [hin']; exact hnd2.2, ?_, ?_⟩
        · intro kc hkc
          rw [hin'] at hkc
          have hne : kc ≠ (k, c) := fun hh => hnd2.1 (hh ▸ hkc)
          obtain ⟨e, he, hk, hc, hpe⟩ := h.pend_of kc (by rw [hin]; exact hperm.mem_iff.2 (List.mem_cons_of_mem _ hkc))
          refine ⟨e, by rw [hs]; exact hkeep e he hpe (fun hh => hne (by rw [← hh.1, ← hh.2, hk, hc])), hk, hc, hpe⟩
        · intro e he hpe
          rw [hs] at he
          obtain ⟨hel, hne⟩ := hsub e he hpe
          have := h.flight_of e hel hpe
          rw [hin] at this
          rw [hin']
          rcases List.mem_cons.1 (hperm.mem_iff.1 this) with hh | hh
          · exact absurd ⟨congrArg Prod.fst hh, congrArg Prod.snd hh⟩ hne
          · exact hh
      cases m with
      | reply k c v vsz pttl =>
        refine answered k c _ _ rfl rfl rfl rfl (Lru.update_pending_sub st.store hi k c v vsz _) ?_
        intro x hx hpx hne
        exact Lru.pending_persists hi hx hpx (.update k c v vsz (Lru.serverRaw tnow pttl))
          (by simp only [Lru.Op.resolves]; simpa using (fun (h1 : k = x.key) (h2 : c = x.cmd) => hne ⟨h1.symm, h2.symm⟩))
      | fail k c err =>
        refine answered k c _ _ rfl rfl rfl rfl (Lru.cancel_pending_sub st.store hi k c err) ?_
        intro x hx hpx hne
        exact Lru.pending_persists hi hx hpx (.cancel k c err) (by simp only [Lru.Op.resolves]; simpa using (fun (h1 : k = x.key) (h2 : c = x.cmd) => hne ⟨h1.symm, h2.symm⟩))
      | push k n =>
        simp only [handle]
        have hin : inFlight st = st.reqQ ++ rest.filterMap cmdOf := by
          simp only [inFlight, hq, List.filterMap_cons, cmdOf]
        refine ⟨by show (st.reqQ ++ rest.filterMap cmdOf).Nodup; rw [← hin]; exact h.nodup, ?_, ?_⟩
        · intro kc hkc
          obtain ⟨e, he, hk, hc, hpe⟩ := h.pend_of kc (by rw [hin]; exact hkc)
          exact ⟨e, Lru.pending_persists hi he hpe (.delete (some [k])) rfl, hk, hc, hpe⟩
        · intro e he hpe
          have := h.flight_of e (Lru.mem_foldl_purge [k] he).1 hpe
          rw [hin] at this; exact this
      | pushAll g =>
        simp only [handle]
        have hin : inFlight st = st.reqQ ++ rest.filterMap cmdOf := by
          simp only [inFlight, hq, List.filterMap_cons, cmdOf]
        refine ⟨by show (st.reqQ ++ rest.filterMap cmdOf).Nodup; rw [← hin]; exact h.nodup, ?_, ?_⟩
        · intro kc hkc
          obtain ⟨e, he, hk, hc, hpe⟩ := h.pend_of kc (by rw [hin]; exact hkc)
          exact ⟨e, Lru.pending_persists hi he hpe (.delete none) rfl, hk, hc, hpe⟩
        · intro e he hpe
          have := h.flight_of e (Lru.mem_foldl_purge _ he).1 hpe
          rw [hin] at this; exact this

theorem sf_run {st : St} (hp : PInv st) (h : SF st) (evs : List Ev) : SF (run st evs) := by
  induction evs generalizing st with
  | nil => exact h
  | cons e rest ih => exact ih (pinv_step hp e) (sf_step hp h e)

end Rv.CachePipe
