/-
Pipe life model: no deadlock. Once the connection is dead or Close has been called and the
`_background` goroutine exists, some internal step (one that needs neither the server nor a new
caller nor the environment) is enabled as long as a call has not been resolved.
-/
import Rv.Lemmas.PipeLifeMeasure
import Rv.Lemmas.PipeLifeSafe
namespace Rv.PipeLife

/-- the connection is dead or Close has been called -/
def triggered (s : St) : Prop := s.connUp = false ∨ s.close ≠ .idle

/-- some internal step is enabled -/
def canMove (fix : Bool) (s : St) : Prop := ∃ l s', l.internal = true ∧ step fix s l = some s'

theorem canMove_of {fix : Bool} {s : St} (l : Label) (hi : l.internal = true)
    (h : (step fix s l).isSome = true) : canMove fix s := by
  cases hs : step fix s l with
  | none => simp [hs] at h
  | some s' => exact ⟨l, s', hi, hs⟩

theorem drainTake_head_taken (q : List Entry) (e : Entry) (es : List Entry) (h : drainTake q = e :: es) :
    e.taken = true := by
  cases q with
  | nil => simp [drainTake, takeFirst] at h
  | cons a as =>
    by_cases ha : a.taken = true
    · have : ∃ es', drainTake (a :: as) = a :: es' := by
        unfold drainTake takeFirst
        simp only [ha, if_true]
        cases takeFirst as with
        | none => exact ⟨as, rfl⟩
        | some p => exact ⟨p.2, rfl⟩
      obtain ⟨es', h'⟩ := this
      rw [h'] at h; injection h with h1 _; rw [← h1]; exact ha
    · have : drainTake (a :: as) = { a with taken := true } :: as := by
        unfold drainTake takeFirst
        simp only [ha]
        rfl
      rw [this] at h; injection h with h1 _; rw [← h1]

theorem takeFirst_some_of_head (e : Entry) (es : List Entry) (h : e.taken = false) :
    ∃ o q, takeFirst (e :: es) = some (o, q) := by
  unfold takeFirst; simp [h]

/-- Close always has a next statement until it is done -/
theorem close_moves (fix : Bool) (s : St) (h : s.close ≠ .idle) (hd : s.close ≠ .done) : canMove fix s := by
  cases hc : s.close with
  | idle => exact absurd hc h
  | done => exact absurd hc hd
  | entered w => exact canMove_of .closeCas rfl (by simp [step, closeCas, hc])
  | casDone b => exact canMove_of .closePing rfl (by simp only [step, closePing, hc]; split <;> rfl)
  | pingWait => exact canMove_of .closeGrace rfl (by simp [step, closeGrace, hc])
  | tail => exact canMove_of .closeTail rfl (by simp [step, closeTail, hc])

/-- with a live connection and Close called, Close itself can move -/
theorem close_moves_if_up {fix : Bool} {s : St} (ha : InvA (scal s)) (ht : triggered s) (hup : s.connUp = true) :
    canMove fix s := by
  rcases ht with h | h
  · rw [hup] at h; cases h
  · refine close_moves fix s h ?_
    intro hd
    have := ha.a5 hd
    simp only [scal] at this
    rw [hup] at this; cases this

/-- **no deadlock.** -/
theorem no_deadlock {fix : Bool} {s : St} (hr : Reachable fix s) (ht : triggered s) (hbg : s.td ≠ .off)
    {i : Nat} {cs : CS} (hst : stOf s i = some cs) (hw : cs.weight = 1) : canMove fix s := by
  have ha := hr.invA
  have hc := hr.invC
  -- the part shared by `waiting` and `aborted`: the call owns a slot
  have slot_case : slotW (stOf s i) = 1 → canMove fix s := by
    intro hslot
    cases hup : s.connUp with
    | true => exact close_moves_if_up ha ht hup
    | false =>
      cases htd : s.td with
      | off => exact absurd htd hbg
      | reading => exact canMove_of .rErr rfl (by simp [step, rErr, htd, hup])
      | exited =>
        exact canMove_of .tdSpawn rfl (by simp only [step, tdSpawn, htd]; split <;> rfl)
      | loopDone =>
        have hS := hr.invP (by rw [htd]; rfl)
        have := hS.p1 i cs hst
        cases cs <;> simp_all [slotW, CS.owed]
      | finished =>
        have hS := hr.invP (by rw [htd]; rfl)
        have := hS.p1 i cs hst
        cases cs <;> simp_all [slotW, CS.owed]
      | draining c =>
        have hwpos : 1 ≤ s.waits := hc.waits_pos hst hw
        have hin : s.inflight = none := by
          cases hi : s.inflight with
          | none => rfl
          | some o => have := hc.s6 (by simp [hi]); rw [htd] at this; cases this
        have hmem : Owner.call i ∈ s.queue.map (·.owner) := by
          have hcnt : 0 < (slots s).count (.call i) := by rw [hc.s1 i, hslot]; exact Nat.one_pos
          have := List.count_pos_iff.mp hcnt
          simpa [slots, hin] using this
        have hown := drainQueue_owners (seenClosed c s) s.queue
        cases hq1 : drainQueue (seenClosed c s) s.queue with
        | nil => rw [hq1] at hown; simp at hown; rw [hown] at hmem; simp at hmem
        | cons e es =>
          by_cases het : e.taken = true
          · have hw0 : ¬ s.waits = 0 := by omega
            exact canMove_of .tdIter rfl (by simp [step, tdIter, htd, hw0, hq1, het])
          · -- the head is still untaken: the writer is alive and takes it
            have hsc : seenClosed c s = false := by
              cases hx : seenClosed c s with
              | false => rfl
              | true =>
                rw [hx] at hq1
                have := drainTake_head_taken s.queue e es (by simpa [drainQueue] using hq1)
                exact absurd this het
            have hq : s.queue = e :: es := by rw [hsc] at hq1; simpa [drainQueue] using hq1
            have hwr : ∃ d, s.writer = .run d := by
              cases hx : s.writer with
              | off => have := ha.a3.mpr (by simp [scal, hx]); simp [scal] at this; exact absurd this hbg
              | run d => exact ⟨d, rfl⟩
              | exited => simp [seenClosed, hx, isExited] at hsc
            obtain ⟨d, hwr⟩ := hwr
            obtain ⟨o, q, htf⟩ := takeFirst_some_of_head e es (by simpa using het)
            exact canMove_of .wTake rfl (by simp [step, wTake, hwr, hq, htf])
  cases cs with
  | idle => simp [CS.weight] at hw
  | done => simp [CS.weight] at hw
  | counted w =>
    exact canMove_of (.decide i) rfl (by simp only [step, decide, hst]; (repeat' split) <;> rfl)
  | toQueue => exact canMove_of (.put i) rfl (by simp [step, put, hst])
  | got r sb => exact canMove_of (.leave i) rfl (by simp [step, leave, hst])
  | syncing =>
    cases hup : s.connUp with
    | true => exact close_moves_if_up ha ht hup
    | false => exact canMove_of (.syncErr i) rfl (by simp [step, syncErr, hst, hup])
  | waiting => exact slot_case (by rw [hst]; rfl)
  | aborted => exact slot_case (by rw [hst]; rfl)

/-- a call that is past `incrWaits` and not parked on its channel can always make its next statement,
    except a sync read on a live connection -/
theorem own_step_enabled {fix : Bool} {s : St} {i : Nat} {cs : CS} (hst : stOf s i = some cs) (hw : cs.weight = 1)
    (hnw : cs ≠ .waiting) (hna : cs ≠ .aborted) (hsync : cs = .syncing → s.connUp = false) : canMove fix s := by
  cases cs with
  | idle => simp [CS.weight] at hw
  | done => simp [CS.weight] at hw
  | counted w => exact canMove_of (.decide i) rfl (by simp only [step, decide, hst]; (repeat' split) <;> rfl)
  | toQueue => exact canMove_of (.put i) rfl (by simp [step, put, hst])
  | got r sb => exact canMove_of (.leave i) rfl (by simp [step, leave, hst])
  | syncing => exact canMove_of (.syncErr i) rfl (by simp [step, syncErr, hst, hsync rfl])
  | waiting => exact absurd rfl hnw
  | aborted => exact absurd rfl hna

/-- what a stuck state looks like: if a call is unresolved after the trigger and no internal step is
    enabled, then `_background` was never started, Close is not in progress, and every unresolved call
    sits in the queue (it waits on its channel or its abort goroutine does) -/
theorem stuck_shape {fix : Bool} {s : St} (hr : Reachable fix s) (ht : triggered s) (hstuck : ¬ canMove fix s)
    {i : Nat} {cs : CS} (hst : stOf s i = some cs) (hw : cs.weight = 1) :
    s.td = .off ∧ (s.close = .done ∨ s.close = .idle) ∧
      ∀ j cj, stOf s j = some cj → cj.weight = 1 → cj = .waiting ∨ cj = .aborted := by
  have ha := hr.invA
  have htd : s.td = .off := by
    cases h : s.td with
    | off => rfl
    | _ => exact absurd (no_deadlock hr ht (by rw [h]; simp) hst hw) hstuck
  have hcl : s.close = .done ∨ s.close = .idle := by
    cases h : s.close with
    | done => exact Or.inl rfl
    | idle => exact Or.inr rfl
    | _ => exact absurd (close_moves fix s (by rw [h]; simp) (by rw [h]; simp)) hstuck
  have hdown : s.connUp = false := by
    rcases ht with h | h
    · exact h
    · rcases hcl with h1 | h1
      · have := ha.a5 h1; simpa [scal] using this
      · exact absurd h1 h
  refine ⟨htd, hcl, ?_⟩
  intro j cj hj hwj
  by_cases h1 : cj = .waiting
  · exact Or.inl h1
  · by_cases h2 : cj = .aborted
    · exact Or.inr h2
    · exact absurd (own_step_enabled hj hwj h1 h2 (fun _ => hdown)) hstuck

end Rv.PipeLife
