/-
Pipe life model: `state >= 2`, a dead connection, a called Close and a started `_background` are never undone.
-/
import Rv.Lemmas.PipeLifeCount
namespace Rv.PipeLife

theorem deliver_state (o : Owner) (r : Res) (s : St) : (deliver o r s).state = s.state :=
  congrArg Scal.state (scal_deliver o r s)

theorem deferDeliver_state (s : St) : (deferDeliver s).state = s.state :=
  congrArg Scal.state (scal_deferDeliver s)

theorem ge2_startBg {s : St} (h : 2 ≤ s.state) : 2 ≤ (startBg s).state := by
  have : (startBg s).state = bgState s.state := by unfold startBg; split <;> rfl
  rw [this]; unfold bgState; split <;> omega

theorem ge2_exitConn {w : Why} {s : St} (h : 2 ≤ s.state) : 2 ≤ (exitConn w s).state := by
  show 2 ≤ if s.state = 1 then 2 else s.state
  split <;> omega

theorem ge2_casSt {s : St} (h : 2 ≤ s.state) : 2 ≤ (casSt s).state := by
  show 2 ≤ if isStopping s.state then 2 else s.state
  split <;> omega

set_option hygiene false in
macro "stateP" : tactic =>
  `(tactic| (crunch h <;> first | exact h2 | exact ge2_startBg h2 | exact ge2_exitConn h2 | exact ge2_exitConn (w := .broken) (s := s) h2 | exact ge2_startBg (ge2_casSt h2) | exact ge2_casSt h2 | (rw [deliver_state]; exact h2)))

/-- `state >= 2` is never left -/
theorem state_ge2_stable {fix : Bool} {s s' : St} {l : Label} (h : step fix s l = some s') (h2 : 2 ≤ s.state) :
    2 ≤ s'.state := by
  cases l <;> simp only [step] at h
  case enter i => unfold enter at h; stateP
  case decide i => unfold decide at h; stateP
  case put i => unfold put at h; stateP
  case putFail i => unfold putFail at h; stateP
  case syncOk i => unfold syncOk at h; stateP
  case syncErr i => unfold syncErr at h; stateP
  case leave i => unfold leave at h; stateP
  case abort i => unfold abort at h; stateP
  case cancel i => unfold cancel at h; stateP
  case connBreak => unfold connBreak at h; stateP
  case pingFail => unfold pingFail at h; stateP
  case wTake => unfold wTake at h; stateP
  case wFlush => unfold wFlush at h; stateP
  case rFetch => unfold rFetch at h; stateP
  case rDeliver => unfold rDeliver at h; stateP
  case rErr =>
    unfold rErr at h; crunch h
    exact ge2_exitConn (w := .broken) (s := deferDeliver s) (by rw [deferDeliver_state]; exact h2)
  case tdSpawn => unfold tdSpawn at h; stateP
  case bgPingPut => unfold bgPingPut at h; stateP
  case tdIter => unfold tdIter at h; stateP
  case tdClose => unfold tdClose at h; crunch h; show 2 ≤ 4; omega
  case closeEnter w => unfold closeEnter at h; stateP
  case closeCas => unfold closeCas at h; stateP
  case closePing => unfold closePing at h; stateP
  case closeGot => unfold closeGot at h; stateP
  case closeGrace => unfold closeGrace at h; stateP
  case closeTail => unfold closeTail at h; stateP


/-! ### the trigger and the background goroutine are never undone -/

theorem deliver_connUp (o : Owner) (r : Res) (s : St) : (deliver o r s).connUp = s.connUp :=
  congrArg Scal.connUp (scal_deliver o r s)

theorem deliver_close (o : Owner) (r : Res) (s : St) : (deliver o r s).close = s.close :=
  congrArg Scal.close (scal_deliver o r s)

theorem startBg_td_ne_off (s : St) : (startBg s).td ≠ .off := by
  unfold startBg; split
  · simp
  · rename_i h; simpa using h

theorem startBg_td_of_ne {s : St} (h : s.td ≠ .off) : (startBg s).td = s.td := by
  unfold startBg; split
  · rename_i h1; exact absurd h1 h
  · rfl

/-- `connUp = false`, `close ≠ idle` and `td ≠ off` are stable -/
structure Latched (s : St) (c k t : Bool) : Prop where
  c : c = true → s.connUp = false
  k : k = true → s.close ≠ .idle
  t : t = true → s.td ≠ .off

theorem latched_of {s s' : St} {c k t : Bool} (h : Latched s c k t) (hc : s'.connUp = s.connUp)
    (hk : s'.close = s.close) (ht : s'.td = s.td) : Latched s' c k t :=
  ⟨fun x => by rw [hc]; exact h.c x, fun x => by rw [hk]; exact h.k x, fun x => by rw [ht]; exact h.t x⟩

theorem latched_startBg {s : St} {c k t : Bool} (h : Latched s c k t) : Latched (startBg s) c k t :=
  ⟨fun hc => by rw [startBg_connUp]; exact h.c hc, fun hk => by rw [startBg_close]; exact h.k hk,
   fun _ => startBg_td_ne_off s⟩

theorem latched_deliver {s : St} {c k t : Bool} (o : Owner) (r : Res) (h : Latched s c k t) :
    Latched (deliver o r s) c k t :=
  ⟨fun hc => by rw [deliver_connUp]; exact h.c hc, fun hk => by rw [deliver_close]; exact h.k hk,
   fun ht => by rw [deliver_td]; exact h.t ht⟩

set_option hygiene false in
macro "latchP" : tactic =>
  `(tactic| (crunch h <;> first | exact latched_of hl rfl rfl rfl | exact latched_of (latched_startBg hl) rfl rfl rfl | exact latched_of (latched_deliver _ _ hl) rfl rfl rfl))

theorem latched_step {fix : Bool} {s s' : St} {l : Label} {c k t : Bool} (h : step fix s l = some s')
    (hl : Latched s c k t) : Latched s' c k t := by
  cases l <;> simp only [step] at h
  case enter i => unfold enter at h; latchP
  case decide i =>
    unfold decide at h; crunch h
    · exact latched_of hl rfl rfl rfl
    · exact latched_of hl rfl rfl rfl
    · exact latched_of (latched_startBg hl) rfl rfl rfl
    · exact latched_of hl rfl rfl rfl
    · exact latched_of hl rfl rfl rfl
  case put i => unfold put at h; latchP
  case putFail i => unfold putFail at h; latchP
  case syncOk i => unfold syncOk at h; latchP
  case syncErr i =>
    unfold syncErr at h; crunch h <;>
      exact latched_of (latched_startBg (s := { s with err := latch .broken s.err, connUp := false })
        ⟨fun _ => rfl, hl.k, hl.t⟩) rfl rfl rfl
  case leave i =>
    unfold leave at h; crunch h
    · exact latched_startBg (s := leaveSt _ _ s) (latched_of hl rfl rfl rfl)
    · exact latched_of hl rfl rfl rfl
  case abort i => unfold abort at h; latchP
  case cancel i => unfold cancel at h; latchP
  case connBreak => unfold connBreak at h; crunch h; exact ⟨fun _ => rfl, hl.k, hl.t⟩
  case pingFail => unfold pingFail at h; crunch h; exact ⟨fun _ => rfl, hl.k, hl.t⟩
  case wTake => unfold wTake at h; latchP
  case wFlush =>
    unfold wFlush at h; crunch h
    · exact latched_of hl rfl rfl rfl
    · exact ⟨fun _ => rfl, hl.k, hl.t⟩
  case rFetch => unfold rFetch at h; latchP
  case rDeliver => unfold rDeliver at h; crunch h; exact latched_deliver _ _ (s := { s with inflight := none }) (latched_of hl rfl rfl rfl)
  case rErr =>
    unfold rErr at h; crunch h
    refine ⟨fun _ => rfl, fun hk => ?_, fun _ => by simp⟩
    show (deferDeliver s).close ≠ .idle
    have : (deferDeliver s).close = s.close := congrArg Scal.close (scal_deferDeliver s)
    rw [this]; exact hl.k hk
  case tdSpawn => unfold tdSpawn at h; crunch h <;> exact ⟨hl.c, hl.k, fun _ => by simp⟩
  case bgPingPut => unfold bgPingPut at h; latchP
  case tdIter =>
    unfold tdIter at h; crunch h
    · exact ⟨hl.c, hl.k, fun _ => by simp⟩
    · exact latched_deliver _ _ (s := { s with td := .draining _, queue := _, rcnt := _ }) ⟨hl.c, hl.k, fun _ => by simp⟩
    · exact ⟨hl.c, hl.k, fun _ => by simp⟩
  case tdClose => unfold tdClose at h; crunch h; exact ⟨hl.c, hl.k, fun _ => by simp⟩
  case closeEnter w => unfold closeEnter at h; crunch h; exact ⟨hl.c, fun _ => by simp, hl.t⟩
  case closeCas =>
    unfold closeCas at h; crunch h
    · exact latched_startBg (s := casSt s) ⟨hl.c, fun _ => by simp [casSt], hl.t⟩
    · exact ⟨hl.c, fun _ => by simp [casSt], hl.t⟩
  case closePing => unfold closePing at h; crunch h <;> exact ⟨hl.c, fun _ => by simp, hl.t⟩
  case closeGot => unfold closeGot at h; crunch h; exact ⟨hl.c, fun _ => by simp, hl.t⟩
  case closeGrace => unfold closeGrace at h; crunch h; exact ⟨hl.c, fun _ => by simp, hl.t⟩
  case closeTail => unfold closeTail at h; crunch h; exact ⟨fun _ => rfl, fun _ => by simp, hl.t⟩

end Rv.PipeLife
