/-
Lemmas for C15: none of the accessor models reaches a `.panic` arm. One lemma per
model function; the guards in front of every `idx` / `slice2` / pair loop are
what makes each of them go through.
-/
import Rv.Model.AccessorsShape
namespace Rv.Acc

/-! ### slices -/
@[simp] theorem idx_eq_panic_iff {α} (xs : List α) (i : Nat) : idx xs i = .panic ↔ xs.length ≤ i := by
  unfold idx
  cases h : xs[i]? with
  | none => simpa using h
  | some x =>
    have := (List.getElem?_eq_some_iff.mp h).1
    simp; omega

theorem idx_lt {α} {xs : List α} {i : Nat} (h : i < xs.length) : idx xs i = .ok xs[i] := by
  unfold idx; simp [h]

@[simp] theorem idx_ne_err {α} (xs : List α) (i : Nat) (e : String) : idx xs i ≠ .err e := by
  unfold idx; split <;> simp

@[simp] theorem idx_ne_oom {α} (xs : List α) (i : Nat) : idx xs i ≠ .oom := by
  unfold idx; split <;> simp

@[simp] theorem slice2_eq_panic_iff {α} (xs : List α) (j : Nat) : slice2 xs j = .panic ↔ xs.length < j + 2 := by
  unfold slice2; split <;> simp <;> omega

theorem slice2_ok {α} {xs : List α} {j : Nat} {p : List α} (h : slice2 xs j = .ok p) : p = (xs.drop j).take 2 ∧ j + 2 ≤ xs.length := by
  unfold slice2 at h; split at h <;> simp_all

theorem orZero_np {α} (r : Res α) (d : α) (h : r ≠ .panic) : orZero r d ≠ .panic := by
  unfold orZero; split <;> simp_all

theorem mapR_np {α β} (f : α → Res β) (xs : List α) (h : ∀ x ∈ xs, f x ≠ .panic) : mapR f xs ≠ .panic := by
  induction xs with
  | nil => simp [mapR]
  | cons x r ih =>
    have hx := h x (by simp)
    have hr := ih (fun y hy => h y (by simp [hy]))
    unfold mapR
    split
    · split <;> simp_all
    all_goals simp_all

theorem liftNum_np {α} (fn : String) (r : Except NumErr α) : liftNum fn r ≠ .panic := by
  unfold liftNum; split <;> simp

theorem utilFloat_np (fp : FP) (s : Bytes) : utilFloat fp s ≠ .panic := by
  unfold utilFloat; repeat' split
  all_goals simp

/-! ### leaves -/
theorem errOrParse_np {α} (m : Msg) : (errOrParse m : Res α) ≠ .panic := by
  unfold errOrParse; split <;> simp

theorem toStr_np (m : Msg) : toStr m ≠ .panic := by
  unfold toStr; repeat' split
  all_goals simp

theorem asBytes_np (m : Msg) : asBytes m ≠ .panic := toStr_np m
theorem decodeJSON_np (m : Msg) : decodeJSON m ≠ .panic := toStr_np m

theorem asInt64_np (m : Msg) : asInt64 m ≠ .panic := by
  have := toStr_np m
  unfold asInt64; repeat' split
  all_goals simp_all [liftNum_np]

theorem asUint64_np (m : Msg) : asUint64 m ≠ .panic := by
  have := toStr_np m
  unfold asUint64; repeat' split
  all_goals simp_all [liftNum_np]

theorem asBool_np (m : Msg) : asBool m ≠ .panic := by
  unfold asBool; repeat' split
  all_goals simp

theorem asFloat64_np (fp : FP) (m : Msg) : asFloat64 fp m ≠ .panic := by
  have := toStr_np m
  unfold asFloat64; repeat' split
  all_goals simp_all [utilFloat_np]

theorem asFloat64V_np (fp : FP) (m : Msg) : asFloat64V fp m ≠ .panic := by
  have := toStr_np m
  unfold asFloat64V; repeat' split
  all_goals simp_all

theorem toInt64_np (m : Msg) : toInt64 m ≠ .panic := by
  unfold toInt64; split <;> simp [errOrParse_np]
theorem toBool_np (m : Msg) : toBool m ≠ .panic := by
  unfold toBool; split <;> simp [errOrParse_np]
theorem toFloat64_np (fp : FP) (m : Msg) : toFloat64 fp m ≠ .panic := by
  unfold toFloat64; split <;> simp [errOrParse_np, utilFloat_np]
theorem toArray_np (m : Msg) : toArray m ≠ .panic := by
  unfold toArray; split <;> simp [errOrParse_np]

/-! ### slices of leaves -/
theorem asStrSlice_np (m : Msg) : asStrSlice m ≠ .panic := by
  have := toArray_np m
  unfold asStrSlice; split <;> simp_all

theorem intElem_np (v : Msg) : intElem v ≠ .panic := by
  unfold intElem; split <;> simp [liftNum_np]

theorem asIntSlice_np (m : Msg) : asIntSlice m ≠ .panic := by
  have := toArray_np m
  unfold asIntSlice; split <;> simp_all
  exact mapR_np _ _ (fun x _ => intElem_np x)

theorem floatElem_np (fp : FP) (v : Msg) : floatElem fp v ≠ .panic := by
  unfold floatElem; split <;> simp [utilFloat_np]

theorem asFloatSlice_np (fp : FP) (m : Msg) : asFloatSlice fp m ≠ .panic := by
  have := toArray_np m
  unfold asFloatSlice; split <;> simp_all
  exact mapR_np _ _ (fun x _ => floatElem_np fp x)

theorem asBoolSlice_np (m : Msg) : asBoolSlice m ≠ .panic := by
  have := toArray_np m
  unfold asBoolSlice; split <;> simp_all
  exact mapR_np _ _ (fun x _ => orZero_np _ _ (asBool_np x))

/-! ### maps -/
theorem strPairs_np : ∀ (xs : List Msg), xs.length % 2 = 0 → strPairs xs ≠ .panic
  | [], _ => by simp [strPairs]
  | [_], h => by simp at h
  | k :: v :: r, h => by
    have := strPairs_np r (by simp at h; omega)
    unfold strPairs; split <;> simp_all

theorem asStrMap_np (m : Msg) : asStrMap m ≠ .panic := by
  unfold asStrMap; repeat' split
  all_goals first | (simp; done) | skip
  rename_i h; exact strPairs_np _ h.2

theorem asStrMapOpt_np (m : Msg) : asStrMapOpt m ≠ .panic := by
  have := asStrMap_np m
  unfold asStrMapOpt; split <;> simp_all

theorem intPairs_np : ∀ (xs : List Msg), xs.length % 2 = 0 → intPairs xs ≠ .panic
  | [], _ => by simp [intPairs]
  | [_], h => by simp at h
  | k :: v :: r, h => by
    have := intPairs_np r (by simp at h; omega)
    have hl := liftNum_np "ParseInt" (parseInt v.str 0)
    unfold intPairs; repeat' split
    all_goals simp_all

theorem asIntMap_np (m : Msg) : asIntMap m ≠ .panic := by
  unfold asIntMap; repeat' split
  all_goals first | (simp; done) | skip
  rename_i h; exact intPairs_np _ h.2

theorem toMapPairs_np : ∀ (xs : List Msg), xs.length % 2 = 0 → toMapPairs xs ≠ .panic
  | [], _ => by simp [toMapPairs]
  | [_], h => by simp at h
  | k :: v :: r, h => by
    have := toMapPairs_np r (by simp at h; omega)
    unfold toMapPairs; repeat' split
    all_goals simp_all

theorem toMapV_np (xs : List Msg) : toMapV xs ≠ .panic := by
  unfold toMapV; split
  · simp
  · exact toMapPairs_np _ (by omega)

theorem asMap_np (m : Msg) : asMap m ≠ .panic := by
  unfold asMap; repeat' split
  all_goals first | (simp; done) | skip
  exact toMapV_np _

theorem toMap_np (m : Msg) : toMap m ≠ .panic := by
  unfold toMap; split
  · exact toMapV_np _
  · exact errOrParse_np m

theorem wrap_np {α} (acc : Msg → Res α) (e : Option String) (m : Msg) (h : acc m ≠ .panic) : wrap acc e m ≠ .panic := by
  unfold wrap; split <;> simp_all

/-! ### classifiers -/
theorem lastIndexByte_lt (c : UInt8) : ∀ (s : Bytes) (i : Nat), lastIndexByte c s = some i → i < s.length
  | [], i, h => by simp [lastIndexByte] at h
  | x :: r, i, h => by
    unfold lastIndexByte at h
    split at h
    · rename_i j hj
      have := lastIndexByte_lt c r j hj
      simp at h; simp; omega
    · split at h
      · simp at h; simp; omega
      · simp at h

theorem cut_np (a : Bytes) (i : Nat) (h : i < a.length) : cut a i ≠ .panic := by
  unfold cut; split
  · simp
  · omega

theorem fixIPv6HostPort_np (a : Bytes) : fixIPv6HostPort a ≠ .panic := by
  unfold fixIPv6HostPort
  split
  · rename_i hc
    rw [idx_lt (by omega : 0 < a.length)]
    simp only
    split
    · split
      · rename_i i hi
        have := cut_np a i (lastIndexByte_lt _ _ _ hi)
        split <;> simp_all
      · simp
    · simp
  · simp

theorem redirectAddr_np (pre : Bytes) (k : Nat) (s : Bytes) : redirectAddr pre k s ≠ .panic := by
  simp only [redirectAddr]
  split
  · split
    · rename_i hk
      rw [idx_lt hk]; simp only
      have := fixIPv6HostPort_np ((splitOn 32 s)[k])
      split <;> simp_all
    · simp
  · simp

/-! ### streams -/
theorem asXRangeEntry_np (m : Msg) : asXRangeEntry m ≠ .panic := by
  have h1 := toArray_np m
  unfold asXRangeEntry
  repeat' split
  all_goals first | (simp; done) | skip
  all_goals simp_all [toStr_np, asStrMap_np]
  all_goals omega

theorem asXRange_np (m : Msg) : asXRange m ≠ .panic := by
  have := toArray_np m
  unfold asXRange; split <;> simp_all
  exact mapR_np _ _ (fun x _ => asXRangeEntry_np x)

theorem xreadPairs_np {α} (f : Msg → Res α) (hf : ∀ m, f m ≠ .panic) :
    ∀ (xs : List Msg), xs.length % 2 = 0 → xreadPairs f xs ≠ .panic
  | [], _ => by simp [xreadPairs]
  | [_], h => by simp at h
  | k :: v :: r, h => by
    have := xreadPairs_np f hf r (by simp at h; omega)
    have := hf v
    unfold xreadPairs; repeat' split
    all_goals simp_all

theorem xreadElem_np {α} (f : Msg → Res α) (hf : ∀ m, f m ≠ .panic) (v : Msg) : xreadElem f v ≠ .panic := by
  unfold xreadElem
  repeat' split
  all_goals first | (simp; done) | skip
  all_goals simp_all
  all_goals first | omega | (rename_i hx; exact absurd hx (hf _))

theorem xreadWith_np {α} (f : Msg → Res α) (hf : ∀ m, f m ≠ .panic) (m : Msg) : xreadWith f m ≠ .panic := by
  unfold xreadWith
  repeat' split
  all_goals first | (simp; done) | skip
  · exact xreadPairs_np f hf _ (by omega)
  · exact mapR_np _ _ (fun x _ => xreadElem_np f hf x)

theorem asXRead_np (m : Msg) : asXRead m ≠ .panic := xreadWith_np _ asXRange_np m

theorem fvLoop_np (fa : List Msg) : ∀ (n i : Nat), (i + n) * 2 ≤ fa.length → fvLoop fa n i ≠ .panic
  | 0, _, _ => by simp [fvLoop]
  | n + 1, i, h => by
    have := fvLoop_np fa n (i + 1) (by omega)
    unfold fvLoop
    repeat' split
    all_goals first | (simp; done) | skip
    all_goals simp_all
    all_goals omega

theorem asXRangeSlice_np (m : Msg) : asXRangeSlice m ≠ .panic := by
  have h1 := toArray_np m
  unfold asXRangeSlice
  repeat' split
  all_goals first | (simp; done) | skip
  all_goals simp_all [toStr_np, toArray_np]
  all_goals first | omega | skip
  all_goals (rename_i hx; exact absurd hx (fvLoop_np _ _ _ (by omega)))

theorem asXRangeSlices_np (m : Msg) : asXRangeSlices m ≠ .panic := by
  have := toArray_np m
  unfold asXRangeSlices; split <;> simp_all
  exact mapR_np _ _ (fun x _ => asXRangeSlice_np x)

theorem asXReadSlices_np (m : Msg) : asXReadSlices m ≠ .panic := xreadWith_np _ asXRangeSlices_np m

/-! ### scores -/
theorem toZScore_np (fp : FP) (vs : List Msg) : toZScore fp vs ≠ .panic := by
  unfold toZScore
  repeat' split
  all_goals first | (simp; done) | skip
  all_goals simp_all [toStr_np, asFloat64_np]

theorem asZScore_np (fp : FP) (m : Msg) : asZScore fp m ≠ .panic := by
  have := toArray_np m
  unfold asZScore; split <;> simp_all [toZScore_np]

theorem flatScores_np (fp : FP) (arr : List Msg) : ∀ (n i : Nat), (i + n) * 2 ≤ arr.length → flatScores fp arr n i ≠ .panic
  | 0, _, _ => by simp [flatScores]
  | n + 1, i, h => by
    have := flatScores_np fp arr n (i + 1) (by omega)
    unfold flatScores
    repeat' split
    all_goals first | (simp; done) | skip
    all_goals simp_all [toZScore_np]
    all_goals omega

theorem asZScores_np (fp : FP) (m : Msg) : asZScores fp m ≠ .panic := by
  have h1 := toArray_np m
  unfold asZScores
  repeat' split
  all_goals first | (simp; done) | skip
  · exact mapR_np _ _ (fun x _ => toZScore_np fp _)
  · exact flatScores_np _ _ _ _ (by omega)
  · simp_all
  · exact flatScores_np _ _ _ _ (by omega)
  · simp_all

/-! ### scan, pops -/
theorem asScanEntry_np (m : Msg) : asScanEntry m ≠ .panic := by
  have h1 := toArray_np m
  unfold asScanEntry
  repeat' split
  all_goals first | (simp; done) | skip
  all_goals simp_all [asUint64_np, asStrSlice_np]
  all_goals omega

theorem popWith_np {α} (f : Msg → Res α) (hf : ∀ m, f m ≠ .panic) (m : Msg) : popWith f m ≠ .panic := by
  unfold popWith
  repeat' split
  all_goals first | (simp; done) | skip
  all_goals simp_all
  all_goals first | omega | (rename_i hx; exact absurd hx (hf _))

theorem asLMPop_np (m : Msg) : asLMPop m ≠ .panic := popWith_np _ asStrSlice_np m
theorem asZMPop_np (fp : FP) (m : Msg) : asZMPop fp m ≠ .panic := popWith_np _ (asZScores_np fp) m

/-! ### FT.SEARCH / FT.AGGREGATE -/
theorem ftRecord_np (fp : FP) : ∀ (xs : List Msg) (d : FtDoc), xs.length % 2 = 0 → ftRecord fp xs d ≠ .panic
  | [], _, _ => by simp [ftRecord]
  | [_], _, h => by simp at h
  | k :: v :: r, d, h => by
    have ih := fun d' => ftRecord_np fp r d' (by simp at h; omega)
    have := asStrMapOpt_np v
    unfold ftRecord
    repeat' split
    all_goals first | (simp; done) | skip
    all_goals simp_all

theorem ftRecords_np (fp : FP) (rs : List Msg) : ftRecords fp rs ≠ .panic := by
  unfold ftRecords
  apply mapR_np
  intro x _
  split
  · simp
  · exact ftRecord_np fp _ _ (by omega)

theorem ftTop_np {α} (recs : List Msg → Res (List α)) (hr : ∀ xs, recs xs ≠ .panic) :
    ∀ (xs : List Msg) (t : Int) (ds : List α), xs.length % 2 = 0 → ftTop recs xs t ds ≠ .panic
  | [], _, _, _ => by simp [ftTop]
  | [_], _, _, h => by simp at h
  | k :: v :: r, t, ds, h => by
    have ih := fun t' ds' => ftTop_np recs hr r t' ds' (by simp at h; omega)
    have := hr v.arr
    unfold ftTop
    repeat' split
    all_goals first | (simp; done) | skip
    all_goals simp_all

theorem ftDocsKS_np : ∀ (xs : List Msg), ftDocsKS xs ≠ .panic
  | [] => by simp [ftDocsKS]
  | [_] => by simp [ftDocsKS]
  | k :: s :: r => by
    have := ftDocsKS_np r
    unfold ftDocsKS; split <;> simp_all

theorem ftDocsKA_np : ∀ (xs : List Msg), ftDocsKA xs ≠ .panic
  | [] => by simp [ftDocsKA]
  | [_] => by simp [ftDocsKA]
  | k :: a :: r => by
    have := ftDocsKA_np r
    have := asStrMapOpt_np a
    unfold ftDocsKA; repeat' split
    all_goals simp_all

theorem ftDocsKSA_np : ∀ (xs : List Msg), ftDocsKSA xs ≠ .panic
  | [] => by simp [ftDocsKSA]
  | [_] => by simp [ftDocsKSA]
  | [_, _] => by simp [ftDocsKSA]
  | k :: s :: a :: r => by
    have := ftDocsKSA_np r
    have := asStrMapOpt_np a
    unfold ftDocsKSA; repeat' split
    all_goals simp_all

theorem ftDocs2_np (ws wa : Bool) (xs : List Msg) : ftDocs2 ws wa xs ≠ .panic := by
  unfold ftDocs2
  split
  · simp
  · exact ftDocsKS_np _
  · exact ftDocsKA_np _
  · exact ftDocsKSA_np _

theorem ftDetect_np (fp : FP) (vs : List Msg) : ftDetect fp vs ≠ .panic := by
  unfold ftDetect
  repeat' split
  all_goals first | (simp; done) | skip
  all_goals simp_all
  all_goals omega

theorem asFtSearch_np (fp : FP) (m : Msg) : asFtSearch fp m ≠ .panic := by
  unfold asFtSearch
  repeat' split
  all_goals first | (simp; done) | skip
  · exact ftTop_np _ (ftRecords_np fp) _ _ _ (by omega)
  · rename_i hx; exact absurd hx (ftDocs2_np _ _ _)
  · rename_i hx; exact absurd hx (ftDetect_np _ _)
  · simp_all

theorem aggRecord_np : ∀ (xs : List Msg) (d : Option (Log Bytes)), xs.length % 2 = 0 → aggRecord xs d ≠ .panic
  | [], _, _ => by simp [aggRecord]
  | [_], _, h => by simp at h
  | k :: v :: r, d, h => by
    have ih := fun d' => aggRecord_np r d' (by simp at h; omega)
    have := asStrMapOpt_np v
    unfold aggRecord
    repeat' split
    all_goals first | (simp; done) | skip
    all_goals simp_all

theorem aggRecords_np (rs : List Msg) : aggRecords rs ≠ .panic := by
  unfold aggRecords
  apply mapR_np
  intro x _
  split
  · simp
  · exact aggRecord_np _ _ (by omega)

theorem asFtAggregate_np (m : Msg) : asFtAggregate m ≠ .panic := by
  unfold asFtAggregate
  repeat' split
  all_goals first | (simp; done) | skip
  · exact ftTop_np _ aggRecords_np _ _ _ (by omega)
  · rename_i hx; exact absurd hx (mapR_np _ _ (fun x _ => asStrMapOpt_np x))
  · rename_i hx; unfold tail1 at hx; split at hx <;> simp_all
  · simp_all

theorem asFtAggregateCursor_np (m : Msg) : asFtAggregateCursor m ≠ .panic := by
  have h0 := asFtAggregate_np m
  unfold asFtAggregateCursor
  repeat' split
  all_goals first | (simp; done) | skip
  all_goals simp_all
  all_goals first | omega | (rename_i hx; exact absurd hx (asFtAggregate_np _))

/-! ### GEOSEARCH -/
theorem geoCoord_np (fp : FP) (info : List Msg) (i : Nat) (loc : GeoLoc) : geoCoord fp info i loc ≠ .panic := by
  unfold geoCoord
  repeat' split
  all_goals first | (simp; done) | skip
  all_goals simp_all [asFloat64V_np]
  all_goals omega

theorem geoHash_np (fp : FP) (info : List Msg) (i : Nat) (loc : GeoLoc) : geoHash fp info i loc ≠ .panic := by
  unfold geoHash
  repeat' split
  all_goals first | (simp; done) | (exact geoCoord_np _ _ _ _) | skip
  all_goals simp_all
  all_goals omega

theorem geoDist_np (fp : FP) (info : List Msg) (loc : GeoLoc) : geoDist fp info loc ≠ .panic := by
  unfold geoDist
  repeat' split
  all_goals first | (simp; done) | (exact geoHash_np _ _ _ _) | skip
  all_goals simp_all [utilFloat_np]
  all_goals omega

theorem geoElem_np (fp : FP) (v : Msg) : geoElem fp v ≠ .panic := by
  unfold geoElem
  repeat' split
  all_goals first | (simp; done) | (exact geoDist_np _ _ _) | skip
  all_goals simp_all
  all_goals omega

theorem asGeosearch_np (fp : FP) (m : Msg) : asGeosearch fp m ≠ .panic := by
  have := toArray_np m
  unfold asGeosearch; split <;> simp_all
  exact mapR_np _ _ (fun x _ => geoElem_np fp x)

/-! ### ToAny -/
theorem anyElem_np (r : Res AnyV) (h : r ≠ .panic) : anyElem r ≠ .panic := by
  unfold anyElem; repeat' split
  all_goals simp_all

theorem toAnyList_np (fp : FP) : ∀ (xs : List Msg), (∀ x ∈ xs, toAny fp x ≠ .panic) → toAnyList fp xs ≠ .panic
  | [], _ => by simp [toAnyList]
  | x :: r, h => by
    have := toAnyList_np fp r (fun y hy => h y (by simp [hy]))
    have := anyElem_np _ (h x (by simp))
    rw [toAnyList]; repeat' split
    all_goals simp_all

theorem toAnyPairs_np (fp : FP) : ∀ (xs : List Msg), (∀ x ∈ xs, toAny fp x ≠ .panic) → xs.length % 2 = 0 → toAnyPairs fp xs ≠ .panic
  | [], _, _ => by simp [toAnyPairs]
  | [_], _, h => by simp at h
  | k :: v :: r, h, he => by
    have := toAnyPairs_np fp r (fun y hy => h y (by simp [hy])) (by simp at he; omega)
    have := anyElem_np _ (h v (by simp))
    rw [toAnyPairs]; repeat' split
    all_goals simp_all

theorem toAny_np (fp : FP) (m : Msg) : toAny fp m ≠ .panic := by
  refine Msg.rec (motive_1 := fun m => toAny fp m ≠ .panic)
    (motive_2 := fun xs => ∀ x ∈ xs, toAny fp x ≠ .panic) ?mk ?nil ?cons m
  case nil => intro x hx; simp at hx
  case cons =>
    intro h t ih1 ih2 x hx
    simp at hx
    rcases hx with hx | hx
    · subst hx; exact ih1
    · exact ih2 x hx
  case mk =>
    intro t s i xs a ihx _
    have hl := toAnyList_np fp xs ihx
    have hp := toAnyPairs_np fp xs ihx
    have hu := utilFloat_np fp s
    rw [toAny]
    repeat' split
    all_goals first | (simp; done) | skip
    all_goals simp_all
    all_goals (rename_i hx; exact absurd hx (hp (by omega)))

/-! ### DecodeSliceOfJSON -/
theorem jsonElem_np (jp : JP) (v : Msg) : jsonElem jp v ≠ .panic := by
  have := decodeJSON_np v
  unfold jsonElem; repeat' split
  all_goals simp_all

theorem decodeSliceOfJSON_np (jp : JP) (e : Option String) (m : Msg) : decodeSliceOfJSON jp e m ≠ .panic := by
  have := wrap_np toArray e m (toArray_np m)
  unfold decodeSliceOfJSON; split <;> simp_all
  exact mapR_np _ _ (fun x _ => jsonElem_np jp x)

end Rv.Acc
