import Rv.Lemmas.RingWake
namespace Rv.Ring

/-- no lost wake-up on c1: a caller in the wait set of slot s is covered by a filled slot
    (whose completion will signal), by the reader being inside NextResultCh…FinishResult on
    s, or by an already woken (ready) caller for s -/
def Covered (σ : State) (s : Nat) : Prop :=
  (σ.slot s).mark ≠ 0 ∨ (∃ g, σ.rpc = .holding s g) ∨ σ.rpc = .signal s ∨ ∃ d, σ.pc d = .ready s

structure InvS (k : Nat) (σ : State) : Prop where
  lw1 : ∀ c s, σ.pc c = .waiting s → Covered σ s

theorem InvS.init (k : Nat) : InvS k (init k) := ⟨by simp [Ring.init]⟩

theorem Covered.take {σ : State} {s : Nat} (h : Covered σ s) (s0 : Nat) (b : Bool) :
    Covered (take σ s0 b) s := by
  rcases h with h | h | h | h
  · left; simp only [Ring.take, upd_apply]; split
    · simp
    · exact h
  · exact Or.inr (Or.inl h)
  · exact Or.inr (Or.inr (Or.inl h))
  · exact Or.inr (Or.inr (Or.inr h))

theorem InvS.step {k : Nat} {σ : State} (hi : Inv k σ) (h : InvS k σ) (l : Label)
    (he : enabled k l σ = true) : InvS k (apply k l σ) := by
  constructor
  cases l with
  | arrive =>
    have hidle : σ.pc σ.ncalls = .idle := hi.b.fresh _ (Nat.le_refl _)
    simp only [Ring.apply]
    intro c s; simp only [upd_apply]; split
    · intro hh; cases hh
    · intro hh
      rcases h.lw1 c s hh with t | t | t | ⟨d, t⟩
      · exact Or.inl t
      · exact Or.inr (Or.inl t)
      · exact Or.inr (Or.inr (Or.inl t))
      · refine Or.inr (Or.inr (Or.inr ⟨d, ?_⟩))
        have : d ≠ σ.ncalls := by intro e; subst e; rw [hidle] at t; cases t
        simp [upd_apply, this]; exact t
  | enter c =>
    simp only [Ring.apply]
    split
    · rename_i s hpc
      split
      · rename_i hm
        intro c' s'; simp only [upd_apply]
        by_cases e : c' = c
        · subst e; simp only [if_true]; intro hh; split at hh <;> cases hh
        · simp only [e, if_false]
          intro hh
          by_cases e2 : s' = s
          · subst e2; left; simp
          · rcases h.lw1 c' s' hh with t | t | t | ⟨d, t⟩
            · left; simp [upd_apply, e2]; exact t
            · exact Or.inr (Or.inl t)
            · exact Or.inr (Or.inr (Or.inl t))
            · refine Or.inr (Or.inr (Or.inr ⟨d, ?_⟩))
              have : d ≠ c := by
                intro e3; subst e3; rw [hpc] at t; injection t with t; exact e2 t.symm
              simp [upd_apply, this]; exact t
      · rename_i hm
        intro c' s'; simp only [upd_apply]
        by_cases e : c' = c
        · subst e; simp only [if_true]; intro hh; injection hh with hh; subst hh
          exact Or.inl hm
        · simp only [e, if_false]
          intro hh
          rcases h.lw1 c' s' hh with t | t | t | ⟨d, t⟩
          · exact Or.inl t
          · exact Or.inr (Or.inl t)
          · exact Or.inr (Or.inr (Or.inl t))
          · by_cases e3 : d = c
            · subst e3; rw [hpc] at t; injection t with t; subst t; exact Or.inl hm
            · refine Or.inr (Or.inr (Or.inr ⟨d, ?_⟩))
              simp [upd_apply, e3]; exact t
    · exact h.lw1
  | bcast c =>
    simp only [Ring.apply]
    split
    · rename_i s hpc
      intro c' s'; simp only [upd_apply]; split
      · intro hh; cases hh
      · intro hh
        rcases h.lw1 c' s' hh with t | t | t | ⟨d, t⟩
        · exact Or.inl t
        · exact Or.inr (Or.inl t)
        · exact Or.inr (Or.inr (Or.inl t))
        · refine Or.inr (Or.inr (Or.inr ⟨d, ?_⟩))
          have : d ≠ c := by intro e3; subst e3; rw [hpc] at t; cases t
          simp [upd_apply, this]; exact t
    · exact h.lw1
  | wTry =>
    simp only [Ring.apply]
    split
    · intro c s hh; exact (h.lw1 c s hh).take _ _
    · exact h.lw1
  | wWait =>
    simp only [Ring.apply]
    split
    · intro c s hh; exact (h.lw1 c s hh).take _ _
    · intro c s hh
      rcases h.lw1 c s hh with t | t | t | t
      · left; simp only [upd_apply]; split
        · rename_i e; subst e; exact t
        · exact t
      · exact Or.inr (Or.inl t)
      · exact Or.inr (Or.inr (Or.inl t))
      · exact Or.inr (Or.inr (Or.inr t))
  | wWake =>
    simp only [Ring.apply]
    split
    · rename_i s hw
      split
      · intro c s hh; exact (h.lw1 c s hh).take _ _
      · intro c s' hh
        rcases h.lw1 c s' hh with t | t | t | t
        · left; simp only [upd_apply]; split
          · rename_i e; subst e; exact t
          · exact t
        · exact Or.inr (Or.inl t)
        · exact Or.inr (Or.inr (Or.inl t))
        · exact Or.inr (Or.inr (Or.inr t))
    · exact h.lw1
  | rBegin =>
    simp only [Ring.apply]
    have hidle : σ.rpc = .idle := by simpa [enabled] using he
    split
    · intro c s hh
      rcases h.lw1 c s hh with t | ⟨g, t⟩ | t | t
      · by_cases e : s = slotOf k (σ.read2 + 1)
        · subst e; exact Or.inr (Or.inl ⟨_, rfl⟩)
        · left; simp [upd_apply, e]; exact t
      · rw [hidle] at t; cases t
      · rw [hidle] at t; cases t
      · exact Or.inr (Or.inr (Or.inr t))
    · intro c s hh
      rcases h.lw1 c s hh with t | ⟨g, t⟩ | t | t
      · exact Or.inl t
      · rw [hidle] at t; cases t
      · rw [hidle] at t; cases t
      · exact Or.inr (Or.inr (Or.inr t))
  | rDeliver c =>
    simp only [Ring.apply]
    split
    · rename_i s r hr
      simp only [enabled, hr] at he
      have hpc : σ.pc c = .filled s := by simpa using he
      intro c' s'; simp only [upd_apply]; split
      · intro hh; cases hh
      · intro hh
        rcases h.lw1 c' s' hh with t | ⟨g, t⟩ | t | ⟨d, t⟩
        · exact Or.inl t
        · rw [hr] at t; injection t with t1 t2; subst t1; exact Or.inr (Or.inl ⟨_, rfl⟩)
        · rw [hr] at t; cases t
        · refine Or.inr (Or.inr (Or.inr ⟨d, ?_⟩))
          have : d ≠ c := by intro e3; subst e3; rw [hpc] at t; cases t
          simp [upd_apply, this]; exact t
    · exact h.lw1
  | rUnlock =>
    simp only [Ring.apply]
    split
    · rename_i s g hr
      intro c s' hh
      rcases h.lw1 c s' hh with t | ⟨g', t⟩ | t | t
      · exact Or.inl t
      · rw [hr] at t; injection t with t1 t2; subst t1; exact Or.inr (Or.inr (Or.inl rfl))
      · rw [hr] at t; cases t
      · exact Or.inr (Or.inr (Or.inr t))
    · exact h.lw1
  | rSignal w =>
    simp only [Ring.apply]
    split
    · rename_i s hr
      simp only [enabled, hr] at he
      split
      · rename_i c
        have hpc : σ.pc c = .waiting s := by simpa using he
        intro c' s'; simp only [upd_apply]; split
        · intro hh; cases hh
        · rename_i e
          intro hh
          rcases h.lw1 c' s' hh with t | ⟨g', t⟩ | t | ⟨d, t⟩
          · exact Or.inl t
          · rw [hr] at t; cases t
          · rw [hr] at t; injection t with t; subst t
            exact Or.inr (Or.inr (Or.inr ⟨c, by simp⟩))
          · refine Or.inr (Or.inr (Or.inr ⟨d, ?_⟩))
            have : d ≠ c := by intro e3; subst e3; rw [hpc] at t; cases t
            simp [upd_apply, this]; exact t
      · have hnone : ∀ c, σ.pc c ≠ .waiting s := by
          intro c hc
          by_cases hlt : c < σ.ncalls
          · have := List.all_eq_true.1 he c (List.mem_range.2 hlt)
            simp [hc] at this
          · have := hi.b.fresh c (by omega); rw [this] at hc; cases hc
        intro c s' hh
        rcases h.lw1 c s' hh with t | ⟨g', t⟩ | t | t
        · exact Or.inl t
        · rw [hr] at t; cases t
        · rw [hr] at t; injection t with t; subst t; exact absurd hh (hnone c)
        · exact Or.inr (Or.inr (Or.inr t))
    · exact h.lw1

end Rv.Ring
