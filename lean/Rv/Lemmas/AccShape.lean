/-
Lemmas for C16: the accessors applied to shaped replies (Rv/Spec/Shapes.lean).
-/
import Rv.Lemmas.AccPanic
import Rv.Lemmas.RespBasics
import Rv.Spec.Shapes
namespace Rv.Acc
open Rv.Shapes

/-! ### fields of shaped messages -/
@[simp] theorem blob_typ (s : Bytes) : (blob s).typ = tBlob := rfl
@[simp] theorem blob_str (s : Bytes) : (blob s).str = s := rfl
@[simp] theorem blob_arr (s : Bytes) : (blob s).arr = [] := rfl
@[simp] theorem dbl_typ (s : Bytes) : (dbl s).typ = tFloat := rfl
@[simp] theorem dbl_str (s : Bytes) : (dbl s).str = s := rfl
@[simp] theorem dbl_arr (s : Bytes) : (dbl s).arr = [] := rfl
@[simp] theorem int_typ (i : Int) : (Shapes.int i).typ = tInt := rfl
@[simp] theorem int_str (i : Int) : (Shapes.int i).str = [] := rfl
@[simp] theorem int_int (i : Int) : (Shapes.int i).int = i := rfl
@[simp] theorem int_arr (i : Int) : (Shapes.int i).arr = [] := rfl
@[simp] theorem arr_typ (xs : List Msg) : (arr xs).typ = tArray := rfl
@[simp] theorem arr_str (xs : List Msg) : (arr xs).str = [] := rfl
@[simp] theorem arr_arr (xs : List Msg) : (arr xs).arr = xs := rfl
@[simp] theorem mp_typ (xs : List Msg) : (mp xs).typ = tMap := rfl
@[simp] theorem mp_str (xs : List Msg) : (mp xs).str = [] := rfl
@[simp] theorem mp_arr (xs : List Msg) : (mp xs).arr = xs := rfl

@[simp] theorem isString_blob (s : Bytes) : isString (blob s) := Or.inl rfl
@[simp] theorem isArray_arr (xs : List Msg) : isArray (arr xs) := Or.inl rfl
@[simp] theorem isMap_mp (xs : List Msg) : isMap (mp xs) := rfl
@[simp] theorem not_isArray_blob (s : Bytes) : ¬ isArray (blob s) := by simp [isArray, tBlob, tArray, tSet]
@[simp] theorem not_isArray_mp (xs : List Msg) : ¬ isArray (mp xs) := by simp [isArray, tMap, tArray, tSet]
@[simp] theorem not_isMap_arr (xs : List Msg) : ¬ isMap (arr xs) := by simp [isMap, tMap, tArray]
@[simp] theorem not_isString_arr (xs : List Msg) : ¬ isString (arr xs) := by simp [isString, tBlob, tSimple, tArray]
@[simp] theorem errOf_blob (s : Bytes) : errOf (blob s) = none := by simp [errOf, tBlob, tNull, tErr, tBlobErr]
@[simp] theorem errOf_arr (xs : List Msg) : errOf (arr xs) = none := by simp [errOf, tArray, tNull, tErr, tBlobErr]
@[simp] theorem errOf_mp (xs : List Msg) : errOf (mp xs) = none := by simp [errOf, tMap, tNull, tErr, tBlobErr]

@[simp] theorem toStr_blob (s : Bytes) : toStr (blob s) = .ok s := by simp [toStr]
@[simp] theorem toArray_arr (xs : List Msg) : toArray (arr xs) = .ok xs := by simp [toArray]

theorem mapR_map_ok {α β γ} (f : β → Res γ) (g : α → β) (h : α → γ) (xs : List α)
    (hf : ∀ x ∈ xs, f (g x) = .ok (h x)) : mapR f (xs.map g) = .ok (xs.map h) := by
  induction xs with
  | nil => rfl
  | cons x r ih =>
    have h1 := hf x (by simp)
    have h2 := ih (fun y hy => hf y (by simp [hy]))
    simp [mapR, h1, h2]

/-! ### field/value collections -/
@[simp] theorem flatKV_nil : flatKV [] = [] := rfl
@[simp] theorem flatKV_cons (kv : Bytes × Bytes) (r : List (Bytes × Bytes)) :
    flatKV (kv :: r) = blob kv.1 :: blob kv.2 :: flatKV r := rfl

theorem flatKV_length (kvs : List (Bytes × Bytes)) : (flatKV kvs).length = 2 * kvs.length := by
  induction kvs with
  | nil => rfl
  | cons kv r ih => simp [ih]; omega

theorem strPairs_flatKV (kvs : List (Bytes × Bytes)) : strPairs (flatKV kvs) = .ok kvs := by
  induction kvs with
  | nil => rfl
  | cons kv r ih => simp [strPairs, ih]

theorem asStrMap_flat (kvs : List (Bytes × Bytes)) : asStrMap (arr (flatKV kvs)) = .ok kvs := by
  simp [asStrMap, mapLike, flatKV_length, strPairs_flatKV]

theorem asStrMap_map (kvs : List (Bytes × Bytes)) : asStrMap (mp (flatKV kvs)) = .ok kvs := by
  simp [asStrMap, mapLike, flatKV_length, strPairs_flatKV]

/-! ### streams -/
theorem asXRangeEntry_entry (e : Entry) : asXRangeEntry (entry e) = .ok ⟨e.1, some e.2⟩ := by
  simp [asXRangeEntry, entry, idx, asStrMap_flat]

theorem asXRange_xrange (es : List Entry) : asXRange (xrange es) = .ok (xrangeExpect es) := by
  simp only [asXRange, xrange, toArray_arr, xrangeExpect]
  exact mapR_map_ok _ _ _ _ (fun e _ => asXRangeEntry_entry e)

theorem fvLoop_shift (a b : Msg) (fa : List Msg) : ∀ (n i : Nat), fvLoop (a :: b :: fa) n (i + 1) = fvLoop fa n i
  | 0, _ => rfl
  | n + 1, i => by
    have ih := fvLoop_shift a b fa n (i + 1)
    have e1 : (i + 1) * 2 = i * 2 + 2 := by omega
    have e2 : (i + 1) * 2 + 1 = i * 2 + 1 + 2 := by omega
    simp only [fvLoop, ih, idx, e1, e2, List.getElem?_cons_succ]

theorem fvLoop_flatKV (kvs : List (Bytes × Bytes)) : fvLoop (flatKV kvs) kvs.length 0 = .ok kvs := by
  induction kvs with
  | nil => rfl
  | cons kv r ih =>
    simp only [flatKV_cons, List.length_cons, fvLoop, idx]
    simp [fvLoop_shift, ih]

theorem asXRangeSlice_entry (e : Entry) : asXRangeSlice (entry e) = .ok ⟨e.1, e.2⟩ := by
  simp [asXRangeSlice, entry, idx, flatKV_length, fvLoop_flatKV]

theorem asXRangeSlices_xrange (es : List Entry) : asXRangeSlices (xrange es) = .ok (xrangeSlicesExpect es) := by
  simp only [asXRangeSlices, xrange, toArray_arr, xrangeSlicesExpect]
  exact mapR_map_ok _ _ _ _ (fun e _ => asXRangeSlice_entry e)

theorem xreadWith_r2 {α} (f : Msg → Res α) (g : List Entry → α) (hf : ∀ es, f (xrange es) = .ok (g es))
    (d : List (Bytes × List Entry)) :
    xreadWith f (xread .r2 d) = .ok (d.map fun ke => (ke.1, g ke.2)) := by
  simp only [xreadWith, xread, errOf_arr, not_isMap_arr, isArray_arr, if_true, if_false, arr_arr]
  exact mapR_map_ok _ _ _ _ (fun ke _ => by simp [xreadElem, idx, hf])

theorem xreadPairs_flat {α} (f : Msg → Res α) (g : List Entry → α) (hf : ∀ es, f (xrange es) = .ok (g es))
    (d : List (Bytes × List Entry)) :
    xreadPairs f (d.flatMap fun ke => [blob ke.1, xrange ke.2]) = .ok (d.map fun ke => (ke.1, g ke.2)) := by
  induction d with
  | nil => rfl
  | cons ke r ih => simp [xreadPairs, hf, ih]

theorem xreadWith_r3 {α} (f : Msg → Res α) (g : List Entry → α) (hf : ∀ es, f (xrange es) = .ok (g es))
    (d : List (Bytes × List Entry)) :
    xreadWith f (xread .r3 d) = .ok (d.map fun ke => (ke.1, g ke.2)) := by
  have hlen : (d.flatMap fun ke => [blob ke.1, xrange ke.2]).length % 2 = 0 := by
    induction d with
    | nil => rfl
    | cons ke r ih => simp only [List.flatMap_cons, List.length_append, List.length_cons, List.length_nil]; omega
  simp only [xreadWith, xread, errOf_mp, isMap_mp, if_true, mp_arr, hlen]
  simp [xreadPairs_flat f g hf]

/-! ### scores -/
theorem toZScore_pair (fp : FP) (p : Proto) (m s : Bytes) (h : fp.ok s = true) :
    toZScore fp [blob m, num p s] = .ok ⟨m, .str s⟩ := by
  cases p <;> simp [toZScore, idx, num, asFloat64, utilFloat, h, tBlob, tFloat]

theorem slice2_shift {α} (a b : α) (xs : List α) (i : Nat) : slice2 (a :: b :: xs) ((i + 1) * 2) = slice2 xs (i * 2) := by
  have e : (i + 1) * 2 = i * 2 + 2 := by omega
  simp only [slice2, e, List.length_cons, List.drop_succ_cons]
  split <;> split <;> first | rfl | omega

theorem flatScores_shift (fp : FP) (a b : Msg) (xs : List Msg) : ∀ (n i : Nat),
    flatScores fp (a :: b :: xs) n (i + 1) = flatScores fp xs n i
  | 0, _ => rfl
  | n + 1, i => by
    simp only [flatScores, slice2_shift, flatScores_shift fp a b xs n (i + 1)]

theorem flatScores_flat (fp : FP) (d : Scores) (h : ∀ ms ∈ d, fp.ok ms.2 = true) :
    flatScores fp (d.flatMap fun ms => [blob ms.1, blob ms.2]) d.length 0 = .ok (zscoresExpect d) := by
  induction d with
  | nil => rfl
  | cons ms r ih =>
    have h1 := h ms (by simp)
    have h2 := ih (fun x hx => h x (by simp [hx]))
    have hs : slice2 (blob ms.1 :: blob ms.2 :: (r.flatMap fun ms => [blob ms.1, blob ms.2])) (0 * 2)
        = .ok [blob ms.1, blob ms.2] := by simp [slice2]
    simp only [List.flatMap_cons, List.cons_append, List.nil_append, List.length_cons, flatScores, hs]
    have := toZScore_pair fp .r2 ms.1 ms.2 h1
    simp only [num] at this
    simp [this, flatScores_shift, h2, zscoresExpect]

theorem flat_length (d : Scores) : (d.flatMap fun ms => [blob ms.1, blob ms.2]).length = 2 * d.length := by
  induction d with
  | nil => rfl
  | cons ms r ih => simp only [List.flatMap_cons, List.length_append, List.length_cons, List.length_nil, ih]; omega

theorem asZScores_r2 (fp : FP) (d : Scores) (h : ∀ ms ∈ d, fp.ok ms.2 = true) :
    asZScores fp (zscores .r2 d) = .ok (zscoresExpect d) := by
  have hl := flat_length d
  have hf := flatScores_flat fp d h
  have hdiv : (2 * d.length) / 2 = d.length := by omega
  cases d with
  | nil => simp [asZScores, zscores, flatScores, zscoresExpect]
  | cons ms r =>
    simp only [asZScores, zscores, toArray_arr]
    simp only [hl, hdiv]
    simp only [List.flatMap_cons, List.cons_append, List.nil_append, List.length_cons] at hf ⊢
    simp [idx, hf]

theorem asZScores_nested (fp : FP) (p : Proto) (d : Scores) (h : ∀ ms ∈ d, fp.ok ms.2 = true) :
    asZScores fp (arr (d.map fun ms => arr [blob ms.1, num p ms.2])) = .ok (zscoresExpect d) := by
  cases d with
  | nil => simp [asZScores, flatScores, zscoresExpect]
  | cons ms r =>
    simp only [asZScores, toArray_arr, List.map_cons, List.length_cons]
    simp only [idx, List.getElem?_cons_zero, isArray_arr, if_true, Nat.zero_lt_succ]
    rw [← List.map_cons (f := fun ms : Bytes × Bytes => arr [blob ms.1, num p ms.2])]
    exact mapR_map_ok _ _ _ _ (fun x hx => by simp [toZScore_pair fp p x.1 x.2 (h x hx)])

/-! ### decimal texts -/
open Rv.RespL Rv.Spec in
theorem digitVal_digit (d : Nat) (h : d < 10) : digitVal (UInt8.ofNat (48 + d)) = some d := by
  have : d = 0 ∨ d = 1 ∨ d = 2 ∨ d = 3 ∨ d = 4 ∨ d = 5 ∨ d = 6 ∨ d = 7 ∨ d = 8 ∨ d = 9 := by omega
  rcases this with h|h|h|h|h|h|h|h|h|h <;> subst h <;> decide

theorem digit_ne_us (d : Nat) (h : d < 10) : UInt8.ofNat (48 + d) ≠ 95 ∧ UInt8.ofNat (48 + d) ≠ 43 ∧ UInt8.ofNat (48 + d) ≠ 45 := by
  have : d = 0 ∨ d = 1 ∨ d = 2 ∨ d = 3 ∨ d = 4 ∨ d = 5 ∨ d = 6 ∨ d = 7 ∨ d = 8 ∨ d = 9 := by omega
  rcases this with h|h|h|h|h|h|h|h|h|h <;> subst h <;> decide

open Rv.Spec in
theorem uintLoop_digits (b0 : Bool) (n : Nat) (hn : n < 18446744073709551616) (cs : Bytes) (u : Bool) :
    uintLoop 10 b0 (digits n ++ cs) 0 u = uintLoop 10 b0 cs n u := by
  induction n using digits.induct generalizing cs with
  | case1 n h =>
    rw [digits]; simp only [h, dite_true]
    have hd := digitVal_digit n h
    obtain ⟨hus, _, _⟩ := digit_ne_us n h
    have : ¬ (n ≥ 10) := by omega
    have h2 : ¬ (0 * 10 + n ≥ 18446744073709551616) := by omega
    generalize UInt8.ofNat (48 + n) = c at hd hus
    simp only [List.cons_append, List.nil_append, uintLoop]
    simp [hus, hd, this]
    intro; omega
  | case2 n h ih =>
    rw [digits]; simp only [h, dite_false]
    rw [List.append_assoc, ih (by omega)]
    have hd := digitVal_digit (n % 10) (Nat.mod_lt _ (by decide))
    obtain ⟨hus, _, _⟩ := digit_ne_us (n % 10) (Nat.mod_lt _ (by decide))
    have h1 : ¬ (n % 10 ≥ 10) := by omega
    have h2 : ¬ (n / 10 * 10 + n % 10 ≥ 18446744073709551616) := by omega
    have h3 : n / 10 * 10 + n % 10 = n := by omega
    generalize UInt8.ofNat (48 + n % 10) = c at hd hus
    simp only [List.cons_append, List.nil_append, uintLoop]
    simp [hus, hd, h1, h3]
    intro; omega

open Rv.Spec in
theorem parseUint_digits (n : Nat) (hn : n < 18446744073709551616) : parseUint (digits n) 10 = .ok n := by
  have hne := Rv.RespL.digits_ne_nil n
  have := uintLoop_digits false n hn [] false
  simp only [List.append_nil] at this
  simp [parseUint, uintCfg, hne, this, uintLoop]

open Rv.Spec in
theorem digits_head_not_sign (n : Nat) : ∃ d r, digits n = d :: r ∧ d ≠ 43 ∧ d ≠ 45 := by
  obtain ⟨d, r, h, hd⟩ := Rv.RespL.digits_head n
  refine ⟨d, r, h, ?_, ?_⟩ <;> intro e <;> subst e <;> simp [Rv.RespL.isDigit] at hd

open Rv.Spec in
theorem parseInt_decI (v : Int) (h1 : -9223372036854775808 ≤ v) (h2 : v < 9223372036854775808) :
    parseInt (decI v) 10 = .ok v := by
  unfold decI
  by_cases hv : v < 0
  · have hn : (-v).toNat < 18446744073709551616 := by omega
    have hp := parseUint_digits (-v).toNat hn
    have hne : (45 :: digits (-v).toNat) ≠ [] := by simp
    simp only [hv, if_true, parseInt, signSplit, intOfUint, hne, if_false, hp]
    have a1 : ¬ ((-v).toNat > 9223372036854775808) := by omega
    simp [a1]; omega
  · obtain ⟨d, r, hd, hd1, hd2⟩ := digits_head_not_sign v.toNat
    have hn : v.toNat < 18446744073709551616 := by omega
    have hp := parseUint_digits v.toNat hn
    have hne := Rv.RespL.digits_ne_nil v.toNat
    simp only [hv, if_false, parseInt, hne]
    rw [hd] at hp ⊢
    have hss : signSplit (d :: r) = (false, d :: r) := by
      unfold signSplit; split <;> simp_all
    rw [hss]
    have a1 : ¬ (v.toNat ≥ 9223372036854775808) := by omega
    simp [intOfUint, hp, a1]; omega

/-! ### decimal texts through the base-0 parser (AsIntMap) -/
open Rv.Spec in
theorem digits_head_nonzero (n : Nat) (h1 : 1 ≤ n) : ∃ d r, digits n = d :: r ∧ d ≠ 48 ∧ d ≠ 43 ∧ d ≠ 45 := by
  induction n using digits.induct with
  | case1 n h =>
    rw [digits]; simp only [h, dite_true]
    refine ⟨_, [], rfl, ?_⟩
    have : n = 1 ∨ n = 2 ∨ n = 3 ∨ n = 4 ∨ n = 5 ∨ n = 6 ∨ n = 7 ∨ n = 8 ∨ n = 9 := by omega
    rcases this with h|h|h|h|h|h|h|h|h <;> subst h <;> decide
  | case2 n h ih =>
    obtain ⟨d, r, hd, hne⟩ := ih (by omega)
    rw [digits]; simp only [h, dite_false]
    exact ⟨d, r ++ [UInt8.ofNat (48 + n % 10)], by rw [hd]; rfl, hne⟩

open Rv.Spec in
theorem parseUint0_digits (n : Nat) (hn : n < 18446744073709551616) : parseUint (digits n) 0 = .ok n := by
  by_cases h0 : n = 0
  · subst h0
    have : digits 0 = [48] := by rw [digits]; simp
    rw [this]; rfl
  · obtain ⟨d, r, hd, hd48, _, _⟩ := digits_head_nonzero n (by omega)
    have hl := uintLoop_digits true n hn [] false
    simp only [List.append_nil] at hl
    have hus : ∀ c ∈ digits n, c ≠ 95 := by
      intro c hc e
      have := Rv.RespL.digits_all n c hc
      subst e; simp [Rv.RespL.isDigit] at this
    rw [hd] at hl ⊢
    have hcfg : uintCfg (d :: r) 0 = (10, d :: r, true) := by
      unfold uintCfg
      simp only [ne_eq, not_true_eq_false, if_false]
      split
      · rename_i heq; simp at heq; exact absurd heq.1 hd48
      · rename_i heq; simp at heq; exact absurd heq.1 hd48
      · rfl
    simp [parseUint, hcfg, hl, uintLoop]

open Rv.Spec in
theorem parseInt0_decI (v : Int) (h1 : -9223372036854775808 ≤ v) (h2 : v < 9223372036854775808) :
    parseInt (decI v) 0 = .ok v := by
  unfold decI
  by_cases hv : v < 0
  · have hn : (-v).toNat < 18446744073709551616 := by omega
    have hp := parseUint0_digits (-v).toNat hn
    have hne : (45 :: digits (-v).toNat) ≠ [] := by simp
    simp only [hv, if_true, parseInt, signSplit, intOfUint, hne, if_false, hp]
    have a1 : ¬ ((-v).toNat > 9223372036854775808) := by omega
    simp [a1]; omega
  · obtain ⟨d, r, hd, hd1, hd2⟩ := digits_head_not_sign v.toNat
    have hn : v.toNat < 18446744073709551616 := by omega
    have hp := parseUint0_digits v.toNat hn
    have hne := Rv.RespL.digits_ne_nil v.toNat
    simp only [hv, if_false, parseInt, hne]
    rw [hd] at hp ⊢
    have hss : signSplit (d :: r) = (false, d :: r) := by
      unfold signSplit; split <;> simp_all
    rw [hss]
    have a1 : ¬ (v.toNat ≥ 9223372036854775808) := by omega
    simp [intOfUint, hp, a1]; omega

/-! ### FT.SEARCH -/
theorem asStrMapOpt_flat (kvs : List (Bytes × Bytes)) : asStrMapOpt (arr (flatKV kvs)) = .ok (some kvs) := by
  simp [asStrMapOpt, asStrMap_flat]
theorem asStrMapOpt_map (kvs : List (Bytes × Bytes)) : asStrMapOpt (mp (flatKV kvs)) = .ok (some kvs) := by
  simp [asStrMapOpt, asStrMap_map]

theorem ftRecord_doc3 (fp : FP) (ws wa : Bool) (d : SDoc) :
    (ftDoc3 ws wa d).arr.length % 2 = 0 ∧ ftRecord fp (ftDoc3 ws wa d).arr FtDoc.zero = .ok (ftDocExpect ws wa d) := by
  cases ws <;> cases wa <;>
    simp [ftDoc3, ftRecord, FtDoc.zero, ftDocExpect, asStrMapOpt_map, sId, sExtra, sScore, sValues]

theorem ftRecords_docs3 (fp : FP) (ws wa : Bool) (ds : List SDoc) :
    ftRecords fp (ds.map (ftDoc3 ws wa)) = .ok (ds.map (ftDocExpect ws wa)) := by
  unfold ftRecords
  apply mapR_map_ok
  intro d _
  have := ftRecord_doc3 fp ws wa d
  simp [this.1, this.2]

theorem asFtSearch_r3 (fp : FP) (ws wa : Bool) (total : Int) (ds : List SDoc) :
    asFtSearch fp (ftSearch .r3 ws wa total ds) = .ok (ftSearchExpect ws wa total ds) := by
  simp [asFtSearch, ftSearch, ftTop, ftRecords_docs3, ftSearchExpect, sAttributes, sWarning, sTotal, sFormat,
    sResults, sError]

theorem ftDocsK_flat (ds : List SDoc) :
    ftDocsK (ds.flatMap (ftDoc2 false false)) = ds.map (ftDocExpect false false) := by
  induction ds with
  | nil => rfl
  | cons d r ih => simp [ftDoc2, ftDocsK, ih, ftDocExpect]

theorem ftDocsKS_flat (ds : List SDoc) :
    ftDocsKS (ds.flatMap (ftDoc2 true false)) = .ok (ds.map (ftDocExpect true false)) := by
  induction ds with
  | nil => rfl
  | cons d r ih => simp [ftDoc2, ftDocsKS, ih, ftDocExpect]

theorem ftDocsKA_flat (ds : List SDoc) :
    ftDocsKA (ds.flatMap (ftDoc2 false true)) = .ok (ds.map (ftDocExpect false true)) := by
  induction ds with
  | nil => rfl
  | cons d r ih => simp [ftDoc2, ftDocsKA, ih, ftDocExpect, asStrMapOpt_flat]

theorem ftDocsKSA_flat (ds : List SDoc) :
    ftDocsKSA (ds.flatMap (ftDoc2 true true)) = .ok (ds.map (ftDocExpect true true)) := by
  induction ds with
  | nil => rfl
  | cons d r ih => simp [ftDoc2, ftDocsKSA, ih, ftDocExpect, asStrMapOpt_flat]

theorem ftDocs2_flat (ws wa : Bool) (ds : List SDoc) :
    ftDocs2 ws wa (ds.flatMap (ftDoc2 ws wa)) = .ok (ds.map (ftDocExpect ws wa)) := by
  cases ws <;> cases wa <;> simp [ftDocs2, ftDocsK_flat, ftDocsKS_flat, ftDocsKA_flat, ftDocsKSA_flat]

/-- under the precondition the detection finds the flags the reply was built with (for an
    empty result any flags parse the same) -/
theorem ftDetect_faithful (fp : FP) (ws wa : Bool) (total : Int) (ds : List SDoc)
    (h : ftFaithful2 fp ws wa ds) (hne : ds ≠ []) :
    ftDetect fp (Shapes.int total :: ds.flatMap (ftDoc2 ws wa)) = .ok (ws, wa) := by
  cases ws <;> cases wa
  · -- NOCONTENT, no scores
    match ds, h, hne with
    | [d], _, _ => simp [ftDetect, ftDoc2]
    | [d, d2], h, _ =>
      simp only [ftFaithful2] at h
      obtain ⟨h1, h2⟩ := h
      have h3 : (!fp.ok d.key && fp.ok d2.key) = false := by
        cases a : fp.ok d.key <;> cases b : fp.ok d2.key <;> simp_all
      simp [ftDetect, ftDoc2, idx, h1, h3]
    | d :: d2 :: d3 :: r, h, _ =>
      simp only [ftFaithful2] at h
      obtain ⟨h1, h2, h4⟩ := h
      have h3 : (!fp.ok d.key && fp.ok d2.key) = false := by
        cases a : fp.ok d.key <;> cases b : fp.ok d2.key <;> simp_all
      simp [ftDetect, ftDoc2, idx, h1, h3, h4]
  · -- content, no scores
    match ds, hne with
    | [d], _ => simp [ftDetect, ftDoc2, idx]
    | d :: d2 :: r, _ =>
      by_cases hk : d2.key = [] <;> simp [ftDetect, ftDoc2, idx, hk]
  · -- WITHSCORES NOCONTENT
    match ds, h, hne with
    | [d], h, _ =>
      simp only [ftFaithful2] at h
      obtain ⟨h1, h2, h3⟩ := h
      simp [ftDetect, ftDoc2, idx, h1, h2, h3]
    | d :: d2 :: r, h, _ =>
      simp only [ftFaithful2] at h
      obtain ⟨h1, h2, h3, h4⟩ := h
      simp [ftDetect, ftDoc2, idx, h1, h2, h3, h4]
  · -- WITHSCORES and content
    match ds, h, hne with
    | d :: r, h, _ =>
      simp only [ftFaithful2] at h
      obtain ⟨h1, h2, h3⟩ := h
      simp [ftDetect, ftDoc2, idx, h1, h2, h3]

theorem asFtSearch_r2 (fp : FP) (ws wa : Bool) (total : Int) (ds : List SDoc) (h : ftFaithful2 fp ws wa ds) :
    asFtSearch fp (ftSearch .r2 ws wa total ds) = .ok (ftSearchExpect ws wa total ds) := by
  by_cases hne : ds = []
  · subst hne
    simp [asFtSearch, ftSearch, idx, ftDetect, ftDocs2, ftDocsK, ftSearchExpect]
  · have hd := ftDetect_faithful fp ws wa total ds h hne
    have hl := ftDocs2_flat ws wa ds
    simp [asFtSearch, ftSearch, idx, hd, hl, ftSearchExpect]

/-! ### FT.AGGREGATE -/
theorem aggRecords_rows (rows : List Row) :
    aggRecords (rows.map fun r => mp [blob sExtra, mp (flatKV r), blob sValues, arr []]) = .ok (rows.map some) := by
  unfold aggRecords
  apply mapR_map_ok
  intro r _
  simp [aggRecord, asStrMapOpt_map, sExtra, sValues]

theorem asFtAggregate_shape (p : Proto) (total : Int) (rows : List Row) :
    asFtAggregate (ftAgg p total rows) = .ok (ftAggExpect total rows) := by
  cases p
  · have : mapR asStrMapOpt (rows.map fun r => arr (flatKV r)) = .ok (rows.map some) :=
      mapR_map_ok _ _ _ _ (fun r _ => asStrMapOpt_flat r)
    simp [asFtAggregate, ftAgg, idx, tail1, this, ftAggExpect]
  · simp [asFtAggregate, ftAgg, ftTop, aggRecords_rows, ftAggExpect, sAttributes, sWarning, sTotal, sFormat,
      sResults, sError]

theorem asFtAggregateCursor_shape (p : Proto) (cursor total : Int) (rows : List Row) :
    asFtAggregateCursor (ftAggCursor p cursor total rows) = .ok (cursor, total, rows.map some) := by
  have h := asFtAggregate_shape p total rows
  have ht : isArray (ftAgg p total rows) ∨ isMap (ftAgg p total rows) := by
    cases p
    · exact Or.inl (isArray_arr _)
    · exact Or.inr (isMap_mp _)
  simp [asFtAggregateCursor, ftAggCursor, idx, ht, h, ftAggExpect]

/-! ### GEOSEARCH -/
theorem geoElem_loc (fp : FP) (p : Proto) (wd wh wc : Bool) (l : Loc)
    (hd : wd = true → l.dist ≠ [] ∧ fp.ok l.dist = true)
    (hc : wc = true → fp.ok l.lon = true ∧ fp.ok l.lat = true) :
    geoElem fp (geoLoc p wd wh wc l) = .ok (geoExpect wd wh wc l) := by
  cases p <;> cases wd <;> cases wh <;> cases wc <;>
    simp_all [geoElem, geoLoc, geoDist, geoHash, geoCoord, idx, num, utilFloat, utilFloatV, asFloat64V, geoExpect,
      hasArray, isAggTyp, tBlob, tFloat, tInt, tArray, tMap, tSet, tPush, tAttr, isString, tSimple]

end Rv.Acc
