/-
Lemmas about the refill walk, the Go-map writes and the position enumeration of
Rv/Model/MGetCache.lean (used by Rv/Props/C11.lean). Core Lean only.
-/
import Rv.Model.MGetCache
namespace Rv.MGetCache
open Rv.MGetCache.Spec

theorem fillSpec_nil {σ} (p : σ → Bool) (ss : List σ) : fillSpec p ss [] = ss := by
  cases ss <;> simp [fillSpec]

theorem refill_length {σ} (p : σ → Bool) (ss rs : List σ) : (refill p ss rs).length = ss.length := by
  fun_induction refill p ss rs <;> simp_all

theorem refill_eq_fillSpec' {σ} (p : σ → Bool) (ss rs : List σ) (h : ∀ r ∈ rs, p r = false) :
    refill p ss rs = fillSpec p ss rs := by
  fun_induction refill p ss rs with
  | case1 => simp [fillSpec]
  | case2 => simp [fillSpec]
  | case3 s ss r rs hs ih =>
    have hr : p r = false := h r (by simp)
    rw [ih (fun x hx => h x (by simp [hx]))]
    simp only [fillSpec, hs, if_true]
    cases rs with
    | nil => simp [fillSpec, fillSpec_nil]
    | cons r' rs' => simp [fillSpec, hr]
  | case4 s ss r rs hs ih =>
    rw [ih h]; simp [fillSpec, hs]

theorem refill_keeps' {σ} (p : σ → Bool) (ss rs : List σ) (i : Nat) (x : σ) (hx : ss[i]? = some x)
    (hne : p x = false) : (refill p ss rs)[i]? = some x := by
  fun_induction refill p ss rs generalizing i with
  | case1 => simp at hx
  | case2 => exact hx
  | case3 s ss r rs hs ih =>
    cases i with
    | zero => simp at hx; subst hx; simp [hne] at hs
    | succ j => exact ih (j+1) (by simpa using hx)
  | case4 s ss r rs hs ih =>
    cases i with
    | zero => simpa using hx
    | succ j => simpa using ih j (by simpa using hx)

theorem mem_enum {α} (l : List α) (i : Nat) (x : α) : (i, x) ∈ enum l ↔ l[i]? = some x := by
  simp only [enum, List.mem_map, Prod.exists, Prod.mk.injEq, List.mem_zipIdx_iff_getElem?]
  constructor
  · rintro ⟨a, b, h, rfl, rfl⟩; exact h
  · intro h; exact ⟨x, i, h, rfl, rfl⟩

theorem setAll_length {σ} (ord : List (Nat × σ)) (vals : List σ) : (setAll ord vals).length = vals.length := by
  induction ord generalizing vals with
  | nil => rfl
  | cons p rest ih => obtain ⟨i, x⟩ := p; simp [setAll, ih]

theorem setAll_other {σ} (ord : List (Nat × σ)) (vals : List σ) (i : Nat) (h : ∀ x, (i, x) ∉ ord) :
    (setAll ord vals)[i]? = vals[i]? := by
  induction ord generalizing vals with
  | nil => rfl
  | cons p rest ih =>
    obtain ⟨j, y⟩ := p
    have hne : j ≠ i := by intro hji; subst hji; exact h y (by simp)
    simp only [setAll]
    rw [ih _ (fun x hx => h x (by simp [hx]))]
    simp [hne]

theorem setAll_mem {σ} (ord : List (Nat × σ)) (vals : List σ) (i : Nat) (x : σ)
    (hfun : ∀ a b, (i, a) ∈ ord → (i, b) ∈ ord → a = b) (hmem : (i, x) ∈ ord) (hi : i < vals.length) :
    (setAll ord vals)[i]? = some x := by
  induction ord generalizing vals with
  | nil => simp at hmem
  | cons p rest ih =>
    obtain ⟨j, y⟩ := p
    simp only [setAll]
    by_cases hr : (i, x) ∈ rest
    · exact ih _ (fun a b ha hb => hfun a b (by simp [ha]) (by simp [hb])) hr (by simpa using hi)
    · have hhead : j = i ∧ y = x := by
        simp at hmem; rcases hmem with h | h
        · exact ⟨h.1.symm, h.2.symm⟩
        · exact absurd h hr
      obtain ⟨rfl, rfl⟩ := hhead
      rw [setAll_other]
      · simp [hi]
      · intro z hz
        have : z = y := hfun z y (by simp [hz]) (by simp)
        subst this; exact hr hz

/-! ### the `entries` map and the waits -/

theorem mem_entries (cls : List Cls) (i : Nat) (w : Res) :
    (i, w) ∈ entries cls ↔ cls[i]? = some (.pending w) := by
  simp only [entries, List.mem_filterMap]
  constructor
  · rintro ⟨⟨j, c⟩, hm, hc⟩
    rw [mem_enum] at hm
    cases c <;> simp at hc
    obtain ⟨rfl, rfl⟩ := hc; exact hm
  · intro h; exact ⟨(i, .pending w), (mem_enum _ _ _).2 h, rfl⟩

/-- what a slot holds after the waits -/
def after : Cls → Res
  | .hit v => .ofMsg v
  | .pending w => w
  | .miss => .empty

/-- writing the waiters' results over `base` (any iteration order of the `entries` map) -/
theorem setAll_entries {σ} (cls : List Cls) (ord : List (Nat × Res)) (f : Res → σ) (base : Cls → σ)
    (hord : ∀ p, p ∈ ord ↔ p ∈ entries cls) :
    setAll (ord.map fun p => (p.1, f p.2)) (cls.map base)
      = cls.map fun c => match c with
          | .pending w => f w
          | c => base c := by
  apply List.ext_getElem?
  intro i
  cases hc : cls[i]? with
  | none =>
    have hlen : cls.length ≤ i := by simpa using hc
    rw [List.getElem?_eq_none (by simpa [setAll_length] using hlen)]
    simp [hc]
  | some c =>
    have hi : i < cls.length := by
      rcases Nat.lt_or_ge i cls.length with h | h
      · exact h
      · rw [List.getElem?_eq_none h] at hc; cases hc
    have hnot : ∀ c, cls[i]? = some c → (∀ w, c ≠ .pending w) →
        ∀ x, (i, x) ∉ (ord.map fun p => (p.1, f p.2)) := by
      intro c hc hne x hx
      simp only [List.mem_map] at hx
      obtain ⟨⟨i1, w1⟩, h1, heq1⟩ := hx
      simp at heq1; obtain ⟨rfl, rfl⟩ := heq1
      have := (mem_entries _ _ _).1 ((hord _).1 h1)
      rw [hc] at this; exact hne w1 (by simpa using this)
    cases c with
    | pending w =>
      rw [setAll_mem (x := f w)]
      · simp [hc]
      · intro a b ha hb
        simp only [List.mem_map] at ha hb
        obtain ⟨⟨i1, w1⟩, h1, heq1⟩ := ha
        obtain ⟨⟨i2, w2⟩, h2, heq2⟩ := hb
        simp at heq1 heq2
        obtain ⟨rfl, rfl⟩ := heq1
        obtain ⟨rfl, rfl⟩ := heq2
        have e1 := (mem_entries _ _ _).1 ((hord _).1 h1)
        have e2 := (mem_entries _ _ _).1 ((hord _).1 h2)
        rw [e1] at e2; simp at e2; rw [e2]
      · simp only [List.mem_map]
        exact ⟨(i, w), (hord _).2 ((mem_entries _ _ _).2 hc), rfl⟩
      · simpa using hi
    | hit v =>
      rw [setAll_other _ _ _ (hnot _ hc (by intro w h; cases h))]
      simp [hc]
    | miss =>
      rw [setAll_other _ _ _ (hnot _ hc (by intro w h; cases h))]
      simp [hc]

theorem waitAll_ok (ord : List (Nat × Res)) (vals : List (Option Msg))
    (h : ∀ p ∈ ord, p.2.err = none) :
    waitAll ord vals = .ok (setAll (ord.map fun p => (p.1, p.2.val)) vals) := by
  induction ord generalizing vals with
  | nil => rfl
  | cons p rest ih =>
    obtain ⟨i, v, e⟩ := p
    have : e = none := h (i, ⟨v, e⟩) (by simp)
    subst this
    simp only [waitAll, List.map_cons, setAll]
    exact ih _ (fun p hp => h p (by simp [hp]))

theorem waitAll_error (ord : List (Nat × Res)) (vals : List (Option Msg))
    (h : ∃ p ∈ ord, p.2.err ≠ none) :
    ∃ i v e, (i, (⟨v, some e⟩ : Res)) ∈ ord ∧ waitAll ord vals = .error e := by
  induction ord generalizing vals with
  | nil => simp at h
  | cons p rest ih =>
    obtain ⟨i, v, e⟩ := p
    cases e with
    | some e => exact ⟨i, v, e, by simp, rfl⟩
    | none =>
      have h' : ∃ p ∈ rest, p.2.err ≠ none := by
        obtain ⟨q, hq, hne⟩ := h
        simp at hq; rcases hq with rfl | hq
        · simp at hne
        · exact ⟨q, hq, hne⟩
      obtain ⟨i', v', e', hm, he⟩ := ih (vals.set i v) h'
      exact ⟨i', v', e', by simp [hm], by simpa [waitAll] using he⟩

/-- `doCacheMGet`: after the waits every slot holds its cache value -/
theorem waits_after (cls : List Cls) (ord : List (Nat × Res))
    (hord : ∀ p, p ∈ ord ↔ p ∈ entries cls)
    (hok : ∀ (i : Nat) w, cls[i]? = some (Cls.pending w) → w.err = none) :
    waitAll ord (cls.map mBase) = .ok (cls.map fun c => (after c).val) := by
  rw [waitAll_ok, setAll_entries cls ord Res.val mBase hord]
  · congr 1
    apply List.map_congr_left
    intro c _
    cases c <;> simp [after, mBase, Res.ofMsg, Res.empty]
  · intro p hp
    obtain ⟨i, w⟩ := p
    exact hok i w ((mem_entries _ _ _).1 ((hord _).1 hp))

/-- `DoMultiCache`: after the waits every slot holds its cache value -/
theorem waits_after_multi (cls : List Cls) (ord : List (Nat × Res))
    (hord : ∀ p, p ∈ ord ↔ p ∈ entries cls) :
    setAll ord (cls.map base0) = cls.map after := by
  have := setAll_entries cls ord id base0 hord
  simp only [id] at this
  have hmap : (ord.map fun p => (p.1, p.2)) = ord := by simp
  rw [hmap] at this
  rw [this]
  apply List.map_congr_left
  intro c _
  cases c <;> simp [after, base0]

/-! ### the refill of the slots after the waits is the positional specification -/

@[simp] theorem isMiss_hit (v : Msg) : (Cls.hit v).isMiss = false := rfl
@[simp] theorem isMiss_pending (w : Res) : (Cls.pending w).isMiss = false := rfl
@[simp] theorem isMiss_miss : Cls.miss.isMiss = true := rfl

@[simp] theorem after_hit (v : Msg) : after (.hit v) = .ofMsg v := rfl
@[simp] theorem after_pending (w : Res) : after (.pending w) = w := rfl
@[simp] theorem after_miss : after .miss = .empty := rfl

theorem spec_nil (cls : List Cls) : spec cls [] = cls.map after := by
  induction cls with
  | nil => rfl
  | cons c cs ih => cases c <;> simp [spec, after, ih]

theorem spec_noMiss (cls : List Cls) (part : List Res) (h : (cls.filter Cls.isMiss).length = 0) :
    spec cls part = cls.map after := by
  induction cls with
  | nil => simp [spec]
  | cons c cs ih =>
    cases c with
    | miss => simp [List.filter_cons] at h
    | hit v => simp only [List.filter_cons, isMiss_hit] at h; simp [spec, after, ih (by simpa using h)]
    | pending w => simp only [List.filter_cons, isMiss_pending] at h; simp [spec, after, ih (by simpa using h)]

theorem spec_allMiss (cls : List Cls) (part : List Res) (h : (cls.filter Cls.isMiss).length = cls.length)
    (hl : part.length = cls.length) : spec cls part = part := by
  induction cls generalizing part with
  | nil => cases part <;> simp_all [spec]
  | cons c cs ih =>
    have hle := List.length_filter_le Cls.isMiss cs
    cases c with
    | miss =>
      cases part with
      | nil => simp at hl
      | cons p ps =>
        simp only [List.filter_cons, isMiss_miss, if_true, List.length_cons] at h
        simp [spec, ih ps (by omega) (by simpa using hl)]
    | hit v => simp [List.filter_cons] at h; omega
    | pending w => simp [List.filter_cons] at h; omega

theorem fillSpec_after (cls : List Cls) (part : List Res)
    (hw : ∀ w, Cls.pending w ∈ cls → w.isEmpty = false) :
    fillSpec Res.isEmpty (cls.map after) part = spec cls part := by
  induction cls generalizing part with
  | nil => simp [fillSpec, spec]
  | cons c cs ih =>
    have ih' := fun part => ih part (fun w hw' => hw w (by simp [hw']))
    cases part with
    | nil => simp [fillSpec_nil, spec_nil]
    | cons p ps =>
      cases c with
      | miss => simp [fillSpec, spec, after, Res.isEmpty, Res.empty, ih']
      | hit v => simp [fillSpec, spec, after, Res.isEmpty, Res.ofMsg, ih']
      | pending w =>
        have := hw w (by simp)
        simp [fillSpec, spec, after, this, ih']

theorem fillSpec_after_mget (cls : List Cls) (part : List (Option Msg))
    (hw : ∀ w, Cls.pending w ∈ cls → w.val.isSome) :
    fillSpec Option.isNone (cls.map fun c => (after c).val) part
      = (spec cls (part.map fun v => ⟨v, none⟩)).map Res.val := by
  induction cls generalizing part with
  | nil => simp [fillSpec, spec]
  | cons c cs ih =>
    have ih' := fun part => ih part (fun w hw' => hw w (by simp [hw']))
    cases part with
    | nil => simp [fillSpec_nil, spec_nil]
    | cons p ps =>
      cases c with
      | miss => simp only [List.map_cons, after_miss, fillSpec, spec, Res.empty, Option.isNone_none, if_true, ih']
      | hit v => simp only [List.map_cons, after_hit, fillSpec, spec, Res.ofMsg, Option.isNone_some, Bool.false_eq_true, if_false, ih']
      | pending w =>
        have := hw w (by simp)
        have hn : w.val.isNone = false := by cases h : w.val <;> simp_all
        simp only [List.map_cons, after_pending, fillSpec, spec, hn, Bool.false_eq_true, if_false, ih']


end Rv.MGetCache
