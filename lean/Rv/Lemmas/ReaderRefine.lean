/-
C01 helper lemmas: the reader automaton (Rv/Model/Reader.lean) refines the answer-discipline
specification (Rv/Spec/ReaderSpec.lean). Invariant `Rel` + one lemma per (command kind ×
frame kind); the property theorems are assembled in Rv/Props/C01.lean.
-/
import Rv.Lemmas.ReaderSpecL
namespace Rv.ReaderL
open Rv.Reader Rv.Spec.Reader

/-! ### the model, case by case -/

/-- public copy of the model's private `finish` (equal by `rfl`, see `match1_cons`) -/
def fin (s : St) (c : Cmd) (mid : Option Nat) (len : Nat) : St × Out :=
  if s.ff + 1 = len then
    ({ s with queue := s.queue.tail, started := false, ff := 0 }, .deliver c.id mid true)
  else ({ s with ff := s.ff + 1 }, .deliver c.id mid false)

def inMid : In → Nat | .reply i _ _ => i | .push i _ => i
def inPong : In → Bool | .reply _ p _ => p | _ => false
def inQueued : In → Bool | .reply _ _ q => q | _ => false

/-- the body of `match1` once the head batch `b` and the current command `c` are known -/
def body (s : St) (b : Batch) (c : Cmd) (mid : Nat) (isPong isQueued rp us : Bool) : St × Out :=
  let s := { s with started := true }
  if rp then
    if us then (s, .skipped)
    else if !c.noReply then (s, .panic "protocolbug")
    else fin { s with skip := c.nargs - 2 } c none b.length
  else if c.noReply && isQueued then (s, .panic "multiexecsub")
  else if c.isUnsub && !isPong then fin { s with skipUnsubReply := true } c (some mid) b.length
  else if s.skipUnsubReply then
    if !isPong then (s, .panic "protocolbug") else ({ s with skipUnsubReply := false }, .skipped)
  else fin s c (some mid) b.length

theorem match1_cons (s : St) (m : In) (b : Batch) (r : List Batch) (c : Cmd) (rp us : Bool)
    (hq : s.queue = b :: r) (hc : b[s.ff]? = some c) :
    match1 s m rp us = body s b c (inMid m) (inPong m) (inQueued m) rp us := by
  obtain ⟨queue, started, ff, skip, sur⟩ := s
  simp only at hq hc
  subst hq
  cases m <;> cases started <;> (unfold match1; simp only [hc]; rfl)

theorem match1_nil (s : St) (m : In) (rp us : Bool) (hq : s.queue = []) (hs : s.started = false) :
    match1 s m rp us =
      if us then (s, .skipped)
      else if s.skipUnsubReply && inPong m then ({ s with skipUnsubReply := false }, .skipped)
      else (s, .panic "protocolbug") := by
  obtain ⟨queue, started, ff, skip, sur⟩ := s
  simp only at hq hs
  subst hq hs
  cases m <;> rfl

theorem step_data (s : St) (mid : Nat) : step s (.push mid .data) = (s, .skipped) := rfl

theorem step_sub (s : St) (mid : Nat) :
    step s (.push mid .sub) =
      if s.skip > 0 then ({ s with skip := s.skip - 1 }, .skipped) else match1 s (.push mid .sub) true false := rfl

theorem step_unsub (s : St) (mid : Nat) :
    step s (.push mid .unsub) =
      if s.skip > 0 then ({ s with skip := s.skip - 1 }, .skipped) else match1 s (.push mid .unsub) true true := rfl

theorem step_reply (s : St) (mid : Nat) (p q : Bool) :
    step s (.reply mid p q) = match1 s (.reply mid p q) false false := rfl

/-! ### pending commands of a model state -/

/-- the commands of the queue that are still unanswered: the head batch from `ff` on, then the rest -/
def pendOf : List Batch → Nat → List (Cmd × Bool)
  | [], _ => []
  | b :: r, ff => mark (b.drop ff) ++ marks r

theorem pendOf_cons (b : Batch) (r : List Batch) (ff : Nat) :
    pendOf (b :: r) ff = mark (b.drop ff) ++ marks r := rfl

theorem pendOf_zero (q : List Batch) : pendOf q 0 = marks q := by
  cases q <;> simp [pendOf, marks]

theorem pendOf_head (b : Batch) (r : List Batch) (ff : Nat) (c : Cmd) (hc : b[ff]? = some c) :
    pendOf (b :: r) ff =
      (c, decide (ff + 1 = b.length)) ::
        (if ff + 1 = b.length then pendOf r 0 else pendOf (b :: r) (ff + 1)) := by
  obtain ⟨hlt, he⟩ := List.getElem?_eq_some_iff.1 hc
  have hd : b.drop ff = c :: b.drop (ff + 1) := by
    rw [List.drop_eq_getElem_cons hlt, he]
  rw [pendOf_zero, pendOf_cons, pendOf_cons, hd, mark_cons]
  by_cases h : ff + 1 = b.length
  · simp [h, mark]
  · have : b.drop (ff + 1) ≠ [] := by
      intro e; have := List.drop_eq_nil_iff.1 e; omega
    simp [this, h]

theorem pendOf_append (q : List Batch) (b : Batch) (ff : Nat) (h : q = [] → ff = 0) :
    pendOf (q ++ [b]) ff = pendOf q ff ++ mark b := by
  cases q with
  | nil => simp [pendOf, marks, h rfl]
  | cons a q => simp [pendOf, marks_append]


/-! ### the refinement relation -/

theorem wfBatch_pos {b : Batch} (h : wfBatch b = true) : 0 < b.length := by
  cases b with
  | nil => simp [wfBatch] at h
  | cons a b => simp

theorem wfBatch_cmd {b : Batch} {i : Nat} {c : Cmd} (h : wfBatch b = true) (hc : b[i]? = some c) :
    wfCmd c = true := by
  have hm : c ∈ b := List.mem_of_getElem? hc
  simp only [wfBatch, Bool.and_eq_true, List.all_eq_true] at h
  exact h.2 c hm

theorem kind_regular {c : Cmd} (hw : wfCmd c = true) (hk : kind c = .regular) :
    c.noReply = false ∧ c.isUnsub = false := by
  cases hn : c.noReply <;> cases hu : c.isUnsub <;> simp [kind, wfCmd, hn, hu] at hk hw ⊢

theorem kind_sub {c : Cmd} (hk : kind c = .sub) : c.noReply = true ∧ c.isUnsub = false := by
  cases hn : c.noReply <;> cases hu : c.isUnsub <;> simp [kind, hn, hu] at hk ⊢

theorem kind_unsub {c : Cmd} (hk : kind c = .unsub) : c.noReply = true ∧ c.isUnsub = true := by
  cases hn : c.noReply <;> cases hu : c.isUnsub <;> simp [kind, hn, hu] at hk ⊢

/-- model state `s` and specification state `t` describe the same situation; the `started`
    flag of the model (reader holds the head batch) is not observable -/
structure Rel (s : St) (t : SpecSt) : Prop where
  pend : t.pend = pendOf s.queue s.ff
  more : t.more = s.skip
  eat : t.eat = s.skipUnsubReply
  startedNE : s.started = true → s.queue ≠ []
  ff0 : s.started = false → s.ff = 0
  ffLt : ∀ b r, s.queue = b :: r → s.ff < b.length
  wf : ∀ b, b ∈ s.queue → wfBatch b = true

theorem rel_init : Rel {} {} :=
  ⟨rfl, rfl, rfl, (by intro h; cases h), fun _ => rfl, (by intro b r h; cases h), (by intro b h; cases h)⟩

theorem rel_write {s : St} {t : SpecSt} {b : Batch} (h : Rel s t) (hb : wfBatch b = true) :
    Rel (write s b) (specWrite t b) := by
  obtain ⟨queue, started, ff, skip, sur⟩ := s
  obtain ⟨hp, hm, he, hs, h0, hl, hw⟩ := h
  simp only at hp hm he hs h0 hl hw
  have hff : queue = [] → ff = 0 := by
    intro e; cases started with
    | false => exact h0 rfl
    | true => exact absurd e (hs rfl)
  refine ⟨?_, hm, he, ?_, h0, ?_, ?_⟩
  · show t.pend ++ mark b = pendOf (queue ++ [b]) ff
    rw [pendOf_append _ _ _ hff, hp]
  · intro _; show queue ++ [b] ≠ []; simp
  · intro b' r hq
    change queue ++ [b] = b' :: r at hq
    show ff < b'.length
    cases queue with
    | nil =>
      simp at hq; rw [hff rfl, ← hq.1]; exact wfBatch_pos hb
    | cons a q =>
      simp at hq; rw [← hq.1]; exact hl a q rfl
  · intro b' hb'
    change b' ∈ queue ++ [b] at hb'
    rcases List.mem_append.1 hb' with h1 | h1
    · exact hw b' h1
    · simp at h1; rw [h1]; exact hb

/-- `finish` on a state whose head batch is `b` with current command `c` -/
theorem fin_rel (s : St) (t' : SpecSt) (b : Batch) (r : List Batch) (c : Cmd) (mid : Option Nat)
    (hq : s.queue = b :: r) (hc : b[s.ff]? = some c)
    (hw : ∀ x, x ∈ s.queue → wfBatch x = true)
    (hp : t'.pend = if s.ff + 1 = b.length then pendOf r 0 else pendOf (b :: r) (s.ff + 1))
    (hm : t'.more = s.skip) (he : t'.eat = s.skipUnsubReply) (hst : s.started = true) :
    ∃ s', fin s c mid b.length = (s', .deliver c.id mid (decide (s.ff + 1 = b.length))) ∧ Rel s' t' := by
  obtain ⟨queue, started, ff, skip, sur⟩ := s
  simp only at hq hc hw hp hm he hst
  subst hq hst
  have hlt : ff < b.length := (List.getElem?_eq_some_iff.1 hc).1
  by_cases h : ff + 1 = b.length
  · rw [fin, if_pos h, decide_eq_true h]
    refine ⟨_, rfl, ?_⟩
    rw [if_pos h] at hp
    refine ⟨hp, hm, he, (by intro x; cases x), fun _ => rfl, ?_, ?_⟩
    · intro b' r' e
      change r = b' :: r' at e
      exact wfBatch_pos (hw b' (by simp [e]))
    · intro b' hb'
      change b' ∈ r at hb'
      exact hw b' (List.mem_cons_of_mem _ hb')
  · rw [fin, if_neg h, decide_eq_false h]
    refine ⟨_, rfl, ?_⟩
    rw [if_neg h] at hp
    refine ⟨hp, hm, he, (by intro _; simp), (by intro x; cases x), ?_, hw⟩
    intro b' r' e
    change b :: r = b' :: r' at e
    show ff + 1 < b'.length
    cases e; omega

/-- setting `started` on a non-empty queue is invisible -/
theorem rel_started {s : St} {t : SpecSt} (h : Rel s t) (hq : s.queue ≠ []) :
    Rel { s with started := true } t := by
  obtain ⟨hp, hm, he, hs, h0, hl, hw⟩ := h
  exact ⟨hp, hm, he, fun _ => hq, (by intro x; cases x), hl, hw⟩


/-! ### `body`, one lemma per (command kind × frame kind) -/

theorem body_unsubPush (s : St) (b : Batch) (c : Cmd) (mid : Nat) (p q : Bool) :
    body s b c mid p q true true = ({ s with started := true }, .skipped) := rfl

theorem body_subPush (s : St) (b : Batch) (c : Cmd) (mid : Nat) (p q : Bool) (hn : c.noReply = true) :
    body s b c mid p q true false = fin { s with started := true, skip := c.nargs - 2 } c none b.length := by
  simp only [body, hn]; rfl

theorem body_reply (s : St) (b : Batch) (c : Cmd) (mid : Nat) (p q : Bool)
    (h1 : (c.noReply && q) = false) (h2 : (c.isUnsub && !p) = false) (h3 : s.skipUnsubReply = false) :
    body s b c mid p q false false = fin { s with started := true } c (some mid) b.length := by
  simp only [body, h1, h2, h3]; rfl

theorem body_refused (s : St) (b : Batch) (c : Cmd) (mid : Nat) (p q : Bool)
    (h1 : (c.noReply && q) = false) (h2 : (c.isUnsub && !p) = true) :
    body s b c mid p q false false =
      fin { s with started := true, skipUnsubReply := true } c (some mid) b.length := by
  simp only [body, h1, h2]; rfl

theorem body_eat (s : St) (b : Batch) (c : Cmd) (mid : Nat) (q : Bool)
    (h1 : (c.noReply && q) = false) (h3 : s.skipUnsubReply = true) :
    body s b c mid true q false false = ({ s with started := true, skipUnsubReply := false }, .skipped) := by
  simp [body, h1, h3]

/-! ### one frame -/

theorem rel_head {s : St} {t : SpecSt} {c : Cmd} {d : Bool} {r' : List (Cmd × Bool)}
    (h : Rel s t) (hp : t.pend = (c, d) :: r') :
    ∃ b r, s.queue = b :: r ∧ b[s.ff]? = some c ∧ d = decide (s.ff + 1 = b.length) ∧
      r' = if s.ff + 1 = b.length then pendOf r 0 else pendOf (b :: r) (s.ff + 1) := by
  cases hq : s.queue with
  | nil =>
    have := h.pend; rw [hq, hp] at this; simp [pendOf] at this
  | cons b r =>
    have hlt := h.ffLt b r hq
    have hc : b[s.ff]? = some b[s.ff] := List.getElem?_eq_getElem hlt
    have := h.pend
    rw [hq, hp, pendOf_head b r s.ff _ hc] at this
    injection this with h1 h2
    injection h1 with h3 h4
    exact ⟨b, r, rfl, by rw [hc, h3], h4, h2⟩

theorem rel_cur {s : St} {t : SpecSt} (h : Rel s t) :
    (s.queue = [] ∧ s.started = false) ∨ ∃ b r c, s.queue = b :: r ∧ b[s.ff]? = some c := by
  cases hq : s.queue with
  | nil =>
    left; refine ⟨rfl, ?_⟩
    cases hs : s.started with
    | false => rfl
    | true => exact absurd hq (h.startedNE hs)
  | cons b r =>
    right
    exact ⟨b, r, _, rfl, List.getElem?_eq_getElem (h.ffLt b r hq)⟩

/-- a frame that changes nothing in the specification and at most `started` in the model -/
theorem skip_rel {s : St} {t : SpecSt} (h : Rel s t) (m : In) :
    ∃ s', match1 s m true true = (s', .skipped) ∧ Rel s' t := by
  rcases rel_cur h with ⟨hq, hs⟩ | ⟨b, r, c, hq, hc⟩
  · rw [match1_nil s m true true hq hs]; exact ⟨s, rfl, h⟩
  · rw [match1_cons s m b r c true true hq hc]
    exact ⟨_, rfl, rel_started h (by rw [hq]; simp)⟩


theorem pop_eq {c : Cmd} {d : Bool} {r : List (Cmd × Bool)} {mid : Option Nat} {more : Nat} {eat : Bool}
    {t' : SpecSt} {o : Out} (h : pop c d r mid more eat = some (t', o)) :
    t'.pend = r ∧ t'.more = more ∧ t'.eat = eat ∧ o = .deliver c.id mid d := by
  unfold pop at h
  injection h with h; injection h with h1 h2
  subst h1 h2
  exact ⟨rfl, rfl, rfl, rfl⟩

theorem sub_refines {s : St} {t t' : SpecSt} {o : Out} (h : Rel s t) (mid : Nat)
    (ho : onSub t = some (t', o)) : ∃ s', step s (.push mid .sub) = (s', o) ∧ Rel s' t' := by
  rw [step_sub]
  unfold onSub at ho
  by_cases hm : t.more ≠ 0
  · rw [if_pos hm] at ho
    injection ho with ho; injection ho with h1 h2; subst h1 h2
    have : s.skip > 0 := by rw [← h.more]; omega
    rw [if_pos this]
    refine ⟨_, rfl, ?_⟩
    exact ⟨h.pend, (by show t.more - 1 = s.skip - 1; rw [h.more]), h.eat, h.startedNE, h.ff0, h.ffLt, h.wf⟩
  · rw [if_neg hm] at ho
    have hs0 : ¬ s.skip > 0 := by rw [← h.more]; omega
    rw [if_neg hs0]
    cases he : t.eat with
    | true => rw [he] at ho; simp at ho
    | false =>
      rw [he] at ho
      cases hp : t.pend with
      | nil => rw [hp] at ho; simp at ho
      | cons cd r' =>
        obtain ⟨c, d⟩ := cd
        rw [hp] at ho
        simp only [Bool.false_eq_true, if_false] at ho
        by_cases hk : kind c = .sub
        · rw [if_pos hk] at ho
          obtain ⟨e1, e2, e3, e4⟩ := pop_eq ho
          obtain ⟨b, r, hq, hc, hd, hr⟩ := rel_head h hp
          rw [match1_cons s _ b r c true false hq hc, body_subPush _ _ _ _ _ _ (kind_sub hk).1, e4, hd]
          exact fin_rel { s with started := true, skip := c.nargs - 2 } t' b r c none hq hc h.wf
            (by rw [e1, hr]) e2 (by rw [e3, ← h.eat, he]) rfl
        · rw [if_neg hk] at ho; cases ho

theorem unsub_refines {s : St} {t : SpecSt} (h : Rel s t) (mid : Nat) (hm : t.more = 0) :
    ∃ s', step s (.push mid .unsub) = (s', .skipped) ∧ Rel s' t := by
  rw [step_unsub]
  have hs0 : ¬ s.skip > 0 := by rw [← h.more]; omega
  rw [if_neg hs0]
  exact skip_rel h _


theorem reply_refines {s : St} {t t' : SpecSt} {o : Out} (h : Rel s t) (mid : Nat) (p q : Bool)
    (ho : onReply t mid p q = some (t', o)) : ∃ s', step s (.reply mid p q) = (s', o) ∧ Rel s' t' := by
  rw [step_reply]
  unfold onReply at ho
  by_cases hm : t.more ≠ 0
  · rw [if_pos hm] at ho; cases ho
  rw [if_neg hm] at ho
  have hm0 : t.more = 0 := by omega
  cases he : t.eat with
  | true =>
    rw [he] at ho
    simp only [if_true] at ho
    by_cases hpq : (p && !q) = true
    · rw [if_pos hpq] at ho
      injection ho with ho; injection ho with h1 h2; subst h1 h2
      have hp1 : p = true := by cases p <;> simp at hpq ⊢
      have hq1 : q = false := by cases q <;> simp [hp1] at hpq ⊢
      have hsur : s.skipUnsubReply = true := by rw [← h.eat, he]
      subst hp1 hq1
      rcases rel_cur h with ⟨hq, hs⟩ | ⟨b, r, c, hq, hc⟩
      · rw [match1_nil s _ false false hq hs]
        simp only [hsur, inPong, Bool.and_self, Bool.false_eq_true, if_false, if_true]
        exact ⟨_, rfl, h.pend, h.more, rfl, h.startedNE, h.ff0, h.ffLt, h.wf⟩
      · rw [match1_cons s _ b r c false false hq hc]
        simp only [inPong, inQueued, inMid]
        rw [body_eat s b c mid false (by simp) hsur]
        exact ⟨_, rfl, h.pend, h.more, rfl, fun _ => (by rw [hq]; simp), (by intro x; cases x), h.ffLt, h.wf⟩
    · rw [if_neg hpq] at ho; cases ho
  | false =>
    rw [he] at ho
    simp only [Bool.false_eq_true, if_false] at ho
    have hsur : s.skipUnsubReply = false := by rw [← h.eat, he]
    cases hp : t.pend with
    | nil => rw [hp] at ho; cases ho
    | cons cd r' =>
      obtain ⟨c, d⟩ := cd
      rw [hp] at ho
      simp only at ho
      obtain ⟨b, r, hq, hc, hd, hr⟩ := rel_head h hp
      have hwc : wfCmd c = true := wfBatch_cmd (h.wf b (by rw [hq]; simp)) hc
      rw [match1_cons s _ b r c false false hq hc]
      simp only [inPong, inQueued, inMid]
      cases hk : kind c with
      | regular =>
        rw [hk] at ho
        obtain ⟨e1, e2, e3, e4⟩ := pop_eq ho
        obtain ⟨hn, hu⟩ := kind_regular hwc hk
        rw [body_reply s b c mid p q (by simp [hn]) (by simp [hu]) hsur, e4, hd]
        exact fin_rel { s with started := true } t' b r c (some mid) hq hc h.wf
          (by rw [e1, hr]) (by rw [e2, ← h.more, hm0]) (by rw [e3, hsur]) rfl
      | sub =>
        rw [hk] at ho
        cases q with
        | true => simp at ho
        | false =>
          simp only [Bool.false_eq_true, if_false] at ho
          obtain ⟨e1, e2, e3, e4⟩ := pop_eq ho
          obtain ⟨hn, hu⟩ := kind_sub hk
          rw [body_reply s b c mid p false (by simp) (by simp [hu]) hsur, e4, hd]
          exact fin_rel { s with started := true } t' b r c (some mid) hq hc h.wf
            (by rw [e1, hr]) (by rw [e2, ← h.more, hm0]) (by rw [e3, hsur]) rfl
      | unsub =>
        rw [hk] at ho
        cases q with
        | true => simp at ho
        | false =>
          simp only [Bool.false_eq_true, if_false] at ho
          obtain ⟨e1, e2, e3, e4⟩ := pop_eq ho
          obtain ⟨hn, hu⟩ := kind_unsub hk
          cases p with
          | true =>
            rw [body_reply s b c mid true false (by simp) (by simp) hsur, e4, hd]
            exact fin_rel { s with started := true } t' b r c (some mid) hq hc h.wf
              (by rw [e1, hr]) (by rw [e2, ← h.more, hm0]) (by rw [e3, hsur]; rfl) rfl
          | false =>
            rw [body_refused s b c mid false false (by simp) (by simp [hu]), e4, hd]
            exact fin_rel { s with started := true, skipUnsubReply := true } t' b r c (some mid) hq hc h.wf
              (by rw [e1, hr]) (by rw [e2, ← h.more, hm0]) (by rw [e3]; rfl) rfl

/-- **one frame**: whenever the specification accepts frame `i`, the model produces the same
    output and the two states stay related -/
theorem step_refines {s : St} {t t' : SpecSt} {o : Out} {i : In} (h : Rel s t)
    (ho : onMsg t i = some (t', o)) : ∃ s', step s i = (s', o) ∧ Rel s' t' := by
  cases i with
  | reply mid p q => exact reply_refines h mid p q ho
  | push mid k =>
    cases k with
    | data =>
      simp only [onMsg] at ho
      injection ho with ho; injection ho with h1 h2; subst h1 h2
      exact ⟨s, rfl, h⟩
    | sub => exact sub_refines h mid ho
    | unsub =>
      simp only [onMsg] at ho
      by_cases hm : t.more ≠ 0
      · rw [if_pos hm] at ho; cases ho
      · rw [if_neg hm] at ho
        injection ho with ho; injection ho with h1 h2; subst h1 h2
        exact unsub_refines h mid (by omega)

/-- **refinement**: on a disciplined event list the reader automaton computes exactly the
    specified outputs -/
theorem run_refines (es : List Ev) : ∀ (s : St) (t : SpecSt), Rel s t → disc t es = true →
    run s es = specRun t es := by
  induction es with
  | nil => intro s t _ _; rfl
  | cons e es ih =>
    intro s t h hd
    cases e with
    | w b =>
      simp only [disc, Bool.and_eq_true] at hd
      simp only [run, specRun]
      exact ih _ _ (rel_write h hd.1) hd.2
    | m i =>
      simp only [disc] at hd
      simp only [run, specRun]
      cases ho : onMsg t i with
      | none => rw [ho] at hd; cases hd
      | some to =>
        obtain ⟨t', o⟩ := to
        rw [ho] at hd
        obtain ⟨s', hs, hr⟩ := step_refines h ho
        rw [hs]
        simp only
        rw [ih s' t' hr hd]

end Rv.ReaderL
