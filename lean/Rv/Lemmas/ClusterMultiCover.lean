/-
Coverage: after the first round every position of the batch holds a result, and results are
never un-set afterwards.
-/
import Rv.Lemmas.ClusterMultiInv
namespace Rv.ClusterMultiL
open Rv Rv.Topology Rv.ClusterRoute Rv.ClusterMulti

def Has (results : List (Option Reply)) (k : Nat) : Prop := ∃ r, results[k]? = some (some r)

theorem has_lt (results : List (Option Reply)) (k : Nat) (h : Has results k) : k < results.length := by
  obtain ⟨r, hr⟩ := h
  exact (List.getElem?_eq_some_iff.mp hr).1

theorem setAt_has_mono (results : List (Option Reply)) (ii k : Nat) (v : Reply) (h : Has results k) :
    Has (setAt results ii (some v)) k := by
  have hk := has_lt results k h
  unfold setAt
  by_cases e : ii = k
  · subst e; exact ⟨v, by simp [List.getElem?_set, hk]⟩
  · obtain ⟨r, hr⟩ := h
    exact ⟨r, by simp [List.getElem?_set, e, hr]⟩

theorem setAt_has_self (results : List (Option Reply)) (ii : Nat) (v : Reply) (h : ii < results.length) :
    Has (setAt results ii (some v)) ii := ⟨v, by simp [setAt, List.getElem?_set, h]⟩

theorem resultStep_len (o : Opt) (cache hasInit : Bool) (attempts : Nat) (cc : Conn) (cs : List Entry) (resps : List Reply)
    (st : Acc × Tx) (i : Nat) : (resultStep o cache hasInit attempts cc cs resps st i).1.results.length = st.1.results.length := by
  unfold resultStep
  split
  · simp [setAt]
  · rfl

theorem resultStep_mono (o : Opt) (cache hasInit : Bool) (attempts : Nat) (cc : Conn) (cs : List Entry) (resps : List Reply)
    (st : Acc × Tx) (i k : Nat) (h : Has st.1.results k) :
    Has (resultStep o cache hasInit attempts cc cs resps st i).1.results k := by
  unfold resultStep
  split
  · exact setAt_has_mono _ _ _ _ h
  · exact h

theorem resultStep_covers (o : Opt) (cache hasInit : Bool) (attempts : Nat) (cc : Conn) (cs : List Entry) (resps : List Reply)
    (st : Acc × Tx) (i ii : Nat) (cm : Cmd) (resp : Reply) (h1 : cs[i]? = some (ii, cm)) (h2 : resps[i]? = some resp)
    (hlt : ii < st.1.results.length) :
    Has (resultStep o cache hasInit attempts cc cs resps st i).1.results ii := by
  unfold resultStep
  rw [h1, h2]
  exact setAt_has_self _ _ _ hlt

theorem fold_covers (o : Opt) (cache hasInit : Bool) (attempts : Nat) (cc : Conn) (cs : List Entry) (resps : List Reply) :
    ∀ (is : List Nat) (st : Acc × Tx),
      (∀ i ∈ is, ∃ e r, cs[i]? = some e ∧ resps[i]? = some r ∧ e.1 < st.1.results.length) →
      let out := is.foldl (resultStep o cache hasInit attempts cc cs resps) st
      out.1.results.length = st.1.results.length ∧
      (∀ k, Has st.1.results k → Has out.1.results k) ∧
      (∀ i ∈ is, ∀ e, cs[i]? = some e → Has out.1.results e.1) := by
  intro is
  induction is with
  | nil => intro st _; exact ⟨rfl, fun _ h => h, fun i hi => by cases hi⟩
  | cons i rest ih =>
    intro st hall
    have hlen := resultStep_len o cache hasInit attempts cc cs resps st i
    obtain ⟨l1, m1, c1⟩ := ih (resultStep o cache hasInit attempts cc cs resps st i) (by
      intro j hj
      obtain ⟨e, r, a1, a2, a3⟩ := hall j (List.mem_cons_of_mem _ hj)
      exact ⟨e, r, a1, a2, by rw [hlen]; exact a3⟩)
    simp only [List.foldl_cons]
    refine ⟨by rw [l1, hlen], fun k hk => m1 k (resultStep_mono o cache hasInit attempts cc cs resps st i k hk), ?_⟩
    intro j hj e he
    rcases List.mem_cons.mp hj with h | h
    · subst h
      obtain ⟨e', r, a1, a2, a3⟩ := hall j (List.mem_cons_self ..)
      rw [he] at a1; cases a1
      exact m1 _ (resultStep_covers o cache hasInit attempts cc cs resps st j e.1 e.2 r he a2 a3)
    · exact c1 j h e he

theorem resultFn_covers (multi : List Cmd) (o : Opt) (cache hasInit : Bool) (attempts : Nat) (cc : Conn) (cs : List Entry)
    (resps : List Reply) (a : Acc) (hcs : EntriesOK multi cs) (hl : resps.length = cs.length)
    (hres : a.results.length = multi.length) :
    (resultFn o cache hasInit attempts cc cs resps a).results.length = multi.length ∧
    (∀ k, Has a.results k → Has (resultFn o cache hasInit attempts cc cs resps a).results k) ∧
    (∀ e ∈ cs, Has (resultFn o cache hasInit attempts cc cs resps a).results e.1) := by
  unfold resultFn
  obtain ⟨l1, m1, c1⟩ := fold_covers o cache hasInit attempts cc cs resps (List.range resps.length) (a, {}) (by
    intro i hi
    have hi' : i < resps.length := List.mem_range.mp hi
    have hc : i < cs.length := by omega
    refine ⟨cs[i], resps[i], List.getElem?_eq_getElem hc, List.getElem?_eq_getElem hi', ?_⟩
    have := hcs cs[i] (List.getElem_mem hc)
    have hlt := (List.getElem?_eq_some_iff.mp this).1
    simp only
    omega)
  refine ⟨by rw [l1]; exact hres, m1, ?_⟩
  intro e he
  obtain ⟨j, hj⟩ := List.getElem?_of_mem he
  have hjl : j < cs.length := (List.getElem?_eq_some_iff.mp hj).1
  exact c1 j (List.mem_range.mpr (by omega)) e hj

theorem phase_covers (multi : List Cmd) (o : Opt) (cache hasInit : Bool) (attempts : Nat) (cc : Conn) (kind : CallKind)
    (items : List Item) (es : List Entry) (hes : EntriesOK multi es) (a : Acc) (w : World)
    (hres : a.results.length = multi.length) :
    (phase o cache hasInit attempts cc kind items es a w).1.results.length = multi.length ∧
    (∀ k, Has a.results k → Has (phase o cache hasInit attempts cc kind items es a w).1.results k) ∧
    (∀ e ∈ es, Has (phase o cache hasInit attempts cc kind items es a w).1.results e.1) := by
  unfold phase
  simp only
  obtain ⟨s1, _, _⟩ := answerAll_spec cc.addr (es.map (·.2)) (logCall w { conn := cc, kind := kind, items := items })
  exact resultFn_covers multi o cache hasInit attempts cc es _ a hes (by rw [s1]; simp) hres

theorem doRetryCore_covers (multi : List Cmd) (o : Opt) (cache hasInit : Bool) (attempts : Nat) (cc : Conn) (re : Retry)
    (h1 : EntriesOK multi re.cmds) (h2 : EntriesOK multi re.asks) (a : Acc) (w : World)
    (hres : a.results.length = multi.length) :
    (doRetryCore o cache hasInit attempts cc re a w).1.results.length = multi.length ∧
    (∀ k, Has a.results k → Has (doRetryCore o cache hasInit attempts cc re a w).1.results k) ∧
    (∀ e ∈ re.cmds ++ re.asks, Has (doRetryCore o cache hasInit attempts cc re a w).1.results e.1) := by
  unfold doRetryCore
  simp only
  by_cases hc : re.cmds ≠ []
  · rw [if_pos hc]
    obtain ⟨l1, m1, c1⟩ := phase_covers multi o cache hasInit attempts cc (callKind cache)
      (re.cmds.map fun e => Item.cmd e.2.id) re.cmds h1 a w hres
    by_cases ha : re.asks ≠ []
    · rw [if_pos ha]
      obtain ⟨l2, m2, c2⟩ := phase_covers multi o cache hasInit attempts cc .multi
        (if cache then askingCacheItems re.asks else askingItems false re.asks) re.asks h2 _ _ l1
      refine ⟨l2, fun k hk => m2 k (m1 k hk), ?_⟩
      intro e he
      rcases List.mem_append.mp he with h | h
      · exact m2 _ (c1 e h)
      · exact c2 e h
    · rw [if_neg ha]
      refine ⟨l1, m1, ?_⟩
      intro e he
      have hn : re.asks = [] := by simpa using ha
      rw [hn, List.append_nil] at he
      exact c1 e he
  · rw [if_neg hc]
    have hn : re.cmds = [] := by simpa using hc
    by_cases ha : re.asks ≠ []
    · rw [if_pos ha]
      obtain ⟨l2, m2, c2⟩ := phase_covers multi o cache hasInit attempts cc .multi
        (if cache then askingCacheItems re.asks else askingItems false re.asks) re.asks h2 a w hres
      refine ⟨l2, m2, ?_⟩
      intro e he
      rw [hn, List.nil_append] at he
      exact c2 e he
    · rw [if_neg ha]
      have hn2 : re.asks = [] := by simpa using ha
      refine ⟨hres, fun k hk => hk, ?_⟩
      intro e he
      rw [hn, hn2] at he
      cases he

theorem doRetry_covers (multi : List Cmd) (o : Opt) (cache hasInit : Bool) (attempts : Nat) (cc : Conn) (re : Retry)
    (h1 : EntriesOK multi re.cmds) (h2 : EntriesOK multi re.asks) (a : Acc) (w : World)
    (hres : a.results.length = multi.length) :
    (doRetry o cache hasInit attempts cc re a w).1.results.length = multi.length ∧
    (∀ k, Has a.results k → Has (doRetry o cache hasInit attempts cc re a w).1.results k) ∧
    (∀ e ∈ re.cmds ++ re.asks, Has (doRetry o cache hasInit attempts cc re a w).1.results e.1) := by
  rw [(doRetry_fst o cache hasInit attempts cc re a w).1]
  exact doRetryCore_covers multi o cache hasInit attempts cc re h1 h2 a w hres

theorem runRound_covers (multi : List Cmd) (o : Opt) (cache hasInit : Bool) (attempts : Nat) :
    ∀ (p : Pending) (a : Acc) (w : World), PendOK multi p → a.results.length = multi.length →
    (runRound o cache hasInit attempts p a w).1.results.length = multi.length ∧
    (∀ k, Has a.results k → Has (runRound o cache hasInit attempts p a w).1.results k) ∧
    (∀ x ∈ p, ∀ e ∈ x.2.cmds ++ x.2.asks, Has (runRound o cache hasInit attempts p a w).1.results e.1) := by
  intro p
  induction p with
  | nil => intro a w _ h; exact ⟨h, fun _ hk => hk, fun x hx => by cases hx⟩
  | cons x rest ih =>
    intro a w hp hres
    obtain ⟨cc, re⟩ := x
    unfold runRound
    simp only
    obtain ⟨e1, e2⟩ := hp (cc, re) (List.mem_cons_self ..)
    obtain ⟨l1, m1, c1⟩ := doRetry_covers multi o cache hasInit attempts cc re e1 e2 a w hres
    obtain ⟨l2, m2, c2⟩ := ih (doRetry o cache hasInit attempts cc re a w).1 (doRetry o cache hasInit attempts cc re a w).2
      (fun y hy => hp y (List.mem_cons_of_mem _ hy)) l1
    refine ⟨l2, fun k hk => m2 k (m1 k hk), ?_⟩
    intro y hy e he
    rcases List.mem_cons.mp hy with h | h
    · subst h; exact m2 _ (c1 e he)
    · exact c2 y h e he

theorem mem_insertP' (x y : Conn × Retry) : ∀ (p : Pending), (y = x ∨ y ∈ p) → y ∈ insertP x p := by
  intro p
  induction p with
  | nil => intro h; rcases h with h | h
           · simp [insertP, h]
           · cases h
  | cons z rest ih =>
    intro h
    unfold insertP
    split
    · rcases h with h | h
      · exact h ▸ List.mem_cons_self ..
      · exact List.mem_cons_of_mem _ h
    · rcases h with h | h
      · exact List.mem_cons_of_mem _ (ih (Or.inl h))
      · rcases List.mem_cons.mp h with h | h
        · exact h ▸ List.mem_cons_self ..
        · exact List.mem_cons_of_mem _ (ih (Or.inr h))

theorem mem_sortP' (p : Pending) (y : Conn × Retry) (h : y ∈ p) : y ∈ sortP p := by
  unfold sortP
  have : ∀ (l acc : Pending), (y ∈ acc ∨ y ∈ l) → y ∈ l.foldl (fun acc x => insertP x acc) acc := by
    intro l
    induction l with
    | nil => intro acc h; rcases h with h | h
             · exact h
             · cases h
    | cons x rest ih =>
      intro acc h
      simp only [List.foldl_cons]
      apply ih
      rcases h with h | h
      · exact Or.inl (mem_insertP' x y acc (Or.inr h))
      · rcases List.mem_cons.mp h with h | h
        · exact Or.inl (mem_insertP' x y acc (Or.inl h))
        · exact Or.inr h
  exact this p [] (Or.inr h)

theorem rounds_mono (multi : List Cmd) (o : Opt) (cache hasInit : Bool) :
    ∀ (fuel : Nat) (p : Pending) (a : Acc) (w : World) (attempts redirects : Nat), PendOK multi p →
    ResOK multi w.replies a.results → ∀ k, Has a.results k →
    Has (rounds o cache hasInit fuel p a w attempts redirects).1.results k := by
  intro fuel
  induction fuel with
  | zero => intro p a w _ _ _ _ k hk; exact hk
  | succ fuel ih =>
    intro p a w attempts redirects hp hr k hk
    unfold rounds
    simp only
    have hp' : PendOK multi (sortP p) := fun y hy => hp y (mem_sortP p y hy)
    have h0 : Inv multi { a with next := [], redirects := 0, hasDelay := false } w := ⟨hr, fun x hx => by cases hx⟩
    have hi := runRound_inv multi o cache hasInit attempts (sortP p) _ w hp' h0
    obtain ⟨_, m1, _⟩ := runRound_covers multi o cache hasInit attempts (sortP p)
      { a with next := [], redirects := 0, hasDelay := false } w hp' hr.1
    have hk1 := m1 k hk
    split
    · split
      · split
        · exact hk1
        · exact ih _ _ _ _ _ hi.pend hi.res k hk1
      · split
        · exact ih _ _ _ _ _ hi.pend hi.res k hk1
        · exact hk1
    · exact hk1

/-- after the first round every entry of the initial sub-batches has a result, and keeps one -/
theorem rounds_total (multi : List Cmd) (o : Opt) (cache hasInit : Bool) (fuel : Nat) (p : Pending) (a : Acc) (w : World)
    (attempts redirects : Nat) (hp : PendOK multi p) (hr : ResOK multi w.replies a.results) :
    ∀ x ∈ p, ∀ e ∈ x.2.cmds, Has (rounds o cache hasInit (fuel + 1) p a w attempts redirects).1.results e.1 := by
  intro x hx e he
  unfold rounds
  simp only
  have hp' : PendOK multi (sortP p) := fun y hy => hp y (mem_sortP p y hy)
  have h0 : Inv multi { a with next := [], redirects := 0, hasDelay := false } w := ⟨hr, fun x hx => by cases hx⟩
  have hi := runRound_inv multi o cache hasInit attempts (sortP p) _ w hp' h0
  obtain ⟨_, _, c1⟩ := runRound_covers multi o cache hasInit attempts (sortP p)
    { a with next := [], redirects := 0, hasDelay := false } w hp' hr.1
  have hk1 := c1 x (mem_sortP' p x hx) e (List.mem_append_left _ he)
  split
  · split
    · split
      · exact hk1
      · exact rounds_mono multi o cache hasInit fuel _ _ _ _ _ hi.pend hi.res _ hk1
    · split
      · exact rounds_mono multi o cache hasInit fuel _ _ _ _ _ hi.pend hi.res _ hk1
      · exact hk1
  · exact hk1

end Rv.ClusterMultiL
