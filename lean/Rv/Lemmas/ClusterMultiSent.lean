/-
What a per-connection worker of one round puts on the wire: both lists of its retry entry
(`commands` and `cAskings`) are sent, the plain ones first, the ASK ones behind ASKING.
-/
import Rv.Lemmas.ClusterMulti
namespace Rv.ClusterMultiL
open Rv Rv.Topology Rv.ClusterRoute Rv.ClusterMulti

theorem answer_log (w : World) (addr : Bytes) (c : Cmd) : (answer w addr c).2.log = w.log := by
  unfold answer
  split <;> rfl

theorem answerAll_log (addr : Bytes) : ∀ (cs : List Cmd) (w : World), (answerAll w addr cs).2.log = w.log := by
  intro cs
  induction cs with
  | nil => intro w; rfl
  | cons c rest ih =>
    intro w
    simp only [answerAll]
    rw [ih, answer_log]

theorem phase_log (o : Opt) (cache hasInit : Bool) (attempts : Nat) (cc : Conn) (kind : CallKind) (items : List Item)
    (es : List Entry) (a : Acc) (w : World) :
    (phase o cache hasInit attempts cc kind items es a w).2.log = w.log ++ [{ conn := cc, kind := kind, items := items }] := by
  unfold phase
  simp only
  rw [answerAll_log]
  rfl

/-- the call carrying the plain re-sends of an entry -/
def cmdsCall (cache : Bool) (cc : Conn) (re : Retry) : Call :=
  { conn := cc, kind := callKind cache, items := re.cmds.map fun e => Item.cmd e.2.id }

/-- the call carrying the ASK re-sends of an entry (ASKING interleaved) -/
def asksCall (cache : Bool) (cc : Conn) (re : Retry) : Call :=
  { conn := cc, kind := .multi, items := if cache then askingCacheItems re.asks else askingItems false re.asks }

def sentBy (cache : Bool) (cc : Conn) (re : Retry) : List Call :=
  (if re.cmds ≠ [] then [cmdsCall cache cc re] else []) ++ (if re.asks ≠ [] then [asksCall cache cc re] else [])

theorem doRetryCore_log (o : Opt) (cache hasInit : Bool) (attempts : Nat) (cc : Conn) (re : Retry) (a : Acc) (w : World) :
    (doRetryCore o cache hasInit attempts cc re a w).2.log = w.log ++ sentBy cache cc re := by
  unfold doRetryCore sentBy cmdsCall asksCall
  simp only
  by_cases hc : re.cmds ≠ []
  · by_cases ha : re.asks ≠ []
    · rw [if_pos hc, if_pos ha, if_pos hc, if_pos ha, phase_log, phase_log]
      simp
    · rw [if_pos hc, if_neg ha, if_pos hc, if_neg ha, phase_log]
      simp
  · by_cases ha : re.asks ≠ []
    · rw [if_neg hc, if_pos ha, if_neg hc, if_pos ha, phase_log]
      simp
    · rw [if_neg hc, if_neg ha, if_neg hc, if_neg ha]
      simp

theorem doRetry_log (o : Opt) (cache hasInit : Bool) (attempts : Nat) (cc : Conn) (re : Retry) (a : Acc) (w : World) :
    (doRetry o cache hasInit attempts cc re a w).2.log = w.log ++ sentBy cache cc re := by
  unfold doRetry
  simp only
  split
  · exact doRetryCore_log o cache hasInit attempts cc re a w
  · exact doRetryCore_log o cache hasInit attempts cc re a w

theorem runRound_log (o : Opt) (cache hasInit : Bool) (attempts : Nat) : ∀ (p : Pending) (a : Acc) (w : World),
    (runRound o cache hasInit attempts p a w).2.log = w.log ++ p.flatMap fun x => sentBy cache x.1 x.2 := by
  intro p
  induction p with
  | nil => intro a w; simp [runRound]
  | cons x rest ih =>
    intro a w
    obtain ⟨cc, re⟩ := x
    unfold runRound
    simp only
    rw [ih, doRetry_log]
    simp [List.flatMap_cons, List.append_assoc]

end Rv.ClusterMultiL

namespace Rv.ClusterMultiL
open Rv Rv.Topology Rv.ClusterRoute Rv.ClusterMulti

theorem mem_askingItems (es : List Entry) (e : Entry) (he : e ∈ es) : Item.cmd e.2.id ∈ askingItems false es := by
  have h := askingItems_strip es false
  have : Item.cmd e.2.id ∈ es.map fun x => Item.cmd x.2.id := List.mem_map.mpr ⟨e, he, rfl⟩
  rw [← h] at this
  exact (List.mem_filter.mp this).1

theorem mem_askingCacheItems : ∀ (es : List Entry) (e : Entry), e ∈ es → Item.cmd e.2.id ∈ askingCacheItems es := by
  intro es
  induction es with
  | nil => intro e he; cases he
  | cons x rest ih =>
    intro e he
    unfold askingCacheItems
    rcases List.mem_cons.mp he with h | h
    · subst h
      exact List.mem_append_left _ (by simp [cacheAskItems])
    · exact List.mem_append_right _ (ih e h)

/-- every command of either list of an entry is on the wire of that entry's connection -/
theorem sentBy_covers (cache : Bool) (cc : Conn) (re : Retry) (e : Entry) (he : e ∈ re.cmds ++ re.asks) :
    ∃ call ∈ sentBy cache cc re, call.conn = cc ∧ Item.cmd e.2.id ∈ call.items := by
  rcases List.mem_append.mp he with h | h
  · have hne : re.cmds ≠ [] := fun h0 => by rw [h0] at h; cases h
    refine ⟨cmdsCall cache cc re, ?_, rfl, List.mem_map.mpr ⟨e, h, rfl⟩⟩
    unfold sentBy
    rw [if_pos hne]
    exact List.mem_append_left _ (List.mem_singleton.mpr rfl)
  · have hne : re.asks ≠ [] := fun h0 => by rw [h0] at h; cases h
    refine ⟨asksCall cache cc re, ?_, rfl, ?_⟩
    · unfold sentBy
      rw [if_pos hne]
      exact List.mem_append_right _ (List.mem_singleton.mpr rfl)
    · unfold asksCall
      cases cache
      · exact mem_askingItems re.asks e h
      · exact mem_askingCacheItems re.asks e h

/-- the log only grows over the rounds -/
theorem rounds_log_prefix (o : Opt) (cache hasInit : Bool) : ∀ (fuel : Nat) (p : Pending) (a : Acc) (w : World)
    (attempts redirects : Nat), ∃ tail, (rounds o cache hasInit fuel p a w attempts redirects).2.log = w.log ++ tail := by
  intro fuel
  induction fuel with
  | zero => intro p a w _ _; exact ⟨[], by simp [rounds]⟩
  | succ fuel ih =>
    intro p a w attempts redirects
    unfold rounds
    simp only
    have hl := runRound_log o cache hasInit attempts (sortP p) { a with next := [], redirects := 0, hasDelay := false } w
    split
    · split
      · split
        · exact ⟨_, hl⟩
        · obtain ⟨t, ht⟩ := ih _ _ (runRound o cache hasInit attempts (sortP p) { a with next := [], redirects := 0, hasDelay := false } w).2 attempts (redirects + 1)
          exact ⟨_, by rw [ht, hl, List.append_assoc]⟩
      · split
        · obtain ⟨t, ht⟩ := ih _ _ (runRound o cache hasInit attempts (sortP p) { a with next := [], redirects := 0, hasDelay := false } w).2 (attempts + 1) redirects
          exact ⟨_, by rw [ht, hl, List.append_assoc]⟩
        · exact ⟨_, hl⟩
    · exact ⟨_, hl⟩

end Rv.ClusterMultiL

namespace Rv.ClusterMultiL
open Rv Rv.Topology Rv.ClusterRoute Rv.ClusterMulti

theorem answer_recycled (w : World) (addr : Bytes) (c : Cmd) : (answer w addr c).2.recycled = w.recycled := by
  unfold answer
  split <;> rfl

theorem answerAll_recycled (addr : Bytes) : ∀ (cs : List Cmd) (w : World), (answerAll w addr cs).2.recycled = w.recycled := by
  intro cs
  induction cs with
  | nil => intro w; rfl
  | cons c rest ih => intro w; simp only [answerAll]; rw [ih, answer_recycled]

theorem phase_recycled (o : Opt) (cache hasInit : Bool) (attempts : Nat) (cc : Conn) (kind : CallKind) (items : List Item)
    (es : List Entry) (a : Acc) (w : World) :
    (phase o cache hasInit attempts cc kind items es a w).2.recycled = w.recycled := by
  unfold phase
  simp only
  rw [answerAll_recycled]
  rfl

/-- sending never touches the pool -/
theorem doRetryCore_recycled (o : Opt) (cache hasInit : Bool) (attempts : Nat) (cc : Conn) (re : Retry) (a : Acc) (w : World) :
    (doRetryCore o cache hasInit attempts cc re a w).2.recycled = w.recycled := by
  unfold doRetryCore
  simp only
  by_cases hc : re.cmds ≠ []
  · by_cases ha : re.asks ≠ []
    · rw [if_pos hc, if_pos ha, phase_recycled, phase_recycled]
    · rw [if_pos hc, if_neg ha, phase_recycled]
  · by_cases ha : re.asks ≠ []
    · rw [if_neg hc, if_pos ha, phase_recycled]
    · rw [if_neg hc, if_neg ha]

end Rv.ClusterMultiL
