import Rv.Lemmas.RingOrder
namespace Rv.Ring

def isReady : Pc → Bool
  | .ready _ => true
  | _ => false

def isBcast : Pc → Bool
  | .bcast _ => true
  | _ => false

def rphase : RPc → Nat
  | .idle => 0
  | .holding _ (some _) => 5
  | .holding _ none => 4
  | .signal _ => 3

/-- progress measure: work that is still to be done for the callers that have arrived -/
def mu (σ : State) : Nat :=
  6 * (σ.ncalls - σ.read2) + 2 * cnt σ.pc isReady σ.ncalls + cnt σ.pc isBcast σ.ncalls +
    (σ.ncalls - σ.read1) + rphase σ.rpc

theorem mu_take {k : Nat} {σ : State} (f : Full k σ) (s : Nat) (hs : s = (σ.read1 + 1) % 2 ^ k)
    (hm : (σ.slot s).mark = 1) (b : Bool) : mu (take σ s b) < mu σ := by
  have hp := pow_pos' k
  have hsN : s < 2 ^ k := hs ▸ Nat.mod_lt _ hp
  have ha := f.i.a
  have hgen : (σ.slot s).gen = σ.read1 + 1 := by
    have hgt : σ.read1 < (σ.slot s).gen := by have := (ha.mark2 s hsN); omega
    have hhi := ha.genhi s hsN
    have := ha.gen_of_window (σ.read1 + 1) (by have := ha.r21; omega) (by omega)
    rw [← hs] at this; exact this
  have h1 := filled_le_write f s hsN (by omega)
  have h2 := f.i.b.wn
  simp only [mu, Ring.take]
  omega

theorem mu_decreases {k : Nat} (hk : k ≤ 32) {σ : State} (f : Full k σ) (l : Label)
    (he : enabled k l σ = true) (hpr : productive k l σ = true) : mu (apply k l σ) < mu σ := by
  have hp := pow_pos' k
  have ha := f.i.a
  have hB := f.i.b
  cases l with
  | arrive => simp [productive] at hpr
  | enter c =>
    simp only [Ring.apply]
    split
    · rename_i s hpc
      have hcl := lt_ncalls f.i c (by rw [hpc]; simp)
      split
      · cases hsl : (σ.slot s).slept
        · have r1 := cnt_upd σ.pc isReady c (Pc.filled s) σ.ncalls hcl
          have r2 := cnt_upd σ.pc isBcast c (Pc.filled s) σ.ncalls hcl
          rw [hpc] at r1 r2
          simp [isReady, isBcast] at r1 r2
          simp only [mu, Bool.false_eq_true, if_false]; omega
        · have r1 := cnt_upd σ.pc isReady c (Pc.bcast s) σ.ncalls hcl
          have r2 := cnt_upd σ.pc isBcast c (Pc.bcast s) σ.ncalls hcl
          rw [hpc] at r1 r2
          simp [isReady, isBcast] at r1 r2
          simp only [mu, if_true]; omega
      · have r1 := cnt_upd σ.pc isReady c (Pc.waiting s) σ.ncalls hcl
        have r2 := cnt_upd σ.pc isBcast c (Pc.waiting s) σ.ncalls hcl
        rw [hpc] at r1 r2
        simp [isReady, isBcast] at r1 r2
        simp only [mu]; omega
    · (simp [enabled] at he) <;> (split at he <;> simp_all)
  | bcast c =>
    simp only [Ring.apply]
    split
    · rename_i s hpc
      have hcl := lt_ncalls f.i c (by rw [hpc]; simp)
      have r1 := cnt_upd σ.pc isReady c (Pc.filled s) σ.ncalls hcl
      have r2 := cnt_upd σ.pc isBcast c (Pc.filled s) σ.ncalls hcl
      rw [hpc] at r1 r2
      simp [isReady, isBcast] at r1 r2
      simp only [mu]; omega
    · (simp [enabled] at he) <;> (split at he <;> simp_all)
  | wTry =>
    have hm : (σ.slot (slotOf k (σ.read1 + 1))).mark = 1 := by simpa [productive] using hpr
    simp only [Ring.apply, hm, if_true]
    exact mu_take f _ (slotOf_eq k _ hk) hm _
  | wWait =>
    have hm : (σ.slot (slotOf k (σ.read1 + 1))).mark = 1 := by simpa [productive] using hpr
    simp only [Ring.apply, hm, if_true]
    exact mu_take f _ (slotOf_eq k _ hk) hm _
  | wWake =>
    simp only [Ring.apply]
    split
    · rename_i s hw
      have hm := f.w.wk s hw
      simp only [hm, if_true]
      exact mu_take f _ (ha.wwk s hw) hm _
    · (simp [enabled] at he) <;> (split at he <;> simp_all)
  | rBegin =>
    have hm : (σ.slot (slotOf k (σ.read2 + 1))).mark = 2 := by simpa [productive] using hpr
    have hidle : σ.rpc = .idle := by simpa [enabled] using he
    have hsr : slotOf k (σ.read2 + 1) = (σ.read2 + 1) % 2 ^ k := slotOf_eq k _ hk
    have hsN : slotOf k (σ.read2 + 1) < 2 ^ k := hsr ▸ Nat.mod_lt _ hp
    have hgen : (σ.slot (slotOf k (σ.read2 + 1))).gen = σ.read2 + 1 := by
      rw [hsr]; exact ha.gen_of_window _ (by omega) (by omega)
    have h1 := filled_le_write f _ hsN (by omega)
    have h2 := hB.wn
    obtain ⟨c0, hc0, _⟩ := hB.occ _ hsN (by omega)
    simp only [Ring.apply, hm, if_true, mu, hidle, hc0, rphase]
    omega
  | rDeliver c =>
    simp only [Ring.apply]
    split
    · rename_i s r hr
      simp only [enabled, hr] at he
      have hpc : σ.pc c = .filled s := by simpa using he
      have hcl := lt_ncalls f.i c (by rw [hpc]; simp)
      have r1 := cnt_upd σ.pc isReady c (Pc.done r) σ.ncalls hcl
      have r2 := cnt_upd σ.pc isBcast c (Pc.done r) σ.ncalls hcl
      rw [hpc] at r1 r2
      simp [isReady, isBcast] at r1 r2
      simp only [mu, hr, rphase]; omega
    · (simp [enabled] at he) <;> (split at he <;> simp_all)
  | rUnlock =>
    simp only [Ring.apply]
    split
    · rename_i s g hr
      simp only [enabled, hr] at he
      have : g = none := by cases g <;> simp_all
      subst this
      simp only [mu, hr, rphase]; omega
    · (simp [enabled] at he) <;> (split at he <;> simp_all)
  | rSignal w =>
    simp only [Ring.apply]
    split
    · rename_i s hr
      simp only [enabled, hr] at he
      split
      · rename_i c
        have hpc : σ.pc c = .waiting s := by simpa using he
        have hcl := lt_ncalls f.i c (by rw [hpc]; simp)
        have r1 := cnt_upd σ.pc isReady c (Pc.ready s) σ.ncalls hcl
        have r2 := cnt_upd σ.pc isBcast c (Pc.ready s) σ.ncalls hcl
        rw [hpc] at r1 r2
        simp [isReady, isBcast] at r1 r2
        simp only [mu, hr, rphase]; omega
      · simp only [mu, hr, rphase]; omega
    · (simp [enabled] at he) <;> (split at he <;> simp_all)

/-- run a schedule of productive transitions -/
def runP (k : Nat) : State → List Label → Option State
  | σ, [] => some σ
  | σ, l :: ls => if enabled k l σ ∧ productive k l σ then runP k (apply k l σ) ls else none

/-- from a reachable state at most `mu σ` productive transitions can happen before a new caller
    arrives: no livelock among the productive transitions -/
theorem runP_bound {k : Nat} (hk : k ≤ 32) : ∀ (ls : List Label) (σ σ' : State),
    Reachable k σ → runP k σ ls = some σ' → mu σ' + ls.length ≤ mu σ ∧ Reachable k σ' := by
  intro ls
  induction ls with
  | nil => intro σ σ' h r; simp [runP] at r; subst r; exact ⟨by simp, h⟩
  | cons l ls ih =>
    intro σ σ' h r
    simp only [runP] at r
    split at r
    · rename_i he
      have he1 : enabled k l σ = true := he.1
      have he2 : productive k l σ = true := he.2
      have d := mu_decreases hk (Full.of_reachable hk h) l he1 he2
      obtain ⟨b, hr'⟩ := ih _ _ (Reachable.step l h he1) r
      exact ⟨by simp only [List.length_cons]; omega, hr'⟩
    · cases r


/-- a caller that has arrived never returns to `idle` -/
theorem arrived_not_idle (k : Nat) (hk : k ≤ 32) (σ : State) (h : Reachable k σ) :
    ∀ c, c < σ.ncalls → σ.pc c ≠ .idle := by
  induction h with
  | init => intro c hc; simp [Ring.init] at hc
  | step l hr he ih =>
    have i := Inv.of_reachable hk hr
    cases l with
    | arrive =>
      intro c hc; simp only [Ring.apply, upd_apply] at hc ⊢
      split
      · simp
      · exact ih c (by omega)
    | enter c =>
      simp only [Ring.apply]
      split
      · split
        · intro c' hc'; simp only [upd_apply]; split
          · split <;> simp
          · exact ih c' hc'
        · intro c' hc'; simp only [upd_apply]; split
          · simp
          · exact ih c' hc'
      · exact ih
    | bcast c =>
      simp only [Ring.apply]
      split
      · intro c' hc'; simp only [upd_apply]; split
        · simp
        · exact ih c' hc'
      · exact ih
    | wTry => simp only [Ring.apply]; split <;> exact ih
    | wWait => simp only [Ring.apply]; split <;> exact ih
    | wWake => simp only [Ring.apply]; split <;> (try split) <;> exact ih
    | rBegin => simp only [Ring.apply]; split <;> exact ih
    | rDeliver c =>
      simp only [Ring.apply]
      split
      · intro c' hc'; simp only [upd_apply]; split
        · simp
        · exact ih c' hc'
      · exact ih
    | rUnlock => simp only [Ring.apply]; split <;> exact ih
    | rSignal w =>
      simp only [Ring.apply]
      split
      · split
        · intro c' hc'; simp only [upd_apply]; split
          · simp
          · exact ih c' hc'
        · exact ih
      · exact ih

end Rv.Ring
