/-
`Flight`/`Flights` of the LRU model answer a command only with the entry filed under exactly that
command's (key, cmd): positional identity of batch lookups.
-/
import Rv.Lemmas.LruFlights
namespace Rv.Lru

/-- an outcome that is not "send" is the (valid) entry found under exactly that (key, cmd) -/
theorem outcome_own_entry {s s' : State} {k c : Bytes} {ttl now : Int} {r : FRes}
    (o : Outcome4 s k c ttl now s' r) (hr : r ≠ .send) :
    ∃ e ∈ s.list, e.key = k ∧ e.cmd = c ∧ valid e (unixMilli now) = true ∧ r = resOf e := by
  cases o with
  | closed hc hs hr' => exact absurd hr' hr
  | expired e hc hf hv hr' hl hsz hn fr => exact absurd hr' hr
  | absent hc hf hr' hl hsz hn fr => exact absurd hr' hr
  | found e hc hf hv hr' hl hsz hn fr =>
    have := find?_some hf
    exact ⟨e, this.1, this.2.1, this.2.2, hv, hr'⟩

/-- a lookup at clock `now` removes nothing that is valid at `now` -/
theorem outcome_keeps_valid {s s' : State} {k c : Bytes} {ttl now : Int} {r : FRes}
    (o : Outcome4 s k c ttl now s' r) {x : Entry} (hx : x ∈ s.list) (hv : valid x (unixMilli now) = true) : x ∈ s'.list := by
  cases o with
  | closed hc hs hr => subst hs; exact hx
  | found e hc hf hv' hr hl hsz hn fr =>
    rcases hl with hl | hl
    · rw [hl]; exact hx
    · rw [hl]; simp only [moveToBack, List.mem_append, List.mem_singleton]
      by_cases hxe : x = e
      · exact Or.inr hxe
      · exact Or.inl ((List.mem_erase_of_ne hxe).2 hx)
  | expired e hc hf hv' hr hl hsz hn fr =>
    rw [hl]
    have hxe : x ≠ e := by intro h; subst h; rw [hv] at hv'; cases hv'
    exact List.mem_append_left _ ((List.mem_erase_of_ne hxe).2 hx)
  | absent hc hf hr hl hsz hn fr => rw [hl]; exact List.mem_append_left _ hx

theorem flights2_keeps_valid (multi : List (Bytes × Bytes × Int)) (now : Int) (ms : List Nat) (s : State)
    (res : List (Option FRes)) (out : List Nat) {x : Entry} (hx : x ∈ s.list) (hv : valid x (unixMilli now) = true) :
    x ∈ (flights2 multi now ms s res out).1.list := by
  induction ms generalizing s res out with
  | nil => exact hx
  | cons i rest ih =>
    simp only [flights2]
    split
    · exact ih _ _ _ hx
    · rename_i k c ttl hm
      exact ih _ _ _ (outcome_keeps_valid (locked_cases s k c ttl now) hx hv)

/-- the second loop of `Flights` files every answer under the identity of the command at that position -/
theorem flights2_own (multi : List (Bytes × Bytes × Int)) (now : Int) (ms : List Nat) (s : State)
    (res : List (Option FRes)) (out : List Nat) (j : Nat) (r : FRes) (hr : r ≠ .send)
    (h : (flights2 multi now ms s res out).2.1[j]? = some (some r)) :
    res[j]? = some (some r) ∨ ∃ k c ttl, multi[j]? = some (k, c, ttl) ∧
      ∃ e ∈ (flights2 multi now ms s res out).1.list, e.key = k ∧ e.cmd = c ∧ r = resOf e := by
  induction ms generalizing s res out with
  | nil => exact Or.inl h
  | cons i rest ih =>
    cases hm : multi[i]? with
    | none =>
      simp only [flights2, hm] at h ⊢
      exact ih _ _ _ h
    | some x =>
      obtain ⟨k, c, ttl⟩ := x
      simp only [flights2, hm] at h ⊢
      rcases ih _ _ _ h with hh | hh
      · rw [List.getElem?_set] at hh
        split at hh
        · rename_i hij
          subst hij
          split at hh
          · simp only [Option.some.injEq] at hh
            right
            have o := locked_cases s k c ttl now
            obtain ⟨e, he, hk, hc, hv, hre⟩ := outcome_own_entry o (hh ▸ hr)
            exact ⟨k, c, ttl, hm, e, flights2_keeps_valid _ _ _ _ _ _ (outcome_keeps_valid o he hv) hv, hk, hc, hh ▸ hre⟩
          · cases hh
        · exact Or.inl hh
      · exact Or.inr hh

/-- **`Flights` never answers a command with another command's entry**: whatever it puts at position `j` (a hit in
    `results[j]` or a pending entry in `entries[j]`) is the answer `resOf e` of an entry `e` of the resulting store
    whose (key, cmd) is that of the j-th command of the batch. -/
theorem flights_own (s : State) (now : Int) (multi : List (Bytes × Bytes × Int)) (j : Nat) (r : FRes) (hr : r ≠ .send)
    (h : (flights s now multi).2.1[j]? = some (some r)) :
    ∃ k c ttl, multi[j]? = some (k, c, ttl) ∧
      ∃ e ∈ (flights s now multi).1.list, e.key = k ∧ e.cmd = c ∧ r = resOf e := by
  unfold flights at h ⊢
  have h1 := flights1_list (unixMilli now) multi 0 { s := s, res := [], moves := [], missed := [] }
  obtain ⟨tail, t1, t2, t3⟩ := flights1_res (unixMilli now) multi 0 { s := s, res := [], moves := [], missed := [] }
  generalize flights1 (unixMilli now) multi 0 { s := s, res := [], moves := [], missed := [] } = a at h h1 t1 t3
  simp only [List.nil_append] at t1 h1 t3
  have hmv : ∀ e ∈ a.moves, e ∈ a.s.list := by
    intro e he
    rcases h1.2.2.2 e he with h | h
    · simp at h
    · rw [h1.1]; exact h
  -- an entry found by the first loop, seen in the list after the moves
  have hphase1 : a.res[j]? = some (some r) →
      ∃ k c ttl, multi[j]? = some (k, c, ttl) ∧
        ∃ e ∈ a.moves.foldl moveToBack a.s.list, valid e (unixMilli now) = true ∧ e.key = k ∧ e.cmd = c ∧ r = resOf e := by
    intro hh
    rw [t1] at hh
    obtain ⟨k, c, ttl, e, g1, g2, g3, g4, g5⟩ := t3 j _ hh
    have := find?_some g3
    exact ⟨k, c, ttl, g1, e, (mem_foldl_moveToBack _ _ hmv e).2 (by rw [h1.1]; exact this.1), g4, this.2.1, this.2.2, g5⟩
  simp only at h ⊢
  by_cases hm : a.missed.isEmpty = true
  · rw [if_pos hm] at h ⊢
    obtain ⟨k, c, ttl, g1, e, he, _, hk, hc, hre⟩ := hphase1 h
    exact ⟨k, c, ttl, g1, e, he, hk, hc, hre⟩
  · rw [if_neg hm] at h ⊢
    by_cases hcl : a.s.closed = true
    · rw [if_pos hcl] at h ⊢
      obtain ⟨k, c, ttl, g1, e, he, _, hk, hc, hre⟩ := hphase1 h
      exact ⟨k, c, ttl, g1, e, he, hk, hc, hre⟩
    · rw [if_neg hcl] at h ⊢
      rcases flights2_own multi now a.missed _ a.res [] j r hr h with hh | hh
      · obtain ⟨k, c, ttl, g1, e, he, hv, hk, hc, hre⟩ := hphase1 hh
        exact ⟨k, c, ttl, g1, e, flights2_keeps_valid _ _ _ _ _ _ he hv, hk, hc, hre⟩
      · exact hh

end Rv.Lru
