import Rv.Lemmas.RingInvB
import Rv.Spec.Fifo
namespace Rv.Ring
open Rv.Spec

theorem posList_take (f : Nat → Nat) (n m : Nat) (h : n ≤ m) : (posList f m).take n = posList f n := by
  unfold posList
  rw [← List.map_take, List.take_range, Nat.min_eq_left h]

theorem posList_length (f : Nat → Nat) (n : Nat) : (posList f n).length = n := by simp [posList]

theorem posList_nodup (f g : Nat → Nat) (n : Nat) (h : ∀ p, 1 ≤ p → p ≤ n → g (f p) = p) :
    (posList f n).Nodup := by
  induction n with
  | zero => simp [posList]
  | succ n ih =>
    rw [posList_succ, List.nodup_append]
    refine ⟨ih (fun p a b => h p a (by omega)), by simp, ?_⟩
    intro a ha b hb
    simp at hb; subst hb
    simp [posList] at ha
    obtain ⟨i, hi, e⟩ := ha
    intro e2
    have h1 := h (i + 1) (by omega) (by omega)
    have h2 := h (n + 1) (by omega) (by omega)
    rw [e, e2, h2] at h1; omega

theorem ndeliv_le {k : Nat} {σ : State} (h : Inv k σ) : ndeliv σ ≤ σ.read1 := by
  have := h.a.r21
  unfold ndeliv; split <;> omega

theorem clog_prefix {k : Nat} {σ : State} (h : Inv k σ) :
    σ.clog = (σ.wlog.take σ.clog.length).map fun c => (c, c) := by
  have hl : σ.clog.length = ndeliv σ := by rw [h.b.clog_eq]; simp [posList_length]
  rw [hl, h.b.wlog_eq, posList_take _ _ _ (ndeliv_le h)]; exact h.b.clog_eq


theorem take_logs {k : Nat} {σ : State} (h : Inv k σ) (s : Nat) (hs : s < 2 ^ k)
    (hm : (σ.slot s).mark = 1) (b : Bool) :
    ∃ c, (take σ s b).wlog = σ.wlog ++ [c] ∧ (take σ s b).clog = σ.clog := by
  obtain ⟨c, hc, _⟩ := h.b.occ s hs (by omega)
  exact ⟨c, by simp [Ring.take, hc], rfl⟩

/-- what a single transition does to the two observable logs -/
theorem log_step {k : Nat} (hk : k ≤ 32) {σ : State} (h : Inv k σ) (l : Label) (he : enabled k l σ = true) :
    ((apply k l σ).wlog = σ.wlog ∧ (apply k l σ).clog = σ.clog) ∨
    (∃ c, (apply k l σ).wlog = σ.wlog ++ [c] ∧ (apply k l σ).clog = σ.clog) ∨
    (∃ c, (apply k l σ).clog = σ.clog ++ [(c, c)] ∧ (apply k l σ).wlog = σ.wlog) := by
  have hp := pow_pos' k
  have hsl : ∀ x, slotOf k x < 2 ^ k := fun x => by rw [slotOf_eq k _ hk]; exact Nat.mod_lt _ hp
  cases l with
  | arrive => exact Or.inl ⟨rfl, rfl⟩
  | enter c =>
    left; simp only [Ring.apply]; split
    · split <;> exact ⟨rfl, rfl⟩
    · exact ⟨rfl, rfl⟩
  | bcast c => left; simp only [Ring.apply]; split <;> exact ⟨rfl, rfl⟩
  | wTry =>
    simp only [Ring.apply]; split
    · rename_i hm; exact Or.inr (Or.inl (take_logs h _ (hsl _) hm _))
    · exact Or.inl ⟨rfl, rfl⟩
  | wWait =>
    simp only [Ring.apply]; split
    · rename_i hm; exact Or.inr (Or.inl (take_logs h _ (hsl _) hm _))
    · exact Or.inl ⟨rfl, rfl⟩
  | wWake =>
    simp only [Ring.apply]; split
    · rename_i s hw
      split
      · rename_i hm
        have : s < 2 ^ k := by rw [h.a.wwk s hw]; exact Nat.mod_lt _ hp
        exact Or.inr (Or.inl (take_logs h _ this hm _))
      · exact Or.inl ⟨rfl, rfl⟩
    · exact Or.inl ⟨rfl, rfl⟩
  | rBegin => left; simp only [Ring.apply]; split <;> exact ⟨rfl, rfl⟩
  | rDeliver c =>
    simp only [Ring.apply]; split
    · rename_i s r hr
      simp only [enabled, hr] at he
      have := (h.b.deliver h.a c s r hr (by simpa using he)).1
      subst this
      exact Or.inr (Or.inr ⟨c, rfl, rfl⟩)
    · exact Or.inl ⟨rfl, rfl⟩
  | rUnlock => left; simp only [Ring.apply]; split <;> exact ⟨rfl, rfl⟩
  | rSignal w =>
    left; simp only [Ring.apply]; split
    · split <;> exact ⟨rfl, rfl⟩
    · exact ⟨rfl, rfl⟩

def dup (c : Nat) : Nat × Nat := (c, c)

/-- simulation relation between a ring state and (history, state) of the FIFO specification -/
structure Sim (σ : State) (evs : List Fifo.Ev) (q : Fifo.Q) : Prop where
  run : Fifo.run Fifo.empty evs = some q
  deqs : Fifo.deqs evs = σ.wlog
  fins : Fifo.fins evs = σ.clog
  enqs : Fifo.enqs evs = σ.wlog.map dup
  pend : q.pending = []
  writ : q.written = (σ.wlog.drop σ.clog.length).map dup

theorem sim_step {k : Nat} (hk : k ≤ 32) {σ : State} (h : Inv k σ) (h' : Inv k (apply k l σ))
    (he : enabled k l σ = true) {evs : List Fifo.Ev} {q : Fifo.Q} (sim : Sim σ evs q) :
    ∃ evs' q', Sim (apply k l σ) (evs ++ evs') q' := by
  rcases log_step hk h l he with ⟨e1, e2⟩ | ⟨c, e1, e2⟩ | ⟨c, e1, e2⟩
  · refine ⟨[], q, ?_⟩
    simp only [List.append_nil]
    exact ⟨sim.run, by rw [e1]; exact sim.deqs, by rw [e2]; exact sim.fins, by rw [e1]; exact sim.enqs,
      sim.pend, by rw [e1, e2]; exact sim.writ⟩
  · have hle : σ.clog.length ≤ σ.wlog.length := by
      have := clog_prefix h
      have := congrArg List.length this
      simp at this; omega
    refine ⟨[.enq c c, .deq c], { pending := [], written := q.written ++ [(c, c)] }, ?_⟩
    refine ⟨?_, ?_, ?_, ?_, rfl, ?_⟩
    · rw [Fifo.run_append, sim.run]
      simp [Fifo.run, Fifo.step, sim.pend]
    · rw [Fifo.deqs_append, sim.deqs, e1]; rfl
    · rw [Fifo.fins_append, sim.fins, e2]; simp [Fifo.fins]
    · rw [Fifo.enqs_append, sim.enqs, e1]; simp [Fifo.enqs, dup]
    · rw [e1, e2, List.drop_append_of_le_length hle, List.map_append, sim.writ]; rfl
  · have hp := clog_prefix h'
    rw [e1, e2] at hp
    simp only [List.length_append, List.length_cons, List.length_nil] at hp
    have hlt : σ.clog.length < σ.wlog.length := by
      have := congrArg List.length hp
      simp at this; omega
    have hget : σ.wlog[σ.clog.length] = c := by
      rw [List.take_succ_eq_append_getElem hlt, List.map_append, ← clog_prefix h] at hp
      have := List.append_cancel_left hp
      simp at this; exact this.symm
    have hdrop : σ.wlog.drop σ.clog.length = c :: σ.wlog.drop (σ.clog.length + 1) := by
      rw [← hget]; exact List.drop_eq_getElem_cons hlt
    refine ⟨[.fin c c], { q with written := (σ.wlog.drop (σ.clog.length + 1)).map dup }, ?_⟩
    refine ⟨?_, ?_, ?_, ?_, sim.pend, ?_⟩
    · rw [Fifo.run_append, sim.run]
      have : q.written = (c, c) :: (σ.wlog.drop (σ.clog.length + 1)).map dup := by
        rw [sim.writ, hdrop]; rfl
      simp [Fifo.run, Fifo.step, this]
    · rw [Fifo.deqs_append, sim.deqs, e2]; simp [Fifo.deqs]
    · rw [Fifo.fins_append, sim.fins, e1]; rfl
    · rw [Fifo.enqs_append, sim.enqs, e2]; simp [Fifo.enqs]
    · rw [e1, e2]; simp


end Rv.Ring
