/-
Invariants of the flow-buffer model (Rv/Model/FlowBuffer.lean) and its simulation by the
FIFO specification. Helper lemmas for Rv/Props/C02.lean.
-/
import Rv.Model.FlowBuffer
import Rv.Lemmas.RingFlowU
import Rv.Spec.Fifo
namespace Rv.Flow
open Rv.Spec

/-- the command whose reply the reader still has to send -/
def pcur (σ : State) : List Nat :=
  match σ.cur, σ.delivered with
  | some (_, c), false => [c]
  | _, _ => []

def dup (c : Nat) : Nat × Nat := (c, c)

structure InvF (σ : State) : Prop where
  cons : σ.f.length + σ.hold.length + σ.w.length + σ.r.length + (if σ.cur.isSome then 1 else 0) = σ.size
  enq : σ.elog = σ.wlog ++ σ.w.map (·.2)
  wr : σ.wlog = σ.clog.map (·.1) ++ pcur σ ++ σ.r.map (·.2)

theorem InvF.init (size : Nat) : InvF (init size) := by
  refine ⟨?_, ?_, ?_⟩ <;> simp [Flow.init, pcur]

/-- simulation relation with the FIFO specification; `send` is the linearisation point of enqueue -/
structure Sim (σ : State) (evs : List Fifo.Ev) (q : Fifo.Q) : Prop where
  run : Fifo.run Fifo.empty evs = some q
  deqs : Fifo.deqs evs = σ.wlog
  fins : Fifo.fins evs = σ.clog
  enqs : Fifo.enqs evs = σ.elog.map dup
  pend : q.pending = σ.w.map (fun t => dup t.2)
  writ : q.written = (pcur σ ++ σ.r.map (·.2)).map dup

theorem step_inv_sim {σ : State} (h : InvF σ) (hu : InvU σ) (l : Label) (he : enabled l σ = true)
    {evs : List Fifo.Ev} {q : Fifo.Q} (sim : Sim σ evs q) :
    InvF (apply l σ) ∧ ∃ evs' q', Sim (apply l σ) (evs ++ evs') q' := by
  cases l with
  | recv =>
    simp only [Flow.apply]
    split
    · rename_i ch rest hf
      refine ⟨⟨?_, h.enq, ?_⟩, [], q, ?_⟩
      · have := h.cons; simp only [hf, List.length_cons] at this ⊢; omega
      · have := h.wr; simpa [pcur] using this
      · simp only [List.append_nil]
        exact ⟨sim.run, sim.deqs, sim.fins, sim.enqs, sim.pend, by have := sim.writ; simpa [pcur] using this⟩
    · exact ⟨h, [], q, by simpa using sim⟩
  | send c =>
    simp only [Flow.apply]
    split
    · rename_i c' ch hf
      have hmem : (c', ch) ∈ σ.hold := List.mem_of_find?_eq_some hf
      have hlen := List.length_erase_of_mem hmem
      have hpos : 0 < σ.hold.length := List.length_pos_of_mem hmem
      refine ⟨⟨?_, ?_, ?_⟩, [.enq c c], { q with pending := q.pending ++ [(c, c)] }, ?_⟩
      · have := h.cons; simp only [List.length_append, List.length_cons, List.length_nil, hlen] at this ⊢; omega
      · simp only; rw [h.enq]; simp
      · have := h.wr; simpa [pcur] using this
      · refine ⟨?_, ?_, ?_, ?_, ?_, ?_⟩
        · rw [Fifo.run_append, sim.run]; simp [Fifo.run, Fifo.step]
        · rw [Fifo.deqs_append, sim.deqs]; simp [Fifo.deqs]
        · rw [Fifo.fins_append]; simp [Fifo.fins]; exact sim.fins
        · rw [Fifo.enqs_append, sim.enqs]; simp [Fifo.enqs, dup]
        · simp [sim.pend, dup]
        · have := sim.writ; simpa [pcur] using this
    · exact ⟨h, [], q, by simpa using sim⟩
  | wTake =>
    simp only [Flow.apply]
    split
    · rename_i t rest hw
      refine ⟨⟨?_, ?_, ?_⟩, [.deq t.2], { pending := rest.map (fun t => dup t.2), written := q.written ++ [dup t.2] }, ?_⟩
      · have := h.cons; simp only [hw, List.length_cons, List.length_append, List.length_nil] at this ⊢; omega
      · simp only; rw [h.enq, hw]; simp
      · simp only; rw [h.wr]; simp [pcur]
      · refine ⟨?_, ?_, ?_, ?_, rfl, ?_⟩
        · rw [Fifo.run_append, sim.run]
          have : q.pending = (t.2, t.2) :: rest.map (fun t => dup t.2) := by rw [sim.pend, hw]; rfl
          simp [Fifo.run, Fifo.step, this, dup]
        · rw [Fifo.deqs_append, sim.deqs]; simp [Fifo.deqs]
        · rw [Fifo.fins_append]; simp [Fifo.fins]; exact sim.fins
        · rw [Fifo.enqs_append, sim.enqs]; simp [Fifo.enqs]
        · simp only; rw [sim.writ]; simp [pcur]
    · exact ⟨h, [], q, by simpa using sim⟩
  | rBegin =>
    simp only [Flow.apply]
    have hc : σ.cur = none := by
      simp only [enabled, Bool.and_eq_true] at he
      have := he.1; cases hcur : σ.cur <;> simp_all
    split
    · rename_i t rest hr
      have e0 : pcur σ = [] := by simp [pcur, hc]
      obtain ⟨ch, cmd⟩ := t
      refine ⟨⟨?_, h.enq, ?_⟩, [], q, ?_⟩
      · have := h.cons; simp only [hr, hc, List.length_cons] at this ⊢; simp at this ⊢; omega
      · simp only; rw [h.wr, e0, hr]; simp [pcur]
      · simp only [List.append_nil]
        exact ⟨sim.run, sim.deqs, sim.fins, sim.enqs, sim.pend, by rw [sim.writ, e0, hr]; simp [pcur]⟩
    · exact ⟨h, [], q, by simpa using sim⟩
  | rDeliver c =>
    simp only [Flow.apply]
    split
    · rename_i ch cmd hcur
      have hd : σ.delivered = false := by
        simp only [enabled, hcur, Bool.and_eq_true] at he
        simpa using he.1
      have e0 : pcur σ = [cmd] := by simp [pcur, hcur, hd]
      have hcc : c = cmd := by
        simp only [enabled, hcur, Bool.and_eq_true] at he
        exact hu.deliver_eq hcur (by simpa using he.2)
      subst hcc
      refine ⟨⟨h.cons, h.enq, ?_⟩, [.fin c c], { q with written := (σ.r.map (·.2)).map dup }, ?_⟩
      · simp only; rw [h.wr, e0]; simp [pcur, hcur]
      · refine ⟨?_, ?_, ?_, ?_, sim.pend, ?_⟩
        · rw [Fifo.run_append, sim.run]
          have : q.written = (c, c) :: (σ.r.map (·.2)).map dup := by rw [sim.writ, e0]; rfl
          simp [Fifo.run, Fifo.step, this]
        · rw [Fifo.deqs_append, sim.deqs]; simp [Fifo.deqs]
        · rw [Fifo.fins_append]; simp [Fifo.fins, sim.fins]
        · rw [Fifo.enqs_append, sim.enqs]; simp [Fifo.enqs]
        · simp [pcur, hcur]
    · exact ⟨h, [], q, by simpa using sim⟩
  | rFinish =>
    simp only [Flow.apply]
    split
    · rename_i ch cmd hcur
      have hd : σ.delivered = true := by
        simp only [enabled, Bool.and_eq_true] at he
        exact he.1.2
      have e0 : pcur σ = [] := by simp [pcur, hcur, hd]
      refine ⟨⟨?_, h.enq, ?_⟩, [], q, ?_⟩
      · have := h.cons; simp only [hcur, List.length_append, List.length_cons, List.length_nil] at this ⊢
        simp at this ⊢; omega
      · simp only; rw [h.wr, e0]; simp [pcur]
      · simp only [List.append_nil]
        exact ⟨sim.run, sim.deqs, sim.fins, sim.enqs, sim.pend, by rw [sim.writ, e0]; simp [pcur]⟩
    · exact ⟨h, [], q, by simpa using sim⟩

theorem reachable_inv_sim {size : Nat} {σ : State} (h : Reachable size σ) :
    InvF σ ∧ σ.size = size ∧ ∃ evs q, Sim σ evs q := by
  have hu : ∀ {τ : State}, Reachable size τ → InvU τ := InvU.of_reachable
  induction h with
  | init =>
    refine ⟨InvF.init size, rfl, [], Fifo.empty, ?_⟩
    refine ⟨rfl, rfl, rfl, rfl, rfl, rfl⟩
  | step l hr he ih =>
    obtain ⟨hi, hs, evs, q, sim⟩ := ih
    obtain ⟨hi', evs', q', sim'⟩ := step_inv_sim hi (hu hr) l he sim
    refine ⟨hi', ?_, _, _, sim'⟩
    rw [← hs]
    cases l <;> simp only [Flow.apply] <;> split <;> rfl


/-- caller c is inside PutOne (holds a token) or waits for its reply -/
def pending (σ : State) (c : Nat) : Prop := (∃ ch, (c, ch) ∈ σ.hold) ∨ (∃ ch, σ.pc c = .filled ch)

theorem no_deadlock {size : Nat} {σ : State} (h : Reachable size σ) (c : Nat) (hc : pending σ c) :
    ∃ l, l ≠ .recv ∧ enabled l σ = true := by
  obtain ⟨i, _, _⟩ := reachable_inv_sim h
  have u := InvU.of_reachable h
  have hcons := i.cons
  rcases hc with ⟨ch, hm⟩ | ⟨ch, hp⟩
  · refine ⟨.send c, by simp, ?_⟩
    have hpos := List.length_pos_of_mem hm
    simp only [enabled]
    cases hf : σ.hold.find? (fun p => p.1 == c) with
    | none =>
      have := List.find?_eq_none.1 hf (c, ch) hm
      simp at this
    | some p => simp; omega
  · rcases u.fil c ch hp with a | a | a
    · refine ⟨.wTake, by simp, ?_⟩
      have : 0 < σ.w.length := List.length_pos_of_mem a
      have hne : σ.w ≠ [] := List.ne_nil_of_length_pos this
      simp [enabled, hne]; omega
    · have hr : 0 < σ.r.length := List.length_pos_of_mem a
      have hne : σ.r ≠ [] := List.ne_nil_of_length_pos hr
      cases hcur : σ.cur with
      | none => exact ⟨.rBegin, by simp, by simp [enabled, hcur, hne]⟩
      | some t =>
        obtain ⟨ch', cmd'⟩ := t
        cases hd : σ.delivered with
        | true =>
          refine ⟨.rFinish, by simp, ?_⟩
          simp [hcur] at hcons
          simp [enabled, hcur, hd]; omega
        | false =>
          have := u.tok ch' cmd' (Or.inr (Or.inr ⟨hcur, hd⟩))
          exact ⟨.rDeliver cmd', by simp, by simp [enabled, hcur, hd, this]⟩
    · exact ⟨.rDeliver c, by simp, by simp [enabled, a.1, a.2, hp]⟩



/-- every completed (command, receiver) pair is diagonal: the receiver is the command's caller -/
theorem clog_diag {size : Nat} {σ : State} (h : Reachable size σ) : ∀ p, p ∈ σ.clog → p.1 = p.2 := by
  induction h with
  | init => intro p hp; simp [Flow.init] at hp
  | step l hr he ih =>
    have u := InvU.of_reachable hr
    cases l with
    | rDeliver c =>
      simp only [Flow.apply]
      split
      · rename_i ch cmd hcur
        simp only [enabled, hcur, Bool.and_eq_true] at he
        have hcc : c = cmd := u.deliver_eq hcur (by simpa using he.2)
        intro p hp
        simp only [List.mem_append, List.mem_singleton] at hp
        rcases hp with hp | hp
        · exact ih p hp
        · subst hp; exact hcc.symm
      · exact ih
    | recv => simp only [Flow.apply]; split <;> exact ih
    | send c => simp only [Flow.apply]; split <;> exact ih
    | wTake => simp only [Flow.apply]; split <;> exact ih
    | rBegin => simp only [Flow.apply]; split <;> exact ih
    | rFinish => simp only [Flow.apply]; split <;> exact ih

end Rv.Flow
