/-
Pipe life model: which steps touch the wire log and the calls table.
-/
import Rv.Lemmas.PipeLifeCount
namespace Rv.PipeLife

theorem deliver_wire (o : Owner) (r : Res) (s : St) : (deliver o r s).wire = s.wire := by
  cases o <;> simp only [deliver]
  split <;> rfl

theorem deliver_queue (o : Owner) (r : Res) (s : St) : (deliver o r s).queue = s.queue := by
  cases o <;> simp only [deliver]
  split <;> rfl

/-- how the calls table changes -/
def CallsChange (s s' : St) : Prop :=
  s'.calls = s.calls ∨ (∃ i cs, s'.calls = s.calls.modify i (setCallSt cs)) ∨ (∃ i, s'.calls = s.calls.modify i setDone)

theorem deliver_calls (o : Owner) (r : Res) (s : St) : CallsChange s (deliver o r s) := by
  cases o <;> simp only [deliver]
  · split
    · exact Or.inr (Or.inl ⟨_, _, rfl⟩)
    · exact Or.inr (Or.inl ⟨_, _, rfl⟩)
    · exact Or.inl rfl
  · exact Or.inl rfl
  · exact Or.inl rfl

theorem callsChange_of {s s0 s' : St} (h0 : s0.calls = s.calls) (h : CallsChange s0 s') : CallsChange s s' := by
  unfold CallsChange at h ⊢; rw [h0] at h; exact h

set_option hygiene false in
macro "callsP" : tactic =>
  `(tactic| (crunch h <;> first | exact Or.inl rfl | exact Or.inr (Or.inl ⟨_, _, rfl⟩) | exact Or.inr (Or.inr ⟨_, rfl⟩) | (unfold CallsChange; simp only [setSt, leaveSt, startBg_calls]; first | done | exact Or.inl rfl | exact Or.inr (Or.inl ⟨_, _, rfl⟩))))

theorem step_calls {fix : Bool} {s s' : St} {l : Label} (h : step fix s l = some s') : CallsChange s s' := by
  cases l <;> simp only [step] at h
  case enter i => unfold enter at h; callsP
  case decide i => unfold decide at h; callsP
  case put i => unfold put at h; callsP
  case putFail i => unfold putFail at h; callsP
  case syncOk i => unfold syncOk at h; callsP
  case syncErr i => unfold syncErr at h; callsP
  case leave i => unfold leave at h; callsP
  case abort i => unfold abort at h; callsP
  case cancel i => unfold cancel at h; callsP
  case connBreak => unfold connBreak at h; callsP
  case pingFail => unfold pingFail at h; callsP
  case wTake => unfold wTake at h; callsP
  case wFlush => unfold wFlush at h; callsP
  case rFetch => unfold rFetch at h; callsP
  case rDeliver => unfold rDeliver at h; crunch h; exact callsChange_of rfl (deliver_calls _ _ _)
  case rErr =>
    unfold rErr at h; crunch h
    show CallsChange s (deferDeliver s)
    unfold deferDeliver; split
    · exact callsChange_of rfl (deliver_calls _ _ _)
    · exact Or.inl rfl
  case tdSpawn => unfold tdSpawn at h; callsP
  case bgPingPut => unfold bgPingPut at h; callsP
  case tdIter =>
    unfold tdIter at h; crunch h
    · exact Or.inl rfl
    · exact callsChange_of rfl (deliver_calls _ _ _)
    · exact Or.inl rfl
  case tdClose => unfold tdClose at h; callsP
  case closeEnter w => unfold closeEnter at h; callsP
  case closeCas => unfold closeCas at h; callsP
  case closePing => unfold closePing at h; callsP
  case closeGot => unfold closeGot at h; callsP
  case closeGrace => unfold closeGrace at h; callsP
  case closeTail => unfold closeTail at h; callsP

theorem ctxDoneOf_setCallSt {s s' : St} {i : Nat} {cs : CS} (h : s'.calls = s.calls.modify i (setCallSt cs)) (j : Nat) :
    ctxDoneOf s' j = ctxDoneOf s j := by
  unfold ctxDoneOf; rw [h, List.getElem?_modify]
  cases s.calls[j]? <;> simp
  split <;> simp [setCallSt]

/-- a done context stays done -/
theorem ctxDone_mono {fix : Bool} {s s' : St} {l : Label} (h : step fix s l = some s') {j : Nat}
    (hd : ctxDoneOf s j = true) : ctxDoneOf s' j = true := by
  rcases step_calls h with hc | ⟨i, cs, hc⟩ | ⟨i, hc⟩
  · unfold ctxDoneOf at hd ⊢; rw [hc]; exact hd
  · rw [ctxDoneOf_setCallSt hc]; exact hd
  · unfold ctxDoneOf at hd ⊢; rw [hc, List.getElem?_modify]
    cases hj : s.calls[j]? with
    | none => rw [hj] at hd; cases hd
    | some c => rw [hj] at hd; simp; split <;> simp_all [setDone]

/-- how the wire log changes: only the sync path of `decide` and the writer's take extend it -/
def WireChange (s s' : St) (l : Label) : Prop :=
  s'.wire = s.wire ∨
  (∃ i w, l = .decide i ∧ stOf s i = some (.counted w) ∧ s'.wire = s.wire ++ [i]) ∨
  (∃ o q, l = .wTake ∧ takeFirst s.queue = some (o, q) ∧ s'.wire = wireAdd o s.wire)

set_option hygiene false in
macro "wireP" : tactic =>
  `(tactic| (crunch h <;> (refine Or.inl ?_; first | rfl | (simp only [setSt, leaveSt, startBg_wire, deliver_wire]; try rfl))))

theorem step_wire {fix : Bool} {s s' : St} {l : Label} (h : step fix s l = some s') : WireChange s s' l := by
  cases l <;> simp only [step] at h
  case enter i => unfold enter at h; wireP
  case decide i =>
    unfold decide at h; crunch h
    · exact Or.inl rfl
    · exact Or.inl rfl
    · refine Or.inl ?_; simp only [setSt, startBg_wire]
    · exact Or.inr (Or.inl ⟨i, _, rfl, by assumption, rfl⟩)
    · exact Or.inl rfl
  case put i => unfold put at h; wireP
  case putFail i => unfold putFail at h; wireP
  case syncOk i => unfold syncOk at h; wireP
  case syncErr i => unfold syncErr at h; wireP
  case leave i => unfold leave at h; wireP
  case abort i => unfold abort at h; wireP
  case cancel i => unfold cancel at h; wireP
  case connBreak => unfold connBreak at h; wireP
  case pingFail => unfold pingFail at h; wireP
  case wTake =>
    unfold wTake at h; crunch h
    exact Or.inr (Or.inr ⟨_, _, rfl, by assumption, rfl⟩)
  case wFlush => unfold wFlush at h; wireP
  case rFetch => unfold rFetch at h; wireP
  case rDeliver => unfold rDeliver at h; wireP
  case rErr =>
    unfold rErr at h; crunch h
    refine Or.inl ?_
    show (deferDeliver s).wire = s.wire
    unfold deferDeliver; split
    · rw [deliver_wire]
    · rfl
  case tdSpawn => unfold tdSpawn at h; wireP
  case bgPingPut => unfold bgPingPut at h; wireP
  case tdIter => unfold tdIter at h; wireP
  case tdClose => unfold tdClose at h; wireP
  case closeEnter w => unfold closeEnter at h; wireP
  case closeCas => unfold closeCas at h; wireP
  case closePing => unfold closePing at h; wireP
  case closeGot => unfold closeGot at h; wireP
  case closeGrace => unfold closeGrace at h; wireP
  case closeTail => unfold closeTail at h; wireP

theorem takeFirst_mem (q : List Entry) (o : Owner) (q' : List Entry) (h : takeFirst q = some (o, q')) :
    o ∈ q.map (·.owner) := by
  induction q generalizing q' with
  | nil => simp [takeFirst] at h
  | cons e es ih =>
    unfold takeFirst at h
    split at h
    · split at h
      · rename_i o1 es1 heq
        injection h with h; injection h with h1 h2; subst h1
        simp [ih es1 heq]
      · cases h
    · injection h with h; injection h with h1 h2; subst h1; simp

/-- a call that is put on the wire is either entering the sync path or waits on a queued entry -/
theorem wire_only_live {fix : Bool} {s s' : St} {l : Label} (h : step fix s l = some s') (hc : InvC s) {i : Nat}
    (hi : i ∈ s'.wire) (hn : i ∉ s.wire) :
    (∃ w, stOf s i = some (.counted w)) ∨ stOf s i = some .waiting ∨ stOf s i = some .aborted := by
  rcases step_wire h with hw | ⟨k, w, _, hk, hw⟩ | ⟨o, q, _, htf, hw⟩
  · rw [hw] at hi; exact absurd hi hn
  · rw [hw] at hi
    simp only [List.mem_append, List.mem_singleton] at hi
    rcases hi with hi | hi
    · exact absurd hi hn
    · subst hi; exact Or.inl ⟨w, hk⟩
  · rw [hw] at hi
    cases o with
    | call k =>
      simp only [wireAdd, List.mem_append, List.mem_singleton] at hi
      rcases hi with hi | hi
      · exact absurd hi hn
      · subst hi
        have hmem := takeFirst_mem _ _ _ htf
        have hcnt : 0 < (slots s).count (.call i) := by
          apply List.count_pos_iff.mpr
          simp only [slots, List.mem_append]; exact Or.inr hmem
        rw [hc.s1 i] at hcnt
        exact Or.inr (slotW_pos hcnt)
    | bgPing => exact absurd hi hn
    | closePing => exact absurd hi hn

end Rv.PipeLife
