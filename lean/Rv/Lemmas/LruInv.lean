/-
Invariant of the LRU model (`Inv`): the recency list has at most one entry per
(key, cmd), the accounted size is the sum over completed entries (while open),
and a closed store has no list. Preserved by every operation.
-/
import Rv.Lemmas.LruList
namespace Rv.Lru

structure Inv (s : State) : Prop where
  nodup : KeysNodup s.list
  size : s.closed = false → s.size = sumC s.list
  closedNil : s.closed = true → s.list = []

theorem inv_init (mx base : Int) : Inv (Lru.init mx base) :=
  ⟨by simp [Lru.init, KeysNodup], by simp [Lru.init, sumC], by simp [Lru.init]⟩

/-- Inv only looks at list, size, closed -/
theorem inv_congr {s s' : State} (h : Inv s) (hl : s'.list = s.list) (hs : s'.size = s.size)
    (hc : s'.closed = s.closed) : Inv s' :=
  ⟨hl ▸ h.nodup, by rw [hl, hs, hc]; exact h.size, by rw [hl, hc]; exact h.closedNil⟩

theorem inv_moveToBack {s : State} (h : Inv s) {e : Entry} (he : e ∈ s.list) :
    Inv { s with list := moveToBack s.list e } :=
  ⟨h.nodup.moveToBack he, fun hc => by simpa [sumC_moveToBack he] using h.size hc,
   fun hc => by have := h.closedNil hc; rw [this] at he; cases he⟩

theorem inv_locked {s : State} (h : Inv s) (k c : Bytes) (ttl now : Int) : Inv (Lru.locked s k c ttl now).1 := by
  unfold Lru.locked
  split
  · exact h
  · rename_i hc
    have hc : s.closed = false := by simpa using hc
    have h1 : Inv (ensureKc s k) := inv_congr h (by unfold ensureKc; split <;> rfl) (by unfold ensureKc; split <;> rfl) (by unfold ensureKc; split <;> rfl)
    have hc1 : (ensureKc s k).closed = false := by unfold ensureKc; split <;> simpa using hc
    generalize ensureKc s k = s1 at h1 hc1
    simp only
    split
    · rename_i e hf
      have hf' := find?_some hf
      split
      · have h2 : Inv (bumpHits s1 k).1 := inv_congr h1 rfl rfl rfl
        exact inv_moveToBack h2 hf'.1
      · rename_i hv
        refine ⟨?_, ?_, ?_⟩
        · refine (h1.nodup.erase e).append_one ?_
          intro x hx hs
          exact mem_erase_not_sameKC h1.nodup hf'.1 hx ⟨hs.1.trans hf'.2.1.symm, hs.2.trans hf'.2.2.symm⟩
        · intro _
          have hpe : e.pend = false := by
            cases hp : e.pend
            · rfl
            · simp [valid, hp] at hv
          simp [sumC_append, sumC_erase hf'.1, sumC, contrib, hpe, h1.size hc1]
        · intro hcc; simp [hc1] at hcc
    · rename_i hf
      refine ⟨?_, ?_, ?_⟩
      · exact h1.nodup.append_one (fun x hx hs => find?_none hf x hx hs)
      · intro _; simp [sumC_append, sumC, contrib, h1.size hc1]
      · intro hcc; simp [hc1] at hcc


theorem inv_bump {s : State} (h : Inv s) (k : Bytes) : Inv (bumpHits s k).1 := inv_congr h rfl rfl rfl

theorem inv_flight {s : State} (h : Inv s) (k c : Bytes) (ttl now : Int) : Inv (Lru.flight s k c ttl now).1 := by
  unfold Lru.flight
  split
  · rename_i e hf
    split
    · simp only
      split
      · exact inv_moveToBack (inv_bump h k) (by
          split at hf
          · cases hf
          · exact (find?_some hf).1)
      · exact inv_bump h k
    · exact inv_locked h k c ttl now
  · exact inv_locked h k c ttl now

theorem flights1_list (nowMs : Int) (multi : List (Bytes × Bytes × Int)) (i : Nat) (a : P1) :
    (flights1 nowMs multi i a).s.list = a.s.list ∧ (flights1 nowMs multi i a).s.size = a.s.size ∧
    (flights1 nowMs multi i a).s.closed = a.s.closed ∧
    (∀ e ∈ (flights1 nowMs multi i a).moves, e ∈ a.moves ∨ e ∈ a.s.list) := by
  induction multi generalizing i a with
  | nil => exact ⟨rfl, rfl, rfl, fun e he => Or.inl he⟩
  | cons x rest ih =>
    obtain ⟨k, c, t⟩ := x
    simp only [flights1]
    split
    · rename_i e hf
      have hmem : e ∈ a.s.list := by
        split at hf
        · cases hf
        · exact (find?_some hf).1
      split
      · have := ih (i + 1) ⟨(bumpHits a.s k).1, a.res ++ [some (resOf e)],
            (if (bumpHits a.s k).2 % 1024 = 0 then a.moves ++ [e] else a.moves), a.missed⟩
        refine ⟨this.1, this.2.1, this.2.2.1, ?_⟩
        intro x hx
        rcases this.2.2.2 x hx with h | h
        · simp only at h
          split at h
          · rcases List.mem_append.1 h with h | h
            · exact Or.inl h
            · simp at h; subst h; exact Or.inr hmem
          · exact Or.inl h
        · exact Or.inr h
      · exact ih (i + 1) _
    · exact ih (i + 1) _

theorem flights1_frame (nowMs : Int) (multi : List (Bytes × Bytes × Int)) (i : Nat) (a : P1) :
    (flights1 nowMs multi i a).s.max = a.s.max ∧ (flights1 nowMs multi i a).s.base = a.s.base ∧
    (flights1 nowMs multi i a).s.done = a.s.done ∧ (flights1 nowMs multi i a).s.nextId = a.s.nextId := by
  induction multi generalizing i a with
  | nil => exact ⟨rfl, rfl, rfl, rfl⟩
  | cons x rest ih =>
    obtain ⟨k, c, t⟩ := x
    simp only [flights1]
    split
    · split
      · exact ih (i + 1) _
      · exact ih (i + 1) _
    · exact ih (i + 1) _

theorem inv_moves {s : State} (h : Inv s) (mv : List Entry) (hm : ∀ e ∈ mv, e ∈ s.list) :
    Inv { s with list := mv.foldl moveToBack s.list } := by
  induction mv generalizing s with
  | nil => exact h
  | cons e rest ih =>
    simp only [List.foldl_cons]
    have h1 := inv_moveToBack h (hm e List.mem_cons_self)
    have := ih h1 (by
      intro x hx
      have hxl := hm x (List.mem_cons_of_mem _ hx)
      simp only [Lru.moveToBack]
      by_cases hxe : x = e
      · subst hxe; simp
      · exact List.mem_append_left _ ((List.mem_erase_of_ne hxe).2 hxl))
    exact this

theorem inv_flights2 (multi : List (Bytes × Bytes × Int)) (now : Int) (ms : List Nat) {s : State} (h : Inv s)
    (res : List (Option FRes)) (out : List Nat) : Inv (Lru.flights2 multi now ms s res out).1 := by
  induction ms generalizing s res out with
  | nil => exact h
  | cons i rest ih =>
    simp only [Lru.flights2]
    split
    · exact ih h _ _
    · exact ih (inv_locked h _ _ _ _) _ _

theorem inv_flights {s : State} (h : Inv s) (now : Int) (multi : List (Bytes × Bytes × Int)) :
    Inv (Lru.flights s now multi).1 := by
  unfold Lru.flights
  have h1 := flights1_list (unixMilli now) multi 0 { s := s, res := [], moves := [], missed := [] }
  generalize flights1 (unixMilli now) multi 0 { s := s, res := [], moves := [], missed := [] } = a at h1
  simp only at h1
  have ha : Inv a.s := inv_congr h h1.1 h1.2.1 h1.2.2.1
  have hm : Inv { a.s with list := a.moves.foldl moveToBack a.s.list } :=
    inv_moves ha a.moves (by
      intro e he
      rcases h1.2.2.2 e he with h | h
      · simp at h
      · rw [h1.1]; exact h)
  simp only
  split
  · exact hm
  · split
    · exact hm
    · exact inv_flights2 _ _ _ hm _ _


theorem inv_gc {s : State} (h : Inv s) : Inv (gcHits s) := inv_congr h rfl rfl rfl

theorem inv_update {s : State} (h : Inv s) (k c : Bytes) (v : Nat) (vsz raw : Int) :
    Inv (Lru.update s k c v vsz raw).1 := by
  unfold Lru.update
  split
  · exact h
  · rename_i hc
    have hc : s.closed = false := by simpa using hc
    split
    · exact h
    · rename_i e hf
      have hf' := find?_some hf
      -- the state after the in-place write
      have key : ∀ s1 : State, Inv s1 → s1.closed = false →
          Inv (gcHits { s1 with list := (evictLoop s1.max s1.size s1.list).2.1, size := (evictLoop s1.max s1.size s1.list).1 }) := by
        intro s1 h1 hc1
        apply inv_gc
        refine ⟨h1.nodup.sublist (evict_sublist _ _ _), ?_, ?_⟩
        · intro _
          have := evict_size s1.max s1.size s1.list
          have := h1.size hc1
          simp only; omega
        · intro hcc; simp [hc1] at hcc
      simp only
      split
      · rename_i hp
        refine key _ ⟨?_, ?_, ?_⟩ hc
        · exact h.nodup.replace ⟨rfl, rfl⟩
        · intro _
          simp only [sumC_replace hf'.1, contrib, hp, h.size hc]
          simp
        · intro hcc; simp [hc] at hcc
      · exact key s h hc

theorem inv_cancel {s : State} (h : Inv s) (k c : Bytes) (err : Nat) : Inv (Lru.cancel s k c err) := by
  unfold Lru.cancel
  split
  · exact h
  · rename_i hc
    have hc : s.closed = false := by simpa using hc
    split
    · exact h
    · rename_i e hf
      have hf' := find?_some hf
      split
      · rename_i hp
        apply inv_gc
        refine ⟨h.nodup.erase e, ?_, ?_⟩
        · intro _; simp [sumC_erase hf'.1, contrib, hp, h.size hc]
        · intro hcc; simp [hc] at hcc
      · exact h

theorem sumC_filter_purge (l : List Entry) (k : Bytes) :
    sumC (l.filter (fun e => !(e.key == k && !e.pend))) =
      sumC l - sumSizes (l.filter fun e => e.key == k && !e.pend) := by
  induction l with
  | nil => simp [sumC, sumSizes]
  | cons a l ih =>
    simp only [List.filter_cons]
    by_cases hk : (a.key == k && !a.pend) = true
    · simp only [hk, Bool.not_true, sumC]
      have hp : a.pend = false := by simp at hk; exact hk.2
      simp [sumSizes, contrib, hp] at ih ⊢
      omega
    · have hk' : (a.key == k && !a.pend) = false := by simpa using hk
      simp only [hk', Bool.not_false, sumC, if_true]
      simp [sumSizes] at ih ⊢
      omega

theorem inv_purge {s : State} (h : Inv s) (k : Bytes) : Inv (Lru.purge s k) := by
  unfold Lru.purge
  apply inv_gc
  refine ⟨h.nodup.filter _, ?_, ?_⟩
  · intro hc
    have hc : s.closed = false := hc
    simp only [sumC_filter_purge, h.size hc]
  · intro hc
    have hc : s.closed = true := hc
    simp [h.closedNil hc]

theorem inv_foldl_purge (keys : List Bytes) {s : State} (h : Inv s) : Inv (keys.foldl Lru.purge s) := by
  induction keys generalizing s with
  | nil => exact h
  | cons k rest ih => exact ih (inv_purge h k)

theorem inv_delete {s : State} (h : Inv s) (keys : Option (List Bytes)) : Inv (Lru.delete s keys) := by
  cases keys with
  | none => exact inv_foldl_purge _ h
  | some ks => exact inv_foldl_purge _ h

theorem inv_close (s : State) (err : Nat) : Inv (Lru.close s err) :=
  ⟨by simp [Lru.close, KeysNodup], by simp [Lru.close], by simp [Lru.close]⟩

theorem inv_step {s : State} (h : Inv s) (op : Op) : Inv (step s op).1 := by
  cases op with
  | flight k c ttl now => exact inv_flight h k c ttl now
  | flights now multi => exact inv_flights h now multi
  | update k c v vsz raw => exact inv_update h k c v vsz raw
  | cancel k c err => exact inv_cancel h k c err
  | delete keys => exact inv_delete h keys
  | close err => exact inv_close s err
  | sethits k n => exact inv_congr h rfl rfl rfl

theorem inv_run {s : State} (h : Inv s) (ops : List Op) : Inv (run s ops) := by
  induction ops generalizing s with
  | nil => exact h
  | cons op rest ih => exact ih (inv_step h op)

end Rv.Lru
