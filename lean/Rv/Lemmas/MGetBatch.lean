/-
Lemmas about the per-destination batching of Rv/Model/MGetCache.lean (`cIndexes`, `cCommands`,
`scatter`, `scatterAll`, `batched`): the index lists of the destinations partition the positions,
so scattering the sub-batch results back restores the order of the batch. Core Lean only.
-/
import Rv.Lemmas.MGetWalk
namespace Rv.MGetCache
open Rv.MGetCache.Spec

variable {D C R : Type} [DecidableEq D]

/-- the (position, command) pairs of destination `d` -/
def pairsFrom (k : Nat) (dest : List D) (cmds : List C) (d : D) : List (Nat × C) :=
  ((dest.zip cmds).zipIdx k).filterMap fun p => if p.1.1 = d then some (p.2, p.1.2) else none

theorem cIndexes_eq (dest : List D) (d : D) :
    cIndexes dest d = (dest.zipIdx 0).filterMap fun p => if p.1 = d then some p.2 else none := by
  simp [cIndexes, enum, List.filterMap_map, Function.comp_def]

theorem zip_pairs (k : Nat) (dest : List D) (cmds : List C) (d : D) (h : dest.length = cmds.length) :
    ((dest.zipIdx k).filterMap fun p => if p.1 = d then some p.2 else none).zip (cCommands dest cmds d)
      = pairsFrom k dest cmds d ∧
    ((dest.zipIdx k).filterMap fun p => if p.1 = d then some p.2 else none).length = (cCommands dest cmds d).length := by
  induction dest generalizing cmds k with
  | nil => simp [pairsFrom, cCommands]
  | cons a dest ih =>
    cases cmds with
    | nil => simp at h
    | cons c cmds =>
      have := ih (k + 1) cmds (by simpa using h)
      simp only [List.zipIdx_cons, List.filterMap_cons, pairsFrom, cCommands, List.zip_cons_cons]
      by_cases had : a = d
      · subst had
        simp only [if_true, List.zip_cons_cons, List.length_cons]
        exact ⟨by simpa [pairsFrom, cCommands] using this.1, by simpa [cCommands] using this.2⟩
      · simp only [had, if_false]
        exact ⟨by simpa [pairsFrom, cCommands] using this.1, by simpa [cCommands] using this.2⟩

theorem mem_pairsFrom (dest : List D) (cmds : List C) (d : D) (i : Nat) (c : C) :
    (i, c) ∈ pairsFrom 0 dest cmds d ↔ dest[i]? = some d ∧ cmds[i]? = some c := by
  simp only [pairsFrom, List.mem_filterMap]
  constructor
  · rintro ⟨⟨⟨d', c'⟩, j⟩, hm, hif⟩
    rw [List.mem_zipIdx_iff_getElem?] at hm
    by_cases hd : d' = d
    · simp only [hd, if_true, Option.some.injEq, Prod.mk.injEq] at hif
      obtain ⟨rfl, rfl⟩ := hif
      rw [List.getElem?_zip_eq_some] at hm
      exact ⟨by rw [← hd]; exact hm.1, hm.2⟩
    · simp [hd] at hif
  · rintro ⟨h1, h2⟩
    refine ⟨((d, c), i), ?_, by simp⟩
    rw [List.mem_zipIdx_iff_getElem?, List.getElem?_zip_eq_some]
    exact ⟨h1, h2⟩

theorem setAll_append {σ} (l1 l2 : List (Nat × σ)) (vals : List σ) :
    setAll (l1 ++ l2) vals = setAll l2 (setAll l1 vals) := by
  induction l1 generalizing vals with
  | nil => rfl
  | cons p l1 ih => obtain ⟨i, x⟩ := p; simp [setAll, ih]

theorem scatter_eq (res : List R) (idx : List Nat) (rs : List R)
    (hlen : idx.length = rs.length) (hin : ∀ i ∈ idx, i < res.length) :
    scatter res idx rs = some (setAll (idx.zip rs) res) := by
  induction rs generalizing res idx with
  | nil => cases idx <;> simp [scatter, setAll]
  | cons r rs ih =>
    cases idx with
    | nil => simp at hlen
    | cons i is =>
      simp only [scatter, hin i (by simp), if_true, List.zip_cons_cons, setAll]
      exact ih _ _ (by simpa using hlen) (fun j hj => by simpa using hin j (by simp [hj]))

theorem scatterAll_eq (dest : List D) (cmds : List C) (g : D → C → R) (order : List D)
    (res : List R) (hlen : dest.length = cmds.length) (hres : res.length = cmds.length) :
    scatterAll dest cmds (fun d xs => xs.map (g d)) order res
      = some (setAll (order.flatMap fun d => (pairsFrom 0 dest cmds d).map fun p => (p.1, g d p.2)) res) := by
  induction order generalizing res with
  | nil => simp [scatterAll, setAll]
  | cons d ds ih =>
    have hz := zip_pairs 0 dest cmds d hlen
    rw [← cIndexes_eq] at hz
    have hin : ∀ i ∈ cIndexes dest d, i < res.length := by
      intro i hi
      rw [cIndexes_eq] at hi
      simp only [List.mem_filterMap] at hi
      obtain ⟨⟨d', j⟩, hm, hif⟩ := hi
      rw [List.mem_zipIdx_iff_getElem?] at hm
      by_cases hd : d' = d
      · simp [hd] at hif; subst hif
        have : j < dest.length := by
          rcases Nat.lt_or_ge j dest.length with h | h
          · exact h
          · rw [List.getElem?_eq_none h] at hm; cases hm
        omega
      · simp [hd] at hif
    simp only [scatterAll]
    rw [scatter_eq _ _ _ (by simp [hz.2]) hin]
    rw [Option.bind_some, ih _ (by simp [setAll_length, hres])]
    simp only [List.flatMap_cons, setAll_append]
    congr 2
    rw [← hz.1, List.zip_map_right]
    rfl

/-- every position belongs to the index list of exactly its own destination -/
theorem mem_cIndexes (dest : List D) (d : D) (i : Nat) : i ∈ cIndexes dest d ↔ dest[i]? = some d := by
  rw [cIndexes_eq]
  simp only [List.mem_filterMap]
  constructor
  · rintro ⟨⟨d', j⟩, hm, hif⟩
    rw [List.mem_zipIdx_iff_getElem?] at hm
    by_cases hd : d' = d
    · simp [hd] at hif; subst hif; rw [← hd]; exact hm
    · simp [hd] at hif
  · intro h
    exact ⟨(d, i), by rw [List.mem_zipIdx_iff_getElem?]; exact h, by simp⟩

/-- scattering the results of positional sub-runs into a result list of the batch's length puts at
    every position the answer of its destination for its command, in whatever order (and however
    often) the destinations are processed, provided every destination that occurs is processed -/
theorem scatterAll_positional (dest : List D) (cmds : List C) (order : List D) (g : D → C → R) (res : List R)
    (hlen : dest.length = cmds.length) (hres : res.length = cmds.length) (hcover : ∀ d ∈ dest, d ∈ order) :
    scatterAll dest cmds (fun d xs => xs.map (g d)) order res = some (batchedSpec dest cmds g) := by
  rw [scatterAll_eq _ _ g order _ hlen hres]
  congr 1
  apply List.ext_getElem?
  intro i
  simp only [batchedSpec, List.getElem?_zipWith]
  cases hd : dest[i]? with
  | none =>
    have : dest.length ≤ i := by simpa using hd
    rw [List.getElem?_eq_none (by simp [setAll_length]; omega)]
  | some d =>
    have hi : i < cmds.length := by
      rcases Nat.lt_or_ge i dest.length with h | h
      · omega
      · rw [List.getElem?_eq_none h] at hd; cases hd
    have hc : cmds[i]? = some cmds[i] := List.getElem?_eq_getElem hi
    rw [hc]
    apply setAll_mem
    · intro a b ha hb
      simp only [List.mem_flatMap, List.mem_map, Prod.exists, Prod.mk.injEq] at ha hb
      obtain ⟨d1, _, j1, c1, hm1, rfl, rfl⟩ := ha
      obtain ⟨d2, _, j2, c2, hm2, hj, rfl⟩ := hb
      subst hj
      rw [mem_pairsFrom] at hm1 hm2
      have e1 := hm1.1.symm.trans hm2.1
      have e2 := hm1.2.symm.trans hm2.2
      simp only [Option.some.injEq] at e1 e2
      rw [e1, e2]
    · simp only [List.mem_flatMap, List.mem_map, Prod.exists, Prod.mk.injEq]
      exact ⟨d, hcover d (List.mem_of_getElem? hd), i, cmds[i], (mem_pairsFrom _ _ _ _ _).2 ⟨hd, hc⟩, rfl, rfl⟩
    · omega

/-- `batched` with positional sub-runs is the positional specification -/
theorem batched_positional (empty : R) (dest : List D) (cmds : List C) (order : List D) (g : D → C → R)
    (hlen : dest.length = cmds.length) (hcover : ∀ d ∈ dest, d ∈ order) :
    batched empty dest cmds order (fun d xs => xs.map (g d)) = some (batchedSpec dest cmds g) := by
  unfold batched
  cases dest with
  | nil => cases cmds <;> simp_all [batchedSpec]
  | cons d0 dest' =>
    simp only
    split
    · rename_i hall
      congr 1
      simp only [batchedSpec]
      apply List.ext_getElem?
      intro i
      simp only [List.getElem?_map, List.getElem?_zipWith]
      cases hd : (d0 :: dest')[i]? with
      | none =>
        have : (d0 :: dest').length ≤ i := by simpa using hd
        rw [List.getElem?_eq_none (by omega)]; rfl
      | some d =>
        have : d = d0 := by
          have := List.mem_of_getElem? hd
          simpa using (List.all_eq_true.1 hall) d this
        subst this
        cases cmds[i]? <;> rfl
    · exact scatterAll_positional _ _ order g _ hlen (by simp) hcover
end Rv.MGetCache
