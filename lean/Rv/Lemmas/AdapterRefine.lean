/-
Refinement of the specification map by the adapter model (`NewSimpleCacheAdapter`), for
names on which `key ++ cmd` is injective and a clock that does not step back.
-/
import Rv.Lemmas.AdapterMap
import Rv.Spec.Cache
namespace Rv.Adapter
open Rv.Lru (Bytes FRes pack unixMilli relativePTTL)
open Rv.Spec.Cache (Spec)

theorem mem_marked (fl : List (KC × Option AEntry)) (k : Bytes) (kc : KC) :
    kc ∈ marked fl k ↔ kc.1 = k ∧ get fl kc = some none := by
  unfold marked
  rw [List.mem_filter]
  constructor
  · rintro ⟨_, h⟩; simpa using h
  · intro h
    exact ⟨mem_keys_of_get fl kc none h.2, by simp [h.1, h.2]⟩

theorem get_foldl_delAddr_hit (ms : List KC) (st : List (Bytes × (Nat × Int))) (a : Bytes)
    (h : ∃ kc ∈ ms, a = kc.1 ++ kc.2) :
    get (ms.foldl (fun st kc => del st (kc.1 ++ kc.2)) st) a = none := by
  induction ms generalizing st with
  | nil => obtain ⟨kc, hkc, _⟩ := h; cases hkc
  | cons m rest ih =>
    simp only [List.foldl_cons]
    by_cases h1 : ∃ kc ∈ rest, a = kc.1 ++ kc.2
    · exact ih _ h1
    · obtain ⟨kc, hkc, ha⟩ := h
      rcases List.mem_cons.1 hkc with hm | hm
      · subst hm
        -- later deletions keep it deleted
        have key : ∀ (rest : List KC) (st : List (Bytes × (Nat × Int))), get st a = none →
            get (rest.foldl (fun st kc => del st (kc.1 ++ kc.2)) st) a = none := by
          intro rest
          induction rest with
          | nil => intro st h; exact h
          | cons r rs ih2 =>
            intro st h
            simp only [List.foldl_cons]
            apply ih2
            rw [get_del]; split <;> simp [h]
        apply key
        rw [get_del, if_pos ha]
      · exact absurd ⟨kc, hm, ha⟩ h1

theorem get_foldl_delAddr_miss (ms : List KC) (st : List (Bytes × (Nat × Int))) (a : Bytes)
    (h : ¬ ∃ kc ∈ ms, a = kc.1 ++ kc.2) :
    get (ms.foldl (fun st kc => del st (kc.1 ++ kc.2)) st) a = get st a := by
  induction ms generalizing st with
  | nil => rfl
  | cons m rest ih =>
    simp only [List.foldl_cons]
    rw [ih _ (fun ⟨kc, hkc, ha⟩ => h ⟨kc, List.mem_cons_of_mem _ hkc, ha⟩), get_del]
    rw [if_neg (fun ha => h ⟨m, List.mem_cons_self, ha⟩)]

/-- slots after `del(key)` -/
theorem slot_delKey (s : State) (k : Bytes) (k' c' : Bytes) :
    slot (delKey s k) k' c' = if k' = k ∧ slot s k' c' = some none then none else slot s k' c' := by
  unfold delKey slot
  cases hfl : s.flights with
  | none => simp [hfl, get]
  | some fl =>
    simp only [Option.getD_some]
    rw [get_foldl_del]
    by_cases h : (k', c') ∈ marked fl k
    · have := (mem_marked fl k (k', c')).1 h
      have h1 : k' = k := this.1
      subst h1
      rw [if_pos h, if_pos ⟨rfl, this.2⟩]
    · have hn : ¬ (k' = k ∧ get fl (k', c') = some none) := fun hh => h ((mem_marked fl k (k', c')).2 hh)
      simp [h, hn]

theorem store_delKey_hit (s : State) (k c : Bytes) (h : slot s k c = some none) :
    get (delKey s k).store (k ++ c) = none := by
  unfold delKey
  unfold slot at h
  cases hfl : s.flights with
  | none => rw [hfl] at h; simp [get] at h
  | some fl =>
    rw [hfl] at h
    simp only [Option.getD_some] at h ⊢
    exact get_foldl_delAddr_hit _ _ _ ⟨(k, c), (mem_marked fl k (k, c)).2 ⟨rfl, h⟩, rfl⟩

theorem store_delKey_miss (s : State) (k : Bytes) (a : Bytes)
    (h : ∀ c, slot s k c = some none → a ≠ k ++ c) :
    get (delKey s k).store a = get s.store a := by
  unfold delKey
  cases hfl : s.flights with
  | none => rfl
  | some fl =>
    simp only
    apply get_foldl_delAddr_miss
    rintro ⟨kc, hkc, ha⟩
    have := (mem_marked fl k kc).1 hkc
    obtain ⟨k1, c1⟩ := kc
    simp only at this ha
    obtain ⟨rfl, h2⟩ := this
    exact h c1 (by simp [slot, hfl, h2]) ha

theorem flights_delKey_none (s : State) (k : Bytes) : (delKey s k).flights.isNone = s.flights.isNone := by
  unfold delKey; cases h : s.flights <;> simp [h]

theorem store_delKey_closed (s : State) (k : Bytes) (h : s.flights = none) : delKey s k = s := by
  unfold delKey; rw [h]

end Rv.Adapter

namespace Rv.Adapter
open Rv.Lru (Bytes FRes pack unixMilli relativePTTL)
open Rv.Spec.Cache (Spec)

/-- `key ++ cmd` is injective on the (key, cmd) pairs in `P` -/
def Inj (P : KC → Prop) : Prop := ∀ a b, P a → P b → a.1 ++ a.2 = b.1 ++ b.2 → a = b

/-- refinement relation between the adapter model and the specification, for names in `P` and a clock that has
    reached `T` ms -/
structure RA (P : KC → Prop) (T : Int) (s : State) (sp : Spec) : Prop where
  live : ∀ k c v exp, P (k, c) → get s.store (k ++ c) = some (v, exp) →
    exp ≤ T ∨ (sp.vals (k, c) = some (v, exp) ∧ slot s k c = some none)
  pend : ∀ k c e, slot s k c = some (some e) → sp.out (k, c) = some e.xat ∧ 0 ≤ e.xat ∧ e.xat < 2 ^ 56
  idle : ∀ k c, (∀ e, slot s k c ≠ some (some e)) → sp.out (k, c) = none
  dom : ∀ k c, slot s k c ≠ none → P (k, c)
  closedStore : s.flights = none → s.store = []
  closed : sp.closed = s.flights.isNone

theorem RA_init (P : KC → Prop) (T : Int) : RA P T init Spec.Cache.empty :=
  ⟨by simp [init, get], by simp [init, slot, get], by simp [Spec.Cache.empty], by simp [init, slot, get],
   by simp [init], by simp [init, Spec.Cache.empty]⟩

theorem RA_mono {P : KC → Prop} {T T' : Int} {s : State} {sp : Spec} (h : RA P T s sp) (hT : T ≤ T') : RA P T' s sp :=
  ⟨fun k c v exp hp hg => by rcases h.live k c v exp hp hg with h1 | h1; exact Or.inl (by omega); exact Or.inr h1,
   h.pend, h.idle, h.dom, h.closedStore, h.closed⟩

theorem slot_put (s : State) (fl : List (KC × Option AEntry)) (hfl : s.flights = some fl) (k c : Bytes)
    (x : Option AEntry) (s' : State) (hs' : s'.flights = some (put fl (k, c) x)) (k' c' : Bytes) :
    slot s' k' c' = if (k', c') = (k, c) then some x else slot s k' c' := by
  simp only [slot, hs', hfl, Option.getD_some, get_put]

theorem RA_flight {P : KC → Prop} {T : Int} {s : State} {sp : Spec} (h : RA P T s sp)
    (k c : Bytes) (ttl now : Int) (hP : P (k, c)) (hT : T ≤ unixMilli now)
    (h0 : 0 ≤ unixMilli (now + ttl)) (h1 : unixMilli (now + ttl) < 2 ^ 56) :
    RA P (unixMilli now) (flight s k c ttl now).1
      (if (flight s k c ttl now).2 = .send then Spec.Cache.sent sp (k, c) (unixMilli (now + ttl)) else sp) := by
  have hm := RA_mono h hT
  -- the miss path, given that whatever is stored under k++c is expired now
  have hmiss : (∀ v exp, get s.store (k ++ c) = some (v, exp) → exp ≤ unixMilli now) →
      RA P (unixMilli now) (miss s k c ttl now).1
        (if (miss s k c ttl now).2 = .send then Spec.Cache.sent sp (k, c) (unixMilli (now + ttl)) else sp) := by
    intro hexp
    unfold miss
    split
    · simp; exact hm
    · rename_i hnp
      split
      · rename_i hfl
        have : sp.closed = true := by rw [h.closed, hfl]; rfl
        simp [Spec.Cache.sent, this]; exact hm
      · rename_i fl hfl
        have hopen : sp.closed = false := by rw [h.closed, hfl]; rfl
        simp only [if_true, Spec.Cache.sent, hopen, Bool.false_eq_true, if_false]
        have hslot := slot_put s fl hfl k c (some { id := s.nextId, xat := unixMilli (now + ttl) })
          { s with flights := some (put fl (k, c) (some { id := s.nextId, xat := unixMilli (now + ttl) })), nextId := s.nextId + 1 } rfl
        refine ⟨?_, ?_, ?_, ?_, by simp, by simp⟩
        · intro k' c' v exp hp' hg
          have hg : get s.store (k' ++ c') = some (v, exp) := hg
          by_cases hkc : (k', c') = (k, c)
          · cases hkc; exact Or.inl (hexp v exp hg)
          · rcases hm.live k' c' v exp hp' hg with hl | hl
            · exact Or.inl hl
            · right; rw [hslot]; simp only [hkc, if_false]; exact hl
        · intro k' c' e he
          rw [hslot] at he
          by_cases hkc : (k', c') = (k, c)
          · cases hkc; simp only [if_true] at he; cases he
            simp; exact ⟨h0, h1⟩
          · simp only [hkc, if_false] at he ⊢; exact h.pend k' c' e he
        · intro k' c' hne
          by_cases hkc : (k', c') = (k, c)
          · cases hkc; exact absurd (by rw [hslot]; simp) (hne { id := s.nextId, xat := unixMilli (now + ttl) })
          · simp only [hkc, if_false]
            apply h.idle; intro e he; exact hne e (by rw [hslot]; simp only [hkc, if_false]; exact he)
        · intro k' c' hne
          by_cases hkc : (k', c') = (k, c)
          · cases hkc; exact hP
          · apply h.dom; rw [hslot] at hne; simpa only [hkc, if_false] using hne
  unfold flight
  split
  · rename_i v exp hg
    split
    · simp; exact hm
    · rename_i hexp
      apply hmiss
      intro v' exp' hg'
      rw [hg] at hg'; cases hg'
      simp [relativePTTL] at hexp; omega
  · rename_i hg
    apply hmiss
    intro v' exp' hg'; rw [hg] at hg'; cases hg'


theorem RA_update {P : KC → Prop} (hinj : Inj P) {T : Int} {s : State} {sp : Spec} (h : RA P T s sp)
    (k c : Bytes) (v : Nat) (raw : Int) (hP : P (k, c)) :
    RA P T (update s k c v raw).1 (Spec.Cache.update sp (k, c) v (pack raw)) := by
  have hidle : (∀ e, slot s k c ≠ some (some e)) → RA P T s (Spec.Cache.update sp (k, c) v (pack raw)) := by
    intro hne
    have := h.idle k c hne
    unfold Spec.Cache.update
    split
    · exact h
    · simp only [this]; exact h
  unfold update
  split
  · rename_i fl e hfl hsl
    have hopen : sp.closed = false := by rw [h.closed, hfl]; rfl
    have hp := h.pend k c e hsl
    have hpack : pack e.xat = e.xat := by
      have : pack e.xat = e.xat % 72057594037927936 := by
        simp only [pack, Lru.setExpireAt, Lru.getExpireAt]; omega
      rw [this]; have := hp.2.1; have := hp.2.2; omega
    have hstored : (if (decide (e.xat < pack raw) || decide (pack raw = 0)) = true then pack e.xat else pack raw) =
        Spec.Cache.expiry e.xat (pack raw) := by
      rw [hpack]; unfold Spec.Cache.expiry
      by_cases h1 : pack raw = 0
      · simp [h1]
      · by_cases h2 : e.xat < pack raw
        · simp [h1, h2]
        · simp [h1, h2]
    simp only [hstored]
    unfold Spec.Cache.update
    simp only [hopen, Bool.false_eq_true, if_false, hp.1]
    have hslot := slot_put s fl hfl k c none
      { s with store := put s.store (k ++ c) (v, Spec.Cache.expiry e.xat (pack raw)),
               flights := some (put fl (k, c) none),
               done := s.done ++ [(e.id, Lru.Outcome.val v (Spec.Cache.expiry e.xat (pack raw)))] } rfl
    refine ⟨?_, ?_, ?_, ?_, by simp, by simp⟩
    · intro k' c' v' exp' hp' hg
      have hg : get (put s.store (k ++ c) (v, Spec.Cache.expiry e.xat (pack raw))) (k' ++ c') = some (v', exp') := hg
      rw [get_put] at hg
      by_cases hkc : (k', c') = (k, c)
      · cases hkc
        simp only [if_true] at hg; cases hg
        right; rw [hslot]; simp
      · have hne : k' ++ c' ≠ k ++ c := fun ha => hkc (hinj _ _ hp' hP ha)
        simp only [hne, if_false] at hg
        rcases h.live k' c' v' exp' hp' hg with hl | hl
        · exact Or.inl hl
        · right; rw [hslot]; simp only [hkc, if_false]; exact hl
    · intro k' c' e' he
      rw [hslot] at he
      by_cases hkc : (k', c') = (k, c)
      · cases hkc; simp at he
      · simp only [hkc, if_false] at he ⊢; exact h.pend k' c' e' he
    · intro k' c' hne
      by_cases hkc : (k', c') = (k, c)
      · simp [hkc]
      · simp only [hkc, if_false]
        apply h.idle; intro e' he; exact hne e' (by rw [hslot]; simp only [hkc, if_false]; exact he)
    · intro k' c' hne
      by_cases hkc : (k', c') = (k, c)
      · cases hkc; exact hP
      · apply h.dom; rw [hslot] at hne; simpa only [hkc, if_false] using hne
  · rename_i hno
    apply hidle
    intro e he
    cases hfl : s.flights with
    | none => simp [slot, hfl, get] at he
    | some fl => exact hno fl e hfl he

theorem RA_cancel {P : KC → Prop} {T : Int} {s : State} {sp : Spec} (h : RA P T s sp)
    (k c : Bytes) (err : Nat) (hP : P (k, c)) :
    RA P T (cancel s k c err) (Spec.Cache.cancel sp (k, c)) := by
  unfold cancel
  split
  · rename_i fl e hfl hsl
    have hopen : sp.closed = false := by rw [h.closed, hfl]; rfl
    unfold Spec.Cache.cancel
    simp only [hopen, Bool.false_eq_true, if_false]
    have hslot := slot_put s fl hfl k c none
      { s with flights := some (put fl (k, c) none), done := s.done ++ [(e.id, Lru.Outcome.err err)] } rfl
    refine ⟨?_, ?_, ?_, ?_, by simp, by simp⟩
    · intro k' c' v' exp' hp' hg
      have hg : get s.store (k' ++ c') = some (v', exp') := hg
      rcases h.live k' c' v' exp' hp' hg with hl | hl
      · exact Or.inl hl
      · right
        have hkc : (k', c') ≠ (k, c) := by
          intro heq; cases heq; rw [hsl] at hl; cases hl.2
        rw [hslot]; simp only [hkc, if_false]; exact hl
    · intro k' c' e' he
      rw [hslot] at he
      by_cases hkc : (k', c') = (k, c)
      · cases hkc; simp at he
      · simp only [hkc, if_false] at he ⊢; exact h.pend k' c' e' he
    · intro k' c' hne
      by_cases hkc : (k', c') = (k, c)
      · simp [hkc]
      · simp only [hkc, if_false]
        apply h.idle; intro e' he; exact hne e' (by rw [hslot]; simp only [hkc, if_false]; exact he)
    · intro k' c' hne
      by_cases hkc : (k', c') = (k, c)
      · cases hkc; exact hP
      · apply h.dom; rw [hslot] at hne; simpa only [hkc, if_false] using hne
  · rename_i hno
    have hne : ∀ e, slot s k c ≠ some (some e) := by
      intro e he
      cases hfl : s.flights with
      | none => simp [slot, hfl, get] at he
      | some fl => exact hno fl e hfl he
    have hout := h.idle k c hne
    unfold Spec.Cache.cancel
    split
    · exact h
    · refine ⟨h.live, ?_, ?_, h.dom, h.closedStore, h.closed⟩
      · intro k' c' e he
        have hkc : (k', c') ≠ (k, c) := by intro heq; cases heq; exact hne e he
        simp only [hkc, if_false]; exact h.pend k' c' e he
      · intro k' c' hne'
        by_cases hkc : (k', c') = (k, c)
        · simp [hkc]
        · simp only [hkc, if_false]; exact h.idle k' c' hne'

/-- the relation depends on the specification only through its three components, pointwise -/
theorem RA_congr {P : KC → Prop} {T : Int} {s : State} {sp sp' : Spec} (h : RA P T s sp)
    (hv : ∀ x, sp'.vals x = sp.vals x) (ho : ∀ x, sp'.out x = sp.out x) (hc : sp'.closed = sp.closed) : RA P T s sp' :=
  ⟨fun k c v exp hp hg => by rw [hv]; exact h.live k c v exp hp hg,
   fun k c e he => by rw [ho]; exact h.pend k c e he,
   fun k c hne => by rw [ho]; exact h.idle k c hne, h.dom, h.closedStore, by rw [hc]; exact h.closed⟩

theorem RA_delKey {P : KC → Prop} {T : Int} {s : State} {sp : Spec} (h : RA P T s sp) (k : Bytes) :
    RA P T (delKey s k) (Spec.Cache.delete sp [k]) := by
  refine ⟨?_, ?_, ?_, ?_, ?_, ?_⟩
  · intro k' c' v exp hp' hg
    -- the address survived `del(key)`
    have hsurv : get s.store (k' ++ c') = some (v, exp) ∧ ¬ (k' = k ∧ slot s k' c' = some none) := by
      by_cases hm : ∃ c, slot s k c = some none ∧ k' ++ c' = k ++ c
      · obtain ⟨c, hc, ha⟩ := hm
        rw [ha, store_delKey_hit s k c hc] at hg; cases hg
      · rw [store_delKey_miss s k (k' ++ c') (fun c hc ha => hm ⟨c, hc, ha⟩)] at hg
        exact ⟨hg, fun hh => hm ⟨c', hh.1 ▸ hh.2, by rw [hh.1]⟩⟩
    rcases h.live k' c' v exp hp' hsurv.1 with hl | hl
    · exact Or.inl hl
    · right
      have hk : k' ≠ k := fun hh => hsurv.2 ⟨hh, hl.2⟩
      refine ⟨by simp [Spec.Cache.delete, hk, hl.1], ?_⟩
      rw [slot_delKey]; simp [hk, hl.2]
  · intro k' c' e he
    rw [slot_delKey] at he
    split at he
    · cases he
    · exact h.pend k' c' e he
  · intro k' c' hne
    apply h.idle k' c'
    intro e he
    apply hne e
    rw [slot_delKey]; simp [he]
  · intro k' c' hne
    apply h.dom k' c'
    intro hh; apply hne
    rw [slot_delKey, hh]; simp
  · intro hfl
    have : s.flights = none := by
      have := flights_delKey_none s k
      rw [hfl] at this
      cases hs : s.flights with
      | none => rfl
      | some fl => rw [hs] at this; simp at this
    rw [store_delKey_closed s k this]; exact h.closedStore this
  · show sp.closed = _
    rw [flights_delKey_none]; exact h.closed

theorem RA_delKeys {P : KC → Prop} {T : Int} (keys : List Bytes) {s : State} {sp : Spec}
    (h : RA P T s sp) : RA P T (keys.foldl delKey s) (Spec.Cache.delete sp keys) := by
  induction keys generalizing s sp with
  | nil => exact RA_congr h (fun x => by simp [Spec.Cache.delete]) (fun _ => rfl) rfl
  | cons k rest ih =>
    have := ih (RA_delKey h k)
    refine RA_congr this ?_ (fun _ => rfl) rfl
    intro x
    simp only [Spec.Cache.delete, List.mem_cons, List.not_mem_nil, or_false]
    by_cases h1 : x.1 = k <;> by_cases h2 : x.1 ∈ rest <;> simp [h1, h2]


theorem slot_foldl_delKey_sub (keys : List Bytes) (s : State) (k c : Bytes) (x : Option AEntry)
    (h : slot (keys.foldl delKey s) k c = some x) : slot s k c = some x := by
  induction keys generalizing s with
  | nil => exact h
  | cons k0 rest ih =>
    have := ih (delKey s k0) h
    rw [slot_delKey] at this
    split at this
    · cases this
    · exact this

theorem slot_foldl_delKey_marker (keys : List Bytes) (s : State) (k c : Bytes) (hk : k ∈ keys) :
    slot (keys.foldl delKey s) k c ≠ some none := by
  induction keys generalizing s with
  | nil => cases hk
  | cons k0 rest ih =>
    by_cases hr : k ∈ rest
    · exact ih (delKey s k0) hr
    · have hk0 : k = k0 := by
        rcases List.mem_cons.1 hk with h | h
        · exact h
        · exact absurd h hr
      subst hk0
      intro hh
      have := slot_foldl_delKey_sub rest (delKey s k) k c none hh
      rw [slot_delKey] at this
      split at this
      · cases this
      · rename_i hn; exact hn ⟨rfl, this⟩

theorem RA_flush {P : KC → Prop} {T : Int} {s : State} {sp : Spec} (h : RA P T s sp) :
    RA P T (delete s none) (Spec.Cache.flush sp) := by
  have h' := RA_delKeys ((s.flights.getD []).map (·.1.1)) h
  refine ⟨?_, h'.pend, h'.idle, h'.dom, h'.closedStore, h'.closed⟩
  intro k c v exp hp hg
  rcases h'.live k c v exp hp hg with hl | hl
  · exact Or.inl hl
  · exfalso
    have hs := slot_foldl_delKey_sub _ s k c none hl.2
    have hmem : k ∈ (s.flights.getD []).map (·.1.1) := by
      have := mem_keys_of_get (s.flights.getD []) (k, c) none hs
      rw [List.mem_map] at this ⊢
      obtain ⟨p, hp1, hp2⟩ := this
      exact ⟨p, hp1, by rw [hp2]⟩
    exact slot_foldl_delKey_marker _ s k c hmem hl.2

theorem RA_close (P : KC → Prop) (T : Int) (s : State) (sp : Spec) (err : Nat) :
    RA P T (close s err) (Spec.Cache.close sp) :=
  ⟨by simp [close, get], by simp [close, slot, get], by simp [Spec.Cache.close], by simp [close, slot, get],
   by simp [close], by simp [close, Spec.Cache.close]⟩

/-- the specification's view of one adapter step -/
def specStepA (sp : Spec) : Op → Res → Spec
  | .flight k c ttl now, .fl .send => Spec.Cache.sent sp (k, c) (unixMilli (now + ttl))
  | .update k c v raw, _ => Spec.Cache.update sp (k, c) v (pack raw)
  | .cancel k c _, _ => Spec.Cache.cancel sp (k, c)
  | .delete (some keys), _ => Spec.Cache.delete sp keys
  | .delete none, _ => Spec.Cache.flush sp
  | .close _, _ => Spec.Cache.close sp
  | _, _ => sp

/-- the clock after an operation: `Flight` is the only call that reads it -/
def clock (T : Int) : Op → Int
  | .flight _ _ _ now => unixMilli now
  | _ => T

/-- admissible operation at clock `T`: its names are in `P`, the clock does not step back, and the
    client expiry fits the 7-byte field -/
def Adm (P : KC → Prop) (T : Int) : Op → Prop
  | .flight k c ttl now => P (k, c) ∧ T ≤ unixMilli now ∧ 0 ≤ unixMilli (now + ttl) ∧ unixMilli (now + ttl) < 2 ^ 56
  | .update k c _ _ => P (k, c)
  | .cancel k c _ => P (k, c)
  | _ => True

/-- admissible history -/
def AdmAll (P : KC → Prop) : Int → List Op → Prop
  | _, [] => True
  | T, op :: rest => Adm P T op ∧ AdmAll P (clock T op) rest

def runA (s : State) (sp : Spec) (T : Int) : List Op → State × Spec × Int
  | [] => (s, sp, T)
  | op :: rest => let r := step s op; runA r.1 (specStepA sp op r.2) (clock T op) rest

theorem RA_step {P : KC → Prop} (hinj : Inj P) {T : Int} {s : State} {sp : Spec} (h : RA P T s sp) (op : Op)
    (ha : Adm P T op) : RA P (clock T op) (step s op).1 (specStepA sp op (step s op).2) := by
  cases op with
  | flight k c ttl now =>
    have := RA_flight h k c ttl now ha.1 ha.2.1 ha.2.2.1 ha.2.2.2
    simp only [step, clock]
    generalize (flight s k c ttl now).2 = r at this
    cases r <;> simpa [specStepA] using this
  | update k c v raw => exact RA_update hinj h k c v raw ha
  | cancel k c err => exact RA_cancel h k c err ha
  | delete keys =>
    cases keys with
    | none => exact RA_flush h
    | some ks => exact RA_delKeys ks h
  | close err => exact RA_close P T s sp err

theorem RA_runA {P : KC → Prop} (hinj : Inj P) (ops : List Op) {T : Int} {s : State} {sp : Spec} (h : RA P T s sp)
    (ha : AdmAll P T ops) : RA P (runA s sp T ops).2.2 (runA s sp T ops).1 (runA s sp T ops).2.1 := by
  induction ops generalizing T s sp with
  | nil => exact h
  | cons op rest ih => exact ih (RA_step hinj h op ha.1) ha.2

/-- a hit of the adapter at a time not before the clock is the specification's value -/
theorem hit_of_RA {P : KC → Prop} {T : Int} {s : State} {sp : Spec} (h : RA P T s sp) (k c : Bytes) (ttl now : Int)
    (hP : P (k, c)) (hT : T ≤ unixMilli now) (v : Nat) (exp : Int) (hh : (flight s k c ttl now).2 = .hit v exp) :
    Spec.Cache.lookup sp (k, c) (unixMilli now) = some (v, exp) := by
  have hmiss : (miss s k c ttl now).2 ≠ .hit v exp := by
    unfold miss
    split
    · simp
    · split <;> simp
  unfold flight at hh
  split at hh
  · rename_i v' exp' hg
    split at hh
    · rename_i hrel
      cases hh
      simp only [relativePTTL] at hrel
      rcases h.live k c v exp hP hg with hl | hl
      · omega
      · simp only [Spec.Cache.lookup, hl.1]; rw [if_pos (by omega)]
    · exact absurd hh hmiss
  · exact absurd hh hmiss

end Rv.Adapter
