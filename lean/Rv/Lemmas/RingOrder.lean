import Rv.Lemmas.RingLive
import Rv.Lemmas.RingLogs
namespace Rv.Ring

/-- at most N tickets beyond the completed positions: never more callers in flight than slots -/
def Bounded (k : Nat) (σ : State) : Prop := σ.write ≤ σ.read2 + 2 ^ k

instance (k : Nat) (σ : State) : Decidable (Bounded k σ) := by unfold Bounded; infer_instance

/-- runs in which the number of callers in flight never exceeds the number of slots -/
inductive ReachableB (k : Nat) : State → Prop
  | init : ReachableB k (init k)
  | step {σ : State} (l : Label) : ReachableB k σ → enabled k l σ = true →
      Bounded k (apply k l σ) → ReachableB k (apply k l σ)

theorem ReachableB.reachable {k : Nat} {σ : State} (h : ReachableB k σ) : Reachable k σ := by
  induction h with
  | init => exact Reachable.init
  | step l _ he _ ih => exact Reachable.step l ih he

theorem ReachableB.bounded {k : Nat} {σ : State} (h : ReachableB k σ) : Bounded k σ := by
  cases h with
  | init => simp [Bounded, Ring.init]
  | step l _ _ hb => exact hb

def runB (k : Nat) : State → List Label → Option State
  | σ, [] => some σ
  | σ, l :: ls =>
    if enabled k l σ ∧ Bounded k (apply k l σ) then runB k (apply k l σ) ls else none

theorem runB_reachable (k : Nat) : ∀ (ls : List Label) (σ σ' : State),
    ReachableB k σ → runB k σ ls = some σ' → ReachableB k σ' := by
  intro ls
  induction ls with
  | nil => intro σ σ' h r; simp [runB] at r; exact r ▸ h
  | cons l ls ih =>
    intro σ σ' h r
    simp only [runB] at r
    split at r
    · rename_i he; exact ih _ _ (ReachableB.step l h he.1 he.2) r
    · cases r

/-- while callers ≤ slots: every caller still holding a ticket holds the ticket of a position
    that is not completed yet, and every stored command sits at the position of its ticket -/
structure InvJ (k : Nat) (σ : State) : Prop where
  j1 : ∀ c s, (σ.pc c = .ready s ∨ σ.pc c = .waiting s) → s = (c + 1) % 2 ^ k ∧ σ.read2 < c + 1
  j2 : ∀ c, σ.pos c ≠ 0 → σ.pos c = c + 1
  j3 : σ.read1 ≤ σ.write

theorem filled_le_write {k : Nat} {σ : State} (f : Full k σ) (s : Nat) (hs : s < 2 ^ k)
    (hm : (σ.slot s).mark ≠ 0) : (σ.slot s).gen ≤ σ.write := by
  have c := f.t.cntI s hs
  have t := f.t.tophi s hs
  simp only [fillNext, hm, if_false] at c
  omega

theorem InvJ.take {k : Nat} {σ : State} (f : Full k σ) (h : InvJ k σ) (s : Nat)
    (hs : s = (σ.read1 + 1) % 2 ^ k) (hm : (σ.slot s).mark = 1) (b : Bool) : InvJ k (take σ s b) := by
  have hp := pow_pos' k
  have hsN : s < 2 ^ k := hs ▸ Nat.mod_lt _ hp
  have ha := f.i.a
  have hgen : (σ.slot s).gen = σ.read1 + 1 := by
    have hgt : σ.read1 < (σ.slot s).gen := by have := (ha.mark2 s hsN); omega
    have hhi := ha.genhi s hsN
    have := ha.gen_of_window (σ.read1 + 1) (by have := ha.r21; omega) (by omega)
    rw [← hs] at this; exact this
  have := filled_le_write f s hsN (by omega)
  exact ⟨h.j1, h.j2, by simp only [Ring.take]; omega⟩

theorem InvJ.step {k : Nat} (hk : k ≤ 32) {σ : State} (f : Full k σ) (hb : Bounded k σ) (h : InvJ k σ)
    (l : Label) (he : enabled k l σ = true) : InvJ k (apply k l σ) := by
  have hp := pow_pos' k
  have ha := f.i.a
  have hB := f.i.b
  cases l with
  | arrive =>
    simp only [Ring.apply]
    have hidle : σ.pc σ.ncalls = .idle := hB.fresh _ (Nat.le_refl _)
    refine ⟨?_, h.j2, by simp only; have := h.j3; omega⟩
    intro c s; simp only [upd_apply]; split
    · rename_i e; subst e
      intro hh
      have : s = slotOf k (σ.write + 1) := by
        rcases hh with hh | hh
        · injection hh with hh; exact hh.symm
        · cases hh
      subst this
      rw [slotOf_eq k _ hk, hB.wn]
      refine ⟨rfl, ?_⟩
      have := h.j3; have := ha.r21; have := hB.wn; omega
    · exact h.j1 c s
  | enter c =>
    simp only [Ring.apply]
    split
    · rename_i s hpc
      obtain ⟨hs, hlt⟩ := h.j1 c s (Or.inl hpc)
      obtain ⟨hsN, hpos0⟩ := hB.rdy c s hpc
      split
      · rename_i hm
        -- the position filled is the caller's ticket
        have hcl : c < σ.ncalls := lt_ncalls f.i c (by rw [hpc]; simp)
        have hgen : (σ.slot s).gen = c + 1 := by
          have a := ha.genmod s hsN
          have b := ha.genlo s hsN
          have d := ha.genhi s hsN
          have hw := hB.wn
          unfold Bounded at hb
          exact mod_window_unique (2 ^ k) _ _ (by rw [a, hs]) (by omega) (by omega)
        refine ⟨?_, ?_, h.j3⟩
        · intro c' s'; simp only [upd_apply]; split
          · intro hh; split at hh <;> rcases hh with hh | hh <;> cases hh
          · exact h.j1 c' s'
        · intro c'; simp only [upd_apply]; split
          · rename_i e; subst e; intro _; exact hgen
          · exact h.j2 c'
      · refine ⟨?_, h.j2, h.j3⟩
        intro c' s'; simp only [upd_apply]; split
        · rename_i e; subst e; intro hh
          have : s' = s := by
            rcases hh with hh | hh
            · cases hh
            · injection hh with hh; exact hh.symm
          subst this; exact ⟨hs, hlt⟩
        · exact h.j1 c' s'
    · exact h
  | bcast c =>
    simp only [Ring.apply]
    split
    · rename_i s hpc
      refine ⟨?_, h.j2, h.j3⟩
      intro c' s'; simp only [upd_apply]; split
      · intro hh; rcases hh with hh | hh <;> cases hh
      · exact h.j1 c' s'
    · exact h
  | wTry =>
    simp only [Ring.apply]
    split
    · rename_i hm; exact h.take f _ (slotOf_eq k _ hk) hm _
    · exact h
  | wWait =>
    simp only [Ring.apply]
    split
    · rename_i hm; exact h.take f _ (slotOf_eq k _ hk) hm _
    · exact ⟨h.j1, h.j2, h.j3⟩
  | wWake =>
    simp only [Ring.apply]
    split
    · rename_i s hw
      split
      · rename_i hm; exact h.take f _ (ha.wwk s hw) hm _
      · exact ⟨h.j1, h.j2, h.j3⟩
    · exact h
  | rBegin =>
    simp only [Ring.apply]
    split
    · rename_i hm
      have hsr : slotOf k (σ.read2 + 1) = (σ.read2 + 1) % 2 ^ k := slotOf_eq k _ hk
      have hsN : slotOf k (σ.read2 + 1) < 2 ^ k := hsr ▸ Nat.mod_lt _ hp
      have hgen : (σ.slot (slotOf k (σ.read2 + 1))).gen = σ.read2 + 1 := by
        rw [hsr]; exact ha.gen_of_window _ (by omega) (by omega)
      obtain ⟨c0, _, hpc0, _, hpos0⟩ := hB.occ _ hsN (by omega)
      have hc0 : c0 = σ.read2 := by
        have := h.j2 c0 (by rw [hpos0, hgen]; omega)
        rw [hpos0, hgen] at this; omega
      refine ⟨?_, h.j2, h.j3⟩
      intro c s hh
      obtain ⟨a, b⟩ := h.j1 c s hh
      refine ⟨a, ?_⟩
      simp only
      have : c ≠ c0 := by
        intro e; subst e
        rcases hh with hh | hh <;> rcases hpc0 with p | p <;> rw [p] at hh <;> cases hh
      omega
    · exact ⟨h.j1, h.j2, h.j3⟩
  | rDeliver c =>
    simp only [Ring.apply]
    split
    · refine ⟨?_, h.j2, h.j3⟩
      intro c' s'; simp only [upd_apply]; split
      · intro hh; rcases hh with hh | hh <;> cases hh
      · exact h.j1 c' s'
    · exact h
  | rUnlock =>
    simp only [Ring.apply]
    split
    · exact ⟨h.j1, h.j2, h.j3⟩
    · exact h
  | rSignal w =>
    simp only [Ring.apply]
    split
    · rename_i s hr
      simp only [enabled, hr] at he
      split
      · rename_i c
        have hpc : σ.pc c = .waiting s := by simpa using he
        obtain ⟨a, b⟩ := h.j1 c s (Or.inr hpc)
        refine ⟨?_, h.j2, h.j3⟩
        intro c' s'; simp only [upd_apply]; split
        · rename_i e; subst e; intro hh
          have : s' = s := by
            rcases hh with hh | hh
            · injection hh with hh; exact hh.symm
            · cases hh
          subst this; exact ⟨a, b⟩
        · exact h.j1 c' s'
      · exact ⟨h.j1, h.j2, h.j3⟩
    · exact h

theorem InvJ.of_reachableB {k : Nat} (hk : k ≤ 32) {σ : State} (h : ReachableB k σ) : InvJ k σ := by
  induction h with
  | init => exact ⟨by simp [Ring.init], by simp [Ring.init], by simp [Ring.init]⟩
  | step l hr he _ ih =>
    exact ih.step hk (Full.of_reachable hk hr.reachable) hr.bounded l he

/-- with callers ≤ slots the writer sees the callers' commands in ticket order 0, 1, 2, … -/
theorem wlog_ticket_order {k : Nat} (hk : k ≤ 32) {σ : State} (h : ReachableB k σ) :
    σ.wlog = List.range σ.read1 := by
  have j := InvJ.of_reachableB hk h
  have i := Inv.of_reachable hk h.reachable
  rw [i.b.wlog_eq]
  unfold posList
  have : ∀ n, n ≤ σ.read1 → (List.range n).map (fun i => σ.atPos (i + 1)) = List.range n := by
    intro n hn
    apply List.ext_getElem
    · simp
    · intro m h1 h2
      simp only [List.getElem_map, List.getElem_range]
      simp at h1
      have a := i.b.atpos (m + 1) (by omega) (by omega)
      have b := j.j2 (σ.atPos (m + 1)) (by omega)
      omega
  exact this _ (Nat.le_refl _)

end Rv.Ring
