/-
Invariants of the round loop of the batch model: every queued entry pairs an index with the
caller's command at that index, and every stored result is a reply some node produced for the
command at that position.
-/
import Rv.Lemmas.ClusterMulti
namespace Rv.ClusterMultiL
open Rv Rv.Topology Rv.ClusterRoute Rv.ClusterMulti

def EntriesOK (multi : List Cmd) (es : List Entry) : Prop := ∀ e ∈ es, multi[e.1]? = some e.2

def PendOK (multi : List Cmd) (p : Pending) : Prop :=
  ∀ x ∈ p, EntriesOK multi x.2.cmds ∧ EntriesOK multi x.2.asks

/-- `results[i]`, when set, is a reply that a node produced for the command at position `i` -/
def ResOK (multi : List Cmd) (replies : List (Nat × Bytes × Reply)) (results : List (Option Reply)) : Prop :=
  results.length = multi.length ∧
    ∀ (i : Nat) (r : Reply), results[i]? = some (some r) → ∃ (cmd : Cmd) (a : Bytes), multi[i]? = some cmd ∧ (cmd.id, a, r) ∈ replies

theorem pget_ok (multi : List Cmd) (p : Pending) (h : PendOK multi p) (cc : Conn) :
    EntriesOK multi (pget cc p).cmds ∧ EntriesOK multi (pget cc p).asks := by
  rcases pget_empty_or_mem cc p with h0 | ⟨x, hx, he⟩
  · rw [h0]; exact ⟨(fun e he => by cases he), (fun e he => by cases he)⟩
  · rw [← he]; exact h x hx

theorem entriesOK_append (multi : List Cmd) (a b : List Entry) (ha : EntriesOK multi a) (hb : EntriesOK multi b) :
    EntriesOK multi (a ++ b) := by
  intro e he
  rcases List.mem_append.mp he with h | h
  · exact ha e h
  · exact hb e h

theorem addCmds_ok (multi : List Cmd) (cc : Conn) (es : List Entry) (p : Pending)
    (hp : PendOK multi p) (hes : EntriesOK multi es) : PendOK multi (addCmds cc es p) := by
  intro x hx
  unfold addCmds at hx
  rcases mem_pset cc _ p x hx with h | h
  · subst h
    obtain ⟨h1, h2⟩ := pget_ok multi p hp cc
    exact ⟨entriesOK_append multi _ _ h1 hes, h2⟩
  · exact hp x h

theorem addAsks_ok (multi : List Cmd) (cc : Conn) (es : List Entry) (p : Pending)
    (hp : PendOK multi p) (hes : EntriesOK multi es) : PendOK multi (addAsks cc es p) := by
  intro x hx
  unfold addAsks at hx
  rcases mem_pset cc _ p x hx with h | h
  · subst h
    obtain ⟨h1, h2⟩ := pget_ok multi p hp cc
    exact ⟨h1, entriesOK_append multi _ _ h2 hes⟩
  · exact hp x h

def rqEntries : Requeue → List Entry
  | .nothing => []
  | .cmds _ es => es
  | .asks _ es => es

theorem applyRq_ok (multi : List Cmd) (rq : Requeue) (p : Pending) (hp : PendOK multi p)
    (h : EntriesOK multi (rqEntries rq)) : PendOK multi (applyRq rq p) := by
  cases rq with
  | nothing => exact hp
  | cmds nc es => exact addCmds_ok multi nc es p hp h
  | asks nc es => exact addAsks_ok multi nc es p hp h

theorem rqEntries_mkRq (b : Bool) (nc : Conn) (es : List Entry) : rqEntries (mkRq b nc es) = es := by
  cases b <;> rfl

theorem txBlock_sub (cs : List Entry) (t : Tx) : ∀ e ∈ txBlock cs t, e ∈ cs := by
  intro e he
  unfold txBlock at he
  split at he
  · exact List.mem_of_mem_drop (List.mem_of_mem_take he)
  · cases he

/-- whatever an iteration re-queues is taken from the sub-batch it is looking at -/
theorem decideStep_rq_sub (o : Opt) (cache hasInit : Bool) (attempts : Nat) (cc : Conn) (cs : List Entry)
    (resps : List Reply) (c : Client) (t : Tx) (i ii : Nat) (cm : Cmd) (resp : Reply) (hi : cs[i]? = some (ii, cm)) :
    ∀ e ∈ rqEntries (decideStep o cache hasInit attempts cc cs resps c t i ii cm resp).rq, e ∈ cs := by
  have hself : (ii, cm) ∈ cs := List.mem_of_getElem? hi
  unfold decideStep
  simp only
  split
  · intro e he; cases he
  · simp only
    split
    · intro e he
      rw [rqEntries_mkRq] at he
      exact txBlock_sub cs _ e he
    · split
      · intro e he; cases he
      · intro e he
        rw [rqEntries_mkRq] at he
        exact (List.mem_singleton.mp he) ▸ hself

theorem resOK_mono (multi : List Cmd) (R R' : List (Nat × Bytes × Reply)) (res : List (Option Reply))
    (h : ResOK multi R res) (hsub : ∀ x ∈ R, x ∈ R') : ResOK multi R' res := by
  refine ⟨h.1, fun i r hr => ?_⟩
  obtain ⟨cmd, a, h1, h2⟩ := h.2 i r hr
  exact ⟨cmd, a, h1, hsub _ h2⟩

theorem resultStep_inv (multi : List Cmd) (R : List (Nat × Bytes × Reply)) (o : Opt) (cache hasInit : Bool)
    (attempts : Nat) (cc : Conn) (cs : List Entry) (resps : List Reply)
    (hcs : EntriesOK multi cs)
    (hrep : ∀ (j : Nat) (e : Entry) (r : Reply), cs[j]? = some e → resps[j]? = some r → ∃ a, (e.2.id, a, r) ∈ R)
    (st : Acc × Tx) (i : Nat) (hr : ResOK multi R st.1.results) (hp : PendOK multi st.1.next) :
    ResOK multi R (resultStep o cache hasInit attempts cc cs resps st i).1.results ∧
    PendOK multi (resultStep o cache hasInit attempts cc cs resps st i).1.next := by
  unfold resultStep
  cases h1 : cs[i]? with
  | none => exact ⟨hr, hp⟩
  | some e =>
    obtain ⟨ii, cm⟩ := e
    cases h2 : resps[i]? with
    | none => exact ⟨hr, hp⟩
    | some resp =>
      simp only
      have hmem : (ii, cm) ∈ cs := List.mem_of_getElem? h1
      have hm : multi[ii]? = some cm := hcs _ hmem
      refine ⟨⟨?_, ?_⟩, ?_⟩
      · simp [setAt, hr.1]
      · intro k r hk
        simp only [setAt, List.getElem?_set] at hk
        by_cases hik : ii = k
        · subst hik
          split at hk
          · split at hk
            · cases hk
              obtain ⟨a, ha⟩ := hrep i (ii, cm) resp h1 h2
              exact ⟨cm, a, hm, ha⟩
            · cases hk
          · rename_i hne; exact absurd rfl hne
        · rw [if_neg hik] at hk
          exact hr.2 k r hk
      · apply applyRq_ok multi _ _ hp
        intro e he
        exact hcs e (decideStep_rq_sub o cache hasInit attempts cc cs resps _ _ i ii cm resp h1 e he)

theorem resultFn_inv (multi : List Cmd) (R : List (Nat × Bytes × Reply)) (o : Opt) (cache hasInit : Bool)
    (attempts : Nat) (cc : Conn) (cs : List Entry) (resps : List Reply)
    (hcs : EntriesOK multi cs)
    (hrep : ∀ (j : Nat) (e : Entry) (r : Reply), cs[j]? = some e → resps[j]? = some r → ∃ a, (e.2.id, a, r) ∈ R)
    (a : Acc) (hr : ResOK multi R a.results) (hp : PendOK multi a.next) :
    ResOK multi R (resultFn o cache hasInit attempts cc cs resps a).results ∧
    PendOK multi (resultFn o cache hasInit attempts cc cs resps a).next := by
  unfold resultFn
  have : ∀ (is : List Nat) (st : Acc × Tx), ResOK multi R st.1.results → PendOK multi st.1.next →
      ResOK multi R (is.foldl (resultStep o cache hasInit attempts cc cs resps) st).1.results ∧
      PendOK multi (is.foldl (resultStep o cache hasInit attempts cc cs resps) st).1.next := by
    intro is
    induction is with
    | nil => intro st h1 h2; exact ⟨h1, h2⟩
    | cons i rest ih =>
      intro st h1 h2
      obtain ⟨g1, g2⟩ := resultStep_inv multi R o cache hasInit attempts cc cs resps hcs hrep st i h1 h2
      exact ih _ g1 g2
  exact this _ (a, {}) hr hp

/-! ### the world only grows, and remembers who answered what -/

theorem answer_spec (w : World) (addr : Bytes) (c : Cmd) :
    (c.id, addr, (answer w addr c).1) ∈ (answer w addr c).2.replies ∧
    (∀ x ∈ w.replies, x ∈ (answer w addr c).2.replies) := by
  unfold answer
  split
  · exact ⟨by simp, fun x hx => by simp [hx]⟩
  · exact ⟨by simp, fun x hx => by simp [hx]⟩

theorem answerAll_spec (addr : Bytes) : ∀ (cmds : List Cmd) (w : World),
    (answerAll w addr cmds).1.length = cmds.length ∧
    (∀ x ∈ w.replies, x ∈ (answerAll w addr cmds).2.replies) ∧
    (∀ (j : Nat) (c : Cmd) (r : Reply), cmds[j]? = some c → (answerAll w addr cmds).1[j]? = some r →
        (c.id, addr, r) ∈ (answerAll w addr cmds).2.replies) := by
  intro cmds
  induction cmds with
  | nil => intro w; simp [answerAll]
  | cons c rest ih =>
    intro w
    obtain ⟨a1, a2⟩ := answer_spec w addr c
    obtain ⟨i1, i2, i3⟩ := ih (answer w addr c).2
    simp only [answerAll]
    refine ⟨by simp [i1], fun x hx => i2 x (a2 x hx), ?_⟩
    intro j c' r hj hr
    cases j with
    | zero =>
      simp only [List.getElem?_cons_zero, Option.some.injEq] at hj hr
      subst hj; subst hr
      exact i2 _ a1
    | succ j =>
      simp only [List.getElem?_cons_succ] at hj hr
      exact i3 j c' r hj hr

theorem logCall_replies (w : World) (c : Call) : (logCall w c).replies = w.replies := rfl

/-- the joint invariant of the round loop -/
structure Inv (multi : List Cmd) (a : Acc) (w : World) : Prop where
  res : ResOK multi w.replies a.results
  pend : PendOK multi a.next

theorem phase_inv (multi : List Cmd) (o : Opt) (cache hasInit : Bool) (attempts : Nat) (cc : Conn) (kind : CallKind)
    (items : List Item) (es : List Entry) (hes : EntriesOK multi es) (a : Acc) (w : World) (h : Inv multi a w) :
    Inv multi (phase o cache hasInit attempts cc kind items es a w).1 (phase o cache hasInit attempts cc kind items es a w).2 ∧
    (∀ x ∈ w.replies, x ∈ (phase o cache hasInit attempts cc kind items es a w).2.replies) := by
  unfold phase
  simp only
  obtain ⟨_, s2, s3⟩ := answerAll_spec cc.addr (es.map (·.2)) (logCall w { conn := cc, kind := kind, items := items })
  rw [logCall_replies] at s2
  have hrep : ∀ (j : Nat) (e : Entry) (r : Reply), es[j]? = some e →
      (answerAll (logCall w { conn := cc, kind := kind, items := items }) cc.addr (es.map (·.2))).1[j]? = some r →
      ∃ a', (e.2.id, a', r) ∈ (answerAll (logCall w { conn := cc, kind := kind, items := items }) cc.addr (es.map (·.2))).2.replies := by
    intro j e r hj hr
    exact ⟨cc.addr, s3 j e.2 r (by simp [List.getElem?_map, hj]) hr⟩
  obtain ⟨g1, g2⟩ := resultFn_inv multi _ o cache hasInit attempts cc es _ hes hrep a
    (resOK_mono multi _ _ _ h.res s2) h.pend
  exact ⟨⟨g1, g2⟩, s2⟩

theorem doRetryCore_inv (multi : List Cmd) (o : Opt) (cache hasInit : Bool) (attempts : Nat) (cc : Conn) (re : Retry)
    (h1 : EntriesOK multi re.cmds) (h2 : EntriesOK multi re.asks) (a : Acc) (w : World) (h : Inv multi a w) :
    Inv multi (doRetryCore o cache hasInit attempts cc re a w).1 (doRetryCore o cache hasInit attempts cc re a w).2 ∧
    (∀ x ∈ w.replies, x ∈ (doRetryCore o cache hasInit attempts cc re a w).2.replies) := by
  unfold doRetryCore
  simp only
  by_cases hc : re.cmds ≠ []
  · rw [if_pos hc]
    obtain ⟨i1, m1⟩ := phase_inv multi o cache hasInit attempts cc (callKind cache) _ re.cmds h1 a w h
    by_cases ha : re.asks ≠ []
    · rw [if_pos ha]
      obtain ⟨i2, m2⟩ := phase_inv multi o cache hasInit attempts cc .multi
        (if cache then askingCacheItems re.asks else askingItems false re.asks) re.asks h2 _ _ i1
      exact ⟨i2, fun x hx => m2 x (m1 x hx)⟩
    · rw [if_neg ha]; exact ⟨i1, m1⟩
  · rw [if_neg hc]
    by_cases ha : re.asks ≠ []
    · rw [if_pos ha]
      exact phase_inv multi o cache hasInit attempts cc .multi _ re.asks h2 a w h
    · rw [if_neg ha]; exact ⟨h, fun x hx => hx⟩

theorem doRetry_fst (o : Opt) (cache hasInit : Bool) (attempts : Nat) (cc : Conn) (re : Retry) (a : Acc) (w : World) :
    (doRetry o cache hasInit attempts cc re a w).1 = (doRetryCore o cache hasInit attempts cc re a w).1 ∧
    (doRetry o cache hasInit attempts cc re a w).2.replies = (doRetryCore o cache hasInit attempts cc re a w).2.replies := by
  unfold doRetry
  simp only
  split
  · exact ⟨rfl, rfl⟩
  · exact ⟨rfl, rfl⟩

theorem doRetry_inv (multi : List Cmd) (o : Opt) (cache hasInit : Bool) (attempts : Nat) (cc : Conn) (re : Retry)
    (h1 : EntriesOK multi re.cmds) (h2 : EntriesOK multi re.asks) (a : Acc) (w : World) (h : Inv multi a w) :
    Inv multi (doRetry o cache hasInit attempts cc re a w).1 (doRetry o cache hasInit attempts cc re a w).2 ∧
    (∀ x ∈ w.replies, x ∈ (doRetry o cache hasInit attempts cc re a w).2.replies) := by
  obtain ⟨e1, e2⟩ := doRetry_fst o cache hasInit attempts cc re a w
  obtain ⟨i, m⟩ := doRetryCore_inv multi o cache hasInit attempts cc re h1 h2 a w h
  refine ⟨⟨?_, ?_⟩, ?_⟩
  · rw [e1, e2]; exact i.res
  · rw [e1]; exact i.pend
  · rw [e2]; exact m

theorem runRound_inv (multi : List Cmd) (o : Opt) (cache hasInit : Bool) (attempts : Nat) :
    ∀ (p : Pending) (a : Acc) (w : World), PendOK multi p → Inv multi a w →
    Inv multi (runRound o cache hasInit attempts p a w).1 (runRound o cache hasInit attempts p a w).2 := by
  intro p
  induction p with
  | nil => intro a w _ h; exact h
  | cons x rest ih =>
    intro a w hp h
    obtain ⟨cc, re⟩ := x
    unfold runRound
    simp only
    obtain ⟨e1, e2⟩ := hp (cc, re) (List.mem_cons_self ..)
    obtain ⟨i1, _⟩ := doRetry_inv multi o cache hasInit attempts cc re e1 e2 a w h
    exact ih _ _ (fun y hy => hp y (List.mem_cons_of_mem _ hy)) i1

theorem mem_insertP (x y : Conn × Retry) : ∀ (p : Pending), y ∈ insertP x p → y = x ∨ y ∈ p := by
  intro p
  induction p with
  | nil => intro h; simp [insertP] at h; exact Or.inl h
  | cons z rest ih =>
    intro h
    unfold insertP at h
    split at h
    · rcases List.mem_cons.mp h with h | h
      · exact Or.inl h
      · exact Or.inr h
    · rcases List.mem_cons.mp h with h | h
      · exact Or.inr (h ▸ List.mem_cons_self ..)
      · rcases ih h with h | h
        · exact Or.inl h
        · exact Or.inr (List.mem_cons_of_mem _ h)

theorem mem_sortP (p : Pending) (y : Conn × Retry) (h : y ∈ sortP p) : y ∈ p := by
  unfold sortP at h
  have : ∀ (l acc : Pending), y ∈ l.foldl (fun acc x => insertP x acc) acc → y ∈ acc ∨ y ∈ l := by
    intro l
    induction l with
    | nil => intro acc h; exact Or.inl h
    | cons x rest ih =>
      intro acc h
      rcases ih _ h with h | h
      · rcases mem_insertP x y acc h with h | h
        · exact Or.inr (h ▸ List.mem_cons_self ..)
        · exact Or.inl h
      · exact Or.inr (List.mem_cons_of_mem _ h)
  rcases this p [] h with h | h
  · cases h
  · exact h

theorem rounds_inv (multi : List Cmd) (o : Opt) (cache hasInit : Bool) :
    ∀ (fuel : Nat) (p : Pending) (a : Acc) (w : World) (attempts redirects : Nat), PendOK multi p →
    ResOK multi w.replies a.results →
    ResOK multi (rounds o cache hasInit fuel p a w attempts redirects).2.replies
      (rounds o cache hasInit fuel p a w attempts redirects).1.results := by
  intro fuel
  induction fuel with
  | zero => intro p a w _ _ _ h; exact h
  | succ fuel ih =>
    intro p a w attempts redirects hp hr
    unfold rounds
    simp only
    have hp' : PendOK multi (sortP p) := fun y hy => hp y (mem_sortP p y hy)
    have h0 : Inv multi { a with next := [], redirects := 0, hasDelay := false } w :=
      ⟨hr, fun x hx => by cases hx⟩
    have hi := runRound_inv multi o cache hasInit attempts (sortP p) _ w hp' h0
    split
    · split
      · split
        · exact hi.res
        · exact ih _ _ _ _ _ hi.pend hi.res
      · split
        · exact ih _ _ _ _ _ hi.pend hi.res
        · exact hi.res
    · exact hi.res

end Rv.ClusterMultiL
