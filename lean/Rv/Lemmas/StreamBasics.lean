/-
Helper lemmas for C29: one rewrite lemma per branch of the `streamTo` model
(blob copy, chunk loop, default branch through `decode`, skipped pushes).
-/
import Rv.Model.StreamTo
import Rv.Props.C12
namespace Rv.StreamL
open Rv Rv.Resp Rv.Spec Rv.RespL Rv.StreamTo

/-! ### the blob branch -/

theorem copyN_all (wr : Wr) (hw : wr.budget = none) (s tl : List UInt8) (hs : 0 < s.length) :
    copyN wr (s.length : Int) (s ++ tl) = ⟨s.length, false, { wr with out := wr.out ++ s }, tl, 0⟩ := by
  unfold copyN
  have h1 : ¬ ((s.length : Int) ≤ 0) := by omega
  have h2 : min (s.length : Int).toNat (s ++ tl).length = s.length := by simp
  simp only [h1, if_false, hw, h2, List.take_left', List.drop_left', Int.sub_self]

theorem wrap_small (k : Nat) (hk : k < 9223372036854775808) : wrap64 (k : Int) = k := by
  unfold wrap64; omega

theorem finishBlob_two (n : Nat) (failed : Bool) (w : Wr) (rest : List UInt8) (l : Int) :
    finishBlob 2 ⟨n, failed, w, 13 :: 10 :: rest, l⟩ = ⟨n, if failed then .writer else .none, true, rest, w⟩ := by
  unfold finishBlob
  simp

theorem fullAfter_zero (n : Nat) (failed : Bool) (w : Wr) (r : List UInt8) : fullAfter ⟨n, failed, w, r, 0⟩ = 2 := by
  unfold fullAfter
  have := wrap_small 2 (by omega)
  simpa using this

theorem isBlobLike_of {t : UInt8} (ht : t = 36 ∨ t = 61 ∨ t = 59) : isBlobLike t = true := by
  rcases ht with h | h | h <;> subst h <;> decide

/-- a `$n` / `=n` / `;n` frame with a non-failing writer: exactly the payload is written -/
theorem streamTo_blob (B : Nat) (hb : 32 ≤ B) (f : Nat) (t : UInt8) (ht : t = 36 ∨ t = 61 ∨ t = 59)
    (s rest : List UInt8) (hs : s.length < 9223372036854775808) (hne : t = 59 → s ≠ [])
    (wr : Wr) (hw : wr.budget = none) :
    streamTo B (f + 1) wr (t :: (digits s.length ++ crlf ++ (s ++ crlf ++ rest))) =
      ⟨s.length, .none, true, rest, { wr with out := wr.out ++ s }⟩ := by
  rw [streamTo]
  simp only [isBlobLike_of ht, if_true]
  rw [readI_digits B s.length hb hs]
  simp only
  unfold blobCase
  have h1 : ¬ ((s.length : Int) = -1) := by omega
  simp only [h1, if_false]
  by_cases h0 : s.length = 0
  · have hnil : s = [] := List.length_eq_zero_iff.mp h0
    subst hnil
    have ht59 : ¬ (t = 59) := fun e => hne e rfl
    simp only [List.length_nil, Int.natCast_zero, ne_eq, not_true, if_false, ht59, List.nil_append, crlf,
      List.cons_append, finishBlob_two, List.append_nil, Bool.false_eq_true]
  · have hpos : 0 < s.length := by omega
    have h2 : (s.length : Int) ≠ 0 := by omega
    simp only [h2, ne_eq, not_false_eq_true, if_true]
    rw [List.append_assoc, copyN_all wr hw s _ hpos, fullAfter_zero]
    simp only [crlf, List.cons_append, List.nil_append, finishBlob_two, Bool.false_eq_true, if_false]

/-- `;0\r\n`: the end marker of a chunked string writes nothing and is clean -/
theorem streamTo_chunk_end (B : Nat) (hb : 32 ≤ B) (f : Nat) (wr : Wr) (rest : List UInt8) :
    streamTo B (f + 1) wr (59 :: 48 :: 13 :: 10 :: rest) = ⟨0, .none, true, rest, wr⟩ := by
  rw [streamTo]
  have hI := readI_digits B 0 hb (by omega) rest
  rw [digits_zero] at hI
  simp only [crlf, List.cons_append, List.nil_append] at hI
  have : isBlobLike 59 = true := by decide
  simp only [this, if_true, hI]
  unfold blobCase
  simp

/-- `$-1\r\n` / `=-1\r\n`: RESP2 null -/
theorem streamTo_nullblob (B : Nat) (hb : 32 ≤ B) (f : Nat) (t : UInt8) (ht : t = 36 ∨ t = 61 ∨ t = 59)
    (wr : Wr) (rest : List UInt8) :
    streamTo B (f + 1) wr (t :: 45 :: 49 :: 13 :: 10 :: rest) = ⟨0, .nilMsg, true, rest, wr⟩ := by
  rw [streamTo]
  simp only [isBlobLike_of ht, if_true, readI_m1 B hb]
  unfold blobCase
  simp

/-- the chunk loop over well-formed chunks followed by `;0\r\n` -/
theorem chunkLoop_ok (B : Nat) (hb : 32 ≤ B) (cs : List (List UInt8))
    (hcs : ∀ c ∈ cs, c ≠ [] ∧ c.length < 9223372036854775808) :
    ∀ (f : Nat), cs.length + 2 ≤ f → ∀ (acc : Nat) (wr : Wr), wr.budget = none → ∀ (rest : List UInt8),
    chunkLoop B f acc wr ((cs.map chunkBytes).flatten ++ (59 :: 48 :: 13 :: 10 :: rest)) =
      ⟨acc + cs.flatten.length, .none, true, rest, { wr with out := wr.out ++ cs.flatten }⟩ := by
  induction cs with
  | nil =>
    intro f hf acc wr _ rest
    obtain ⟨f1, rfl⟩ : ∃ k, f = k + 1 + 1 := ⟨f - 2, by simp at hf; omega⟩
    rw [chunkLoop]
    simp only [List.map_nil, List.flatten_nil, List.nil_append, streamTo_chunk_end B hb]
    simp
  | cons c cs ih =>
    intro f hf acc wr hw rest
    obtain ⟨f1, rfl⟩ : ∃ k, f = k + 1 + 1 := ⟨f - 2, by simp at hf; omega⟩
    have ⟨hne, hlt⟩ := hcs c (by simp)
    have hl : 0 < c.length := List.length_pos_iff.mpr hne
    have hshape : ((c :: cs).map chunkBytes).flatten ++ (59 :: 48 :: 13 :: 10 :: rest) =
        59 :: (digits c.length ++ crlf ++ (c ++ crlf ++ ((cs.map chunkBytes).flatten ++ (59 :: 48 :: 13 :: 10 :: rest)))) := by
      simp [chunkBytes, List.append_assoc]
    rw [hshape, chunkLoop]
    rw [streamTo_blob B hb f1 59 (Or.inr (Or.inr rfl)) c _ hlt (fun _ => hne) wr hw]
    have hc : c.length ≠ 0 := by omega
    simp only [hc, ne_eq, not_false_eq_true, true_and, if_true]
    rw [ih (fun x hx => hcs x (by simp [hx])) (f1 + 1) (by simp at hf; omega) (acc + c.length) { wr with out := wr.out ++ c } hw rest]
    simp [List.append_assoc, Nat.add_assoc]

/-- a `$?` / `=?` chunked string with a non-failing writer -/
theorem streamTo_chunked (B : Nat) (hb : 32 ≤ B) (t : UInt8) (ht : t = 36 ∨ t = 61 ∨ t = 59) (cs : List (List UInt8))
    (hcs : ∀ c ∈ cs, c ≠ [] ∧ c.length < 9223372036854775808)
    (f : Nat) (hf : cs.length + 2 ≤ f) (wr : Wr) (hw : wr.budget = none) (rest : List UInt8) :
    streamTo B (f + 1) wr (t :: 63 :: 13 :: 10 :: ((cs.map chunkBytes).flatten ++ (59 :: 48 :: 13 :: 10 :: rest))) =
      ⟨cs.flatten.length, .none, true, rest, { wr with out := wr.out ++ cs.flatten }⟩ := by
  rw [streamTo]
  simp only [isBlobLike_of ht, if_true, readI_q B hb]
  rw [chunkLoop_ok B hb cs hcs f hf 0 wr hw rest]
  simp

/-! ### the default branch -/

theorem defaultCase_wf (B : Nat) (hb : 32 ≤ B) (w : Wire) (hwf : WF w = true) (t : UInt8) (tl : List UInt8)
    (hbytes : bytes w = t :: tl) (rest : List UInt8) (wr : Wr) :
    defaultCase B t (tl ++ rest) wr = msgCase t (value w []) rest wr ∧ afterPush B t (tl ++ rest) = rest := by
  have hd : decode B (t :: (tl ++ rest)) = .ok (value w [], rest) := by
    rw [← List.cons_append, ← hbytes]; exact Rv.C12.decode_encode B hb w hwf rest
  unfold defaultCase afterPush
  rw [hd]
  exact ⟨rfl, rfl⟩

/-- a well-formed reply handled by the default branch and not skipped -/
theorem streamTo_default_some (B : Nat) (hb : 32 ≤ B) (f : Nat) (w : Wire) (hwf : WF w = true) (t : UInt8) (tl : List UInt8)
    (hbytes : bytes w = t :: tl) (hnb : isBlobLike t = false) (rest : List UInt8) (wr : Wr) (o : Out)
    (hm : msgCase t (value w []) rest wr = some o) :
    streamTo B (f + 1) wr (bytes w ++ rest) = o := by
  rw [hbytes, List.cons_append, streamTo]
  simp only [hnb, Bool.false_eq_true, if_false, (defaultCase_wf B hb w hwf t tl hbytes rest wr).1, hm]

/-- a well-formed push is skipped (`goto next`) -/
theorem streamTo_default_none (B : Nat) (hb : 32 ≤ B) (f : Nat) (w : Wire) (hwf : WF w = true) (t : UInt8) (tl : List UInt8)
    (hbytes : bytes w = t :: tl) (hnb : isBlobLike t = false) (rest : List UInt8) (wr : Wr)
    (hm : msgCase t (value w []) rest wr = none) :
    streamTo B (f + 1) wr (bytes w ++ rest) = streamTo B f wr rest := by
  rw [hbytes, List.cons_append, streamTo]
  simp only [hnb, Bool.false_eq_true, if_false, (defaultCase_wf B hb w hwf t tl hbytes rest wr).1, hm,
    (defaultCase_wf B hb w hwf t tl hbytes rest wr).2]

theorem msgCase_push (t0 : UInt8) (m : Msg) (hm : m.typ = 62) (r : List UInt8) (w : Wr) : msgCase t0 m r w = none := by
  unfold msgCase; rw [hm]; simp

/-- the first byte of a well-formed frame whose value is a push is `>` or `|` -/
theorem push_head (p : Wire) (hwf : WF p = true) (hp : (value p []).typ = 62) :
    ∃ t tl, bytes p = t :: tl ∧ isBlobLike t = false := by
  cases p with
  | blob t s =>
    simp only [value, Msg.typ] at hp; subst hp; simp [WF, isBlobT] at hwf
  | chunked t cs =>
    simp only [value, Msg.typ] at hp; subst hp; simp [WF, isBlobT] at hwf
  | nullBlob t => simp [value, Msg.null, Msg.typ] at hp
  | line t s =>
    simp only [value, Msg.typ] at hp; subst hp; simp [WF, isLineT] at hwf
  | int v => simp [value, Msg.typ] at hp
  | null => simp [value, Msg.typ] at hp
  | bool b => simp [value, Msg.typ] at hp
  | arr t xs =>
    simp only [value, Msg.typ] at hp; subst hp
    exact ⟨62, _, by simp only [bytes, List.cons_append]; rfl, by decide⟩
  | map t xs =>
    simp only [value, Msg.typ] at hp; subst hp; simp [WF] at hwf
  | stream t xs =>
    simp only [value, Msg.typ] at hp; subst hp
    exact ⟨62, _, by simp only [bytes, List.cons_append]; rfl, by decide⟩
  | nullArr t => simp [value, Msg.null, Msg.typ] at hp
  | attr a w =>
    simp only [WF, Bool.and_eq_true] at hwf
    obtain ⟨ha, _⟩ := hwf
    cases a with
    | map t xs =>
      simp only [attrOK, Bool.and_eq_true, beq_iff_eq] at ha
      obtain ⟨⟨⟨ht, _⟩, _⟩, _⟩ := ha
      subst ht
      exact ⟨124, _, by simp only [bytes, List.cons_append]; rfl, by decide⟩
    | stream t xs =>
      simp only [attrOK, Bool.and_eq_true, beq_iff_eq] at ha
      obtain ⟨ht, _⟩ := ha
      subst ht
      exact ⟨124, _, by simp only [bytes, List.cons_append]; rfl, by decide⟩
    | _ => simp [attrOK] at ha

/-- well-formed push frames -/
def Pushes (ps : List Wire) : Prop := ∀ p ∈ ps, WF p = true ∧ (value p []).typ = 62

/-- any number of well-formed push frames in front are skipped, one unit of fuel each -/
theorem streamTo_skip_pushes (B : Nat) (hb : 32 ≤ B) (ps : List Wire) (hps : Pushes ps) (f : Nat) (wr : Wr) (tl : List UInt8) :
    streamTo B (ps.length + f) wr (bytesL ps ++ tl) = streamTo B f wr tl := by
  induction ps with
  | nil => simp [bytesL]
  | cons p ps ih =>
    have ⟨hwf, hp⟩ := hps p (by simp)
    obtain ⟨t, tl', hbytes, hnb⟩ := push_head p hwf hp
    have hlen : (p :: ps).length + f = (ps.length + f) + 1 := by simp; omega
    rw [hlen]
    simp only [bytesL, List.append_assoc]
    rw [streamTo_default_none B hb _ p hwf t tl' hbytes hnb _ wr (msgCase_push t _ hp _ _)]
    exact ih (fun q hq => hps q (by simp [hq]))

theorem bytesL_len (ps : List Wire) (hps : Pushes ps) : ps.length ≤ (bytesL ps).length := by
  induction ps with
  | nil => simp
  | cons p ps ih =>
    have ⟨hwf, hp⟩ := hps p (by simp)
    obtain ⟨t, tl', hbytes, _⟩ := push_head p hwf hp
    have := ih (fun q hq => hps q (by simp [hq]))
    simp only [bytesL, List.length_append, List.length_cons, hbytes]
    omega

end Rv.StreamL
