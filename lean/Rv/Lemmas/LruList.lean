/-
List-level lemmas for the LRU model: key-uniqueness of the recency list, the
accounted sum, and how `erase`/`replace`/`moveToBack`/append act on them.
-/
import Rv.Model.Lru
namespace Rv.Lru

def sameKC (a b : Entry) : Prop := a.key = b.key ∧ a.cmd = b.cmd

def KeysNodup (l : List Entry) : Prop := l.Pairwise (fun a b => ¬ sameKC a b)

def contrib (e : Entry) : Int := if e.pend then 0 else e.size

def sumC : List Entry → Int
  | [] => 0
  | e :: l => contrib e + sumC l

theorem isKC_iff (k c : Bytes) (e : Entry) : isKC k c e = true ↔ e.key = k ∧ e.cmd = c := by
  simp [isKC]

theorem find?_some {l : List Entry} {k c : Bytes} {e : Entry} (h : find? l k c = some e) :
    e ∈ l ∧ e.key = k ∧ e.cmd = c := by
  unfold find? at h
  exact ⟨List.mem_of_find?_eq_some h, (isKC_iff k c e).1 (List.find?_some h)⟩

theorem find?_none {l : List Entry} {k c : Bytes} (h : find? l k c = none) :
    ∀ e ∈ l, ¬ (e.key = k ∧ e.cmd = c) := by
  unfold find? at h
  intro e he hk
  have := List.find?_eq_none.1 h e he
  exact this ((isKC_iff k c e).2 hk)

theorem KeysNodup.eq_of_sameKC {l : List Entry} (h : KeysNodup l) {x y : Entry}
    (hx : x ∈ l) (hy : y ∈ l) (hs : sameKC x y) : x = y := by
  induction l with
  | nil => cases hx
  | cons a l ih =>
    rw [KeysNodup, List.pairwise_cons] at h
    rcases List.mem_cons.1 hx with rfl | hx'
    · rcases List.mem_cons.1 hy with rfl | hy'
      · rfl
      · exact absurd hs (h.1 y hy')
    · rcases List.mem_cons.1 hy with rfl | hy'
      · exact absurd ⟨hs.1.symm, hs.2.symm⟩ (h.1 x hx')
      · exact ih h.2 hx' hy'

theorem find?_of_mem {l : List Entry} (h : KeysNodup l) {e : Entry} (he : e ∈ l) :
    find? l e.key e.cmd = some e := by
  cases hf : find? l e.key e.cmd with
  | none => exact absurd ⟨rfl, rfl⟩ (find?_none hf e he)
  | some x =>
    have := find?_some hf
    rw [h.eq_of_sameKC this.1 he ⟨this.2.1, this.2.2⟩]

theorem KeysNodup.nodup {l : List Entry} (h : KeysNodup l) : l.Nodup := by
  unfold KeysNodup at h
  exact List.Pairwise.imp (fun hab heq => hab (by subst heq; exact ⟨rfl, rfl⟩)) h

theorem KeysNodup.sublist {l l' : List Entry} (h : KeysNodup l) (hs : l'.Sublist l) : KeysNodup l' :=
  List.Pairwise.sublist hs h

theorem KeysNodup.erase {l : List Entry} (h : KeysNodup l) (e : Entry) : KeysNodup (l.erase e) :=
  h.sublist List.erase_sublist

theorem KeysNodup.filter {l : List Entry} (h : KeysNodup l) (p : Entry → Bool) : KeysNodup (l.filter p) :=
  h.sublist List.filter_sublist

theorem KeysNodup.append_one {l : List Entry} (h : KeysNodup l) {e : Entry}
    (hne : ∀ x ∈ l, ¬ sameKC x e) : KeysNodup (l ++ [e]) := by
  unfold KeysNodup at *
  rw [List.pairwise_append]
  refine ⟨h, by simp, ?_⟩
  intro a ha b hb
  rw [List.mem_singleton] at hb; subst hb
  exact hne a ha

theorem mem_erase_not_sameKC {l : List Entry} (h : KeysNodup l) {e x : Entry} (he : e ∈ l)
    (hx : x ∈ l.erase e) : ¬ sameKC x e := by
  intro hs
  have hxl : x ∈ l := List.mem_of_mem_erase hx
  have := h.eq_of_sameKC hxl he hs
  subst this
  exact absurd hx (List.Nodup.not_mem_erase h.nodup)

theorem KeysNodup.moveToBack {l : List Entry} (h : KeysNodup l) {e : Entry} (he : e ∈ l) :
    KeysNodup (moveToBack l e) :=
  (h.erase e).append_one (fun _ hx => mem_erase_not_sameKC h he hx)

theorem mem_replace {l : List Entry} (hn : l.Nodup) {e e' x : Entry} (hx : x ∈ l.replace e e') :
    (x ∈ l ∧ x ≠ e) ∨ (e ∈ l ∧ x = e') := by
  induction l with
  | nil => simp at hx
  | cons a l ih =>
    rw [List.nodup_cons] at hn
    rw [List.replace_cons] at hx
    by_cases hae : e = a
    · subst hae
      simp only [beq_self_eq_true] at hx
      rcases List.mem_cons.1 hx with h | h
      · exact Or.inr ⟨List.mem_cons_self, h⟩
      · exact Or.inl ⟨List.mem_cons_of_mem _ h, fun hh => hn.1 (hh ▸ h)⟩
    · have : (e == a) = false := by simpa using hae
      simp only [this] at hx
      rcases List.mem_cons.1 hx with h | h
      · subst h; exact Or.inl ⟨List.mem_cons_self, fun h => hae h.symm⟩
      · rcases ih hn.2 h with h | h
        · exact Or.inl ⟨List.mem_cons_of_mem _ h.1, h.2⟩
        · exact Or.inr ⟨List.mem_cons_of_mem _ h.1, h.2⟩

theorem mem_replace_self {l : List Entry} {e e' : Entry} (he : e ∈ l) : e' ∈ l.replace e e' := by
  induction l with
  | nil => cases he
  | cons a l ih =>
    rw [List.replace_cons]
    by_cases hae : e = a
    · subst hae; simp
    · have : (e == a) = false := by simpa using hae
      simp only [this]
      rcases List.mem_cons.1 he with h | h
      · exact absurd h hae
      · exact List.mem_cons_of_mem _ (ih h)

theorem mem_replace_of_ne {l : List Entry} {e e' x : Entry} (hx : x ∈ l) (hne : x ≠ e) : x ∈ l.replace e e' := by
  induction l with
  | nil => cases hx
  | cons a l ih =>
    rw [List.replace_cons]
    by_cases hae : e = a
    · subst hae
      simp only [beq_self_eq_true]
      rcases List.mem_cons.1 hx with h | h
      · exact absurd h hne
      · exact List.mem_cons_of_mem _ h
    · have : (e == a) = false := by simpa using hae
      simp only [this]
      rcases List.mem_cons.1 hx with h | h
      · subst h; exact List.mem_cons_self
      · exact List.mem_cons_of_mem _ (ih h)

theorem KeysNodup.replace {l : List Entry} (h : KeysNodup l) {e e' : Entry} (hs : sameKC e e') :
    KeysNodup (l.replace e e') := by
  induction l with
  | nil => simpa using h
  | cons a l ih =>
    have hnd := h.nodup
    rw [KeysNodup, List.pairwise_cons] at h
    rw [List.replace_cons]
    by_cases hae : e = a
    · subst hae
      simp only [beq_self_eq_true]
      rw [KeysNodup, List.pairwise_cons]
      exact ⟨fun x hx hh => h.1 x hx ⟨hs.1.trans hh.1, hs.2.trans hh.2⟩, h.2⟩
    · have : (e == a) = false := by simpa using hae
      simp only [this]
      rw [KeysNodup, List.pairwise_cons]
      refine ⟨?_, ih h.2⟩
      intro x hx
      rw [List.nodup_cons] at hnd
      rcases mem_replace hnd.2 hx with hx' | hx'
      · exact h.1 x hx'.1
      · rw [hx'.2]; intro hh
        exact h.1 e hx'.1 ⟨hh.1.trans hs.1.symm, hh.2.trans hs.2.symm⟩

theorem sumC_append (l₁ l₂ : List Entry) : sumC (l₁ ++ l₂) = sumC l₁ + sumC l₂ := by
  induction l₁ with
  | nil => simp [sumC]
  | cons a l ih => simp only [List.cons_append, sumC, ih]; omega

theorem sumC_erase {l : List Entry} {e : Entry} (he : e ∈ l) : sumC (l.erase e) = sumC l - contrib e := by
  induction l with
  | nil => cases he
  | cons a l ih =>
    by_cases hae : a = e
    · subst hae; simp [sumC]; omega
    · have : (a == e) = false := by simpa using hae
      rw [List.erase_cons, this]
      simp only [sumC]
      rcases List.mem_cons.1 he with h | h
      · exact absurd h.symm hae
      · simp [sumC, ih h]; omega

theorem sumC_replace {l : List Entry} {e e' : Entry} (he : e ∈ l) :
    sumC (l.replace e e') = sumC l - contrib e + contrib e' := by
  induction l with
  | nil => cases he
  | cons a l ih =>
    rw [List.replace_cons]
    by_cases hae : e = a
    · subst hae; simp [sumC]; omega
    · have : (e == a) = false := by simpa using hae
      simp only [this, sumC]
      rcases List.mem_cons.1 he with h | h
      · exact absurd h hae
      · rw [ih h]; omega

theorem sumC_moveToBack {l : List Entry} {e : Entry} (he : e ∈ l) : sumC (moveToBack l e) = sumC l := by
  simp [moveToBack, sumC_append, sumC_erase he, sumC]

/-! ### the eviction loop -/

theorem evict_sublist (mx : Int) (size : Int) (l : List Entry) : (evictLoop mx size l).2.1.Sublist l := by
  induction l generalizing size with
  | nil => simp [evictLoop]
  | cons e rest ih =>
    simp only [evictLoop]
    split
    · split
      · exact (ih _).cons e
      · exact (ih _).cons_cons e
    · exact List.Sublist.refl _

theorem evict_size (mx : Int) (size : Int) (l : List Entry) :
    (evictLoop mx size l).1 - sumC (evictLoop mx size l).2.1 = size - sumC l := by
  induction l generalizing size with
  | nil => simp [evictLoop]
  | cons e rest ih =>
    simp only [evictLoop]
    split
    · split
      · rename_i hp
        have hp' : e.pend = false := by simpa using hp
        simp only [sumC, contrib, hp']
        have := ih (size - e.size); simp at this ⊢; omega
      · rename_i hp
        have hp' : e.pend = true := by simpa using hp
        simp only [sumC, contrib, hp']
        have := ih size; simp at this ⊢; omega
    · rfl

theorem evict_pending_kept (mx : Int) (size : Int) (l : List Entry) :
    ∀ e ∈ l, e.pend = true → e ∈ (evictLoop mx size l).2.1 := by
  induction l generalizing size with
  | nil => simp
  | cons a rest ih =>
    intro e he hp
    simp only [evictLoop]
    split
    · split
      · rename_i hpa
        rcases List.mem_cons.1 he with h | h
        · subst h; simp [hp] at hpa
        · exact ih _ e h hp
      · rcases List.mem_cons.1 he with h | h
        · subst h; exact List.mem_cons_self
        · exact List.mem_cons_of_mem _ (ih _ e h hp)
    · exact he

theorem evict_evicted_completed (mx : Int) (size : Int) (l : List Entry) :
    ∀ e ∈ (evictLoop mx size l).2.2, e.pend = false ∧ e ∈ l := by
  induction l generalizing size with
  | nil => simp [evictLoop]
  | cons a rest ih =>
    intro e he
    simp only [evictLoop] at he
    split at he
    · split at he
      · rename_i hpa
        rcases List.mem_cons.1 he with h | h
        · subst h; exact ⟨by simpa using hpa, List.mem_cons_self⟩
        · exact ⟨(ih _ e h).1, List.mem_cons_of_mem _ (ih _ e h).2⟩
      · exact ⟨(ih _ e he).1, List.mem_cons_of_mem _ (ih _ e he).2⟩
    · cases he

/-- when the loop stops, the size fits or only pending entries are left -/
theorem evict_fits (mx : Int) (size : Int) (l : List Entry) :
    (evictLoop mx size l).1 ≤ mx ∨ ∀ e ∈ (evictLoop mx size l).2.1, e.pend = true := by
  induction l generalizing size with
  | nil => right; simp [evictLoop]
  | cons a rest ih =>
    simp only [evictLoop]
    split
    · split
      · exact ih _
      · rename_i hpa
        rcases ih size with h | h
        · exact Or.inl h
        · right; intro e he
          rcases List.mem_cons.1 he with h' | h'
          · subst h'; simpa using hpa
          · exact h e h'
    · left; omega

/-- LRU first: what is evicted is exactly the completed part of a prefix of the list, pending
    entries of that prefix and the whole rest are kept in order, and every eviction was needed -/
theorem evict_prefix (mx : Int) (size : Int) (l : List Entry) :
    ∃ pre suf, l = pre ++ suf ∧
      (evictLoop mx size l).2.1 = pre.filter (·.pend) ++ suf ∧
      (evictLoop mx size l).2.2 = pre.filter (fun e => !e.pend) ∧
      (evictLoop mx size l).1 = size - sumC pre ∧
      (suf = [] ∨ (evictLoop mx size l).1 ≤ mx) ∧
      (∀ p1 e p2, pre = p1 ++ e :: p2 → size - sumC p1 > mx) := by
  induction l generalizing size with
  | nil => exact ⟨[], [], by simp [evictLoop, sumC]⟩
  | cons a rest ih =>
    simp only [evictLoop]
    split
    · rename_i hgt
      split
      · rename_i hpa
        have hpa' : a.pend = false := by simpa using hpa
        obtain ⟨pre, suf, h1, h2, h3, h4, h5, h6⟩ := ih (size - a.size)
        refine ⟨a :: pre, suf, by simp [h1], by simp [hpa', h2], by simp [hpa', h3],
          by simp [sumC, contrib, hpa', h4]; omega, h5, ?_⟩
        intro p1 e p2 hp
        cases p1 with
        | nil => simpa [sumC] using hgt
        | cons x p1' =>
          simp only [List.cons_append, List.cons.injEq] at hp
          have := h6 p1' e p2 hp.2
          rw [← hp.1]; simp [sumC, contrib, hpa']; omega
      · rename_i hpa
        have hpa' : a.pend = true := by simpa using hpa
        obtain ⟨pre, suf, h1, h2, h3, h4, h5, h6⟩ := ih size
        refine ⟨a :: pre, suf, by simp [h1], by simp [hpa', h2], by simp [hpa', h3],
          by simp [sumC, contrib, hpa', h4], h5, ?_⟩
        intro p1 e p2 hp
        cases p1 with
        | nil => simpa [sumC] using hgt
        | cons x p1' =>
          simp only [List.cons_append, List.cons.injEq] at hp
          have := h6 p1' e p2 hp.2
          rw [← hp.1]; simp [sumC, contrib, hpa']; omega
    · rename_i hle
      exact ⟨[], a :: rest, by simp, by simp, by simp, by simp [sumC], Or.inr (by omega), by simp⟩

end Rv.Lru
