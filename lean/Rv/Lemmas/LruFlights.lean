/-
Positional results of `Flights` in the LRU model: every hit written to `results[j]`
(by the read-locked first loop or the write-locked second one) is the specification's value
of the j-th command.
-/
import Rv.Lemmas.LruPending
namespace Rv.Lru
open Rv.Spec.Cache (Spec lookup)

theorem hit_of_found {s : State} {sp : Spec} (h : R s sp) {k c : Bytes} {e : Entry} {nowMs : Int}
    (hf : find? s.list k c = some e) (hv : valid e nowMs = true) {v : Nat} {exp : Int} (hr : resOf e = .hit v exp) :
    lookup sp (k, c) nowMs = some (v, exp) := by
  have hf' := find?_some hf
  unfold resOf at hr
  split at hr
  · cases hr
  · rename_i hp
    have hp : e.pend = false := by simpa using hp
    cases hr
    have := h.vals e hf'.1 hp
    rw [hf'.2.1, hf'.2.2] at this
    simp [valid, hp, relativePTTL] at hv
    simp only [lookup, this]
    rw [if_pos (by omega)]

/-- the positional results of the first loop of `Flights`: one slot per command, a filled slot comes from a valid
    entry of the (unchanged) list -/
theorem flights1_res (nowMs : Int) (multi : List (Bytes × Bytes × Int)) (i : Nat) (a : P1) :
    ∃ tail, (flights1 nowMs multi i a).res = a.res ++ tail ∧ tail.length = multi.length ∧
      ∀ (j : Nat) (r : FRes), tail[j]? = some (some r) → ∃ k c ttl e, multi[j]? = some (k, c, ttl) ∧ a.s.closed = false ∧
        find? a.s.list k c = some e ∧ valid e nowMs = true ∧ r = resOf e := by
  induction multi generalizing i a with
  | nil => exact ⟨[], by simp [flights1], rfl, by simp⟩
  | cons x rest ih =>
    obtain ⟨k, c, t⟩ := x
    simp only [flights1]
    -- the slot appended for this command and the accumulator handed on
    have key : ∀ (a' : P1) (slot : Option FRes), a'.res = a.res ++ [slot] → a'.s.list = a.s.list →
        a'.s.closed = a.s.closed →
        (∀ r, slot = some r → ∃ e, a.s.closed = false ∧ find? a.s.list k c = some e ∧ valid e nowMs = true ∧ r = resOf e) →
        ∃ tail, (flights1 nowMs rest (i + 1) a').res = a.res ++ tail ∧ tail.length = (( k, c, t) :: rest).length ∧
          ∀ (j : Nat) (r : FRes), tail[j]? = some (some r) → ∃ k' c' ttl e, ((k, c, t) :: rest)[j]? = some (k', c', ttl) ∧
            a.s.closed = false ∧ find? a.s.list k' c' = some e ∧ valid e nowMs = true ∧ r = resOf e := by
      intro a' slot hres hl hc hslot
      obtain ⟨tail, h1, h2, h3⟩ := ih (i + 1) a'
      refine ⟨slot :: tail, by rw [h1, hres]; simp, by simp [h2], ?_⟩
      intro j r hj
      cases j with
      | zero =>
        simp only [List.getElem?_cons_zero, Option.some.injEq] at hj
        obtain ⟨e, he⟩ := hslot r hj
        exact ⟨k, c, t, e, by simp, he⟩
      | succ j =>
        simp only [List.getElem?_cons_succ] at hj
        obtain ⟨k', c', ttl, e, g1, g2, g3, g4, g5⟩ := h3 j r hj
        exact ⟨k', c', ttl, e, by simpa using g1, by rw [← hc]; exact g2, by rw [← hl]; exact g3, g4, g5⟩
    split
    · rename_i e hf
      have hcl : a.s.closed = false := by
        cases h : a.s.closed
        · rfl
        · simp [h] at hf
      have hf' : find? a.s.list k c = some e := by simpa [hcl] using hf
      split
      · rename_i hv
        exact key _ (some (resOf e)) rfl rfl rfl (fun r hr => ⟨e, hcl, hf', hv, by cases hr; rfl⟩)
      · exact key _ none rfl rfl rfl (fun r hr => by cases hr)
    · exact key _ none rfl rfl rfl (fun r hr => by cases hr)

theorem sent_vals (sp : Spec) (kc : Spec.Cache.KC) (e : Int) : (Spec.Cache.sent sp kc e).vals = sp.vals := by
  unfold Spec.Cache.sent; split <;> rfl

theorem lookup_of_vals {sp sp' : Spec} (h : sp'.vals = sp.vals) (kc : Spec.Cache.KC) (t : Int) :
    lookup sp' kc t = lookup sp kc t := by
  simp [lookup, h]

/-- hits written by the second loop of `Flights` are the specification's values as well -/
theorem flights2_hits (multi : List (Bytes × Bytes × Int)) (now : Int) (sp0 : Spec) (ms : List Nat) (s : State)
    (res : List (Option FRes)) (out : List Nat) (hi : Inv s) (sp : Spec) (hR : R s sp) (hvals : sp.vals = sp0.vals)
    (j : Nat) (v : Nat) (exp : Int)
    (h : (flights2 multi now ms s res out).2.1[j]? = some (some (.hit v exp))) :
    res[j]? = some (some (.hit v exp)) ∨
      ∃ k c ttl, multi[j]? = some (k, c, ttl) ∧ lookup sp0 (k, c) (unixMilli now) = some (v, exp) := by
  induction ms generalizing s res out sp with
  | nil => exact Or.inl h
  | cons i rest ih =>
    simp only [flights2] at h
    split at h
    · exact ih _ _ _ hi sp hR hvals h
    · rename_i k c ttl hm
      have o := locked_cases s k c ttl now
      have hR' := R_outcome hR hi o
      have hi' := inv_locked hi k c ttl now
      have hv' : (if (locked s k c ttl now).2 = FRes.send then Spec.Cache.sent sp (k, c) (pack (unixMilli (now + ttl))) else sp).vals
          = sp0.vals := by
        split
        · rw [sent_vals]; exact hvals
        · exact hvals
      rcases ih _ _ _ hi' _ hR' hv' h with hh | hh
      · rw [List.getElem?_set] at hh
        split at hh
        · rename_i hij
          subst hij
          split at hh
          · simp only [Option.some.injEq] at hh
            right
            refine ⟨k, c, ttl, hm, ?_⟩
            rw [← lookup_of_vals hvals]
            exact hit_of_outcome hR o hh
          · cases hh
        · exact Or.inl hh
      · exact Or.inr hh

/-- **Positional hits of `Flights`.** In a state related to the specification, whatever `Flights` puts into
    `results[j]` is the specification's current unexpired value of the j-th command. -/
theorem flights_hits {s : State} {sp : Spec} (hR : R s sp) (hi : Inv s) (now : Int) (multi : List (Bytes × Bytes × Int))
    (j : Nat) (v : Nat) (exp : Int) (h : (flights s now multi).2.1[j]? = some (some (.hit v exp))) :
    ∃ k c ttl, multi[j]? = some (k, c, ttl) ∧ lookup sp (k, c) (unixMilli now) = some (v, exp) := by
  unfold flights at h
  have h1 := flights1_list (unixMilli now) multi 0 { s := s, res := [], moves := [], missed := [] }
  obtain ⟨tail, t1, t2, t3⟩ := flights1_res (unixMilli now) multi 0 { s := s, res := [], moves := [], missed := [] }
  generalize flights1 (unixMilli now) multi 0 { s := s, res := [], moves := [], missed := [] } = a at h h1 t1
  simp only [List.nil_append] at t1 h1 t3
  have hphase1 : a.res[j]? = some (some (.hit v exp)) →
      ∃ k c ttl, multi[j]? = some (k, c, ttl) ∧ lookup sp (k, c) (unixMilli now) = some (v, exp) := by
    intro hh
    rw [t1] at hh
    obtain ⟨k, c, ttl, e, g1, g2, g3, g4, g5⟩ := t3 j _ hh
    exact ⟨k, c, ttl, g1, hit_of_found hR g3 g4 g5.symm⟩
  have hmv : ∀ e ∈ a.moves, e ∈ a.s.list := by
    intro e he
    rcases h1.2.2.2 e he with h | h
    · simp at h
    · rw [h1.1]; exact h
  have ha : Inv a.s := inv_congr hi h1.1 h1.2.1 h1.2.2.1
  have hm : Inv { a.s with list := a.moves.foldl moveToBack a.s.list } := inv_moves ha a.moves hmv
  have hR1 : R { a.s with list := a.moves.foldl moveToBack a.s.list } sp :=
    R_sub hR (fun x hx => by
      have : x ∈ a.moves.foldl moveToBack a.s.list := hx
      rw [mem_foldl_moveToBack _ _ hmv, h1.1] at this; exact this) h1.2.2.1
  simp only at h
  split at h
  · exact hphase1 h
  · split at h
    · exact hphase1 h
    · rcases flights2_hits multi now sp a.missed _ a.res [] hm sp hR1 rfl j v exp h with hh | hh
      · exact hphase1 hh
      · exact hh

end Rv.Lru
