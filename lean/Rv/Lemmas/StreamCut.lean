/-
C29 helper: `streamTo` on frames that are cut short, and on complete `$n` / `;n` frames
under an arbitrary (possibly failing) writer — the pieces behind
`Rv.C29.strict_prefix_not_clean`, `writer_failure_not_clean_or_drained` and
`writer_failure_consumes_exact_frame`.
-/
import Rv.Lemmas.StreamBasics
import Rv.Lemmas.StreamInv
import Rv.Lemmas.StreamTrunc
namespace Rv.StreamL
open Rv Rv.Resp Rv.Spec Rv.RespL Rv.StreamTo

/-! ### the copy and the Discard when bytes are missing -/

theorem copyN_shape (wr : Wr) (n : Nat) (p : List UInt8) (hn : 0 < n) :
    ∃ (wn : Nat) (f : Bool) (w' : Wr) (R : Nat),
      copyN wr (n : Int) p = ⟨wn, f, w', p.drop R, (n : Int) - (R : Int)⟩ ∧ R ≤ n ∧ R ≤ p.length ∧
      (f = false → R = min n p.length ∧ wn = R) ∧ (f = true → wn < min n p.length) := by
  unfold copyN
  have h1 : ¬ ((n : Int) ≤ 0) := by omega
  simp only [h1, if_false, Int.toNat_natCast]
  cases wr.budget with
  | none => exact ⟨_, _, _, min n p.length, rfl, by omega, by omega, fun _ => ⟨rfl, rfl⟩, fun h => by cases h⟩
  | some k =>
    simp only
    split
    · exact ⟨_, _, _, min n p.length, rfl, by omega, by omega, fun _ => ⟨rfl, rfl⟩, fun h => by cases h⟩
    · exact ⟨_, _, _, min (min n p.length) (k + wr.over), rfl, by omega, by omega, (fun h => by cases h), (fun _ => by omega)⟩

theorem wrap_cases (x : Int) (h0 : 0 ≤ x) (h1 : x < 18446744073709551616) :
    wrap64 x = x ∨ wrap64 x < 0 := by
  unfold wrap64; omega

theorem finishBlob_short (n : Nat) (hn : n < 9223372036854775808) (wn : Nat) (f : Bool) (w' : Wr)
    (p : List UInt8) (R : Nat) (hR : R ≤ n) (hRp : R ≤ p.length) (hp : p.length < n + 2) :
    ∃ e r, finishBlob (fullAfter ⟨wn, f, w', p.drop R, (n : Int) - (R : Int)⟩) ⟨wn, f, w', p.drop R, (n : Int) - (R : Int)⟩ =
      ⟨wn, e, false, r, w'⟩ ∧ e ≠ .none := by
  unfold fullAfter
  have hw := wrap_cases ((n : Int) - (R : Int) + 2) (by omega) (by omega)
  generalize wrap64 ((n : Int) - (R : Int) + 2) = k at hw
  unfold finishBlob
  by_cases hk : k < 0
  · simp only [hk, if_true]
    exact ⟨_, _, rfl, by split <;> simp⟩
  · have hk' : k = (n : Int) - (R : Int) + 2 := by
      rcases hw with h | h
      · exact h
      · exact absurd h hk
    have hgt : ¬ (k.toNat ≤ (p.drop R).length) := by simp only [List.length_drop]; omega
    simp only [hk, if_false, hgt]
    exact ⟨_, _, rfl, by split <;> simp⟩

theorem finishBlob_short0 (w : Wr) (p : List UInt8) (h2 : p.length < 2) :
    ∃ e r, finishBlob 2 ⟨0, false, w, p, 0⟩ = ⟨0, e, false, r, w⟩ ∧ e ≠ .none := by
  unfold finishBlob
  have h1 : ¬ ((2 : Int) < 0) := by omega
  have h3 : ¬ ((2 : Int).toNat ≤ p.length) := by simp; omega
  simp only [h1, if_false, h3]
  exact ⟨_, _, rfl, by simp⟩


/-! ### complete frames under an arbitrary writer -/

/-- a clean return leaves the reader exactly at the end of the reply's frame -/
def Aligned (rest : List UInt8) (o : Out) : Prop := o.clean = false ∨ o.rest = rest

/-- outcome of one `$n` / `=n` / `;n` frame for an arbitrary writer: complete and clean, or an
    error with the connection either unclean or exactly drained -/
def FrameOut (rest : List UInt8) (len : Nat) (o : Out) : Prop :=
  (o.err = .none ∧ o.clean = true ∧ o.rest = rest ∧ o.n = len) ∨ (o.err ≠ .none ∧ Aligned rest o)

theorem finishBlob_frame (s rest : List UInt8) (hs : s.length < 9223372036854775808) (wn : Nat) (f : Bool) (w' : Wr)
    (R : Nat) (hR : R ≤ s.length) :
    let c : CopyRes := ⟨wn, f, w', (s ++ (13 :: 10 :: rest)).drop R, (s.length : Int) - (R : Int)⟩
    finishBlob (fullAfter c) c = ⟨wn, if f then .writer else .none, true, rest, w'⟩ ∨
    (9223372036854775808 ≤ (s.length : Int) - (R : Int) + 2 ∧ ∃ e r, finishBlob (fullAfter c) c = ⟨wn, e, false, r, w'⟩ ∧ e ≠ .none) := by
  intro c
  show finishBlob (fullAfter ⟨wn, f, w', (s ++ (13 :: 10 :: rest)).drop R, (s.length : Int) - (R : Int)⟩)
      ⟨wn, f, w', (s ++ (13 :: 10 :: rest)).drop R, (s.length : Int) - (R : Int)⟩ = _ ∨ _
  unfold fullAfter
  have hw := wrap_cases ((s.length : Int) - (R : Int) + 2) (by omega) (by omega)
  have hsmall : (s.length : Int) - (R : Int) + 2 < 9223372036854775808 →
      wrap64 ((s.length : Int) - (R : Int) + 2) = (s.length : Int) - (R : Int) + 2 := by
    intro h; unfold wrap64; omega
  generalize wrap64 ((s.length : Int) - (R : Int) + 2) = k at hw hsmall
  unfold finishBlob
  by_cases hk : k < 0
  · right
    refine ⟨?_, ?_⟩
    · by_cases hlt : (s.length : Int) - (R : Int) + 2 < 9223372036854775808
      · have := hsmall hlt; omega
      · omega
    · simp only [hk, if_true]
      exact ⟨_, _, rfl, by split <;> simp⟩
  · left
    have hk' : k = (s.length : Int) - (R : Int) + 2 := by
      rcases hw with h | h
      · exact h
      · exact absurd h hk
    have hlen : ((s ++ (13 :: 10 :: rest)).drop R).length = s.length - R + 2 + rest.length := by
      simp only [List.length_drop, List.length_append, List.length_cons]; omega
    have hle : k.toNat ≤ ((s ++ (13 :: 10 :: rest)).drop R).length := by rw [hlen]; omega
    have hkn : k.toNat = s.length - R + 2 := by omega
    rw [hkn] at hle
    simp only [hk, if_false, hkn, hle, if_true]
    have hdrop : ((s ++ (13 :: 10 :: rest)).drop R).drop (s.length - R + 2) = rest := by
      rw [List.drop_drop]
      have : R + (s.length - R + 2) = s.length + 2 := by omega
      rw [this, ← List.drop_drop, List.drop_left' rfl]
      rfl
    rw [hdrop]

/-- one well-formed blob / chunk frame under an arbitrary writer -/
theorem streamTo_blob_any (B : Nat) (hb : 32 ≤ B) (f : Nat) (t : UInt8) (ht : t = 36 ∨ t = 61 ∨ t = 59)
    (s rest : List UInt8) (hs : s.length < 9223372036854775808) (hne : t = 59 → s ≠ []) (wr : Wr) :
    FrameOut rest s.length (streamTo B (f + 1) wr (t :: (digits s.length ++ crlf ++ (s ++ crlf ++ rest)))) := by
  rw [streamTo]
  simp only [isBlobLike_of ht, if_true]
  rw [readI_digits B s.length hb hs]
  simp only
  unfold blobCase
  have h1 : ¬ ((s.length : Int) = -1) := by omega
  simp only [h1, if_false]
  by_cases h0 : s.length = 0
  · have hnil : s = [] := List.length_eq_zero_iff.mp h0
    subst hnil
    have ht59 : ¬ (t = 59) := fun e => hne e rfl
    simp only [List.length_nil, Int.natCast_zero, ne_eq, not_true, if_false, ht59, List.nil_append, crlf,
      List.cons_append, finishBlob_two, Bool.false_eq_true]
    left; exact ⟨rfl, rfl, rfl, rfl⟩
  · have h2 : (s.length : Int) ≠ 0 := by omega
    simp only [h2, ne_eq, not_false_eq_true, if_true]
    obtain ⟨wn, fl, w', R, hc, hR, hRp, hok, hfail⟩ := copyN_shape wr s.length (s ++ crlf ++ rest) (by omega)
    have hmin : min s.length (s ++ crlf ++ rest).length = s.length := by simp
    rw [hc]
    have hin : s ++ crlf ++ rest = s ++ (13 :: 10 :: rest) := by simp [crlf]
    rw [hin]
    rcases finishBlob_frame s rest hs wn fl w' R hR with h | ⟨_, e, r, h, hne'⟩
    · rw [h]
      cases fl with
      | false =>
        have := hok rfl
        left; exact ⟨rfl, rfl, rfl, by simp only; omega⟩
      | true => right; exact ⟨by simp, Or.inr rfl⟩
    · rw [h]; right; exact ⟨hne', Or.inl rfl⟩

/-- the chunk loop under an arbitrary writer: a clean return stands behind the `;0` marker -/
theorem chunkLoop_any (B : Nat) (hb : 32 ≤ B) (cs : List (List UInt8))
    (hcs : ∀ c ∈ cs, c ≠ [] ∧ c.length < 9223372036854775808) :
    ∀ (f : Nat), cs.length + 2 ≤ f → ∀ (acc : Nat) (wr : Wr) (rest : List UInt8),
    Aligned rest (chunkLoop B f acc wr ((cs.map chunkBytes).flatten ++ (59 :: 48 :: 13 :: 10 :: rest))) := by
  induction cs with
  | nil =>
    intro f hf acc wr rest
    obtain ⟨f1, rfl⟩ : ∃ k, f = k + 1 + 1 := ⟨f - 2, by simp at hf; omega⟩
    rw [chunkLoop]
    simp only [List.map_nil, List.flatten_nil, List.nil_append, streamTo_chunk_end B hb]
    right; simp
  | cons c cs ih =>
    intro f hf acc wr rest
    obtain ⟨f1, rfl⟩ : ∃ k, f = k + 1 + 1 := ⟨f - 2, by simp at hf; omega⟩
    have ⟨hne, hlt⟩ := hcs c (by simp)
    have hl : 0 < c.length := List.length_pos_iff.mpr hne
    have hshape : ((c :: cs).map chunkBytes).flatten ++ (59 :: 48 :: 13 :: 10 :: rest) =
        59 :: (digits c.length ++ crlf ++ (c ++ crlf ++ ((cs.map chunkBytes).flatten ++ (59 :: 48 :: 13 :: 10 :: rest)))) := by
      simp [chunkBytes, List.append_assoc]
    rw [hshape, chunkLoop]
    have hfo := streamTo_blob_any B hb f1 59 (Or.inr (Or.inr rfl)) c
      ((cs.map chunkBytes).flatten ++ (59 :: 48 :: 13 :: 10 :: rest)) hlt (fun _ => hne) wr
    generalize streamTo B (f1 + 1) wr _ = o at hfo ⊢
    rcases hfo with ⟨he, hc, hr, hn⟩ | ⟨he, _⟩
    · have hcond : o.n ≠ 0 ∧ o.clean = true ∧ o.err = .none := ⟨by omega, hc, he⟩
      rw [if_pos hcond, hr]
      exact ih (fun x hx => hcs x (by simp [hx])) (f1 + 1) (by simp at hf; omega) _ _ rest
    · have hcond : ¬ (o.n ≠ 0 ∧ o.clean = true ∧ o.err = .none) := fun h => he h.2.2
      rw [if_neg hcond]
      left; simp [he]


/-! ### strict prefixes of a `$n` / `;n` frame: any fuel, any writer -/

/-- not clean, and with an error -/
def Unclean (o : Out) : Prop := o.clean = false ∧ o.err ≠ .none

theorem streamTo_zero_unclean (B : Nat) (wr : Wr) (bs : List UInt8) : Unclean (streamTo B 0 wr bs) := by
  rw [streamTo]; exact ⟨rfl, by simp⟩

theorem streamTo_nil_unclean (B f : Nat) (wr : Wr) : Unclean (streamTo B f wr []) := by
  cases f with
  | zero => exact streamTo_zero_unclean B wr []
  | succ f => rw [streamTo]; exact ⟨rfl, by simp⟩

theorem streamTo_header_fail (B f : Nat) (t : UInt8) (ht : t = 36 ∨ t = 61 ∨ t = 59) (bs : List UInt8) (wr : Wr)
    (e : String) (h : readI B bs = .fail e) : streamTo B (f + 1) wr (t :: bs) = ⟨0, .rd e, false, [], wr⟩ := by
  rw [streamTo]
  simp only [isBlobLike_of ht, if_true, h]

/-- the payload or its trailing CRLF is cut short -/
theorem streamTo_payload_cut (B : Nat) (hb : 32 ≤ B) (f : Nat) (t : UInt8) (ht : t = 36 ∨ t = 61 ∨ t = 59)
    (n : Nat) (hn : n < 9223372036854775808) (h0 : n = 0 → t ≠ 59) (p : List UInt8) (hp : p.length < n + 2) (wr : Wr) :
    Unclean (streamTo B (f + 1) wr (t :: (digits n ++ crlf ++ p))) := by
  rw [streamTo]
  simp only [isBlobLike_of ht, if_true, readI_digits B n hb hn]
  unfold blobCase
  have h1 : ¬ ((n : Int) = -1) := by omega
  simp only [h1, if_false]
  by_cases hz : n = 0
  · subst hz
    have ht59 : ¬ (t = 59) := h0 rfl
    simp only [Int.natCast_zero, ne_eq, not_true, if_false, ht59]
    obtain ⟨e, r, heq, hne⟩ := finishBlob_short0 wr p (by simpa using hp)
    rw [heq]; exact ⟨rfl, hne⟩
  · have h2 : (n : Int) ≠ 0 := by omega
    simp only [h2, ne_eq, not_false_eq_true, if_true]
    obtain ⟨wn, f', w', R, hc, hR, hRp, _, _⟩ := copyN_shape wr n p (by omega)
    rw [hc]
    obtain ⟨e, r, heq, hne⟩ := finishBlob_short n hn wn f' w' p R hR hRp hp
    rw [heq]; exact ⟨rfl, hne⟩

/-- every strict prefix of a `$n` / `=n` / `;n` frame: header line cut, payload cut, CRLF cut -/
theorem streamTo_frame_cut (B : Nat) (hb : 32 ≤ B) (t : UInt8) (ht : t = 36 ∨ t = 61 ∨ t = 59) (s : List UInt8)
    (hs : s.length < 9223372036854775808) (hne : t = 59 → s ≠ []) :
    ∀ k, k < (t :: (digits s.length ++ crlf ++ (s ++ crlf))).length → ∀ f wr,
      Unclean (streamTo B f wr ((t :: (digits s.length ++ crlf ++ (s ++ crlf))).take k)) := by
  intro k hk f wr
  cases k with
  | zero => exact streamTo_nil_unclean B f wr
  | succ k =>
    cases f with
    | zero => exact streamTo_zero_unclean B wr _
    | succ f =>
      rw [List.take_succ_cons]
      rcases take_header_cases (digits s.length) (s ++ crlf) k (by simpa using hk) with h | ⟨j, hj, he⟩
      · rw [streamTo_header_fail B f t ht _ wr _ (readI_cut B _ _ (digits_noLF _) k h)]
        exact ⟨rfl, by simp⟩
      · rw [he]
        exact streamTo_payload_cut B hb f t ht s.length hs
          (fun h0 e => hne e (List.length_eq_zero_iff.mp h0)) _ (by
            simp only [List.length_take, List.length_append, crlf, List.length_cons, List.length_nil] at hj ⊢; omega) wr

/-- every strict prefix of the `;0 CR LF` end marker -/
theorem streamTo_end_cut (B : Nat) :
    ∀ k, k < ([59, 48, 13, 10] : List UInt8).length → ∀ f wr,
      Unclean (streamTo B f wr (([59, 48, 13, 10] : List UInt8).take k)) := by
  intro k hk f wr
  cases k with
  | zero => exact streamTo_nil_unclean B f wr
  | succ k =>
    cases f with
    | zero => exact streamTo_zero_unclean B wr _
    | succ f =>
      rw [List.take_succ_cons]
      have := readI_cut B [48] [] (by decide) k (by simp at hk ⊢; omega)
      have he : ([48] ++ crlf ++ ([] : List UInt8)) = [48, 13, 10] := rfl
      rw [he] at this
      rw [streamTo_header_fail B f 59 (Or.inr (Or.inr rfl)) _ wr _ this]
      exact ⟨rfl, by simp⟩

/-- the chunk loop stops unclean as soon as an inner call returns an error (a376be4) -/
theorem chunkLoop_of_err (B f acc : Nat) (wr : Wr) (bs : List UInt8) (h : (streamTo B f wr bs).err ≠ .none) :
    Unclean (chunkLoop B (f + 1) acc wr bs) := by
  rw [chunkLoop]
  generalize streamTo B f wr bs = o at h ⊢
  rw [if_neg (fun c => h c.2.2)]
  exact ⟨by simp [h], h⟩

/-- the chunk loop on a strict prefix of `chunks ;0`: unclean, whatever the writer does -/
theorem chunkLoop_cut (B : Nat) (hb : 32 ≤ B) (cs : List (List UInt8))
    (hcs : ∀ c ∈ cs, c ≠ [] ∧ c.length < 9223372036854775808) :
    ∀ j, j < ((cs.map chunkBytes).flatten ++ [59, 48, 13, 10]).length → ∀ f acc wr,
      Unclean (chunkLoop B f acc wr (((cs.map chunkBytes).flatten ++ [59, 48, 13, 10]).take j)) := by
  induction cs with
  | nil =>
    intro j hj f acc wr
    cases f with
    | zero => rw [chunkLoop]; exact ⟨rfl, by simp⟩
    | succ f =>
      simp only [List.map_nil, List.flatten_nil, List.nil_append] at hj ⊢
      exact chunkLoop_of_err B f acc wr _ (streamTo_end_cut B j hj f wr).2
  | cons c cs ih =>
    intro j hj f acc wr
    have ⟨hne, hlt⟩ := hcs c (by simp)
    cases f with
    | zero => rw [chunkLoop]; exact ⟨rfl, by simp⟩
    | succ f =>
      have hshape : ((c :: cs).map chunkBytes).flatten ++ [59, 48, 13, 10] =
          chunkBytes c ++ ((cs.map chunkBytes).flatten ++ [59, 48, 13, 10]) := by simp
      rw [hshape] at hj ⊢
      have hcb : chunkBytes c = 59 :: (digits c.length ++ crlf ++ (c ++ crlf)) := by simp [chunkBytes]
      rcases take_append_cases (chunkBytes c) _ j hj with ⟨hjc, he⟩ | ⟨j', hj', he⟩
      · rw [he, hcb]
        rw [hcb] at hjc
        exact chunkLoop_of_err B f acc wr _
          (streamTo_frame_cut B hb 59 (Or.inr (Or.inr rfl)) c hlt (fun _ => hne) j hjc f wr).2
      · have hsh2 : chunkBytes c ++ ((cs.map chunkBytes).flatten ++ [59, 48, 13, 10]).take j' =
            59 :: (digits c.length ++ crlf ++ (c ++ crlf ++ ((cs.map chunkBytes).flatten ++ [59, 48, 13, 10]).take j')) := by
          simp [chunkBytes, List.append_assoc]
        rw [he, hsh2]
        cases f with
        | zero => exact chunkLoop_of_err B 0 acc wr _ (streamTo_zero_unclean B wr _).2
        | succ f1 =>
          have hfo := streamTo_blob_any B hb f1 59 (Or.inr (Or.inr rfl)) c
            (((cs.map chunkBytes).flatten ++ [59, 48, 13, 10]).take j') hlt (fun _ => hne) wr
          rcases hfo with ⟨he', hc', hr', hn'⟩ | ⟨he', _⟩
          · rw [chunkLoop]
            generalize streamTo B (f1 + 1) wr _ = o at he' hc' hr' hn' ⊢
            have hl : 0 < c.length := List.length_pos_iff.mpr hne
            have hcond : o.n ≠ 0 ∧ o.clean = true ∧ o.err = .none := ⟨by omega, hc', he'⟩
            rw [if_pos hcond, hr']
            exact ih (fun x hx => hcs x (by simp [hx])) j' hj' (f1 + 1) _ _
          · exact chunkLoop_of_err B (f1 + 1) acc wr _ he'

/-! ### a failing writer: what is consumed, exactly -/

/-- the copy when the writer fails inside the available payload -/
theorem copyN_fail (k over : Nat) (out : List UInt8) (n : Nat) (av : List UInt8) (hk : k < min n av.length) :
    copyN ⟨some k, over, out⟩ (n : Int) av =
      ⟨k, true, ⟨some 0, over, out ++ av.take k⟩, av.drop (min (min n av.length) (k + over)),
        (n : Int) - ((min (min n av.length) (k + over) : Nat) : Int)⟩ := by
  unfold copyN
  have h1 : ¬ ((n : Int) ≤ 0) := by omega
  have h2 : ¬ (min n av.length ≤ k) := by omega
  simp only [h1, if_false, Int.toNat_natCast, h2]

/-- the repaired Discard after a copy that took `R ≤ n` bytes of an `n`-byte payload: clean iff the
    rest of the frame (`n - R` payload bytes and the CRLF) is there, and then exactly the frame is gone -/
theorem finishBlob_exact (n : Nat) (hn : n + 2 < 9223372036854775808) (wn : Nat) (fl : Bool) (w' : Wr)
    (av : List UInt8) (R : Nat) (hR : R ≤ n) (hRa : R ≤ av.length) :
    finishBlob (fullAfter ⟨wn, fl, w', av.drop R, (n : Int) - (R : Int)⟩) ⟨wn, fl, w', av.drop R, (n : Int) - (R : Int)⟩ =
      if n + 2 ≤ av.length then ⟨wn, if fl then .writer else .none, true, av.drop (n + 2), w'⟩
      else ⟨wn, if fl then .writer else .rd "io", false, [], w'⟩ := by
  unfold fullAfter
  have hw : wrap64 ((n : Int) - (R : Int) + 2) = ((n - R + 2 : Nat) : Int) := by unfold wrap64; omega
  rw [hw]
  unfold finishBlob
  have h1 : ¬ (((n - R + 2 : Nat) : Int) < 0) := by omega
  simp only [h1, if_false, Int.toNat_natCast, List.length_drop]
  by_cases h : n + 2 ≤ av.length
  · have h2 : n - R + 2 ≤ av.length - R := by omega
    simp only [h2, h, if_true, List.drop_drop]
    have : R + (n - R + 2) = n + 2 := by omega
    rw [this]
  · have h2 : ¬ (n - R + 2 ≤ av.length - R) := by omega
    simp only [h2, h, if_false]

end Rv.StreamL
