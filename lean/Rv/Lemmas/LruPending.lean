/-
Pending entries of the LRU model stay in the list until their own `Update`/`Cancel`
or `Close` (they are never evicted, purged or replaced).
-/
import Rv.Lemmas.LruRefine
namespace Rv.Lru

/-- operations that end the flight of (k, c): its `Update`, its `Cancel`, or `Close` -/
def Op.resolves (k c : Bytes) : Op → Bool
  | .update k' c' _ _ _ => k' == k && c' == c
  | .cancel k' c' _ => k' == k && c' == c
  | .close _ => true
  | _ => false

theorem pending_outcome {s s' : State} {k c : Bytes} {ttl now : Int} {r : FRes}
    (o : Outcome4 s k c ttl now s' r) {x : Entry} (hx : x ∈ s.list) (hp : x.pend = true) : x ∈ s'.list := by
  cases o with
  | closed hc hs hr => subst hs; exact hx
  | found e hc hf hv hr hl hsz hn fr =>
    rcases hl with hl | hl
    · rw [hl]; exact hx
    · rw [hl]; simp only [moveToBack, List.mem_append, List.mem_singleton]
      by_cases hxe : x = e
      · exact Or.inr hxe
      · exact Or.inl ((List.mem_erase_of_ne hxe).2 hx)
  | expired e hc hf hv hr hl hsz hn fr =>
    rw [hl]
    have hxe : x ≠ e := by
      intro h; subst h; simp [valid, hp] at hv
    exact List.mem_append_left _ ((List.mem_erase_of_ne hxe).2 hx)
  | absent hc hf hr hl hsz hn fr => rw [hl]; exact List.mem_append_left _ hx

theorem pending_flights2 (multi : List (Bytes × Bytes × Int)) (now : Int) (ms : List Nat) (s : State)
    (res : List (Option FRes)) (out : List Nat) {x : Entry} (hx : x ∈ s.list) (hp : x.pend = true) :
    x ∈ (flights2 multi now ms s res out).1.list := by
  induction ms generalizing s res out with
  | nil => exact hx
  | cons i rest ih =>
    simp only [flights2]
    split
    · exact ih _ _ _ hx
    · rename_i k c ttl hm
      exact ih _ _ _ (pending_outcome (locked_cases s k c ttl now) hx hp)

theorem mem_flights_of_mem {s : State} (now : Int) (multi : List (Bytes × Bytes × Int)) {x : Entry}
    (hx : x ∈ s.list) (hp : x.pend = true) : x ∈ (flights s now multi).1.list := by
  unfold flights
  have h1 := flights1_list (unixMilli now) multi 0 { s := s, res := [], moves := [], missed := [] }
  generalize flights1 (unixMilli now) multi 0 { s := s, res := [], moves := [], missed := [] } = a at h1
  simp only at h1
  have hmv : ∀ e ∈ a.moves, e ∈ a.s.list := by
    intro e he
    rcases h1.2.2.2 e he with h | h
    · simp at h
    · rw [h1.1]; exact h
  have hx1 : x ∈ a.moves.foldl moveToBack a.s.list := by
    rw [mem_foldl_moveToBack _ _ hmv, h1.1]; exact hx
  simp only
  split
  · exact hx1
  · split
    · exact hx1
    · exact pending_flights2 _ _ _ _ _ _ hx1 hp

theorem mem_foldl_purge_of_pending (keys : List Bytes) {s : State} {x : Entry} (hx : x ∈ s.list) (hp : x.pend = true) :
    x ∈ (keys.foldl purge s).list := by
  induction keys generalizing s with
  | nil => exact hx
  | cons k rest ih =>
    apply ih
    show x ∈ s.list.filter (fun e => !(e.key == k && !e.pend))
    rw [List.mem_filter]; exact ⟨hx, by simp [hp]⟩

/-- a pending entry leaves the list only through its own `Update`/`Cancel` or through `Close` -/
theorem pending_persists {s : State} (hi : Inv s) {x : Entry} (hx : x ∈ s.list) (hp : x.pend = true)
    (op : Op) (hno : op.resolves x.key x.cmd = false) : x ∈ (step s op).1.list := by
  cases op with
  | flight k c ttl now => exact pending_outcome (flight_cases s k c ttl now) hx hp
  | flights now multi => exact mem_flights_of_mem now multi hx hp
  | update k c v vsz raw =>
    simp only [step]
    have hne : ¬ (k = x.key ∧ c = x.cmd) := by simpa [Op.resolves] using hno
    have o := update_cases s k c v vsz raw
    generalize (update s k c v vsz raw).1 = s' at o
    generalize (update s k c v vsz raw).2 = p at o
    cases o with
    | closed hc hs hp' => subst hs; exact hx
    | absent hc hf hs hp' => subst hs; exact hx
    | fill e hc hf hpend hp' hl hsz hd hcl hmx hn =>
      rw [hl]
      apply evict_pending_kept _ _ _ x _ hp
      apply mem_replace_of_ne hx
      intro h; subst h
      have := find?_some hf
      exact hne ⟨this.2.1.symm, this.2.2.symm⟩
    | stale e hc hf hpend hp' hl hsz hd hcl hmx hn =>
      rw [hl]; exact evict_pending_kept _ _ _ x hx hp
  | cancel k c err =>
    simp only [step]
    have hne : ¬ (k = x.key ∧ c = x.cmd) := by simpa [Op.resolves] using hno
    unfold cancel
    split
    · exact hx
    · split
      · exact hx
      · rename_i e hf
        split
        · show x ∈ s.list.erase e
          have := find?_some hf
          have hxe : x ≠ e := by intro h; subst h; exact hne ⟨this.2.1.symm, this.2.2.symm⟩
          exact (List.mem_erase_of_ne hxe).2 hx
        · exact hx
  | delete keys =>
    cases keys with
    | none => exact mem_foldl_purge_of_pending _ hx hp
    | some ks => exact mem_foldl_purge_of_pending _ hx hp
  | close err => simp [Op.resolves] at hno
  | sethits k n => exact hx

theorem pending_persists_run {s : State} (hi : Inv s) {x : Entry} (hx : x ∈ s.list) (hp : x.pend = true)
    (ops : List Op) (hno : ∀ op ∈ ops, op.resolves x.key x.cmd = false) : x ∈ (run s ops).list := by
  induction ops generalizing s with
  | nil => exact hx
  | cons op rest ih =>
    exact ih (inv_step hi op) (pending_persists hi hx hp op (hno op List.mem_cons_self))
      (fun o ho => hno o (List.mem_cons_of_mem _ ho))

end Rv.Lru
