/-
Lemmas about the topology parser model (`Rv.Model.Topology`): totality (no index panic),
shape of the parsed groups, which entries of the reply end up in which group.
-/
import Rv.Model.Topology
namespace Rv.ClusterParse
open Rv Rv.Topology

def IsOk {α} (r : Res α) : Prop := ∃ a, r = .ok a
def NoPanic {α} (r : Res α) : Prop := r ≠ .panic ∧ r ≠ .oom

theorem idx_ok {xs : List Msg} {i : Nat} (h : i < xs.length) : idx xs i = .ok xs[i] := by
  simp [idx, List.getElem?_eq_getElem h]

theorem foldRes_ok {α β} (f : β → α → Res β) (h : ∀ a x, IsOk (f a x)) :
    ∀ (xs : List α) (a : β), IsOk (foldRes f a xs) := by
  intro xs
  induction xs with
  | nil => intro a; exact ⟨a, rfl⟩
  | cons x xs ih =>
    intro a
    obtain ⟨b, hb⟩ := h a x
    unfold foldRes
    rw [hb]
    exact ih b

/-! ### parseSlots -/

theorem slotNodes_ok (d : Bytes) : ∀ xs, IsOk (slotNodes d xs) := by
  intro xs
  induction xs with
  | nil => exact ⟨[], rfl⟩
  | cons nv rest ih =>
    unfold slotNodes
    simp only
    split
    · exact ih
    · rename_i hlen
      have h0 : 0 < nv.arr.length := by omega
      have h1 : 1 < nv.arr.length := by omega
      obtain ⟨ns, hns⟩ := ih
      rw [idx_ok h0, idx_ok h1, hns]
      simp only
      split <;> exact ⟨_, rfl⟩

/-- the master address announced by one CLUSTER SLOTS entry, `none` when the entry is unusable
    (too short, master without address/port pair, `?` endpoint) -/
def entryMaster (d : Bytes) (v : Msg) : Option Bytes :=
  if h : v.arr.length < 3 then none
  else
    let v2 := v.arr[2]'(by omega)
    if h2 : v2.arr.length < 2 then none
    else
      let a := parseEndpoint d (v2.arr[0]'(by omega)).str (v2.arr[1]'(by omega)).int
      if a = [] then none else some a

/-- the slot range announced by an entry (meaningful for entries with at least 2 elements) -/
def entryRange (v : Msg) : Int × Int := ((v.arr[0]?.getD zero).int, (v.arr[1]?.getD zero).int)

theorem find_filter_ne (a k : Bytes) (h : k ≠ a) : ∀ gs : Groups,
    (gs.filter (fun e => decide (e.1 ≠ k))).find? (fun e => decide (e.1 = a)) = gs.find? (fun e => decide (e.1 = a)) := by
  intro gs
  induction gs with
  | nil => rfl
  | cons e rest ih =>
    by_cases he : e.1 = k
    · have hne : ¬ e.1 = a := fun h' => h (he ▸ h')
      rw [List.filter_cons_of_neg (by simp [he]), List.find?_cons_of_neg (by simp [hne])]
      exact ih
    · rw [List.filter_cons_of_pos (by simp [he])]
      by_cases hea : e.1 = a
      · rw [List.find?_cons_of_pos (by simp [hea]), List.find?_cons_of_pos (by simp [hea])]
      · rw [List.find?_cons_of_neg (by simp [hea]), List.find?_cons_of_neg (by simp [hea])]
        exact ih

theorem gget_gset (a k : Bytes) (g : Group) (gs : Groups) :
    gget a (gset k g gs) = if k = a then some g else gget a gs := by
  unfold gget gset
  by_cases h : k = a
  · subst h
    rw [List.find?_cons_of_pos (by simp)]
    simp
  · rw [if_neg h, List.find?_cons_of_neg (by simp [h])]
    rw [find_filter_ne a k h]

/-- what one step does, as a closed form -/
theorem slotsStep_eq (d : Bytes) (gs : Groups) (v : Msg) :
    slotsStep d gs v = .ok (
      match entryMaster d v with
      | none => gs
      | some a =>
        match gget a gs with
        | some g => gset a { g with slots := g.slots ++ [entryRange v] } gs
        | none =>
          match slotNodes d (v.arr.drop 2) with
          | .ok ns => gset a { nodes := ns, slots := [entryRange v] } gs
          | _ => gs) := by
  unfold slotsStep entryMaster entryRange
  simp only
  by_cases hlen : v.arr.length < 3
  · simp [hlen]
  · have h0 : 0 < v.arr.length := by omega
    have h1 : 1 < v.arr.length := by omega
    have h2 : 2 < v.arr.length := by omega
    rw [if_neg hlen, dif_neg hlen, idx_ok h0, idx_ok h1, idx_ok h2]
    simp only
    by_cases hm : (v.arr[2]).arr.length < 2
    · simp [hm]
    · have m0 : 0 < (v.arr[2]).arr.length := by omega
      have m1 : 1 < (v.arr[2]).arr.length := by omega
      rw [if_neg hm, dif_neg hm, idx_ok m0, idx_ok m1]
      simp only
      by_cases ha : parseEndpoint d (v.arr[2]).arr[0].str (v.arr[2]).arr[1].int = []
      · simp [ha]
      · rw [if_neg ha, if_neg ha]
        simp only [List.getElem?_eq_getElem h0, List.getElem?_eq_getElem h1, Option.getD_some]
        cases hg : gget (parseEndpoint d (v.arr[2]).arr[0].str (v.arr[2]).arr[1].int) gs with
        | some g => rfl
        | none =>
          obtain ⟨ns, hns⟩ := slotNodes_ok d (List.drop 2 v.arr)
          simp only [hns]

theorem slotsStep_ok (d : Bytes) (gs : Groups) (v : Msg) : IsOk (slotsStep d gs v) :=
  ⟨_, slotsStep_eq d gs v⟩

theorem parseSlots_ok (m : Msg) (d : Bytes) : IsOk (parseSlots m d) :=
  foldRes_ok _ (slotsStep_ok d) _ _

/-! ### parseShards -/

theorem toMap_noPanic : ∀ (n : Nat) (xs : List Msg), xs.length = 2 * n → NoPanic (toMap xs) := by
  intro n
  induction n with
  | zero =>
    intro xs h
    have hx : xs = [] := by cases xs <;> simp_all
    subst hx
    simp [toMap, NoPanic]
  | succ n ih =>
    intro xs h
    match xs, h with
    | k :: v :: rest, h =>
      have hr : rest.length = 2 * n := by simp at h; omega
      have := ih rest hr
      unfold toMap
      split
      · split
        · simp [NoPanic]
        · rename_i r hr'
          exact ⟨fun hp => this.1 hp, fun hp => this.2 hp⟩
      · simp [NoPanic]

theorem asMap_noPanic (m : Msg) : NoPanic (asMap m) := by
  unfold asMap
  split
  · simp [NoPanic]
  · split
    · rename_i h
      have he : m.arr.length % 2 = 0 := by simp at h; exact h.2
      exact toMap_noPanic (m.arr.length / 2) _ (by omega)
    · simp [NoPanic]

theorem asMapOrNil_ok (m : Msg) : IsOk (asMapOrNil m) := by
  have h := asMap_noPanic m
  unfold asMapOrNil
  cases hm : asMap m with
  | ok d => exact ⟨d, rfl⟩
  | err e => exact ⟨[], rfl⟩
  | panic => exact absurd hm h.1
  | oom => exact absurd hm h.2

theorem slotPairs_ok (slots : List Msg) : ∀ n i, (i + n) * 2 ≤ slots.length → IsOk (slotPairs slots i n) := by
  intro n
  induction n with
  | zero => intro i _; exact ⟨[], rfl⟩
  | succ n ih =>
    intro i h
    have h0 : i * 2 < slots.length := by omega
    have h1 : i * 2 + 1 < slots.length := by omega
    obtain ⟨r, hr⟩ := ih (i + 1) (by omega)
    unfold slotPairs
    rw [idx_ok h0, idx_ok h1, hr]
    exact ⟨_, rfl⟩

/-- loop invariant of the node loop of parseShards: `m` indexes into `g.nodes`, no node is `""` -/
def NodesInv (st : List Bytes × Option Nat) : Prop := (∀ k, st.2 = some k → k < st.1.length) ∧ [] ∉ st.1

theorem nodeTail_inv (st : List Bytes × Option Nat) (dst : Bytes) (p : Prop) [Decidable p] (h : NodesInv st) :
    ∃ st', (if dst = [] then Res.ok st else Res.ok (st.1 ++ [dst], if p then some st.1.length else st.2)) = Res.ok st'
      ∧ NodesInv st' := by
  by_cases hd : dst = []
  · rw [if_pos hd]; exact ⟨st, rfl, h⟩
  · rw [if_neg hd]
    refine ⟨_, rfl, ?_, ?_⟩
    · intro k hk
      simp only at hk
      simp only [List.length_append, List.length_cons, List.length_nil]
      by_cases hp : p
      · rw [if_pos hp] at hk; cases hk; omega
      · rw [if_neg hp] at hk; have := h.1 k hk; omega
    · simp only [List.mem_append, List.mem_singleton, not_or]
      exact ⟨h.2, fun h' => hd h'.symm⟩

theorem shardNodeStep_inv (d : Bytes) (tls : Bool) (st : List Bytes × Option Nat) (n : Msg) (h : NodesInv st) :
    ∃ st', shardNodeStep d tls st n = .ok st' ∧ NodesInv st' := by
  obtain ⟨dict, hd⟩ := asMapOrNil_ok n
  unfold shardNodeStep
  rw [hd]
  simp only
  by_cases hh : (mget kHealth dict).str ≠ kOnline
  · rw [if_pos hh]; exact ⟨st, rfl, h⟩
  · rw [if_neg hh]
    exact nodeTail_inv st _ _ h

theorem foldNodes_inv (d : Bytes) (tls : Bool) : ∀ (ns : List Msg) (st : List Bytes × Option Nat), NodesInv st →
    ∃ st', foldRes (shardNodeStep d tls) st ns = .ok st' ∧ NodesInv st' := by
  intro ns
  induction ns with
  | nil => intro st h; exact ⟨st, rfl, h⟩
  | cons n rest ih =>
    intro st h
    obtain ⟨st1, h1, i1⟩ := shardNodeStep_inv d tls st n h
    unfold foldRes
    rw [h1]
    exact ih st1 i1

theorem swap0_ok (ns : List Bytes) (m : Nat) (h : m < ns.length) :
    ∃ ns', swap0 ns m = .ok ns' ∧ ns'.length = ns.length ∧ (∀ x, x ∈ ns' → x ∈ ns) := by
  have h0 : 0 < ns.length := by omega
  unfold swap0
  rw [List.getElem?_eq_getElem h0, List.getElem?_eq_getElem h]
  refine ⟨_, rfl, by simp, ?_⟩
  intro x hx
  have h1 := List.mem_or_eq_of_mem_set hx
  rcases h1 with h1 | h1
  · have h2 := List.mem_or_eq_of_mem_set h1
    rcases h2 with h2 | h2
    · exact h2
    · exact h2 ▸ List.getElem_mem h
  · exact h1 ▸ List.getElem_mem h0

/-- the group a CLUSTER SHARDS entry contributes, if any -/
def shardGroup (d : Bytes) (tls : Bool) (v : Msg) : Option (Bytes × Group) :=
  match asMapOrNil v with
  | .ok shard =>
    match slotPairs (mget kSlots shard).arr 0 ((mget kSlots shard).arr.length / 2),
          foldRes (shardNodeStep d tls) ([], none) (mget kNodes shard).arr with
    | .ok ss, .ok (ns, some m) =>
      match swap0 ns m with
      | .ok ns' => (ns'.head?).map fun master => (master, { nodes := ns', slots := ss })
      | _ => none
    | _, _ => none
  | _ => none

theorem shardStep_eq (d : Bytes) (tls : Bool) (gs : Groups) (v : Msg) :
    shardStep d tls gs v = .ok (match shardGroup d tls v with | some (k, g) => gset k g gs | none => gs) := by
  obtain ⟨shard, hs⟩ := asMapOrNil_ok v
  unfold shardStep shardGroup
  rw [hs]
  simp only
  obtain ⟨ss, hss⟩ := slotPairs_ok (mget kSlots shard).arr ((mget kSlots shard).arr.length / 2) 0 (by omega)
  rw [hss]
  simp only
  obtain ⟨st', hf, hi⟩ := foldNodes_inv d tls (mget kNodes shard).arr ([], none)
    ⟨(by intro k hk; cases hk), (by simp)⟩
  rw [hf]
  obtain ⟨ns, m⟩ := st'
  cases m with
  | none => rfl
  | some m =>
    simp only
    have hm : m < ns.length := hi.1 m rfl
    obtain ⟨ns', hsw, hlen, _⟩ := swap0_ok ns m hm
    rw [hsw]
    simp only
    cases hh : ns'.head? with
    | none =>
      have : ns' = [] := by cases ns' <;> simp_all
      subst this
      simp at hlen
      omega
    | some a => rfl

theorem shardStep_ok (d : Bytes) (tls : Bool) (gs : Groups) (v : Msg) : IsOk (shardStep d tls gs v) :=
  ⟨_, shardStep_eq d tls gs v⟩

theorem parseShards_ok (m : Msg) (d : Bytes) (tls : Bool) : IsOk (parseShards m d tls) :=
  foldRes_ok _ (shardStep_ok d tls) _ _

end Rv.ClusterParse
