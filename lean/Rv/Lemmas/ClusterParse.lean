/-
Lemmas about the topology parser model (`Rv.Model.Topology`): totality (no index panic),
shape of the parsed groups, which entries of the reply end up in which group.
-/
import Rv.Model.Topology
namespace Rv.ClusterParse
open Rv Rv.Topology

def IsOk {α} (r : Res α) : Prop := ∃ a, r = .ok a
def NoPanic {α} (r : Res α) : Prop := r ≠ .panic ∧ r ≠ .oom

theorem idx_ok {xs : List Msg} {i : Nat} (h : i < xs.length) : idx xs i = .ok xs[i] := by
  simp [idx, List.getElem?_eq_getElem h]

theorem foldRes_ok {α β} (f : β → α → Res β) (h : ∀ a x, IsOk (f a x)) :
    ∀ (xs : List α) (a : β), IsOk (foldRes f a xs) := by
  intro xs
  induction xs with
  | nil => intro a; exact ⟨a, rfl⟩
  | cons x xs ih =>
    intro a
    obtain ⟨b, hb⟩ := h a x
    unfold foldRes
    rw [hb]
    exact ih b

/-! ### parseSlots -/

theorem slotNodes_ok (d : Bytes) : ∀ xs, IsOk (slotNodes d xs) := by
  intro xs
  induction xs with
  | nil => exact ⟨[], rfl⟩
  | cons nv rest ih =>
    unfold slotNodes
    simp only
    split
    · exact ih
    · rename_i hlen
      have h0 : 0 < nv.arr.length := by omega
      have h1 : 1 < nv.arr.length := by omega
      obtain ⟨ns, hns⟩ := ih
      rw [idx_ok h0, idx_ok h1, hns]
      simp only
      split <;> exact ⟨_, rfl⟩

/-- the master address announced by one CLUSTER SLOTS entry, `none` when the entry is unusable
    (too short, master without address/port pair, `?` endpoint) -/
def entryMaster (d : Bytes) (v : Msg) : Option Bytes :=
  if h : v.arr.length < 3 then none
  else
    let v2 := v.arr[2]'(by omega)
    if h2 : v2.arr.length < 2 then none
    else
      let a := parseEndpoint d (v2.arr[0]'(by omega)).str (v2.arr[1]'(by omega)).int
      if a = [] then none else some a

/-- the slot range announced by an entry (meaningful for entries with at least 2 elements) -/
def entryRange (v : Msg) : Int × Int := ((v.arr[0]?.getD zero).int, (v.arr[1]?.getD zero).int)

theorem find_filter_ne (a k : Bytes) (h : k ≠ a) : ∀ gs : Groups,
    (gs.filter (fun e => decide (e.1 ≠ k))).find? (fun e => decide (e.1 = a)) = gs.find? (fun e => decide (e.1 = a)) := by
  intro gs
  induction gs with
  | nil => rfl
  | cons e rest ih =>
    by_cases he : e.1 = k
    · have hne : ¬ e.1 = a := fun h' => h (he ▸ h')
      rw [List.filter_cons_of_neg (by simp [he]), List.find?_cons_of_neg (by simp [hne])]
      exact ih
    · rw [List.filter_cons_of_pos (by simp [he])]
      by_cases hea : e.1 = a
      · rw [List.find?_cons_of_pos (by simp [hea]), List.find?_cons_of_pos (by simp [hea])]
      · rw [List.find?_cons_of_neg (by simp [hea]), List.find?_cons_of_neg (by simp [hea])]
        exact ih

theorem gget_gset (a k : Bytes) (g : Group) (gs : Groups) :
    gget a (gset k g gs) = if k = a then some g else gget a gs := by
  unfold gget gset
  by_cases h : k = a
  · subst h
    rw [List.find?_cons_of_pos (by simp)]
    simp
  · rw [if_neg h, List.find?_cons_of_neg (by simp [h])]
    rw [find_filter_ne a k h]

/-- what one step does, as a closed form -/
theorem slotsStep_eq (d : Bytes) (gs : Groups) (v : Msg) :
    slotsStep d gs v = .ok (
      match entryMaster d v with
      | none => gs
      | some a =>
        match gget a gs with
        | some g => gset a { g with slots := g.slots ++ [entryRange v] } gs
        | none =>
          match slotNodes d (v.arr.drop 2) with
          | .ok ns => gset a { nodes := ns, slots := [entryRange v] } gs
          | _ => gs) := by
  unfold slotsStep entryMaster entryRange
  simp only
  by_cases hlen : v.arr.length < 3
  · simp [hlen]
  · have h0 : 0 < v.arr.length := by omega
    have h1 : 1 < v.arr.length := by omega
    have h2 : 2 < v.arr.length := by omega
    rw [if_neg hlen, dif_neg hlen, idx_ok h0, idx_ok h1, idx_ok h2]
    simp only
    by_cases hm : (v.arr[2]).arr.length < 2
    · simp [hm]
    · have m0 : 0 < (v.arr[2]).arr.length := by omega
      have m1 : 1 < (v.arr[2]).arr.length := by omega
      rw [if_neg hm, dif_neg hm, idx_ok m0, idx_ok m1]
      simp only
      by_cases ha : parseEndpoint d (v.arr[2]).arr[0].str (v.arr[2]).arr[1].int = []
      · simp [ha]
      · rw [if_neg ha, if_neg ha]
        simp only [List.getElem?_eq_getElem h0, List.getElem?_eq_getElem h1, Option.getD_some]
        cases hg : gget (parseEndpoint d (v.arr[2]).arr[0].str (v.arr[2]).arr[1].int) gs with
        | some g => rfl
        | none =>
          obtain ⟨ns, hns⟩ := slotNodes_ok d (List.drop 2 v.arr)
          simp only [hns]

theorem slotsStep_ok (d : Bytes) (gs : Groups) (v : Msg) : IsOk (slotsStep d gs v) :=
  ⟨_, slotsStep_eq d gs v⟩

theorem parseSlots_ok (m : Msg) (d : Bytes) : IsOk (parseSlots m d) :=
  foldRes_ok _ (slotsStep_ok d) _ _

/-! ### parseShards -/

theorem toMap_noPanic : ∀ (n : Nat) (xs : List Msg), xs.length = 2 * n → NoPanic (toMap xs) := by
  intro n
  induction n with
  | zero =>
    intro xs h
    have hx : xs = [] := by cases xs <;> simp_all
    subst hx
    simp [toMap, NoPanic]
  | succ n ih =>
    intro xs h
    match xs, h with
    | k :: v :: rest, h =>
      have hr : rest.length = 2 * n := by simp at h; omega
      have := ih rest hr
      unfold toMap
      split
      · split
        · simp [NoPanic]
        · rename_i r hr'
          exact ⟨fun hp => this.1 hp, fun hp => this.2 hp⟩
      · simp [NoPanic]

theorem asMap_noPanic (m : Msg) : NoPanic (asMap m) := by
  unfold asMap
  split
  · simp [NoPanic]
  · split
    · rename_i h
      have he : m.arr.length % 2 = 0 := by simp at h; exact h.2
      exact toMap_noPanic (m.arr.length / 2) _ (by omega)
    · simp [NoPanic]

theorem asMapOrNil_ok (m : Msg) : IsOk (asMapOrNil m) := by
  have h := asMap_noPanic m
  unfold asMapOrNil
  cases hm : asMap m with
  | ok d => exact ⟨d, rfl⟩
  | err e => exact ⟨[], rfl⟩
  | panic => exact absurd hm h.1
  | oom => exact absurd hm h.2

theorem slotPairs_ok (slots : List Msg) : ∀ n i, (i + n) * 2 ≤ slots.length → IsOk (slotPairs slots i n) := by
  intro n
  induction n with
  | zero => intro i _; exact ⟨[], rfl⟩
  | succ n ih =>
    intro i h
    have h0 : i * 2 < slots.length := by omega
    have h1 : i * 2 + 1 < slots.length := by omega
    obtain ⟨r, hr⟩ := ih (i + 1) (by omega)
    unfold slotPairs
    rw [idx_ok h0, idx_ok h1, hr]
    exact ⟨_, rfl⟩

/-- loop invariant of the node loop of parseShards: `m` indexes into `g.nodes`, no node is `""` -/
def NodesInv (st : List Bytes × Option Nat) : Prop := (∀ k, st.2 = some k → k < st.1.length) ∧ [] ∉ st.1

theorem nodeTail_inv (st : List Bytes × Option Nat) (dst : Bytes) (p : Prop) [Decidable p] (h : NodesInv st) :
    ∃ st', (if dst = [] then Res.ok st else Res.ok (st.1 ++ [dst], if p then some st.1.length else st.2)) = Res.ok st'
      ∧ NodesInv st' := by
  by_cases hd : dst = []
  · rw [if_pos hd]; exact ⟨st, rfl, h⟩
  · rw [if_neg hd]
    refine ⟨_, rfl, ?_, ?_⟩
    · intro k hk
      simp only at hk
      simp only [List.length_append, List.length_cons, List.length_nil]
      by_cases hp : p
      · rw [if_pos hp] at hk; cases hk; omega
      · rw [if_neg hp] at hk; have := h.1 k hk; omega
    · simp only [List.mem_append, List.mem_singleton, not_or]
      exact ⟨h.2, fun h' => hd h'.symm⟩

theorem shardNodeStep_inv (d : Bytes) (tls : Bool) (st : List Bytes × Option Nat) (n : Msg) (h : NodesInv st) :
    ∃ st', shardNodeStep d tls st n = .ok st' ∧ NodesInv st' := by
  obtain ⟨dict, hd⟩ := asMapOrNil_ok n
  unfold shardNodeStep
  rw [hd]
  simp only
  by_cases hh : (mget kHealth dict).str ≠ kOnline
  · rw [if_pos hh]; exact ⟨st, rfl, h⟩
  · rw [if_neg hh]
    exact nodeTail_inv st _ _ h

theorem foldNodes_inv (d : Bytes) (tls : Bool) : ∀ (ns : List Msg) (st : List Bytes × Option Nat), NodesInv st →
    ∃ st', foldRes (shardNodeStep d tls) st ns = .ok st' ∧ NodesInv st' := by
  intro ns
  induction ns with
  | nil => intro st h; exact ⟨st, rfl, h⟩
  | cons n rest ih =>
    intro st h
    obtain ⟨st1, h1, i1⟩ := shardNodeStep_inv d tls st n h
    unfold foldRes
    rw [h1]
    exact ih st1 i1

theorem swap0_ok (ns : List Bytes) (m : Nat) (h : m < ns.length) :
    ∃ ns', swap0 ns m = .ok ns' ∧ ns'.length = ns.length ∧ (∀ x, x ∈ ns' → x ∈ ns) := by
  have h0 : 0 < ns.length := by omega
  unfold swap0
  rw [List.getElem?_eq_getElem h0, List.getElem?_eq_getElem h]
  refine ⟨_, rfl, by simp, ?_⟩
  intro x hx
  have h1 := List.mem_or_eq_of_mem_set hx
  rcases h1 with h1 | h1
  · have h2 := List.mem_or_eq_of_mem_set h1
    rcases h2 with h2 | h2
    · exact h2
    · exact h2 ▸ List.getElem_mem h
  · exact h1 ▸ List.getElem_mem h0

/-- the group a CLUSTER SHARDS entry contributes, if any -/
def shardGroup (d : Bytes) (tls : Bool) (v : Msg) : Option (Bytes × Group) :=
  match asMapOrNil v with
  | .ok shard =>
    match slotPairs (mget kSlots shard).arr 0 ((mget kSlots shard).arr.length / 2),
          foldRes (shardNodeStep d tls) ([], none) (mget kNodes shard).arr with
    | .ok ss, .ok (ns, some m) =>
      match swap0 ns m with
      | .ok ns' => (ns'.head?).map fun master => (master, { nodes := ns', slots := ss })
      | _ => none
    | _, _ => none
  | _ => none

theorem shardStep_eq (d : Bytes) (tls : Bool) (gs : Groups) (v : Msg) :
    shardStep d tls gs v = .ok (match shardGroup d tls v with | some (k, g) => gset k g gs | none => gs) := by
  obtain ⟨shard, hs⟩ := asMapOrNil_ok v
  unfold shardStep shardGroup
  rw [hs]
  simp only
  obtain ⟨ss, hss⟩ := slotPairs_ok (mget kSlots shard).arr ((mget kSlots shard).arr.length / 2) 0 (by omega)
  rw [hss]
  simp only
  obtain ⟨st', hf, hi⟩ := foldNodes_inv d tls (mget kNodes shard).arr ([], none)
    ⟨(by intro k hk; cases hk), (by simp)⟩
  rw [hf]
  obtain ⟨ns, m⟩ := st'
  cases m with
  | none => rfl
  | some m =>
    simp only
    have hm : m < ns.length := hi.1 m rfl
    obtain ⟨ns', hsw, hlen, _⟩ := swap0_ok ns m hm
    rw [hsw]
    simp only
    cases hh : ns'.head? with
    | none =>
      have : ns' = [] := by cases ns' <;> simp_all
      subst this
      simp at hlen
      omega
    | some a => rfl

theorem shardStep_ok (d : Bytes) (tls : Bool) (gs : Groups) (v : Msg) : IsOk (shardStep d tls gs v) :=
  ⟨_, shardStep_eq d tls gs v⟩

theorem parseShards_ok (m : Msg) (d : Bytes) (tls : Bool) : IsOk (parseShards m d tls) :=
  foldRes_ok _ (shardStep_ok d tls) _ _

end Rv.ClusterParse

namespace Rv.ClusterParse
open Rv Rv.Topology

/-! ### which entries end up where (parseSlots) -/

/-- one step of parseSlots as a pure function -/
def slotsNext (d : Bytes) (gs : Groups) (v : Msg) : Groups :=
  match entryMaster d v with
  | none => gs
  | some a =>
    match gget a gs with
    | some g => gset a { g with slots := g.slots ++ [entryRange v] } gs
    | none =>
      match slotNodes d (v.arr.drop 2) with
      | .ok ns => gset a { nodes := ns, slots := [entryRange v] } gs
      | _ => gs

theorem parseSlots_eq_foldl (m : Msg) (d : Bytes) : parseSlots m d = .ok (m.arr.foldl (slotsNext d) []) := by
  unfold parseSlots
  generalize ([] : Groups) = acc
  induction m.arr generalizing acc with
  | nil => rfl
  | cons v rest ih =>
    unfold foldRes
    rw [slotsStep_eq]
    exact ih _

theorem slotNodes_head (d : Bytes) (v : Msg) (a : Bytes) (h : entryMaster d v = some a) :
    ∃ ns, slotNodes d (v.arr.drop 2) = .ok (a :: ns) := by
  unfold entryMaster at h
  by_cases hlen : v.arr.length < 3
  · simp [hlen] at h
  · rw [dif_neg hlen] at h
    simp only at h
    by_cases hm : (v.arr[2]'(by omega)).arr.length < 2
    · simp [hm] at h
    · rw [dif_neg hm] at h
      have hd : v.arr.drop 2 = v.arr[2]'(by omega) :: v.arr.drop 3 := by
        rw [List.drop_eq_getElem_cons (by omega)]
      rw [hd]
      unfold slotNodes
      simp only
      rw [if_neg hm]
      have m0 : 0 < (v.arr[2]'(by omega)).arr.length := by omega
      have m1 : 1 < (v.arr[2]'(by omega)).arr.length := by omega
      rw [idx_ok m0, idx_ok m1]
      obtain ⟨ns, hns⟩ := slotNodes_ok d (v.arr.drop 3)
      simp only [hns]
      by_cases ha : parseEndpoint d ((v.arr[2]'(by omega)).arr[0]).str ((v.arr[2]'(by omega)).arr[1]).int = []
      · simp [ha] at h
      · simp only [ha, if_false] at h
        cases h
        exact ⟨ns, by simp [ha]⟩

/-- every group starts with the node it is keyed by (`g.nodes[0]` is the master) -/
def HeadOK (gs : Groups) : Prop := ∀ a g, gget a gs = some g → g.nodes.head? = some a

theorem slotsNext_headOK (d : Bytes) (gs : Groups) (v : Msg) (h : HeadOK gs) : HeadOK (slotsNext d gs v) := by
  unfold slotsNext
  cases hm : entryMaster d v with
  | none => exact h
  | some a =>
    simp only
    cases hg : gget a gs with
    | some g =>
      intro a' g' hg'
      rw [gget_gset] at hg'
      by_cases e : a = a'
      · subst e; simp at hg'; subst hg'; exact h a g hg
      · rw [if_neg e] at hg'; exact h a' g' hg'
    | none =>
      obtain ⟨ns, hns⟩ := slotNodes_head d v a hm
      simp only [hns]
      intro a' g' hg'
      rw [gget_gset] at hg'
      by_cases e : a = a'
      · subst e; simp at hg'; subst hg'; rfl
      · rw [if_neg e] at hg'; exact h a' g' hg'

def Listed (a : Bytes) (r : Int × Int) (gs : Groups) : Prop := ∃ g, gget a gs = some g ∧ r ∈ g.slots

theorem slotsNext_keeps (d : Bytes) (gs : Groups) (v : Msg) (a : Bytes) (r : Int × Int) (h : Listed a r gs) :
    Listed a r (slotsNext d gs v) := by
  obtain ⟨g, hg, hr⟩ := h
  unfold slotsNext
  cases hm : entryMaster d v with
  | none => exact ⟨g, hg, hr⟩
  | some k =>
    simp only
    by_cases e : k = a
    · subst e
      rw [hg]
      exact ⟨{ g with slots := g.slots ++ [entryRange v] }, by rw [gget_gset, if_pos rfl], by simp [hr]⟩
    · cases hk : gget k gs with
      | some g' => exact ⟨g, by rw [gget_gset, if_neg e]; exact hg, hr⟩
      | none =>
        simp only
        split
        · exact ⟨g, by rw [gget_gset, if_neg e]; exact hg, hr⟩
        · exact ⟨g, hg, hr⟩

theorem slotsNext_lists (d : Bytes) (gs : Groups) (v : Msg) (a : Bytes) (hm : entryMaster d v = some a) :
    Listed a (entryRange v) (slotsNext d gs v) := by
  unfold slotsNext
  rw [hm]
  simp only
  cases hg : gget a gs with
  | some g => exact ⟨{ g with slots := g.slots ++ [entryRange v] }, by rw [gget_gset, if_pos rfl], by simp⟩
  | none =>
    obtain ⟨ns, hns⟩ := slotNodes_head d v a hm
    simp only [hns]
    exact ⟨{ nodes := a :: ns, slots := [entryRange v] }, by rw [gget_gset, if_pos rfl], by simp⟩

theorem foldl_keeps (d : Bytes) (a : Bytes) (r : Int × Int) : ∀ (xs : List Msg) (gs : Groups),
    Listed a r gs → Listed a r (xs.foldl (slotsNext d) gs) := by
  intro xs
  induction xs with
  | nil => intro gs h; exact h
  | cons x rest ih => intro gs h; exact ih _ (slotsNext_keeps d gs x a r h)

theorem foldl_lists (d : Bytes) (a : Bytes) (v : Msg) (hm : entryMaster d v = some a) : ∀ (xs : List Msg) (gs : Groups),
    v ∈ xs → Listed a (entryRange v) (xs.foldl (slotsNext d) gs) := by
  intro xs
  induction xs with
  | nil => intro gs h; cases h
  | cons x rest ih =>
    intro gs h
    rcases List.mem_cons.mp h with h | h
    · subst h
      exact foldl_keeps d a _ rest _ (slotsNext_lists d gs v a hm)
    · exact ih _ h

theorem foldl_headOK (d : Bytes) : ∀ (xs : List Msg) (gs : Groups), HeadOK gs → HeadOK (xs.foldl (slotsNext d) gs) := by
  intro xs
  induction xs with
  | nil => intro gs h; exact h
  | cons x rest ih => intro gs h; exact ih _ (slotsNext_headOK d gs x h)

/-- keys of the result come from usable entries only -/
def KeysFrom (d : Bytes) (src : List Msg) (gs : Groups) : Prop :=
  ∀ a g, gget a gs = some g → a ≠ [] ∧ ∃ v ∈ src, entryMaster d v = some a

theorem entryMaster_ne_nil (d : Bytes) (v : Msg) (a : Bytes) (h : entryMaster d v = some a) : a ≠ [] := by
  unfold entryMaster at h
  split at h
  · cases h
  · simp only at h
    split at h
    · cases h
    · split at h
      · cases h
      · rename_i hne; cases h; exact hne

theorem slotsNext_keysFrom (d : Bytes) (src : List Msg) (gs : Groups) (v : Msg) (hv : v ∈ src)
    (h : KeysFrom d src gs) : KeysFrom d src (slotsNext d gs v) := by
  unfold slotsNext
  cases hm : entryMaster d v with
  | none => exact h
  | some k =>
    simp only
    have hk : k ≠ [] ∧ ∃ v ∈ src, entryMaster d v = some k := ⟨entryMaster_ne_nil d v k hm, v, hv, hm⟩
    have key : ∀ g0, KeysFrom d src (gset k g0 gs) := by
      intro g0 a g hg
      rw [gget_gset] at hg
      by_cases e : k = a
      · subst e; exact hk
      · rw [if_neg e] at hg; exact h a g hg
    cases hg : gget k gs with
    | some g => exact key _
    | none =>
      simp only
      split
      · exact key _
      · exact h

theorem foldl_keysFrom (d : Bytes) (src : List Msg) : ∀ (xs : List Msg) (gs : Groups), (∀ v ∈ xs, v ∈ src) →
    KeysFrom d src gs → KeysFrom d src (xs.foldl (slotsNext d) gs) := by
  intro xs
  induction xs with
  | nil => intro gs _ h; exact h
  | cons x rest ih =>
    intro gs hs h
    exact ih _ (fun v hv => hs v (List.mem_cons_of_mem _ hv))
      (slotsNext_keysFrom d src gs x (hs x (List.mem_cons_self ..)) h)

/-! ### which shards end up where (parseShards) -/

def shardsNext (d : Bytes) (tls : Bool) (gs : Groups) (v : Msg) : Groups :=
  match shardGroup d tls v with | some (k, g) => gset k g gs | none => gs

theorem parseShards_eq_foldl (m : Msg) (d : Bytes) (tls : Bool) :
    parseShards m d tls = .ok (m.arr.foldl (shardsNext d tls) []) := by
  unfold parseShards
  generalize ([] : Groups) = acc
  induction m.arr generalizing acc with
  | nil => rfl
  | cons v rest ih =>
    unfold foldRes
    rw [shardStep_eq]
    exact ih _

/-- every group of the result is exactly what one shard of the reply contributes -/
def FromShard (d : Bytes) (tls : Bool) (src : List Msg) (gs : Groups) : Prop :=
  ∀ k g, gget k gs = some g → ∃ v ∈ src, shardGroup d tls v = some (k, g)

theorem foldl_fromShard (d : Bytes) (tls : Bool) (src : List Msg) : ∀ (xs : List Msg) (gs : Groups),
    (∀ v ∈ xs, v ∈ src) → FromShard d tls src gs → FromShard d tls src (xs.foldl (shardsNext d tls) gs) := by
  intro xs
  induction xs with
  | nil => intro gs _ h; exact h
  | cons x rest ih =>
    intro gs hs h
    apply ih _ (fun v hv => hs v (List.mem_cons_of_mem _ hv))
    unfold shardsNext
    cases hx : shardGroup d tls x with
    | none => exact h
    | some kg =>
      obtain ⟨k, g⟩ := kg
      intro k' g' hg'
      simp only at hg'
      rw [gget_gset] at hg'
      by_cases e : k = k'
      · subst e; simp at hg'; subst hg'; exact ⟨x, hs x (List.mem_cons_self ..), hx⟩
      · rw [if_neg e] at hg'; exact h k' g' hg'

/-- a shard's group survives unless a later shard announces the same master -/
theorem foldl_shard_last_wins (d : Bytes) (tls : Bool) (k : Bytes) (g : Group) : ∀ (post : List Msg) (gs : Groups),
    gget k gs = some g → (∀ v ∈ post, ∀ g', shardGroup d tls v ≠ some (k, g')) →
    gget k (post.foldl (shardsNext d tls) gs) = some g := by
  intro post
  induction post with
  | nil => intro gs h _; exact h
  | cons x rest ih =>
    intro gs h hno
    apply ih _ _ (fun v hv => hno v (List.mem_cons_of_mem _ hv))
    unfold shardsNext
    cases hx : shardGroup d tls x with
    | none => exact h
    | some kg =>
      obtain ⟨k', g'⟩ := kg
      simp only
      rw [gget_gset]
      by_cases e : k' = k
      · subst e; exact absurd hx (hno x (List.mem_cons_self ..) g')
      · rw [if_neg e]; exact h

/-- shape of what one shard contributes: keyed by its first node, no node without an address -/
theorem shardGroup_shape (d : Bytes) (tls : Bool) (v : Msg) (k : Bytes) (g : Group)
    (h : shardGroup d tls v = some (k, g)) : g.nodes.head? = some k ∧ [] ∉ g.nodes := by
  unfold shardGroup at h
  obtain ⟨shard, hs⟩ := asMapOrNil_ok v
  rw [hs] at h
  simp only at h
  obtain ⟨ss, hss⟩ := slotPairs_ok (mget kSlots shard).arr ((mget kSlots shard).arr.length / 2) 0 (by omega)
  obtain ⟨st', hf, hi⟩ := foldNodes_inv d tls (mget kNodes shard).arr ([], none)
    ⟨(by intro k hk; cases hk), (by simp)⟩
  rw [hss, hf] at h
  obtain ⟨ns, m⟩ := st'
  cases m with
  | none => simp at h
  | some m =>
    simp only at h
    obtain ⟨ns', hsw, _, hmem⟩ := swap0_ok ns m (hi.1 m rfl)
    rw [hsw] at h
    simp only at h
    cases hh : ns'.head? with
    | none => rw [hh] at h; simp at h
    | some a =>
      rw [hh] at h
      simp at h
      obtain ⟨h1, h2⟩ := h
      subst h1; subst h2
      exact ⟨hh, fun hn => hi.2 (hmem _ hn)⟩

end Rv.ClusterParse
