import Rv.Lemmas.RingInvB
namespace Rv.Ring

/-- caller still has to fill slot s -/
def outB (s : Nat) : Pc → Bool
  | .ready s' => s' == s
  | .waiting s' => s' == s
  | _ => false

def cnt (f : Nat → Pc) (P : Pc → Bool) (n : Nat) : Nat := (List.range n).countP fun c => P (f c)

theorem cnt_succ (f : Nat → Pc) (P : Pc → Bool) (n : Nat) :
    cnt f P (n + 1) = cnt f P n + (if P (f n) then 1 else 0) := by
  simp [cnt, List.range_succ, List.countP_append, List.countP_cons]

theorem cnt_upd_ge (f : Nat → Pc) (P : Pc → Bool) (c : Nat) (v : Pc) (n : Nat) (h : n ≤ c) :
    cnt (upd f c v) P n = cnt f P n := by
  induction n with
  | zero => rfl
  | succ n ih =>
    rw [cnt_succ, cnt_succ, ih (by omega), upd_other _ _ _ _ (by omega)]

theorem cnt_upd (f : Nat → Pc) (P : Pc → Bool) (c : Nat) (v : Pc) (n : Nat) (h : c < n) :
    cnt (upd f c v) P n + (if P (f c) then 1 else 0) = cnt f P n + (if P v then 1 else 0) := by
  induction n with
  | zero => omega
  | succ n ih =>
    rw [cnt_succ, cnt_succ]
    by_cases e : c = n
    · subst e
      rw [cnt_upd_ge _ _ _ _ _ (Nat.le_refl _), upd_same]; omega
    · rw [upd_other _ _ _ _ (by omega)]
      have := ih (by omega); omega

theorem cnt_pos (f : Nat → Pc) (P : Pc → Bool) (n c : Nat) (h : c < n) (hp : P (f c) = true) :
    0 < cnt f P n := by
  unfold cnt
  rw [List.countP_pos_iff]
  exact ⟨c, List.mem_range.2 h, hp⟩

theorem cnt_zero (f : Nat → Pc) (P : Pc → Bool) (n : Nat) (h : ∀ c, c < n → P (f c) = false) :
    cnt f P n = 0 := by
  unfold cnt
  rw [List.countP_eq_zero]
  intro c hc; simp [h c (List.mem_range.1 hc)]

end Rv.Ring
