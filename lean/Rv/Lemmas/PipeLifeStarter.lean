/-
Pipe life model, repaired tail (`fix = true`, pipe.go since eac8ecc): while the `_background`
goroutine does not exist and somebody holds `waits`, a *starter* exists — a caller that holds wait
number 1 and has not passed its tail (`counted 1`, in the sync path, or holding its result with the
tail still to run), or Close holding wait number 1 before its CAS. A starter's next statement is
always enabled and either starts `_background` or keeps a starter. Hence no deadlock without the
hypothesis that `_background` was started.
-/
import Rv.Lemmas.PipeLifeProgress
import Rv.Lemmas.PipeLifeLatch
namespace Rv.PipeLife

theorem deliver_waits_le (o : Owner) (r : Res) (s : St) : (deliver o r s).waits ≤ s.waits := by
  cases o <;> simp only [deliver]
  · split
    · exact Nat.le_refl _
    · exact Nat.sub_le _ _
    · exact Nat.le_refl _
  · exact Nat.sub_le _ _
  · exact Nat.sub_le _ _

/-- which steps can raise `waits` -/
def WaitsUp (s s' : St) (l : Label) : Prop :=
  s'.waits ≤ s.waits ∨
  (∃ i, l = .enter i ∧ stOf s' i = some (.counted (s.waits + 1))) ∨
  (∃ w, l = .closeEnter w ∧ s'.close = .entered (s.waits + 1)) ∨
  l = .tdSpawn ∨ l = .closePing

set_option hygiene false in
macro "waitsP" : tactic =>
  `(tactic| (crunch h <;> (refine Or.inl ?_; first | exact Nat.le_refl _ | exact Nat.sub_le _ _ | (simp only [setSt, leaveSt, startBg_waits, exitConn, casSt]; first | exact Nat.le_refl _ | exact Nat.sub_le _ _) | exact deliver_waits_le _ _ _)))

theorem step_waits {fix : Bool} {s s' : St} {l : Label} (h : step fix s l = some s') : WaitsUp s s' l := by
  cases l <;> simp only [step] at h
  case enter i =>
    unfold enter at h; crunch h
    · exact Or.inl (Nat.le_refl _)
    · refine Or.inr (Or.inl ⟨i, rfl, ?_⟩)
      rename_i hst _
      rw [stOf_modify (s := s) (s' := { (setSt i (.counted (s.waits + 1)) s) with waits := s.waits + 1 }) rfl i,
        if_pos rfl, hst]; rfl
  case decide i => unfold decide at h; waitsP
  case put i => unfold put at h; waitsP
  case putFail i => unfold putFail at h; waitsP
  case syncOk i => unfold syncOk at h; waitsP
  case syncErr i => unfold syncErr at h; waitsP
  case leave i => unfold leave at h; waitsP
  case abort i => unfold abort at h; waitsP
  case cancel i => unfold cancel at h; waitsP
  case connBreak => unfold connBreak at h; waitsP
  case pingFail => unfold pingFail at h; waitsP
  case wTake => unfold wTake at h; waitsP
  case wFlush => unfold wFlush at h; waitsP
  case rFetch => unfold rFetch at h; waitsP
  case rDeliver => unfold rDeliver at h; waitsP
  case rErr =>
    unfold rErr at h; crunch h
    refine Or.inl ?_
    show (deferDeliver s).waits ≤ s.waits
    unfold deferDeliver; split
    · exact deliver_waits_le _ _ _
    · exact Nat.le_refl _
  case tdSpawn => exact Or.inr (Or.inr (Or.inr (Or.inl rfl)))
  case bgPingPut => unfold bgPingPut at h; waitsP
  case tdIter => unfold tdIter at h; waitsP
  case tdClose => unfold tdClose at h; waitsP
  case closeEnter w => unfold closeEnter at h; crunch h; exact Or.inr (Or.inr (Or.inl ⟨w, rfl, rfl⟩))
  case closeCas => unfold closeCas at h; waitsP
  case closePing => exact Or.inr (Or.inr (Or.inr (Or.inr rfl)))
  case closeGot => unfold closeGot at h; waitsP
  case closeGrace => unfold closeGrace at h; waitsP
  case closeTail => unfold closeTail at h; waitsP

/-- statements of Close -/
def Label.isClose : Label → Bool
  | .closeEnter _ | .closeCas | .closePing | .closeGot | .closeGrace | .closeTail => true
  | _ => false

theorem deferDeliver_close (s : St) : (deferDeliver s).close = s.close :=
  congrArg Scal.close (scal_deferDeliver s)

set_option hygiene false in
macro "closeP" : tactic =>
  `(tactic| (crunch h <;> (refine Or.inl ?_; first | rfl | (simp only [setSt, leaveSt, startBg_close, deliver_close, exitConn, deferDeliver_close]; try rfl))))

/-- only Close's own statements move Close's program counter -/
theorem step_close {fix : Bool} {s s' : St} {l : Label} (h : step fix s l = some s') :
    s'.close = s.close ∨ l.isClose = true := by
  cases l <;> simp only [step] at h
  case enter i => unfold enter at h; closeP
  case decide i => unfold decide at h; closeP
  case put i => unfold put at h; closeP
  case putFail i => unfold putFail at h; closeP
  case syncOk i => unfold syncOk at h; closeP
  case syncErr i => unfold syncErr at h; closeP
  case leave i => unfold leave at h; closeP
  case abort i => unfold abort at h; closeP
  case cancel i => unfold cancel at h; closeP
  case connBreak => unfold connBreak at h; closeP
  case pingFail => unfold pingFail at h; closeP
  case wTake => unfold wTake at h; closeP
  case wFlush => unfold wFlush at h; closeP
  case rFetch => unfold rFetch at h; closeP
  case rDeliver => unfold rDeliver at h; closeP
  case rErr => unfold rErr at h; closeP
  case tdSpawn => unfold tdSpawn at h; closeP
  case bgPingPut => unfold bgPingPut at h; closeP
  case tdIter => unfold tdIter at h; closeP
  case tdClose => unfold tdClose at h; closeP
  all_goals exact Or.inr rfl

/-! ### the starter invariant -/

/-- the caller holds wait number 1 and its tail `waits == 1 && left != 0 { background() }` is still ahead -/
def CS.isStarter : CS → Bool
  | .counted w => w == 1
  | .syncing => true
  | .got _ sb => sb
  | _ => false

def HasStarter (s : St) : Prop :=
  (∃ j cs, stOf s j = some cs ∧ cs.isStarter = true) ∨ s.close = .entered 1

/-- no background goroutine, somebody holds `waits`: a starter exists -/
def InvJ (s : St) : Prop := s.td = .off → 1 ≤ s.waits → HasStarter s

theorem td_off_stable {fix : Bool} {s s' : St} {l : Label} (h : step fix s l = some s') (h' : s'.td = .off) :
    s.td = .off := by
  by_cases htd : s.td = .off
  · exact htd
  · have hl : Latched s false false true := ⟨fun x => (by cases x), fun x => (by cases x), fun _ => htd⟩
    exact absurd h' ((latched_step h hl).t rfl)

/-- the starter's own `decide` keeps it a starter or starts `_background` (repaired tail) -/
theorem decide_keeps_starter {s s' : St} {j : Nat} (h : step true s (.decide j) = some s')
    (hst : stOf s j = some (.counted 1)) (ha : InvA (scal s)) (htd : s.td = .off) (htd' : s'.td = .off) :
    ∃ cs, stOf s' j = some cs ∧ cs.isStarter = true := by
  simp only [step, decide, hst] at h
  have h1 : ¬ s.state = 1 := fun h1 => (ha.a4 h1) htd
  simp only [h1, if_false] at h
  split at h
  · simp only [ne_eq, not_true_eq_false, if_false] at h
    split at h
    · injection h with h; subst h
      have : (setSt j .toQueue (startBg s)).td = (startBg s).td := rfl
      rw [this] at htd'
      exact absurd htd' (startBg_td_ne_off s)
    · injection h with h; subst h
      refine ⟨.syncing, ?_, rfl⟩
      rw [stOf_modify (s := s) (s' := { (setSt j .syncing s) with wire := s.wire ++ [j] }) rfl j, if_pos rfl, hst]; rfl
  · injection h with h; subst h
    refine ⟨.got (latched s.err) true, ?_, rfl⟩
    rw [stOf_modify (s := s) rfl j, if_pos rfl, hst]; rfl

theorem invJ_step {s s' : St} {l : Label} (h : step true s l = some s') (ha : InvA (scal s)) (hc : InvC s)
    (hj : InvJ s) : InvJ s' := by
  intro htd' hw'
  have htd := td_off_stable h htd'
  have hc' := invC_step h hc
  by_cases hw : 1 ≤ s.waits
  · -- a starter existed before the step
    rcases hj htd hw with ⟨j, cs, hst, hs⟩ | hcl
    · rcases step_change h j with ⟨h1, _⟩ | ⟨a, b, ha1, hb1, ht, _⟩ | ⟨a, b, ha1, _, hdl, _⟩
      · exact Or.inl ⟨j, cs, by rw [h1]; exact hst, hs⟩
      · rw [hst] at ha1; injection ha1 with ha1; subst ha1
        cases ht with
        | enter i w => simp [CS.isStarter] at hs
        | enterDone i => simp [CS.isStarter] at hs
        | toQueue i w =>
          have hw1 : w = 1 := by simpa [CS.isStarter] using hs
          subst hw1
          obtain ⟨c2, h2, h3⟩ := decide_keeps_starter h hst ha htd htd'
          exact Or.inl ⟨j, c2, h2, h3⟩
        | sync i w =>
          have hw1 : w = 1 := by simpa [CS.isStarter] using hs
          subst hw1
          obtain ⟨c2, h2, h3⟩ := decide_keeps_starter h hst ha htd htd'
          exact Or.inl ⟨j, c2, h2, h3⟩
        | reject i w r b0 =>
          have hw1 : w = 1 := by simpa [CS.isStarter] using hs
          subst hw1
          obtain ⟨c2, h2, h3⟩ := decide_keeps_starter h hst ha htd htd'
          exact Or.inl ⟨j, c2, h2, h3⟩
        | put i => simp [CS.isStarter] at hs
        | putFail i => simp [CS.isStarter] at hs
        | syncOk i => exact Or.inl ⟨j, _, hb1, rfl⟩
        | syncErr i r => exact Or.inl ⟨j, _, hb1, rfl⟩
        | leave i r b0 =>
          -- the tail runs: either it starts `_background`, or nobody is left
          have hb0 : b0 = true := by simpa [CS.isStarter] using hs
          subst hb0
          simp only [step, leave, hst, Bool.true_and] at h
          split at h
          · injection h with h; subst h
            exact absurd htd' (startBg_td_ne_off _)
          · rename_i hz
            injection h with h; subst h
            have : s.waits - 1 = 0 := by simpa using hz
            have hw2 : (leaveSt j r s).waits = s.waits - 1 := rfl
            omega
        | abort i => simp [CS.isStarter] at hs
      · rw [hst] at ha1; injection ha1 with ha1; subst ha1
        cases hdl <;> simp [CS.isStarter] at hs
    · -- Close holds wait number 1 and has not done its CAS yet
      rcases step_close h with hsame | hcl2
      · exact Or.inr (by rw [hsame]; exact hcl)
      · cases l <;> simp [Label.isClose] at hcl2 <;> simp only [step] at h
        case closeEnter w => simp [closeEnter, hcl] at h
        case closeCas =>
          have hs0 : s.state = 0 := ha.a13 htd (Or.inr ⟨1, hcl⟩)
          simp only [closeCas, hcl] at h
          have : (s.state == 0 && (1 : Nat) == 1) = true := by simp [hs0]
          simp only [this, if_true] at h
          injection h with h; subst h
          exact absurd htd' (startBg_td_ne_off _)
        case closePing => simp [closePing, hcl] at h
        case closeGot => simp [closeGot, hcl] at h
        case closeGrace => simp [closeGrace, hcl] at h
        case closeTail => simp [closeTail, hcl] at h
  · -- nobody held `waits`: the step that raised it created the starter
    have hw0 : s.waits = 0 := by omega
    rcases step_waits h with hle | ⟨i, _, hi⟩ | ⟨w, _, hcl⟩ | hl | hl
    · omega
    · exact Or.inl ⟨i, _, hi, by simp [CS.isStarter, hw0]⟩
    · exact Or.inr (by rw [hcl, hw0])
    · subst hl
      simp only [step, tdSpawn, htd] at h
      cases h
    · subst hl
      simp only [step, closePing] at h
      have hw := hc.w
      split at h
      · rename_i hcl; rw [hcl] at hw; simp only [ClosePc.weight] at hw; omega
      · cases h

theorem invJ_init (calls : List Call) (p b : Bool) : InvJ (init calls p b) := by
  intro _ hw
  have : (init calls p b).waits = 0 := by unfold init; split <;> simp
  omega

/-- reachable states of the repaired model satisfy the starter invariant -/
theorem Reachable.invJ {s : St} (h : Reachable true s) : InvJ s := by
  induction h with
  | init calls p b _ => exact invJ_init calls p b
  | step l hr hs ih => exact invJ_step hs hr.invA hr.invC ih

/-- **no deadlock, repaired tail, without any hypothesis on `_background`.** -/
theorem no_deadlock_fixed {s : St} (hr : Reachable true s) (ht : triggered s)
    {i : Nat} {cs : CS} (hst : stOf s i = some cs) (hw : cs.weight = 1) : canMove true s := by
  cases htd : s.td with
  | off =>
    have ha := hr.invA
    have hpos : 1 ≤ s.waits := hr.invC.waits_pos hst hw
    rcases hr.invJ htd hpos with ⟨j, cj, hj, hs⟩ | hcl
    · cases cj with
      | counted w => exact own_step_enabled hj rfl (by simp) (by simp) (by simp)
      | got r sb => exact own_step_enabled hj rfl (by simp) (by simp) (by simp)
      | syncing =>
        cases hup : s.connUp with
        | true => exact close_moves_if_up ha ht hup
        | false => exact own_step_enabled hj rfl (by simp) (by simp) (fun _ => hup)
      | _ => simp [CS.isStarter] at hs
    · exact close_moves true s (by rw [hcl]; simp) (by rw [hcl]; simp)
  | _ => exact no_deadlock hr ht (by rw [htd]; simp) hst hw

end Rv.PipeLife
