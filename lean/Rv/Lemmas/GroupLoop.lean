/-
The loop shape shared by the Bloom-filter Lua scripts and by the Go aggregation of
HMGET replies:

    acc = a0
    for i = i0, … do            -- i0 = 1 in Lua, (i+1) with i from 0 in Go
      acc = comb acc (elem x_i)
      if i % k == 0 then flush acc; acc = a0 end
    end

`gloop` transcribes the loop literally (flat argument list, running counter `i`,
test `i % k = 0`); `gspec` is the same computation over the argument list cut into
groups. `gloop_eq_gspec` shows they agree whenever every group has length `k ≥ 1`
and the loop starts at a group boundary. Core Lean only.
-/
namespace Rv.GroupLoop

variable {σ α β : Type}

/-- literal transcription of the flat loop -/
def gloop (k : Nat) (elem : σ → Nat → σ × β) (comb : α → β → α) (a0 : α) (flush : σ → α → σ) :
    List Nat → Nat → α → σ → σ
  | [], _, _, s => s
  | x :: xs, i, a, s =>
    if i % k = 0 then
      gloop k elem comb a0 flush xs (i + 1) a0 (flush (elem s x).1 (comb a (elem s x).2))
    else
      gloop k elem comb a0 flush xs (i + 1) (comb a (elem s x).2) (elem s x).1

/-- one group: thread the state through the elements and accumulate -/
def gfold (elem : σ → Nat → σ × β) (comb : α → β → α) : List Nat → α → σ → σ × α
  | [], a, s => (s, a)
  | x :: xs, a, s => gfold elem comb xs (comb a (elem s x).2) (elem s x).1

/-- the grouped view: per group fold, then flush -/
def gspec (elem : σ → Nat → σ × β) (comb : α → β → α) (a0 : α) (flush : σ → α → σ) :
    List (List Nat) → σ → σ
  | [], s => s
  | g :: gs, s => gspec elem comb a0 flush gs (flush (gfold elem comb g a0 s).1 (gfold elem comb g a0 s).2)

theorem gloop_group (k : Nat) (elem : σ → Nat → σ × β) (comb : α → β → α) (a0 : α) (flush : σ → α → σ) :
    ∀ (g rest : List Nat) (i : Nat) (a : α) (s : σ), g ≠ [] →
      (∀ t, t + 1 < g.length → (i + t) % k ≠ 0) → (i + (g.length - 1)) % k = 0 →
      gloop k elem comb a0 flush (g ++ rest) i a s =
        gloop k elem comb a0 flush rest (i + g.length) a0
          (flush (gfold elem comb g a s).1 (gfold elem comb g a s).2) := by
  intro g
  induction g with
  | nil => intro _ _ _ _ h; exact absurd rfl h
  | cons x g ih =>
    intro rest i a s _ hne hlast
    cases g with
    | nil =>
      have h0 : i % k = 0 := by simpa using hlast
      simp [gloop, gfold, h0]
    | cons y g' =>
      have h0 : i % k ≠ 0 := by
        have := hne 0 (by simp)
        simpa using this
      have hstep : gloop k elem comb a0 flush ((x :: y :: g') ++ rest) i a s =
          gloop k elem comb a0 flush ((y :: g') ++ rest) (i + 1) (comb a (elem s x).2) (elem s x).1 := by
        simp [gloop, h0]
      rw [hstep, ih rest (i + 1) (comb a (elem s x).2) (elem s x).1 (by simp)]
      · have e : i + 1 + (y :: g').length = i + (x :: y :: g').length := by
          simp only [List.length_cons]; omega
        rw [e]; rfl
      · intro t ht
        have := hne (t + 1) (by simp only [List.length_cons] at ht ⊢; omega)
        have e : i + 1 + t = i + (t + 1) := by omega
        rw [e]; exact this
      · have e : i + 1 + ((y :: g').length - 1) = i + ((x :: y :: g').length - 1) := by
          simp only [List.length_cons]; omega
        rw [e]; exact hlast

/-- The flat loop started at a group boundary (`i = q·k + 1`) over the concatenation of
groups of length `k ≥ 1` computes the grouped specification. -/
theorem gloop_eq_gspec (k : Nat) (hk : 1 ≤ k) (elem : σ → Nat → σ × β) (comb : α → β → α) (a0 : α)
    (flush : σ → α → σ) :
    ∀ (gs : List (List Nat)) (q : Nat) (s : σ), (∀ g ∈ gs, g.length = k) →
      gloop k elem comb a0 flush gs.flatten (q * k + 1) a0 s = gspec elem comb a0 flush gs s := by
  intro gs
  induction gs with
  | nil => intro q s _; simp [gloop, gspec]
  | cons g gs ih =>
    intro q s hlen
    have hg : g.length = k := hlen g (by simp)
    have hne : g ≠ [] := by
      intro h; rw [h] at hg; simp at hg; omega
    rw [List.flatten_cons, gloop_group k elem comb a0 flush g gs.flatten (q * k + 1) a0 s hne]
    · have e : q * k + 1 + g.length = (q + 1) * k + 1 := by
        rw [hg, Nat.add_mul]; omega
      rw [e, ih (q + 1) _ (fun g' h' => hlen g' (by simp [h']))]
      rfl
    · intro t ht
      rw [hg] at ht
      have e : q * k + 1 + t = (t + 1) + k * q := by rw [Nat.mul_comm]; omega
      rw [e, Nat.add_mul_mod_self_left, Nat.mod_eq_of_lt ht]
      omega
    · rw [hg]
      have e : q * k + 1 + (k - 1) = k * (q + 1) := by
        rw [Nat.mul_add, Nat.mul_comm]; omega
      rw [e]; exact Nat.mul_mod_right k (q + 1)

end Rv.GroupLoop
