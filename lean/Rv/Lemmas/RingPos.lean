/-
`atPos` and `pos` are inverse to each other on stored calls (helper for C02.exactly_once).
-/
import Rv.Lemmas.RingInvB
namespace Rv.Ring

def InvP (σ : State) : Prop := ∀ c, σ.pos c ≠ 0 → σ.atPos (σ.pos c) = c

theorem InvP.init (k : Nat) : InvP (init k) := by intro c h; simp [Ring.init] at h

theorem InvP.step {k : Nat} {σ : State} (hi : Inv k σ) (h : InvP σ) (l : Label)
    (he : enabled k l σ = true) : InvP (apply k l σ) := by
  cases l with
  | enter c =>
    simp only [Ring.apply]
    split
    · rename_i s hpc
      simp only [enabled, hpc] at he
      split
      · rename_i hm
        obtain ⟨hsN, hpos0⟩ := hi.b.rdy c s hpc
        have hgt : σ.read1 < (σ.slot s).gen := by have := hi.a.mark2 s hsN; omega
        have hlo := hi.a.genlo s hsN
        intro c'; simp only [upd_apply]
        by_cases e : c' = c
        · subst e; simp
        · simp only [e, if_false]
          intro hne
          have hold := h c' hne
          have : σ.pos c' ≠ (σ.slot s).gen := by
            -- where is c'?
            cases hpc' : σ.pc c' with
            | idle => exact absurd (hi.b.idl c' hpc') hne
            | ready s' => exact absurd (hi.b.rdy c' s' hpc').2 hne
            | waiting s' => exact absurd (hi.b.wtg c' s' hpc').2 hne
            | done r =>
              have := (hi.b.dne c' r hpc').2.2
              have := ndeliv_le' hi
              omega
            | filled s' =>
              exact pos_ne hi hsN hm he c' s' (Or.inl hpc') hgt hlo
            | bcast s' =>
              exact pos_ne hi hsN hm he c' s' (Or.inr hpc') hgt hlo
          simp [this]; exact hold
      · exact h
    · exact h
  | arrive => exact h
  | bcast c => simp only [Ring.apply]; split <;> exact h
  | wTry => simp only [Ring.apply]; split <;> exact h
  | wWait => simp only [Ring.apply]; split <;> exact h
  | wWake => simp only [Ring.apply]; split <;> (try split) <;> exact h
  | rBegin => simp only [Ring.apply]; split <;> exact h
  | rDeliver c => simp only [Ring.apply]; split <;> exact h
  | rUnlock => simp only [Ring.apply]; split <;> exact h
  | rSignal w => simp only [Ring.apply]; split <;> (try split) <;> exact h
where
  ndeliv_le' {k : Nat} {σ : State} (hi : Inv k σ) : ndeliv σ ≤ σ.read1 := by
    have := hi.a.r21
    unfold ndeliv; split <;> omega
  pos_ne {k : Nat} {σ : State} (hi : Inv k σ) {s : Nat} (hsN : s < 2 ^ k) (hm : (σ.slot s).mark = 0)
      (he : (!locked σ s) = true) (c' s' : Nat) (hpc : σ.pc c' = .filled s' ∨ σ.pc c' = .bcast s')
      (hgt : σ.read1 < (σ.slot s).gen) (hlo : σ.read2 < (σ.slot s).gen) :
      σ.pos c' ≠ (σ.slot s).gen := by
    obtain ⟨hs', l2⟩ := hi.b.live c' s' hpc
    rcases l2 with l2 | l2
    · obtain ⟨c'', h1, _, _, h4⟩ := hi.b.occ s' hs' l2.1
      rw [l2.2] at h1; injection h1 with h1; subst h1
      rw [h4]
      have hne : s' ≠ s := by intro e; subst e; exact l2.1 hm
      intro e
      have a := hi.a.genmod s' hs'
      have b := hi.a.genmod s hsN
      rw [e] at a; omega
    · have := (hi.b.hold s' c' l2).2.2.1
      omega

theorem InvP.of_reachable {k : Nat} (hk : k ≤ 32) {σ : State} (h : Reachable k σ) : InvP σ := by
  induction h with
  | init => exact InvP.init k
  | step l hr he ih => exact ih.step (Inv.of_reachable hk hr) l he

end Rv.Ring
