/-
Lemmas about the classification of one batch (`classify`, `missKeys` of Rv/Model/MGetCache.lean):
duplicates of an absent key wait on the flight created at its first occurrence. Core Lean only.
-/
import Rv.Lemmas.MGetWalk
namespace Rv.MGetCache
open Rv.MGetCache.Spec

variable {K : Type} [DecidableEq K]

theorem spec_classify (closed : Bool) (own out : K → Res) (st : K → Ent) (seen ks : List K)
    (hseen : ∀ k ∈ seen, st k = .absent)
    (hown : closed = false → ∀ k, st k = .absent → (k ∈ seen ∨ k ∈ ks) → own k = out k) :
    spec (classify closed own st seen ks) ((missKeys closed st seen ks).map out)
      = ks.map (expected closed st out) := by
  induction ks generalizing seen with
  | nil => simp [classify, spec]
  | cons k ks ih =>
    have ih1 := ih seen hseen (fun hc k' ha hm => hown hc k' ha (by rcases hm with h | h <;> simp [h]))
    unfold classify missKeys
    cases closed with
    | true => simp only [if_true, List.map_cons, spec, ih1]; simp [expected]
    | false =>
      simp only [Bool.false_eq_true, if_false]
      by_cases hs : k ∈ seen
      · simp only [hs, if_true, spec, List.map_cons, ih1]
        rw [hown rfl k (hseen k hs) (.inl hs)]
        simp [expected, hseen k hs]
      · simp only [hs, if_false]
        cases hk : st k with
        | cached v => simp [spec, ih1, expected, hk]
        | inflight w => simp [spec, ih1, expected, hk]
        | absent =>
          have ih2 := ih (k :: seen) (by intro k' hk'; simp at hk'; rcases hk' with rfl | h; exact hk; exact hseen _ h)
            (fun hc k' ha hm => hown hc k' ha (by simp at hm; rcases hm with (rfl | h) | h <;> simp_all))
          simp [spec, ih2, expected, hk]

theorem count_classify (closed : Bool) (own : K → Res) (st : K → Ent) (seen ks : List K) :
    ((classify closed own st seen ks).filter Cls.isMiss).length = (missKeys closed st seen ks).length := by
  induction ks generalizing seen with
  | nil => simp [classify, missKeys]
  | cons k ks ih =>
    unfold classify missKeys
    cases closed with
    | true => simp [List.filter_cons, ih]
    | false =>
      simp only [Bool.false_eq_true, if_false]
      by_cases hs : k ∈ seen
      · simp [hs, List.filter_cons, ih]
      · simp only [hs, if_false]
        cases hk : st k <;> simp [List.filter_cons, ih]

theorem mem_missKeys (st : K → Ent) (seen ks : List K) (k : K)
    (ha : st k = .absent) (hm : k ∈ ks) (hs : k ∉ seen) : k ∈ missKeys false st seen ks := by
  induction ks generalizing seen with
  | nil => simp at hm
  | cons k0 ks ih =>
    unfold missKeys
    simp only [Bool.false_eq_true, if_false]
    by_cases h0 : k0 ∈ seen
    · simp only [h0, if_true]
      have : k ≠ k0 := by intro h; subst h; exact hs h0
      exact ih seen (by simpa [this] using hm) hs
    · simp only [h0, if_false]
      by_cases hk : k = k0
      · subst hk; simp [ha]
      · have hm' : k ∈ ks := by simpa [hk] using hm
        cases h : st k0 with
        | absent => simp only []; exact List.mem_cons_of_mem _ (ih (k0 :: seen) hm' (by simp [hk, hs]))
        | cached v => exact ih seen hm' hs
        | inflight w => exact ih seen hm' hs

theorem pending_classify (closed : Bool) (own out : K → Res) (st : K → Ent) (seen ks : List K) (w : Res)
    (hseen : ∀ k ∈ seen, st k = .absent)
    (hown : closed = false → ∀ k, st k = .absent → (k ∈ seen ∨ k ∈ ks) → own k = out k)
    (h : Cls.pending w ∈ classify closed own st seen ks) :
    (∃ k ∈ ks, st k = .inflight w) ∨ (∃ k ∈ ks, st k = .absent ∧ w = out k) := by
  induction ks generalizing seen with
  | nil => simp [classify] at h
  | cons k ks ih =>
    have lift : ((∃ k ∈ ks, st k = .inflight w) ∨ (∃ k ∈ ks, st k = .absent ∧ w = out k)) →
        ((∃ k' ∈ k :: ks, st k' = .inflight w) ∨ (∃ k' ∈ k :: ks, st k' = .absent ∧ w = out k')) := by
      rintro (⟨a, ha, hb⟩ | ⟨a, ha, hb⟩)
      · exact .inl ⟨a, by simp [ha], hb⟩
      · exact .inr ⟨a, by simp [ha], hb⟩
    have ih1 := fun h => lift (ih seen hseen (fun hc k' ha hm => hown hc k' ha (by rcases hm with h | h <;> simp [h])) h)
    unfold classify at h
    cases closed with
    | true =>
      simp only [if_true, List.mem_cons] at h
      rcases h with h | h
      · cases h
      · exact ih1 h
    | false =>
      simp only [Bool.false_eq_true, if_false] at h
      by_cases hs : k ∈ seen
      · simp only [hs, if_true, List.mem_cons] at h
        rcases h with h | h
        · right; refine ⟨k, by simp, hseen k hs, ?_⟩
          rw [← hown rfl k (hseen k hs) (.inl hs)]; simpa using h
        · exact ih1 h
      · simp only [hs, if_false] at h
        cases hk : st k with
        | cached v => rw [hk] at h; simp at h; exact ih1 h
        | inflight w' =>
          rw [hk] at h; simp at h
          rcases h with h | h
          · left; exact ⟨k, by simp, by rw [hk, h]⟩
          · exact ih1 h
        | absent =>
          rw [hk] at h; simp at h
          exact lift (ih (k :: seen) (by intro k' hk'; simp at hk'; rcases hk' with rfl | h'; exact hk; exact hseen _ h')
            (fun hc k' ha hm => hown hc k' ha (by simp at hm; rcases hm with (rfl | h) | h <;> simp_all)) h)

theorem lookup_zip_map {α β} [DecidableEq α] (l : List α) (f : α → β) (k : α) (h : k ∈ l) :
    (l.zip (l.map f)).lookup k = some (f k) := by
  induction l with
  | nil => simp at h
  | cons a l ih =>
    simp only [List.map_cons, List.zip_cons_cons, List.lookup_cons]
    by_cases hk : k = a
    · subst hk; simp
    · have : (k == a) = false := by simpa using hk
      rw [this]; exact ih (by simpa [hk] using h)

theorem missKeys_subset (closed : Bool) (st : K → Ent) (seen ks : List K) :
    ∀ k ∈ missKeys closed st seen ks, k ∈ ks := by
  induction ks generalizing seen with
  | nil => simp [missKeys]
  | cons k0 ks ih =>
    intro k hk
    unfold missKeys at hk
    cases closed with
    | true =>
      simp only [if_true, List.mem_cons] at hk
      rcases hk with rfl | hk
      · simp
      · exact List.mem_cons_of_mem _ (ih _ k hk)
    | false =>
      simp only [Bool.false_eq_true, if_false] at hk
      by_cases hs : k0 ∈ seen
      · simp only [hs, if_true] at hk; exact List.mem_cons_of_mem _ (ih _ k hk)
      · simp only [hs, if_false] at hk
        cases h0 : st k0 with
        | absent =>
          rw [h0] at hk; simp only [List.mem_cons] at hk
          rcases hk with rfl | hk
          · simp
          · exact List.mem_cons_of_mem _ (ih _ k hk)
        | cached v => rw [h0] at hk; exact List.mem_cons_of_mem _ (ih _ k hk)
        | inflight w => rw [h0] at hk; exact List.mem_cons_of_mem _ (ih _ k hk)


end Rv.MGetCache
