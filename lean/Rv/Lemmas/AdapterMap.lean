/-
Association-list lemmas for the adapter model: `put`/`del` seen through `get`.
-/
import Rv.Model.Adapter
namespace Rv.Adapter

variable {α β : Type} [DecidableEq α]

theorem get_put (m : List (α × β)) (k k' : α) (v : β) :
    get (put m k v) k' = if k' = k then some v else get m k' := by
  induction m with
  | nil =>
    simp only [put, get]
    by_cases h : k' = k
    · simp [h]
    · have : ¬ k = k' := fun hh => h hh.symm
      simp [h, this]
  | cons a m ih =>
    obtain ⟨ak, av⟩ := a
    simp only [put]
    by_cases h1 : ak = k
    · subst h1; simp only [if_true, get]
      by_cases h : k' = ak
      · subst h; simp
      · have : ¬ ak = k' := fun hh => h hh.symm
        simp [h, this]
    · simp only [h1, if_false, get]
      by_cases h2 : ak = k'
      · subst h2; simp [h1]
      · simp only [h2, if_false]; exact ih

theorem get_del (m : List (α × β)) (k k' : α) :
    get (del m k) k' = if k' = k then none else get m k' := by
  induction m with
  | nil => simp [del, get]
  | cons a m ih =>
    obtain ⟨ak, av⟩ := a
    unfold del at ih ⊢
    simp only [List.filter_cons]
    by_cases h1 : ak = k
    · subst h1
      simp only [ne_eq, not_true_eq_false, decide_false, Bool.false_eq_true, if_false]
      rw [ih]
      by_cases h : k' = ak
      · simp [h]
      · have : ¬ ak = k' := fun hh => h hh.symm
        simp [h, get, this]
    · simp only [ne_eq, h1, not_false_eq_true, decide_true, if_true, get]
      by_cases h2 : ak = k'
      · subst h2; simp [h1]
      · simp only [h2, if_false]; exact ih

theorem get_foldl_del (ks : List α) (m : List (α × β)) (k' : α) :
    get (ks.foldl del m) k' = if k' ∈ ks then none else get m k' := by
  induction ks generalizing m with
  | nil => simp
  | cons k rest ih =>
    simp only [List.foldl_cons]
    rw [ih, get_del]
    by_cases h1 : k' ∈ rest
    · simp [h1]
    · by_cases h2 : k' = k
      · simp [h2]
      · simp [h1, h2]

theorem mem_keys_of_get (m : List (α × β)) (k : α) (v : β) (h : get m k = some v) : k ∈ m.map (·.1) := by
  induction m with
  | nil => simp [get] at h
  | cons a m ih =>
    obtain ⟨ak, av⟩ := a
    simp only [get] at h
    by_cases hk : ak = k
    · subst hk; simp
    · simp only [hk, if_false] at h
      exact List.mem_cons_of_mem _ (ih h)

end Rv.Adapter
