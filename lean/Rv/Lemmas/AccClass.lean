/-
Lemmas for C15 (classifiers): the address normalisation equals its specification,
`strings.Split` on texts of the documented form, and the documented-form theorem.
-/
import Rv.Lemmas.AccPanic
import Rv.Spec.Shapes
namespace Rv.Acc
open Rv.Shapes

theorem indexByte_none_iff (c : UInt8) : ∀ s : Bytes, indexByte c s = none ↔ c ∉ s
  | [] => by simp [indexByte]
  | x :: r => by
    unfold indexByte
    by_cases h : x = c
    · simp [h]
    · have h' : ¬ c = x := fun e => h e.symm
      simp [h, h', indexByte_none_iff c r]

theorem fixIPv6_eq_normAddr (a : Bytes) : fixIPv6HostPort a = .ok (normAddr a) := by
  cases a with
  | nil => simp [fixIPv6HostPort, normAddr]
  | cons x r =>
    have hi : idx (x :: r) 0 = .ok x := rfl
    by_cases h46 : (46 : UInt8) ∈ x :: r
    · have h1 : indexByte 46 (x :: r) ≠ none := fun e => (indexByte_none_iff _ _).mp e h46
      have h2 : (indexByte 46 (x :: r)).isNone = false := by
        cases h : indexByte 46 (x :: r) <;> simp_all
      have h3 : (x :: r).contains 46 = true := by simpa using h46
      unfold fixIPv6HostPort normAddr
      simp only [h2, h3]; simp
    · have h1 : indexByte 46 (x :: r) = none := (indexByte_none_iff _ _).mpr h46
      have h3 : ((x :: r).contains 46 = true) = False := by simpa using h46
      unfold fixIPv6HostPort normAddr
      simp only [h1, hi, h3]
      by_cases hx : x = 91
      · simp [hx]
      · cases hl : lastIndexByte 58 (x :: r) with
        | none => simp [hx]
        | some i =>
          have hlt := lastIndexByte_lt _ _ _ hl
          have hc : cut (x :: r) i = .ok ((x :: r).take i, (x :: r).drop (i + 1)) := by
            unfold cut; simp at hlt ⊢; omega
          have hj : ∀ h : Bytes, (indexByte 58 h).isSome = decide (58 ∈ h) := by
            intro h
            by_cases hm : (58 : UInt8) ∈ h
            · have : indexByte 58 h ≠ none := fun e => (indexByte_none_iff _ _).mp e hm
              cases hh : indexByte 58 h <;> simp_all
            · simp [(indexByte_none_iff _ _).mpr hm, hm]
          simp [hx, hc, joinHostPort, hj]

theorem splitOn_nosep (sep : UInt8) : ∀ a : Bytes, sep ∉ a → splitOn sep a = [a]
  | [], _ => rfl
  | c :: r, h => by
    have hc : c ≠ sep := fun e => h (by simp [e])
    have := splitOn_nosep sep r (fun e => h (by simp [e]))
    simp [splitOn, hc, this]

theorem splitOn_append (sep : UInt8) : ∀ (a b : Bytes), sep ∉ a → splitOn sep (a ++ sep :: b) = a :: splitOn sep b
  | [], b, _ => by simp [splitOn]
  | c :: r, b, h => by
    have hc : c ≠ sep := fun e => h (by simp [e])
    have := splitOn_append sep r b (fun e => h (by simp [e]))
    simp [splitOn, hc, this]

theorem hasPrefix_append (p r : Bytes) : hasPrefix p (p ++ r) = true := by
  simp [hasPrefix]


theorem redirectAddr_documented (word : Bytes) (hw : 32 ∉ word) (addr : Bytes) (ha : 32 ∉ addr) :
    redirectAddr word 1 (redirectText word none addr) = .ok (normAddr addr, true) := by
  have hsplit : splitOn 32 (word ++ 32 :: addr) = [word, addr] := by
    rw [splitOn_append 32 word addr hw, splitOn_nosep 32 addr ha]
  have hp : hasPrefix word (word ++ 32 :: addr) = true := hasPrefix_append _ _
  simp only [redirectAddr, redirectText, List.append_assoc, List.singleton_append, List.cons_append, List.nil_append]
  rw [hp, hsplit]
  simp [idx, fixIPv6_eq_normAddr]

theorem redirectAddr_documented_slot (word : Bytes) (hw : 32 ∉ word) (slot : Bytes) (hs : 32 ∉ slot)
    (addr : Bytes) (ha : 32 ∉ addr) :
    redirectAddr word 2 (redirectText word (some slot) addr) = .ok (normAddr addr, true) := by
  have hsplit : splitOn 32 (word ++ 32 :: (slot ++ 32 :: addr)) = [word, slot, addr] := by
    rw [splitOn_append 32 word _ hw, splitOn_append 32 slot addr hs, splitOn_nosep 32 addr ha]
  have hp : hasPrefix word (word ++ 32 :: (slot ++ 32 :: addr)) = true := hasPrefix_append _ _
  simp only [redirectAddr, redirectText, List.append_assoc, List.singleton_append, List.cons_append, List.nil_append]
  rw [hp, hsplit]
  simp [idx, fixIPv6_eq_normAddr]

end Rv.Acc
