/-
Refinement of the specification map (`Rv.Spec.Cache`) by the LRU model: the relation
`R`, the specification's view of one model step (`specStep`, it observes only which
lookups were answered "send"), and preservation of `R` by every operation.
-/
import Rv.Lemmas.LruCases
import Rv.Spec.Cache
namespace Rv.Lru
open Rv.Spec.Cache (Spec)

/-- refinement relation between the LRU model and the specification map -/
structure R (s : State) (sp : Spec) : Prop where
  vals : ∀ e ∈ s.list, e.pend = false → sp.vals (e.key, e.cmd) = some (e.val, e.exp)
  out : ∀ e ∈ s.list, e.pend = true → sp.out (e.key, e.cmd) = some e.exp
  noout : ∀ e ∈ s.list, e.pend = false → sp.out (e.key, e.cmd) = none
  closed : sp.closed = s.closed

/-- the specification's view of one LRU step: only `send` answers are observed -/
def sendStep (now : Int) (multi : List (Bytes × Bytes × Int)) (sp : Spec) (i : Nat) : Spec :=
  match multi[i]? with
  | some (k, c, ttl) => Spec.Cache.sent sp (k, c) (pack (unixMilli (now + ttl)))
  | none => sp

def specSends (sp : Spec) (now : Int) (multi : List (Bytes × Bytes × Int)) (missed : List Nat) : Spec :=
  missed.foldl (sendStep now multi) sp

def specStep (sp : Spec) : Op → Res → Spec
  | .flight k c ttl now, .fl .send => Spec.Cache.sent sp (k, c) (pack (unixMilli (now + ttl)))
  | .flights now multi, .fls _ missed => specSends sp now multi missed
  | .update k c v _ raw, _ => Spec.Cache.update sp (k, c) v (pack raw)
  | .cancel k c _, _ => Spec.Cache.cancel sp (k, c)
  | .delete (some keys), _ => Spec.Cache.delete sp keys
  | .delete none, _ => Spec.Cache.flush sp
  | .close _, _ => Spec.Cache.close sp
  | _, _ => sp

def runBoth (s : State) (sp : Spec) : List Op → State × Spec
  | [] => (s, sp)
  | op :: rest => let r := step s op; runBoth r.1 (specStep sp op r.2) rest

theorem R_init (mx base : Int) : R (Lru.init mx base) Spec.Cache.empty :=
  ⟨by simp [Lru.init], by simp [Lru.init], by simp [Lru.init], rfl⟩

theorem chooseExp_eq (c s : Int) : chooseExp c s = Spec.Cache.expiry c s := by
  unfold chooseExp Spec.Cache.expiry
  split <;> split <;> (try split) <;> omega

theorem sent_open {sp : Spec} (h : sp.closed = false) (kc : Spec.Cache.KC) (e : Int) :
    Spec.Cache.sent sp kc e = { sp with out := fun x => if x = kc then some e else sp.out x } := by
  simp [Spec.Cache.sent, h]

/-- one single-flight lookup keeps the relation, the spec observing only a `send` -/
theorem R_outcome {s s' : State} {sp : Spec} {k c : Bytes} {ttl now : Int} {r : FRes}
    (h : R s sp) (hi : Inv s) (o : Outcome4 s k c ttl now s' r) :
    R s' (if r = .send then Spec.Cache.sent sp (k, c) (pack (unixMilli (now + ttl))) else sp) := by
  cases o with
  | closed hc hs hr =>
    subst hs; subst hr
    simp only [if_true, Spec.Cache.sent, h.closed, hc]
    exact h
  | found e hc hf hv hr hl hsz hn fr =>
    have hmem : ∀ x, x ∈ s'.list ↔ x ∈ s.list := by
      intro x
      rcases hl with hl | hl
      · rw [hl]
      · rw [hl]; simp only [moveToBack, List.mem_append, List.mem_singleton]
        have he := (find?_some hf).1
        constructor
        · rintro (hx | hx)
          · exact List.mem_of_mem_erase hx
          · exact hx ▸ he
        · intro hx
          by_cases hxe : x = e
          · exact Or.inr hxe
          · exact Or.inl ((List.mem_erase_of_ne hxe).2 hx)
    have hsp : (if r = FRes.send then Spec.Cache.sent sp (k, c) (pack (unixMilli (now + ttl))) else sp) =
        (if r = FRes.send then Spec.Cache.sent sp (k, c) (pack (unixMilli (now + ttl))) else sp) := rfl
    by_cases hrs : r = .send
    · -- resOf e = send is impossible
      rw [hr] at hrs; unfold resOf at hrs; split at hrs <;> cases hrs
    · simp only [hrs, if_false]
      exact ⟨fun x hx => h.vals x ((hmem x).1 hx), fun x hx => h.out x ((hmem x).1 hx),
        fun x hx => h.noout x ((hmem x).1 hx), by rw [fr.1]; exact h.closed⟩
  | expired e hc hf hv hr hl hsz hn fr =>
    subst hr
    have hf' := find?_some hf
    have hspc : sp.closed = false := by rw [h.closed]; exact hc
    rw [if_pos rfl, sent_open hspc]
    have hmem : ∀ x ∈ s'.list, x = newEntry s k c ttl now ∨ (x ∈ s.list ∧ (x.key, x.cmd) ≠ (k, c)) := by
      intro x hx
      rw [hl] at hx
      rcases List.mem_append.1 hx with hx | hx
      · right
        refine ⟨List.mem_of_mem_erase hx, ?_⟩
        intro heq
        have := mem_erase_not_sameKC hi.nodup hf'.1 hx
        apply this
        simp only [Prod.mk.injEq] at heq
        exact ⟨heq.1.trans hf'.2.1.symm, heq.2.trans hf'.2.2.symm⟩
      · left; simpa using hx
    refine ⟨?_, ?_, ?_, by rw [fr.1]; exact h.closed⟩
    · intro x hx hp
      rcases hmem x hx with rfl | ⟨hxl, hne⟩
      · simp [newEntry] at hp
      · exact h.vals x hxl hp
    · intro x hx hp
      rcases hmem x hx with rfl | ⟨hxl, hne⟩
      · simp [newEntry]
      · simp only [hne, if_false]; exact h.out x hxl hp
    · intro x hx hp
      rcases hmem x hx with rfl | ⟨hxl, hne⟩
      · simp [newEntry] at hp
      · simp only [hne, if_false]; exact h.noout x hxl hp
  | absent hc hf hr hl hsz hn fr =>
    subst hr
    have hspc : sp.closed = false := by rw [h.closed]; exact hc
    rw [if_pos rfl, sent_open hspc]
    have hmem : ∀ x ∈ s'.list, x = newEntry s k c ttl now ∨ (x ∈ s.list ∧ (x.key, x.cmd) ≠ (k, c)) := by
      intro x hx
      rw [hl] at hx
      rcases List.mem_append.1 hx with hx | hx
      · right
        refine ⟨hx, ?_⟩
        intro heq
        simp only [Prod.mk.injEq] at heq
        exact find?_none hf x hx heq
      · left; simpa using hx
    refine ⟨?_, ?_, ?_, by rw [fr.1]; exact h.closed⟩
    · intro x hx hp
      rcases hmem x hx with rfl | ⟨hxl, hne⟩
      · simp [newEntry] at hp
      · exact h.vals x hxl hp
    · intro x hx hp
      rcases hmem x hx with rfl | ⟨hxl, hne⟩
      · simp [newEntry]
      · simp only [hne, if_false]; exact h.out x hxl hp
    · intro x hx hp
      rcases hmem x hx with rfl | ⟨hxl, hne⟩
      · simp [newEntry] at hp
      · simp only [hne, if_false]; exact h.noout x hxl hp

/-- a hit is the specification's current value -/
theorem hit_of_outcome {s s' : State} {sp : Spec} {k c : Bytes} {ttl now : Int} {r : FRes}
    (h : R s sp) (o : Outcome4 s k c ttl now s' r) {v : Nat} {exp : Int} (hr : r = .hit v exp) :
    Spec.Cache.lookup sp (k, c) (unixMilli now) = some (v, exp) := by
  cases o with
  | closed hc hs hr' => rw [hr'] at hr; cases hr
  | expired e hc hf hv hr' hl hsz hn fr => rw [hr'] at hr; cases hr
  | absent hc hf hr' hl hsz hn fr => rw [hr'] at hr; cases hr
  | found e hc hf hv hr' hl hsz hn fr =>
    have hf' := find?_some hf
    rw [hr'] at hr
    unfold resOf at hr
    split at hr
    · cases hr
    · rename_i hp
      have hp : e.pend = false := by simpa using hp
      cases hr
      have := h.vals e hf'.1 hp
      rw [hf'.2.1, hf'.2.2] at this
      simp [valid, hp, relativePTTL] at hv
      simp only [Spec.Cache.lookup, this]
      rw [if_pos (by omega)]


theorem R_sub {s s' : State} {sp : Spec} (h : R s sp) (hl : ∀ x ∈ s'.list, x ∈ s.list) (hc : s'.closed = s.closed) :
    R s' sp :=
  ⟨fun x hx => h.vals x (hl x hx), fun x hx => h.out x (hl x hx), fun x hx => h.noout x (hl x hx), by rw [hc]; exact h.closed⟩

theorem R_update {s : State} {sp : Spec} (h : R s sp) (hi : Inv s) (k c : Bytes) (v : Nat) (vsz raw : Int) :
    R (update s k c v vsz raw).1 (Spec.Cache.update sp (k, c) v (pack raw)) := by
  have o := update_cases s k c v vsz raw
  generalize (update s k c v vsz raw).1 = s' at o
  generalize (update s k c v vsz raw).2 = p at o
  cases o with
  | closed hc hs hp =>
    subst hs
    have : sp.closed = true := by rw [h.closed]; exact hc
    simp only [Spec.Cache.update, this, if_true]; exact h
  | absent hc hf hs hp =>
    subst hs
    have hspc : sp.closed = false := by rw [h.closed]; exact hc
    have hne : ∀ x ∈ s'.list, (x.key, x.cmd) ≠ (k, c) := by
      intro x hx heq; simp only [Prod.mk.injEq] at heq; exact find?_none hf x hx heq
    unfold Spec.Cache.update
    rw [if_neg (by simp [hspc])]
    split
    · refine ⟨?_, ?_, ?_, h.closed⟩
      · intro x hx hp; simp only [hne x hx, if_false]; exact h.vals x hx hp
      · intro x hx hp; simp only [hne x hx, if_false]; exact h.out x hx hp
      · intro x hx hp; simp only [hne x hx, if_false]; exact h.noout x hx hp
    · exact h
  | fill e hc hf hpend hp hl hsz hd hcl hmx hn =>
    have hf' := find?_some hf
    have hspc : sp.closed = false := by rw [h.closed]; exact hc
    have hout := h.out e hf'.1 hpend
    rw [hf'.2.1, hf'.2.2] at hout
    unfold Spec.Cache.update
    rw [if_neg (by simp [hspc])]
    simp only [hout]
    have hmem : ∀ x ∈ s'.list, (x ∈ s.list ∧ (x.key, x.cmd) ≠ (k, c)) ∨ x = updEntry s e k c v vsz raw := by
      intro x hx
      rw [hl] at hx
      have hx := (evict_sublist _ _ _).subset hx
      rcases mem_replace hi.nodup.nodup hx with hx | hx
      · left; refine ⟨hx.1, ?_⟩
        intro heq; simp only [Prod.mk.injEq] at heq
        exact hx.2 (hi.nodup.eq_of_sameKC hx.1 hf'.1 ⟨heq.1.trans hf'.2.1.symm, heq.2.trans hf'.2.2.symm⟩)
      · right; exact hx.2
    refine ⟨?_, ?_, ?_, by rw [hcl]; exact hspc⟩
    · intro x hx hpx
      rcases hmem x hx with ⟨hxl, hne⟩ | rfl
      · simp only [hne, if_false]; exact h.vals x hxl hpx
      · simp only [updEntry, hf'.2.1, hf'.2.2, if_true, chooseExp_eq]
    · intro x hx hpx
      rcases hmem x hx with ⟨hxl, hne⟩ | rfl
      · simp only [hne, if_false]; exact h.out x hxl hpx
      · simp [updEntry] at hpx
    · intro x hx hpx
      rcases hmem x hx with ⟨hxl, hne⟩ | rfl
      · simp only [hne, if_false]; exact h.noout x hxl hpx
      · simp only [updEntry, hf'.2.1, hf'.2.2, if_true]
  | stale e hc hf hpend hp hl hsz hd hcl hmx hn =>
    have hf' := find?_some hf
    have hspc : sp.closed = false := by rw [h.closed]; exact hc
    have hno := h.noout e hf'.1 hpend
    rw [hf'.2.1, hf'.2.2] at hno
    unfold Spec.Cache.update
    rw [if_neg (by simp [hspc])]
    simp only [hno]
    exact R_sub h (fun x hx => by rw [hl] at hx; exact (evict_sublist _ _ _).subset hx) (by rw [hcl, hc])

theorem R_cancel {s : State} {sp : Spec} (h : R s sp) (hi : Inv s) (k c : Bytes) (err : Nat) :
    R (cancel s k c err) (Spec.Cache.cancel sp (k, c)) := by
  unfold cancel
  split
  · rename_i hc
    have : sp.closed = true := by rw [h.closed]; exact hc
    simp only [Spec.Cache.cancel, this, if_true]; exact h
  · rename_i hc
    have hc : s.closed = false := by simpa using hc
    have hspc : sp.closed = false := by rw [h.closed]; exact hc
    unfold Spec.Cache.cancel
    rw [if_neg (by simp [hspc])]
    split
    · rename_i hf
      have hne : ∀ x ∈ s.list, (x.key, x.cmd) ≠ (k, c) := by
        intro x hx heq; simp only [Prod.mk.injEq] at heq; exact find?_none hf x hx heq
      exact ⟨fun x hx hp => h.vals x hx hp, fun x hx hp => by simp only [hne x hx, if_false]; exact h.out x hx hp,
        fun x hx hp => by simp only [hne x hx, if_false]; exact h.noout x hx hp, h.closed⟩
    · rename_i e hf
      have hf' := find?_some hf
      split
      · have hmem : ∀ x ∈ (gcHits { s with list := s.list.erase e, done := s.done ++ [(e.id, Outcome.err err)] }).list,
            x ∈ s.list ∧ (x.key, x.cmd) ≠ (k, c) := by
          intro x hx
          have hx : x ∈ s.list.erase e := hx
          refine ⟨List.mem_of_mem_erase hx, ?_⟩
          intro heq; simp only [Prod.mk.injEq] at heq
          exact mem_erase_not_sameKC hi.nodup hf'.1 hx ⟨heq.1.trans hf'.2.1.symm, heq.2.trans hf'.2.2.symm⟩
        exact ⟨fun x hx hp => h.vals x (hmem x hx).1 hp,
          fun x hx hp => by simp only [(hmem x hx).2, if_false]; exact h.out x (hmem x hx).1 hp,
          fun x hx hp => by simp only [(hmem x hx).2, if_false]; exact h.noout x (hmem x hx).1 hp, h.closed⟩
      · rename_i hp
        have hp : e.pend = false := by simpa using hp
        refine ⟨fun x hx hp => h.vals x hx hp, ?_, ?_, h.closed⟩
        · intro x hx hpx
          have hne : (x.key, x.cmd) ≠ (k, c) := by
            intro heq; simp only [Prod.mk.injEq] at heq
            have := hi.nodup.eq_of_sameKC hx hf'.1 ⟨heq.1.trans hf'.2.1.symm, heq.2.trans hf'.2.2.symm⟩
            subst this; simp [hp] at hpx
          simp only [hne, if_false]; exact h.out x hx hpx
        · intro x hx hpx
          by_cases heq : (x.key, x.cmd) = (k, c)
          · simp only [heq, if_true]
          · simp only [heq, if_false]; exact h.noout x hx hpx

theorem mem_purge {s : State} {k : Bytes} {x : Entry} (hx : x ∈ (purge s k).list) :
    x ∈ s.list ∧ (x.pend = false → x.key ≠ k) := by
  have hx : x ∈ s.list.filter (fun e => !(e.key == k && !e.pend)) := hx
  rw [List.mem_filter] at hx
  refine ⟨hx.1, ?_⟩
  intro hp hk
  simp [hp, hk] at hx

theorem purge_closed (s : State) (k : Bytes) : (purge s k).closed = s.closed := rfl

theorem mem_foldl_purge (keys : List Bytes) {s : State} {x : Entry} (hx : x ∈ (keys.foldl purge s).list) :
    x ∈ s.list ∧ (x.pend = false → x.key ∉ keys) := by
  induction keys generalizing s with
  | nil => exact ⟨hx, fun _ h => by cases h⟩
  | cons k rest ih =>
    have := ih hx
    have h1 := mem_purge this.1
    refine ⟨h1.1, ?_⟩
    intro hp hk
    rcases List.mem_cons.1 hk with h | h
    · exact h1.2 hp h
    · exact this.2 hp h

theorem foldl_purge_closed (keys : List Bytes) (s : State) : (keys.foldl purge s).closed = s.closed := by
  induction keys generalizing s with
  | nil => rfl
  | cons k rest ih => exact (ih _).trans (purge_closed s k)

theorem R_delete {s : State} {sp : Spec} (h : R s sp) (keys : Option (List Bytes)) :
    R (delete s keys) (match keys with | some ks => Spec.Cache.delete sp ks | none => Spec.Cache.flush sp) := by
  cases keys with
  | some ks =>
    simp only [delete]
    refine ⟨?_, ?_, ?_, by rw [foldl_purge_closed]; exact h.closed⟩
    · intro x hx hp
      have := mem_foldl_purge ks hx
      simp only [Spec.Cache.delete, this.2 hp, if_false]
      exact h.vals x this.1 hp
    · intro x hx hp; exact h.out x (mem_foldl_purge ks hx).1 hp
    · intro x hx hp; exact h.noout x (mem_foldl_purge ks hx).1 hp
  | none =>
    simp only [delete]
    refine ⟨?_, ?_, ?_, by rw [foldl_purge_closed]; exact h.closed⟩
    · intro x hx hp
      have := mem_foldl_purge _ hx
      exact absurd (List.mem_map.2 ⟨x, this.1, rfl⟩) (this.2 hp)
    · intro x hx hp; exact h.out x (mem_foldl_purge _ hx).1 hp
    · intro x hx hp; exact h.noout x (mem_foldl_purge _ hx).1 hp

theorem R_close (s : State) (sp : Spec) (err : Nat) : R (close s err) (Spec.Cache.close sp) :=
  ⟨by simp [close], by simp [close], by simp [close], rfl⟩


theorem specSends_append (sp : Spec) (now : Int) (multi : List (Bytes × Bytes × Int)) (out : List Nat) (i : Nat) :
    specSends sp now multi (out ++ [i]) = sendStep now multi (specSends sp now multi out) i := by
  simp [specSends, List.foldl_append]

theorem specSends_closed (sp : Spec) (hc : sp.closed = true) (now : Int) (multi : List (Bytes × Bytes × Int))
    (out : List Nat) : specSends sp now multi out = sp := by
  induction out with
  | nil => rfl
  | cons i rest ih =>
    simp only [specSends, List.foldl_cons] at ih ⊢
    have : sendStep now multi sp i = sp := by
      unfold sendStep
      split
      · simp [Spec.Cache.sent, hc]
      · rfl
    rw [this]; exact ih

theorem R_flights2 (multi : List (Bytes × Bytes × Int)) (now : Int) (ms : List Nat) {s : State} {sp0 : Spec}
    (res : List (Option FRes)) (out : List Nat) (hi : Inv s) (h : R s (specSends sp0 now multi out)) :
    R (flights2 multi now ms s res out).1 (specSends sp0 now multi (flights2 multi now ms s res out).2.2) := by
  induction ms generalizing s res out with
  | nil => exact h
  | cons i rest ih =>
    simp only [flights2]
    split
    · exact ih _ _ hi h
    · rename_i k c ttl hm
      have o := locked_cases s k c ttl now
      have h' := R_outcome h hi o
      have hi' := inv_locked hi k c ttl now
      by_cases hr : (locked s k c ttl now).2 = .send
      · simp only [hr, if_true] at h' ⊢
        refine ih _ _ hi' ?_
        rw [specSends_append, sendStep, hm]
        exact h'
      · simp only [hr, if_false] at h' ⊢
        exact ih _ _ hi' h'

theorem mem_foldl_moveToBack (mv : List Entry) (l : List Entry) (hm : ∀ e ∈ mv, e ∈ l) (x : Entry) :
    x ∈ mv.foldl moveToBack l ↔ x ∈ l := by
  induction mv generalizing l with
  | nil => rfl
  | cons e rest ih =>
    have hstep : ∀ y, y ∈ moveToBack l e ↔ y ∈ l := by
      intro y
      simp only [moveToBack, List.mem_append, List.mem_singleton]
      have he := hm e List.mem_cons_self
      constructor
      · rintro (hy | hy)
        · exact List.mem_of_mem_erase hy
        · exact hy ▸ he
      · intro hy
        by_cases hye : y = e
        · exact Or.inr hye
        · exact Or.inl ((List.mem_erase_of_ne hye).2 hy)
    simp only [List.foldl_cons]
    rw [ih (moveToBack l e) (fun y hy => (hstep y).2 (hm y (List.mem_cons_of_mem _ hy)))]
    exact hstep x

theorem R_flights {s : State} {sp : Spec} (h : R s sp) (hi : Inv s) (now : Int) (multi : List (Bytes × Bytes × Int)) :
    R (flights s now multi).1 (specSends sp now multi (flights s now multi).2.2) := by
  have hinv := inv_flights hi now multi
  unfold flights at hinv ⊢
  have h1 := flights1_list (unixMilli now) multi 0 { s := s, res := [], moves := [], missed := [] }
  generalize flights1 (unixMilli now) multi 0 { s := s, res := [], moves := [], missed := [] } = a at h1 hinv
  simp only at h1
  have hmv : ∀ e ∈ a.moves, e ∈ a.s.list := by
    intro e he
    rcases h1.2.2.2 e he with h | h
    · simp at h
    · rw [h1.1]; exact h
  have ha : Inv a.s := inv_congr hi h1.1 h1.2.1 h1.2.2.1
  have hm : Inv { a.s with list := a.moves.foldl moveToBack a.s.list } := inv_moves ha a.moves hmv
  have hR : R { a.s with list := a.moves.foldl moveToBack a.s.list } sp :=
    R_sub h (fun x hx => by
      have : x ∈ a.moves.foldl moveToBack a.s.list := hx
      rw [mem_foldl_moveToBack _ _ hmv, h1.1] at this; exact this) h1.2.2.1
  simp only
  split
  · exact hR
  · split
    · rename_i hc
      have hc : a.s.closed = true := hc
      rw [specSends_closed]
      · exact hR
      · rw [h.closed, ← h1.2.2.1]; exact hc
    · exact R_flights2 multi now a.missed a.res [] hm hR

theorem R_step {s : State} {sp : Spec} (h : R s sp) (hi : Inv s) (op : Op) :
    R (step s op).1 (specStep sp op (step s op).2) := by
  cases op with
  | flight k c ttl now =>
    have o := flight_cases s k c ttl now
    have := R_outcome h hi o
    simp only [step]
    generalize (flight s k c ttl now).2 = r at this
    cases r with
    | hit v e => simpa [specStep] using this
    | wait i => simpa [specStep] using this
    | send => simpa [specStep] using this
  | flights now multi => exact R_flights h hi now multi
  | update k c v vsz raw => exact R_update h hi k c v vsz raw
  | cancel k c err => exact R_cancel h hi k c err
  | delete keys =>
    have := R_delete h keys
    cases keys <;> exact this
  | close err => exact R_close s sp err
  | sethits k n => exact R_sub h (fun x hx => hx) rfl

theorem R_runBoth {s : State} {sp : Spec} (h : R s sp) (hi : Inv s) (ops : List Op) :
    R (runBoth s sp ops).1 (runBoth s sp ops).2 ∧ Inv (runBoth s sp ops).1 := by
  induction ops generalizing s sp with
  | nil => exact ⟨h, hi⟩
  | cons op rest ih => exact ih (R_step h hi op) (inv_step hi op)

theorem runBoth_fst (s : State) (sp : Spec) (ops : List Op) : (runBoth s sp ops).1 = run s ops := by
  induction ops generalizing s sp with
  | nil => rfl
  | cons op rest ih => exact ih _ _

end Rv.Lru
