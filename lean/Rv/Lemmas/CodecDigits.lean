/-
Helper lemmas for C14: the most-significant-first digit loop of `writeN`
(started at the exact leading power of ten) renders the same decimal digits as
the least-significant-first specification `Rv.Spec.digits`.
-/
import Rv.Model.WriteCmd
import Rv.Lemmas.RespBasics
namespace Rv.CodecL
open Rv Rv.Spec Rv.WriteCmd

/-- `k` decimal digits of `n`, most significant first (the low `k` digits) -/
def pad : Nat → Nat → List UInt8
  | 0, _ => []
  | k + 1, n => pad k (n / 10) ++ [UInt8.ofNat (48 + n % 10)]

theorem pad_msd (k n : Nat) :
    pad (k + 1) n = UInt8.ofNat (48 + (n / 10 ^ k) % 10) :: pad k (n % 10 ^ k) := by
  induction k generalizing n with
  | zero => simp [pad]
  | succ k ih =>
    rw [pad, ih (n / 10)]
    rw [show pad (k + 1) (n % 10 ^ (k + 1)) = pad k (n % 10 ^ (k + 1) / 10) ++ [UInt8.ofNat (48 + n % 10 ^ (k + 1) % 10)] from rfl]
    have h1 : n / 10 / 10 ^ k = n / 10 ^ (k + 1) := by
      rw [Nat.div_div_eq_div_mul, Nat.pow_succ, Nat.mul_comm]
    have h2 : n % 10 ^ (k + 1) / 10 = n / 10 % 10 ^ k := by
      rw [Nat.pow_succ, Nat.mul_comm, Nat.mod_mul_right_div_self]
    have h3 : n % 10 ^ (k + 1) % 10 = n % 10 := by
      rw [Nat.pow_succ, Nat.mul_comm]; exact Nat.mod_mul_right_mod n 10 (10 ^ k)
    rw [h1, h2, h3]; simp

theorem loop_zero (n : Nat) : loop 0 n = [] := by rw [loop]; simp

theorem loop_pow (k : Nat) : ∀ n, n < 10 ^ (k + 1) → loop (10 ^ k) n = pad (k + 1) n := by
  induction k with
  | zero =>
    intro n h
    have h' : n < 10 := by simpa using h
    rw [loop]; simp [loop_zero, pad, Nat.mod_eq_of_lt h']
  | succ k ih =>
    intro n h
    have hp : 10 ^ (k + 1) > 0 := Nat.pow_pos (by decide)
    rw [loop, dif_pos hp, pad_msd (k + 1) n]
    have hd : 10 ^ (k + 1) / 10 = 10 ^ k := by rw [Nat.pow_succ]; omega
    have hm : n % 10 ^ (k + 1) < 10 ^ (k + 1) := Nat.mod_lt _ hp
    rw [hd, ih _ hm]
    have hq : n / 10 ^ (k + 1) < 10 := by
      rw [Nat.div_lt_iff_lt_mul hp]; rw [Nat.pow_succ] at h; omega
    rw [Nat.mod_eq_of_lt hq]

theorem digits_pad (k : Nat) : ∀ n, 10 ^ k ≤ n → n < 10 ^ (k + 1) → digits n = pad (k + 1) n := by
  induction k with
  | zero =>
    intro n _ h
    have h' : n < 10 := by simpa using h
    rw [digits]; simp [h', pad, Nat.mod_eq_of_lt h']
  | succ k ih =>
    intro n h1 h2
    have hp : 10 ^ k > 0 := Nat.pow_pos (by decide)
    have hge : ¬ n < 10 := by rw [Nat.pow_succ] at h1; omega
    rw [digits, dif_neg hge, pad]
    have := ih (n / 10) (by rw [Nat.pow_succ] at h1; omega) (by rw [Nat.pow_succ] at h2; omega)
    rw [this]

theorem numDigits_pos (n : Nat) : 0 < numDigits n := by
  rw [numDigits]; split <;> omega

theorem numDigits_bounds (n : Nat) : n < 10 ^ numDigits n ∧ (10 ≤ n → 10 ^ (numDigits n - 1) ≤ n) := by
  induction n using numDigits.induct with
  | case1 n h => rw [numDigits]; simp [h]; omega
  | case2 n h ih =>
    rw [numDigits]; simp only [h, dite_false]
    obtain ⟨ih1, ih2⟩ := ih
    have hp := numDigits_pos (n / 10)
    constructor
    · rw [Nat.pow_succ]; omega
    · intro _
      simp only [Nat.add_sub_cancel]
      by_cases h10 : 10 ≤ n / 10
      · have := ih2 h10
        have e : numDigits (n / 10) = (numDigits (n / 10) - 1) + 1 := by omega
        rw [e, Nat.pow_succ]; omega
      · have : numDigits (n / 10) = 1 := by rw [numDigits]; simp; omega
        rw [this]; omega

theorem numDigits_eq_len (n : Nat) : numDigits n = (digits n).length := by
  induction n using numDigits.induct with
  | case1 n h => rw [numDigits, digits]; simp [h]
  | case2 n h ih => rw [numDigits, digits]; simp [h, ih]

/-- the digit loop started at the exact leading power renders `n` in decimal -/
theorem loop_exact (n : Nat) (h : 10 ≤ n) : loop (exactLead n) n = digits n := by
  obtain ⟨h1, h2⟩ := numDigits_bounds n
  have hp := numDigits_pos n
  unfold exactLead
  have e : numDigits n = (numDigits n - 1) + 1 := by omega
  rw [loop_pow _ n (by rw [← e]; exact h1), digits_pad (numDigits n - 1) n (h2 h) (by rw [← e]; exact h1)]

end Rv.CodecL
