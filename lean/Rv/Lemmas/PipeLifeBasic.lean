/-
Pipe life model (Rv/Model/PipeLife.lean): projections of the primitive updates, and the
invariant over the scalar fields (state, error latch, connection, goroutine program counters).
-/
import Rv.Model.PipeLife
namespace Rv.PipeLife

/-- the scalar part of a state -/
structure Scal where
  state : Nat
  err : Option Why
  connUp : Bool
  td : Td
  writer : Wr
  close : ClosePc

def scal (s : St) : Scal := ⟨s.state, s.err, s.connUp, s.td, s.writer, s.close⟩

/-- `_background` is past `_backgroundRead` -/
def tdPast : Td → Bool
  | .off | .reading => false
  | _ => true

/-- the drain loop has observed `waits == 0` -/
def tdSettled : Td → Bool
  | .loopDone | .finished => true
  | _ => false

@[simp] theorem latch_ne (w : Why) (e : Option Why) : latch w e ≠ none := by cases e <;> simp [latch]
theorem latch_some (w : Why) (e : Option Why) (h : e ≠ none) : latch w e = e := by
  cases e <;> simp_all [latch]

@[simp] theorem scal_setSt (i : Nat) (cs : CS) (s : St) : scal (setSt i cs s) = scal s := rfl
@[simp] theorem scal_deliver (o : Owner) (r : Res) (s : St) : scal (deliver o r s) = scal s := by
  cases o <;> simp only [deliver]
  · split <;> rfl
  · rfl
  · rfl
@[simp] theorem scal_leaveSt (i : Nat) (r : Res) (s : St) : scal (leaveSt i r s) = scal s := rfl

theorem scal_deferDeliver (s : St) : scal (deferDeliver s) = scal s := by
  unfold deferDeliver; split
  · rw [scal_deliver]; rfl
  · rfl

/-- what `background()` does to the scalars -/
def Scal.startBg (v : Scal) : Scal :=
  match v.td with
  | .off => { v with state := bgState v.state, td := .reading, writer := .run false }
  | _ => { v with state := bgState v.state }

theorem scal_startBg (s : St) : scal (startBg s) = (scal s).startBg := by
  unfold startBg Scal.startBg
  cases h : s.td <;> simp [scal, h]

/-- the invariant over the scalars -/
structure InvA (v : Scal) : Prop where
  a1 : 2 ≤ v.state → v.err ≠ none
  a2 : tdPast v.td = true → 2 ≤ v.state ∧ v.connUp = false ∧ v.err ≠ none
  a3 : v.td = .off ↔ v.writer = .off
  a4 : v.state = 1 → v.td ≠ .off
  a5 : v.close = .done → v.connUp = false
  a6 : v.state = 4 ↔ v.td = .finished
  a7 : v.close ≠ .idle → v.err ≠ none
  a8 : (∃ b, v.close = .casDone b) ∨ v.close = .pingWait ∨ v.close = .tail ∨ v.close = .done → 2 ≤ v.state
  a9 : v.writer = .exited → v.connUp = false ∧ v.err ≠ none
  a10 : v.state = 0 ∨ v.state = 1 ∨ v.state = 2 ∨ v.state = 4
  a11 : v.td = .finished → v.writer = .exited
  a12 : v.td ≠ .off → v.state ≠ 0
  a13 : v.td = .off → (v.close = .idle ∨ ∃ w, v.close = .entered w) → v.state = 0

theorem InvA.startBg {v : Scal} (ha : InvA v) : InvA v.startBg := by
  obtain ⟨a1, a2, a3, a4, a5, a6, a7, a8, a9, a10, a11, a12, a13⟩ := ha
  unfold Scal.startBg
  cases htd : v.td <;> constructor <;> simp_all [bgState, tdPast] <;> (try split) <;> (try omega) <;> simp_all

/-- split a step hypothesis `h : <step> = some s'` into its enabled branches -/
macro "crunch" h:ident : tactic =>
  `(tactic| ((repeat' split at $h:ident) <;>
      (first | (cases $h:ident; done) | (injection $h:ident with $h:ident; subst $h:ident))))

macro "finishA" : tactic =>
  `(tactic| (constructor <;>
      simp_all [scal, exitConn, tdPast, casSt, isStopping, scal_startBg, scal_deferDeliver] <;> (try omega)))

theorem A_same {s s' : St} (h : scal s' = scal s) (ha : InvA (scal s)) : InvA (scal s') := h ▸ ha

theorem A_enter {i : Nat} {s s' : St} (h : enter i s = some s') (ha : InvA (scal s)) : InvA (scal s') := by
  unfold enter at h; crunch h <;> exact ha

theorem A_decide {fix : Bool} {i : Nat} {s s' : St} (h : decide fix i s = some s') (ha : InvA (scal s)) :
    InvA (scal s') := by
  unfold decide at h; crunch h
  · exact ha
  · exact ha
  · show InvA (scal (startBg s)); rw [scal_startBg]; exact ha.startBg
  · exact ha
  · exact ha

theorem A_put {i : Nat} {s s' : St} (h : put i s = some s') (ha : InvA (scal s)) : InvA (scal s') := by
  unfold put at h; crunch h; exact ha

theorem A_putFail {i : Nat} {s s' : St} (h : putFail i s = some s') (ha : InvA (scal s)) : InvA (scal s') := by
  unfold putFail at h; crunch h; exact ha

theorem A_syncOk {i : Nat} {s s' : St} (h : syncOk i s = some s') (ha : InvA (scal s)) : InvA (scal s') := by
  unfold syncOk at h; crunch h; exact ha

theorem A_broken {v : Scal} (ha : InvA v) : InvA { v with err := latch .broken v.err, connUp := false } := by
  obtain ⟨a1, a2, a3, a4, a5, a6, a7, a8, a9, a10, a11, a12, a13⟩ := ha
  constructor <;> simp_all

theorem A_syncErr {i : Nat} {s s' : St} (h : syncErr i s = some s') (ha : InvA (scal s)) : InvA (scal s') := by
  unfold syncErr at h; crunch h <;>
    (show InvA (scal (startBg _)); rw [scal_startBg]; exact (A_broken ha).startBg)

theorem A_leave {i : Nat} {s s' : St} (h : leave i s = some s') (ha : InvA (scal s)) : InvA (scal s') := by
  unfold leave at h; crunch h
  · rw [scal_startBg]; exact ha.startBg
  · exact ha

theorem A_abort {i : Nat} {s s' : St} (h : abort i s = some s') (ha : InvA (scal s)) : InvA (scal s') := by
  unfold abort at h; crunch h; exact ha

theorem A_cancel {i : Nat} {s s' : St} (h : cancel i s = some s') (ha : InvA (scal s)) : InvA (scal s') := by
  unfold cancel at h; crunch h; exact ha

theorem A_connBreak {s s' : St} (h : connBreak s = some s') (ha : InvA (scal s)) : InvA (scal s') := by
  obtain ⟨a1, a2, a3, a4, a5, a6, a7, a8, a9, a10, a11, a12, a13⟩ := ha
  unfold connBreak at h; crunch h; finishA

theorem A_exit {v : Scal} (ha : InvA v) (w : Why) :
    InvA { v with err := latch w v.err, state := if v.state = 1 then 2 else v.state, connUp := false } := by
  obtain ⟨a1, a2, a3, a4, a5, a6, a7, a8, a9, a10, a11, a12, a13⟩ := ha
  constructor <;> simp_all <;> (try split) <;> (try omega) <;> simp_all <;> omega

theorem scal_exitConn (w : Why) (s : St) : scal (exitConn w s) =
    { scal s with err := latch w s.err, state := if s.state = 1 then 2 else s.state, connUp := false } := rfl

theorem A_pingFail {s s' : St} (h : pingFail s = some s') (ha : InvA (scal s)) : InvA (scal s') := by
  unfold pingFail at h; crunch h; rw [scal_exitConn]; exact A_exit ha _

theorem A_wTake {s s' : St} (h : wTake s = some s') (ha : InvA (scal s)) : InvA (scal s') := by
  obtain ⟨a1, a2, a3, a4, a5, a6, a7, a8, a9, a10, a11, a12, a13⟩ := ha
  unfold wTake at h; crunch h; finishA

theorem A_wFlush {s s' : St} (h : wFlush s = some s') (ha : InvA (scal s)) : InvA (scal s') := by
  unfold wFlush at h; crunch h
  · obtain ⟨a1, a2, a3, a4, a5, a6, a7, a8, a9, a10, a11, a12, a13⟩ := ha
    finishA
  · have hx := A_exit ha .broken
    obtain ⟨a1, a2, a3, a4, a5, a6, a7, a8, a9, a10, a11, a12, a13⟩ := hx
    constructor <;> simp_all [scal, exitConn]

theorem A_rFetch {s s' : St} (h : rFetch s = some s') (ha : InvA (scal s)) : InvA (scal s') := by
  unfold rFetch at h; crunch h; exact ha

theorem A_rDeliver {s s' : St} (h : rDeliver s = some s') (ha : InvA (scal s)) : InvA (scal s') := by
  unfold rDeliver at h; crunch h; rw [scal_deliver]; exact ha

theorem A_exited {v : Scal} (ha : InvA v) (htd : v.td = .reading) :
    InvA { v with err := latch .broken v.err, state := if v.state = 1 then 2 else v.state, connUp := false,
                  td := .exited } := by
  obtain ⟨a1, a2, a3, a4, a5, a6, a7, a8, a9, a10, a11, a12, a13⟩ := ha
  rcases a10 with h0 | h0 | h0 | h0 <;> constructor <;> simp_all [tdPast]

theorem A_rErr {s s' : St} (h : rErr s = some s') (ha : InvA (scal s)) : InvA (scal s') := by
  unfold rErr at h; crunch h
  have hd : InvA (scal (deferDeliver s)) := by rw [scal_deferDeliver]; exact ha
  have htd : (scal (deferDeliver s)).td = .reading := by rw [scal_deferDeliver]; assumption
  exact A_exited hd htd

theorem A_tdSpawn {s s' : St} (h : tdSpawn s = some s') (ha : InvA (scal s)) : InvA (scal s') := by
  obtain ⟨a1, a2, a3, a4, a5, a6, a7, a8, a9, a10, a11, a12, a13⟩ := ha
  unfold tdSpawn at h; crunch h <;> finishA

theorem A_bgPingPut {s s' : St} (h : bgPingPut s = some s') (ha : InvA (scal s)) : InvA (scal s') := by
  unfold bgPingPut at h; crunch h; exact ha

theorem A_draining {v : Scal} (ha : InvA v) {c : Bool} (htd : v.td = .draining c) (x : Td)
    (hx : x = .loopDone ∨ ∃ c', x = .draining c') : InvA { v with td := x } := by
  obtain ⟨a1, a2, a3, a4, a5, a6, a7, a8, a9, a10, a11, a12, a13⟩ := ha
  rcases hx with rfl | ⟨c', rfl⟩ <;> constructor <;> simp_all [tdPast] <;> omega

theorem A_tdIter {s s' : St} (h : tdIter s = some s') (ha : InvA (scal s)) : InvA (scal s') := by
  unfold tdIter at h; crunch h
  · exact A_draining ha (c := ‹Bool›) (by assumption) _ (Or.inl rfl)
  · rw [scal_deliver]
    exact A_draining ha (c := ‹Bool›) (by assumption) _ (Or.inr ⟨_, rfl⟩)
  · exact A_draining ha (c := ‹Bool›) (by assumption) _ (Or.inr ⟨_, rfl⟩)

theorem A_tdClose {s s' : St} (h : tdClose s = some s') (ha : InvA (scal s)) : InvA (scal s') := by
  obtain ⟨a1, a2, a3, a4, a5, a6, a7, a8, a9, a10, a11, a12, a13⟩ := ha
  unfold tdClose at h; crunch h; finishA

theorem A_closeEnter {w : Why} {s s' : St} (h : closeEnter w s = some s') (ha : InvA (scal s)) : InvA (scal s') := by
  obtain ⟨a1, a2, a3, a4, a5, a6, a7, a8, a9, a10, a11, a12, a13⟩ := ha
  unfold closeEnter at h; crunch h; finishA

theorem A_casSt {s : St} {w : Nat} (hc : s.close = .entered w) (ha : InvA (scal s)) : InvA (scal (casSt s)) := by
  obtain ⟨a1, a2, a3, a4, a5, a6, a7, a8, a9, a10, a11, a12, a13⟩ := ha
  rcases a10 with h0 | h0 | h0 | h0 <;> constructor <;> simp_all [scal, casSt, isStopping, tdPast]

theorem A_closeCas {s s' : St} (h : closeCas s = some s') (ha : InvA (scal s)) : InvA (scal s') := by
  unfold closeCas at h; crunch h
  · rw [scal_startBg]; exact (A_casSt (by assumption) ha).startBg
  · exact A_casSt (by assumption) ha

theorem A_closePing {s s' : St} (h : closePing s = some s') (ha : InvA (scal s)) : InvA (scal s') := by
  obtain ⟨a1, a2, a3, a4, a5, a6, a7, a8, a9, a10, a11, a12, a13⟩ := ha
  unfold closePing at h; crunch h <;> finishA

theorem A_closeGot {s s' : St} (h : closeGot s = some s') (ha : InvA (scal s)) : InvA (scal s') := by
  obtain ⟨a1, a2, a3, a4, a5, a6, a7, a8, a9, a10, a11, a12, a13⟩ := ha
  unfold closeGot at h; crunch h; finishA

theorem A_closeGrace {s s' : St} (h : closeGrace s = some s') (ha : InvA (scal s)) : InvA (scal s') := by
  obtain ⟨a1, a2, a3, a4, a5, a6, a7, a8, a9, a10, a11, a12, a13⟩ := ha
  unfold closeGrace at h; crunch h; finishA

theorem A_closeTail {s s' : St} (h : closeTail s = some s') (ha : InvA (scal s)) : InvA (scal s') := by
  obtain ⟨a1, a2, a3, a4, a5, a6, a7, a8, a9, a10, a11, a12, a13⟩ := ha
  unfold closeTail at h; crunch h; finishA

theorem invA_step {fix : Bool} {s s' : St} {l : Label} (h : step fix s l = some s') (ha : InvA (scal s)) :
    InvA (scal s') := by
  cases l <;> simp only [step] at h
  · exact A_enter h ha
  · exact A_decide h ha
  · exact A_put h ha
  · exact A_putFail h ha
  · exact A_syncOk h ha
  · exact A_syncErr h ha
  · exact A_leave h ha
  · exact A_abort h ha
  · exact A_cancel h ha
  · exact A_connBreak h ha
  · exact A_pingFail h ha
  · exact A_wTake h ha
  · exact A_wFlush h ha
  · exact A_rFetch h ha
  · exact A_rDeliver h ha
  · exact A_rErr h ha
  · exact A_tdSpawn h ha
  · exact A_bgPingPut h ha
  · exact A_tdIter h ha
  · exact A_tdClose h ha
  · exact A_closeEnter h ha
  · exact A_closeCas h ha
  · exact A_closePing h ha
  · exact A_closeGot h ha
  · exact A_closeGrace h ha
  · exact A_closeTail h ha

theorem invA_init (calls : List Call) (p b : Bool) : InvA (scal (init calls p b)) := by
  have h0 : InvA (scal { calls := calls, blockFree := b }) := by constructor <;> simp [scal, tdPast]
  unfold init; split
  · rw [scal_startBg]; exact h0.startBg
  · exact h0

theorem Reachable.invA {fix : Bool} {s : St} (h : Reachable fix s) : InvA (scal s) := by
  induction h with
  | init calls p b _ => exact invA_init calls p b
  | step l _ hs ih => exact invA_step hs ih
