/-
Pipe life model (Rv/Model/PipeLife.lean): projections of the primitive updates, and the
invariant over the scalar fields (state, error latch, connection, goroutine program counters).
-/
import Rv.Model.PipeLife
namespace Rv.PipeLife

/-- the scalar part of a state -/
structure Scal where
  state : Nat
  err : Option Why
  connUp : Bool
  td : Td
  writer : Wr
  close : ClosePc

def scal (s : St) : Scal := ⟨s.state, s.err, s.connUp, s.td, s.writer, s.close⟩

/-- `_background` is past `_backgroundRead` -/
def tdPast : Td → Bool
  | .off | .reading => false
  | _ => true

/-- the drain loop has observed `waits == 0` -/
def tdSettled : Td → Bool
  | .loopDone | .finished => true
  | _ => false

@[simp] theorem latch_ne (w : Why) (e : Option Why) : latch w e ≠ none := by cases e <;> simp [latch]
theorem latch_some (w : Why) (e : Option Why) (h : e ≠ none) : latch w e = e := by
  cases e <;> simp_all [latch]

@[simp] theorem scal_setSt (i : Nat) (cs : CS) (s : St) : scal (setSt i cs s) = scal s := rfl
@[simp] theorem scal_deliver (o : Owner) (r : Res) (s : St) : scal (deliver o r s) = scal s := by
  cases o <;> simp only [deliver]
  · split <;> rfl
  · rfl
  · rfl
@[simp] theorem scal_leaveSt (i : Nat) (r : Res) (s : St) : scal (leaveSt i r s) = scal s := rfl

theorem scal_deferDeliver (s : St) : scal (deferDeliver s) = scal s := by
  unfold deferDeliver; split
  · rw [scal_deliver]; rfl
  · rfl

/-- what `background()` does to the scalars -/
def Scal.startBg (v : Scal) : Scal :=
  match v.td with
  | .off => { v with state := bgState v.state, td := .reading, writer := .run false }
  | _ => { v with state := bgState v.state }

theorem scal_startBg (s : St) : scal (startBg s) = (scal s).startBg := by
  unfold startBg Scal.startBg
  cases h : s.td <;> simp [scal, h]

/-- the invariant over the scalars -/
structure InvA (v : Scal) : Prop where
  a1 : 2 ≤ v.state → v.err ≠ none
  a2 : tdPast v.td = true → 2 ≤ v.state ∧ v.connUp = false ∧ v.err ≠ none
  a3 : v.td = .off ↔ v.writer = .off
  a4 : v.state = 1 → v.td ≠ .off
  a5 : v.close = .done → v.connUp = false
  a6 : v.state = 4 ↔ v.td = .finished
  a7 : v.close ≠ .idle → v.err ≠ none
  a8 : (∃ b, v.close = .casDone b) ∨ v.close = .pingWait ∨ v.close = .tail ∨ v.close = .done → 2 ≤ v.state
  a9 : v.writer = .exited → v.connUp = false ∧ v.err ≠ none
  a10 : v.state = 0 ∨ v.state = 1 ∨ v.state = 2 ∨ v.state = 4
  a11 : v.td = .finished → v.writer = .exited
  a12 : v.td ≠ .off → v.state ≠ 0
  a13 : v.td = .off → (v.close = .idle ∨ ∃ w, v.close = .entered w) → v.state = 0

theorem InvA.startBg {v : Scal} (ha : InvA v) : InvA v.startBg := by
  obtain ⟨a1, a2, a3, a4, a5, a6, a7, a8, a9, a10, a11, a12, a13⟩ := ha
  unfold Scal.startBg
  cases htd : v.td <;> constructor <;> simp_all [bgState, tdPast] <;> (try split) <;> (try omega) <;> simp_all

/-- split a step hypothesis `h : <step> = some s'` into its enabled branches -/
macro "crunch" h:ident : tactic =>
  `(tactic| ((repeat' split at $h:ident) <;>
      (first | (cases $h:ident; done) | (injection $h:ident with $h:ident; subst $h:ident))))

macro "finishA" : tactic =>
  `(tactic| (constructor <;>
      simp_all [scal, exitConn, tdPast, casSt, isStopping, scal_startBg, scal_deferDeliver] <;> (try omega)))

end Rv.PipeLife
