/-
Pipe life model: a measure on states that every step strictly decreases — hence every run is
finite and its length is bounded by the measure of its first state.
-/
import Rv.Lemmas.PipeLifeCount
namespace Rv.PipeLife

def CS.pot : CS → Nat
  | .idle => 9 | .counted _ => 8 | .toQueue => 7 | .syncing => 2 | .waiting => 2
  | .got _ _ => 1 | .aborted => 1 | .done => 0

def Call.pot (c : Call) : Nat := c.st.pot + if c.canDone && !c.ctxDone then 1 else 0

def callsPot : List Call → Nat
  | [] => 0
  | c :: cs => c.pot + callsPot cs

def Entry.pot (e : Entry) : Nat := if e.taken then 2 else 4

def qPot : List Entry → Nat
  | [] => 0
  | e :: es => e.pot + qPot es

def Td.pot : Td → Nat
  | .off => 13 | .reading => 11 | .exited => 10 | .draining false => 3 | .draining true => 2
  | .loopDone => 1 | .finished => 0

def Wr.pot : Wr → Nat
  | .off => 0 | .run false => 1 | .run true => 2 | .exited => 0

def HS.pot : HS → Nat
  | .none => 0 | .toPut => 6 | .waiting => 1 | .done => 0

def ClosePc.pot : ClosePc → Nat
  | .idle => 10 | .entered _ => 9 | .casDone _ => 8 | .pingWait => 2 | .tail => 1 | .done => 0

def inflightPot : Option Owner → Nat
  | none => 0
  | some _ => 1

def errPot : Option Why → Nat
  | none => 1
  | some _ => 0

/-- the measure -/
def mu (s : St) : Nat :=
  callsPot s.calls + qPot s.queue + s.td.pot + s.writer.pot + s.bgPing.pot + s.close.pot +
    b2n s.cpOwed + b2n s.connUp + errPot s.err + inflightPot s.inflight

theorem callsPot_modify (l : List Call) (i : Nat) (f : Call → Call) (c : Call) (h : l[i]? = some c) :
    callsPot (l.modify i f) + c.pot = callsPot l + (f c).pot := by
  induction l generalizing i with
  | nil => simp at h
  | cons a as ih =>
    cases i with
    | zero => simp at h; subst h; simp [callsPot]; omega
    | succ i => simp at h; have := ih i h; simp [callsPot]; omega

/-- status of call `i` goes from `a` to `b` -/
theorem callsPot_setSt {s : St} {i : Nat} {a : CS} (b : CS) (h : stOf s i = some a) :
    callsPot (s.calls.modify i (setCallSt b)) + a.pot = callsPot s.calls + b.pot := by
  obtain ⟨c, hc1, hc2⟩ := stOf_some h
  have := callsPot_modify s.calls i (setCallSt b) c hc1
  have h1 : (setCallSt b c).pot = b.pot + if c.canDone && !c.ctxDone then 1 else 0 := rfl
  have h2 : c.pot = a.pot + if c.canDone && !c.ctxDone then 1 else 0 := by rw [← hc2]; rfl
  rw [h1, h2] at this
  omega

theorem qPot_append (q : List Entry) (e : Entry) : qPot (q ++ [e]) = qPot q + e.pot := by
  induction q with
  | nil => simp [qPot]
  | cons a as ih => simp [qPot, ih]; omega

theorem qPot_takeFirst (q : List Entry) (o : Owner) (q' : List Entry) (h : takeFirst q = some (o, q')) :
    qPot q' + 2 = qPot q := by
  induction q generalizing q' with
  | nil => simp [takeFirst] at h
  | cons e es ih =>
    unfold takeFirst at h
    split at h
    · split at h
      · rename_i o1 es1 heq
        injection h with h; injection h with h1 h2; subst h2
        have := ih es1 (h1 ▸ heq)
        simp only [qPot]; omega
      · cases h
    · rename_i ht
      injection h with h; injection h with h1 h2; subst h2
      simp only [qPot, Entry.pot]; simp [ht]; omega

theorem qPot_drainTake (q : List Entry) : qPot (drainTake q) ≤ qPot q := by
  unfold drainTake; split
  · have := qPot_takeFirst _ _ _ (by assumption); omega
  · exact Nat.le_refl _

theorem qPot_drainQueue (c : Bool) (q : List Entry) : qPot (drainQueue c q) ≤ qPot q := by
  unfold drainQueue; split
  · exact qPot_drainTake q
  · exact Nat.le_refl _

theorem Td.pot_startBg (s : St) : (startBg s).td.pot + (startBg s).writer.pot ≤ s.td.pot + s.writer.pot := by
  unfold startBg; split
  · rename_i h; simp only [h, Td.pot, Wr.pot]; cases s.writer <;> simp <;> split <;> omega
  · exact Nat.le_refl _

theorem mu_startBg (s : St) : mu (startBg s) ≤ mu s := by
  have := Td.pot_startBg s
  unfold mu
  simp only [startBg_calls, startBg_queue, startBg_bgPing, startBg_close, startBg_cpOwed, startBg_connUp, startBg_err,
    startBg_inflight]
  omega

theorem mu_deliver (o : Owner) (r : Res) (s : St) : mu (deliver o r s) ≤ mu s := by
  cases o with
  | call i =>
    simp only [deliver]
    split
    · rename_i h
      have := callsPot_setSt (.got r false) h
      simp only [CS.pot] at this
      unfold mu; simp only [setSt]; omega
    · rename_i h
      have := callsPot_setSt .done h
      simp only [CS.pot] at this
      unfold mu; simp only [setSt]; omega
    · exact Nat.le_refl _
  | bgPing =>
    show callsPot s.calls + qPot s.queue + s.td.pot + s.writer.pot + HS.pot .done + s.close.pot +
      b2n s.cpOwed + b2n s.connUp + errPot s.err + inflightPot s.inflight ≤ mu s
    unfold mu; simp only [HS.pot]; omega
  | closePing =>
    show callsPot s.calls + qPot s.queue + s.td.pot + s.writer.pot + s.bgPing.pot + s.close.pot +
      b2n false + b2n s.connUp + errPot s.err + inflightPot s.inflight ≤ mu s
    unfold mu; simp only [b2n]; simp

theorem errPot_latch (w : Why) (e : Option Why) : errPot (latch w e) ≤ errPot e := by
  cases e <;> simp [latch, errPot]

theorem b2n_le (b : Bool) : b2n false ≤ b2n b := by cases b <;> simp [b2n]

theorem mu_exitConn (w : Why) (s : St) : mu (exitConn w s) ≤ mu s := by
  have := errPot_latch w s.err
  have := b2n_le s.connUp
  show callsPot s.calls + qPot s.queue + s.td.pot + s.writer.pot + s.bgPing.pot + s.close.pot +
      b2n s.cpOwed + b2n false + errPot (latch w s.err) + inflightPot s.inflight ≤ mu s
  unfold mu; omega

/-- status of call `i` goes from `a` to `b`, nothing else changes -/
theorem mu_setSt {s : St} {i : Nat} {a : CS} (b : CS) (h : stOf s i = some a) :
    mu (setSt i b s) + a.pot = mu s + b.pot := by
  have := callsPot_setSt b h
  unfold mu; simp only [setSt]; omega

theorem mu_broken (s : St) : mu { s with err := latch .broken s.err, connUp := false } ≤ mu s := by
  have := errPot_latch .broken s.err
  have := b2n_le s.connUp
  unfold mu; simp only; omega

theorem canDone_pot {s : St} {i : Nat} (h : (canDoneOf s i && !ctxDoneOf s i) = true) :
    callsPot (s.calls.modify i setDone) + 1 = callsPot s.calls := by
  unfold canDoneOf ctxDoneOf at h
  cases hc : s.calls[i]? with
  | none => rw [hc] at h; simp at h
  | some c =>
    rw [hc] at h
    have := callsPot_modify s.calls i setDone c hc
    have h1 : (setDone c).pot = c.st.pot := by simp [Call.pot, setDone]
    have h2 : c.pot = c.st.pot + 1 := by simp [Call.pot, h]
    omega

theorem Td.pot_draining (c c' : Bool) (h : c' = (c || c')) : (Td.draining c').pot ≤ (Td.draining c).pot := by
  cases c <;> cases c' <;> simp_all [Td.pot]

theorem seenClosed_mono (c : Bool) (s : St) : seenClosed c s = (c || seenClosed c s) := by
  unfold seenClosed; cases c <;> simp

/-- every step strictly decreases the measure -/
theorem step_decreases {fix : Bool} {s s' : St} {l : Label} (h : step fix s l = some s') : mu s' < mu s := by
  cases l <;> simp only [step] at h
  case enter i =>
    unfold enter at h; crunch h
    · have := mu_setSt .done ‹stOf s i = some .idle›
      show mu (setSt i .done s) < mu s
      simp only [CS.pot] at this; omega
    · have := mu_setSt (.counted (s.waits + 1)) ‹stOf s i = some .idle›
      show mu (setSt i (.counted (s.waits + 1)) s) < mu s
      simp only [CS.pot] at this; omega
  case decide i =>
    unfold decide at h; crunch h
    · have := mu_setSt .toQueue ‹stOf s i = some (.counted _)›
      simp only [CS.pot] at this; omega
    · have := mu_setSt .toQueue ‹stOf s i = some (.counted _)›
      simp only [CS.pot] at this; omega
    · rename_i _ w0 hw0 _ _ _ _
      have h1 : stOf (startBg s) i = some (.counted w0) := by rw [stOf_startBg]; exact hw0
      have := mu_setSt .toQueue h1
      have := mu_startBg s
      simp only [CS.pot] at *; omega
    · have := mu_setSt .syncing ‹stOf s i = some (.counted _)›
      show mu (setSt i .syncing s) < mu s
      simp only [CS.pot] at this; omega
    · rename_i _ w0 hw0 _ _
      have := mu_setSt (.got (latched s.err) (fix && w0 == 1)) hw0
      simp only [CS.pot] at this; omega
  case put i =>
    unfold put at h; crunch h
    have := callsPot_setSt .waiting ‹stOf s i = some .toQueue›
    have := qPot_append s.queue { owner := .call i }
    unfold mu; simp only [setSt, CS.pot, Entry.pot] at *; simp at *; omega
  case putFail i =>
    unfold putFail at h; crunch h
    have := mu_setSt .done ‹stOf s i = some .toQueue›
    show mu (setSt i .done s) < mu s
    simp only [CS.pot] at this; omega
  case syncOk i =>
    unfold syncOk at h; crunch h
    have := mu_setSt (.got .reply true) ‹stOf s i = some .syncing›
    simp only [CS.pot] at this; omega
  case syncErr i =>
    unfold syncErr at h; crunch h
    all_goals
      have h1 : stOf (startBg { s with err := latch .broken s.err, connUp := false }) i = some .syncing := by
        rw [stOf_startBg]; assumption
      have h2 := mu_startBg { s with err := latch .broken s.err, connUp := false }
      have h3 := mu_broken s
    · have := mu_setSt (.got .ctx true) h1
      simp only [CS.pot] at this; omega
    · have := mu_setSt (.got .transport true) h1
      simp only [CS.pot] at this; omega
  case leave i =>
    unfold leave at h; crunch h
    all_goals
      rename_i _ r sb hg _
      have h1 := mu_setSt .done hg
      have h2 : mu (leaveSt i r s) = mu (setSt i .done s) := rfl
      simp only [CS.pot] at h1
    · have := mu_startBg (leaveSt i r s); omega
    · omega
  case abort i =>
    unfold abort at h; crunch h
    have := mu_setSt .aborted ‹stOf s i = some .waiting›
    show mu (setSt i .aborted s) < mu s
    simp only [CS.pot] at this; omega
  case cancel i =>
    unfold cancel at h; crunch h
    have := canDone_pot ‹(canDoneOf s i && !ctxDoneOf s i) = true›
    unfold mu; simp only; omega
  case connBreak =>
    unfold connBreak at h; crunch h
    rename_i hc
    unfold mu; simp only [hc, b2n]; simp
  case pingFail =>
    unfold pingFail at h; crunch h
    rename_i he
    have := b2n_le s.connUp
    unfold mu; simp only [exitConn, he, latch, errPot]; omega
  case wTake =>
    unfold wTake at h; crunch h
    rename_i _ d hwr _ o q htf
    have := qPot_takeFirst _ _ _ htf
    have hw : (Wr.run true).pot ≤ s.writer.pot + 1 := by
      rw [hwr]; cases d <;> simp [Wr.pot]
    unfold mu; simp only; omega
  case wFlush =>
    unfold wFlush at h; crunch h
    · rename_i hw _ _ _
      unfold mu; simp only [hw, Wr.pot]; omega
    · rename_i hw _ _ _
      have := mu_exitConn .broken s
      show mu { (exitConn .broken s) with writer := .exited } < mu s
      have h2 : mu { (exitConn .broken s) with writer := .exited } + 2 = mu (exitConn .broken s) := by
        unfold mu; simp only [exitConn, hw, Wr.pot]; omega
      omega
  case rFetch =>
    unfold rFetch at h; crunch h
    rename_i _ _ _ e es _ hin hq ht
    simp at ht
    unfold mu; simp only [hin, hq, qPot, Entry.pot, ht.1, inflightPot]; simp; omega
  case rDeliver =>
    unfold rDeliver at h; crunch h
    rename_i _ _ o _ hin _
    have := mu_deliver o .reply { s with inflight := none }
    have h2 : mu { s with inflight := none } + 1 = mu s := by
      unfold mu; simp only [hin, inflightPot]
    omega
  case rErr =>
    unfold rErr at h; crunch h
    rename_i htd _
    have h1 : mu (deferDeliver s) ≤ mu s := by
      unfold deferDeliver; split
      · rename_i o hin
        have := mu_deliver o .transport { s with inflight := none }
        have h2 : mu { s with inflight := none } ≤ mu s := by unfold mu; simp only [hin, inflightPot]; omega
        omega
      · exact Nat.le_refl _
    have h2 := mu_exitConn .broken (deferDeliver s)
    have h3 : (deferDeliver s).td = .reading := by rw [deferDeliver_td]; exact htd
    have h4 : mu { (exitConn .broken (deferDeliver s)) with td := .exited } + 1 = mu (exitConn .broken (deferDeliver s)) := by
      unfold mu; simp only [exitConn, h3, Td.pot]; omega
    omega
  case tdSpawn =>
    unfold tdSpawn at h; crunch h
    · rename_i htd _ _
      unfold mu; simp only [htd, Td.pot]; omega
    · rename_i htd _ _
      have : HS.pot .toPut ≤ s.bgPing.pot + 6 := by simp [HS.pot]
      unfold mu; simp only [htd, Td.pot]; omega
  case bgPingPut =>
    unfold bgPingPut at h; crunch h
    rename_i hb
    have := qPot_append s.queue { owner := .bgPing }
    unfold mu; simp only [hb, HS.pot, Entry.pot] at *; simp at *; omega
  case tdIter =>
    unfold tdIter at h; crunch h
    · rename_i _ c htd _
      unfold mu; simp only [htd]; cases c <;> simp [Td.pot] <;> omega
    · rename_i _ c htd _ _ e es hq ht
      have h1 := mu_deliver e.owner (drainRes (seenClosed c s) s)
        { s with td := .draining (seenClosed c s), queue := es, rcnt := s.rcnt + 1 }
      have h2 := qPot_drainQueue (seenClosed c s) s.queue
      rw [hq] at h2
      have h3 := Td.pot_draining c (seenClosed c s) (seenClosed_mono c s)
      have h4 : mu { s with td := .draining (seenClosed c s), queue := es, rcnt := s.rcnt + 1 } < mu s := by
        unfold mu; simp only [htd, qPot, Entry.pot, ht] at *; simp at *; omega
      omega
    · rename_i _ c htd _ _ _ hne
      have hc : c = false ∧ seenClosed c s = true := by
        have := seenClosed_mono c s
        cases c <;> cases hx : seenClosed false s <;> simp_all [seenClosed]
      obtain ⟨hc1, hc2⟩ := hc
      subst hc1
      unfold mu; simp only [htd, hc2, Td.pot]; omega
  case tdClose =>
    unfold tdClose at h; crunch h
    rename_i htd _
    unfold mu; simp only [htd, Td.pot]; omega
  case closeEnter w =>
    unfold closeEnter at h; crunch h
    rename_i hcl
    have := errPot_latch w s.err
    unfold mu; simp only [hcl, ClosePc.pot]; omega
  case closeCas =>
    unfold closeCas at h; crunch h
    all_goals
      rename_i _ w hcl _
      have h1 : mu (casSt s) + 1 = mu s := by unfold mu; simp only [casSt, hcl, ClosePc.pot]; omega
    · have := mu_startBg (casSt s); omega
    · omega
  case closePing =>
    unfold closePing at h; crunch h
    · rename_i _ b hcl _
      have := qPot_append s.queue { owner := .closePing }
      have : b2n true ≤ b2n s.cpOwed + 1 := by cases s.cpOwed <;> simp [b2n]
      unfold mu; simp only [hcl, ClosePc.pot, Entry.pot] at *; simp at *; omega
    · rename_i _ b hcl _
      unfold mu; simp only [hcl, ClosePc.pot]; omega
  case closeGot =>
    unfold closeGot at h; crunch h
    rename_i hcl _
    unfold mu; simp only [hcl, ClosePc.pot]; omega
  case closeGrace =>
    unfold closeGrace at h; crunch h
    rename_i hcl
    unfold mu; simp only [hcl, ClosePc.pot]; omega
  case closeTail =>
    unfold closeTail at h; crunch h
    rename_i hcl
    have := b2n_le s.connUp
    unfold mu; simp only [hcl, ClosePc.pot]; omega

/-- every run is finite: its length is bounded by the measure of its first state -/
theorem run_bounded {fix : Bool} (ls : List Label) (s s' : St) (h : run fix s ls = some s') :
    mu s' + ls.length ≤ mu s := by
  induction ls generalizing s with
  | nil => simp only [run] at h; injection h with h; subst h; simp
  | cons l ls ih =>
    simp only [run] at h
    cases hs : step fix s l with
    | none => rw [hs] at h; cases h
    | some s1 =>
      rw [hs] at h
      have := ih s1 h
      have := step_decreases hs
      simp only [List.length_cons]; omega

end Rv.PipeLife
