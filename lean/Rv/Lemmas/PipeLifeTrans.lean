/-
Pipe life model: how one step changes the status of a call and the log of returns.
A call's status changes only by its own statements (`Trans`) or by a delivery on its result
channel (`Deliv`); a return is logged exactly when the status moves to `aborted`/`done`.
-/
import Rv.Lemmas.PipeLifeCount
namespace Rv.PipeLife

/-- the caller whose statement a label is -/
def Label.caller : Label → Option Nat
  | .enter i | .decide i | .put i | .putFail i | .syncOk i | .syncErr i | .leave i | .abort i => some i
  | _ => none

/-- status changes made by the call's own statements: label, caller, old and new status -/
inductive Trans : Label → Nat → CS → CS → Prop where
  | enter (i w : Nat) : Trans (.enter i) i .idle (.counted w)
  | enterDone (i : Nat) : Trans (.enter i) i .idle .done
  | toQueue (i w : Nat) : Trans (.decide i) i (.counted w) .toQueue
  | sync (i w : Nat) : Trans (.decide i) i (.counted w) .syncing
  | reject (i w : Nat) (r : Res) (b : Bool) : Trans (.decide i) i (.counted w) (.got r b)
  | put (i : Nat) : Trans (.put i) i .toQueue .waiting
  | putFail (i : Nat) : Trans (.putFail i) i .toQueue .done
  | syncOk (i : Nat) : Trans (.syncOk i) i .syncing (.got .reply true)
  | syncErr (i : Nat) (r : Res) : Trans (.syncErr i) i .syncing (.got r true)
  | leave (i : Nat) (r : Res) (b : Bool) : Trans (.leave i) i (.got r b) .done
  | abort (i : Nat) : Trans (.abort i) i .waiting .aborted

/-- status changes made by a delivery on the call's result channel -/
inductive Deliv : CS → CS → Prop where
  | got (r : Res) : Deliv .waiting (.got r false)
  | swallowed : Deliv .aborted .done

/-- the call has returned to its caller -/
def CS.ret : CS → Nat
  | .aborted | .done => 1
  | _ => 0

/-- number of logged returns of call `j` -/
def cnt (j : Nat) (log : List (Nat × Res)) : Nat := (log.map Prod.fst).count j

theorem cnt_append (j : Nat) (l : List (Nat × Res)) (i : Nat) (r : Res) :
    cnt j (l ++ [(i, r)]) = cnt j l + if i = j then 1 else 0 := by
  simp [cnt, List.count_append, List.count_cons]

/-- what one step does to call `j` -/
def Change (s s' : St) (l : Label) (j : Nat) : Prop :=
  (stOf s' j = stOf s j ∧ cnt j s'.log = cnt j s.log) ∨
  (∃ a b, stOf s j = some a ∧ stOf s' j = some b ∧ Trans l j a b ∧
      cnt j s'.log + a.ret = cnt j s.log + b.ret) ∨
  (∃ a b, stOf s j = some a ∧ stOf s' j = some b ∧ Deliv a b ∧ cnt j s'.log = cnt j s.log)

theorem change_same {s s' : St} {l : Label} (hc : s'.calls = s.calls) (hl : s'.log = s.log) (j : Nat) :
    Change s s' l j := Or.inl ⟨by simp [stOf, hc], by rw [hl]⟩

/-- call `i` makes a statement that does not return -/
theorem change_own {s s' : St} {l : Label} {i : Nat} {a b : CS} (hold : stOf s i = some a)
    (hcalls : s'.calls = s.calls.modify i (setCallSt b)) (hlog : s'.log = s.log) (ht : Trans l i a b)
    (hr : a.ret = b.ret) (j : Nat) : Change s s' l j := by
  by_cases hij : i = j
  · subst hij
    refine Or.inr (Or.inl ⟨a, b, hold, ?_, ht, by rw [hlog, hr]⟩)
    rw [stOf_modify hcalls i, if_pos rfl, hold]; rfl
  · exact Or.inl ⟨by rw [stOf_modify hcalls j, if_neg hij], by rw [hlog]⟩

/-- call `i` makes a statement that returns `r` -/
theorem change_ret {s s' : St} {l : Label} {i : Nat} {a b : CS} {r : Res}
    (hold : stOf s i = some a) (hcalls : s'.calls = s.calls.modify i (setCallSt b))
    (hlog : s'.log = s.log ++ [(i, r)]) (ht : Trans l i a b) (ha : a.ret = 0) (hb : b.ret = 1) (j : Nat) :
    Change s s' l j := by
  by_cases hij : i = j
  · subst hij
    refine Or.inr (Or.inl ⟨a, b, hold, ?_, ht, ?_⟩)
    · rw [stOf_modify hcalls i, if_pos rfl, hold]; rfl
    · rw [hlog, cnt_append, if_pos rfl, ha, hb]
  · refine Or.inl ⟨by rw [stOf_modify hcalls j, if_neg hij], ?_⟩
    rw [hlog, cnt_append, if_neg hij]; rfl

theorem deliver_log (o : Owner) (r : Res) (s : St) : (deliver o r s).log = s.log := by
  cases o <;> simp only [deliver]
  split <;> rfl

/-- a delivery changes at most the status of the entry's owner -/
theorem change_deliver {s s0 : St} {l : Label} (o : Owner) (r : Res) (hc : s0.calls = s.calls) (hl : s0.log = s.log)
    (j : Nat) : Change s (deliver o r s0) l j := by
  have hst0 : ∀ k, stOf s0 k = stOf s k := fun k => by simp [stOf, hc]
  cases o with
  | call i =>
    simp only [deliver]
    split
    · rename_i hw
      by_cases hij : i = j
      · subst hij
        refine Or.inr (Or.inr ⟨.waiting, .got r false, by rw [← hst0]; exact hw, ?_, .got r, by rw [← hl]; rfl⟩)
        rw [stOf_modify (s := s0) rfl i, if_pos rfl, hw]; rfl
      · exact Or.inl ⟨by rw [stOf_modify (s := s0) rfl j, if_neg hij, hst0], by rw [← hl]; rfl⟩
    · rename_i hw
      by_cases hij : i = j
      · subst hij
        refine Or.inr (Or.inr ⟨.aborted, .done, by rw [← hst0]; exact hw, ?_, .swallowed, by rw [← hl]; rfl⟩)
        rw [stOf_modify (s := s0) (s' := { (setSt i .done s0) with waits := s0.waits - 1 }) rfl i, if_pos rfl, hw]; rfl
      · refine Or.inl ⟨?_, by rw [← hl]; rfl⟩
        rw [stOf_modify (s := s0) (s' := { (setSt i .done s0) with waits := s0.waits - 1 }) rfl j, if_neg hij, hst0]
    · exact Or.inl ⟨hst0 j, by rw [hl]⟩
  | bgPing => exact Or.inl ⟨hst0 j, by rw [← hl]; rfl⟩
  | closePing => exact Or.inl ⟨hst0 j, by rw [← hl]; rfl⟩

theorem change_startBg {s s' : St} {l : Label} {j : Nat} (h : Change s s' l j) : Change s (startBg s') l j := by
  unfold Change at h ⊢
  simpa using h

theorem step_change {fix : Bool} {s s' : St} {l : Label} (h : step fix s l = some s') (j : Nat) :
    Change s s' l j := by
  cases l <;> simp only [step] at h
  case enter i =>
    unfold enter at h; crunch h
    · refine change_ret (r := .ctx) (a := .idle) (b := .done) (by assumption) ?_ ?_ (.enterDone _) rfl rfl j <;> rfl
    · refine change_own (a := .idle) (b := .counted (s.waits + 1)) (by assumption) ?_ ?_ (.enter _ _) rfl j <;> rfl
  case decide i =>
    unfold decide at h; crunch h
    all_goals obtain ⟨w, hw⟩ : ∃ w, stOf s i = some (.counted w) := ⟨_, by assumption⟩
    · refine change_own (a := .counted w) (b := .toQueue) hw ?_ ?_ (.toQueue _ _) rfl j <;> rfl
    · refine change_own (a := .counted w) (b := .toQueue) hw ?_ ?_ (.toQueue _ _) rfl j <;> rfl
    · refine change_own (a := .counted w) (b := .toQueue) hw ?_ ?_ (.toQueue _ _) rfl j <;> simp [setSt]
    · refine change_own (a := .counted w) (b := .syncing) hw ?_ ?_ (.sync _ _) rfl j <;> rfl
    · rename_i _ w0 hw0 _ _
      refine change_own (a := .counted w0) (b := .got (latched s.err) (fix && w0 == 1)) hw0 ?_ ?_
        (.reject _ _ _ _) rfl j <;> rfl
  case put i =>
    unfold put at h; crunch h
    refine change_own (a := .toQueue) (b := .waiting) (by assumption) ?_ ?_ (.put _) rfl j <;> rfl
  case putFail i =>
    unfold putFail at h; crunch h
    refine change_ret (r := .ctx) (a := .toQueue) (b := .done) (by assumption) ?_ ?_ (.putFail _) rfl rfl j <;> rfl
  case syncOk i =>
    unfold syncOk at h; crunch h
    refine change_own (a := .syncing) (b := .got .reply true) (by assumption) ?_ ?_ (.syncOk _) rfl j <;> rfl
  case syncErr i =>
    unfold syncErr at h; crunch h
    · refine change_own (a := .syncing) (b := .got .ctx true) (by assumption) ?_ ?_ (.syncErr _ _) rfl j <;>
        simp [setSt]
    · refine change_own (a := .syncing) (b := .got .transport true) (by assumption) ?_ ?_ (.syncErr _ _) rfl j <;>
        simp [setSt]
  case leave i =>
    unfold leave at h; crunch h
    · rename_i _ r sb hg _
      refine change_startBg ?_
      refine change_ret (r := r) (a := .got r sb) (b := .done) hg ?_ ?_ (.leave _ _ _) rfl rfl j <;> rfl
    · rename_i _ r sb hg _
      refine change_ret (r := r) (a := .got r sb) (b := .done) hg ?_ ?_ (.leave _ _ _) rfl rfl j <;> rfl
  case abort i =>
    unfold abort at h; crunch h
    refine change_ret (r := .ctx) (a := .waiting) (b := .aborted) (by assumption) ?_ ?_ (.abort _) rfl rfl j <;> rfl
  case cancel i =>
    unfold cancel at h; crunch h
    exact Or.inl ⟨stOf_modify_same (f := setDone) (fun _ => rfl) rfl j, rfl⟩
  case connBreak => unfold connBreak at h; crunch h; exact change_same rfl rfl j
  case pingFail => unfold pingFail at h; crunch h; exact change_same rfl rfl j
  case wTake => unfold wTake at h; crunch h; exact change_same rfl rfl j
  case wFlush => unfold wFlush at h; crunch h <;> exact change_same rfl rfl j
  case rFetch => unfold rFetch at h; crunch h; exact change_same rfl rfl j
  case rDeliver => unfold rDeliver at h; crunch h; exact change_deliver _ _ rfl rfl j
  case rErr =>
    unfold rErr at h; crunch h
    show Change s { (exitConn .broken (deferDeliver s)) with td := .exited } _ j
    have : Change s (deferDeliver s) Label.rErr j := by
      unfold deferDeliver; split
      · exact change_deliver _ _ rfl rfl j
      · exact change_same rfl rfl j
    exact this
  case tdSpawn => unfold tdSpawn at h; crunch h <;> exact change_same rfl rfl j
  case bgPingPut => unfold bgPingPut at h; crunch h; exact change_same rfl rfl j
  case tdIter =>
    unfold tdIter at h; crunch h
    · exact change_same rfl rfl j
    · exact change_deliver _ _ rfl rfl j
    · exact change_same rfl rfl j
  case tdClose => unfold tdClose at h; crunch h; exact change_same rfl rfl j
  case closeEnter w => unfold closeEnter at h; crunch h; exact change_same rfl rfl j
  case closeCas =>
    unfold closeCas at h; crunch h
    · exact change_startBg (change_same rfl rfl j)
    · exact change_same rfl rfl j
  case closePing => unfold closePing at h; crunch h <;> exact change_same rfl rfl j
  case closeGot => unfold closeGot at h; crunch h; exact change_same rfl rfl j
  case closeGrace => unfold closeGrace at h; crunch h; exact change_same rfl rfl j
  case closeTail => unfold closeTail at h; crunch h; exact change_same rfl rfl j

end Rv.PipeLife
