import Rv.Lemmas.RingTicket
import Rv.Lemmas.RingSignal
namespace Rv.Ring

structure Full (k : Nat) (σ : State) : Prop where
  i : Inv k σ
  w : InvW k σ
  s : InvS k σ
  t : InvT k σ

theorem Full.of_reachable {k : Nat} (hk : k ≤ 32) {σ : State} (h : Reachable k σ) : Full k σ := by
  induction h with
  | init => exact ⟨⟨InvA.init k, InvB.init k⟩, InvW.init k, InvS.init k, InvT.init k⟩
  | step l hr he ih =>
    exact ⟨Inv.of_reachable hk (Reachable.step l hr he), ih.w.step ih.i l he, ih.s.step ih.i l he,
      ih.t.step hk ih.i l he⟩

/-- transitions that make progress: everything except a new arrival, the two polls that find
    nothing (NextWriteCmd / WaitForWrite on a slot that is not filled — the latter merely puts
    the writer to sleep — and NextResultCh on a slot that was not handed to the writer) -/
def productive (k : Nat) (l : Label) (σ : State) : Bool :=
  match l with
  | .arrive => false
  | .wTry => (σ.slot (slotOf k (σ.read1 + 1))).mark == 1
  | .wWait => (σ.slot (slotOf k (σ.read1 + 1))).mark == 1
  | .rBegin => (σ.slot (slotOf k (σ.read2 + 1))).mark == 2
  | _ => true

/-- caller c is inside PutOne/PutMulti or waits for its reply -/
def pending (σ : State) (c : Nat) : Prop := σ.pc c ≠ .idle ∧ ∀ r, σ.pc c ≠ .done r

theorem Full.no_stuck {k : Nat} (hk : k ≤ 32) {σ : State} (h : Full k σ) (c : Nat) (hc : pending σ c) :
    ∃ l, enabled k l σ = true ∧ productive k l σ = true := by
  have hp := pow_pos' k
  -- 1. the reader is in the middle of NextResultCh … FinishResult
  cases hr : σ.rpc with
  | holding s g =>
    cases g with
    | some r =>
      rcases (h.i.b.hold s r hr).1 with t | t
      · exact ⟨.rDeliver r, by simp [enabled, hr, t], rfl⟩
      · exact ⟨.bcast r, by simp [enabled, t], rfl⟩
    | none => exact ⟨.rUnlock, by simp [enabled, hr], rfl⟩
  | signal s =>
    by_cases hw : ∃ c', σ.pc c' = .waiting s
    · obtain ⟨c', hc'⟩ := hw
      exact ⟨.rSignal (some c'), by simp [enabled, hr, hc'], rfl⟩
    · refine ⟨.rSignal none, ?_, rfl⟩
      simp only [enabled, hr, List.all_eq_true]
      intro c' _
      have : σ.pc c' ≠ .waiting s := fun e => hw ⟨c', e⟩
      simpa using this
  | idle =>
    have hnl : ∀ s, locked σ s = false := by intro s; simp [locked, hr]
    -- 2. some caller can run
    by_cases hrd : ∃ c' s, σ.pc c' = .ready s
    · obtain ⟨c', s, e⟩ := hrd
      exact ⟨.enter c', by simp [enabled, e, hnl], rfl⟩
    by_cases hbc : ∃ c' s, σ.pc c' = .bcast s
    · obtain ⟨c', s, e⟩ := hbc
      exact ⟨.bcast c', by simp [enabled, e], rfl⟩
    -- 3. the reader has something to complete
    by_cases hm2 : (σ.slot (slotOf k (σ.read2 + 1))).mark = 2
    · exact ⟨.rBegin, by simp [enabled, hr], by simp [productive, hm2]⟩
    -- 4. the writer
    have hsw : slotOf k (σ.read1 + 1) = (σ.read1 + 1) % 2 ^ k := slotOf_eq k _ hk
    have hswN : slotOf k (σ.read1 + 1) < 2 ^ k := hsw ▸ Nat.mod_lt _ hp
    have hm1 : σ.wpc ≠ .idle → (σ.slot (slotOf k (σ.read1 + 1))).mark ≠ 1 ∨ ∃ l, enabled k l σ = true ∧ productive k l σ = true := by
      intro hne
      cases hw : σ.wpc with
      | idle => exact absurd hw hne
      | woken s =>
        right
        exact ⟨.wWake, by simp [enabled, hw, hnl], rfl⟩
      | sleeping s =>
        left
        intro hm
        have e := h.i.a.wsl s hw
        rw [← hsw] at e; subst e
        obtain ⟨c', _, e⟩ := h.w.lw2 _ hw hm
        exact hbc ⟨c', _, e⟩
    by_cases hwi : σ.wpc = .idle
    · by_cases hm : (σ.slot (slotOf k (σ.read1 + 1))).mark = 1
      · exact ⟨.wTry, by simp [enabled, hwi, hnl], by simp [productive, hm]⟩
      · exact Full.no_stuck_aux hk h c hc hr hrd hbc hm2 hm
    · rcases hm1 hwi with hm | hex
      · exact Full.no_stuck_aux hk h c hc hr hrd hbc hm2 hm
      · exact hex
where
  /-- the remaining configuration is unreachable: the reader idle with nothing to complete, no
      runnable caller, the writer's next slot unfilled – then nobody can be pending -/
  Full.no_stuck_aux {k : Nat} (hk : k ≤ 32) {σ : State} (h : Full k σ) (c : Nat) (hc : pending σ c)
      (hr : σ.rpc = .idle) (hrd : ¬ ∃ c' s, σ.pc c' = .ready s) (hbc : ¬ ∃ c' s, σ.pc c' = .bcast s)
      (hm2 : (σ.slot (slotOf k (σ.read2 + 1))).mark ≠ 2)
      (hm : (σ.slot (slotOf k (σ.read1 + 1))).mark ≠ 1) :
      ∃ l, enabled k l σ = true ∧ productive k l σ = true := by
    exfalso
    have hp := pow_pos' k
    have ha := h.i.a
    have hsw : slotOf k (σ.read1 + 1) = (σ.read1 + 1) % 2 ^ k := slotOf_eq k _ hk
    have hsr : slotOf k (σ.read2 + 1) = (σ.read2 + 1) % 2 ^ k := slotOf_eq k _ hk
    rw [hsw] at hm; rw [hsr] at hm2
    have hswN : (σ.read1 + 1) % 2 ^ k < 2 ^ k := Nat.mod_lt _ hp
    have hsrN : (σ.read2 + 1) % 2 ^ k < 2 ^ k := Nat.mod_lt _ hp
    -- nothing in flight
    have h12 : σ.read1 = σ.read2 := by
      have g := ha.gen_of_window (σ.read2 + 1) (by omega) (by omega)
      have m := ha.mark2 _ hsrN
      have := ha.r21
      apply Classical.byContradiction; intro hne
      exact hm2 (m.2 (by omega))
    have gsw : (σ.slot ((σ.read1 + 1) % 2 ^ k)).gen = σ.read1 + 1 :=
      ha.gen_of_window (σ.read1 + 1) (by omega) (by omega)
    have hm0 : (σ.slot ((σ.read1 + 1) % 2 ^ k)).mark = 0 := by
      have m := ha.mark2 _ hswN
      have := ha.markle _ hswN
      have : (σ.slot ((σ.read1 + 1) % 2 ^ k)).mark ≠ 2 := fun e => by have := m.1 e; omega
      omega
    -- the pending caller sits on a filled slot s
    have hs : ∃ s, s < 2 ^ k ∧ (σ.slot s).mark ≠ 0 := by
      cases hpc : σ.pc c with
      | idle => exact absurd hpc hc.1
      | done r => exact absurd hpc (hc.2 r)
      | ready s => exact absurd ⟨c, s, hpc⟩ hrd
      | bcast s => exact absurd ⟨c, s, hpc⟩ hbc
      | waiting s =>
        refine ⟨s, (h.i.b.wtg c s hpc).1, ?_⟩
        rcases h.s.lw1 c s hpc with t | ⟨g, t⟩ | t | ⟨d, t⟩
        · exact t
        · rw [hr] at t; cases t
        · rw [hr] at t; cases t
        · exact absurd ⟨d, s, t⟩ hrd
      | filled s =>
        obtain ⟨l1, l2⟩ := h.i.b.live c s (Or.inl hpc)
        refine ⟨s, l1, ?_⟩
        rcases l2 with l2 | l2
        · exact l2.1
        · rw [hr] at l2; cases l2
    obtain ⟨s, hsN, hms⟩ := hs
    -- nobody holds a ticket for the writer's slot
    have hcnt : cnt σ.pc (outB ((σ.read1 + 1) % 2 ^ k)) σ.ncalls = 0 := by
      apply cnt_zero
      intro c' _
      cases hpc : σ.pc c' with
      | ready s' => exact absurd ⟨c', s', hpc⟩ hrd
      | waiting s' =>
        simp only [outB]
        by_cases e : s' = (σ.read1 + 1) % 2 ^ k
        · exfalso
          subst e
          rcases h.s.lw1 c' _ hpc with t | ⟨g, t⟩ | t | ⟨d, t⟩
          · exact t hm0
          · rw [hr] at t; cases t
          · rw [hr] at t; cases t
          · exact absurd ⟨d, _, t⟩ hrd
        · simpa using e
      | _ => rfl
    have c1 := h.t.cntI _ hswN
    rw [hcnt] at c1
    simp only [fillNext, hm0, if_true, gsw] at c1
    have t1 := h.t.toplo _ hswN
    have c2 := h.t.cntI s hsN
    simp only [fillNext, hms, if_false] at c2
    have t2 := h.t.tophi s hsN
    have g2 := ha.genlo s hsN
    omega

end Rv.Ring
