/-
Case analysis of a single-flight lookup of the LRU model: the four outcomes of
`Flight` (and of one round of the second loop of `Flights`).
-/
import Rv.Lemmas.LruInv
namespace Rv.Lru

/-- the pending entry `Flight`/`Flights` push on a miss -/
def newEntry (s : State) (k c : Bytes) (ttl now : Int) : Entry :=
  { id := s.nextId, key := k, cmd := c, pend := true, val := 0, size := 0, exp := pack (unixMilli (now + ttl)) }

/-- everything but list/hits/size/nextId -/
def Frame (s s' : State) : Prop :=
  s'.closed = s.closed ∧ s'.done = s.done ∧ s'.max = s.max ∧ s'.base = s.base

/-- the four outcomes of a single-flight lookup (`Flight`, or one round of the second loop of `Flights`) -/
inductive Outcome4 (s : State) (k c : Bytes) (ttl now : Int) (s' : State) (r : FRes) : Prop
  | closed (hc : s.closed = true) (hs : s' = s) (hr : r = .send)
  | found (e : Entry) (hc : s.closed = false) (hf : find? s.list k c = some e) (hv : valid e (unixMilli now) = true)
      (hr : r = resOf e) (hl : s'.list = s.list ∨ s'.list = moveToBack s.list e)
      (hsz : s'.size = s.size) (hn : s'.nextId = s.nextId) (fr : Frame s s')
  | expired (e : Entry) (hc : s.closed = false) (hf : find? s.list k c = some e) (hv : valid e (unixMilli now) = false)
      (hr : r = .send) (hl : s'.list = s.list.erase e ++ [newEntry s k c ttl now])
      (hsz : s'.size = s.size - e.size) (hn : s'.nextId = s.nextId + 1) (fr : Frame s s')
  | absent (hc : s.closed = false) (hf : find? s.list k c = none)
      (hr : r = .send) (hl : s'.list = s.list ++ [newEntry s k c ttl now])
      (hsz : s'.size = s.size) (hn : s'.nextId = s.nextId + 1) (fr : Frame s s')

theorem ensureKc_list (s : State) (k : Bytes) : (ensureKc s k).list = s.list := by unfold ensureKc; split <;> rfl
theorem ensureKc_size (s : State) (k : Bytes) : (ensureKc s k).size = s.size := by unfold ensureKc; split <;> rfl
theorem ensureKc_nextId (s : State) (k : Bytes) : (ensureKc s k).nextId = s.nextId := by unfold ensureKc; split <;> rfl
theorem ensureKc_frame (s : State) (k : Bytes) : Frame s (ensureKc s k) := by
  unfold ensureKc Frame; split <;> exact ⟨rfl, rfl, rfl, rfl⟩

theorem locked_cases (s : State) (k c : Bytes) (ttl now : Int) :
    Outcome4 s k c ttl now (locked s k c ttl now).1 (locked s k c ttl now).2 := by
  unfold locked
  split
  · rename_i hc; exact .closed hc rfl rfl
  · rename_i hc
    have hc : s.closed = false := by simpa using hc
    have hl := ensureKc_list s k
    have hs := ensureKc_size s k
    have hn := ensureKc_nextId s k
    have hfr := ensureKc_frame s k
    generalize ensureKc s k = s1 at hl hs hn hfr
    simp only
    split
    · rename_i e hf
      rw [hl] at hf
      split
      · rename_i hv
        exact .found e hc hf hv rfl (Or.inr (by simp [bumpHits, setHits, hl])) hs hn hfr
      · rename_i hv
        have hv : valid e (unixMilli now) = false := by simpa using hv
        exact .expired e hc hf hv rfl (by simp [newEntry, hl, hn]) (by simp [hs]) (by simp [hn]) hfr
    · rename_i hf
      rw [hl] at hf
      exact .absent hc hf rfl (by simp [newEntry, hl, hn]) hs (by simp [hn]) hfr

theorem flight_cases (s : State) (k c : Bytes) (ttl now : Int) :
    Outcome4 s k c ttl now (flight s k c ttl now).1 (flight s k c ttl now).2 := by
  unfold flight
  split
  · rename_i e hf
    split
    · rename_i hv
      have hc : s.closed = false := by
        cases h : s.closed
        · rfl
        · simp [h] at hf
      have hf' : find? s.list k c = some e := by simpa [hc] using hf
      simp only
      split
      · exact .found e hc hf' hv rfl (Or.inr (by simp [bumpHits, setHits])) rfl rfl ⟨rfl, rfl, rfl, rfl⟩
      · exact .found e hc hf' hv rfl (Or.inl rfl) rfl rfl ⟨rfl, rfl, rfl, rfl⟩
    · exact locked_cases s k c ttl now
  · exact locked_cases s k c ttl now

/-- the completed entry `Update` writes over a pending one -/
def updEntry (s : State) (e : Entry) (k c : Bytes) (v : Nat) (vsz raw : Int) : Entry :=
  { e with pend := false, val := v, exp := chooseExp e.exp (pack raw),
           size := s.base + 2 * ((k.length : Int) + (c.length : Int)) + vsz }

/-- the four outcomes of `Update` -/
inductive UpdOutcome (s : State) (k c : Bytes) (v : Nat) (vsz raw : Int) (s' : State) (p : Int) : Prop
  | closed (hc : s.closed = true) (hs : s' = s) (hp : p = 0)
  | absent (hc : s.closed = false) (hf : find? s.list k c = none) (hs : s' = s) (hp : p = 0)
  | fill (e : Entry) (hc : s.closed = false) (hf : find? s.list k c = some e) (hpend : e.pend = true)
      (hp : p = chooseExp e.exp (pack raw))
      (hl : s'.list = (evictLoop s.max (s.size + (updEntry s e k c v vsz raw).size)
                        (s.list.replace e (updEntry s e k c v vsz raw))).2.1)
      (hsz : s'.size = (evictLoop s.max (s.size + (updEntry s e k c v vsz raw).size)
                        (s.list.replace e (updEntry s e k c v vsz raw))).1)
      (hd : s'.done = s.done ++ [(e.id, .val v p)])
      (hcl : s'.closed = false) (hmx : s'.max = s.max) (hn : s'.nextId = s.nextId)
  | stale (e : Entry) (hc : s.closed = false) (hf : find? s.list k c = some e) (hpend : e.pend = false)
      (hp : p = 0)
      (hl : s'.list = (evictLoop s.max s.size s.list).2.1)
      (hsz : s'.size = (evictLoop s.max s.size s.list).1)
      (hd : s'.done = s.done)
      (hcl : s'.closed = false) (hmx : s'.max = s.max) (hn : s'.nextId = s.nextId)

theorem update_cases (s : State) (k c : Bytes) (v : Nat) (vsz raw : Int) :
    UpdOutcome s k c v vsz raw (update s k c v vsz raw).1 (update s k c v vsz raw).2 := by
  unfold update
  split
  · rename_i hc; exact .closed hc rfl rfl
  · rename_i hc
    have hc : s.closed = false := by simpa using hc
    split
    · rename_i hf; exact .absent hc hf rfl rfl
    · rename_i e hf
      by_cases hp : e.pend = true
      · simp only [hp, if_true]
        exact .fill e hc hf hp rfl rfl rfl rfl hc rfl rfl
      · have hp' : e.pend = false := by simpa using hp
        simp only [hp', Bool.false_eq_true, if_false]
        exact .stale e hc hf hp' rfl rfl rfl rfl hc rfl rfl

theorem outcome_max {s s' : State} {k c : Bytes} {ttl now : Int} {r : FRes}
    (o : Outcome4 s k c ttl now s' r) : s'.max = s.max ∧ s'.base = s.base := by
  cases o with
  | closed hc hs hr => subst hs; exact ⟨rfl, rfl⟩
  | found e hc hf hv hr hl hsz hn fr => exact ⟨fr.2.2.1, fr.2.2.2⟩
  | expired e hc hf hv hr hl hsz hn fr => exact ⟨fr.2.2.1, fr.2.2.2⟩
  | absent hc hf hr hl hsz hn fr => exact ⟨fr.2.2.1, fr.2.2.2⟩

theorem flights2_max (multi : List (Bytes × Bytes × Int)) (now : Int) (ms : List Nat) (s : State)
    (res : List (Option FRes)) (out : List Nat) :
    (flights2 multi now ms s res out).1.max = s.max ∧ (flights2 multi now ms s res out).1.base = s.base := by
  induction ms generalizing s res out with
  | nil => exact ⟨rfl, rfl⟩
  | cons i rest ih =>
    simp only [flights2]
    split
    · exact ih _ _ _
    · rename_i k c ttl hm
      have := outcome_max (locked_cases s k c ttl now)
      have h2 := ih (locked s k c ttl now).1 (res.set i (some (locked s k c ttl now).2))
        (if (locked s k c ttl now).2 = .send then out ++ [i] else out)
      exact ⟨h2.1.trans this.1, h2.2.trans this.2⟩

theorem foldl_purge_max (keys : List Bytes) (s : State) :
    (keys.foldl purge s).max = s.max ∧ (keys.foldl purge s).base = s.base := by
  induction keys generalizing s with
  | nil => exact ⟨rfl, rfl⟩
  | cons k rest ih => exact ⟨(ih _).1, (ih _).2⟩

theorem step_max (s : State) (op : Op) : (step s op).1.max = s.max ∧ (step s op).1.base = s.base := by
  cases op with
  | flight k c ttl now => exact outcome_max (flight_cases s k c ttl now)
  | flights now multi =>
    simp only [step]
    unfold flights
    have hfr := flights1_frame (unixMilli now) multi 0 { s := s, res := [], moves := [], missed := [] }
    generalize flights1 (unixMilli now) multi 0 { s := s, res := [], moves := [], missed := [] } = a at hfr
    simp only at hfr ⊢
    split
    · exact ⟨hfr.1, hfr.2.1⟩
    · split
      · exact ⟨hfr.1, hfr.2.1⟩
      · have := flights2_max multi now a.missed { a.s with list := a.moves.foldl moveToBack a.s.list } a.res []
        exact ⟨this.1.trans hfr.1, this.2.trans hfr.2.1⟩
  | update k c v vsz raw =>
    simp only [step]
    unfold update; split
    · exact ⟨rfl, rfl⟩
    · split
      · exact ⟨rfl, rfl⟩
      · simp only [gcHits]; split <;> exact ⟨rfl, rfl⟩
  | cancel k c err =>
    simp only [step]
    unfold cancel; split
    · exact ⟨rfl, rfl⟩
    · split
      · exact ⟨rfl, rfl⟩
      · split <;> exact ⟨rfl, rfl⟩
  | delete keys =>
    cases keys with
    | none => exact foldl_purge_max _ s
    | some ks => exact foldl_purge_max _ s
  | close err => exact ⟨rfl, rfl⟩
  | sethits k n => exact ⟨rfl, rfl⟩

theorem run_max (s : State) (ops : List Op) : (run s ops).max = s.max ∧ (run s ops).base = s.base := by
  induction ops generalizing s with
  | nil => exact ⟨rfl, rfl⟩
  | cons op rest ih =>
    have := step_max s op
    exact ⟨(ih _).1.trans this.1, (ih _).2.trans this.2⟩

end Rv.Lru
