/-
C12 main induction, part 2: list loops, aggregates, attributes, and the final recursion.
-/
import Rv.Lemmas.RespRound
namespace Rv.RespL
open Rv Rv.Resp Rv.Spec

theorem readerOf_end : readerOf 46 = some .null := by decide
section
variable (B : Nat) (hb : 32 ≤ B)
include hb

theorem readNext_end (f : Nat) (rest : List UInt8) :
    readNext B (f + 1) [] (46 :: 13 :: 10 :: rest) = .ok (Msg.mk 46 [] 0 [] [], rest) := by
  have hlen : ¬ (rest.length + 1 + 1 < 2) := by omega
  simp only [readNext, readerOf_end, readBody, discard2, List.length_cons, hlen, if_false, List.drop]
  simp [Msg.leafInt, Msg.withAttr]

theorem ok_nil : ListOK B [] := by
  refine ⟨?_, ?_⟩
  · intro f rest _
    cases f <;> simp [readArr, bytesL, valueL]
  · intro f acc rest hf
    simp only [needE] at hf
    cases f with
    | zero => omega
    | succ f =>
      cases f with
      | zero => omega
      | succ f =>
        rw [readEnd]
        simp only [bytesL, List.nil_append, readNext_end B hb f rest, Msg.typ, if_true, valueL, List.append_nil]

theorem ok_cons (x : Wire) (xs : List Wire) (hx : WireOK B x) (hxs : WFL xs = true → ListOK B xs)
    (hwf : WFL (x :: xs) = true) : ListOK B (x :: xs) := by
  simp only [WFL, Bool.and_eq_true] at hwf
  obtain ⟨hwx, hwxs⟩ := hwf
  obtain ⟨hx1, hx2, _⟩ := hx
  obtain ⟨hl1, hl2⟩ := hxs hwxs
  refine ⟨?_, ?_⟩
  · intro f rest hf
    simp only [needL] at hf
    cases f with
    | zero => omega
    | succ f =>
      simp only [List.length_cons, bytesL, List.append_assoc]
      rw [readArr, hx1 hwx f [] _ (by omega)]
      simp only [hl1 f rest (by omega), valueL]
  · intro f acc rest hf
    simp only [needE] at hf
    cases f with
    | zero => omega
    | succ f =>
      simp only [bytesL, List.append_assoc]
      rw [readEnd, hx1 hwx f [] _ (by omega)]
      simp only [hx2 hwx [], if_false]
      rw [hl2 f _ rest (by omega)]
      simp [valueL]
omit hb in
theorem preFixed_ok (n : Nat) : preFixed (n : Int) = .ok () := by
  unfold preFixed
  have : ¬ ((n : Int) < 0) := by omega
  simp only [this, if_false]
  have : min (n : Int) (capMsgs : Int) = ((min n capMsgs : Nat) : Int) := by omega
  rw [this]; exact alloc_ok _ _ _ (by omega)

omit hb in
theorem fixedBody_ok (t : UInt8) (n : Nat) (k : Nat → Res (List Msg × List UInt8)) :
    fixedBody t (n : Int) k = wrapFixed t n (k n) := by
  unfold fixedBody
  rw [preFixed_ok]
  simp only [Int.toNat_natCast]

omit hb in
theorem arrCase_num (t : UInt8) (n : Nat) (r : List UInt8) (kA kE) :
    arrCase t (.num (n : Int) r) kA kE = wrapFixed t n (kA n r) := by
  unfold arrCase
  have h1 : ¬ ((n : Int) = -1) := by omega
  simp only [h1, if_false, fixedBody_ok]

omit hb in
theorem mapCase_num (t : UInt8) (n : Nat) (heven : n % 2 = 0) (hlen : n < 9223372036854775808)
    (r : List UInt8) (kA kE) :
    mapCase t (.num ((n / 2 : Nat) : Int) r) kA kE = wrapFixed t n (kA n r) := by
  unfold mapCase
  have hw : wrap64 (((n / 2 : Nat) : Int) * 2) = (n : Int) := by unfold wrap64; omega
  simp only [hw, fixedBody_ok]

omit hb in
theorem arrCase_chunked (t : UInt8) (r0 : List UInt8) (kA kE) :
    arrCase t (.chunked r0) kA kE = wrapStream t (kE r0) := rfl
omit hb in
theorem mapCase_chunked (t : UInt8) (r0 : List UInt8) (kA kE) :
    mapCase t (.chunked r0) kA kE = wrapStream t (kE r0) := rfl

theorem arr_body (t : UInt8) (xs : List Wire) (hxs : ListOK B xs)
    (hlen : xs.length < 9223372036854775808) (f : Nat) (rest : List UInt8) (hf : needL xs ≤ f) :
    readBody B (f + 1) t .array (digits xs.length ++ (crlf ++ (bytesL xs ++ rest)))
      = .ok (some (Msg.mk t [] xs.length (valueL xs) []), rest) := by
  have hI := readI_digits B xs.length hb hlen (bytesL xs ++ rest)
  simp only [List.append_assoc] at hI
  rw [readBody, hI, arrCase_num, hxs.1 f rest hf]
  rfl

theorem map_body (t : UInt8) (xs : List Wire) (hxs : ListOK B xs)
    (heven : xs.length % 2 = 0) (hlen : xs.length < 9223372036854775808) (f : Nat) (rest : List UInt8)
    (hf : needL xs ≤ f) :
    readBody B (f + 1) t .map (digits (xs.length / 2) ++ (crlf ++ (bytesL xs ++ rest)))
      = .ok (some (Msg.mk t [] xs.length (valueL xs) []), rest) := by
  have hI := readI_digits B (xs.length / 2) hb (by omega) (bytesL xs ++ rest)
  simp only [List.append_assoc] at hI
  rw [readBody, hI, mapCase_num t xs.length heven hlen, hxs.1 f rest hf]
  rfl

theorem stream_body (t : UInt8) (rk : RK) (hrk : rk = .array ∨ rk = .map) (xs : List Wire) (hxs : ListOK B xs)
    (f : Nat) (rest : List UInt8) (hf : needE xs ≤ f) :
    readBody B (f + 1) t rk (63 :: 13 :: 10 :: (bytesL xs ++ (46 :: 13 :: 10 :: rest)))
      = .ok (some (Msg.mk t [] xs.length (valueL xs) []), rest) := by
  have hE := hxs.2 f [] rest hf
  rcases hrk with h | h <;> subst h
  · rw [readBody, readI_q B hb, arrCase_chunked, hE]
    simp [wrapStream, Msg.agg, valueL_length]
  · rw [readBody, readI_q B hb, mapCase_chunked, hE]
    simp [wrapStream, Msg.agg, valueL_length]

theorem ok_arr (t : UInt8) (xs : List Wire) (hxs : WFL xs = true → ListOK B xs) : WireOK B (.arr t xs) := by
  refine ⟨?_, ?_, ?_⟩
  · intro hwf f ats rest hf
    simp only [WF, Bool.and_eq_true] at hwf
    obtain ⟨⟨ht, hlen⟩, hw⟩ := hwf
    have hlen := of_decide_eq_true hlen
    simp only [lim] at hlen
    obtain ⟨hr, h124⟩ := readerOf_arr ht
    simp only [need] at hf
    cases f with
    | zero => omega
    | succ f =>
      cases f with
      | zero => omega
      | succ f =>
        simp only [bytes, List.cons_append, List.append_assoc]
        rw [readNext]
        simp only [hr]
        rw [arr_body B hb t xs (hxs hw) hlen f rest (by omega)]
        simp [h124, value, Msg.withAttr]
  · intro hwf ats
    simp only [WF, Bool.and_eq_true] at hwf
    have := (readerOf_arr hwf.1.1)
    simp only [value, Msg.typ]
    intro h; subst h; simp [readerOf] at this
  · intro h; simp [attrOK] at h

theorem ok_map (t : UInt8) (xs : List Wire) (hxs : WFL xs = true → ListOK B xs) : WireOK B (.map t xs) := by
  refine ⟨?_, ?_, ?_⟩
  · intro hwf f ats rest hf
    simp only [WF, Bool.and_eq_true, beq_iff_eq] at hwf
    obtain ⟨⟨⟨ht, heven⟩, hlen⟩, hw⟩ := hwf
    have hlen := of_decide_eq_true hlen
    have heven := of_decide_eq_true heven
    simp only [lim] at hlen
    subst ht
    simp only [need] at hf
    cases f with
    | zero => omega
    | succ f =>
      cases f with
      | zero => omega
      | succ f =>
        have hr : readerOf 37 = some .map := by decide
        simp only [bytes, List.cons_append, List.append_assoc]
        rw [readNext]
        simp only [hr]
        rw [map_body B hb 37 xs (hxs hw) heven hlen f rest (by omega)]
        simp [value, Msg.withAttr]
  · intro hwf ats
    simp only [WF, Bool.and_eq_true, beq_iff_eq] at hwf
    simp only [value, Msg.typ, hwf.1.1.1]
    decide
  · intro h
    simp only [attrOK, Bool.and_eq_true, beq_iff_eq] at h
    obtain ⟨⟨⟨ht, heven⟩, hlen⟩, hw⟩ := h
    have hlen := of_decide_eq_true hlen
    have heven := of_decide_eq_true heven
    simp only [lim] at hlen
    subst ht
    refine ⟨digits (xs.length / 2) ++ crlf ++ bytesL xs, by simp [bytes], ?_⟩
    intro f rest hf
    simp only [need] at hf
    cases f with
    | zero => omega
    | succ f =>
      have := map_body B hb 124 xs (hxs hw) heven hlen f rest (by omega)
      simp only [List.append_assoc]
      rw [this]; simp [value]

theorem ok_stream (t : UInt8) (xs : List Wire) (hxs : WFL xs = true → ListOK B xs) : WireOK B (.stream t xs) := by
  refine ⟨?_, ?_, ?_⟩
  · intro hwf f ats rest hf
    simp only [WF, Bool.and_eq_true] at hwf
    obtain ⟨ht, hw⟩ := hwf
    simp only [need] at hf
    have hrk : ∃ rk, readerOf t = some rk ∧ (rk = .array ∨ rk = .map) ∧ t ≠ 124 := by
      simp only [isStreamT, Bool.or_eq_true, beq_iff_eq] at ht
      rcases ht with ht | ht
      · exact ⟨.array, (readerOf_arr ht).1, Or.inl rfl, (readerOf_arr ht).2⟩
      · subst ht; exact ⟨.map, by decide, Or.inr rfl, by decide⟩
    obtain ⟨rk, hr, hrk, h124⟩ := hrk
    cases f with
    | zero => omega
    | succ f =>
      cases f with
      | zero => omega
      | succ f =>
        have hshape : bytes (.stream t xs) ++ rest = t :: 63 :: 13 :: 10 :: (bytesL xs ++ (46 :: 13 :: 10 :: rest)) := by
          simp [bytes, crlf, List.append_assoc]
        rw [hshape, readNext]
        simp only [hr]
        rw [stream_body B hb t rk hrk xs (hxs hw) f rest (by omega)]
        simp [h124, value, Msg.withAttr]
  · intro hwf ats
    simp only [WF, Bool.and_eq_true] at hwf
    simp only [value, Msg.typ]
    intro h; subst h
    have := hwf.1
    revert this; decide
  · intro h
    simp only [attrOK, Bool.and_eq_true, beq_iff_eq] at h
    obtain ⟨ht, hw⟩ := h
    subst ht
    refine ⟨63 :: 13 :: 10 :: (bytesL xs ++ [46, 13, 10]), by simp [bytes, crlf], ?_⟩
    intro f rest hf
    simp only [need] at hf
    cases f with
    | zero => omega
    | succ f =>
      have := stream_body B hb 124 .map (Or.inr rfl) xs (hxs hw) f rest (by omega)
      simp only [List.cons_append, List.append_assoc, List.nil_append]
      rw [this]; simp [value]

theorem ok_attr (a w : Wire) (ha : WireOK B a) (hw : WireOK B w) : WireOK B (.attr a w) := by
  obtain ⟨_, _, ha3⟩ := ha
  obtain ⟨hw1, hw2, _⟩ := hw
  refine ⟨?_, ?_, ?_⟩
  · intro hwf f ats rest hf
    simp only [WF, Bool.and_eq_true] at hwf
    obtain ⟨hao, hww⟩ := hwf
    obtain ⟨tl, htl, hbody⟩ := ha3 hao
    simp only [need] at hf
    cases f with
    | zero => omega
    | succ f =>
      have hr : readerOf 124 = some .map := by decide
      simp only [bytes, htl, List.cons_append, List.append_assoc]
      rw [readNext]
      simp only [hr]
      rw [hbody f (bytes w ++ rest) (by omega)]
      simp only [if_true]
      rw [hw1 hww f _ rest (by omega)]
      simp [value]
  · intro hwf ats
    simp only [WF, Bool.and_eq_true] at hwf
    simp only [value]
    exact hw2 hwf.2 _
  · intro h; simp [attrOK] at h

/-- every wire form / list of wire forms is decoded as the specification says -/
theorem wire_ok (w : Wire) : WireOK B w := by
  refine Wire.rec (motive_1 := fun w => WireOK B w) (motive_2 := fun xs => WFL xs = true → ListOK B xs)
    ?_ ?_ ?_ ?_ ?_ ?_ ?_ ?_ ?_ ?_ ?_ ?_ ?_ ?_ w
  · exact ok_blob B hb
  · exact ok_chunked B hb
  · exact ok_nullBlob B hb
  · exact ok_line B hb
  · exact ok_int B hb
  · exact ok_null B hb
  · exact ok_bool B hb
  · exact fun t xs ih => ok_arr B hb t xs ih
  · exact fun t xs ih => ok_map B hb t xs ih
  · exact fun t xs ih => ok_stream B hb t xs ih
  · exact ok_nullArr B hb
  · exact fun a w iha ihw => ok_attr B hb a w iha ihw
  · exact fun _ => ok_nil B hb
  · exact fun x xs ihx ihxs hwf => ok_cons B hb x xs ihx ihxs hwf

end
end Rv.RespL
