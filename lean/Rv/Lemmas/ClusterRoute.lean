/-
Lemmas about the routing model (`Rv.Model.ClusterRoute`): slot table build, `_pick`,
`redirectOrNew`, the redirect loop of `do`/`doCache`, the single-flight automaton.
-/
import Rv.Model.ClusterRoute
import Rv.Lemmas.ClusterParse
namespace Rv.ClusterRouteL
open Rv Rv.Topology Rv.ClusterRoute Rv.ClusterParse

/-! ### the write table in plain mode -/

def covers (g : Group) (s : Nat) : Bool := g.slots.any fun r => visits r.1 r.2 s

def headConn (m : List (Bytes × Conn × Bool)) (g : Group) : Option Conn := (g.nodes.head?).bind (connOf m)

/-- "the last group (in visiting order) that lists the slot wins" -/
def tableSpec (m : List (Bytes × Conn × Bool)) (gs : List Group) (acc : Option Conn) (s : Nat) : Option Conn :=
  gs.foldl (fun acc g => if covers g s then headConn m g else acc) acc

theorem foldl_setRange (c : Option Conn) : ∀ (rs : List (Int × Int)) (w : Nat → Option Conn) (s : Nat),
    (rs.foldl (fun w r => setRange r.1 r.2 (fun _ => c) w) w) s
      = if rs.any (fun r => visits r.1 r.2 s) then c else w s := by
  intro rs
  induction rs with
  | nil => intro w s; rfl
  | cons r rest ih =>
    intro w s
    rw [List.foldl_cons, ih]
    simp only [List.any_cons, setRange]
    by_cases h1 : rest.any (fun r => visits r.1 r.2 s) = true
    · simp [h1]
    · by_cases h2 : visits r.1 r.2 s = true
      · simp [h1, h2]
      · simp [h1, h2]

theorem applyGroup_plain (o : Opt) (hm : o.mode = .plain) (m : List (Bytes × Conn × Bool)) (ro : Nat → Nat → Nat)
    (t : (Nat → Option Conn) × Option (Nat → List Conn)) (g : Group) (hne : g.nodes ≠ []) :
    ∃ w, applyGroup o m ro t g = .ok (w, t.2) ∧ ∀ s, w s = if covers g s then headConn m g else t.1 s := by
  unfold applyGroup
  match hg : g.nodes with
  | [] => exact absurd hg hne
  | n0 :: reps =>
    simp only [hm]
    refine ⟨_, rfl, ?_⟩
    intro s
    rw [foldl_setRange]
    simp only [covers, headConn, hg, List.head?_cons, Option.bind_some]

theorem buildTables_plain_gen (o : Opt) (hm : o.mode = .plain) (m : List (Bytes × Conn × Bool)) (ro : Nat → Nat → Nat) :
    ∀ (gs : List Group) (t : (Nat → Option Conn) × Option (Nat → List Conn)), (∀ g ∈ gs, g.nodes ≠ []) →
    ∃ w, foldRes (applyGroup o m ro) t gs = .ok (w, t.2) ∧ ∀ s, w s = tableSpec m gs (t.1 s) s := by
  intro gs
  induction gs with
  | nil => intro t _; exact ⟨t.1, rfl, fun _ => rfl⟩
  | cons g rest ih =>
    intro t hne
    obtain ⟨w1, h1, hw1⟩ := applyGroup_plain o hm m ro t g (hne g (List.mem_cons_self ..))
    obtain ⟨w2, h2, hw2⟩ := ih (w1, t.2) (fun g' hg' => hne g' (List.mem_cons_of_mem _ hg'))
    refine ⟨w2, ?_, ?_⟩
    · unfold foldRes; rw [h1]; exact h2
    · intro s
      rw [hw2 s]
      simp only [tableSpec, List.foldl_cons, hw1 s]

theorem tableSpec_none_cover (m : List (Bytes × Conn × Bool)) (s : Nat) : ∀ (gs : List Group) (acc : Option Conn),
    (∀ g ∈ gs, covers g s = false) → tableSpec m gs acc s = acc := by
  intro gs
  induction gs with
  | nil => intro acc _; rfl
  | cons g rest ih =>
    intro acc h
    simp only [tableSpec, List.foldl_cons, h g (List.mem_cons_self ..)]
    exact ih _ (fun g' hg' => h g' (List.mem_cons_of_mem _ hg'))

/-- if all groups listing the slot agree on the connection, that connection is in the table -/
theorem tableSpec_agree (m : List (Bytes × Conn × Bool)) (s : Nat) (x : Option Conn) : ∀ (gs : List Group) (acc : Option Conn),
    (∀ g ∈ gs, covers g s = true → headConn m g = x) → (∃ g ∈ gs, covers g s = true) →
    tableSpec m gs acc s = x := by
  intro gs
  induction gs with
  | nil => intro acc _ h; obtain ⟨g, hg, _⟩ := h; cases hg
  | cons g rest ih =>
    intro acc hall hex
    by_cases hr : ∃ g' ∈ rest, covers g' s = true
    · simp only [tableSpec, List.foldl_cons]
      exact ih _ (fun g' hg' => hall g' (List.mem_cons_of_mem _ hg')) hr
    · have hnone : ∀ g' ∈ rest, covers g' s = false := by
        intro g' hg'
        cases hc : covers g' s with
        | false => rfl
        | true => exact absurd ⟨g', hg', hc⟩ hr
      obtain ⟨g0, hg0, hc0⟩ := hex
      have hg : covers g s = true := by
        rcases List.mem_cons.mp hg0 with h | h
        · exact h ▸ hc0
        · rw [hnone g0 h] at hc0; cases hc0
      simp only [tableSpec, List.foldl_cons, hg, if_true]
      have := tableSpec_none_cover m s rest (headConn m g) hnone
      simp only [tableSpec] at this
      rw [this]
      exact hall g (List.mem_cons_self ..) hg

/-! ### `redirectOrNew` -/

/-- every connection is filed under its own address -/
def ConnsOK (c : Client) : Prop := ∀ a cc h, cget a c.conns = some (cc, h) → cc.addr = a

theorem redirectOrNew_addr (c : Client) (addr : Bytes) (prev : Conn) (slot : Nat) (mv : Bool) (h : ConnsOK c) :
    (redirectOrNew c addr prev slot mv).1.addr = addr := by
  unfold redirectOrNew
  simp only
  cases hg : cget addr c.conns with
  | none => rfl
  | some p =>
    obtain ⟨cc, hid⟩ := p
    simp only
    split
    · exact h addr cc hid hg
    · rfl

/-- membership form of `ConnsOK` (implies it) -/
def ConnsOK' (m : List (Bytes × Conn × Bool)) : Prop := ∀ e ∈ m, e.2.1.addr = e.1

theorem connsOK_of' (c : Client) (h : ConnsOK' c.conns) : ConnsOK c := by
  intro a cc hid hg
  unfold cget at hg
  cases hf : c.conns.find? (fun e => decide (e.1 = a)) with
  | none => rw [hf] at hg; cases hg
  | some e =>
    rw [hf] at hg
    simp only [Option.map_some, Option.some.injEq] at hg
    have hmem := List.mem_of_find?_eq_some hf
    have hkey : e.1 = a := by simpa using List.find?_some hf
    have := h e hmem
    rw [← hkey, ← this, hg]

theorem cset_ok' (a : Bytes) (v : Conn × Bool) (m : List (Bytes × Conn × Bool)) (h : ConnsOK' m) (hv : v.1.addr = a) :
    ConnsOK' (cset a v m) := by
  intro e he
  unfold cset at he
  split at he
  · obtain ⟨x, hx, hf⟩ := List.mem_map.mp he
    by_cases hc : x.1 = a
    · rw [if_pos hc] at hf; rw [← hf]; exact hv
    · rw [if_neg hc] at hf; rw [← hf]; exact h x hx
  · rcases List.mem_append.mp he with h1 | h1
    · exact h e h1
    · rw [List.mem_singleton.mp h1]; exact hv

/-- `redirectOrNew` keeps every connection filed under its own address -/
theorem redirectOrNew_ok' (c : Client) (addr : Bytes) (prev : Conn) (slot : Nat) (mv : Bool) (h : ConnsOK' c.conns) :
    ConnsOK' (redirectOrNew c addr prev slot mv).2.conns := by
  unfold redirectOrNew
  simp only
  split
  · split
    · exact h
    · exact cset_ok' addr _ c.conns h rfl
  · exact cset_ok' addr _ c.conns h rfl

/-- the connection map built by `_refresh` files every connection under its own address -/
theorem refreshConns_ok' (o : Opt) (c : Client) (gs : Groups) (h : ConnsOK' c.conns) :
    ConnsOK' (refreshConns o c gs).1 := by
  unfold refreshConns
  simp only
  have hstep : ∀ (acc : List (Bytes × Conn × Bool) × Nat) (a : Bytes) (hidden : Bool), ConnsOK' acc.1 →
      ConnsOK' (if acc.1.any (fun e => decide (e.1 = a)) = true then acc
        else match cget a c.conns with
          | some (cc, _) => (acc.1 ++ [(a, cc, hidden)], acc.2)
          | none => (acc.1 ++ [(a, ({ addr := a, serial := acc.2 } : Conn), hidden)], acc.2 + 1)).1 := by
    intro acc a hidden hacc
    split
    · exact hacc
    · cases hg : cget a c.conns with
      | none =>
        intro e he
        rcases List.mem_append.mp he with h1 | h1
        · exact hacc e h1
        · rw [List.mem_singleton.mp h1]
      | some p =>
        obtain ⟨cc, hid⟩ := p
        intro e he
        rcases List.mem_append.mp he with h1 | h1
        · exact hacc e h1
        · rw [List.mem_singleton.mp h1]
          exact connsOK_of' c h a cc hid hg
  have hfold : ∀ (as : List Bytes) (hidden : Bool) (acc : List (Bytes × Conn × Bool) × Nat), ConnsOK' acc.1 →
      ConnsOK' (as.foldl (fun acc a =>
        if acc.1.any (fun e => decide (e.1 = a)) = true then acc
        else match cget a c.conns with
          | some (cc, _) => (acc.1 ++ [(a, cc, hidden)], acc.2)
          | none => (acc.1 ++ [(a, ({ addr := a, serial := acc.2 } : Conn), hidden)], acc.2 + 1)) acc).1 := by
    intro as hidden
    induction as with
    | nil => intro acc hacc; exact hacc
    | cons a rest ih => intro acc hacc; exact ih _ (hstep acc a hidden hacc)
  exact hfold _ true _ (hfold _ false _ (fun e he => by cases he))

end Rv.ClusterRouteL
