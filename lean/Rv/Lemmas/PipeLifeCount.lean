/-
Pipe life model: the counting invariant. `waits` equals the number of goroutines that have
incremented it and not yet decremented it (callers between `incrWaits` and their decrement,
the abort goroutines, the two PING helpers, Close), and every call that waits on its result
channel owns exactly one slot (a queue entry or the reader's in-flight batch).
-/
import Rv.Lemmas.PipeLifeBasic
namespace Rv.PipeLife

/-! ### projections of the primitive updates -/

theorem startBg_frame (s : St) :
    (startBg s).calls = s.calls ∧ (startBg s).queue = s.queue ∧ (startBg s).inflight = s.inflight ∧
    (startBg s).bgPing = s.bgPing ∧ (startBg s).cpOwed = s.cpOwed ∧ (startBg s).waits = s.waits ∧
    (startBg s).close = s.close ∧ (startBg s).log = s.log ∧ (startBg s).wire = s.wire ∧
    (startBg s).err = s.err ∧ (startBg s).connUp = s.connUp := by
  unfold startBg; split <;> simp

@[simp] theorem startBg_calls (s : St) : (startBg s).calls = s.calls := (startBg_frame s).1
@[simp] theorem startBg_queue (s : St) : (startBg s).queue = s.queue := (startBg_frame s).2.1
@[simp] theorem startBg_inflight (s : St) : (startBg s).inflight = s.inflight := (startBg_frame s).2.2.1
@[simp] theorem startBg_bgPing (s : St) : (startBg s).bgPing = s.bgPing := (startBg_frame s).2.2.2.1
@[simp] theorem startBg_cpOwed (s : St) : (startBg s).cpOwed = s.cpOwed := (startBg_frame s).2.2.2.2.1
@[simp] theorem startBg_waits (s : St) : (startBg s).waits = s.waits := (startBg_frame s).2.2.2.2.2.1
@[simp] theorem startBg_close (s : St) : (startBg s).close = s.close := (startBg_frame s).2.2.2.2.2.2.1
@[simp] theorem startBg_log (s : St) : (startBg s).log = s.log := (startBg_frame s).2.2.2.2.2.2.2.1
@[simp] theorem startBg_wire (s : St) : (startBg s).wire = s.wire := (startBg_frame s).2.2.2.2.2.2.2.2.1
@[simp] theorem startBg_err (s : St) : (startBg s).err = s.err := (startBg_frame s).2.2.2.2.2.2.2.2.2.1
@[simp] theorem startBg_connUp (s : St) : (startBg s).connUp = s.connUp := (startBg_frame s).2.2.2.2.2.2.2.2.2.2

@[simp] theorem stOf_startBg (s : St) (i : Nat) : stOf (startBg s) i = stOf s i := by simp [stOf]
@[simp] theorem ctxDoneOf_startBg (s : St) (i : Nat) : ctxDoneOf (startBg s) i = ctxDoneOf s i := by
  simp [ctxDoneOf]

/-! ### the calls list -/

def wsum : List Call → Nat
  | [] => 0
  | c :: cs => c.st.weight + wsum cs

theorem stOf_some {s : St} {i : Nat} {cs : CS} (h : stOf s i = some cs) :
    ∃ c, s.calls[i]? = some c ∧ c.st = cs := by
  unfold stOf at h
  cases hc : s.calls[i]? with
  | none => simp [hc] at h
  | some c => exact ⟨c, rfl, by simpa [hc] using h⟩

theorem wsum_modify (l : List Call) (i : Nat) (f : Call → Call) (c : Call) (h : l[i]? = some c) :
    wsum (l.modify i f) + c.st.weight = wsum l + (f c).st.weight := by
  induction l generalizing i with
  | nil => simp at h
  | cons a as ih =>
    cases i with
    | zero =>
      simp at h; subst h
      simp [wsum]; omega
    | succ i =>
      simp at h
      have := ih i h
      simp [wsum]; omega

theorem wsum_modify_none (l : List Call) (i : Nat) (f : Call → Call) (h : l[i]? = none) :
    l.modify i f = l := by
  induction l generalizing i with
  | nil => simp
  | cons a as ih =>
    cases i with
    | zero => simp at h
    | succ i => simp at h; simp [ih i (by simpa using h)]

theorem wsum_modify_same (l : List Call) (i : Nat) (f : Call → Call) (hf : ∀ c, (f c).st = c.st) :
    wsum (l.modify i f) = wsum l := by
  cases hc : l[i]? with
  | none => rw [wsum_modify_none l i f hc]
  | some c => have := wsum_modify l i f c hc; rw [hf c] at this; omega

/-- the status table after `calls.modify i (setCallSt cs)` -/
theorem stOf_modify {s s' : St} {i : Nat} {cs : CS} (h : s'.calls = s.calls.modify i (setCallSt cs)) (j : Nat) :
    stOf s' j = if i = j then (stOf s j).map (fun _ => cs) else stOf s j := by
  unfold stOf; rw [h, List.getElem?_modify]
  split
  · cases s.calls[j]? <;> simp [setCallSt]
  · cases s.calls[j]? <;> simp

theorem stOf_modify_same {s s' : St} {i : Nat} {f : Call → Call} (hf : ∀ c, (f c).st = c.st)
    (h : s'.calls = s.calls.modify i f) (j : Nat) : stOf s' j = stOf s j := by
  unfold stOf; rw [h, List.getElem?_modify]
  cases s.calls[j]? <;> simp
  split <;> simp [hf]

/-! ### slots -/

/-- the owners of the result channels that will still fire: the reader's in-flight batch, then the queue -/
def slots (s : St) : List Owner := s.inflight.toList ++ s.queue.map (·.owner)

def slotW : Option CS → Nat
  | some .waiting | some .aborted => 1
  | _ => 0

def HS.slot : HS → Nat
  | .waiting => 1
  | _ => 0

def HS.weight : HS → Nat
  | .toPut | .waiting => 1
  | _ => 0

def ClosePc.weight : ClosePc → Nat
  | .idle | .done => 0
  | _ => 1

def b2n (b : Bool) : Nat := if b then 1 else 0

/-- Close has not queued its PING yet -/
def ClosePc.early : ClosePc → Bool
  | .idle | .entered _ | .casDone _ => true
  | _ => false

theorem takeFirst_owners (q : List Entry) (o : Owner) (q' : List Entry) (h : takeFirst q = some (o, q')) :
    q'.map (·.owner) = q.map (·.owner) := by
  induction q generalizing q' with
  | nil => simp [takeFirst] at h
  | cons e es ih =>
    unfold takeFirst at h
    split at h
    · split at h
      · rename_i o1 es1 heq
        injection h with h; injection h with h1 h2; subst h2
        simp [ih es1 (h1 ▸ heq)]
      · cases h
    · injection h with h; injection h with h1 h2; subst h2; simp

theorem drainTake_owners (q : List Entry) : (drainTake q).map (·.owner) = q.map (·.owner) := by
  unfold drainTake; split
  · exact takeFirst_owners _ _ _ (by assumption)
  · rfl

theorem drainQueue_owners (c : Bool) (q : List Entry) : (drainQueue c q).map (·.owner) = q.map (·.owner) := by
  unfold drainQueue; split
  · exact drainTake_owners q
  · rfl

/-- `_background` has not reached the `select` that may spawn the wake-up PING -/
def tdEarly (t : Td) : Prop := tdPast t = false ∨ t = .exited

/-- the counting invariant -/
structure InvC (s : St) : Prop where
  s1 : ∀ i, (slots s).count (.call i) = slotW (stOf s i)
  s2 : (slots s).count .bgPing = s.bgPing.slot
  s3 : (slots s).count .closePing = b2n s.cpOwed
  s4 : s.close.early = true → s.cpOwed = false
  s5 : tdEarly s.td → s.bgPing = .none
  s6 : s.inflight ≠ none → s.td = .reading
  w : s.waits = wsum s.calls + s.bgPing.weight + s.close.weight + b2n s.cpOwed

/-- nothing the invariant talks about changed -/
theorem invC_frame {s s' : St} (h : InvC s) (hsl : slots s' = slots s) (hst : ∀ i, stOf s' i = stOf s i)
    (hws : wsum s'.calls = wsum s.calls) (hb : s'.bgPing = s.bgPing) (hc : s'.cpOwed = s.cpOwed)
    (hw : s'.waits = s.waits) (hcl : s'.close.weight = s.close.weight)
    (he : s'.close.early = true → s.close.early = true)
    (ht : tdEarly s'.td → tdEarly s.td) (h6 : s'.inflight ≠ none → s'.td = .reading) : InvC s' := by
  obtain ⟨s1, s2, s3, s4, s5, s6, w⟩ := h
  refine ⟨?_, ?_, ?_, ?_, ?_, h6, ?_⟩
  · intro i; rw [hsl, hst]; exact s1 i
  · rw [hsl, hb]; exact s2
  · rw [hsl, hc]; exact s3
  · intro h; rw [hc]; exact s4 (he h)
  · intro h; rw [hb]; exact s5 (ht h)
  · rw [hw, hws, hb, hcl, hc]; exact w

/-- call `i` moves from status `old` to `new` (same slot weight), `waits` follows the weights -/
theorem invC_setCall {s s' : St} (h : InvC s) {i : Nat} {old new : CS} (hold : stOf s i = some old)
    (hcalls : s'.calls = s.calls.modify i (setCallSt new)) (hsw : slotW (some new) = slotW (some old))
    (hsl : slots s' = slots s) (hb : s'.bgPing = s.bgPing) (hc : s'.cpOwed = s.cpOwed)
    (hw : s'.waits + old.weight = s.waits + new.weight) (hcl : s'.close = s.close)
    (ht : tdEarly s'.td → tdEarly s.td) (h6 : s'.inflight ≠ none → s'.td = .reading) :
    InvC s' := by
  obtain ⟨s1, s2, s3, s4, s5, s6, w⟩ := h
  obtain ⟨c, hc1, hc2⟩ := stOf_some hold
  have hsum := wsum_modify s.calls i (setCallSt new) c hc1
  refine ⟨?_, ?_, ?_, ?_, ?_, ?_, ?_⟩
  · intro j; rw [hsl, stOf_modify hcalls j, s1 j]
    split
    · rename_i hij; subst hij; rw [hold]; simp only [Option.map]; exact hsw.symm
    · rfl
  · rw [hsl, hb]; exact s2
  · rw [hsl, hc]; exact s3
  · rw [hc, hcl]; exact s4
  · intro h; rw [hb]; exact s5 (ht h)
  · exact h6
  · rw [hcalls, hb, hcl, hc]
    simp only [setCallSt] at hsum
    rw [hc2] at hsum
    omega

theorem slotW_pos {x : Option CS} (h : 0 < slotW x) : x = some .waiting ∨ x = some .aborted := by
  unfold slotW at h
  split at h <;> simp_all

theorem HS.slot_pos {x : HS} (h : 0 < x.slot) : x = .waiting := by
  cases x <;> simp_all [HS.slot]

/-- a result is delivered to the owner of the first slot -/
theorem invC_deliver {s s0 : St} (h : InvC s) (o : Owner) (r : Res) (hsl : slots s = o :: slots s0)
    (hcalls : s0.calls = s.calls) (hb : s0.bgPing = s.bgPing) (hc : s0.cpOwed = s.cpOwed)
    (hw : s0.waits = s.waits) (hcl : s0.close = s.close)
    (ht : tdEarly s0.td → tdEarly s.td) (h6 : s0.inflight ≠ none → s0.td = .reading) :
    InvC (deliver o r s0) := by
  obtain ⟨s1, s2, s3, s4, s5, s6, w⟩ := h
  have hst0 : ∀ j, stOf s0 j = stOf s j := fun j => by simp [stOf, hcalls]
  cases o with
  | call i =>
    have hi := s1 i
    rw [hsl] at hi
    simp only [List.count_cons, beq_self_eq_true, if_true] at hi
    have hpos : 0 < slotW (stOf s i) := by omega
    have hothers : ∀ j, j ≠ i → (slots s0).count (.call j) = slotW (stOf s j) := by
      intro j hj
      have := s1 j
      rw [hsl] at this
      simpa [List.count_cons, hj.symm] using this
    have hbg : (slots s0).count .bgPing = s.bgPing.slot := by
      have := s2; rw [hsl] at this; simpa [List.count_cons] using this
    have hcp : (slots s0).count .closePing = b2n s.cpOwed := by
      have := s3; rw [hsl] at this; simpa [List.count_cons] using this
    rcases slotW_pos hpos with hwt | hab
    · -- the caller itself takes the result
      have hst : stOf s0 i = some .waiting := by rw [hst0]; exact hwt
      have hd : deliver (.call i) r s0 = setSt i (.got r false) s0 := by simp [deliver, hst]
      rw [hd]
      obtain ⟨c, hc1, hc2⟩ := stOf_some hwt
      have hsum := wsum_modify s.calls i (setCallSt (.got r false)) c hc1
      simp only [setCallSt] at hsum; rw [hc2] at hsum
      have hcalls' : (setSt i (.got r false) s0).calls = s.calls.modify i (setCallSt (.got r false)) := by
        simp [setSt, hcalls]
      refine ⟨?_, ?_, ?_, ?_, ?_, ?_, ?_⟩
      · intro j
        rw [stOf_modify hcalls' j]
        show (slots s0).count (.call j) = _
        split
        · rename_i hij; subst hij
          rw [hwt]; simp only [Option.map, slotW]
          rw [hwt] at hi; simp only [slotW] at hi; omega
        · rename_i hij; exact hothers j (fun h => hij h.symm)
      · show (slots s0).count .bgPing = s0.bgPing.slot; rw [hb]; exact hbg
      · show (slots s0).count .closePing = b2n s0.cpOwed; rw [hc]; exact hcp
      · show s0.close.early = true → s0.cpOwed = false; rw [hc, hcl]; exact s4
      · show tdEarly s0.td → s0.bgPing = .none
        intro h; rw [hb]; exact s5 (ht h)
      · exact h6
      · show s0.waits = wsum (s0.calls.modify i (setCallSt (.got r false))) + s0.bgPing.weight + s0.close.weight + b2n s0.cpOwed
        rw [hw, hcalls, hb, hcl, hc]
        simp only [CS.weight] at hsum
        omega
    · -- the abort goroutine takes it and decrements `waits`
      have hst : stOf s0 i = some .aborted := by rw [hst0]; exact hab
      have hd : deliver (.call i) r s0 = { (setSt i .done s0) with waits := s0.waits - 1 } := by
        simp [deliver, hst]
      rw [hd]
      obtain ⟨c, hc1, hc2⟩ := stOf_some hab
      have hsum := wsum_modify s.calls i (setCallSt .done) c hc1
      simp only [setCallSt] at hsum; rw [hc2] at hsum
      have hcalls' : ({ (setSt i .done s0) with waits := s0.waits - 1 } : St).calls = s.calls.modify i (setCallSt .done) := by
        simp [setSt, hcalls]
      refine ⟨?_, ?_, ?_, ?_, ?_, ?_, ?_⟩
      · intro j
        rw [stOf_modify hcalls' j]
        show (slots s0).count (.call j) = _
        split
        · rename_i hij; subst hij
          rw [hab]; simp only [Option.map, slotW]
          rw [hab] at hi; simp only [slotW] at hi; omega
        · rename_i hij; exact hothers j (fun h => hij h.symm)
      · show (slots s0).count .bgPing = s0.bgPing.slot; rw [hb]; exact hbg
      · show (slots s0).count .closePing = b2n s0.cpOwed; rw [hc]; exact hcp
      · show s0.close.early = true → s0.cpOwed = false; rw [hc, hcl]; exact s4
      · show tdEarly s0.td → s0.bgPing = .none
        intro h; rw [hb]; exact s5 (ht h)
      · exact h6
      · show s0.waits - 1 = wsum (s0.calls.modify i (setCallSt .done)) + s0.bgPing.weight + s0.close.weight + b2n s0.cpOwed
        rw [hw, hcalls, hb, hcl, hc]
        simp only [CS.weight] at hsum
        omega
  | bgPing =>
    have hb2 := s2
    rw [hsl] at hb2
    simp only [List.count_cons, beq_self_eq_true, if_true] at hb2
    have hbw : s.bgPing = .waiting := HS.slot_pos (by omega)
    have hcnt : (slots s0).count .bgPing = 0 := by rw [hbw] at hb2; simp only [HS.slot] at hb2; omega
    refine ⟨?_, ?_, ?_, ?_, ?_, ?_, ?_⟩
    · intro j
      show (slots s0).count (.call j) = slotW (stOf s0 j)
      rw [hst0]; have := s1 j; rw [hsl] at this; simpa [List.count_cons] using this
    · show (slots s0).count .bgPing = HS.slot .done; rw [hcnt]; rfl
    · show (slots s0).count .closePing = b2n s0.cpOwed
      rw [hc]; have := s3; rw [hsl] at this; simpa [List.count_cons] using this
    · show s0.close.early = true → s0.cpOwed = false; rw [hc, hcl]; exact s4
    · show tdEarly s0.td → HS.done = .none
      intro h; have := s5 (ht h); rw [hbw] at this; cases this
    · exact h6
    · show s0.waits - 1 = wsum s0.calls + HS.weight .done + s0.close.weight + b2n s0.cpOwed
      rw [hw, hcalls, hcl, hc]; rw [hbw] at w; simp only [HS.weight] at w ⊢; omega
  | closePing =>
    have hc2 := s3
    rw [hsl] at hc2
    simp only [List.count_cons, beq_self_eq_true, if_true] at hc2
    have hco : s.cpOwed = true := by
      cases hx : s.cpOwed with
      | true => rfl
      | false => rw [hx] at hc2; simp [b2n] at hc2
    have hcnt : (slots s0).count .closePing = 0 := by rw [hco] at hc2; simp [b2n] at hc2; omega
    refine ⟨?_, ?_, ?_, ?_, ?_, ?_, ?_⟩
    · intro j
      show (slots s0).count (.call j) = slotW (stOf s0 j)
      rw [hst0]; have := s1 j; rw [hsl] at this; simpa [List.count_cons] using this
    · show (slots s0).count .bgPing = s0.bgPing.slot
      rw [hb]; have := s2; rw [hsl] at this; simpa [List.count_cons] using this
    · show (slots s0).count .closePing = b2n false; rw [hcnt]; rfl
    · intro _; rfl
    · show tdEarly s0.td → s0.bgPing = .none
      intro h; rw [hb]; exact s5 (ht h)
    · exact h6
    · show s0.waits - 1 = wsum s0.calls + s0.bgPing.weight + s0.close.weight + b2n false
      rw [hw, hcalls, hb, hcl]; rw [hco] at w; simp only [b2n] at w ⊢; simp at w ⊢; omega

/-! ### every step preserves the counting invariant -/

theorem tdEarly_startBg (s : St) : tdEarly (startBg s).td → tdEarly s.td := by
  unfold startBg tdEarly
  cases h : s.td <;> simp [tdPast]

theorem startBg_td_reading (s : St) (h : s.inflight ≠ none → s.td = .reading) :
    (startBg s).inflight ≠ none → (startBg s).td = .reading := by
  intro hi; rw [startBg_inflight] at hi
  have := h hi
  unfold startBg; rw [this]

theorem wsum_ge (l : List Call) (i : Nat) (c : Call) (h : l[i]? = some c) : c.st.weight ≤ wsum l := by
  induction l generalizing i with
  | nil => simp at h
  | cons a as ih =>
    cases i with
    | zero => simp at h; subst h; simp [wsum]
    | succ i => simp at h; have := ih i h; simp [wsum]; omega

theorem InvC.waits_pos {s : St} (hc : InvC s) {i : Nat} {cs : CS} (h : stOf s i = some cs) (hw : cs.weight = 1) :
    1 ≤ s.waits := by
  obtain ⟨c, h1, h2⟩ := stOf_some h
  have := wsum_ge s.calls i c h1
  rw [h2, hw] at this
  have := hc.w
  omega

theorem C_startBg {s : St} (hc : InvC s) : InvC (startBg s) :=
  invC_frame hc (by simp [slots]) (by simp) (by simp) (by simp) (by simp) (by simp) (by simp) (by simp)
    (tdEarly_startBg s) (startBg_td_reading s hc.s6)

theorem C_enter {i : Nat} {s s' : St} (h : enter i s = some s') (hc : InvC s) : InvC s' := by
  unfold enter at h; crunch h
  · exact invC_setCall hc (old := .idle) (new := .done) (by assumption) rfl rfl rfl rfl rfl rfl rfl id hc.s6
  · exact invC_setCall hc (old := .idle) (new := .counted _) (by assumption) rfl rfl rfl rfl rfl rfl rfl id hc.s6

theorem C_decide {fix : Bool} {i : Nat} {s s' : St} (h : decide fix i s = some s') (hc : InvC s) : InvC s' := by
  unfold decide at h; crunch h
  · exact invC_setCall hc (old := .counted _) (new := .toQueue) (by assumption) rfl rfl rfl rfl rfl rfl rfl id hc.s6
  · exact invC_setCall hc (old := .counted _) (new := .toQueue) (by assumption) rfl rfl rfl rfl rfl rfl rfl id hc.s6
  · exact invC_setCall (C_startBg hc) (old := .counted _) (new := .toQueue) (by simpa using ‹stOf s i = _›)
      rfl rfl rfl rfl rfl rfl rfl id (C_startBg hc).s6
  · exact invC_setCall hc (old := .counted _) (new := .syncing) (by assumption) rfl rfl rfl rfl rfl rfl rfl id hc.s6
  · exact invC_setCall hc (old := .counted _) (new := .got _ _) (by assumption) rfl rfl rfl rfl rfl rfl rfl id hc.s6

theorem C_syncOk {i : Nat} {s s' : St} (h : syncOk i s = some s') (hc : InvC s) : InvC s' := by
  unfold syncOk at h; crunch h
  exact invC_setCall hc (old := .syncing) (new := .got _ _) (by assumption) rfl rfl rfl rfl rfl rfl rfl id hc.s6

theorem C_abort {i : Nat} {s s' : St} (h : abort i s = some s') (hc : InvC s) : InvC s' := by
  unfold abort at h; crunch h
  exact invC_setCall hc (old := .waiting) (new := .aborted) (by assumption) rfl rfl rfl rfl rfl rfl rfl id hc.s6

theorem C_putFail {i : Nat} {s s' : St} (h : putFail i s = some s') (hc : InvC s) : InvC s' := by
  unfold putFail at h; crunch h
  have := hc.waits_pos ‹stOf s i = some .toQueue› rfl
  exact invC_setCall hc (old := .toQueue) (new := .done) (by assumption) rfl rfl rfl rfl rfl
    (by show s.waits - 1 + 1 = s.waits + 0; omega) rfl id hc.s6

theorem C_leaveSt {i : Nat} {r : Res} {sb : Bool} {s : St} (hst : stOf s i = some (.got r sb)) (hc : InvC s) :
    InvC (leaveSt i r s) := by
  have := hc.waits_pos hst rfl
  exact invC_setCall hc (old := .got r sb) (new := .done) hst rfl rfl rfl rfl rfl
    (by show s.waits - 1 + 1 = s.waits + 0; omega) rfl id hc.s6

theorem C_leave {i : Nat} {s s' : St} (h : leave i s = some s') (hc : InvC s) : InvC s' := by
  unfold leave at h; crunch h
  · exact C_startBg (C_leaveSt (by assumption) hc)
  · exact C_leaveSt (by assumption) hc

theorem C_syncErr {i : Nat} {s s' : St} (h : syncErr i s = some s') (hc : InvC s) : InvC s' := by
  have hb : InvC { s with err := latch .broken s.err, connUp := false } :=
    invC_frame hc rfl (fun _ => rfl) rfl rfl rfl rfl rfl id id hc.s6
  unfold syncErr at h; crunch h <;>
    exact invC_setCall (C_startBg hb) (old := .syncing) (new := .got _ _) (by rw [stOf_startBg]; exact ‹stOf s i = _›)
      rfl rfl rfl rfl rfl rfl rfl id (C_startBg hb).s6

theorem C_put {i : Nat} {s s' : St} (h : put i s = some s') (hc : InvC s) : InvC s' := by
  unfold put at h; crunch h
  rename_i hst
  obtain ⟨s1, s2, s3, s4, s5, s6, w⟩ := hc
  obtain ⟨c, hc1, hc2⟩ := stOf_some hst
  have hsum := wsum_modify s.calls i (setCallSt .waiting) c hc1
  simp only [setCallSt] at hsum; rw [hc2] at hsum
  have hsl : slots ({ (setSt i .waiting s) with queue := s.queue ++ [{ owner := .call i }] } : St) =
      slots s ++ [.call i] := by simp [slots, setSt]
  have hcalls : ({ (setSt i .waiting s) with queue := s.queue ++ [{ owner := .call i }] } : St).calls =
      s.calls.modify i (setCallSt .waiting) := rfl
  refine ⟨?_, ?_, ?_, s4, s5, s6, ?_⟩
  · intro j
    rw [hsl, stOf_modify hcalls j, List.count_append, s1 j]
    split
    · rename_i hij; subst hij; rw [hst]; simp [slotW]
    · rename_i hij; simp [hij]
  · rw [hsl, List.count_append, s2]; simp; rfl
  · rw [hsl, List.count_append, s3]; simp; rfl
  · show s.waits = wsum (s.calls.modify i (setCallSt .waiting)) + s.bgPing.weight + s.close.weight + b2n s.cpOwed
    simp only [CS.weight] at hsum; omega

theorem C_cancel {i : Nat} {s s' : St} (h : cancel i s = some s') (hc : InvC s) : InvC s' := by
  unfold cancel at h; crunch h
  exact invC_frame hc rfl (stOf_modify_same (f := setDone) (fun _ => rfl) rfl)
    (wsum_modify_same _ _ _ (fun _ => rfl)) rfl rfl rfl rfl id id hc.s6

theorem C_connBreak {s s' : St} (h : connBreak s = some s') (hc : InvC s) : InvC s' := by
  unfold connBreak at h; crunch h
  exact invC_frame hc rfl (fun _ => rfl) rfl rfl rfl rfl rfl id id hc.s6

theorem C_exitConn {w : Why} {s : St} (hc : InvC s) : InvC (exitConn w s) :=
  invC_frame hc rfl (fun _ => rfl) rfl rfl rfl rfl rfl id id hc.s6

theorem C_pingFail {s s' : St} (h : pingFail s = some s') (hc : InvC s) : InvC s' := by
  unfold pingFail at h; crunch h; exact C_exitConn hc

theorem C_wTake {s s' : St} (h : wTake s = some s') (hc : InvC s) : InvC s' := by
  unfold wTake at h; crunch h
  rename_i o q htf
  exact invC_frame hc (by simp [slots, takeFirst_owners _ _ _ htf]) (fun _ => rfl) rfl rfl rfl rfl rfl id id hc.s6

theorem C_wFlush {s s' : St} (h : wFlush s = some s') (hc : InvC s) : InvC s' := by
  unfold wFlush at h; crunch h
  · exact invC_frame hc rfl (fun _ => rfl) rfl rfl rfl rfl rfl id id hc.s6
  · exact invC_frame (C_exitConn (w := .broken) hc) rfl (fun _ => rfl) rfl rfl rfl rfl rfl id id hc.s6

theorem C_rFetch {s s' : St} (h : rFetch s = some s') (hc : InvC s) : InvC s' := by
  unfold rFetch at h; crunch h
  rename_i htd hin hq _
  exact invC_frame hc (by simp [slots, hin, hq]) (fun _ => rfl) rfl rfl rfl rfl rfl id
    (fun h => by simpa using h) (fun _ => htd)

theorem C_rDeliver {s s' : St} (h : rDeliver s = some s') (hc : InvC s) : InvC s' := by
  unfold rDeliver at h; crunch h
  rename_i htd hin _
  exact invC_deliver hc _ _ (s0 := { s with inflight := none }) (by simp [slots, hin]) rfl rfl rfl rfl rfl id
    (fun h => absurd rfl h)

theorem deliver_inflight (o : Owner) (r : Res) (s : St) : (deliver o r s).inflight = s.inflight := by
  cases o <;> simp only [deliver]
  split <;> rfl

theorem deliver_td (o : Owner) (r : Res) (s : St) : (deliver o r s).td = s.td := by
  have := scal_deliver o r s
  exact congrArg Scal.td this

theorem deferDeliver_inflight (s : St) : (deferDeliver s).inflight = none := by
  unfold deferDeliver; split
  · rw [deliver_inflight]
  · assumption

theorem deferDeliver_td (s : St) : (deferDeliver s).td = s.td := congrArg Scal.td (scal_deferDeliver s)

theorem C_deferDeliver {s : St} (hc : InvC s) : InvC (deferDeliver s) := by
  unfold deferDeliver; split
  · rename_i o hin
    exact invC_deliver hc _ _ (s0 := { s with inflight := none }) (by simp [slots, hin]) rfl rfl rfl rfl rfl id
      (fun h => absurd rfl h)
  · exact hc

theorem C_rErr {s s' : St} (h : rErr s = some s') (hc : InvC s) : InvC s' := by
  unfold rErr at h; crunch h
  rename_i htd _
  have hd := C_deferDeliver hc
  have htd' : (deferDeliver s).td = .reading := by rw [deferDeliver_td]; exact htd
  refine invC_frame (C_exitConn (w := .broken) hd) rfl (fun _ => rfl) rfl rfl rfl rfl rfl id ?_ ?_
  · intro _; show tdEarly (deferDeliver s).td; rw [htd']; exact Or.inl rfl
  · intro h; exact absurd (deferDeliver_inflight s) h

theorem C_tdSpawn {s s' : St} (h : tdSpawn s = some s') (hc : InvC s) : InvC s' := by
  unfold tdSpawn at h; crunch h
  · rename_i htd _ _
    refine invC_frame hc rfl (fun _ => rfl) rfl rfl rfl rfl rfl id ?_ ?_
    · intro h; rcases h with h | h <;> simp [tdPast] at h
    · intro h; have := hc.s6 h; rw [htd] at this; cases this
  · rename_i htd _ _
    obtain ⟨s1, s2, s3, s4, s5, s6, w⟩ := hc
    have hb : s.bgPing = .none := s5 (Or.inr htd)
    refine ⟨s1, ?_, s3, s4, ?_, ?_, ?_⟩
    · show (slots s).count .bgPing = HS.slot .toPut; rw [s2, hb]; rfl
    · intro h; rcases h with h | h <;> simp [tdPast] at h
    · intro h; have := s6 h; rw [htd] at this; cases this
    · show s.waits + 1 = wsum s.calls + HS.weight .toPut + s.close.weight + b2n s.cpOwed
      rw [hb] at w; simp only [HS.weight] at w ⊢; omega

theorem C_bgPingPut {s s' : St} (h : bgPingPut s = some s') (hc : InvC s) : InvC s' := by
  unfold bgPingPut at h; crunch h
  rename_i hb
  obtain ⟨s1, s2, s3, s4, s5, s6, w⟩ := hc
  have hsl : slots ({ s with bgPing := .waiting, queue := s.queue ++ [{ owner := .bgPing }] } : St) =
      slots s ++ [.bgPing] := by simp [slots]
  refine ⟨?_, ?_, ?_, s4, ?_, s6, ?_⟩
  · intro j; rw [hsl, List.count_append, s1 j]; simp; rfl
  · rw [hsl, List.count_append, s2, hb]; rfl
  · rw [hsl, List.count_append, s3]; simp
  · intro h; have := s5 h; rw [hb] at this; cases this
  · show s.waits = wsum s.calls + HS.weight .waiting + s.close.weight + b2n s.cpOwed
    rw [hb] at w; exact w

theorem not_early_draining (c : Bool) : ¬ tdEarly (.draining c) := by
  intro h; rcases h with h | h <;> simp [tdPast] at h

theorem C_tdIter {s s' : St} (h : tdIter s = some s') (hc : InvC s) : InvC s' := by
  unfold tdIter at h; crunch h
  · rename_i htd _
    refine invC_frame hc rfl (fun _ => rfl) rfl rfl rfl rfl rfl id ?_ ?_
    · intro h; rcases h with h | h <;> simp [tdPast] at h
    · intro h; have := hc.s6 h; rw [htd] at this; cases this
  · rename_i _ c htd _ _ e es hq _
    have hin : s.inflight = none := by
      cases hi : s.inflight with
      | none => rfl
      | some o => have := hc.s6 (by simp [hi]); rw [htd] at this; cases this
    have hown := drainQueue_owners (seenClosed c s) s.queue
    rw [hq] at hown
    refine invC_deliver hc _ _
      (s0 := { s with td := .draining (seenClosed c s), queue := es, rcnt := s.rcnt + 1 })
      ?_ rfl rfl rfl rfl rfl (fun h => absurd h (not_early_draining _)) ?_
    · simp only [slots, hin]; rw [← hown]; simp
    · intro h; exact absurd hin h
  · have htd : ∃ c, s.td = .draining c := ⟨_, by assumption⟩
    obtain ⟨c0, htd⟩ := htd
    refine invC_frame hc rfl (fun _ => rfl) rfl rfl rfl rfl rfl id
      (fun h => absurd h (not_early_draining _)) ?_
    intro h; have := hc.s6 h; rw [htd] at this; cases this

theorem C_tdClose {s s' : St} (h : tdClose s = some s') (hc : InvC s) : InvC s' := by
  unfold tdClose at h; crunch h
  rename_i htd _
  refine invC_frame hc rfl (fun _ => rfl) rfl rfl rfl rfl rfl id ?_ ?_
  · intro h; rcases h with h | h <;> simp [tdPast] at h
  · intro h; have := hc.s6 h; rw [htd] at this; cases this

theorem C_closeEnter {w : Why} {s s' : St} (h : closeEnter w s = some s') (hc : InvC s) : InvC s' := by
  unfold closeEnter at h; crunch h
  rename_i hcl
  obtain ⟨s1, s2, s3, s4, s5, s6, hw⟩ := hc
  refine ⟨s1, s2, s3, ?_, s5, s6, ?_⟩
  · intro _; exact s4 (by rw [hcl]; rfl)
  · show s.waits + 1 = wsum s.calls + s.bgPing.weight + ClosePc.weight (.entered _) + b2n s.cpOwed
    rw [hcl] at hw; simp only [ClosePc.weight] at hw ⊢; omega

theorem C_casSt {s : St} {w : Nat} (hcl : s.close = .entered w) (hc : InvC s) : InvC (casSt s) :=
  invC_frame hc rfl (fun _ => rfl) rfl rfl rfl rfl (by rw [hcl]; rfl) (fun _ => by rw [hcl]; rfl) id hc.s6

theorem C_closeCas {s s' : St} (h : closeCas s = some s') (hc : InvC s) : InvC s' := by
  unfold closeCas at h; crunch h
  · exact C_startBg (C_casSt (by assumption) hc)
  · exact C_casSt (by assumption) hc

theorem C_closePing {s s' : St} (h : closePing s = some s') (hc : InvC s) : InvC s' := by
  unfold closePing at h; crunch h
  · rename_i hcl _
    obtain ⟨s1, s2, s3, s4, s5, s6, w⟩ := hc
    have hco : s.cpOwed = false := s4 (by rw [hcl]; rfl)
    have hsl0 : ∀ x : St, x.inflight = s.inflight → x.queue = s.queue ++ [{ owner := .closePing }] →
        slots x = slots s ++ [.closePing] := fun x h1 h2 => by simp [slots, h1, h2]
    have hsl := hsl0 { s with waits := s.waits + 1, cpOwed := true, close := .pingWait, queue := s.queue ++ [{ owner := .closePing }] } rfl rfl
    refine ⟨?_, ?_, ?_, ?_, s5, s6, ?_⟩
    · intro j; rw [hsl, List.count_append, s1 j]; simp; rfl
    · rw [hsl, List.count_append, s2]; simp
    · rw [hsl, List.count_append, s3, hco]; rfl
    · intro h; cases h
    · show s.waits + 1 = wsum s.calls + s.bgPing.weight + ClosePc.weight .pingWait + b2n true
      rw [hcl, hco] at w; simp only [ClosePc.weight, b2n] at w ⊢; simp at w ⊢; omega
  · have hcl : ∃ b, s.close = .casDone b := ⟨_, by assumption⟩
    obtain ⟨b0, hcl⟩ := hcl
    exact invC_frame hc rfl (fun _ => rfl) rfl rfl rfl rfl (by rw [hcl]; rfl) (fun h => by cases h) id hc.s6

theorem C_closeGot {s s' : St} (h : closeGot s = some s') (hc : InvC s) : InvC s' := by
  unfold closeGot at h; crunch h
  rename_i hcl _
  exact invC_frame hc rfl (fun _ => rfl) rfl rfl rfl rfl (by rw [hcl]; rfl) (fun h => by cases h) id hc.s6

theorem C_closeGrace {s s' : St} (h : closeGrace s = some s') (hc : InvC s) : InvC s' := by
  unfold closeGrace at h; crunch h
  rename_i hcl
  exact invC_frame hc rfl (fun _ => rfl) rfl rfl rfl rfl (by rw [hcl]; rfl) (fun h => by cases h) id hc.s6

theorem C_closeTail {s s' : St} (h : closeTail s = some s') (hc : InvC s) : InvC s' := by
  unfold closeTail at h; crunch h
  rename_i hcl
  obtain ⟨s1, s2, s3, s4, s5, s6, w⟩ := hc
  refine ⟨s1, s2, s3, ?_, s5, s6, ?_⟩
  · intro h; cases h
  · show s.waits - 1 = wsum s.calls + s.bgPing.weight + ClosePc.weight .done + b2n s.cpOwed
    rw [hcl] at w; simp only [ClosePc.weight] at w ⊢; omega

theorem invC_step {fix : Bool} {s s' : St} {l : Label} (h : step fix s l = some s') (hc : InvC s) : InvC s' := by
  cases l <;> simp only [step] at h
  · exact C_enter h hc
  · exact C_decide h hc
  · exact C_put h hc
  · exact C_putFail h hc
  · exact C_syncOk h hc
  · exact C_syncErr h hc
  · exact C_leave h hc
  · exact C_abort h hc
  · exact C_cancel h hc
  · exact C_connBreak h hc
  · exact C_pingFail h hc
  · exact C_wTake h hc
  · exact C_wFlush h hc
  · exact C_rFetch h hc
  · exact C_rDeliver h hc
  · exact C_rErr h hc
  · exact C_tdSpawn h hc
  · exact C_bgPingPut h hc
  · exact C_tdIter h hc
  · exact C_tdClose h hc
  · exact C_closeEnter h hc
  · exact C_closeCas h hc
  · exact C_closePing h hc
  · exact C_closeGot h hc
  · exact C_closeGrace h hc
  · exact C_closeTail h hc

theorem wsum_idle (calls : List Call) (h : ∀ c ∈ calls, c.st = .idle) : wsum calls = 0 := by
  induction calls with
  | nil => rfl
  | cons c cs ih =>
    have h1 := h c (by simp)
    have h2 := ih (fun c hc => h c (by simp [hc]))
    simp [wsum, h1, h2, CS.weight]

theorem slotW_idle (calls : List Call) (h : ∀ c ∈ calls, c.st = .idle) (i : Nat) :
    slotW ((calls[i]?).map (·.st)) = 0 := by
  cases hc : calls[i]? with
  | none => rfl
  | some c =>
    have := h c (List.mem_of_getElem? hc)
    simp [this, slotW]

theorem invC_init (calls : List Call) (p b : Bool) (h : ∀ c ∈ calls, c.st = .idle) : InvC (init calls p b) := by
  have h0 : InvC ({ calls := calls, blockFree := b } : St) := by
    refine ⟨?_, rfl, rfl, fun _ => rfl, fun _ => rfl, fun h => absurd rfl h, ?_⟩
    · intro i; show 0 = slotW _; exact (slotW_idle calls h i).symm
    · show 0 = wsum calls + 0 + 0 + 0; rw [wsum_idle calls h]
  unfold init; split
  · exact C_startBg h0
  · exact h0

theorem Reachable.invC {fix : Bool} {s : St} (h : Reachable fix s) : InvC s := by
  induction h with
  | init calls p b hi => exact invC_init calls p b hi
  | step l _ hs ih => exact invC_step hs ih
