/-
Pipe life model: the counting invariant. `waits` equals the number of goroutines that have
incremented it and not yet decremented it (callers between `incrWaits` and their decrement,
the abort goroutines, the two PING helpers, Close), and every call that waits on its result
channel owns exactly one slot (a queue entry or the reader's in-flight batch).
-/
import Rv.Lemmas.PipeLifeBasic
namespace Rv.PipeLife

/-! ### projections of the primitive updates -/

theorem startBg_frame (s : St) :
    (startBg s).calls = s.calls ∧ (startBg s).queue = s.queue ∧ (startBg s).inflight = s.inflight ∧
    (startBg s).bgPing = s.bgPing ∧ (startBg s).cpOwed = s.cpOwed ∧ (startBg s).waits = s.waits ∧
    (startBg s).close = s.close ∧ (startBg s).log = s.log ∧ (startBg s).wire = s.wire ∧
    (startBg s).err = s.err ∧ (startBg s).connUp = s.connUp := by
  unfold startBg; split <;> simp

@[simp] theorem startBg_calls (s : St) : (startBg s).calls = s.calls := (startBg_frame s).1
@[simp] theorem startBg_queue (s : St) : (startBg s).queue = s.queue := (startBg_frame s).2.1
@[simp] theorem startBg_inflight (s : St) : (startBg s).inflight = s.inflight := (startBg_frame s).2.2.1
@[simp] theorem startBg_bgPing (s : St) : (startBg s).bgPing = s.bgPing := (startBg_frame s).2.2.2.1
@[simp] theorem startBg_cpOwed (s : St) : (startBg s).cpOwed = s.cpOwed := (startBg_frame s).2.2.2.2.1
@[simp] theorem startBg_waits (s : St) : (startBg s).waits = s.waits := (startBg_frame s).2.2.2.2.2.1
@[simp] theorem startBg_close (s : St) : (startBg s).close = s.close := (startBg_frame s).2.2.2.2.2.2.1
@[simp] theorem startBg_log (s : St) : (startBg s).log = s.log := (startBg_frame s).2.2.2.2.2.2.2.1
@[simp] theorem startBg_wire (s : St) : (startBg s).wire = s.wire := (startBg_frame s).2.2.2.2.2.2.2.2.1
@[simp] theorem startBg_err (s : St) : (startBg s).err = s.err := (startBg_frame s).2.2.2.2.2.2.2.2.2.1
@[simp] theorem startBg_connUp (s : St) : (startBg s).connUp = s.connUp := (startBg_frame s).2.2.2.2.2.2.2.2.2.2

@[simp] theorem stOf_startBg (s : St) (i : Nat) : stOf (startBg s) i = stOf s i := by simp [stOf]
@[simp] theorem ctxDoneOf_startBg (s : St) (i : Nat) : ctxDoneOf (startBg s) i = ctxDoneOf s i := by
  simp [ctxDoneOf]

/-! ### the calls list -/

def wsum : List Call → Nat
  | [] => 0
  | c :: cs => c.st.weight + wsum cs

theorem stOf_some {s : St} {i : Nat} {cs : CS} (h : stOf s i = some cs) :
    ∃ c, s.calls[i]? = some c ∧ c.st = cs := by
  unfold stOf at h
  cases hc : s.calls[i]? with
  | none => simp [hc] at h
  | some c => exact ⟨c, rfl, by simpa [hc] using h⟩

theorem wsum_modify (l : List Call) (i : Nat) (f : Call → Call) (c : Call) (h : l[i]? = some c) :
    wsum (l.modify i f) + c.st.weight = wsum l + (f c).st.weight := by
  induction l generalizing i with
  | nil => simp at h
  | cons a as ih =>
    cases i with
    | zero =>
      simp at h; subst h
      simp [wsum]; omega
    | succ i =>
      simp at h
      have := ih i h
      simp [wsum]; omega

theorem wsum_modify_none (l : List Call) (i : Nat) (f : Call → Call) (h : l[i]? = none) :
    l.modify i f = l := by
  induction l generalizing i with
  | nil => simp
  | cons a as ih =>
    cases i with
    | zero => simp at h
    | succ i => simp at h; simp [ih i (by simpa using h)]

theorem wsum_modify_same (l : List Call) (i : Nat) (f : Call → Call) (hf : ∀ c, (f c).st = c.st) :
    wsum (l.modify i f) = wsum l := by
  cases hc : l[i]? with
  | none => rw [wsum_modify_none l i f hc]
  | some c => have := wsum_modify l i f c hc; rw [hf c] at this; omega

/-- the status table after `calls.modify i (setCallSt cs)` -/
theorem stOf_modify {s s' : St} {i : Nat} {cs : CS} (h : s'.calls = s.calls.modify i (setCallSt cs)) (j : Nat) :
    stOf s' j = if i = j then (stOf s j).map (fun _ => cs) else stOf s j := by
  unfold stOf; rw [h, List.getElem?_modify]
  split
  · cases s.calls[j]? <;> simp [setCallSt]
  · cases s.calls[j]? <;> simp

theorem stOf_modify_same {s s' : St} {i : Nat} {f : Call → Call} (hf : ∀ c, (f c).st = c.st)
    (h : s'.calls = s.calls.modify i f) (j : Nat) : stOf s' j = stOf s j := by
  unfold stOf; rw [h, List.getElem?_modify]
  cases s.calls[j]? <;> simp
  split <;> simp [hf]

/-! ### slots -/

/-- the owners of the result channels that will still fire: the reader's in-flight batch, then the queue -/
def slots (s : St) : List Owner := s.inflight.toList ++ s.queue.map (·.owner)

def slotW : Option CS → Nat
  | some .waiting | some .aborted => 1
  | _ => 0

def HS.slot : HS → Nat
  | .waiting => 1
  | _ => 0

def HS.weight : HS → Nat
  | .toPut | .waiting => 1
  | _ => 0

def ClosePc.weight : ClosePc → Nat
  | .idle | .done => 0
  | _ => 1

def b2n (b : Bool) : Nat := if b then 1 else 0

/-- Close has not queued its PING yet -/
def ClosePc.early : ClosePc → Bool
  | .idle | .entered _ | .casDone _ => true
  | _ => false

theorem takeFirst_owners (q : List Entry) (o : Owner) (q' : List Entry) (h : takeFirst q = some (o, q')) :
    q'.map (·.owner) = q.map (·.owner) := by
  induction q generalizing q' with
  | nil => simp [takeFirst] at h
  | cons e es ih =>
    unfold takeFirst at h
    split at h
    · split at h
      · rename_i o1 es1 heq
        injection h with h; injection h with h1 h2; subst h2
        simp [ih es1 (h1 ▸ heq)]
      · cases h
    · injection h with h; injection h with h1 h2; subst h2; simp

theorem drainTake_owners (q : List Entry) : (drainTake q).map (·.owner) = q.map (·.owner) := by
  unfold drainTake; split
  · exact takeFirst_owners _ _ _ (by assumption)
  · rfl

theorem drainQueue_owners (c : Bool) (q : List Entry) : (drainQueue c q).map (·.owner) = q.map (·.owner) := by
  unfold drainQueue; split
  · exact drainTake_owners q
  · rfl

/-- the counting invariant -/
structure InvC (s : St) : Prop where
  s1 : ∀ i, (slots s).count (.call i) = slotW (stOf s i)
  s2 : (slots s).count .bgPing = s.bgPing.slot
  s3 : (slots s).count .closePing = b2n s.cpOwed
  s4 : s.close.early = true → s.cpOwed = false
  s5 : tdPast s.td = false ∨ s.td = .exited → s.bgPing = .none
  w : s.waits = wsum s.calls + s.bgPing.weight + s.close.weight + b2n s.cpOwed

/-- nothing the invariant talks about changed -/
theorem invC_frame {s s' : St} (h : InvC s) (hsl : slots s' = slots s) (hst : ∀ i, stOf s' i = stOf s i)
    (hws : wsum s'.calls = wsum s.calls) (hb : s'.bgPing = s.bgPing) (hc : s'.cpOwed = s.cpOwed)
    (hw : s'.waits = s.waits) (hcl : s'.close.weight = s.close.weight)
    (he : s'.close.early = true → s.close.early = true)
    (ht : tdPast s'.td = false ∨ s'.td = .exited → tdPast s.td = false ∨ s.td = .exited) : InvC s' := by
  obtain ⟨s1, s2, s3, s4, s5, w⟩ := h
  refine ⟨?_, ?_, ?_, ?_, ?_, ?_⟩
  · intro i; rw [hsl, hst]; exact s1 i
  · rw [hsl, hb]; exact s2
  · rw [hsl, hc]; exact s3
  · intro h; rw [hc]; exact s4 (he h)
  · intro h; rw [hb]; exact s5 (ht h)
  · rw [hw, hws, hb, hcl, hc]; exact w

/-- call `i` moves from status `old` to `new` (same slot weight), `waits` follows the weights -/
theorem invC_setCall {s s' : St} (h : InvC s) {i : Nat} {old new : CS} (hold : stOf s i = some old)
    (hcalls : s'.calls = s.calls.modify i (setCallSt new)) (hsw : slotW (some new) = slotW (some old))
    (hsl : slots s' = slots s) (hb : s'.bgPing = s.bgPing) (hc : s'.cpOwed = s.cpOwed)
    (hw : s'.waits + old.weight = s.waits + new.weight) (hcl : s'.close = s.close) (ht : s'.td = s.td) :
    InvC s' := by
  obtain ⟨s1, s2, s3, s4, s5, w⟩ := h
  obtain ⟨c, hc1, hc2⟩ := stOf_some hold
  have hsum := wsum_modify s.calls i (setCallSt new) c hc1
  refine ⟨?_, ?_, ?_, ?_, ?_, ?_⟩
  · intro j; rw [hsl, stOf_modify hcalls j, s1 j]
    split
    · rename_i hij; subst hij; rw [hold]; simp only [Option.map]; exact hsw.symm
    · rfl
  · rw [hsl, hb]; exact s2
  · rw [hsl, hc]; exact s3
  · rw [hc, hcl]; exact s4
  · rw [hb, ht]; exact s5
  · rw [hcalls, hb, hcl, hc]
    simp only [setCallSt] at hsum
    rw [hc2] at hsum
    omega

theorem slotW_pos {x : Option CS} (h : 0 < slotW x) : x = some .waiting ∨ x = some .aborted := by
  unfold slotW at h
  split at h <;> simp_all

theorem HS.slot_pos {x : HS} (h : 0 < x.slot) : x = .waiting := by
  cases x <;> simp_all [HS.slot]

/-- a result is delivered to the owner of the first slot -/
theorem invC_deliver {s s0 : St} (h : InvC s) (o : Owner) (r : Res) (hsl : slots s = o :: slots s0)
    (hcalls : s0.calls = s.calls) (hb : s0.bgPing = s.bgPing) (hc : s0.cpOwed = s.cpOwed)
    (hw : s0.waits = s.waits) (hcl : s0.close = s.close)
    (ht : tdPast s0.td = false ∨ s0.td = .exited → tdPast s.td = false ∨ s.td = .exited) :
    InvC (deliver o r s0) := by
  obtain ⟨s1, s2, s3, s4, s5, w⟩ := h
  have hst0 : ∀ j, stOf s0 j = stOf s j := fun j => by simp [stOf, hcalls]
  cases o with
  | call i =>
    have hi := s1 i
    rw [hsl] at hi
    simp only [List.count_cons, beq_self_eq_true, if_true] at hi
    have hpos : 0 < slotW (stOf s i) := by omega
    have hothers : ∀ j, j ≠ i → (slots s0).count (.call j) = slotW (stOf s j) := by
      intro j hj
      have := s1 j
      rw [hsl] at this
      simpa [List.count_cons, hj.symm] using this
    have hbg : (slots s0).count .bgPing = s.bgPing.slot := by
      have := s2; rw [hsl] at this; simpa [List.count_cons] using this
    have hcp : (slots s0).count .closePing = b2n s.cpOwed := by
      have := s3; rw [hsl] at this; simpa [List.count_cons] using this
    rcases slotW_pos hpos with hwt | hab
    · -- the caller itself takes the result
      have hst : stOf s0 i = some .waiting := by rw [hst0]; exact hwt
      have hd : deliver (.call i) r s0 = setSt i (.got r false) s0 := by simp [deliver, hst]
      rw [hd]
      obtain ⟨c, hc1, hc2⟩ := stOf_some hwt
      have hsum := wsum_modify s.calls i (setCallSt (.got r false)) c hc1
      simp only [setCallSt] at hsum; rw [hc2] at hsum
      have hcalls' : (setSt i (.got r false) s0).calls = s.calls.modify i (setCallSt (.got r false)) := by
        simp [setSt, hcalls]
      refine ⟨?_, ?_, ?_, ?_, ?_, ?_⟩
      · intro j
        rw [stOf_modify hcalls' j]
        show (slots s0).count (.call j) = _
        split
        · rename_i hij; subst hij
          rw [hwt]; simp only [Option.map, slotW]
          rw [hwt] at hi; simp only [slotW] at hi; omega
        · rename_i hij; exact hothers j (fun h => hij h.symm)
      · show (slots s0).count .bgPing = s0.bgPing.slot; rw [hb]; exact hbg
      · show (slots s0).count .closePing = b2n s0.cpOwed; rw [hc]; exact hcp
      · show s0.close.early = true → s0.cpOwed = false; rw [hc, hcl]; exact s4
      · show tdPast s0.td = false ∨ s0.td = .exited → s0.bgPing = .none
        intro h; rw [hb]; exact s5 (ht h)
      · show s0.waits = wsum (s0.calls.modify i (setCallSt (.got r false))) + s0.bgPing.weight + s0.close.weight + b2n s0.cpOwed
        rw [hw, hcalls, hb, hcl, hc]
        simp only [CS.weight] at hsum
        omega
    · -- the abort goroutine takes it and decrements `waits`
      have hst : stOf s0 i = some .aborted := by rw [hst0]; exact hab
      have hd : deliver (.call i) r s0 = { (setSt i .done s0) with waits := s0.waits - 1 } := by
        simp [deliver, hst]
      rw [hd]
      obtain ⟨c, hc1, hc2⟩ := stOf_some hab
      have hsum := wsum_modify s.calls i (setCallSt .done) c hc1
      simp only [setCallSt] at hsum; rw [hc2] at hsum
      have hcalls' : ({ (setSt i .done s0) with waits := s0.waits - 1 } : St).calls = s.calls.modify i (setCallSt .done) := by
        simp [setSt, hcalls]
      refine ⟨?_, ?_, ?_, ?_, ?_, ?_⟩
      · intro j
        rw [stOf_modify hcalls' j]
        show (slots s0).count (.call j) = _
        split
        · rename_i hij; subst hij
          rw [hab]; simp only [Option.map, slotW]
          rw [hab] at hi; simp only [slotW] at hi; omega
        · rename_i hij; exact hothers j (fun h => hij h.symm)
      · show (slots s0).count .bgPing = s0.bgPing.slot; rw [hb]; exact hbg
      · show (slots s0).count .closePing = b2n s0.cpOwed; rw [hc]; exact hcp
      · show s0.close.early = true → s0.cpOwed = false; rw [hc, hcl]; exact s4
      · show tdPast s0.td = false ∨ s0.td = .exited → s0.bgPing = .none
        intro h; rw [hb]; exact s5 (ht h)
      · show s0.waits - 1 = wsum (s0.calls.modify i (setCallSt .done)) + s0.bgPing.weight + s0.close.weight + b2n s0.cpOwed
        rw [hw, hcalls, hb, hcl, hc]
        simp only [CS.weight] at hsum
        omega
  | bgPing =>
    have hb2 := s2
    rw [hsl] at hb2
    simp only [List.count_cons, beq_self_eq_true, if_true] at hb2
    have hbw : s.bgPing = .waiting := HS.slot_pos (by omega)
    have hcnt : (slots s0).count .bgPing = 0 := by rw [hbw] at hb2; simp only [HS.slot] at hb2; omega
    refine ⟨?_, ?_, ?_, ?_, ?_, ?_⟩
    · intro j
      show (slots s0).count (.call j) = slotW (stOf s0 j)
      rw [hst0]; have := s1 j; rw [hsl] at this; simpa [List.count_cons] using this
    · show (slots s0).count .bgPing = HS.slot .done; rw [hcnt]; rfl
    · show (slots s0).count .closePing = b2n s0.cpOwed
      rw [hc]; have := s3; rw [hsl] at this; simpa [List.count_cons] using this
    · show s0.close.early = true → s0.cpOwed = false; rw [hc, hcl]; exact s4
    · show tdPast s0.td = false ∨ s0.td = .exited → HS.done = .none
      intro h; have := s5 (ht h); rw [hbw] at this; cases this
    · show s0.waits - 1 = wsum s0.calls + HS.weight .done + s0.close.weight + b2n s0.cpOwed
      rw [hw, hcalls, hcl, hc]; rw [hbw] at w; simp only [HS.weight] at w ⊢; omega
  | closePing =>
    have hc2 := s3
    rw [hsl] at hc2
    simp only [List.count_cons, beq_self_eq_true, if_true] at hc2
    have hco : s.cpOwed = true := by
      cases hx : s.cpOwed with
      | true => rfl
      | false => rw [hx] at hc2; simp [b2n] at hc2
    have hcnt : (slots s0).count .closePing = 0 := by rw [hco] at hc2; simp [b2n] at hc2; omega
    refine ⟨?_, ?_, ?_, ?_, ?_, ?_⟩
    · intro j
      show (slots s0).count (.call j) = slotW (stOf s0 j)
      rw [hst0]; have := s1 j; rw [hsl] at this; simpa [List.count_cons] using this
    · show (slots s0).count .bgPing = s0.bgPing.slot
      rw [hb]; have := s2; rw [hsl] at this; simpa [List.count_cons] using this
    · show (slots s0).count .closePing = b2n false; rw [hcnt]; rfl
    · intro _; rfl
    · show tdPast s0.td = false ∨ s0.td = .exited → s0.bgPing = .none
      intro h; rw [hb]; exact s5 (ht h)
    · show s0.waits - 1 = wsum s0.calls + s0.bgPing.weight + s0.close.weight + b2n false
      rw [hw, hcalls, hb, hcl]; rw [hco] at w; simp only [b2n] at w ⊢; simp at w ⊢; omega
