/-
C12 main induction: the model reader decodes every well-formed wire form to the
value it denotes and leaves the rest of the stream untouched.
-/
import Rv.Lemmas.RespBasics
namespace Rv.RespL
open Rv Rv.Resp Rv.Spec

mutual
def need : Wire → Nat
  | .arr _ xs => 2 + needL xs
  | .map _ xs => 2 + needL xs
  | .stream _ xs => 2 + needE xs
  | .attr a w => 1 + max (need a) (need w)
  | .nullArr _ => 2
  | _ => 1
def needL : List Wire → Nat
  | [] => 0
  | x :: xs => 1 + max (need x) (needL xs)
def needE : List Wire → Nat
  | [] => 2
  | x :: xs => 1 + max (need x) (needE xs)
end

theorem readerOf_blob {t : UInt8} (h : isBlobT t = true) : readerOf t = some .blob ∧ t ≠ 124 := by
  simp only [isBlobT, Bool.or_eq_true, beq_iff_eq] at h
  rcases h with (h | h) | h <;> subst h <;> decide
theorem readerOf_line {t : UInt8} (h : isLineT t = true) : readerOf t = some .simple ∧ t ≠ 124 := by
  simp only [isLineT, Bool.or_eq_true, beq_iff_eq] at h
  rcases h with ((h | h) | h) | h <;> subst h <;> decide
theorem readerOf_arr {t : UInt8} (h : isArrT t = true) : readerOf t = some .array ∧ t ≠ 124 := by
  simp only [isArrT, Bool.or_eq_true, beq_iff_eq] at h
  rcases h with (h | h) | h <;> subst h <;> decide

/-- what the two list loops do on the encodings of a list of wire forms -/
def ListOK (B : Nat) (xs : List Wire) : Prop :=
  (∀ f rest, needL xs ≤ f → readArr B f xs.length (bytesL xs ++ rest) = .ok (valueL xs, rest)) ∧
  (∀ f acc rest, needE xs ≤ f →
      readEnd B f acc (bytesL xs ++ 46 :: 13 :: 10 :: rest) = .ok (acc.reverse ++ valueL xs, rest))

/-- what `readNextMessage` does on the encoding of one wire form -/
def WireOK (B : Nat) (w : Wire) : Prop :=
  (WF w = true → ∀ f ats rest, need w ≤ f → readNext B f ats (bytes w ++ rest) = .ok (value w ats, rest)) ∧
  (WF w = true → ∀ ats, (value w ats).typ ≠ 46) ∧
  (attrOK w = true → ∃ tl, bytes w = 124 :: tl ∧
      ∀ f rest, need w ≤ f + 1 → readBody B f 124 .map (tl ++ rest) = .ok (some (value w []), rest))


theorem digits_one : digits 1 = [49] := by rw [digits]; simp

theorem readB_q (B : Nat) (hb : 32 ≤ B) (r0 : List UInt8) : readB B (63 :: 13 :: 10 :: r0) = .chunked r0 := by
  unfold readB; rw [readI_q B hb]

theorem readI_m1 (B : Nat) (hb : 32 ≤ B) (rest : List UInt8) : readI B (45 :: 49 :: 13 :: 10 :: rest) = .num (-1) rest := by
  have := readI_neg B 1 hb (by omega) rest
  rw [digits_one] at this
  simpa [crlf] using this

theorem valueL_length (xs : List Wire) : (valueL xs).length = xs.length := by
  induction xs with
  | nil => simp [valueL]
  | cons x xs ih => simp [valueL, ih]

section
variable (B : Nat) (hb : 32 ≤ B)
include hb

theorem ok_blob (t : UInt8) (s : List UInt8) : WireOK B (.blob t s) := by
  refine ⟨?_, ?_, ?_⟩
  · intro hwf f ats rest hf
    simp only [WF, Bool.and_eq_true, lim] at hwf
    obtain ⟨ht, hs⟩ := hwf
    obtain ⟨hr, h124⟩ := readerOf_blob ht
    cases f with
    | zero => simp [need] at hf
    | succ f =>
      simp only [bytes, List.cons_append, List.append_assoc, readNext, hr, readBody]
      have hB := readB_blob B hb s rest (of_decide_eq_true hs)
      simp only [List.append_assoc] at hB
      rw [hB]
      simp [h124, value, Msg.leafStr, Msg.withAttr]
  · intro hwf ats
    simp only [WF, Bool.and_eq_true] at hwf
    have := (readerOf_blob hwf.1)
    simp only [value, Msg.typ]
    intro h; subst h; simp [readerOf] at this
  · intro h; simp [attrOK] at h

theorem ok_chunked (t : UInt8) (cs : List (List UInt8)) : WireOK B (.chunked t cs) := by
  refine ⟨?_, ?_, ?_⟩
  · intro hwf f ats rest hf
    simp only [WF, Bool.and_eq_true, lim, List.all_eq_true, Bool.not_eq_true', decide_eq_true_eq] at hwf
    obtain ⟨ht, hcs⟩ := hwf
    obtain ⟨hr, h124⟩ := readerOf_blob ht
    have hcs' : ∀ c ∈ cs, c ≠ [] ∧ c.length < 9223372036854775808 := by
      intro c hc
      have := hcs c hc
      constructor
      · intro e; subst e; simp at this
      · exact of_decide_eq_true this.2
    cases f with
    | zero => simp [need] at hf
    | succ f =>
      have hshape : bytes (.chunked t cs) ++ rest =
          t :: 63 :: 13 :: 10 :: ((cs.map chunkBytes).flatten ++ (59 :: 48 :: 13 :: 10 :: rest)) := by
        simp [bytes, crlf, List.append_assoc]
      rw [hshape]
      simp only [readNext, hr, readBody, readB_q B hb]
      rw [readChunks_ok B hb cs hcs' _ (by have := chunks_len cs; rw [List.length_append]; omega)]
      simp [h124, value, Msg.leafStr, Msg.withAttr]
  · intro hwf ats
    simp only [WF, Bool.and_eq_true] at hwf
    have := (readerOf_blob hwf.1)
    simp only [value, Msg.typ]
    intro h; subst h; simp [readerOf] at this
  · intro h; simp [attrOK] at h

theorem ok_nullBlob (t : UInt8) : WireOK B (.nullBlob t) := by
  refine ⟨?_, ?_, ?_⟩
  · intro hwf f ats rest hf
    simp only [WF] at hwf
    obtain ⟨hr, h124⟩ := readerOf_blob hwf
    cases f with
    | zero => simp [need] at hf
    | succ f =>
      simp only [bytes, List.cons_append, List.nil_append, readNext, hr, readBody, readB, readI_m1 B hb]
      simp [value]
  · intro _ ats; simp [value, Msg.null, Msg.typ]
  · intro h; simp [attrOK] at h

theorem ok_line (t : UInt8) (s : List UInt8) : WireOK B (.line t s) := by
  refine ⟨?_, ?_, ?_⟩
  · intro hwf f ats rest hf
    simp only [WF, Bool.and_eq_true, Bool.not_eq_true'] at hwf
    obtain ⟨ht, hs⟩ := hwf
    obtain ⟨hr, h124⟩ := readerOf_line ht
    have hs' : ∀ c ∈ s, c ≠ 10 := by
      intro c hc e; subst e; simp_all
    cases f with
    | zero => simp [need] at hf
    | succ f =>
      simp only [bytes, List.cons_append, List.append_assoc, readNext, hr, readBody]
      have := readS_line s rest hs'
      simp only [List.append_assoc] at this
      rw [this]
      simp [h124, value, Msg.leafStr, Msg.withAttr]
  · intro hwf ats
    simp only [WF, Bool.and_eq_true] at hwf
    have := (readerOf_line hwf.1)
    simp only [value, Msg.typ]
    intro h; subst h; simp [readerOf] at this
  · intro h; simp [attrOK] at h

theorem ok_int (v : Int) : WireOK B (.int v) := by
  refine ⟨?_, ?_, ?_⟩
  · intro hwf f ats rest hf
    simp only [WF, Bool.and_eq_true] at hwf
    have h1 := of_decide_eq_true hwf.1
    have h2 := of_decide_eq_true hwf.2
    simp only [lim] at h1 h2
    cases f with
    | zero => simp [need] at hf
    | succ f =>
      have hr : readerOf 58 = some .integer := by decide
      simp only [bytes, List.cons_append, List.append_assoc, readNext, hr, readBody]
      by_cases hv : v < 0
      · have hI := readI_neg B (-v).toNat hb (by omega) rest
        have hcast : -(((-v).toNat : Nat) : Int) = v := by omega
        simp only [decI, hv, if_true, List.cons_append, List.append_assoc]
        simp only [List.append_assoc, List.cons_append] at hI
        rw [hI, hcast]
        simp [value, Msg.leafInt, Msg.withAttr]
      · have hI := readI_digits B v.toNat hb (by omega) rest
        have hcast : ((v.toNat : Nat) : Int) = v := by omega
        simp only [decI, hv, if_false]
        simp only [List.append_assoc] at hI
        rw [hI, hcast]
        simp [value, Msg.leafInt, Msg.withAttr]
  · intro _ ats; simp [value, Msg.typ]
  · intro h; simp [attrOK] at h

theorem ok_null : WireOK B .null := by
  refine ⟨?_, ?_, ?_⟩
  · intro _ f ats rest hf
    cases f with
    | zero => simp [need] at hf
    | succ f =>
      have hr : readerOf 95 = some .null := by decide
      have hlen : ¬ (rest.length + 1 + 1 < 2) := by omega
      simp [bytes, readNext, hr, readBody, discard2, value, Msg.leafInt, Msg.withAttr, hlen]
  · intro _ ats; simp [value, Msg.typ]
  · intro h; simp [attrOK] at h

theorem ok_bool (b : Bool) : WireOK B (.bool b) := by
  refine ⟨?_, ?_, ?_⟩
  · intro _ f ats rest hf
    cases f with
    | zero => simp [need] at hf
    | succ f =>
      have hr : readerOf 35 = some .bool := by decide
      have hlen : ¬ (rest.length + 1 + 1 < 2) := by omega
      cases b <;> simp [bytes, readNext, hr, readBody, discard2, value, Msg.leafInt, Msg.withAttr, hlen]
  · intro _ ats; simp [value, Msg.typ]
  · intro h; simp [attrOK] at h

theorem ok_nullArr (t : UInt8) : WireOK B (.nullArr t) := by
  refine ⟨?_, ?_, ?_⟩
  · intro hwf f ats rest hf
    simp only [WF] at hwf
    obtain ⟨hr, h124⟩ := readerOf_arr hwf
    cases f with
    | zero => simp [need] at hf
    | succ f =>
      cases f with
      | zero => simp [need] at hf
      | succ f =>
        simp only [bytes, List.cons_append, List.nil_append, readNext, hr, readBody, readI_m1 B hb]
        simp [value, arrCase]
  · intro _ ats; simp [value, Msg.null, Msg.typ]
  · intro h; simp [attrOK] at h

end
end Rv.RespL
