/-
Pipe life model: safety invariants built on the transition lemma — every return is logged
exactly once, `done` is absorbing, and once the drain loop has observed `waits == 0` no
accepted call is left anywhere.
-/
import Rv.Lemmas.PipeLifeTrans
import Rv.Lemmas.PipeLifeScal
namespace Rv.PipeLife

def retOf : Option CS → Nat
  | some cs => cs.ret
  | none => 0

/-- the log holds one return for every call that is `aborted`/`done`, none for the others -/
def InvL (s : St) : Prop := ∀ j, cnt j s.log = retOf (stOf s j)

theorem Deliv.ret_eq {a b : CS} (h : Deliv a b) : a.ret = b.ret := by cases h <;> rfl

theorem invL_step {fix : Bool} {s s' : St} {l : Label} (h : step fix s l = some s') (hl : InvL s) : InvL s' := by
  intro j
  have hj := hl j
  rcases step_change h j with ⟨h1, h2⟩ | ⟨a, b, ha, hb, _, h3⟩ | ⟨a, b, ha, hb, hd, h3⟩
  · rw [h1, h2]; exact hj
  · rw [ha] at hj; rw [hb]; simp only [retOf] at hj ⊢; omega
  · rw [ha] at hj; rw [hb, h3]; simp only [retOf] at hj ⊢; rw [← hd.ret_eq]; exact hj

theorem startBg_log' (s : St) : (startBg s).log = s.log := startBg_log s

theorem invL_init (calls : List Call) (p b : Bool) (h : ∀ c ∈ calls, c.st = .idle) : InvL (init calls p b) := by
  intro j
  have hlog : (init calls p b).log = [] := by unfold init; split <;> simp
  have hst : stOf (init calls p b) j = (calls[j]?).map (·.st) := by
    unfold init; split <;> simp [stOf]
  rw [hlog, hst]
  cases hc : calls[j]? with
  | none => rfl
  | some c => have := h c (List.mem_of_getElem? hc); simp [cnt, retOf, this, CS.ret]

theorem Reachable.invL {fix : Bool} {s : St} (h : Reachable fix s) : InvL s := by
  induction h with
  | init calls p b hi => exact invL_init calls p b hi
  | step l _ hs ih => exact invL_step hs ih

/-- a call that is `done` stays `done` -/
theorem done_absorbing {fix : Bool} {s s' : St} {l : Label} (h : step fix s l = some s') {j : Nat}
    (hd : stOf s j = some .done) : stOf s' j = some .done := by
  rcases step_change h j with ⟨h1, _⟩ | ⟨a, b, ha, _, ht, _⟩ | ⟨a, b, ha, _, hdl, _⟩
  · rw [h1]; exact hd
  · rw [hd] at ha; injection ha with ha; subst ha; cases ht
  · rw [hd] at ha; injection ha with ha; subst ha; cases hdl

/-! ### after the drain loop has observed `waits == 0` -/

structure Settled (s : St) : Prop where
  p1 : ∀ i cs, stOf s i = some cs → cs.owed = false
  p2 : s.bgPing.weight = 0
  p3 : s.cpOwed = false
  p4 : s.close ≠ .casDone true ∧ s.close ≠ .pingWait

def InvP (s : St) : Prop := tdSettled s.td = true → Settled s

theorem wsum_zero (l : List Call) (h : wsum l = 0) (i : Nat) (c : Call) (hc : l[i]? = some c) : c.st.weight = 0 := by
  have := wsum_ge l i c hc; omega

theorem weight_zero_not_owed {cs : CS} (h : cs.weight = 0) : cs.owed = false := by
  cases cs <;> simp_all [CS.weight, CS.owed]

/-- the moment the loop exits -/
theorem settled_of_waits_zero {s : St} (hc : InvC s) (hw : s.waits = 0) : Settled s := by
  have w := hc.w
  rw [hw] at w
  have h1 : wsum s.calls = 0 := by omega
  have h2 : s.bgPing.weight = 0 := by omega
  have h3 : s.close.weight = 0 := by omega
  have h4 : b2n s.cpOwed = 0 := by omega
  refine ⟨?_, h2, ?_, ?_, ?_⟩
  · intro i cs hst
    obtain ⟨c, hc1, hc2⟩ := stOf_some hst
    have := wsum_zero s.calls h1 i c hc1
    rw [hc2] at this
    exact weight_zero_not_owed this
  · cases hx : s.cpOwed with
    | false => rfl
    | true => rw [hx] at h4; simp [b2n] at h4
  · intro hx; rw [hx] at h3; simp [ClosePc.weight] at h3
  · intro hx; rw [hx] at h3; simp [ClosePc.weight] at h3

/-- the parts of the state `Settled` reads -/
theorem settled_frame {s s' : St} (h : Settled s) (hst : ∀ i, stOf s' i = stOf s i) (hb : s'.bgPing = s.bgPing)
    (hc : s'.cpOwed = s.cpOwed) (hcl : s'.close = s.close) : Settled s' := by
  obtain ⟨p1, p2, p3, p4⟩ := h
  exact ⟨fun i cs h => p1 i cs (by rw [← hst]; exact h), by rw [hb]; exact p2, by rw [hc]; exact p3, by rw [hcl]; exact p4⟩

theorem trans_owed {l : Label} {i : Nat} {a b : CS} (h : Trans l i a b) (ha : a.owed = false) (hb : b.owed = true) :
    ∃ w, l = .decide i ∧ a = .counted w := by
  cases h <;> simp_all [CS.owed]

theorem deliv_owed {a b : CS} (h : Deliv a b) : a.owed = true := by cases h <;> rfl

theorem tdSettled_past {t : Td} (h : tdSettled t = true) : tdPast t = true := by
  cases t <;> simp_all [tdSettled, tdPast]

theorem tdSettled_startBg (s : St) : tdSettled (startBg s).td = tdSettled s.td := by
  unfold startBg; cases h : s.td <;> simp [tdSettled]

/-- a step that leaves `td` (up to `background()`), `bgPing`, `cpOwed` and `close` alone -/
theorem invP_of {s s' : St} (hp : InvP s) (htd : tdSettled s'.td = tdSettled s.td)
    (hstat : tdSettled s.td = true → ∀ i cs, stOf s' i = some cs → cs.owed = false)
    (hb : s'.bgPing = s.bgPing) (hc : s'.cpOwed = s.cpOwed) (hcl : s'.close = s.close) : InvP s' := by
  intro hset'
  rw [htd] at hset'
  obtain ⟨_, p2, p3, p4⟩ := hp hset'
  exact ⟨hstat hset', by rw [hb]; exact p2, by rw [hc]; exact p3, by rw [hcl]; exact p4⟩

set_option hygiene false in
macro "sameP" : tactic =>
  `(tactic| (crunch h <;> exact invP_of hp (by simp [tdSettled_startBg, setSt, leaveSt, exitConn]) hstat (by simp [setSt, leaveSt, exitConn]) (by simp [setSt, leaveSt, exitConn]) (by simp [setSt, leaveSt, exitConn])))

theorem invP_step {fix : Bool} {s s' : St} {l : Label} (h : step fix s l = some s') (ha : InvA (scal s))
    (hc : InvC s) (hp : InvP s) : InvP s' := by
  -- statuses: a step out of a settled state never creates an owed status
  have hstat : tdSettled s.td = true → ∀ i cs, stOf s' i = some cs → cs.owed = false := by
    intro hset i cs hcs
    have hS := hp hset
    have h2 : 2 ≤ s.state := (ha.a2 (tdSettled_past hset)).1
    rcases step_change h i with ⟨h1, _⟩ | ⟨a, b, ha1, hb1, ht, _⟩ | ⟨a, b, ha1, _, hdl, _⟩
    · rw [h1] at hcs; exact hS.p1 i cs hcs
    · rw [hb1] at hcs; injection hcs with hcs; subst hcs
      have hao := hS.p1 i a ha1
      cases hbo : b.owed with
      | false => rfl
      | true =>
        obtain ⟨w, hl, haw⟩ := trans_owed ht hao hbo
        subst hl; subst haw
        simp only [step] at h
        unfold decide at h
        rw [ha1] at h
        have h1 : ¬ s.state = 1 := by omega
        have h0 : ¬ s.state = 0 := by omega
        simp only [h1, h0, if_false] at h
        injection h with h
        rw [← h, stOf_modify (s := s) rfl i, if_pos rfl, ha1] at hb1
        injection hb1 with hb1; subst hb1; simp [CS.owed] at hbo
    · have := hS.p1 i a ha1; rw [deliv_owed hdl] at this; cases this
  cases l <;> simp only [step] at h
  case enter i => unfold enter at h; sameP
  case decide i => unfold decide at h; sameP
  case put i => unfold put at h; sameP
  case putFail i => unfold putFail at h; sameP
  case syncOk i => unfold syncOk at h; sameP
  case syncErr i => unfold syncErr at h; sameP
  case leave i => unfold leave at h; sameP
  case abort i => unfold abort at h; sameP
  case cancel i => unfold cancel at h; sameP
  case connBreak => unfold connBreak at h; sameP
  case pingFail => unfold pingFail at h; sameP
  case wTake => unfold wTake at h; sameP
  case wFlush => unfold wFlush at h; sameP
  case tdIter =>
    intro hset'
    unfold tdIter at h; crunch h
    · exact settled_frame (settled_of_waits_zero hc (by assumption)) (fun _ => rfl) rfl rfl rfl
    · rw [deliver_td] at hset'; simp [tdSettled] at hset'
    · simp [tdSettled] at hset'
  case tdClose =>
    intro hset'
    unfold tdClose at h; crunch h
    exact settled_frame (hp (by simp [tdSettled, *])) (fun _ => rfl) rfl rfl rfl
  case rFetch => intro hset'; unfold rFetch at h; crunch h; simp [tdSettled, *] at hset'
  case rDeliver =>
    intro hset'; unfold rDeliver at h; crunch h; rw [deliver_td] at hset'; simp [tdSettled, *] at hset'
  case rErr => intro hset'; unfold rErr at h; crunch h; simp [tdSettled] at hset'
  case tdSpawn => intro hset'; unfold tdSpawn at h; crunch h <;> simp [tdSettled] at hset'
  case bgPingPut =>
    intro hset'
    unfold bgPingPut at h; crunch h
    have := (hp hset').p2
    simp_all [HS.weight]
  case closeEnter w =>
    intro hset'
    unfold closeEnter at h; crunch h
    have hS := hp hset'
    exact ⟨hstat hset', hS.p2, hS.p3, by simp⟩
  case closeCas =>
    intro hset'
    unfold closeCas at h; crunch h
    · rw [tdSettled_startBg] at hset'
      have h2 : 2 ≤ s.state := (ha.a2 (tdSettled_past hset')).1
      have hS := hp hset'
      refine ⟨hstat hset', by simpa [casSt] using hS.p2, by simpa [casSt] using hS.p3, ?_⟩
      have : isStopping s.state = false := by unfold isStopping; simp; omega
      simp [casSt, this]
    · have h2 : 2 ≤ s.state := (ha.a2 (tdSettled_past hset')).1
      have hS := hp hset'
      refine ⟨hstat hset', hS.p2, hS.p3, ?_⟩
      have : isStopping s.state = false := by unfold isStopping; simp; omega
      simp [casSt, this]
  case closePing =>
    intro hset'
    unfold closePing at h; crunch h
    · have hS := hp hset'
      rename_i hcl hb
      have : ‹Bool› = true := by simp at hb; exact hb.2
      subst this; exact absurd hcl hS.p4.1
    · have hS := hp hset'
      exact ⟨hstat hset', hS.p2, hS.p3, by simp⟩
  case closeGot =>
    intro hset'
    unfold closeGot at h; crunch h
    exact absurd (by assumption) (hp hset').p4.2
  case closeGrace =>
    intro hset'
    unfold closeGrace at h; crunch h
    exact absurd (by assumption) (hp hset').p4.2
  case closeTail =>
    intro hset'
    unfold closeTail at h; crunch h
    have hS := hp hset'
    exact ⟨hstat hset', hS.p2, hS.p3, by simp⟩

theorem invP_init (calls : List Call) (p b : Bool) : InvP (init calls p b) := by
  intro h
  unfold init at h; split at h
  · rw [tdSettled_startBg] at h; simp [tdSettled] at h
  · simp [tdSettled] at h

theorem Reachable.invP {fix : Bool} {s : St} (h : Reachable fix s) : InvP s := by
  induction h with
  | init calls p b hi => exact invP_init calls p b
  | step l hr hs ih => exact invP_step hs hr.invA hr.invC ih

end Rv.PipeLife
