import Rv.Lemmas.RingInvB
namespace Rv.Ring

/-- no lost wake-up between `slept`, c2.Wait and c2.Broadcast -/
structure InvW (k : Nat) (σ : State) : Prop where
  sl : ∀ s, (σ.slot s).slept = true → σ.wpc = .sleeping s ∨ σ.wpc = .woken s
  sl' : ∀ s, σ.wpc = .sleeping s → (σ.slot s).slept = true
  bc : ∀ c s, σ.pc c = .bcast s → σ.wpc = .sleeping s ∧ (σ.slot s).mark = 1
  wk : ∀ s, σ.wpc = .woken s → (σ.slot s).mark = 1
  lw2 : ∀ s, σ.wpc = .sleeping s → (σ.slot s).mark = 1 → ∃ c, (σ.slot s).cmd = some c ∧ σ.pc c = .bcast s

theorem InvW.init (k : Nat) : InvW k (init k) := by
  refine ⟨?_, ?_, ?_, ?_, ?_⟩ <;> simp [Ring.init]

theorem InvW.take_idle {k : Nat} {σ : State} (h : InvW k σ) (s : Nat) (hw : σ.wpc = .idle) :
    InvW k (take σ s (σ.slot s).slept) := by
  have hns : ∀ s', (σ.slot s').slept = false := by
    intro s'; cases e : (σ.slot s').slept
    · rfl
    · have := h.sl s' e; rw [hw] at this; rcases this with t | t <;> cases t
  refine ⟨?_, ?_, ?_, ?_, ?_⟩
  · intro s' hh; simp only [Ring.take, upd_apply] at hh
    split at hh <;> simp_all
  · intro s' hh; cases hh
  · intro c s' hh; have := (h.bc c s' hh).1; rw [hw] at this; cases this
  · intro s' hh; cases hh
  · intro s' hh; cases hh

theorem InvW.take_woken {k : Nat} {σ : State} (h : InvW k σ) (s : Nat) (hw : σ.wpc = .woken s) :
    InvW k (take σ s false) := by
  refine ⟨?_, ?_, ?_, ?_, ?_⟩
  · intro s' hh; simp only [Ring.take, upd_apply] at hh
    split at hh
    · simp at hh
    · rename_i e
      have := h.sl s' hh; rw [hw] at this
      rcases this with t | t
      · cases t
      · injection t with t; exact absurd t.symm e
  · intro s' hh; cases hh
  · intro c s' hh; have := (h.bc c s' hh).1; rw [hw] at this; cases this
  · intro s' hh; cases hh
  · intro s' hh; cases hh

theorem InvW.step {k : Nat} {σ : State} (hi : Inv k σ) (h : InvW k σ) (l : Label)
    (he : enabled k l σ = true) : InvW k (apply k l σ) := by
  cases l with
  | arrive =>
    have hidle : σ.pc σ.ncalls = .idle := hi.b.fresh _ (Nat.le_refl _)
    simp only [Ring.apply]
    refine ⟨h.sl, h.sl', ?_, h.wk, ?_⟩
    · intro c s; simp only [upd_apply]; split
      · intro hh; cases hh
      · exact h.bc c s
    · intro s hw hm
      obtain ⟨c, h1, h2⟩ := h.lw2 s hw hm
      refine ⟨c, h1, ?_⟩
      have : c ≠ σ.ncalls := by intro e; subst e; rw [hidle] at h2; cases h2
      simp [upd_apply, this]; exact h2
  | enter c =>
    simp only [Ring.apply]
    split
    · rename_i s hpc
      split
      · rename_i hm
        refine ⟨?_, ?_, ?_, ?_, ?_⟩
        · intro s'; simp only [upd_apply]; split
          · rename_i e; subst e; exact h.sl s'
          · exact h.sl s'
        · intro s' hw; simp only [upd_apply]; split
          · rename_i e; subst e; exact h.sl' s' hw
          · exact h.sl' s' hw
        · intro c' s'; simp only [upd_apply]
          by_cases e : c' = c
          · subst e; simp only [if_true]
            intro hh
            split at hh
            · rename_i hsl
              injection hh with hh; subst hh
              simp only [if_true]
              refine ⟨?_, by simp⟩
              rcases h.sl s hsl with t | t
              · exact t
              · have := h.wk s t; omega
            · cases hh
          · simp only [e, if_false]
            intro hh
            obtain ⟨b1, b2⟩ := h.bc c' s' hh
            have : s' ≠ s := by intro e2; subst e2; omega
            simp [this]; exact ⟨b1, b2⟩
        · intro s' hw
          have := h.wk s' hw
          have : s' ≠ s := by intro e2; subst e2; omega
          simp [upd_apply, this]; assumption
        · intro s' hw; simp only [upd_apply]
          by_cases e : s' = s
          · subst e; simp only [if_true]
            intro _
            exact ⟨c, rfl, by simp [h.sl' s' hw]⟩
          · simp only [e, if_false]
            intro hm'
            obtain ⟨c', h1, h2⟩ := h.lw2 s' hw hm'
            refine ⟨c', h1, ?_⟩
            have : c' ≠ c := by intro e2; subst e2; rw [hpc] at h2; cases h2
            simp [this]; exact h2
      · refine ⟨h.sl, h.sl', ?_, h.wk, ?_⟩
        · intro c' s'; simp only [upd_apply]; split
          · intro hh; cases hh
          · exact h.bc c' s'
        · intro s' hw hm
          obtain ⟨c', h1, h2⟩ := h.lw2 s' hw hm
          refine ⟨c', h1, ?_⟩
          have : c' ≠ c := by intro e2; subst e2; rw [hpc] at h2; cases h2
          simp [upd_apply, this]; exact h2
    · exact h
  | bcast c =>
    simp only [Ring.apply]
    split
    · rename_i s hpc
      obtain ⟨hw, hm⟩ := h.bc c s hpc
      simp only [hw, if_true]
      refine ⟨?_, ?_, ?_, ?_, ?_⟩
      · intro s' hh
        have := h.sl s' hh; rw [hw] at this
        rcases this with t | t
        · injection t with t; subst t; exact Or.inr rfl
        · cases t
      · intro s' hh; cases hh
      · intro c' s'; simp only [upd_apply]; split
        · intro hh; cases hh
        · rename_i e
          intro hh
          exfalso
          obtain ⟨b1, b2⟩ := h.bc c' s' hh
          rw [hw] at b1; injection b1 with b1; subst b1
          have l1 := (hi.b.live c s (Or.inr hpc)).2
          have l2 := (hi.b.live c' s (Or.inr hh)).2
          have hnh : ∀ x, σ.rpc ≠ .holding s (some x) := by
            intro x ex; have := hi.a.hmark s x ex; omega
          rcases l1 with l1 | l1
          · rcases l2 with l2 | l2
            · have := l1.2; rw [l2.2] at this; injection this with this; exact e this
            · exact hnh _ l2
          · exact hnh _ l1
      · intro s' hh; injection hh with hh; subst hh; exact hm
      · intro s' hh; cases hh
    · exact h
  | wTry =>
    simp only [Ring.apply]
    have hw : σ.wpc = .idle := by
      simp only [enabled, Bool.and_eq_true] at he; simpa using he.1
    split
    · exact h.take_idle _ hw
    · exact h
  | wWait =>
    simp only [Ring.apply]
    have hw : σ.wpc = .idle := by
      simp only [enabled, Bool.and_eq_true] at he; simpa using he.1
    have hns : ∀ s', (σ.slot s').slept = false := by
      intro s'; cases e : (σ.slot s').slept
      · rfl
      · have := h.sl s' e; rw [hw] at this; rcases this with t | t <;> cases t
    split
    · exact h.take_idle _ hw
    · rename_i hm
      refine ⟨?_, ?_, ?_, ?_, ?_⟩
      · intro s'; simp only [upd_apply]; split
        · rename_i e; subst e; intro _; exact Or.inl rfl
        · intro hh; rw [hns s'] at hh; cases hh
      · intro s' hh; injection hh with hh; subst hh; simp
      · intro c s' hh; have := (h.bc c s' hh).1; rw [hw] at this; cases this
      · intro s' hh; cases hh
      · intro s' hh; injection hh with hh; subst hh; simp only [upd_same]; intro hm'; exact absurd hm' hm
  | wWake =>
    simp only [Ring.apply]
    split
    · rename_i s hw
      split
      · exact h.take_woken s hw
      · rename_i hm; exact absurd (h.wk s hw) hm
    · exact h
  | rBegin =>
    simp only [Ring.apply]
    split
    · rename_i hm
      refine ⟨?_, ?_, ?_, ?_, ?_⟩
      · intro s'; simp only [upd_apply]; split
        · rename_i e; subst e; exact h.sl _
        · exact h.sl s'
      · intro s' hw; simp only [upd_apply]; split
        · rename_i e; subst e; exact h.sl' _ hw
        · exact h.sl' s' hw
      · intro c s' hh
        obtain ⟨b1, b2⟩ := h.bc c s' hh
        refine ⟨b1, ?_⟩
        simp only [upd_apply]; split
        · rename_i e; subst e; omega
        · exact b2
      · intro s' hw
        have := h.wk s' hw
        simp only [upd_apply]; split
        · rename_i e; subst e; omega
        · exact this
      · intro s' hw; simp only [upd_apply]; split
        · intro hh; cases hh
        · exact h.lw2 s' hw
    · exact ⟨h.sl, h.sl', h.bc, h.wk, h.lw2⟩
  | rDeliver c =>
    simp only [Ring.apply]
    split
    · rename_i s r hr
      simp only [enabled, hr] at he
      have hpc : σ.pc c = .filled s := by simpa using he
      refine ⟨h.sl, h.sl', ?_, h.wk, ?_⟩
      · intro c' s'; simp only [upd_apply]; split
        · intro hh; cases hh
        · exact h.bc c' s'
      · intro s' hw hm
        obtain ⟨c', h1, h2⟩ := h.lw2 s' hw hm
        refine ⟨c', h1, ?_⟩
        have : c' ≠ c := by intro e2; subst e2; rw [hpc] at h2; cases h2
        simp [upd_apply, this]; exact h2
    · exact h
  | rUnlock =>
    simp only [Ring.apply]
    split
    · exact ⟨h.sl, h.sl', h.bc, h.wk, h.lw2⟩
    · exact h
  | rSignal w =>
    simp only [Ring.apply]
    split
    · rename_i s hr
      simp only [enabled, hr] at he
      split
      · rename_i c
        have hpc : σ.pc c = .waiting s := by simpa using he
        refine ⟨h.sl, h.sl', ?_, h.wk, ?_⟩
        · intro c' s'; simp only [upd_apply]; split
          · intro hh; cases hh
          · exact h.bc c' s'
        · intro s' hw hm
          obtain ⟨c', h1, h2⟩ := h.lw2 s' hw hm
          refine ⟨c', h1, ?_⟩
          have : c' ≠ c := by intro e2; subst e2; rw [hpc] at h2; cases h2
          simp [upd_apply, this]; exact h2
      · exact ⟨h.sl, h.sl', h.bc, h.wk, h.lw2⟩
    · exact h

end Rv.Ring
