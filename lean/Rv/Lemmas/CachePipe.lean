/-
Lemmas for the connection-level cache protocol model `Rv.CachePipe`: what the lru operations do to
completed entries, the invariant of the connection queue (`QOk`), and the protocol invariant `PInv`.
-/
import Rv.Model.CachePipe
import Rv.Lemmas.LruPending
namespace Rv.Lru

/-- `Flight` adds no completed entry -/
theorem flight_completed_sub (s : State) (k c : Bytes) (ttl now : Int) :
    ∀ x ∈ (flight s k c ttl now).1.list, x.pend = false → x ∈ s.list := by
  intro x hx hp
  have o := flight_cases s k c ttl now
  cases o with
  | closed hc hs hr => rw [hs] at hx; exact hx
  | found e hc hf hv hr hl hsz hn fr =>
    rcases hl with hl | hl
    · rw [hl] at hx; exact hx
    · rw [hl] at hx
      simp only [moveToBack, List.mem_append, List.mem_singleton] at hx
      rcases hx with hx | hx
      · exact List.mem_of_mem_erase hx
      · exact hx ▸ (find?_some hf).1
  | expired e hc hf hv hr hl hsz hn fr =>
    rw [hl] at hx
    rcases List.mem_append.1 hx with hx | hx
    · exact List.mem_of_mem_erase hx
    · simp at hx; subst hx; simp [newEntry] at hp
  | absent hc hf hr hl hsz hn fr =>
    rw [hl] at hx
    rcases List.mem_append.1 hx with hx | hx
    · exact hx
    · simp at hx; subst hx; simp [newEntry] at hp

/-- a hit is the value of a completed entry of that very (key, cmd) -/
theorem flight_hit_entry (s : State) (k c : Bytes) (ttl now : Int) (v : Nat) (exp : Int)
    (h : (flight s k c ttl now).2 = .hit v exp) :
    ∃ e ∈ s.list, e.key = k ∧ e.cmd = c ∧ e.pend = false ∧ e.val = v := by
  have o := flight_cases s k c ttl now
  cases o with
  | closed hc hs hr => rw [hr] at h; cases h
  | expired e hc hf hv hr hl hsz hn fr => rw [hr] at h; cases h
  | absent hc hf hr hl hsz hn fr => rw [hr] at h; cases h
  | found e hc hf hv hr hl hsz hn fr =>
    have hf' := find?_some hf
    rw [hr] at h
    unfold resOf at h
    split at h
    · cases h
    · rename_i hp
      cases h
      exact ⟨e, hf'.1, hf'.2.1, hf'.2.2, by simpa using hp, rfl⟩

/-- completed entries after `Update`: old ones, or the one just written for (k, c) with value `v` -/
theorem update_completed (s : State) (hi : Inv s) (k c : Bytes) (v : Nat) (vsz raw : Int) :
    ∀ x ∈ (update s k c v vsz raw).1.list, x.pend = false →
      x ∈ s.list ∨ (x.key = k ∧ x.cmd = c ∧ x.val = v) := by
  intro x hx hp
  have o := update_cases s k c v vsz raw
  cases o with
  | closed hc hs hp' => rw [hs] at hx; exact Or.inl hx
  | absent hc hf hs hp' => rw [hs] at hx; exact Or.inl hx
  | fill e hc hf hpend hp' hl hsz hd hcl hmx hn =>
    rw [hl] at hx
    have hx := (evict_sublist _ _ _).subset hx
    rcases mem_replace hi.nodup.nodup hx with hx | hx
    · exact Or.inl hx.1
    · right; rw [hx.2]
      have := find?_some hf
      exact ⟨this.2.1, this.2.2, rfl⟩
  | stale e hc hf hpend hp' hl hsz hd hcl hmx hn =>
    rw [hl] at hx; exact Or.inl ((evict_sublist _ _ _).subset hx)

theorem cancel_sub (s : State) (k c : Bytes) (err : Nat) : ∀ x ∈ (cancel s k c err).list, x ∈ s.list := by
  intro x hx
  unfold cancel at hx
  split at hx
  · exact hx
  · split at hx
    · exact hx
    · split at hx
      · exact List.mem_of_mem_erase hx
      · exact hx

/-- after `Delete(nil)` only pending entries are left -/
theorem flush_only_pending (s : State) : ∀ x ∈ (delete s none).list, x ∈ s.list ∧ x.pend = true := by
  intro x hx
  have := mem_foldl_purge _ hx
  refine ⟨this.1, ?_⟩
  cases hp : x.pend
  · exact absurd (List.mem_map.2 ⟨x, this.1, rfl⟩) (this.2 hp)
  · rfl

end Rv.Lru
namespace Rv.CachePipe
open Rv.Lru (Bytes FRes Entry)

/-- what must hold of the message `m` at some position of the connection's queue, `rest` being what follows it -/
def HeadOk (f ver : Bytes → Nat) (tr : Bytes → Bool) (m : Msg) (rest : List Msg) : Prop :=
  (∀ k c v vsz raw, m = .reply k c v vsz raw →
      f k ≤ v ∧ v ≤ ver k ∧ (v < ver k → ∃ m' ∈ rest, v < pushVer m' k) ∧ (v = ver k → tr k = true)) ∧
  (∀ k c v vsz raw, Msg.reply k c v vsz raw ∈ rest → pushVer m k ≤ v) ∧
  (∀ k, pushVer m k ≤ ver k)

/-- invariant of the connection's queue: every reply in flight is not older than what has been invalidated so
    far (`f`), is current or followed by an invalidation that covers it, and is at least as new as every
    invalidation queued before it -/
def QOk (f ver : Bytes → Nat) (tr : Bytes → Bool) : List Msg → Prop
  | [] => True
  | m :: rest => HeadOk f ver tr m rest ∧ QOk f ver tr rest

theorem pushVer_reply (k c : Bytes) (v : Nat) (vsz raw : Int) (k' : Bytes) : pushVer (.reply k c v vsz raw) k' = 0 := rfl
theorem pushVer_fail (k c : Bytes) (e : Nat) (k' : Bytes) : pushVer (.fail k c e) k' = 0 := rfl

/-- appending a message `x` behind a good queue -/
theorem QOk_append {f ver : Bytes → Nat} {tr tr' : Bytes → Bool} (q : List Msg) (x : Msg) (h : QOk f ver tr q)
    (htr : ∀ k, tr k = true → tr' k = true)
    (hx : HeadOk f ver tr' x [])
    (hge : ∀ k c v vsz raw, x = .reply k c v vsz raw → ∀ m ∈ q, pushVer m k ≤ v) :
    QOk f ver tr' (q ++ [x]) := by
  induction q with
  | nil => exact ⟨hx, trivial⟩
  | cons m rest ih =>
    obtain ⟨⟨h1, h2, h3⟩, hr⟩ := h
    refine ⟨⟨?_, ?_, h3⟩, ih hr (fun k c v vsz raw he m' hm' => hge k c v vsz raw he m' (List.mem_cons_of_mem _ hm'))⟩
    · intro k c v vsz raw hm
      obtain ⟨a, b, c', d⟩ := h1 k c v vsz raw hm
      refine ⟨a, b, ?_, fun hv => htr k (d hv)⟩
      intro hv
      obtain ⟨m', hm', hc⟩ := c' hv
      exact ⟨m', List.mem_append_left _ hm', hc⟩
    · intro k c v vsz raw hmem
      rcases List.mem_append.1 hmem with hmem | hmem
      · exact h2 k c v vsz raw hmem
      · simp at hmem
        exact hge k c v vsz raw hmem.symm m List.mem_cons_self

/-- the queue invariant under a change of the parameters that every reply in flight tolerates -/
theorem QOk_change {f f' ver ver' : Bytes → Nat} {tr tr' : Bytes → Bool} (q : List Msg) (h : QOk f ver tr q)
    (hrep : ∀ k c v vsz raw, Msg.reply k c v vsz raw ∈ q → f k ≤ v → v ≤ ver k → (v = ver k → tr k = true) →
        (f' k ≤ v ∧ v ≤ ver' k ∧ (v < ver' k → v < ver k) ∧ (v = ver' k → tr' k = true)))
    (hver : ∀ k, ver k ≤ ver' k) : QOk f' ver' tr' q := by
  induction q with
  | nil => trivial
  | cons m rest ih =>
    obtain ⟨⟨h1, h2, h3⟩, hr⟩ := h
    refine ⟨⟨?_, h2, fun k => Nat.le_trans (h3 k) (hver k)⟩,
      ih hr (fun k c v vsz raw hm => hrep k c v vsz raw (List.mem_cons_of_mem _ hm))⟩
    intro k c v vsz raw hm
    obtain ⟨a, b, c', d⟩ := h1 k c v vsz raw hm
    obtain ⟨a', b', c'', d'⟩ := hrep k c v vsz raw (hm ▸ List.mem_cons_self) a b d
    exact ⟨a', b', fun hv => c' (c'' hv), d'⟩

/-- the server bumps some versions and appends ONE invalidation `x` that covers every bumped key -/
theorem QOk_append_inval {f ver ver' : Bytes → Nat} {tr tr' : Bytes → Bool} (q : List Msg) (x : Msg)
    (h : QOk f ver tr q)
    (hx : ∀ k c v vsz raw, x ≠ .reply k c v vsz raw)
    (hver : ∀ k, ver k ≤ ver' k)
    (hcov : ∀ k, ver k < ver' k → ver k < pushVer x k)
    (hsame : ∀ k, ver' k = ver k → tr k = true → tr' k = true)
    (hle : ∀ k, pushVer x k ≤ ver' k) :
    QOk f ver' tr' (q ++ [x]) := by
  induction q with
  | nil => exact ⟨⟨fun k c v vsz raw he => absurd he (hx k c v vsz raw), by simp, hle⟩, trivial⟩
  | cons m rest ih =>
    obtain ⟨⟨h1, h2, h3⟩, hr⟩ := h
    refine ⟨⟨?_, ?_, fun k => Nat.le_trans (h3 k) (hver k)⟩, ih hr⟩
    · intro k c v vsz raw hm
      obtain ⟨a, b, c', d⟩ := h1 k c v vsz raw hm
      refine ⟨a, Nat.le_trans b (hver k), ?_, ?_⟩
      · intro hv
        by_cases hb : ver k < ver' k
        · exact ⟨x, by simp, Nat.lt_of_le_of_lt b (hcov k hb)⟩
        · have heq : ver' k = ver k := Nat.le_antisymm (Nat.not_lt.1 hb) (hver k)
          obtain ⟨m', hm', hc⟩ := c' (by omega)
          exact ⟨m', List.mem_append_left _ hm', hc⟩
      · intro hv
        have heq : ver' k = ver k := by have := hver k; omega
        exact hsame k heq (d (by omega))
    · intro k c v vsz raw hmem
      rcases List.mem_append.1 hmem with hmem | hmem
      · exact h2 k c v vsz raw hmem
      · simp at hmem; exact absurd hmem.symm (hx k c v vsz raw)

/-- every reply still queued behind an invalidation is at least as new as that invalidation -/
theorem QOk_replies_ge {f ver : Bytes → Nat} {tr : Bytes → Bool} {m : Msg} {rest : List Msg}
    (h : QOk f ver tr (m :: rest)) : ∀ k c v vsz raw, Msg.reply k c v vsz raw ∈ rest → pushVer m k ≤ v := h.1.2.1

theorem QOk_mem {f ver : Bytes → Nat} {tr : Bytes → Bool} {q : List Msg} (h : QOk f ver tr q) :
    ∀ m ∈ q, (∀ k, pushVer m k ≤ ver k) ∧
      ∀ k c v vsz raw, m = .reply k c v vsz raw → f k ≤ v ∧ v ≤ ver k := by
  induction q with
  | nil => intro m hm; cases hm
  | cons a rest ih =>
    intro m hm
    rcases List.mem_cons.1 hm with rfl | hm
    · exact ⟨h.1.2.2, fun k c v vsz raw he => ⟨(h.1.1 k c v vsz raw he).1, (h.1.1 k c v vsz raw he).2.1⟩⟩
    · exact ih h.2 m hm

end Rv.CachePipe

namespace Rv.CachePipe
open Rv.Lru (Bytes FRes Entry)

/-- what must hold of a completed entry of the store -/
def EOk (f ver : Bytes → Nat) (tr : Bytes → Bool) (log : List ((Bytes × Bytes) × Nat)) (q : List Msg) (e : Entry) : Prop :=
  f e.key ≤ e.val ∧ e.val ≤ ver e.key ∧ (e.val < ver e.key → ∃ m ∈ q, e.val < pushVer m e.key) ∧
  (e.val = ver e.key → tr e.key = true) ∧ ((e.key, e.cmd), e.val) ∈ log

/-- the protocol invariant -/
structure PInv (st : St) : Prop where
  store : Lru.Inv st.store
  entries : ∀ e ∈ st.store.list, e.pend = false → EOk st.floor st.ver st.tracked st.log st.respQ e
  queue : QOk st.floor st.ver st.tracked st.respQ
  floorLe : ∀ k, st.floor k ≤ st.ver k
  dead : st.store.closed = true → st.respQ = [] ∧ st.reqQ = [] ∧ ∀ k, st.tracked k = false

theorem pinv_init (mx base : Int) : PInv (init mx base) :=
  ⟨Lru.inv_init mx base, by simp [init, Lru.init], trivial, fun _ => Nat.le_refl _, fun _ => ⟨rfl, rfl, fun _ => rfl⟩⟩

theorem upd_same {β : Type} (f : Bytes → β) (k : Bytes) (x : β) : upd f k x k = x := by simp [upd]
theorem upd_other {β : Type} (f : Bytes → β) (k k' : Bytes) (x : β) (h : k' ≠ k) : upd f k x k' = f k' := by simp [upd, h]

theorem pinv_step {st : St} (h : PInv st) (ev : Ev) : PInv (step st ev) := by
  cases ev with
  | start k c ttl now =>
    simp only [step]
    split
    · exact h
    · rename_i hopen
      have hi := Lru.inv_flight h.store k c ttl now
      have hsub := Lru.flight_completed_sub st.store k c ttl now
      have hcl : (Lru.flight st.store k c ttl now).1.closed = true → False := by
        intro hc
        have o := Lru.flight_cases st.store k c ttl now
        cases o with
        | closed hc' hs hr => exact hopen hc'
        | found e hc' hf hv hr hl hsz hn fr => rw [fr.1, hc'] at hc; cases hc
        | expired e hc' hf hv hr hl hsz hn fr => rw [fr.1, hc'] at hc; cases hc
        | absent hc' hf hr hl hsz hn fr => rw [fr.1, hc'] at hc; cases hc
      split
      · exact ⟨hi, fun e he hp => h.entries e (hsub e he hp) hp, h.queue, h.floorLe, fun hc => (hcl hc).elim⟩
      · exact ⟨hi, fun e he hp => h.entries e (hsub e he hp) hp, h.queue, h.floorLe, fun hc => (hcl hc).elim⟩
  | startDone k c ttl now err =>
    simp only [step]
    split
    · exact h
    · rename_i hopen
      have hi := Lru.inv_flight h.store k c ttl now
      have hsub := Lru.flight_completed_sub st.store k c ttl now
      have hcl : (Lru.flight st.store k c ttl now).1.closed = true → False := by
        intro hc
        have o := Lru.flight_cases st.store k c ttl now
        cases o with
        | closed hc' hs hr => exact hopen hc'
        | found e hc' hf hv hr hl hsz hn fr => rw [fr.1, hc'] at hc; cases hc
        | expired e hc' hf hv hr hl hsz hn fr => rw [fr.1, hc'] at hc; cases hc
        | absent hc' hf hr hl hsz hn fr => rw [fr.1, hc'] at hc; cases hc
      split
      · refine ⟨Lru.inv_cancel hi k c err, ?_, h.queue, h.floorLe, ?_⟩
        · intro e he hp
          exact h.entries e (hsub e (Lru.cancel_sub _ k c err e he) hp) hp
        · intro hc
          have : (Lru.cancel (Lru.flight st.store k c ttl now).1 k c err).closed = (Lru.flight st.store k c ttl now).1.closed := by
            unfold Lru.cancel; split
            · rfl
            · split
              · rfl
              · split <;> rfl
          rw [this] at hc; exact (hcl hc).elim
      · exact ⟨hi, fun e he hp => h.entries e (hsub e he hp) hp, h.queue, h.floorLe, fun hc => (hcl hc).elim⟩
  | exec vsz raw =>
    simp only [step]
    split
    · exact h
    · rename_i k c rest hq
      have hopen : st.store.closed = true → False := by
        intro hc; have := (h.dead hc).2.1; rw [hq] at this; cases this
      have htr : ∀ k', st.tracked k' = true → upd st.tracked k true k' = true := by
        intro k' hk'; by_cases hkk : k' = k
        · subst hkk; exact upd_same _ _ _
        · rw [upd_other _ _ _ _ hkk]; exact hk'
      refine ⟨h.store, ?_, ?_, h.floorLe, fun hc => (hopen hc).elim⟩
      · intro e he hp
        dsimp only at he ⊢
        obtain ⟨a, b, c', d, l⟩ := h.entries e he hp
        refine ⟨a, b, ?_, fun hv => htr _ (d hv), l⟩
        intro hv; obtain ⟨m, hm, hc⟩ := c' hv; exact ⟨m, List.mem_append_left _ hm, hc⟩
      · show QOk st.floor st.ver (upd st.tracked k true) (st.respQ ++ [.reply k c (st.ver k) vsz raw])
        refine QOk_append st.respQ _ h.queue htr ⟨?_, by simp, fun k' => Nat.zero_le _⟩ ?_
        · intro k' c' v vsz' raw' he
          cases he
          exact ⟨h.floorLe k, Nat.le_refl _, fun hv => absurd hv (Nat.lt_irrefl _), fun _ => upd_same _ _ _⟩
        · intro k' c' v vsz' raw' he m hm
          cases he
          exact (QOk_mem h.queue m hm).1 k
  | execFail err =>
    simp only [step]
    split
    · exact h
    · rename_i k c rest hq
      have hopen : st.store.closed = true → False := by
        intro hc; have := (h.dead hc).2.1; rw [hq] at this; cases this
      refine ⟨h.store, ?_, ?_, h.floorLe, fun hc => (hopen hc).elim⟩
      · intro e he hp
        dsimp only at he ⊢
        obtain ⟨a, b, c', d, l⟩ := h.entries e he hp
        refine ⟨a, b, ?_, d, l⟩
        intro hv; obtain ⟨m, hm, hc⟩ := c' hv; exact ⟨m, List.mem_append_left _ hm, hc⟩
      · show QOk st.floor st.ver st.tracked (st.respQ ++ [.fail k c err])
        refine QOk_append st.respQ _ h.queue (fun _ hk => hk) ⟨?_, by simp, fun k' => Nat.zero_le _⟩ ?_
        · intro k' c' v vsz' raw' he; cases he
        · intro k' c' v vsz' raw' he; cases he
  | write k =>
    simp only [step]
    have hver : ∀ k', st.ver k' ≤ upd st.ver k (st.ver k + 1) k' := by
      intro k'; by_cases hkk : k' = k
      · subst hkk; rw [upd_same]; omega
      · rw [upd_other _ _ _ _ hkk]; exact Nat.le_refl _
    have hfl : ∀ k', st.floor k' ≤ upd st.ver k (st.ver k + 1) k' := fun k' => Nat.le_trans (h.floorLe k') (hver k')
    split
    · rename_i htk
      refine ⟨h.store, ?_, ?_, hfl, fun hc => by have := (h.dead hc).2.2 k; rw [htk] at this; cases this⟩
      · intro e he hp
        dsimp only at he ⊢
        obtain ⟨a, b, c', d, l⟩ := h.entries e he hp
        by_cases hek : e.key = k
        · refine ⟨a, Nat.le_trans b (hver _), ?_, ?_, l⟩
          · intro _
            exact ⟨.push k (st.ver k + 1), by simp, by rw [hek] at b ⊢; simp [pushVer]; omega⟩
          · intro hv; rw [hek, upd_same] at hv; rw [hek] at b; omega
        · refine ⟨a, by rw [upd_other _ _ _ _ hek]; exact b, ?_, ?_, l⟩
          · intro hv; rw [upd_other _ _ _ _ hek] at hv
            obtain ⟨m, hm, hc⟩ := c' hv; exact ⟨m, List.mem_append_left _ hm, hc⟩
          · intro hv; rw [upd_other _ _ _ _ hek] at hv ⊢; exact d hv
      · show QOk st.floor (upd st.ver k (st.ver k + 1)) (upd st.tracked k false) (st.respQ ++ [.push k (st.ver k + 1)])
        refine QOk_append_inval st.respQ _ h.queue (fun _ _ _ _ _ he => by cases he) hver ?_ ?_ ?_
        · intro k' hlt
          by_cases hkk : k' = k
          · subst hkk; simp [pushVer]
          · rw [upd_other _ _ _ _ hkk] at hlt; exact absurd hlt (Nat.lt_irrefl _)
        · intro k' heq htr'
          by_cases hkk : k' = k
          · subst hkk; rw [upd_same] at heq; omega
          · rw [upd_other _ _ _ _ hkk]; exact htr'
        · intro k'
          by_cases hkk : k' = k
          · subst hkk; simp [pushVer, upd_same]
          · have : k ≠ k' := fun hh => hkk hh.symm
            simp [pushVer, this]
    · rename_i htk
      have htk : st.tracked k = false := by simpa using htk
      refine ⟨h.store, ?_, ?_, hfl, h.dead⟩
      · intro e he hp
        dsimp only at he ⊢
        obtain ⟨a, b, c', d, l⟩ := h.entries e he hp
        by_cases hek : e.key = k
        · have hlt : e.val < st.ver e.key := by
            rcases Nat.lt_or_ge e.val (st.ver e.key) with hh | hh
            · exact hh
            · have := d (Nat.le_antisymm b hh); rw [hek, htk] at this; cases this
          refine ⟨a, Nat.le_trans b (hver _), fun _ => c' hlt, ?_, l⟩
          intro hv; rw [hek, upd_same] at hv; rw [hek] at b; omega
        · refine ⟨a, by rw [upd_other _ _ _ _ hek]; exact b, ?_, ?_, l⟩
          · intro hv; rw [upd_other _ _ _ _ hek] at hv; exact c' hv
          · intro hv; rw [upd_other _ _ _ _ hek] at hv; exact d hv
      · show QOk st.floor (upd st.ver k (st.ver k + 1)) st.tracked st.respQ
        refine QOk_change st.respQ h.queue ?_ hver
        intro k' c' v vsz raw hm a b d
        by_cases hkk : k' = k
        · subst hkk
          rw [upd_same]
          have hlt : v < st.ver k' := by
            rcases Nat.lt_or_ge v (st.ver k') with hh | hh
            · exact hh
            · have := d (Nat.le_antisymm b hh); rw [htk] at this; cases this
          exact ⟨a, by omega, fun _ => hlt, fun hv => by omega⟩
        · rw [upd_other _ _ _ _ hkk]
          exact ⟨a, b, fun hv => hv, d⟩
  | flushall =>
    simp only [step]
    split
    · rename_i hc
      have hnil := h.store.closedNil hc
      refine ⟨h.store, ?_, ?_, fun k => Nat.le_trans (h.floorLe k) (Nat.le_succ _), h.dead⟩
      · intro e he; have he : e ∈ st.store.list := he; rw [hnil] at he; cases he
      · show QOk _ _ _ st.respQ
        rw [(h.dead hc).1]; trivial
    · rename_i hopen
      refine ⟨h.store, ?_, ?_, fun k => Nat.le_trans (h.floorLe k) (Nat.le_succ _), fun hc => absurd hc hopen⟩
      · intro e he hp
        dsimp only at he ⊢
        obtain ⟨a, b, c', d, l⟩ := h.entries e he hp
        refine ⟨a, ?_, fun _ => ⟨.pushAll fun k => st.ver k + 1, by simp, ?_⟩, ?_, l⟩
        · show e.val ≤ st.ver e.key + 1; omega
        · show e.val < st.ver e.key + 1; omega
        · intro hv; have hv : e.val = st.ver e.key + 1 := hv; omega
      · show QOk st.floor (fun k => st.ver k + 1) (fun _ => false) (st.respQ ++ [.pushAll fun k => st.ver k + 1])
        refine QOk_append_inval st.respQ _ h.queue (fun _ _ _ _ _ he => by cases he) (fun k => Nat.le_succ _) ?_ ?_ ?_
        · intro k _; simp [pushVer]
        · intro k heq; omega
        · intro k; simp [pushVer]
  | deliver tnow =>
    simp only [step]
    split
    · exact h
    · rename_i m rest hq
      have hopen : st.store.closed = true → False := by
        intro hc; have := (h.dead hc).1; rw [hq] at this; cases this
      have hqueue := h.queue
      rw [hq] at hqueue
      have hent : ∀ e ∈ st.store.list, e.pend = false → EOk st.floor st.ver st.tracked st.log (m :: rest) e := by
        intro e he hp; have := h.entries e he hp; rw [hq] at this; exact this
      cases m with
      | reply k c v vsz raw =>
        simp only [handle]
        obtain ⟨a, b, c', d⟩ := hqueue.1.1 k c v vsz raw rfl
        refine ⟨Lru.inv_update h.store k c v vsz (Lru.serverRaw tnow raw), ?_, hqueue.2, h.floorLe, ?_⟩
        · intro e he hp
          dsimp only at he ⊢
          rcases Lru.update_completed st.store h.store k c v vsz (Lru.serverRaw tnow raw) e he hp with hold | hnew
          · obtain ⟨a', b', c'', d', l⟩ := hent e hold hp
            refine ⟨a', b', ?_, d', List.mem_append_left _ l⟩
            intro hv
            obtain ⟨m', hm', hc⟩ := c'' hv
            rcases List.mem_cons.1 hm' with rfl | hm'
            · simp [pushVer] at hc
            · exact ⟨m', hm', hc⟩
          · obtain ⟨h1, h2, h3⟩ := hnew
            unfold EOk
            rw [h1, h2, h3]
            exact ⟨a, b, c', d, by simp⟩
        · intro hc
          have o := Lru.update_cases st.store k c v vsz (Lru.serverRaw tnow raw)
          cases o with
          | closed hc' hs hp => exact (hopen hc').elim
          | absent hc' hf hs hp => rw [hs] at hc; exact (hopen hc).elim
          | fill e hc' hf hpend hp hl hsz hd hcl hmx hn => rw [hcl] at hc; cases hc
          | stale e hc' hf hpend hp hl hsz hd hcl hmx hn => rw [hcl] at hc; cases hc
      | fail k c err =>
        simp only [handle]
        refine ⟨Lru.inv_cancel h.store k c err, ?_, hqueue.2, h.floorLe, ?_⟩
        · intro e he hp
          dsimp only at he ⊢
          obtain ⟨a', b', c'', d', l⟩ := hent e (Lru.cancel_sub st.store k c err e he) hp
          refine ⟨a', b', ?_, d', l⟩
          intro hv
          obtain ⟨m', hm', hc⟩ := c'' hv
          rcases List.mem_cons.1 hm' with rfl | hm'
          · simp [pushVer] at hc
          · exact ⟨m', hm', hc⟩
        · intro hc
          have : (Lru.cancel st.store k c err).closed = st.store.closed := by
            unfold Lru.cancel; split
            · rfl
            · split
              · rfl
              · split <;> rfl
          rw [this] at hc; exact (hopen hc).elim
      | push k n =>
        simp only [handle]
        have hge := QOk_replies_ge hqueue
        have hn : n ≤ st.ver k := by have := hqueue.1.2.2 k; simpa [pushVer] using this
        have hfl' : ∀ k', upd st.floor k (max (st.floor k) n) k' ≤ st.ver k' := by
          intro k'; by_cases hkk : k' = k
          · subst hkk; rw [upd_same]; have := h.floorLe k'; omega
          · rw [upd_other _ _ _ _ hkk]; exact h.floorLe k'
        refine ⟨Lru.inv_delete h.store (some [k]), ?_, ?_, hfl', ?_⟩
        · intro e he hp
          dsimp only at he ⊢
          have hm := Lru.mem_foldl_purge [k] he
          have hek : e.key ≠ k := by intro hh; exact hm.2 hp (by simp [hh])
          obtain ⟨a', b', c'', d', l⟩ := hent e hm.1 hp
          refine ⟨by rw [upd_other _ _ _ _ hek]; exact a', b', ?_, d', l⟩
          intro hv
          obtain ⟨m', hm', hc⟩ := c'' hv
          rcases List.mem_cons.1 hm' with rfl | hm'
          · have : k ≠ e.key := fun hh => hek hh.symm
            simp [pushVer, this] at hc
          · exact ⟨m', hm', hc⟩
        · show QOk (upd st.floor k (max (st.floor k) n)) st.ver st.tracked rest
          refine QOk_change rest hqueue.2 ?_ (fun _ => Nat.le_refl _)
          intro k' c' v vsz raw hm a b d
          refine ⟨?_, b, fun hv => hv, d⟩
          by_cases hkk : k' = k
          · subst hkk; rw [upd_same]
            have := hge k' c' v vsz raw hm
            simp [pushVer] at this; omega
          · rw [upd_other _ _ _ _ hkk]; exact a
        · intro hc
          have : (Lru.delete st.store (some [k])).closed = st.store.closed := Lru.foldl_purge_closed _ _
          rw [this] at hc; exact (hopen hc).elim
      | pushAll g =>
        simp only [handle]
        have hge := QOk_replies_ge hqueue
        have hfl' : ∀ k', max (st.floor k') (g k') ≤ st.ver k' := by
          intro k'; have := hqueue.1.2.2 k'; have := h.floorLe k'; simp [pushVer] at *; omega
        refine ⟨Lru.inv_delete h.store none, ?_, ?_, hfl', ?_⟩
        · intro e he hp
          have := (Lru.flush_only_pending st.store e he).2
          rw [hp] at this; cases this
        · show QOk (fun k => max (st.floor k) (g k)) st.ver st.tracked rest
          refine QOk_change rest hqueue.2 ?_ (fun _ => Nat.le_refl _)
          intro k' c' v vsz raw hm a b d
          refine ⟨?_, b, fun hv => hv, d⟩
          have := hge k' c' v vsz raw hm
          simp [pushVer] at this; omega
        · intro hc
          have : (Lru.delete st.store none).closed = st.store.closed := Lru.foldl_purge_closed _ _
          rw [this] at hc; exact (hopen hc).elim
  | disconnect err =>
    simp only [step]
    exact ⟨Lru.inv_close _ _, by simp [Lru.close], trivial, h.floorLe, fun _ => ⟨rfl, rfl, fun _ => rfl⟩⟩

theorem pinv_run {st : St} (h : PInv st) (evs : List Ev) : PInv (run st evs) := by
  induction evs generalizing st with
  | nil => exact h
  | cons e rest ih => exact ih (pinv_step h e)


theorem QOk_suffix {f ver : Bytes → Nat} {tr : Bytes → Bool} (pre post : List Msg) (h : QOk f ver tr (pre ++ post)) :
    QOk f ver tr post := by
  induction pre with
  | nil => exact h
  | cons a rest ih => exact ih h.2

/-- the ghost floor never decreases -/
theorem floor_mono_step (st : St) (ev : Ev) (k : Bytes) : st.floor k ≤ (step st ev).floor k := by
  cases ev with
  | start k' c ttl now => simp only [step]; split; exact Nat.le_refl _; split <;> exact Nat.le_refl _
  | startDone k' c ttl now err => simp only [step]; split; exact Nat.le_refl _; split <;> exact Nat.le_refl _
  | exec vsz raw => simp only [step]; split <;> exact Nat.le_refl _
  | execFail err => simp only [step]; split <;> exact Nat.le_refl _
  | write k' => simp only [step]; split <;> exact Nat.le_refl _
  | flushall => simp only [step]; split <;> exact Nat.le_refl _
  | disconnect err => exact Nat.le_refl _
  | deliver tnow =>
    simp only [step]
    split
    · exact Nat.le_refl _
    · rename_i m rest hq
      cases m with
      | reply k' c v vsz raw => exact Nat.le_refl _
      | fail k' c err => exact Nat.le_refl _
      | push k' n =>
        simp only [handle]
        by_cases hkk : k = k'
        · subst hkk; rw [upd_same]; exact Nat.le_max_left _ _
        · rw [upd_other _ _ _ _ hkk]; exact Nat.le_refl _
      | pushAll g => simp only [handle]; exact Nat.le_max_left _ _

theorem floor_mono_run (st : St) (evs : List Ev) (k : Bytes) : st.floor k ≤ (run st evs).floor k := by
  induction evs generalizing st with
  | nil => exact Nat.le_refl _
  | cons e rest ih => exact Nat.le_trans (floor_mono_step st e k) (ih _)

end Rv.CachePipe
