/-
Lemmas about the stride walks of `DoMultiCache` (Rv/Model/MGetCache.lean): EXEC decoding, the lazy
stride-5 refill, and what the reference server answers to the wire built for the missed commands.
Core Lean only.
-/
import Rv.Lemmas.MGetClassify
namespace Rv.MGetCache
open Rv.MGetCache.Spec

theorem decode5_nonempty (pre ex r : Res) (h : decode5 pre ex = some r) : r.isEmpty = false := by
  unfold decode5 at h
  split at h
  · split at h
    · cases h; rfl
    · cases h
  · split at h
    · split at h <;> (cases h; rfl)
    · cases h; rfl

theorem refill5_eq (res : List Res) (prs : List (Res × Res)) (h : ∀ p ∈ prs, (decode5 p.1 p.2).isSome) :
    refill5 res prs = some (refill Res.isEmpty res (prs.filterMap fun p => decode5 p.1 p.2)) := by
  fun_induction refill5 res prs with
  | case1 => simp [refill]
  | case2 => simp [refill]
  | case3 s ss pre ex rs hs ih =>
    have hd := h (pre, ex) (by simp)
    obtain ⟨r, hr⟩ := Option.isSome_iff_exists.1 hd
    simp only at hr
    rw [hr]
    simp only [Option.bind_some, List.filterMap_cons, hr]
    rw [ih r (fun p hp => h p (by simp [hp]))]
    simp [refill, hs]
  | case4 s ss pre ex rs hs ih =>
    have hd := h (pre, ex) (by simp)
    obtain ⟨r, hr⟩ := Option.isSome_iff_exists.1 hd
    simp only at hr
    rw [ih h]
    simp only [List.filterMap_cons, hr, Option.map_some]
    simp [refill, hs]

variable {C : Type}

theorem serve_missing5 (reply : C → Atom) (abort : C → Bool) (missed : List C) :
    (pick5 (serveStd reply abort none (missing false missed))).filterMap (fun p => decode5 p.1 p.2)
      = missed.map (outStd false reply abort) ∧
    ∀ p ∈ pick5 (serveStd reply abort none (missing false missed)), (decode5 p.1 p.2).isSome := by
  induction missed with
  | nil => simp [missing, serveStd, pick5]
  | cons c rest ih =>
    have hm : missing false (c :: rest) = .optin :: .multi :: .pttl c :: .cmd c :: .exec :: missing false rest := by
      simp [missing]
    rw [hm]
    simp only [serveStd, pick5, List.nil_append, List.any_cons, List.any_nil, Bool.or_false,
      List.flatMap_cons, List.flatMap_nil, List.append_nil, List.cons_append]
    have hdec : decode5 okMsg (if abort c = true then Res.ofMsg (Msg.atom execAbort)
        else Res.ofMsg (Msg.arr [Atom.int (-1), reply c])) = some (outStd false reply abort c) := by
      by_cases ha : abort c = true
      · simp [ha, decode5, Res.toArray, Res.ofMsg, Msg.error, execAbort, Err.isRedis, okMsg, Res.error, outStd, Res.ofErr]
      · simp [ha, decode5, Res.toArray, Res.ofMsg, outStd]
    constructor
    · simp only [List.filterMap_cons, hdec, List.map_cons, ih.1]
    · intro p hp
      simp only [List.mem_cons] at hp
      rcases hp with rfl | hp
      · simp [hdec]
      · exact ih.2 p hp

theorem serve_missing2 (reply : C → Atom) (abort : C → Bool) (missed : List C) :
    pick2 (serveStd reply abort none (missing true missed)) = missed.map (outStd true reply abort) := by
  induction missed with
  | nil => simp [missing, serveStd, pick2]
  | cons c rest ih =>
    have hm : missing true (c :: rest) = .optin :: .cmd c :: missing true rest := by simp [missing]
    rw [hm]
    simp only [serveStd, pick2, List.map_cons, ih]
    simp [outStd]


end Rv.MGetCache
