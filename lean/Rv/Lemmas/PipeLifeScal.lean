/-
Pipe life model: every step preserves the invariant over the scalar fields (`InvA`); it holds in every reachable state.
-/
import Rv.Lemmas.PipeLifeScalA
import Rv.Lemmas.PipeLifeScalB
namespace Rv.PipeLife

theorem invA_step {fix : Bool} {s s' : St} {l : Label} (h : step fix s l = some s') (ha : InvA (scal s)) :
    InvA (scal s') := by
  cases l <;> simp only [step] at h
  · exact A_enter h ha
  · exact A_decide h ha
  · exact A_put h ha
  · exact A_putFail h ha
  · exact A_syncOk h ha
  · exact A_syncErr h ha
  · exact A_leave h ha
  · exact A_abort h ha
  · exact A_cancel h ha
  · exact A_connBreak h ha
  · exact A_pingFail h ha
  · exact A_wTake h ha
  · exact A_wFlush h ha
  · exact A_rFetch h ha
  · exact A_rDeliver h ha
  · exact A_rErr h ha
  · exact A_tdSpawn h ha
  · exact A_bgPingPut h ha
  · exact A_tdIter h ha
  · exact A_tdClose h ha
  · exact A_closeEnter h ha
  · exact A_closeCas h ha
  · exact A_closePing h ha
  · exact A_closeGot h ha
  · exact A_closeGrace h ha
  · exact A_closeTail h ha

theorem invA_init (calls : List Call) (p b : Bool) : InvA (scal (init calls p b)) := by
  have h0 : InvA (scal { calls := calls, blockFree := b }) := by constructor <;> simp [scal, tdPast]
  unfold init; split
  · rw [scal_startBg]; exact h0.startBg
  · exact h0

theorem Reachable.invA {fix : Bool} {s : St} (h : Reachable fix s) : InvA (scal s) := by
  induction h with
  | init calls p b _ => exact invA_init calls p b
  | step l _ hs ih => exact invA_step hs ih
