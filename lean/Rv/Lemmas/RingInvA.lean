import Rv.Model.Ring
namespace Rv.Ring

theorem mod_window_unique (N x y : Nat) (h : x % N = y % N) (h1 : x < y + N) (h2 : y < x + N) : x = y := by
  have hx := Nat.div_add_mod x N
  have hy := Nat.div_add_mod y N
  rcases Nat.lt_trichotomy (x / N) (y / N) with hlt | heq | hgt
  · have : N * (x / N + 1) ≤ N * (y / N) := Nat.mul_le_mul_left N hlt
    rw [Nat.mul_succ] at this
    omega
  · rw [heq] at hx; omega
  · have : N * (y / N + 1) ≤ N * (x / N) := Nat.mul_le_mul_left N hgt
    rw [Nat.mul_succ] at this
    omega

theorem slotOf_eq (k x : Nat) (hk : k ≤ 32) : slotOf k x = x % 2 ^ k :=
  Nat.mod_mod_of_dvd x (Nat.pow_dvd_pow 2 hk)

structure InvA (k : Nat) (σ : State) : Prop where
  r21 : σ.read2 ≤ σ.read1
  r1N : σ.read1 ≤ σ.read2 + 2 ^ k
  genmod : ∀ s, s < 2 ^ k → (σ.slot s).gen % 2 ^ k = s
  genlo : ∀ s, s < 2 ^ k → σ.read2 < (σ.slot s).gen
  genhi : ∀ s, s < 2 ^ k → (σ.slot s).gen ≤ σ.read2 + 2 ^ k
  mark2 : ∀ s, s < 2 ^ k → ((σ.slot s).mark = 2 ↔ (σ.slot s).gen ≤ σ.read1)
  markle : ∀ s, s < 2 ^ k → (σ.slot s).mark ≤ 2
  wsl : ∀ s, σ.wpc = .sleeping s → s = (σ.read1 + 1) % 2 ^ k
  wwk : ∀ s, σ.wpc = .woken s → s = (σ.read1 + 1) % 2 ^ k
  hlt : ∀ s g, σ.rpc = .holding s g → s < 2 ^ k
  slt : ∀ s, σ.rpc = .signal s → s < 2 ^ k
  hmark : ∀ s c, σ.rpc = .holding s (some c) → (σ.slot s).mark = 0

theorem pow_pos' (k : Nat) : 0 < 2 ^ k := Nat.pow_pos (by decide)

/-- the slot that serves a position inside the reader's window carries exactly that position -/
theorem InvA.gen_of_window {k : Nat} {σ : State} (h : InvA k σ) (x : Nat)
    (h1 : σ.read2 < x) (h2 : x ≤ σ.read2 + 2 ^ k) : (σ.slot (x % 2 ^ k)).gen = x := by
  have hs : x % 2 ^ k < 2 ^ k := Nat.mod_lt _ (pow_pos' k)
  have a := h.genmod _ hs
  have b := h.genlo _ hs
  have c := h.genhi _ hs
  exact mod_window_unique (2 ^ k) _ _ (by rw [a]) (by omega) (by omega)

theorem InvA.init (k : Nat) : InvA k (init k) := by
  have hp := pow_pos' k
  refine ⟨by simp [Ring.init], by simp [Ring.init], ?_, ?_, ?_, ?_, ?_, ?_, ?_, ?_, ?_, ?_⟩
  all_goals simp [Ring.init, gen0]
  · intro s hs; split
    · subst_vars; simp
    · exact Nat.mod_eq_of_lt hs
  · intro s hs; split <;> omega
  · intro s hs; split <;> omega
  · intro s hs; split <;> omega



theorem mod_ne_of_gen {k : Nat} {σ : State} (h : InvA k σ) {s s' : Nat} (hs : s < 2 ^ k) (hs' : s' < 2 ^ k)
    (hne : s' ≠ s) : (σ.slot s').gen ≠ (σ.slot s).gen := by
  intro e
  have a := h.genmod _ hs
  have b := h.genmod _ hs'
  rw [e] at b; omega

theorem InvA.take {k : Nat} {σ : State} (h : InvA k σ) (s : Nat) (hs : s = (σ.read1 + 1) % 2 ^ k)
    (hm : (σ.slot s).mark = 1) (b : Bool) : InvA k (take σ s b) := by
  have hp := pow_pos' k
  have hsN : s < 2 ^ k := hs ▸ Nat.mod_lt _ hp
  have hgt : σ.read1 < (σ.slot s).gen := by
    have := (h.mark2 s hsN); omega
  have hhi := h.genhi s hsN
  have hgen : (σ.slot s).gen = σ.read1 + 1 := by
    have := h.gen_of_window (σ.read1 + 1) (by have := h.r21; omega) (by omega)
    rw [← hs] at this; exact this
  refine ⟨?_, ?_, ?_, ?_, ?_, ?_, ?_, ?_, ?_, ?_, ?_, ?_⟩
  · simp [Ring.take]; have := h.r21; omega
  · simp [Ring.take]; omega
  · intro s' hs'; simp only [Ring.take, upd_apply]; split <;> simp_all [h.genmod]
  · intro s' hs'; simp only [Ring.take, upd_apply]; have := h.genlo s' hs'; split <;> simp_all
  · intro s' hs'; simp only [Ring.take, upd_apply]; have := h.genhi s' hs'; split <;> simp_all
  · intro s' hs'; simp only [Ring.take, upd_apply]
    by_cases e : s' = s
    · subst e; simp; omega
    · simp [e]
      have := h.mark2 s' hs'
      have := mod_ne_of_gen h hsN hs' e
      omega
  · intro s' hs'; simp only [Ring.take, upd_apply]; have := h.markle s' hs'; split <;> simp_all
  · intro s'; simp [Ring.take]
  · intro s'; simp [Ring.take]
  · intro s' g; simp only [Ring.take]; exact h.hlt s' g
  · intro s'; simp only [Ring.take]; exact h.slt s'
  · intro s' c hh; simp only [Ring.take, upd_apply] at *
    have := h.hmark s' c hh
    by_cases e : s' = s
    · subst e; omega
    · simp [e, this]




/-- a transition that leaves counters, marks, gens, writer and reader pcs alone keeps InvA -/
theorem InvA.congr {k : Nat} {σ τ : State} (h : InvA k σ)
    (e1 : τ.read1 = σ.read1) (e2 : τ.read2 = σ.read2)
    (eg : ∀ s, (τ.slot s).gen = (σ.slot s).gen) (em : ∀ s, (τ.slot s).mark = (σ.slot s).mark)
    (ew : τ.wpc = σ.wpc) (er : τ.rpc = σ.rpc) : InvA k τ := by
  refine ⟨?_, ?_, ?_, ?_, ?_, ?_, ?_, ?_, ?_, ?_, ?_, ?_⟩
  · rw [e1, e2]; exact h.r21
  · rw [e1, e2]; exact h.r1N
  · intro s hs; rw [eg]; exact h.genmod s hs
  · intro s hs; rw [eg, e2]; exact h.genlo s hs
  · intro s hs; rw [eg, e2]; exact h.genhi s hs
  · intro s hs; rw [eg, em, e1]; exact h.mark2 s hs
  · intro s hs; rw [em]; exact h.markle s hs
  · intro s; rw [ew, e1]; exact h.wsl s
  · intro s; rw [ew, e1]; exact h.wwk s
  · intro s g; rw [er]; exact h.hlt s g
  · intro s; rw [er]; exact h.slt s
  · intro s c; rw [er, em]; exact h.hmark s c

theorem InvA.step {k : Nat} (hk : k ≤ 32) {σ : State} (h : InvA k σ) (l : Label)
    (he : enabled k l σ = true) : InvA k (apply k l σ) := by
  have hp := pow_pos' k
  cases l with
  | arrive => exact h.congr rfl rfl (fun _ => rfl) (fun _ => rfl) rfl rfl
  | enter c =>
    simp only [Ring.apply]
    split
    · rename_i s hpc
      split
      · rename_i hm
        -- fill
        simp only [enabled, hpc] at he
        refine ⟨h.r21, h.r1N, ?_, ?_, ?_, ?_, ?_, h.wsl, h.wwk, h.hlt, h.slt, ?_⟩
        · intro s' hs'; simp only [upd_apply]; split <;> simp_all [h.genmod]
        · intro s' hs'; simp only [upd_apply]; have := h.genlo s' hs'; split <;> simp_all
        · intro s' hs'; simp only [upd_apply]; have := h.genhi s' hs'; split <;> simp_all
        · intro s' hs'; simp only [upd_apply]
          by_cases e : s' = s
          · subst e; simp; have := h.mark2 s' hs'; omega
          · simp [e]; exact h.mark2 s' hs'
        · intro s' hs'; simp only [upd_apply]; have := h.markle s' hs'; split <;> simp_all
        · intro s' c' hh
          simp only [upd_apply]
          have := h.hmark s' c' hh
          by_cases e : s' = s
          · subst e
            have hh' : σ.rpc = .holding s' (some c') := hh
            simp [locked, hh'] at he
          · simp [e, this]
      · exact h.congr rfl rfl (fun _ => rfl) (fun _ => rfl) rfl rfl
    · exact h
  | bcast c =>
    simp only [Ring.apply]
    split
    · rename_i s hpc
      refine ⟨h.r21, h.r1N, h.genmod, h.genlo, h.genhi, h.mark2, h.markle, ?_, ?_, h.hlt, h.slt, h.hmark⟩
      · intro s'; simp only; split
        · intro hh; cases hh
        · exact h.wsl s'
      · intro s'; simp only; split
        · rename_i hw; intro hh; cases hh; exact h.wsl _ hw
        · exact h.wwk s'
    · exact h
  | wTry =>
    simp only [Ring.apply]
    split
    · rename_i hm; exact h.take _ (slotOf_eq k _ hk) hm _
    · exact h
  | wWait =>
    simp only [Ring.apply]
    split
    · rename_i hm; exact h.take _ (slotOf_eq k _ hk) hm _
    · refine ⟨h.r21, h.r1N, ?_, ?_, ?_, ?_, ?_, ?_, ?_, h.hlt, h.slt, ?_⟩
      · intro s' hs'; simp only [upd_apply]; split <;> simp_all [h.genmod]
      · intro s' hs'; simp only [upd_apply]; have := h.genlo s' hs'; split <;> simp_all
      · intro s' hs'; simp only [upd_apply]; have := h.genhi s' hs'; split <;> simp_all
      · intro s' hs'; simp only [upd_apply]; have := h.mark2 s' hs'; split <;> simp_all
      · intro s' hs'; simp only [upd_apply]; have := h.markle s' hs'; split <;> simp_all
      · intro s' hh; cases hh; exact slotOf_eq k _ hk
      · intro s' hh; cases hh
      · intro s' c' hh; simp only [upd_apply]; have := h.hmark s' c' hh; split <;> simp_all
  | wWake =>
    simp only [Ring.apply]
    split
    · rename_i s hw
      split
      · rename_i hm; exact h.take _ (h.wwk s hw) hm _
      · refine ⟨h.r21, h.r1N, ?_, ?_, ?_, ?_, ?_, ?_, ?_, h.hlt, h.slt, ?_⟩
        · intro s' hs'; simp only [upd_apply]; split <;> simp_all [h.genmod]
        · intro s' hs'; simp only [upd_apply]; have := h.genlo s' hs'; split <;> simp_all
        · intro s' hs'; simp only [upd_apply]; have := h.genhi s' hs'; split <;> simp_all
        · intro s' hs'; simp only [upd_apply]; have := h.mark2 s' hs'; split <;> simp_all
        · intro s' hs'; simp only [upd_apply]; have := h.markle s' hs'; split <;> simp_all
        · intro s' hh; cases hh; exact h.wwk s hw
        · intro s' hh; cases hh
        · intro s' c' hh; simp only [upd_apply]; have := h.hmark s' c' hh; split <;> simp_all
    · exact h
  | rBegin =>
    simp only [Ring.apply]
    have hs : slotOf k (σ.read2 + 1) = (σ.read2 + 1) % 2 ^ k := slotOf_eq k _ hk
    have hsN : slotOf k (σ.read2 + 1) < 2 ^ k := hs ▸ Nat.mod_lt _ hp
    have hgen : (σ.slot (slotOf k (σ.read2 + 1))).gen = σ.read2 + 1 := by
      rw [hs]; exact h.gen_of_window _ (by omega) (by omega)
    generalize slotOf k (σ.read2 + 1) = s at *
    split
    · rename_i hm
      have hle : σ.read2 + 1 ≤ σ.read1 := by have := (h.mark2 s hsN).1 hm; omega
      refine ⟨?_, ?_, ?_, ?_, ?_, ?_, ?_, h.wsl, h.wwk, ?_, ?_, ?_⟩
      · exact hle
      · simp only; have := h.r1N; omega
      · intro s' hs'; simp only [upd_apply]
        by_cases e : s' = s
        · subst e; simp; exact h.genmod _ hs'
        · simp [e]; exact h.genmod _ hs'
      · intro s' hs'; simp only [upd_apply]
        by_cases e : s' = s
        · subst e; simp; omega
        · simp [e]
          have := h.genlo s' hs'
          have := mod_ne_of_gen h hsN hs' e
          omega
      · intro s' hs'; simp only [upd_apply]
        by_cases e : s' = s
        · subst e; simp; omega
        · simp [e]; have := h.genhi s' hs'; omega
      · intro s' hs'; simp only [upd_apply]
        by_cases e : s' = s
        · subst e; simp; have := h.r1N; omega
        · simp [e]; exact h.mark2 s' hs'
      · intro s' hs'; simp only [upd_apply]; have := h.markle s' hs'; split <;> simp_all
      · intro s' g hh; cases hh; exact hsN
      · intro s' hh; cases hh
      · intro s' c' hh; injection hh with h1 h2; subst h1; simp
    · refine ⟨h.r21, h.r1N, h.genmod, h.genlo, h.genhi, h.mark2, h.markle, h.wsl, h.wwk, ?_, ?_, ?_⟩
      · intro s' g hh; cases hh; exact hsN
      · intro s' hh; cases hh
      · intro s' c' hh; cases hh
  | rDeliver c =>
    simp only [Ring.apply]
    split
    · rename_i s r hr
      refine ⟨h.r21, h.r1N, h.genmod, h.genlo, h.genhi, h.mark2, h.markle, h.wsl, h.wwk, ?_, ?_, ?_⟩
      · intro s' g hh; cases hh; exact h.hlt _ _ hr
      · intro s' hh; cases hh
      · intro s' c' hh; cases hh
    · exact h
  | rUnlock =>
    simp only [Ring.apply]
    split
    · rename_i s g hr
      refine ⟨h.r21, h.r1N, h.genmod, h.genlo, h.genhi, h.mark2, h.markle, h.wsl, h.wwk, ?_, ?_, ?_⟩
      · intro s' g hh; cases hh
      · intro s' hh; cases hh; exact h.hlt _ _ hr
      · intro s' c' hh; cases hh
    · exact h
  | rSignal w =>
    simp only [Ring.apply]
    split
    · split <;>
      · refine ⟨h.r21, h.r1N, h.genmod, h.genlo, h.genhi, h.mark2, h.markle, h.wsl, h.wwk, ?_, ?_, ?_⟩
        · intro s' g hh; cases hh
        · intro s' hh; cases hh
        · intro s' c' hh; cases hh
    · exact h


end Rv.Ring
