/-
C29: invariants of the `streamTo` model that hold for *every* input and every writer:
an unclean return carries an error, the outcome is never a runtime panic / over-allocation,
`n` is exactly the number of bytes the writer accepted during the call.
-/
import Rv.Model.StreamTo
import Rv.Props.C13
namespace Rv.StreamL
open Rv Rv.Resp Rv.StreamTo

/-- what every outcome of a call started with writer `wr` and byte count `acc` satisfies -/
def Good (wr : Wr) (acc : Nat) (o : Out) : Prop :=
  (o.clean = false → o.err ≠ .none) ∧ o.err ≠ .panic ∧ o.err ≠ .oom ∧
  (∃ d, o.w.out = wr.out ++ d ∧ o.n = acc + d.length) ∧ o.w.over = wr.over

theorem write_spec (wr : Wr) (p : List UInt8) :
    ∃ d, (wr.write p).2.2.out = wr.out ++ d ∧ (wr.write p).1 = d.length ∧ (wr.write p).2.2.over = wr.over := by
  unfold Wr.write
  cases hb : wr.budget with
  | none => exact ⟨p, rfl, rfl, rfl⟩
  | some k =>
    simp only
    split
    · exact ⟨p, rfl, rfl, rfl⟩
    · exact ⟨p.take k, rfl, by simp; omega, rfl⟩

theorem writeOut_good (wr : Wr) (p r : List UInt8) : Good wr 0 (writeOut wr p r) := by
  obtain ⟨d, h1, h2, h3⟩ := write_spec wr p
  unfold writeOut
  refine ⟨by simp, ?_, ?_, ⟨d, h1, by simp [h2]⟩, h3⟩ <;> (simp only; split <;> simp)

theorem copyN_spec (wr : Wr) (lim : Int) (bs : List UInt8) :
    ∃ d, (copyN wr lim bs).w.out = wr.out ++ d ∧ (copyN wr lim bs).written = d.length ∧ (copyN wr lim bs).w.over = wr.over := by
  unfold copyN
  split
  · exact ⟨[], by simp, rfl, rfl⟩
  · cases hb : wr.budget with
    | none => exact ⟨bs.take (min lim.toNat bs.length), rfl, by simp, rfl⟩
    | some k =>
      simp only
      split
      · exact ⟨bs.take (min lim.toNat bs.length), rfl, by simp, rfl⟩
      · exact ⟨bs.take k, rfl, by simp; omega, rfl⟩

theorem finishBlob_good (wr : Wr) (full : Int) (c : CopyRes)
    (hc : ∃ d, c.w.out = wr.out ++ d ∧ c.written = d.length ∧ c.w.over = wr.over) : Good wr 0 (finishBlob full c) := by
  obtain ⟨d, h1, h2, h3⟩ := hc
  unfold finishBlob
  split
  · refine ⟨fun _ => by split <;> simp, by split <;> simp, by split <;> simp, ⟨d, h1, by simp [h2]⟩, h3⟩
  · split
    · refine ⟨by simp, by split <;> simp, by split <;> simp, ⟨d, h1, by simp [h2]⟩, h3⟩
    · refine ⟨fun _ => by split <;> simp, by split <;> simp, by split <;> simp, ⟨d, h1, by simp [h2]⟩, h3⟩

theorem good_const (wr : Wr) (e : Err) (c : Bool) (r : List UInt8) (h1 : c = false → e ≠ .none) (h2 : e ≠ .panic) (h3 : e ≠ .oom) :
    Good wr 0 ⟨0, e, c, r, wr⟩ :=
  ⟨h1, h2, h3, ⟨[], by simp, by simp⟩, rfl⟩

theorem blobCase_good (t : UInt8) (len : Int) (r : List UInt8) (wr : Wr) : Good wr 0 (blobCase t len r wr) := by
  unfold blobCase
  split
  · exact good_const wr _ _ _ (by simp) (by simp) (by simp)
  · split
    · exact finishBlob_good wr _ _ (copyN_spec wr len r)
    · split
      · exact good_const wr _ _ _ (by simp) (by simp) (by simp)
      · exact finishBlob_good wr _ _ ⟨[], by simp, rfl, rfl⟩

theorem msgCase_good (t0 : UInt8) (m : Msg) (r : List UInt8) (wr : Wr) (o : Out) (h : msgCase t0 m r wr = some o) :
    Good wr 0 o := by
  unfold msgCase at h
  split at h
  · cases h; exact writeOut_good wr _ _
  · split at h
    · cases h; exact good_const wr _ _ _ (by simp) (by simp) (by simp)
    · split at h
      · cases h; exact good_const wr _ _ _ (by simp) (by simp) (by simp)
      · split at h
        · cases h; exact writeOut_good wr _ _
        · split at h
          · cases h
          · cases h; exact good_const wr _ _ _ (by simp) (by simp) (by simp)

theorem defaultCase_good (B : Nat) (t : UInt8) (bs : List UInt8) (wr : Wr) (o : Out) (h : defaultCase B t bs wr = some o) :
    Good wr 0 o := by
  unfold defaultCase at h
  rcases Rv.C13.decode_never_panics B (t :: bs) with ⟨m, r, hd⟩ | ⟨e, hd⟩
  · rw [hd] at h; exact msgCase_good t m r wr o h
  · rw [hd] at h; cases h; exact good_const wr _ _ _ (by simp) (by simp) (by simp)

theorem good_acc (wr : Wr) (acc : Nat) (o : Out) (h : Good wr 0 o) :
    Good wr acc { o with n := acc + o.n, clean := o.clean && decide (o.err = .none) } := by
  obtain ⟨h1, h2, h3, ⟨d, h4, h5⟩, h6⟩ := h
  refine ⟨?_, h2, h3, ⟨d, h4, by simp only; omega⟩, h6⟩
  intro hc
  simp only [Bool.and_eq_false_imp, decide_eq_false_iff_not] at hc
  cases hcl : o.clean with
  | false => exact h1 hcl
  | true => exact hc hcl

/-- the invariant holds for every fuel, writer and input, for `streamTo` and for the chunk loop -/
theorem all_good (B : Nat) : ∀ f,
    (∀ wr bs, Good wr 0 (streamTo B f wr bs)) ∧ (∀ acc wr bs, Good wr acc (chunkLoop B f acc wr bs)) := by
  intro f
  induction f with
  | zero =>
    constructor
    · intro wr bs; rw [streamTo]; exact good_const wr _ _ _ (by simp) (by simp) (by simp)
    · intro acc wr bs; rw [chunkLoop]
      exact ⟨by simp, by simp, by simp, ⟨[], by simp, by simp⟩, rfl⟩
  | succ f ih =>
    obtain ⟨ihS, ihC⟩ := ih
    constructor
    · intro wr bs
      cases bs with
      | nil => rw [streamTo]; exact good_const wr _ _ _ (by simp) (by simp) (by simp)
      | cons t bs =>
        rw [streamTo]
        split
        · split
          · exact good_const wr _ _ _ (by simp) (by simp) (by simp)
          · exact ihC 0 wr _
          · exact blobCase_good t _ _ wr
        · split
          · rename_i o ho; exact defaultCase_good B t bs wr o ho
          · exact ihS wr _
    · intro acc wr bs
      rw [chunkLoop]
      have hS := ihS wr bs
      split
      · -- continue the loop with the writer of the first call
        obtain ⟨_, _, _, ⟨d, h4, h5⟩, h6⟩ := hS
        have hC := ihC (acc + (streamTo B f wr bs).n) (streamTo B f wr bs).w (streamTo B f wr bs).rest
        obtain ⟨c1, c2, c3, ⟨d', c4, c5⟩, c6⟩ := hC
        refine ⟨c1, c2, c3, ⟨d ++ d', ?_, ?_⟩, by rw [c6, h6]⟩
        · rw [c4, h4, List.append_assoc]
        · rw [c5, h5]; simp; omega
      · exact good_acc wr acc _ hS

end Rv.StreamL
