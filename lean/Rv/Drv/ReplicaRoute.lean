/-
Driver for the `route` correspondence suite (C21): answers every op line from the model
Rv.ReplicaRoute (ordinary lines) or from the specification (`!sent` lines).
-/
import Rv.Model.Hex
import Rv.Model.ReplicaRoute
open Rv Rv.ReplicaRoute

def field (ws : List String) (name : String) : Option String :=
  ws.findSome? fun w =>
    if w.startsWith (name ++ "=") then some (String.ofList (w.toList.drop (name.length + 1))) else none

def flag (ws : List String) (name : String) : Bool := field ws name == some "1"

def natF (ws : List String) (name : String) : Nat := ((field ws name).bind String.toNat?).getD 0

def optInt (ws : List String) (name : String) : Option Int :=
  match field ws name with
  | some "none" => none
  | some s => s.toInt?
  | none => none

def cmdsF (ws : List String) : List Nat :=
  match field ws "cmds" with
  | some "_" => []
  | some s => (s.splitOn ",").filterMap String.toNat?
  | none => []

def bit (mask i : Nat) : Bool := (mask / 2 ^ i) % 2 == 1

/-- what the SendToReplicas function of the suite returns for command `i` -/
def optedOf (mask : Nat) (i : Nat) : Bool := bit mask i

def isMultiApi (api : String) : Bool := api == "multi" || api == "mstream" || api == "mcache"

def expF (ws : List String) : List Nat :=
  match field ws "exp" with
  | some "_" => []
  | some s => (s.splitOn ",").filterMap String.toNat?
  | none => []

def showCalls (l : List (Nat × Target)) : String :=
  ",".intercalate (l.map fun (i, t) => toString i ++ "@" ++ t.show_)

def standalone (ws : List String) : String :=
  let api := (field ws "api").getD ""
  let s : Standalone := ⟨flag ws "pred", natF ws "nrep", (optInt ws "sel").isSome, flag ws "az"⟩
  let sel := (optInt ws "sel").getD 0
  let mask := natF ws "mask"
  let os := (cmdsF ws).map (optedOf mask)
  let t :=
    if api == "cache" || api == "mcache" then s.cache
    else if api == "multi" || api == "mstream" then s.multi os sel
    else s.one (os.headD false) sel
  if flag ws "lft" then showCalls (s.multiCalls (api == "mcache") os sel (expF ws)) else
  t.show_

def sentinel (ws : List String) : String :=
  let api := (field ws "api").getD ""
  let c : Sentinel := ⟨flag ws "ro", flag ws "pred"⟩
  let mask := natF ws "mask"
  let os := (cmdsF ws).map (optedOf mask)
  let t := if isMultiApi api then c.multi os else c.pick (os.headD false)
  if flag ws "lft" then showCalls (c.multiCalls os (expF ws)) else
  t.show_

def shardOf (i : Nat) : Option Nat := if i < 2 then some 0 else if i < 4 then some 1 else none

def cluster (ws : List String) : String :=
  let api := (field ws "api").getD ""
  let c : Cluster := ⟨flag ws "ro", flag ws "pred", (optInt ws "rns").isSome⟩
  let rns := (optInt ws "rns").getD 0
  let rsel := optInt ws "rs"
  let nrep (s : Nat) : Nat := if s == 0 then natF ws "nrep0" else natF ws "nrep1"
  let mask := natF ws "mask"
  let cs := cmdsF ws
  let keyed := cs.filterMap shardOf
  let init := cs.any (· == 4)
  let cross := keyed.any (· != keyed.headD 0)
  let last := keyed.headD 0      -- the slot keyless members ride with; first covered slot if none
  let showAt (s : Nat) (t : Target) : String :=
    match t with
    | .anyNode => "ANY"
    | .panic => "panic"
    | _ => toString s ++ ":" ++ t.show_
  if api == "multi" then
    if init && cross then "panic" else
    ",".intercalate (cs.map fun i =>
      let s := (shardOf i).getD last
      showAt s (c.multiOne ⟨nrep s⟩ init (optedOf mask i) rsel rns))
  else if api == "mcache" then
    ",".intercalate (cs.map fun i =>
      let s := (shardOf i).getD last
      showAt s (c.multiCacheOne ⟨nrep s⟩ (optedOf mask i) rsel rns))
  else if api == "mstream" then
    if cross then "panic" else
    let t := c.multiStream ⟨nrep last⟩ keyed.isEmpty (cs.map (optedOf mask)) rsel rns
    ",".intercalate (cs.map fun _ => showAt last t)
  else
    let i := cs.headD 0
    let s := (shardOf i).getD 0
    showAt s (c.pick ⟨nrep s⟩ (shardOf i).isNone (optedOf mask i) rsel rns)

/-- the specification, judged on what the fake nodes observed: a command delivered to a replica
    needs ReplicaOnly, or a SendToReplicas function that returned true for it (for batches that
    travel together: for every command of the batch) -/
def specSent (ws : List String) : String :=
  let ro := flag ws "ro"
  let pred := flag ws "pred"
  let needAll := field ws "need" == some "all"
  let all := flag ws "all"
  let items := ((field ws "items").getD "").splitOn ","
  let okItem (it : String) : Bool :=
    match it.splitOn ":" with
    | [role, o] =>
      if role == "R" then ro || (pred && o == "1" && (!needAll || all)) else role == "P"
    | _ => false
  if items.all okItem then "ok" else "bad"

/-- the last clause of the property, judged on the observation: a selector result `k` outside a candidate
    list of `n` entries must have fallen back to the primary -/
def specSel (ws : List String) : String :=
  let k := ((field ws "k").bind String.toInt?).getD 0
  let items := ((field ws "items").getD "").splitOn ","
  let okItem (it : String) : Bool :=
    match it.splitOn ":" with
    | [role, n] =>
      let n : Int := (n.toNat?.getD 0 : Nat)
      if k < 0 || k ≥ n then role == "P" else true
    | _ => false
  if items.all okItem then "ok" else "bad"

def step (_ : Unit) (ws : List String) : Unit × String :=
  match ws with
  | "sa" :: r => ((), standalone r)
  | "se" :: r => ((), sentinel r)
  | "cl" :: r => ((), cluster r)
  | "!sent" :: r => ((), specSent r)
  | "!sel" :: r => ((), specSel r)
  | _ => ((), "bad-op")

def main : IO Unit := Hex.lineLoop () step
