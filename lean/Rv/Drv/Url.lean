import Rv.Model.Hex
import Rv.Model.Url
open Rv Rv.Url

/-
ops (all strings hex; the components are what net/url.Parse returned on the Go side):
  url  <rawurl> <scheme> <host> <path> <user> <nkeys> (<key> <nvals> <val>*)*   model of ParseURL
  !url …same…                                                                    specification (Rv.Url.specURL)
  url <rawurl> parse-error                                                       -> err:parse
  user = n (nil) | u:<name> (no password) | p:<name>:<password>
answer: err:<kind> | ok addr=… tls=… dialfn=… user=… pass=… db=… dial=… write=… resp2=… nocache=… noretry=… name=… master=… other=-
-/

def strOfHex (h : String) : Option String :=
  (Hex.decode h).map fun bs => String.ofList (bs.map fun b => Char.ofNat b.toNat)

def hexOfStr (s : String) : String := Hex.encode (s.toList.map fun c => UInt8.ofNat c.toNat)

def parseUser (w : String) : Option (Option (String × Option String)) :=
  if w == "n" then some none
  else match w.splitOn ":" with
    | ["u", n] => (strOfHex n).map fun n => some (n, none)
    | ["p", n, p] => do
      let n ← strOfHex n
      let p ← strOfHex p
      pure (some (n, some p))
    | _ => none

def parseQuery : Nat → List String → Option (Query × List String)
  | 0, ws => some ([], ws)
  | n + 1, k :: nv :: ws => do
    let k ← strOfHex k
    let nv ← nv.toNat?
    let vs ← (ws.take nv).mapM strOfHex
    let (rest, ws') ← parseQuery n (ws.drop nv)
    pure ((k, vs) :: rest, ws')
  | _, _ => none

def b01 (b : Bool) : String := if b then "1" else "0"

def render : Except Err Opt → String
  | .error e => match e with
    | .scheme => "err:scheme" | .dbnum => "err:dbnum" | .path => "err:path"
    | .dial => "err:dial" | .write => "err:write" | .skip => "err:skip"
  | .ok o =>
    "ok addr=" ++ (match o.initAddress with | none => "nil" | some l => ",".intercalate (l.map hexOfStr))
    ++ " tls=" ++ (match o.tls with | none => "nil" | some t => "min:771:sn:" ++ hexOfStr t.serverName ++ ":skip:" ++ b01 t.insecure)
    ++ " dialfn=" ++ b01 o.dialFn ++ " user=" ++ hexOfStr o.username ++ " pass=" ++ hexOfStr o.password
    ++ " db=" ++ toString o.selectDB ++ " dial=" ++ toString o.dialTimeout ++ " write=" ++ toString o.connWriteTimeout
    ++ " resp2=" ++ b01 o.alwaysRESP2 ++ " nocache=" ++ b01 o.disableCache ++ " noretry=" ++ b01 o.disableRetry
    ++ " name=" ++ hexOfStr o.clientName ++ " master=" ++ hexOfStr o.masterSet ++ " other=-"

def step (_ : Unit) (ws : List String) : Unit × String :=
  match ws with
  | [_, _, "parse-error"] => ((), "err:parse")
  | op :: _ :: sch :: host :: path :: user :: nk :: rest =>
    let r := do
      let sch ← strOfHex sch
      let host ← strOfHex host
      let path ← strOfHex path
      let user ← parseUser user
      let nk ← nk.toNat?
      let (q, _) ← parseQuery nk rest
      let u : UrlIn := ⟨sch, host, path, user, q⟩
      if op == "url" then pure (render (parseURL goParsers u))
      else if op == "!url" then pure (render (specURL goParsers u))
      else none
    ((), r.getD "bad-op")
  | _ => ((), "bad-op")

def main : IO Unit := Hex.lineLoop () step
