/-
Driver for the `multikey` correspondence suite (C31): answers each op line from the model
Rv.MultiKey (ordinary lines) or from the specification (`!` lines: every input key maps to the
store's value / its own error). The scripted server (`Srv`) is the test fixture shared with
harness/client/suite_multikey.go.
-/
import Rv.Model.Hex
import Rv.Model.Slot
import Rv.Spec.Slot
import Rv.Model.MultiKey
open Rv Rv.MultiKey

def field (ws : List String) (name : String) : Option String :=
  ws.findSome? fun w =>
    if w.startsWith (name ++ "=") then some (String.ofList (w.toList.drop (name.length + 1))) else none

def splitL (s sep : String) : List String := if s == "_" || s == "" then [] else s.splitOn sep
def joinL (xs : List String) (sep : String) : String := if xs.isEmpty then "_" else sep.intercalate xs
def tail (w : String) (n : Nat) : String := String.ofList (w.toList.drop n)
def keyList (s : String) : Option (List Key) := (splitL s ",").mapM Hex.decode

def pairList (s : String) : Option (List (Key × String)) :=
  (splitL s ",").mapM fun w =>
    match w.splitOn ":" with
    | [k, v] => (Hex.decode k).map fun kk => (kk, v)
    | _ => none

def kvList (s : String) : Option (List (Key × Key)) := do
  let ps ← pairList s
  ps.mapM fun p => (Hex.decode p.2).map fun v => (p.1, v)

/-- the scripted server: a store, keys whose commands fail, an anomaly for array replies -/
structure Srv where
  store : List (Key × Key)
  bad : List (Key × Reply)
  an : String
  cluster : Bool := false   -- cluster node: a command whose keys hash to different slots is refused

def parseBad (s : String) : Option (List (Key × Reply)) := do
  let ps ← pairList s
  ps.mapM fun p =>
    if p.2.startsWith "e" then (Hex.decode (tail p.2 1)).map fun t => (p.1, Reply.val (.rerr t))
    else if p.2.startsWith "x" then (Hex.decode (tail p.2 1)).map fun t => (p.1, Reply.io t)
    else none

def Srv.get (sv : Srv) (k : Key) : Val :=
  match sv.store.lookup k with
  | some v => .str v
  | none => .nil

/-- the failing key with the smallest hex form (independent of argument order) -/
def Srv.firstBad (sv : Srv) (keys : List Key) : Option Reply :=
  (keys.mergeSort fun a b => Hex.encode a ≤ Hex.encode b).findSome? fun k => sv.bad.lookup k

def everyNth (n : Nat) (l : List Key) : List Key :=
  (List.range l.length).filterMap fun i => if i % n == 0 then l[i]? else none

/-- the keys of a command the helpers can send (by command name) -/
def cmdKeys (argv : List Key) : List Key :=
  let name := argv.headD []
  let rest := argv.drop 1
  if name == s "MGET" || name == s "DEL" then rest
  else if name == s "JSON.MGET" then rest.dropLast
  else if name == s "GET" || name == s "JSON.GET" || name == s "SET" || name == s "JSON.SET" then rest.take 1
  else if name == s "MSET" || name == s "MSETNX" then everyNth 2 rest
  else if name == s "JSON.MSET" then everyNth 3 rest
  else []

def crossSlotText : Key := s "CROSSSLOT Keys in request don't hash to the same slot"

def Srv.answer (sv : Srv) (argv : List Key) : Reply :=
  let name := argv.headD []
  let rest := argv.drop 1
  if sv.cluster && ((cmdKeys argv).map Slot.slot).eraseDups.length > 1 then .val (.rerr crossSlotText) else
  let arrReply (keys : List Key) : Reply :=
    match sv.firstBad keys with
    | some r => r
    | none =>
      let arr := keys.map sv.get
      if sv.an == "long" then .arr (arr ++ [.str (s "extra")])
      else if sv.an == "short" then .arr arr.dropLast
      else if sv.an == "str" then .val (.str (s "notarray"))
      else .arr arr
  if name == s "MGET" then arrReply rest
  else if name == s "JSON.MGET" then arrReply rest.dropLast
  else if name == s "GET" || name == s "JSON.GET" then
    match sv.firstBad (rest.take 1) with
    | some r => r
    | none => .val (sv.get (rest.headD []))
  else if name == s "SET" then
    match sv.firstBad (rest.take 1) with
    | some r => r
    | none => if rest.length == 3 && (sv.store.lookup (rest.headD [])).isSome then .val .nil else .val (.str OK_)
  else if name == s "JSON.SET" then
    match sv.firstBad (rest.take 1) with
    | some r => r
    | none => .val (.str OK_)
  else if name == s "DEL" then
    match sv.firstBad rest with
    | some r => r
    | none => .val (.int (rest.filter fun k => (sv.store.lookup k).isSome).length)
  else if name == s "MSET" || name == s "MSETNX" then
    let keys := everyNth 2 rest
    match sv.firstBad keys with
    | some r => r
    | none =>
      if name == s "MSET" then .val (.str OK_)
      else .val (.int (if keys.any fun k => (sv.store.lookup k).isSome then 0 else 1))
  else if name == s "JSON.MSET" then
    match sv.firstBad (everyNth 3 rest) with
    | some r => r
    | none => .val (.str OK_)
  else .val (.rerr (s "ERR unknown command"))

def parseSrv (ws : List String) : Option Srv := do
  let st ← (field ws "st").bind kvList
  let bad ← (field ws "bad").bind parseBad
  let an ← field ws "an"
  pure ⟨st, bad, an, false⟩

/-! rendering -/

def showVal : Val → String
  | .str v => "s:" ++ Hex.encode v
  | .int n => "i:" ++ toString n
  | .nil => "n"
  | .rerr t => "e:" ++ Hex.encode (trimErr t)
  | .arrN n => "a#" ++ toString n

def showErr : Option Err → String
  | none => "ok"
  | some .nil => "n"
  | some (.redis t) => "e:" ++ Hex.encode t
  | some .parse => "parse"
  | some (.io t) => "x:" ++ Hex.encode t
  | some .nx => "nx"

def sortDedup (xs : List String) : List String := (xs.mergeSort (· ≤ ·)).eraseDups

def showKV {α : Type} (sh : α → String) (m : KV α) : String :=
  let ks := sortDedup (m.keys.map Hex.encode)
  joinL (ks.filterMap fun hk =>
    (m.find? fun p => Hex.encode p.1 == hk).map fun p => hk ++ "=" ++ sh p.2) ","

def showOutcome {α : Type} (sh : α → String) : Outcome α → String
  | .ok m => "ok:" ++ showKV sh m
  | .err e => "err:" ++ showErr (some e)
  | .panic => "panic"

def showOut : Out → String
  | .vals o => showOutcome showVal o
  | .errs o => showOutcome showErr o

def showArgv (a : List Key) : String := joinL (a.map Hex.encode) ","

def showCall (sortBatch : Bool) : Call → String
  | .one a => "D:" ++ showArgv a
  | .multi cs => "M[" ++ joinL (let r := cs.map showArgv; if sortBatch then r.mergeSort (· ≤ ·) else r) "+" ++ "]"
  | .cache cs => "C[" ++ joinL (cs.map showArgv) "+" ++ "]"

def answerLine (sortBatch : Bool) (r : List Call × Out) : String :=
  "sent=" ++ joinL (r.1.map (showCall sortBatch)) ";" ++ " out=" ++ showOut r.2

def sortKvs (kvs : List (Key × Key)) : List (Key × Key) :=
  kvs.mergeSort fun a b => Hex.encode a.1 ≤ Hex.encode b.1

def isSingle (mode : String) : Bool := mode != "cluster"

/-- `grp`: the per-slot commands of internal/cmds (MGets …), sorted by slot -/
def showGroups (ro : Bool) (g : List (Nat × List Key)) : String :=
  joinL ((g.mergeSort fun a b => a.1 ≤ b.1).map fun p =>
    toString p.1 ++ ":" ++ (if ro then "r" else "w") ++ ":" ++ showArgv p.2) "|"

def grp (fn : String) (keys : List Key) (kvs : List (Key × Key)) (path : Key) : Option String :=
  let byKey (name : String) (ro : Bool) (suffix : List Key) :=
    some (showGroups ro ((group Slot.slot keys).map fun p => (p.1, s name :: p.2 ++ suffix)))
  let byKv (name : String) (f : Key × Key → List Key) :=
    some (showGroups false ((groupBy Slot.slot (·.1) (sortKvs kvs)).map fun p => (p.1, s name :: p.2.flatMap f)))
  if fn == "mgets" then byKey "MGET" true []
  else if fn == "mdels" then byKey "DEL" false []
  else if fn == "jsonmgets" then byKey "JSON.MGET" true [path]
  else if fn == "msets" then byKv "MSET" fun p => [p.1, p.2]
  else if fn == "msetnxs" then byKv "MSETNX" fun p => [p.1, p.2]
  else if fn == "jsonmsets" then byKv "JSON.MSET" fun p => [p.1, path, p.2]
  else none

/-! specification side of the `!` lines -/

/-- `!grp`: per distinct slot (by the *specification* of the slot function, C18) the command
    holds exactly the inputs hashing to it, in input order -/
def specGrp (fn : String) (keys : List Key) (kvs : List (Key × Key)) (path : Key) : Option String :=
  let sl := Spec.Slot.slotSpec
  let byKey (name : String) (ro : Bool) (suffix : List Key) :=
    let slots := ((keys.map sl).mergeSort (· ≤ ·)).eraseDups
    some (joinL (slots.map fun n => toString n ++ ":" ++ (if ro then "r" else "w") ++ ":" ++
      showArgv (s name :: keys.filter (fun k => sl k == n) ++ suffix)) "|")
  let byKv (name : String) (f : Key × Key → List Key) :=
    let slots := ((kvs.map fun p => sl p.1).mergeSort (· ≤ ·)).eraseDups
    some (joinL (slots.map fun n => toString n ++ ":w:" ++
      showArgv (s name :: (kvs.filter fun p => sl p.1 == n).flatMap f)) "|")
  if fn == "mgets" then byKey "MGET" true []
  else if fn == "mdels" then byKey "DEL" false []
  else if fn == "jsonmgets" then byKey "JSON.MGET" true [path]
  else if fn == "msets" then byKv "MSET" fun p => [p.1, p.2]
  else if fn == "msetnxs" then byKv "MSETNX" fun p => [p.1, p.2]
  else if fn == "jsonmsets" then byKv "JSON.MSET" fun p => [p.1, path, p.2]
  else none

/-- every distinct input key, with the store's value -/
def specVals (sv : Srv) (keys : List Key) : String :=
  "ok:" ++ joinL ((sortDedup (keys.map Hex.encode)).filterMap fun hk =>
    (keys.find? fun k => Hex.encode k == hk).map fun k => hk ++ "=" ++ showVal (sv.get k)) ","

/-- every distinct input key, with its own error (`ownErr k`) -/
def specErrs (keys : List Key) (ownErr : Key → Option Err) : String :=
  "ok:" ++ joinL ((sortDedup (keys.map Hex.encode)).filterMap fun hk =>
    (keys.find? fun k => Hex.encode k == hk).map fun k => hk ++ "=" ++ showErr (ownErr k)) ","

def step (_ : Unit) (ws : List String) : Unit × String :=
  let bad := ((), "bad-op")
  match ws with
  | [] => bad
  | op :: rest =>
    let mode := (field rest "mode").getD "cluster"
    let single := isSingle mode
    let keys := ((field rest "keys").bind keyList).getD []
    let kvs := sortKvs (((field rest "kv").bind kvList).getD [])
    let path := ((field rest "path").bind Hex.decode).getD []
    let nocache := (field rest "nocache") == some "1"
    if op == "grp" then
      match grp ((field rest "fn").getD "") keys kvs path with
      | some a => ((), a)
      | none => bad
    else if op == "!grp" then
      match specGrp ((field rest "fn").getD "") keys kvs path with
      | some a => ((), a)
      | none => bad
    else
    if op == "!mk" then
      -- oracle: every command sent to the cluster client addresses one slot (by the slot spec)
      match (field rest "cmds").bind fun x => (splitL x ";").mapM keyList with
      | some cs =>
        ((), if cs.all fun a => ((cmdKeys a).map Spec.Slot.slotSpec).eraseDups.length ≤ 1 then "ok"
             else "violates-C31:command-mixes-slots")
      | none => bad
    else
    match (parseSrv rest).map fun sv => { sv with cluster := !single } with
    | none => bad
    | some sv =>
      let srv := sv.answer
      if op == "mget" then ((), answerLine false (mget Slot.slot single keys none srv))
      else if op == "jsonmget" then ((), answerLine false (mget Slot.slot single keys (some path) srv))
      else if op == "mgetcache" then ((), answerLine false (mgetCache Slot.slot single (nocache && single) keys none srv))
      else if op == "jsonmgetcache" then ((), answerLine false (mgetCache Slot.slot single false keys (some path) srv))
      else if op == "mset" then ((), answerLine true (mset single false kvs srv))
      else if op == "msetnx" then ((), answerLine true (mset single true kvs srv))
      else if op == "jsonmset" then ((), answerLine true (jsonMSet single kvs path srv))
      else if op == "mdel" then ((), answerLine false (mdel single keys srv))
      -- oracle lines: the specification, not the model
      else if op == "!mget" || op == "!jsonmget" || op == "!mgetcache" || op == "!jsonmgetcache" then
        ((), specVals sv keys)
      else if op == "!mset" || op == "!jsonmset" || op == "!mdel" then
        ((), specErrs (if op == "!mdel" then keys else kvs.map (·.1)) fun k => (sv.bad.lookup k).bind errOf)
      else if op == "!msetnx" then
        ((), specErrs (kvs.map (·.1)) fun k =>
          match sv.bad.lookup k with
          | some r => errOf r
          | none => if (sv.store.lookup k).isSome then some .nil else none)
      else bad

def main : IO Unit := Hex.lineLoop () step
