import Rv.Model.Hex
import Rv.Model.WriteCmd
open Rv

/-- FNV-1a (64 bit) of a byte string, for summarising long outputs -/
def fnv (bs : List UInt8) : UInt64 :=
  bs.foldl (fun h b => (h ^^^ b.toUInt64) * 1099511628211) 14695981039346656037

/-- one token: the hex text when short, otherwise length, hash, head and tail -/
def summ (bs : List UInt8) : String :=
  if bs.length ≤ 256 then Hex.encode bs
  else "#" ++ toString bs.length ++ ":" ++ toString (fnv bs).toNat ++ ":" ++ Hex.encode (bs.take 16) ++ ":" ++
    Hex.encode (bs.drop (bs.length - 16))

/-- argument token: hex, `-`, or `r<len>x<hh>` (a byte repeated) -/
def parseArg (w : String) : Option (List UInt8) :=
  if w.startsWith "r" then
    match w.splitOn "x" with
    | [n, h] => match (String.ofList (n.toList.drop 1)).toNat?, Hex.decode h with
      | some k, some [b] => some (List.replicate k b)
      | _, _ => none
    | _ => none
  else Hex.decode w

def showArgv (args : List (List UInt8)) : String :=
  String.intercalate " " ("argv" :: toString args.length :: args.map summ)

def splitSlash (ws : List String) : List String × List String :=
  (ws.takeWhile (· ≠ "/"), (ws.dropWhile (· ≠ "/")).drop 1)

def step (_ : Unit) (ws : List String) : Unit × String :=
  match ws with
  | ["wn", id, n] =>
    match id.toNat?, n.toNat? with
    | some i, some k => ((), summ (WriteCmd.writeN WriteCmd.exactLead (UInt8.ofNat i) k))
    | _, _ => ((), "bad-op")
  | ["wb", id, a] =>
    match id.toNat?, parseArg a with
    | some i, some s => ((), summ (WriteCmd.writeB WriteCmd.exactLead (UInt8.ofNat i) s))
    | _, _ => ((), "bad-op")
  | "wc" :: _ :: as =>      -- wc <bufio size> args… : the model is independent of the buffer size
    match as.mapM parseArg with
    | some args => ((), summ (WriteCmd.writeCmd WriteCmd.exactLead args))
    | none => ((), "bad-op")
  | "wc2" :: _ :: rest =>   -- two commands back to back
    let (x, y) := splitSlash rest
    match x.mapM parseArg, y.mapM parseArg with
    | some a, some b => ((), summ (WriteCmd.writeCmd WriteCmd.exactLead a ++ WriteCmd.writeCmd WriteCmd.exactLead b))
    | _, _ => ((), "bad-op")
  | "wcx" :: _ :: as =>     -- the same slice written twice: both frames, then the slice afterwards
    match as.mapM parseArg with
    | some args => let r := WriteCmd.writeTwice WriteCmd.exactLead args; ((), summ r.1 ++ " | " ++ showArgv r.2)
    | none => ((), "bad-op")
  | "!rtx" :: _ :: as =>    -- oracle: both frames decode to the argv and the caller's slice is unchanged
    match as.mapM parseArg with
    | some args => ((), showArgv args ++ " / " ++ showArgv args ++ " | " ++ showArgv args)
    | none => ((), "bad-op")
  | "!rt" :: _ :: as =>     -- oracle: the decoded argv must be the written argv
    match as.mapM parseArg with
    | some args => ((), showArgv args)
    | none => ((), "bad-op")
  | "!rt2" :: _ :: rest =>
    let (x, y) := splitSlash rest
    match x.mapM parseArg, y.mapM parseArg with
    | some a, some b => ((), showArgv a ++ " / " ++ showArgv b)
    | _, _ => ((), "bad-op")
  | _ => ((), "bad-op")

def main : IO Unit := Hex.lineLoop () step
