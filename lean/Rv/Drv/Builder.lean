/-
Line driver for the builder suites (C32 `bflags`, C33 `bargv`): answers every op line from
the regenerated tables through the interpreter Rv.Model.Builder, and `!judge` lines from
the specification (Rv.Spec.RedisCommands via Rv.Bld.judge).

  path <init|noslot> <Root> (.<Method> <arg>*)* =<Build|Cache>
      → ok ty=<type> argv=<hex,…> ks=<n> cf=<n> fl=<ro blk noreply unsub retry pipe mget optin static>
      | panic | stuck:<why>
  judge / !judge <name-hex> <blockOpt 0|1> <cache 0|1> <cf> [:: the path it came from]  → ok | bad:<clause>:<name>
  !opt <EX|PX|EXAT|PXAT> <d:…|t:…>                             → hex of the decimal number the option's unit demands
  tables                                                       → counts (roots methods builds caches) + name-code check

argument words: s:<hex>  v:<hex>,<hex>…  i:/u:/f:/d:<16 hex>  I:/U:/F:<16 hex>,…  t:<16 hex>:<8 hex>
-/
import Rv.Model.Hex
import Rv.Model.BuilderCheck
import Rv.Gen.Builders
import Std.Data.HashMap
open Rv Rv.Bld Rv.Gen

def sdrop (n : Nat) (s : String) : String := String.ofList (s.toList.drop n)
def stake (n : Nat) (s : String) : String := String.ofList (s.toList.take n)

def hexNat (s : String) : Option Nat :=
  if s.isEmpty then none else
  s.toList.foldlM (fun acc c => (Hex.nib c).map (acc * 16 + ·)) 0

def toInt64 (n : Nat) : Int := if n < 2^63 then (n : Int) else (n : Int) - 2^64

def splitList (s : String) : List String := if s.isEmpty then [] else s.splitOn ","

def parseArg (w : String) : Option Val :=
  if w.length < 2 then none else
  let tag := stake 2 w
  let body := sdrop 2 w
  match tag with
  | "s:" => (Hex.decode body).map .str
  | "v:" => ((splitList body).mapM Hex.decode).map .strs
  | "i:" => (hexNat body).map fun n => .int (toInt64 n)
  | "u:" => (hexNat body).map .uint
  | "f:" => (hexNat body).map .flt
  | "d:" => (hexNat body).map fun n => .dur (toInt64 n)
  | "I:" => ((splitList body).mapM hexNat).map fun l => .ints (l.map toInt64)
  | "U:" => ((splitList body).mapM hexNat).map .uints
  | "F:" => ((splitList body).mapM hexNat).map .flts
  | "t:" => match body.splitOn ":" with
    | [a, b] => do
      let s ← hexNat a
      let n ← hexNat b
      pure (.time (toInt64 s) n)
    | _ => none
  | _ => none

/-- split the words after the root into calls and the final -/
partial def parseCalls (ws : List String) (acc : List Call) : Option (List Call × String) :=
  match ws with
  | [] => none
  | w :: rest =>
    if w.startsWith "=" then (if rest.isEmpty then some (acc.reverse, sdrop 1 w) else none)
    else if w.startsWith "." then
      let args := rest.takeWhile fun x => !(x.startsWith "." || x.startsWith "=")
      let rest' := rest.dropWhile fun x => !(x.startsWith "." || x.startsWith "=")
      match args.mapM parseArg with
      | some vs => parseCalls rest' ({ name := sdrop 1 w, args := vs } :: acc)
      | none => none
    else none

def flagBits (cf : Nat) : String :=
  String.join ([isReadOnly cf, isBlock cf, noReply cf, isUnsub cf, isRetryable cf, isPipe cf,
    isMGet cf, isOptIn cf, isStaticTTL cf].map fun b => if b then "1" else "0")

def showSt (s : St) : String :=
  "ok ty=" ++ s.ty ++ " argv=" ++ ",".intercalate (s.argv.map Hex.encode) ++
  " ks=" ++ toString s.ks ++ " cf=" ++ toString s.cf ++ " fl=" ++ flagBits s.cf

abbrev Tab := Std.HashMap String Cmd

def mkTab : Tab := Builders.allCmds.foldl (fun t c => t.insert c.ty c) {}

def step (t : Tab) (ws : List String) : Tab × String :=
  match ws with
  | "path" :: init :: root :: rest =>
    let ks0 := if init == "noslot" then Slot.noSlot else Slot.initSlot
    match t[root]? with
    | none => (t, "stuck:no-root")
    | some c =>
      match parseCalls rest [] with
      | none => (t, "bad-op")
      | some (calls, fin) =>
        if fin != "Build" && fin != "Cache" then (t, "bad-op") else
        match build Flags.blockTag c ks0 calls (fin == "Cache") with
        | .ok s => (t, showSt s)
        | .error .panic => (t, "panic")
        | .error (.stuck why) => (t, "stuck:" ++ why)
  | "!opt" :: tok :: arg :: _path =>
    -- oracle line: the specification of the option's unit (not the regenerated records)
    match parseArg arg with
    | some (.dur ns) =>
      if tok == "EX" then (t, Hex.encode (fmtInt (Int.tdiv ns 1000000000)))        -- seconds
      else if tok == "PX" then (t, Hex.encode (fmtInt (Int.tdiv ns 1000000)))      -- milliseconds
      else (t, "bad-op")
    | some (.time sec nsec) =>
      if tok == "EXAT" then (t, Hex.encode (fmtInt sec))                           -- unix time, seconds
      else if tok == "PXAT" then (t, Hex.encode (fmtInt (wrap64 (sec * 1000 + Int.ofNat (nsec / 1000000)))))  -- unix time, ms
      else (t, "bad-op")
    | _ => (t, "bad-op")
  | j :: nameHex :: bo :: ca :: cf :: _path =>
    if j != "judge" && j != "!judge" then (t, "bad-op") else
    match Hex.decode nameHex, cf.toNat? with
    | some nb, some cfv =>
      match String.fromUTF8? (ByteArray.mk nb.toArray) with
      | some name => (t, judge (code name) name (bo == "1") (ca == "1") cfv)
      | none => (t, "bad-op")
    | _, _ => (t, "bad-op")
  | ["tables"] =>
    let cs := Builders.allCmds
    let bad := cs.filter fun c => !nameCodeOk c
    (t, s!"roots={cs.length} methods={(cs.map (·.methods.length)).sum} builds={(cs.map (·.builds.length)).sum} caches={(cs.map (·.caches.length)).sum} badnames={bad.length}")
  | _ => (t, "bad-op")

def main : IO Unit := Hex.lineLoop mkTab step
