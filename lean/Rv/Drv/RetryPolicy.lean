/-
Driver for the `retry` correspondence suite (C28): answers every `rt` line from the model
Rv.RetryPolicy and every `!resend` line from the specification.
The cluster batch model is run with `fixed := true` (the repaired doresultfn/resultcachefn).
-/
import Rv.Model.Hex
import Rv.Model.RetryPolicy
open Rv Rv.RetryPolicy

def field (ws : List String) (name : String) : Option String :=
  ws.findSome? fun w =>
    if w.startsWith (name ++ "=") then some (String.ofList (w.toList.drop (name.length + 1))) else none

def joinL (xs : List String) (sep : String) : String := if xs.isEmpty then "_" else sep.intercalate xs

def parseScript (s : String) : List Err :=
  if s == "_" then [] else s.toList.filterMap fun c => Err.ofCode (String.singleton c)

def parseTable (s : String) : List Int :=
  if s == "_" then [] else (s.splitOn ".").filterMap String.toInt?

def tableAt (t : List Int) (attempts : Nat) : Int :=
  match t with
  | [] => 0
  | _ => t.getD (min (attempts - 1) (t.length - 1)) 0

def hour : Int := 3600000000000

def tailS (w : String) (n : Nat) : String := String.ofList (w.toList.drop n)

def parseCtx (s : String) : Option Int × Option Nat :=
  if s == "bg" then (none, none)
  else if s == "dl" then (some hour, none)
  else if s == "done" then (none, some 0)
  else if s.startsWith "dlc" then (some hour, (tailS s 3).toNat?)
  else if s.startsWith "c" then (none, (tailS s 1).toNat?)
  else (none, none)

def showNats (l : List Nat) : String := joinL (l.map toString) "."

def ho (b : Bool) : String := if b then "O" else "H"

def answer (ws : List String) : String :=
  let mode := (field ws "mode").getD ""
  let api := (field ws "api").getD ""
  let dis := field ws "dis" == some "1"
  let kinds := ((field ws "kinds").getD "").splitOn ","
  let tables := (((field ws "delay").getD "").splitOn ";").map parseTable
  let scripts := (((field ws "script").getD "").splitOn ";").map parseScript
  let (deadline, ctxAt) := parseCtx ((field ws "ctx").getD "bg")
  let closeAt : Option Nat := match field ws "close" with
    | some "none" => none
    | some s => if s.startsWith "d" then (tailS s 1).toNat? else s.toNat?   -- d<k>: Close() while call k is pending
    | none => none
  let dc := field ws "dc" == some "1"
  let retireAt : Option Nat := (field ws "retire").bind String.toNat?
  let e : Env := { retry := if mode == "nd" then (nodeClientFlags dis dc).1 else !dis, delay := fun a i => tableAt (tables.getD i []) a,
                   deadline := deadline, ctxDoneAt := ctxAt, closeAt := closeAt }
  let cache := api == "cache" || api == "mcache"
  let retryable (i : Nat) : Bool := cache || (kinds.getD i "w") != "w"
  let single := api == "do" || api == "cache"
  if single && mode != "cl" then
    let o := seqDo e (!cache) (retryable 0) (scripts.headD []) 1 0
    s!"s={o.sends} d={showNats o.delayCalls} f={o.final.code}"
  else if single then
    let o := clDo e (!cache) (retryable 0) (scripts.headD []) 1 0 false
    s!"s={joinL (clLabels retireAt o.sends 1 false) ""} d={showNats o.delayCalls} f={o.final.code}"
  else if mode != "cl" then
    let allR := (List.range kinds.length).all retryable
    let o := seqMulti e (!cache) allR (total scripts + 1) scripts 1 0
    let ds := o.delayCalls.map fun (i, a) => s!"{i}:{a}"
    s!"rounds={o.rounds} d={joinL ds ","} f={String.join (o.finals.map Err.code)}"
  else
    let n := kinds.length
    let pend := (List.range n).map fun i => (⟨i, false⟩ : Pending)
    let rounds := clMulti true e (!cache) retryable (e.closed 0) (e.ctxDone 0) (total scripts + 1) pend scripts 1
    let evs := rounds.flatten
    let parts := (List.range n).map fun i =>
      let mine := evs.filter fun (j, _, _, _) => j == i
      let ss := mine.map fun (_, node, _, _) => ho node
      let ds := mine.filterMap fun (_, _, _, d) => d
      let f := match mine.getLast? with | some (_, _, r, _) => r.code | none => "?"
      s!"{i}:s={joinL ss ""}:d={showNats ds}:f={f}"
    " ".intercalate parts

/-- The specification of a re-send, judged on what the fake connections and the RetryDelay function
    observed. A command may be handed to a connection again only
      * after a MOVED / ASK reply (server-driven redirect) or errConnExpired (the connection refused the
        command before writing it) — these are not retries; or
      * if it is read-only or marked retryable, retries are not disabled, the trigger was a transport
        error or LOADING (cluster: also TRYAGAIN / CLUSTERDOWN), RetryDelay was asked and returned
        a non-negative delay, and the client was not closed.
    (Calls made with a done ctx are filtered by the harness: pipe.Do returns before writing.) -/
def specResend (ws : List String) : String :=
  let cl := field ws "mode" == some "cl"
  let dis := field ws "dis" == some "1"
  let items := ((field ws "items").getD "").splitOn ","
  let okItem (it : String) : Bool :=
    match it.splitOn ":" with
    | [kind, prev, delay, live] =>
      if prev == "M" || prev == "A" || prev == "X" then true
      else
        (kind == "r" || kind == "m") && !dis &&
        (prev == "x" || prev == "L" || (cl && (prev == "T" || prev == "C"))) &&
        (match delay.toInt? with | some d => decide (d ≥ 0) | none => false) && live == "1"
    | _ => false
  if items.all okItem then "ok" else "bad"

def step (_ : Unit) (ws : List String) : Unit × String :=
  match ws with
  | "rt" :: r => ((), answer r)
  | "ndc" :: r =>   -- MGetCache through a per-node client: DoMultiCache unless DisableCache
    ((), if nodeClientUsesCacheCalls (field r "dis" == some "1") (field r "dc" == some "1") then "mcache" else "do")
  | "rtx" :: _ => ((), "probe")   -- MULTI … EXEC blocks in cluster batches: probed by the harness only, not modelled
  | "!resend" :: r => ((), specResend r)
  | "!argv" :: r =>   -- a batch that is sent again must carry the argv it had the first time
    ((), if field r "same" == some "1" then "ok" else "bad")
  | _ => ((), "bad-op")

def main : IO Unit := Hex.lineLoop () step
