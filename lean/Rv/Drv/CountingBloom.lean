import Rv.Model.Hex
import Rv.Model.CountingBloom
open Rv Rv.CBloom Rv.BloomFmt
open Rv.Bloom (Cfg allIdx)

structure DS where
  cfg : Cfg := ⟨1, 1⟩
  st : CBloom.St := CBloom.St.init
  sp : Spec := {}

def hmgetReply (h : Ctrs) (idxs : List Nat) : String :=
  let vs := idxs.map h
  if vs.all Option.isNone then "*" ++ String.ofList (vs.map fun _ => '_')
  else "*[" ++ joinC (vs.map fun v => match v with | none => "_" | some x => "$" ++ toString x) ++ "]"

def getReply (s : CBloom.St) : String := match s.counter with | none => "_" | some c => "$" ++ toString c

def outBools : Out Bool → String
  | .nil => "nil" | .ok r => boolsAns r | .errRedis => "err:redis" | .errParse => "err:other"
def outNats : Out Nat → String
  | .nil => "nil" | .ok r => if r.isEmpty then "-" else natsC r | .errRedis => "err:redis" | .errParse => "err:other"

def hmgetLog (d : DS) (keys : List (Nat × Nat)) : String :=
  if keys.isEmpty then "" else
  let idxs := allIdx d.cfg.m d.cfg.k keys
  if idxs.isEmpty then " " ++ call "hmget" "@:cbf" "" "-ERR" else " " ++ call "hmget" "@:cbf" (natsC idxs) (hmgetReply d.st.h idxs)

def stepBase (d : DS) (ws : List String) : DS × String :=
  match ws with
  | ["reset", m, k, _, _] =>
    match m.toNat?, k.toNat? with
    | some m, some k => ({ cfg := ⟨m, k⟩ }, "ok")
    | _, _ => (d, "bad-op")
  | ["!cfg", m, k, _, _, _] =>
    match m.toNat?, k.toNat? with
    | some m, some k => (d, if 1 ≤ m ∧ 1 ≤ k then "ok" else "unusable")
    | _, _ => (d, "bad-op")
  -- script level
  | "s.add" :: n :: is =>
    match n.toInt?, parseNats is with
    | some n, some is => let r := addScript n is d.st; ({ d with st := r.1 }, ":" ++ toString r.2)
    | _, _ => (d, "bad-op")
  | "s.remove" :: k :: is =>
    match k.toNat?, parseNats is with
    | some k, some is =>
      match removeScript k is d.st with
      | some r => ({ d with st := r.1 }, ":" ++ toString r.2)
      | none => (d, "-ERR")
    | _, _ => (d, "bad-op")
  | "s.hmget" :: is =>
    match parseNats is with
    | some is => (d, hmgetReply d.st.h is)
    | none => (d, "bad-op")
  | ["s.get"] => (d, getReply d.st)
  | ["s.delete"] => ({ d with st := deleteScript d.st }, ":1")
  -- glue level
  | "add" :: items =>
    match items.mapM parseItem with
    | some keys =>
      if keys.isEmpty then (d, "ok") else
      let idxs := allIdx d.cfg.m d.cfg.k keys
      let r := addScript keys.length idxs d.st
      ({ d with st := r.1, sp := keys.foldl Spec.add d.sp },
        "ok " ++ call "cbfadd" "@:cbf,@:cbf:c" (natsC (keys.length :: idxs)) (":" ++ toString r.2))
    | none => (d, "bad-op")
  | "remove" :: items =>
    match items.mapM parseItem with
    | some keys =>
      if keys.isEmpty then (d, "ok") else
      let idxs := allIdx d.cfg.m d.cfg.k keys
      match removeScript d.cfg.k idxs d.st with
      | some r => ({ d with st := r.1, sp := keys.foldl Spec.remove d.sp },
          "ok " ++ call "cbfremove" "@:cbf,@:cbf:c" (natsC (idxs ++ [d.cfg.k])) (":" ++ toString r.2))
      | none => (d, "err:redis " ++ call "cbfremove" "@:cbf,@:cbf:c" (natsC (idxs ++ [d.cfg.k])) "-ERR")
    | none => (d, "bad-op")
  | "exists" :: items =>
    match items.mapM parseItem with
    | some keys => (d, outBools (existsMulti d.cfg keys d.st) ++ hmgetLog d keys)
    | none => (d, "bad-op")
  | ["exists1", item] =>
    match parseItem item with
    | some key =>
      (d, (match existsMulti d.cfg [key] d.st with
        | .ok (b :: _) => if b then "1" else "0"
        | .ok [] => "panic"
        | o => outBools o) ++ hmgetLog d [key])
    | none => (d, "bad-op")
  | "mincount" :: items =>
    match items.mapM parseItem with
    | some keys => (d, outNats (itemMinCountMulti d.cfg keys d.st) ++ hmgetLog d keys)
    | none => (d, "bad-op")
  | ["count"] =>
    (d, (match count d.st with | some n => toString n | none => "err:other") ++ " " ++ call "get" "@:cbf:c" "" (getReply d.st))
  | ["gdelete"] => ({ d with st := deleteScript d.st, sp := {} }, "ok " ++ call "bfdelete" "@:cbf,@:cbf:c" "" ":1")
  -- oracle lines: the specification (net multiplicities), not the model
  | ["!exists", item] =>
    match parseItem item with
    | some key => (d, if d.sp.clean ∧ d.sp.get key ≥ 1 then "1" else "unconstrained")
    | none => (d, "bad-op")
  | ["!mincount", item, v] =>   -- v = the value the implementation returned; judged against the net multiplicity
    match parseItem item, v.toNat? with
    | some key, some v => (d, if !d.sp.clean ∨ v ≥ d.sp.get key then "1" else "0")
    | _, _ => (d, "bad-op")
  | _ => (d, "bad-op")

/-- `overlap <opA…> / <opB…>`: opA was parked in the client before its arguments were read while opB
ran to completion, so the server executed opB first; the model's answer for each is the ordinary one
(the arguments of a call depend on its own items only, `Rv.C35.argv_depends_only_on_item`). -/
def step (d : DS) (ws : List String) : DS × String :=
  match ws with
  | "overlap" :: rest =>
    let a := rest.takeWhile (· != "/")
    let b := (rest.dropWhile (· != "/")).drop 1
    let r1 := stepBase d b
    let r2 := stepBase r1.1 a
    (r2.1, r2.2 ++ " | " ++ r1.2)
  | _ => stepBase d ws

def main : IO Unit := Hex.lineLoop ({} : DS) step
