import Rv.Model.Hex
import Rv.Model.ClusterMulti
import Rv.Spec.Cluster
open Rv

/- driver of the `route` suite (single-command paths of the cluster client, tables, single flight):
   the op lines are those of `Rv.ClusterMulti.Wire.step` -/
def main : IO Unit := Hex.lineLoop ({} : ClusterMulti.Wire.DS) ClusterMulti.Wire.step
