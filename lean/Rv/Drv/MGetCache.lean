import Rv.Model.Hex
import Rv.Model.MGetCache
/-!
Driver of the `mgetcache` correspondence suites (harness/mgetcache/suite_batch.go).

One line = one batched cache read against a prepared cache state:

  <kind> cfg=… st=<H|P|F|A per key id> vk=<v|n|e|a per key id> keys=<ids> kd=<destination per key id>

kind: `mget`/`jmget` (DoCache on MGET / JSON.MGET), `multi` (DoMultiCache, stride-5), `multis`
(DoMultiCache, every command with a static TTL, stride-2), `hmget`/`hjmget` (helper.go MGetCache /
JsonMGetCache: DoMultiCache of GET / JSON.GET plus the key → result map). `st`: H cached, P in flight (will
succeed), F in flight (will fail), A absent. `vk`: what the server answers for the key: v a value,
n null, e an error reply, a "the transaction holding it is discarded".

Ordinary lines are answered by the model (`mgetRun`, `batched` over `multiRun`): the commands that
reach the server and, per position, which key's value it holds and where it came from (c cache,
p the flight under way, n fetched now). `!` lines are answered by the specification
(`Spec.expected`): per position the key whose reply must be there.
-/
open Rv Rv.MGetCache

namespace MGetDrv

def field (ws : List String) (name : String) : Option String :=
  ws.findSome? fun w => match w.splitOn "=" with
    | [n, v] => if n == name then some v else none
    | _ => none

def nats (s : String) : Option (List Nat) :=
  if s == "-" || s == "" then some [] else (s.splitOn ",").mapM String.toNat?

structure Ep where
  st : List Char
  vk : List Char
  keys : List Nat
  kd : List Nat

def Ep.kind (e : Ep) (k : Nat) : Char := e.vk.getD k 'v'

def Ep.reply (e : Ep) (k : Nat) : Atom :=
  match e.kind k with
  | 'n' => .null
  | 'e' => .rerr k
  | _ => .str (4 * k + 2)

def Ep.held (e : Ep) (k src : Nat) : Msg :=
  if e.kind k == 'n' then .atom .null else .atom (.str (4 * k + src))

def Ep.ent (e : Ep) (skip : Bool) (k : Nat) : Ent :=
  match e.st.getD k 'A' with
  | 'H' => .cached (e.held k 0)
  | 'P' => .inflight ⟨some (e.held k 1), none⟩
  | 'F' => .inflight (if skip then .ofErr (.redis (.rerr k)) else .ofErr .aborted)
  | _ => .absent

def src (n : Nat) : String := if n % 4 == 0 then "c" else if n % 4 == 1 then "p" else "n"

def descMsg (withSrc : Bool) : Msg → String
  | .atom (.str v) => if withSrc then s!"{v / 4}{src v}" else s!"{v / 4}"
  | .atom .null => "nil"
  | .atom (.rerr k) => s!"{k}E"
  | .atom (.int n) => s!"int{n}"
  | .arr _ => "arr"

def descRes (withSrc : Bool) (r : Res) : String :=
  match r.err with
  | some .aborted => "X"
  | some (.redis a) => descMsg withSrc (.atom a)
  | some .parse => "parse"
  | some (.other n) => s!"T{n}"
  | none => match r.val with
    | some m => descMsg withSrc m
    | none => "EMPTY"

def ids (l : List Nat) : String := if l.isEmpty then "-" else ",".intercalate (l.map toString)
def join (l : List String) : String := if l.isEmpty then "-" else ",".intercalate l

def parse (ws : List String) : Option Ep := do
  let st ← field ws "st"
  let vk ← field ws "vk"
  let keys ← (← field ws "keys") |> nats
  let kd ← (← field ws "kd") |> nats
  pure ⟨st.toList, vk.toList, keys, kd⟩

/-- the reply of the tag server to the rewritten MGET -/
def mgetSrv (e : Ep) (rw : List Nat) : Except Err (List (Option Msg)) :=
  if rw.any (fun k => e.kind k == 'a') then .error .aborted
  else .ok (rw.map fun k => some (.atom (e.reply k)))

def mgetModel (e : Ep) : String :=
  let (rw, res) := mgetRun false (e.ent false) e.keys (mgetSrv e)
  match res with
  | .ok vals => s!"rw={ids rw} r={join (vals.map fun v => descRes true ⟨v, none⟩)}"
  | .error er => s!"rw={ids rw} err={descRes true (.ofErr er)}"

def mgetSpec (e : Ep) : String :=
  let rw := missKeys false (e.ent false) [] e.keys
  let out : Nat → Res := fun k =>
    match mgetSrv e rw with
    | .error er => .ofErr er
    | .ok _ => .ofMsg (.atom (e.reply k))
  let want := e.keys.map (Spec.expected false (e.ent false) out)
  match want.find? (·.err.isSome) with
  | some r => s!"err={descRes false r}"
  | none => s!"r={join (want.map (descRes false))}"

def dedup (l : List Nat) : List Nat := l.foldl (fun acc x => if acc.contains x then acc else acc ++ [x]) []

def multiModel (e : Ep) (skip : Bool) : String :=
  let reply := e.reply
  let abort : Nat → Bool := fun k => !skip && e.kind k == 'a'
  let dest := e.keys.map fun k => e.kd.getD k 0
  let run1 (cs : List Nat) := multiRun false skip (e.ent skip) cs (ownStd skip reply abort) (serveStd reply abort none)
  let run (_ : Nat) (cs : List Nat) : List Res := (run1 cs).2.getD []
  let order := (dedup dest).mergeSort (fun a b => decide (a ≤ b))
  let wires := order.filterMap fun d =>
    let fetched := (run1 (cCommands dest e.keys d)).1.filterMap fun
      | .cmd c => some c
      | _ => none
    if fetched.isEmpty then none else some s!"{d}:{ids fetched}"
  let rw := if wires.isEmpty then "-" else ";".intercalate wires
  match batched Res.empty dest e.keys order run with
  | some res => s!"rw={rw} r={join (res.map (descRes true))}"
  | none => s!"rw={rw} panic"

/-- helper.go `doMultiCache` on top of `DoMultiCache`: the first non-Redis error fails the call,
    otherwise `ret[keys[i]] = resps[i].val` (read back per position) -/
def helperModel (e : Ep) : String :=
  let reply := e.reply
  let abort : Nat → Bool := fun k => e.kind k == 'a'
  let dest := e.keys.map fun k => e.kd.getD k 0
  let run1 (cs : List Nat) := multiRun false false (e.ent false) cs (ownStd false reply abort) (serveStd reply abort none)
  let run (_ : Nat) (cs : List Nat) : List Res := (run1 cs).2.getD []
  let order := (dedup dest).mergeSort (fun a b => decide (a ≤ b))
  let wires := order.filterMap fun d =>
    let fetched := (run1 (cCommands dest e.keys d)).1.filterMap fun
      | .cmd c => some c
      | _ => none
    if fetched.isEmpty then none else some s!"{d}:{ids fetched}"
  let rw := if wires.isEmpty then "-" else ";".intercalate wires
  match batched Res.empty dest e.keys order run with
  | none => s!"rw={rw} panic"
  | some res =>
    match res.find? (fun r => match r.err with | some (.redis _) => false | some _ => true | none => false) with
    | some r => s!"rw={rw} err={descRes true r}"
    | none =>
      -- the map: a later position with the same key overwrites an earlier one (same key, same value)
      let kv := e.keys.zip res
      let look (k : Nat) : Res := ((kv.reverse.find? fun p => p.1 == k).map (·.2)).getD Res.empty
      s!"rw={rw} r={join (e.keys.map fun k => descRes true ⟨(look k).val, none⟩)}"

def helperSpec (e : Ep) : String :=
  let abort : Nat → Bool := fun k => e.kind k == 'a'
  let want := e.keys.map (Spec.expected false (e.ent false) (outStd false e.reply abort))
  match want.find? (fun r => match r.err with | some (.redis _) => false | some _ => true | none => false) with
  | some r => s!"err={descRes false r}"
  | none => s!"r={join (want.map (descRes false))}"

def multiSpec (e : Ep) (skip : Bool) : String :=
  let abort : Nat → Bool := fun k => !skip && e.kind k == 'a'
  let want := e.keys.map (Spec.expected false (e.ent skip) (outStd skip e.reply abort))
  s!"r={join (want.map (descRes false))}"

def step (_ : Unit) (ws : List String) : Unit × String :=
  match ws with
  | kind :: rest =>
    match parse rest with
    | none => ((), "bad-op")
    | some e =>
      match kind with
      | "mget" | "jmget" => ((), mgetModel e)
      | "!mget" | "!jmget" => ((), mgetSpec e)
      | "multi" => ((), multiModel e false)
      | "multis" => ((), multiModel e true)
      | "!multi" => ((), multiSpec e false)
      | "!multis" => ((), multiSpec e true)
      | "hmget" | "hjmget" => ((), helperModel e)
      | "!hmget" | "!hjmget" => ((), helperSpec e)
      | _ => ((), "bad-op")
  | _ => ((), "bad-op")

end MGetDrv

def main : IO Unit := Hex.lineLoop () MGetDrv.step
