import Rv.Model.Hex
import Rv.Model.Selector
import Rv.Spec.Selector
open Rv

/-
ops (AZ strings travel as hex words and are compared as words):
  reset <az|azp|pref|azs<k>> <clientAZ>   -> ok          fresh selector closure (counter 0)
  call <az>*                               -> index       one call on this node list
  !judge <r>                               -> ok|bad:…    specification verdict on result r of the last call
  pick <startIdx> <c0> <clientAZ> <az>*    -> idx counter pickAZ with a preset counter (stateless)
-/

structure St where
  kind : String := "pref"
  start : Nat := 1
  az : String := "-"
  c : Nat := 0
  nodes : List String := []
  prevNodes : Option (List String) := none
  prevR : Int := -1

def specKind (k : String) : Option Spec.Selector.Kind :=
  if k == "az" then some .az else if k == "azp" then some .azp else if k == "pref" then some .pref else none

def parseInt (s : String) : Option Int :=
  if s.startsWith "-" then (s.drop 1).toNat?.map fun n => -(n : Int) else s.toNat?.map fun n => (n : Int)

def step (s : St) (ws : List String) : St × String :=
  match ws with
  | ["reset", k, az] =>
    let (kind, start) :=
      if k.startsWith "azs" then ("azs", (k.drop 3).toNat?.getD 1) else (k, 1)
    ({ kind := kind, start := start, az := az }, "ok")
  | "call" :: nodes =>
    let r :=
      if s.kind == "az" then Selector.azAffinity s.az nodes s.c
      else if s.kind == "azs" then Selector.azSelector s.az s.start nodes s.c
      else if s.kind == "azp" then Selector.azpSelector s.az nodes s.c
      else Selector.preferReplica nodes s.c
    ({ s with c := r.2, nodes := nodes }, if r.1 == Selector.panicIdx then "panic" else toString r.1)
  | ["!judge", rs] =>
    match parseInt rs, specKind s.kind with
    | some r, some k =>
      let prev := if s.prevNodes == some s.nodes then some s.prevR else none
      ({ s with prevNodes := some s.nodes, prevR := r }, Spec.Selector.judge k s.az s.nodes prev r)
    | _, _ => (s, "bad-op")
  | "pick" :: st :: c0 :: az :: nodes =>
    match st.toNat?, c0.toNat? with
    | some st, some c0 =>
      let r := Selector.pickAZ nodes az st c0
      (s, (if r.1 == Selector.panicIdx then "panic" else toString r.1) ++ " " ++ toString r.2)
    | _, _ => (s, "bad-op")
  | _ => (s, "bad-op")

def main : IO Unit := Hex.lineLoop ({} : St) step
