import Rv.Model.Hex
import Rv.Model.Om
open Rv Rv.Om

/-- byte string ↔ Lean string (byte b = character with code b) -/
def unhx (s : String) : String :=
  match Hex.decode s with
  | some bs => String.ofList (bs.map fun b => Char.ofNat b.toNat)
  | none => "?"
def hx (s : String) : String := Hex.encode (s.toList.map fun c => UInt8.ofNat c.toNat)

structure DS where
  now : Int := 0
  hkeys : List (String × Key) := []
  jkeys : List (String × JKey) := []
  schE : Schema := ⟨"id", "ver", []⟩
  schN : Schema := ⟨"id", "", []⟩

def getH (d : DS) (k : String) : Option Key := (d.hkeys.find? (·.1 == k)).map (·.2)
def setH (d : DS) (k : String) (v : Option Key) : DS :=
  let r := d.hkeys.filter (·.1 != k)
  { d with hkeys := match v with | some x => (k, x) :: r | none => r }
def getJ (d : DS) (k : String) : Option JKey := (d.jkeys.find? (·.1 == k)).map (·.2)
def setJ (d : DS) (k : String) (v : Option JKey) : DS :=
  let r := d.jkeys.filter (·.1 != k)
  { d with jkeys := match v with | some x => (k, x) :: r | none => r }

def insertSorted (x : String) : List String → List String
  | [] => [x]
  | y :: r => if x < y then x :: y :: r else y :: insertSorted x r
def sortStrs (xs : List String) : List String := xs.foldl (fun acc x => insertSorted x acc) []

def expStr (e : Option Int) : String := match e with | some t => toString t | none => "-"

def dumpH (now : Int) (st : Option Key) : String :=
  match live now st with
  | none => "absent"
  | some k =>
    let ks := sortStrs (Om.hkeys k.h)
    "hash " ++ ",".intercalate (ks.map fun f => hx f ++ "=" ++ hx ((hget k.h f).getD "")) ++ " exp=" ++ expStr k.exp

def dumpJ (now : Int) (st : Option JKey) : String :=
  match jlive now st with
  | none => "absent"
  | some k => "json " ++ toString k.doc.ver ++ " " ++ hx k.doc.body ++ " exp=" ++ expStr k.exp

def replyStr : Reply → String
  | .str s => "$" ++ hx s
  | .nil => "_"
  | .err => "-ERR"
  | .domain => "-ERR"

def optOf (s : String) (f : String → α) : Option α := if s == "nil" then none else some (f s)

def parseField (w : String) : Option (String × FV) :=
  match w.splitOn ":" with
  | [n, k, p] =>
    match k with
    | "int" => p.toInt?.map fun i => (n, FV.int i)
    | "str" => some (n, .str (unhx p))
    | "bool" => some (n, .bool (p == "1"))
    | "pint" => if p == "nil" then some (n, .pint none) else p.toInt?.map fun i => (n, FV.pint (some i))
    | "pstr" => some (n, .pstr (optOf p unhx))
    | "pbool" => some (n, .pbool (optOf p (· == "1")))
    | "raw" => some (n, .raw (unhx p))
    | "json" => some (n, .json (unhx p))
    | _ => none
  | _ => none

def showField : String × FV → String
  | (n, .int i) => n ++ ":int:" ++ toString i
  | (n, .str s) => n ++ ":str:" ++ hx s
  | (n, .bool b) => n ++ ":bool:" ++ (if b then "1" else "0")
  | (n, .pint o) => n ++ ":pint:" ++ (match o with | some i => toString i | none => "nil")
  | (n, .pstr o) => n ++ ":pstr:" ++ (match o with | some s => hx s | none => "nil")
  | (n, .pbool o) => n ++ ":pbool:" ++ (match o with | some b => (if b then "1" else "0") | none => "nil")
  | (n, .raw s) => n ++ ":raw:" ++ hx s
  | (n, .json s) => n ++ ":json:" ++ hx s

def saveStr : SaveRes → String
  | .ok v => "ok " ++ toString v
  | .mismatch => "mismatch"
  | .err => "err"

def fetchStr : FetchRes → String
  | .ok e => "ok " ++ hx e.key ++ " " ++ toString e.ver ++ " " ++ " ".intercalate (e.fields.map showField)
  | .notFound => "notfound"
  | .err => "err"

def schOf (d : DS) (t : String) : Schema × String := if t == "e" then (d.schE, "e:") else (d.schN, "n:")

/-- the entities of a race: zero values except `s = "w<i>"`, `i = <i>` -/
def raceEnt (d : DS) (key : String) (ver : Int) (i : Nat) : Entity :=
  { key := key, ver := ver, fields := d.schE.fields.map fun (n, z) =>
      if n == "s" then (n, FV.str ("w" ++ toString i)) else if n == "i" then (n, FV.int i) else (n, z) }

def race (d : DS) (key : String) (ver : Int) (n : Nat) : DS × String :=
  let rk := "e:" ++ key
  let (st, wins, mism, other, winner) := (List.range n).foldl (fun (acc : Option Key × Nat × Nat × Nat × Option Nat) i =>
      let (st, w, m, o, wi) := acc
      match save d.now d.schE (raceEnt d key ver i) st with
      | (st', .ok _) => (st', w + 1, m, o, some i)
      | (st', .mismatch) => (st', w, m + 1, o, wi)
      | (st', .err) => (st', w, m, o + 1, wi)) (getH d rk, 0, 0, 0, none)
  let (nv, stored) : Int × Bool := match fetch d.now d.schE st, winner with
    | .ok e, some wi => (e.ver, decide (e.fields = (raceEnt d key ver wi).fields ∧ e.ver = ver + 1))
    | _, _ => (-1, false)
  (setH d rk st, s!"wins={wins} mismatch={mism} other={other} ver={nv} stored-is-winner={stored}")

def step (d : DS) (ws : List String) : DS × String :=
  match ws with
  | ["reset", now] => ({ now := now.toInt?.getD 0 }, "ok")
  | "schema" :: t :: kn :: vn :: fs =>
    let sch : Schema := ⟨kn, if vn == "-" then "" else vn, fs.filterMap parseField⟩
    (if t == "e" then { d with schE := sch } else { d with schN := sch }, "ok")
  | ["tick", n] => ({ d with now := d.now + n.toInt?.getD 0 }, "ok")
  | "s.hs" :: key :: argv =>
    let r := hashSave d.now (argv.map unhx) (getH d key)
    (setH d key r.1, replyStr r.2 ++ " " ++ dumpH d.now r.1)
  | "s.js" :: key :: vn :: vs :: dv :: body :: rest =>
    let r := jsonSave d.now (unhx vn) (unhx vs) ⟨dv.toInt?.getD 0, unhx body⟩ rest.head? (getJ d key)
    (setJ d key r.1, replyStr r.2 ++ " " ++ dumpJ d.now r.1)
  | "save-lost" :: _ :: key :: ver :: exat :: fs =>
    -- the script runs exactly once (the store changes as for a Save); the caller only sees a transport error
    let x := exat.toInt?.getD 0
    let e : Entity := { key := unhx key, ver := ver.toInt?.getD 0, fields := fs.filterMap parseField,
                        exat := if x == 0 then none else some x }
    let r := save d.now d.schE e (getH d ("e:" ++ unhx key))
    (setH d ("e:" ++ unhx key) r.1, "err " ++ dumpH d.now r.1 ++ " execs=1")
  | "save" :: t :: key :: ver :: exat :: fs =>
    let (sch, pre) := schOf d t
    let x := exat.toInt?.getD 0
    let e : Entity := { key := unhx key, ver := ver.toInt?.getD 0, fields := fs.filterMap parseField,
                        exat := if x == 0 then none else some x }
    let r := save d.now sch e (getH d (pre ++ unhx key))
    (setH d (pre ++ unhx key) r.1, saveStr r.2 ++ " " ++ dumpH d.now r.1)
  | ["!sm", given, before] =>
    -- specification: refused iff the member is stale w.r.t. what was stored for its key; a saved member's
    -- in-memory version is the stored one (given + 1)
    let g := given.toInt?.getD 0
    (d, if before == "-" || before == given then "ok:" ++ toString (g + 1) else "mismatch:" ++ toString g)
  | [op, t, key] =>
    if op == "fetch" ∨ op == "fetchc" then
      let (sch, pre) := schOf d t
      (d, fetchStr (fetch d.now sch (getH d (pre ++ unhx key))))
    else if op == "remove" then
      let (_, pre) := schOf d t
      (setH d (pre ++ unhx key) none, "ok")
    else (d, "bad-op")
  | "!fetch-after-save" :: _ :: key :: ver :: _ :: fs =>
    -- specification: the fetched entity is the saved one (the line carries it, version already advanced)
    (d, "ok " ++ key ++ " " ++ ver ++ " " ++ " ".intercalate fs)
  | "fetch-after-save" :: t :: key :: _ =>
    let (sch, pre) := schOf d t
    (d, fetchStr (fetch d.now sch (getH d (pre ++ unhx key))))
  | ["rawhset", key, f, v] =>
    let k : Key := match live d.now (getH d key) with
      | some k => { k with h := hset k.h (unhx f) (unhx v) }
      | none => { h := hset [] (unhx f) (unhx v) }
    (setH d key (some k), dumpH d.now (some k))
  | "hsavemulti" :: items =>
    -- the model's saveMulti over the hash store of the driver
    let ents := (List.range items.length).zip items |>.map fun (i, x) =>
      let p := x.splitOn ":"
      let key := unhx (p.getD 0 "-")
      ({ key := key, ver := (p.getD 1 "0").toInt?.getD 0, fields := d.schE.fields.map fun (n, z) =>
          if n == "s" then (n, FV.str ("m" ++ toString i)) else if n == "i" then (n, FV.int i) else (n, z) } : Entity)
    let r := saveMulti d.now d.schE ents (fun k => getH d ("e:" ++ k))
    let d' := ents.foldl (fun acc e => setH acc ("e:" ++ e.key) (r.1 e.key)) d
    (d', ",".intercalate (r.2.zip ents |>.map fun (res, e) => match res with
      | .ok v => "ok:" ++ toString v
      | .mismatch => "mismatch:" ++ toString e.ver
      | .err => "err:" ++ toString e.ver))
  | "jsavemulti" :: items =>
    let (d', outs) := items.foldl (fun (acc : DS × List String) x =>
      let (dd, os) := acc
      let p := x.splitOn ":"
      let key := "j:" ++ unhx (p.getD 0 "-")
      let ver := (p.getD 1 "0").toInt?.getD 0
      let r := jsave dd.now false ver (unhx (p.getD 2 "-")) (getJ dd key)
      (setJ dd key r.1, os ++ [match r.2 with
        | .ok v => "ok:" ++ toString v
        | .mismatch => "mismatch:" ++ toString ver
        | .err => "err:" ++ toString ver])) (d, [])
    (d', ",".intercalate outs)
  | ["race", key, ver, n] => race d (unhx key) (ver.toInt?.getD 0) (n.toNat?.getD 0)
  | ["!race", key, ver, n] =>
    -- specification: exactly one of the concurrent saves wins; the model state follows the model
    let nn := n.toNat?.getD 0
    ((race d (unhx key) (ver.toInt?.getD 0) nn).1,
      s!"wins=1 mismatch={nn - 1} other=0 ver={ver.toInt?.getD 0 + 1} stored-is-winner=true")
  | ["jsave", key, ver, body] =>
    let r := jsave d.now false (ver.toInt?.getD 0) (unhx body) (getJ d ("j:" ++ unhx key))
    (setJ d ("j:" ++ unhx key) r.1, saveStr r.2 ++ " " ++ dumpJ d.now r.1)
  | [op, key] =>
    if op == "jfetch" ∨ op == "jfetchc" then
      match jfetch d.now (getJ d ("j:" ++ unhx key)) with
      | some doc => (d, "ok " ++ toString doc.ver ++ " " ++ hx doc.body)
      | none => (d, "notfound")
    else (d, "bad-op")
  | ["!jfetch-after-save", _, ver, body] => (d, "ok " ++ ver ++ " " ++ body)
  | _ => (d, "bad-op")

def main : IO Unit := Hex.lineLoop ({} : DS) step
