import Rv.Model.Hex
import Rv.Model.Lru
import Rv.Spec.Cache
/-!
Driver of the `lru` correspondence suite (see harness/cache/suite_lru.go for the line protocol).
Ordinary lines are answered by the model `Rv.Lru` (result + full snapshot of the store),
`!` lines by the specification `Rv.Spec.Cache` judging what the real code was observed to do.
-/
open Rv Rv.Lru

namespace LruDrv

structure St where
  m    : Lru.State
  sp   : Spec.Cache.Spec
  prev : Nat   -- length of `m.done` before the last operation

def hexB (b : Bytes) : String := Hex.encode b

def showRes : FRes → String
  | .hit v e => s!"h:{v}:{e}"
  | .wait i => s!"w:{i}"
  | .send => "s"

def showEntry (e : Entry) : String :=
  s!"{e.id}:{hexB e.key}:{hexB e.cmd}:{if e.pend then "P" else "C"}:{e.val}:{e.size}:{e.exp}"

def sortStr (l : List String) : List String := l.mergeSort (fun a b => decide (a ≤ b))

def showStore (s : Lru.State) : String :=
  let keys := sortStr (s.hits.map fun p => hexB p.1)
  let one (kh : String) : String :=
    let h := (s.hits.find? fun p => hexB p.1 == kh).map (·.2) |>.getD 0
    let cmds := sortStr ((s.list.filter fun e => hexB e.key == kh).map fun e => s!"{hexB e.cmd}={e.id}")
    s!"{kh}:{h}:{",".intercalate cmds}"
  " ".intercalate (keys.map one)

def showOutcome : Nat × Outcome → String
  | (i, .val v e) => s!"{i}=v{v}@{e}"
  | (i, .err x) => s!"{i}=e{x}"

def showDone (d : List (Nat × Outcome)) : String :=
  let sorted := d.mergeSort (fun a b => decide (a.1 ≤ b.1))
  " ".intercalate (sorted.map showOutcome)

def snapshot (s : Lru.State) (newDone : List (Nat × Outcome)) : String :=
  s!" | sz={s.size} cl={if s.closed then 1 else 0} | L {" ".intercalate (s.list.map showEntry)} | S {showStore s} | D {showDone newDone}"

def answer (st : St) (m' : Lru.State) (res : String) : St × String :=
  ({ st with m := m', prev := m'.done.length }, res ++ snapshot m' (m'.done.drop st.m.done.length))

def showOpt (missed : List Nat) (i : Nat) : Option FRes → String
  | some r => showRes r
  | none => if missed.contains i then "s" else "-"

def showFls (rs : List (Option FRes)) (missed : List Nat) : String :=
  let items := (List.range rs.length).zip rs |>.map fun (i, r) => showOpt missed i r
  s!"r={",".intercalate items} m={",".intercalate (missed.map toString)}"

def triples : List String → Option (List (Bytes × Bytes × Int))
  | [] => some []
  | k :: c :: t :: rest => do
    let k ← Hex.decode k
    let c ← Hex.decode c
    let t ← t.toInt?
    let r ← triples rest
    pure ((k, c, t) :: r)
  | _ => none

/-- judge one observed Flight result against the specification and advance it -/
def judgeFlight (sp : Spec.Cache.Spec) (k c : Bytes) (ttl now : Int) (obs : String) : Spec.Cache.Spec × String :=
  match obs.splitOn ":" with
  | ["h", v, e] =>
    match v.toNat?, e.toInt? with
    | some v, some e =>
      if Spec.Cache.lookup sp (k, c) (unixMilli now) = some (v, e) then (sp, "ok")
      else (sp, "stale-or-wrong-hit")
    | _, _ => (sp, "bad-op")
  | ["w", _] => if (sp.out (k, c)).isSome then (sp, "ok") else (sp, "wait-without-request")
  | ["s"] =>
    if !sp.closed && (sp.out (k, c)).isSome then (sp, "duplicate-send")
    else (Spec.Cache.sent sp (k, c) (pack (unixMilli (now + ttl))), "ok")
  | _ => (sp, "bad-op")

def judgeFlights (sp : Spec.Cache.Spec) (now : Int) : List (Bytes × Bytes × Int) → List String → Spec.Cache.Spec × String
  | [], [] => (sp, "ok")
  | (k, c, ttl) :: rest, o :: os =>
    let (sp', a) := judgeFlight sp k c ttl now o
    if a == "ok" then judgeFlights sp' now rest os else (sp', a)
  | _, _ => (sp, "bad-op")

def parseEv (w : String) : Option (Nat × Bool × Int) :=
  match w.splitOn ":" with
  | [i, p, s] => do pure ((← i.toNat?), p == "P", (← s.toInt?))
  | _ => none


def parseIds (s : String) : Option (List Nat) :=
  if s == "-" then some [] else (s.splitOn ",").mapM String.toNat?

def step (st : St) (ws : List String) : St × String :=
  match ws with
  | ["reset", mx, base] =>
    match mx.toInt?, base.toInt? with
    | some mx, some base => ({ m := Lru.init mx base, sp := Spec.Cache.empty, prev := 0 }, "ok")
    | _, _ => (st, "bad-op")
  | ["flight", k, c, ttl, now] =>
    match Hex.decode k, Hex.decode c, ttl.toInt?, now.toInt? with
    | some k, some c, some ttl, some now =>
      let r := Lru.flight st.m k c ttl now
      answer st r.1 (showRes r.2)
    | _, _, _, _ => (st, "bad-op")
  | "flights" :: now :: rest =>
    match now.toInt?, triples rest with
    | some now, some multi =>
      let r := Lru.flights st.m now multi
      answer st r.1 (showFls r.2.1 r.2.2)
    | _, _ => (st, "bad-op")
  | ["update", k, c, v, vsz, raw] =>
    match Hex.decode k, Hex.decode c, v.toNat?, vsz.toInt?, raw.toInt? with
    | some k, some c, some v, some vsz, some raw =>
      let r := Lru.update st.m k c v vsz raw
      answer st r.1 s!"pxat={r.2}"
    | _, _, _, _, _ => (st, "bad-op")
  | ["cancel", k, c, err] =>
    match Hex.decode k, Hex.decode c, err.toNat? with
    | some k, some c, some err =>
      let (st', a) := answer st (Lru.cancel st.m k c err) "ok"
      ({ st' with sp := Spec.Cache.cancel st.sp (k, c) }, a)
    | _, _, _ => (st, "bad-op")
  | "delete" :: ks =>
    match ks.mapM Hex.decode with
    | some keys =>
      let (st', a) := answer st (Lru.delete st.m (some keys)) "ok"
      ({ st' with sp := Spec.Cache.delete st.sp keys }, a)
    | none => (st, "bad-op")
  | ["flush"] =>
    let (st', a) := answer st (Lru.delete st.m none) "ok"
    ({ st' with sp := Spec.Cache.flush st.sp }, a)
  | ["close", err] =>
    match err.toNat? with
    | some err =>
      let (st', a) := answer st (Lru.close st.m err) "ok"
      ({ st' with sp := Spec.Cache.close st.sp }, a)
    | none => (st, "bad-op")
  | ["sethits", k, n] =>
    match Hex.decode k, n.toNat? with
    | some k, some n => answer st (Lru.setHits st.m k (n % 4294967296)) "ok"
    | _, _ => (st, "bad-op")
  | ["getttl", k, c, now] =>
    match Hex.decode k, Hex.decode c, now.toInt? with
    | some k, some c, some now => (st, s!"ttl={Lru.getTTL st.m k c now}")
    | _, _, _ => (st, "bad-op")
  -- oracle lines: the specification judges what the real code was observed to do
  | ["!flight", k, c, ttl, now, obs] =>
    match Hex.decode k, Hex.decode c, ttl.toInt?, now.toInt? with
    | some k, some c, some ttl, some now =>
      let (sp, a) := judgeFlight st.sp k c ttl now obs
      ({ st with sp := sp }, a)
    | _, _, _, _ => (st, "bad-op")
  | "!flights" :: now :: rest =>
    let args := rest.takeWhile (· ≠ "=>")
    let obs := (rest.dropWhile (· ≠ "=>")).drop 1
    match now.toInt?, triples args with
    | some now, some multi =>
      let (sp, a) := judgeFlights st.sp now multi obs
      ({ st with sp := sp }, a)
    | _, _ => (st, "bad-op")
  | ["!update", k, c, v, raw, pxat] =>
    match Hex.decode k, Hex.decode c, v.toNat?, raw.toInt?, pxat.toInt? with
    | some k, some c, some v, some raw, some pxat =>
      let want := Spec.Cache.updatePxat st.sp (k, c) (pack raw)
      let sp := Spec.Cache.update st.sp (k, c) v (pack raw)
      ({ st with sp := sp }, if want = pxat then "ok" else s!"pxat-should-be={want}")
    | _, _, _, _, _ => (st, "bad-op")
  | ["!bound", size, mx, sum, closed] =>
    match size.toInt?, mx.toInt?, sum.toInt? with
    | some size, some mx, some sum =>
      if closed == "1" then (st, "ok")
      else if size ≠ sum then (st, "size-not-sum")
      else if mx ≥ 0 ∧ size > mx then (st, "size-above-max")
      else (st, "ok")
    | _, _, _ => (st, "bad-op")
  | "!evict" :: mx :: size :: rest =>
    let args := rest.takeWhile (· ≠ "=>")
    let obs := (rest.dropWhile (· ≠ "=>")).drop 1
    match mx.toInt?, size.toInt?, args.mapM parseEv, obs.mapM String.toNat? with
    | some mx, some size, some evs, some ids =>
      let want := (Spec.Cache.evict mx size evs).2
      (st, if want = ids then "ok" else s!"should-keep={" ".intercalate (want.map toString)}")
    | _, _, _, _ => (st, "bad-op")
  -- message.go helpers (stateless)
  | ["pack", v] =>
    match v.toInt? with
    | some v => (st, s!"{",".intercalate ((setExpireAt v).map toString)} {pack v}")
    | none => (st, "bad-op")
  | ["ttls", exp, now] =>
    match exp.toInt?, now.toInt? with
    | some exp, some now => (st, s!"pxat={cachePXAT exp} pttl={cachePTTL exp now} ttl={cacheTTL exp now}")
    | _, _ => (st, "bad-op")
  | ["!ttls", exp, now] =>
    -- specification: PXAT is the expiry, PTTL the remaining ms (not below 0), TTL the remaining seconds rounded up; -1 = no expiry
    match exp.toInt?, now.toInt? with
    | some exp, some now =>
      if exp = 0 then (st, "pxat=-1 pttl=-1 ttl=-1")
      else
        let rem := if exp > now then exp - now else 0
        (st, s!"pxat={exp} pttl={rem} ttl={(rem + 999) / 1000}")
    | _, _ => (st, "bad-op")
  | ["srvexp", arrival, pttl] =>
    match arrival.toInt?, pttl.toInt? with
    | some a, some p => (st, toString (serverExpire a p))
    | _, _ => (st, "bad-op")
  | ["!close", pending, released] =>
    -- specification: Close(err) wakes the waiters of EVERY pending entry, and only those, with the error
    match parseIds pending, parseIds released with
    | some p, some r =>
      (st, if Spec.Cache.closeOk p r then "ok"
           else s!"not-released={",".intercalate ((p.filter fun i => !r.contains i).map toString)}")
    | _, _ => (st, "bad-op")
  | _ => (st, "bad-op")

end LruDrv

def main : IO Unit :=
  Hex.lineLoop ({ m := Lru.init 0 0, sp := Spec.Cache.empty, prev := 0 } : LruDrv.St) LruDrv.step
