import Rv.Model.Hex
import Rv.Model.CompatPipe
import Rv.Spec.GoRedisArgv
open Rv Rv.CompatPipe

/-! ### C42: argv ops -/
namespace ArgvDrv
open Rv.GoRedisArgv

def strHex (s : String) : String := Hex.encode s.toUTF8.toList

def parseStr (h : String) : Option String :=
  (Hex.decode h).bind fun bs => String.fromUTF8? (ByteArray.mk bs.toArray)

def parseInt (w : String) : Option Int := w.toInt?

def parseList (w : String) (f : String → Option α) : Option (List α) :=
  if w == "" then some [] else (w.splitOn ",").mapM f

def parseVal (w : String) : Option Val :=
  if w == "nil" then some .none
  else if w.startsWith "s:" then (parseStr (w.drop 2).toString).map .s
  else if w.startsWith "i:" then (parseInt (w.drop 2).toString).map .i
  else if w.startsWith "il:" then (parseList (w.drop 3).toString parseInt).map .il
  else if w.startsWith "l:" then (parseList (w.drop 2).toString parseStr).map .l
  else if w.startsWith "b:" then some (.b (w == "b:1"))
  else none

def rawTok : Tok → String
  | .kw n true => n
  | .kw n false => n.toLower
  | .num n .plain => toString n
  | .num n .plus => "+" ++ toString n
  | .num n .dotZero => toString n ++ ".0"
  | .str s => s
  | .fl _ sp _ => sp

/-- insertion sort on strings (tail of option-order-insensitive methods) -/
def insertStr (x : String) : List String → List String
  | [] => [x]
  | y :: t => if x ≤ y then x :: y :: t else y :: insertStr x t
def sortStrs (l : List String) : List String := l.foldr insertStr []

def render (m : String) (o : GoRedisArgv.Out) (oracle : Bool) : String :=
  match o with
  | .nothing => "nothing"
  | .argv ts =>
    let ws := (if oracle then normalize ts else ts).map rawTok
    let ws := if oracle && (m == "SetNX" || m == "SetXX") then ws.take 3 ++ sortStrs (ws.drop 3) else ws
    "argv:" ++ ",".intercalate (ws.map strHex)

def answer (oracle : Bool) (m : String) (ws : List String) : String :=
  match ws.mapM parseVal with
  | none => "bad-op"
  | some vs =>
    match both m vs with
    | none => "unmodelled"
    | some (a, g) => render m (if oracle then g else a) oracle
/-! value-encoding ops: string payloads stay hex words (they may be binary); "-" = empty -/

def parseAny (ws : List String) : Option AnyVal :=
  match ws with
  | ["nil"] => some .nil
  | ["str", h] => some (.str h)
  | ["bytes", h] => some (.bytes h)
  | ["int", n] => n.toInt?.map .int
  | ["f64", b, f, g] => b.toNat?.map fun bits => .f64 bits f g
  | ["f32", b, f, g] => b.toNat?.map fun bits => .f32 bits f g
  | ["bool", b] => some (.bool (b == "1"))
  | ["time", r, b] => some (.time r b)
  | ["dur", n] => n.toInt?.map .dur
  | ["bm", b, sp, ok] => some (.marshaler b sp (ok == "1"))
  | ["ip", r, t] => some (.ip r t)
  | ["stringer", t] => some (.stringer t)
  | _ => none

/-- a value token whose string payload is already a hex word -/
def valueHex (oracle : Bool) : Tok → String
  | .str h => if h == "" then "-" else h
  | .num n _ => strHex (toString n)
  | .fl _ sp c => if oracle then c else sp
  | .kw n _ => strHex n

def answerAny (oracle : Bool) (m : String) (ws : List String) : String :=
  match parseAny ws, anyTemplate m with
  | some v, some (pre, n, post) =>
    let side (up : Bool) (t : Tok) : String :=
      let ts (ps : List Piece) := ((if oracle then normalize (build up ps) else build up ps).map rawTok).map strHex
      "argv:" ++ ",".intercalate (ts pre ++ List.replicate n (valueHex oracle t) ++ ts post)
    if oracle then
      match G.appendArg v with
      | some g => side false (normTok g)
      | none => "nothing"
    else side true (A.str v)
  | _, _ => "bad-op"
end ArgvDrv

/-- driver state: transaction mode?, model state, and (for oracle lines) the plain list of labels
    of the accepted calls since the last reset / discard / exec -/
structure St where
  tx : Bool
  p : Pipe
  labels : List Nat
  /-- result slices returned by the Execs of this episode, as the model returned them … -/
  held : List (List Cmder) := []
  /-- … and as the specification says they are (that batch's commands in queue order with their replies) -/
  heldSpec : List (List Cmder) := []

def St.init : St := { tx := false, p := Pipe.empty, labels := [] }

/-- the hand table of the e2e kinds: how the real method behaves (model) -/
def kindCall (kind : String) (n : Nat) : Option Call :=
  if kind == "do" then some (.doArgs n)
  else if kind == "bitcount" then some (.wrapq 1)
  else if kind == "bitcountbad" then some (.wrapq 0)
  else if kind == "setbad" then some .rejects
  else if ["get", "set", "incr", "echo", "del"].contains kind then some (.wrap1 1)
  else none

/-- does the call put a command into the pipeline (specification side) -/
def kindAccepted (kind : String) (n : Nat) : Bool :=
  if kind == "do" then n != 0
  else if kind == "bitcountbad" || kind == "setbad" then false
  else true

def tagAt (cmds : List Cmd) (i : Nat) : Nat :=
  match cmds[i]? with
  | some (.user l) => l
  | _ => 0

def parseMsg (w : String) (tag : Nat) : Option Msg :=
  if w == "v" then some (.val tag)
  else if w == "n" then some .nil
  else if w.startsWith "e:" then (Hex.decode (w.drop 2).toString).map .err
  else none

def parseRes (w : String) (tag : Nat) : Option Res :=
  if w.startsWith "x:" then (Hex.decode (w.drop 2).toString).map .net
  else (parseMsg w tag).map .msg

/-- replies normalised to the batch: one per position, missing ones are plain values -/
def parseReplies (ws : List String) (n : Nat) (tag : Nat → Nat) : Option (List Res) :=
  (List.range n).mapM fun i => parseRes (ws.getD i "v") (tag i)

def parseExec (w : String) (tag : Nat → Nat) : Option ExecRes :=
  if w.startsWith "a:" then
    let body := (w.drop 2).toString
    let elems := if body == "" then [] else body.splitOn ","
    (elems.zipIdx.mapM fun (e, i) => parseMsg e (tag i)).map .arr
  else if w.startsWith "x:" then (Hex.decode (w.drop 2).toString).map .net
  else (parseMsg w 0).map .msg

def errStr : Err → String
  | .notExecuted => "notexec"
  | .redis m => "redis:" ++ Hex.encode m
  | .nilReply => "nil"
  | .net m => "net:" ++ Hex.encode m
  | .txFailed => "txfailed"
  | .notArray => "notarray"

def cmdStr : Cmd → String
  | .user l => toString l
  | .multi => "M"
  | .exec => "E"

def stStr (oracle : Bool) (s : CmdSt) : String :=
  match s.err, s.val with
  | some .notExecuted, _ => if oracle then "none" else "err:notexec"
  | some e, _ => "err:" ++ errStr e
  | none, some v => "ok:" ++ toString v
  | none, none => if oracle then "none" else "ok:-"

def outStr (sent : Option (List Cmd)) (rets : List Cmder) (err : Option Err) (isNil : Bool) (len : Nat) (oracle : Bool := false) : String :=
  let s := match sent with
    | none => "-"
    | some cs => ",".intercalate (cs.map cmdStr)
  let r := if isNil then "nil" else if rets.isEmpty then "-" else ";".intercalate (rets.map fun c => toString c.id ++ ":" ++ stStr oracle c.st)
  "sent=" ++ s ++ " err=" ++ (match err with | some e => errStr e | none => "-") ++ " rets=" ++ r ++ " len=" ++ toString len

def splitBar (ws : List String) : List String × Option String :=
  match ws.span (· != "|") with
  | (a, _ :: e :: _) => (a, some e)
  | (a, _) => (a, none)

def step (s : St) (ws : List String) : St × String :=
  match ws with
  | ["reset", m] => ({ tx := m == "tx", p := Pipe.empty, labels := [] }, "ok")
  | "q" :: kind :: lab :: rest =>
    let n := (rest.head?.bind String.toNat?).getD 0
    match lab.toNat?, kindCall kind n with
    | some l, some c =>
      let p := s.p.call l c
      ({ s with p := p, labels := if kindAccepted kind n then s.labels ++ [l] else s.labels }, "len=" ++ toString p.len)
    | _, _ => (s, "bad-op")
  | ["discard"] => ({ s with p := s.p.discard, labels := [] }, "len=" ++ toString s.p.discard.len)
  | ["len"] => (s, "len=" ++ toString s.p.len)
  | "exec" :: rest =>
    if s.tx then
      let (qs, ex) := splitBar rest
      match parseReplies qs (s.p.cmds.length + 1) (fun _ => 0), parseExec (ex.getD "n") (tagAt s.p.cmds) with
      | some q, some e =>
        let (p', out) := s.p.txExec q e
        let ans := match out.result with
          | none => "panic len=" ++ toString p'.len
          | some (rets, err) => outStr out.sent rets err out.sent.isNone p'.len
        let got := match out.result with | some (rets, _) => rets | none => []
        let spec := match e with
          | .arr xs => if xs.length == s.labels.length && q.all (fun r => (nonRedis r).isNone) then (Spec.txExecArr s.labels xs).2.1 else got
          | .msg .nil => (Spec.txExecNil s.labels).2.1
          | _ => got
        ({ s with p := p', labels := if out.sent.isSome then [] else s.labels,
                  held := s.held ++ [got], heldSpec := s.heldSpec ++ [spec] }, ans)
      | _, _ => (s, "bad-op")
    else
      match parseReplies rest s.p.cmds.length (tagAt s.p.cmds) with
      | some r =>
        let (p', out) := s.p.exec r
        let ans := match out.result with
          | none => "panic len=" ++ toString p'.len
          | some (rets, err) => outStr out.sent rets err out.sent.isNone p'.len
        let got := match out.result with | some (rets, _) => rets | none => []
        let spec := if r.length == s.labels.length then (Spec.exec s.labels r).2.1 else got
        ({ s with p := p', labels := if out.sent.isSome then [] else s.labels,
                  held := s.held ++ [got], heldSpec := s.heldSpec ++ [spec] }, ans)
      | none => (s, "bad-op")
  | "!exec" :: rest =>
    -- oracle line: the property itself, from the plain list of accepted labels
    let labels := s.labels
    let tag := fun i => labels.getD i 0
    let fin := fun (o : Option (List Cmd) × List Cmder × Option Err) =>
      outStr o.1 o.2.1 o.2.2 o.1.isNone 0 true
    if s.tx then
      let (_, ex) := splitBar rest
      match parseExec (ex.getD "n") tag with
      | some (.arr xs) => ({ s with p := Pipe.empty, labels := [] }, fin (Spec.txExecArr labels xs))
      | some (.msg .nil) => ({ s with p := Pipe.empty, labels := [] }, fin (Spec.txExecNil labels))
      | _ => (s, "bad-op")
    else
      match parseReplies rest labels.length tag with
      | some r => ({ s with p := Pipe.empty, labels := [] }, fin (Spec.exec labels r))
      | none => (s, "bad-op")
  -- the slice returned by the k-th Exec of the episode, looked at again now: Exec hands out the old
  -- `c.rets` and resets the queue to nil, so later batches get a fresh backing array and cannot touch it
  | ["held", k] =>
    (s, match k.toNat?.bind (s.held[·]?) with
      | some rets => "rets=" ++ (if rets.isEmpty then "-" else ";".intercalate (rets.map fun c => toString c.id ++ ":" ++ stStr false c.st))
      | none => "bad-op")
  | ["!held", k] =>  -- oracle: still exactly that batch's commands, in queue order, with that batch's replies
    (s, match k.toNat?.bind (s.heldSpec[·]?) with
      | some rets => "rets=" ++ (if rets.isEmpty then "-" else ";".intercalate (rets.map fun c => toString c.id ++ ":" ++ stStr true c.st))
      | none => "bad-op")
  -- suite pipeq
  | ["methods"] => (s, toString Rv.Gen.Compat.rows.length)
  | ["kind", m] =>
    match Rv.Gen.Compat.rows.find? (·.method == m) with
    | some r => (s, match r.kind with
        | .wrap1 | .wrapq => "cmder"
        | .control => if m == "Do" then "cmder" else "control"   -- Do is swept like a command method
        | .panics => "other")
    | none => (s, "nomethod")
  | ["!m", _, _] => (s, "aligned")   -- the per-method obligation
  -- suite argv (C42)
  | ["covered"] => (s, toString Rv.GoRedisArgv.covered.length)
  | "argv" :: m :: vals => (s, ArgvDrv.answer false m vals)
  | "!argv" :: m :: vals => (s, ArgvDrv.answer true m vals)
  | "anyv" :: m :: desc => (s, ArgvDrv.answerAny false m desc)
  | "!anyv" :: m :: desc => (s, ArgvDrv.answerAny true m desc)
  | ["anymethods"] => (s, toString Rv.GoRedisArgv.anyMethods.length)
  | _ => (s, "bad-op")

def main : IO Unit := Hex.lineLoop St.init step
