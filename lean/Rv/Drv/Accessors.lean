/-
Line-protocol driver for the `accessors`, `classifiers` and `shapes` suites (C15/C16).

  all  <tree> <tables>          every modelled accessor (RedisMessage and RedisResult with a nil error)
  acc  <Name> <tree> <tables>   one accessor
  rerr <hex err text> <tree>    every RedisResult accessor when the result carries a non-nil error
  dsj  <tree> <tables>          DecodeSliceOfJSON
  cls  <hex text>               every RedisError classifier on that error text
  !conv <Name> <tree> <tables>  ORACLE: a scalar conversion answered by the declarative specification
                                Rv/Spec/Conv.lean (strconv int errors are coarsened to `err:num`)
  shape  <kind> <proto> <data>  dump of the shaped reply (ties Rv/Spec/Shapes.lean to the Go shapers)
  !shape <kind> <proto> <data>  ORACLE: the canonical text of the data itself (what the property demands
                                of the accessor applied to the shaped reply), not computed from the model

<tree>   preorder tokens `typ hex intlen nchildren hasattr` (children, then the attribute message)
<tables> `F:<hex>:<o|e>:<canonical float text>` = strconv.ParseFloat of that string (trusted),
         `J:<hex>` = json.Valid
-/
import Rv.Model.Hex
import Rv.Model.AccessorsShape
import Rv.Spec.Shapes
import Rv.Spec.Conv
open Rv Rv.Acc

abbrev Toks := List String

/-! ### parsing -/
partial def pMsg : Toks → Option (Msg × Toks)
  | t :: h :: i :: n :: a :: rest => do
    let t ← t.toNat?
    let s ← Hex.decode h
    let i ← i.toInt?
    let n ← n.toNat?
    let (kids, rest) ← pMsgs n rest
    if a == "1" then
      let (am, rest) ← pMsg rest
      pure (Msg.mk (UInt8.ofNat t) s i kids [am], rest)
    else pure (Msg.mk (UInt8.ofNat t) s i kids [], rest)
  | _ => none
where
  pMsgs : Nat → Toks → Option (List Msg × Toks)
    | 0, rest => some ([], rest)
    | n + 1, rest => do
      let (m, rest) ← pMsg rest
      let (ms, rest) ← pMsgs n rest
      pure (m :: ms, rest)

structure Tables where
  floats : List (Bytes × Bool × String) := []
  jsons : List Bytes := []

def pTables (ts : Toks) : Option Tables :=
  ts.foldlM (init := ({} : Tables)) fun tb t =>
    match t.splitOn ":" with
    | ["F", h, f, c] => do
      let s ← Hex.decode h
      pure { tb with floats := (s, f == "o", c) :: tb.floats }
    | ["J", h] => do
      let s ← Hex.decode h
      pure { tb with jsons := s :: tb.jsons }
    | _ => none

def Tables.fp (tb : Tables) : FP := ⟨fun s => match tb.floats.find? (·.1 == s) with | some (_, o, _) => o | none => false⟩
def Tables.jp (tb : Tables) : JP := ⟨fun s => tb.jsons.contains s⟩

/-! ### canonical printing (must agree with harness/accessors/canon.go) -/
def hx (b : Bytes) : String := Hex.encode b

/-- float64(i) as an exact integer: round to nearest even at 53 bits -/
def roundF64 (i : Int) : Int :=
  let n := i.natAbs
  if n < 9007199254740992 then i else
  let e := Nat.log2 n - 52
  let q := n >>> e
  let r := n % 2 ^ e
  let half := 2 ^ (e - 1)
  let q' := if r > half || (r == half && q % 2 == 1) then q + 1 else q
  (if i < 0 then -1 else 1) * ((q' * 2 ^ e : Nat) : Int)

def pF (tb : Tables) : F → String
  | .str s => match tb.floats.find? (·.1 == s) with
    | some (_, _, c) => "f" ++ c
    | none => "f?"
  | .int i => "f" ++ toString (roundF64 i)
  | .nan => "fNaN"

def pInt (i : Int) : String := "i" ++ toString i
def pNat (n : Nat) : String := "u" ++ toString n
def pBool (b : Bool) : String := if b then "T" else "F"
def pStr (s : Bytes) : String := "s" ++ hx s
def pBytes (s : Bytes) : String := "b" ++ hx s
def pM (m : Msg) : String := "m" ++ m.dump
def pList {α} (f : α → String) (xs : List α) : String := "[" ++ ",".intercalate (xs.map f) ++ "]"
def pTup (xs : List String) : String := "(" ++ ";".intercalate xs ++ ")"

def bytesLt : Bytes → Bytes → Bool
  | [], [] => false
  | [], _ :: _ => true
  | _ :: _, [] => false
  | a :: r, b :: s => a < b || (a == b && bytesLt r s)

def insertSorted (k : Bytes) : List Bytes → List Bytes
  | [] => [k]
  | x :: r => if bytesLt k x then k :: x :: r else if x == k then x :: r else x :: insertSorted k r

/-- a Go map printed with sorted keys: each key with the value assigned last -/
def pMap {α} (f : α → String) (log : Log α) : String :=
  let keys := log.foldl (fun ks kv => insertSorted kv.1 ks) []
  "{" ++ ",".intercalate (keys.map fun k =>
    hx k ++ "=" ++ (match lookupLast k log with | some v => f v | none => "?")) ++ "}"

def pOptMap {α} (f : α → String) : Option (Log α) → String
  | none => "N"
  | some l => pMap f l

def pXEntry (e : XEntry) : String := pTup [pOptMap pStr e.fv, pStr e.id]
def pXSlice (e : XSlice) : String := pTup [pStr e.id, pList (fun fv => pTup [pStr fv.1, pStr fv.2]) e.fv]
def pZ (tb : Tables) (z : ZScore) : String := pTup [pStr z.member, pF tb z.score]
def pScan (e : ScanEntry) : String := pTup [pList pStr e.elements, pNat e.cursor]
def pFtDoc (tb : Tables) (d : FtDoc) : String := pTup [pOptMap pStr d.doc, pStr d.key, pF tb d.score]
def pGeo (tb : Tables) (g : GeoLoc) : String := pTup [pStr g.name, pF tb g.lon, pF tb g.lat, pF tb g.dist, pInt g.hash]

partial def pAny (tb : Tables) : AnyV → String
  | .nil => "N"
  | .err e => "E" ++ e
  | .flt f => pF tb f
  | .str s => pStr s
  | .bool b => pBool b
  | .int i => pInt i
  | .map ks vs => pMap (pAny tb) (ks.zip vs)
  | .list xs => pList (pAny tb) xs

def pRes {α} (f : α → String) : Res α → String
  | .ok a => "ok " ++ f a
  | .err e => "err:" ++ e
  | .panic => "panic"
  | .oom => "oom"

def isJsonSpace (c : UInt8) : Bool := c == 32 || c == 9 || c == 10 || c == 13
def trimJson (b : Bytes) : Bytes := ((b.dropWhile isJsonSpace).reverse.dropWhile isJsonSpace).reverse

/-! ### the accessor table (name ↦ canonical answer). An accessor that is missing here
makes the harness's line differ, which fails the check. -/
def accessors (tb : Tables) : List (String × (Msg → String)) :=
  let fp := tb.fp
  [ ("AsBool", fun m => pRes pBool (asBool m)),
    ("AsBoolSlice", fun m => pRes (pList pBool) (asBoolSlice m)),
    ("AsBytes", fun m => pRes pBytes (asBytes m)),
    ("AsFloat64", fun m => pRes (pF tb) (asFloat64 fp m)),
    ("AsFloatSlice", fun m => pRes (pList (pF tb)) (asFloatSlice fp m)),
    ("AsFtAggregate", fun m => pRes (fun r => pTup [pInt r.1, pList (pOptMap pStr) r.2]) (asFtAggregate m)),
    ("AsFtAggregateCursor", fun m => pRes (fun r => pTup [pInt r.1, pInt r.2.1, pList (pOptMap pStr) r.2.2]) (asFtAggregateCursor m)),
    ("AsFtSearch", fun m => pRes (fun r => pTup [pInt r.1, pList (pFtDoc tb) r.2]) (asFtSearch fp m)),
    ("AsGeosearch", fun m => pRes (pList (pGeo tb)) (asGeosearch fp m)),
    ("AsInt64", fun m => pRes pInt (asInt64 m)),
    ("AsIntMap", fun m => pRes (pMap pInt) (asIntMap m)),
    ("AsIntSlice", fun m => pRes (pList pInt) (asIntSlice m)),
    ("AsLMPop", fun m => pRes (fun r => pTup [pStr r.1, pList pStr r.2]) (asLMPop m)),
    ("AsMap", fun m => pRes (pMap pM) (asMap m)),
    ("AsReader", fun m => pRes pBytes (asBytes m)),
    ("AsScanEntry", fun m => pRes pScan (asScanEntry m)),
    ("AsStrMap", fun m => pRes (pMap pStr) (asStrMap m)),
    ("AsStrSlice", fun m => pRes (pList pStr) (asStrSlice m)),
    ("AsUint64", fun m => pRes pNat (asUint64 m)),
    ("AsXRange", fun m => pRes (pList pXEntry) (asXRange m)),
    ("AsXRangeEntry", fun m => pRes pXEntry (asXRangeEntry m)),
    ("AsXRangeSlice", fun m => pRes pXSlice (asXRangeSlice m)),
    ("AsXRangeSlices", fun m => pRes (pList pXSlice) (asXRangeSlices m)),
    ("AsXRead", fun m => pRes (pMap (pList pXEntry)) (asXRead m)),
    ("AsXReadSlices", fun m => pRes (pMap (pList pXSlice)) (asXReadSlices m)),
    ("AsZMPop", fun m => pRes (fun r => pTup [pStr r.1, pList (pZ tb) r.2]) (asZMPop fp m)),
    ("AsZScore", fun m => pRes (pZ tb) (asZScore fp m)),
    ("AsZScores", fun m => pRes (pList (pZ tb)) (asZScores fp m)),
    ("DecodeJSON", fun m => pRes (fun b => "j" ++ hx (trimJson b))
        (match decodeJSON m with
         | .ok b => if tb.jp.ok b then .ok b else .err eJson
         | r => r)),
    ("Error", fun m => pRes (fun _ => "-") (errorRes m)),
    ("ToAny", fun m => pRes (pAny tb) (toAny fp m)),
    ("ToArray", fun m => pRes (pList pM) (toArray m)),
    ("ToBool", fun m => pRes pBool (toBool m)),
    ("ToFloat64", fun m => pRes (pF tb) (toFloat64 fp m)),
    ("ToInt64", fun m => pRes pInt (toInt64 m)),
    ("ToMap", fun m => pRes (pMap pM) (toMap m)),
    ("ToString", fun m => pRes pStr (toStr m)) ]

/-- predicates that exist on RedisMessage only -/
def predicates : List (String × (Msg → String)) :=
  [ ("IsArray", fun m => "ok " ++ pBool (decide (isArray m))),
    ("IsBool", fun m => "ok " ++ pBool (decide (m.typ = tBool))),
    ("IsFloat64", fun m => "ok " ++ pBool (decide (m.typ = tFloat))),
    ("IsInt64", fun m => "ok " ++ pBool (decide (m.typ = tInt))),
    ("IsMap", fun m => "ok " ++ pBool (decide (isMap m))),
    ("IsNil", fun m => "ok " ++ pBool (decide (m.typ = tNull))),
    ("IsString", fun m => "ok " ++ pBool (decide (isString m))) ]

/-- RedisResult.ToMessage: the message with r.val.Error() -/
def toMessage (m : Msg) : String := pRes (fun _ => pM m) (errorRes m)

def insertByName {α} (x : String × α) : List (String × α) → List (String × α)
  | [] => [x]
  | y :: r => if x.1 < y.1 then x :: y :: r else y :: insertByName x r

def sortByName {α} (xs : List (String × α)) : List (String × α) := xs.foldl (fun acc x => insertByName x acc) []

def allLine (tb : Tables) (m : Msg) : String :=
  let ms := sortByName (accessors tb ++ predicates)
  let rs := sortByName (accessors tb ++ [("ToMessage", toMessage), ("NonRedisError", fun _ => "ok -")])
  " | ".intercalate (ms.map (fun (n, f) => "M." ++ n ++ "=" ++ f m) ++ rs.map (fun (n, f) => "R." ++ n ++ "=" ++ f m))

def accLine (tb : Tables) (name : String) (m : Msg) : String :=
  let tbl := (accessors tb ++ predicates).map (fun (n, f) => ("M." ++ n, f)) ++
             (accessors tb ++ [("ToMessage", toMessage), ("NonRedisError", fun _ => "ok -")]).map (fun (n, f) => ("R." ++ n, f))
  match tbl.find? (·.1 == name) with
  | some (_, f) => f m
  | none => "unmodelled"

/-- every RedisResult accessor with a non-nil result error: the error, unchanged -/
def rerrLine (e : String) (m : Msg) : String :=
  let tb : Tables := {}
  let rs := sortByName (accessors tb ++ [("ToMessage", toMessage), ("NonRedisError", fun _ => "ok -")])
  " | ".intercalate (rs.map fun (n, _) =>
    "R." ++ n ++ "=" ++ pRes (fun (_ : Unit) => "-") (wrap (fun _ => Res.ok ()) (some e) m))

def dsjLine (tb : Tables) (rerr : Option String) (m : Msg) : String :=
  pRes (pList fun o => match o with | none => "N" | some b => "j" ++ hx (trimJson b)) (decodeSliceOfJSON tb.jp rerr m)

/-! ### classifiers -/
def pAddr (r : Res (Bytes × Bool)) : String := pRes (fun a => pTup [pStr a.1, pBool a.2]) r

def clsLine (s : Bytes) : String :=
  " | ".intercalate
    [ "Error=ok " ++ pStr s,
      "IsAsk=" ++ pAddr (isAsk s),
      "IsBusyGroup=ok " ++ pBool (hasPrefix sBUSYGROUP s),
      "IsClusterDown=ok " ++ pBool (hasPrefix sCLUSTERDOWN s),
      "IsLoading=ok " ++ pBool (hasPrefix sLOADING s),
      "IsMoved=" ++ pAddr (isMoved s),
      "IsNil=ok F",
      "IsNoScript=ok " ++ pBool (hasPrefix sNOSCRIPT s),
      "IsRedirect=" ++ pAddr (isRedirect s),
      "IsTryAgain=ok " ++ pBool (hasPrefix sTRYAGAIN s) ]

/-! ### shapes -/
namespace ShapeDrv
open Rv.Shapes
abbrev P := StateT Toks Option

def tok : P String := fun ts => match ts with | t :: r => some (t, r) | [] => none
def pnat : P Nat := do let t ← tok; match t.toNat? with | some n => pure n | none => failure
def pint : P Int := do let t ← tok; match t.toInt? with | some n => pure n | none => failure
def pbytes : P Bytes := do let t ← tok; match Hex.decode t with | some b => pure b | none => failure
def pbool : P Bool := do let t ← tok; pure (t == "1")
partial def many {α} (p : P α) : P (List α) := do
  let n ← pnat
  let rec go : Nat → P (List α)
    | 0 => pure []
    | k + 1 => do let x ← p; let xs ← go k; pure (x :: xs)
  go n
def pkv : P (Bytes × Bytes) := do let k ← pbytes; let v ← pbytes; pure (k, v)
def pentry : P Entry := do let id ← pbytes; let fv ← many pkv; pure (id, fv)
def pdoc : P SDoc := do let k ← pbytes; let s ← pbytes; let a ← many pkv; pure ⟨k, s, a⟩
def ploc : P Loc := do
  let n ← pbytes; let d ← pbytes; let h ← pint; let lo ← pbytes; let la ← pbytes
  pure ⟨n, d, h, lo, la⟩

/-- (shaped reply, canonical text of the expected accessor result) per kind -/
def build (kind : String) (p : Proto) (tb : Toks → Option Tables) : P (Msg × (Tables → String)) := do
  let _ := tb
  match kind with
  | "zscores" => do
    let d ← many pkv
    pure (zscores p d, fun tb => pList (pZ tb) (zscoresExpect d))
  | "zscore" => do
    let d ← pkv
    pure (zscore p d, fun tb => pZ tb ⟨d.1, .str d.2⟩)
  | "xrange" => do
    let d ← many pentry
    pure (xrange d, fun _ => pList pXEntry (xrangeExpect d))
  | "xrangeslices" => do
    let d ← many pentry
    pure (xrange d, fun _ => pList pXSlice (xrangeSlicesExpect d))
  | "xread" => do
    let d ← many (do let k ← pbytes; let es ← many pentry; pure (k, es))
    pure (xread p d, fun _ => pMap (pList pXEntry) (xreadExpect d))
  | "xreadslices" => do
    let d ← many (do let k ← pbytes; let es ← many pentry; pure (k, es))
    pure (xread p d, fun _ => pMap (pList pXSlice) (xreadSlicesExpect d))
  | "scan" => do
    let c ← pnat; let es ← many pbytes
    pure (scan c es, fun _ => pScan ⟨es, c⟩)
  | "lmpop" => do
    let k ← pbytes; let es ← many pbytes
    pure (lmpop k es, fun _ => pTup [pStr k, pList pStr es])
  | "zmpop" => do
    let k ← pbytes; let d ← many pkv
    pure (zmpop p k d, fun tb => pTup [pStr k, pList (pZ tb) (zscoresExpect d)])
  | "ftsearch" => do
    let ws ← pbool; let wa ← pbool; let total ← pint; let ds ← many pdoc
    pure (ftSearch p ws wa total ds, fun tb =>
      let r := ftSearchExpect ws wa total ds
      pTup [pInt r.1, pList (pFtDoc tb) r.2])
  | "ftagg" => do
    let total ← pint; let rows ← many (many pkv)
    pure (ftAgg p total rows, fun _ =>
      let r := ftAggExpect total rows
      pTup [pInt r.1, pList (pOptMap pStr) r.2])
  | "ftaggcur" => do
    let cur ← pint; let total ← pint; let rows ← many (many pkv)
    pure (ftAggCursor p cur total rows, fun _ =>
      pTup [pInt cur, pInt total, pList (pOptMap pStr) (rows.map some)])
  | "geo" => do
    let wd ← pbool; let wh ← pbool; let wc ← pbool; let ls ← many ploc
    pure (geosearch p wd wh wc ls, fun tb => pList (pGeo tb) (ls.map (geoExpect wd wh wc)))
  | "strmap" => do
    let d ← many pkv
    pure (kvReply p d, fun _ => pMap pStr d)
  | "intmap" => do
    let d ← many (do let k ← pbytes; let v ← pint; pure (k, v))
    pure (intMap p d, fun _ => pMap pInt d)
  | "int64" => do
    let i ← pint
    pure (intReply p i, fun _ => pInt i)
  | "strslice" => do
    let d ← many pbytes
    pure (strSlice d, fun _ => pList pStr d)
  | "intslice" => do
    let d ← many pint
    pure (intSlice p d, fun _ => pList pInt d)
  | _ => failure

def run (oracle : Bool) (kind proto : String) (ts : Toks) : Option String := do
  let p ← (if proto == "2" then some Proto.r2 else if proto == "3" then some Proto.r3 else none)
  let ((m, expect), rest) ← (build kind p pTables).run ts
  let tb ← pTables rest
  pure (if oracle then "ok " ++ expect tb else m.dump)
end ShapeDrv

def shapeLine (oracle : Bool) (kind proto : String) (ts : Toks) : String :=
  match ShapeDrv.run oracle kind proto ts with
  | some s => s
  | none => "bad-shape"

/-! ### scalar conversions answered by the specification (not by the model) -/
def convSpec (tb : Tables) : List (String × (Msg → String)) :=
  let fp := tb.fp
  [ ("AsBool", fun m => pRes pBool (Conv.specAsBool m)),
    ("AsBoolSlice", fun m => pRes (pList pBool) (Conv.specAsBoolSlice m)),
    ("AsBytes", fun m => pRes pBytes (Conv.specToString m)),
    ("AsReader", fun m => pRes pBytes (Conv.specToString m)),
    ("AsFloat64", fun m => pRes (pF tb) (Conv.specAsFloat64 fp m)),
    ("AsFloatSlice", fun m => pRes (pList (pF tb)) (Conv.specAsFloatSlice fp m)),
    ("AsInt64", fun m => pRes pInt (Conv.specAsInt64 m)),
    ("AsIntSlice", fun m => pRes (pList pInt) (Conv.specAsIntSlice m)),
    ("AsStrSlice", fun m => pRes (pList pStr) (Conv.specAsStrSlice m)),
    ("AsUint64", fun m => pRes pNat (Conv.specAsUint64 m)),
    ("ToBool", fun m => pRes pBool (Conv.specToBool m)),
    ("ToFloat64", fun m => pRes (pF tb) (Conv.specToFloat64 fp m)),
    ("ToInt64", fun m => pRes pInt (Conv.specToInt64 m)),
    ("ToString", fun m => pRes pStr (Conv.specToString m)) ]

def convLine (tb : Tables) (name : String) (m : Msg) : String :=
  let bare := if name.startsWith "M." || name.startsWith "R." then name.drop 2 else name
  match (convSpec tb).find? (·.1 == bare) with
  | some (_, f) => f m
  | none => "no-spec"

def step (_ : Unit) (ws : List String) : Unit × String :=
  let out :=
    match ws with
    | "all" :: rest =>
      match pMsg rest with
      | some (m, tbl) => match pTables tbl with
        | some tb => allLine tb m
        | none => "bad-tables"
      | none => "bad-tree"
    | "acc" :: name :: rest =>
      match pMsg rest with
      | some (m, tbl) => match pTables tbl with
        | some tb => accLine tb name m
        | none => "bad-tables"
      | none => "bad-tree"
    | "!conv" :: name :: rest =>
      match pMsg rest with
      | some (m, tbl) => match pTables tbl with
        | some tb => convLine tb name m
        | none => "bad-tables"
      | none => "bad-tree"
    | "rerr" :: e :: rest =>
      match Hex.decode e, pMsg rest with
      | some eb, some (m, _) => rerrLine (eOther (String.ofList (eb.map fun b => Char.ofNat b.toNat))) m
      | _, _ => "bad-op"
    | "dsj" :: e :: rest =>
      match pMsg rest with
      | some (m, tbl) => match pTables tbl, Hex.decode e with
        | some tb, some eb =>
          dsjLine tb (if e == "-" then none else some (eOther (String.ofList (eb.map fun b => Char.ofNat b.toNat)))) m
        | _, _ => "bad-tables"
      | none => "bad-tree"
    | ["cls", h] =>
      match Hex.decode h with
      | some s => clsLine s
      | none => "bad-op"
    | ["!redir", kind, h] =>
      -- ORACLE: a text of the documented form carries its last field, normalised
      match Hex.decode h with
      | some s =>
        let k := if kind == "REDIRECT" then 1 else 2
        match (splitOn 32 s)[k]? with
        | some a => "ok " ++ pTup [pStr (Rv.Shapes.normAddr a), pBool true]
        | none => "ok " ++ pTup [pStr [], pBool false]
      | none => "bad-op"
    | "shape" :: kind :: proto :: rest => shapeLine false kind proto rest
    | "!shape" :: kind :: proto :: rest => shapeLine true kind proto rest
    | _ => "bad-op"
  ((), out)

def main : IO Unit := Hex.lineLoop () step
