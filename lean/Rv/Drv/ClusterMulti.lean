import Rv.Model.Hex
import Rv.Model.ClusterMulti
import Rv.Spec.Cluster
open Rv

/- driver of the `cluster` suite: see `Rv.ClusterMulti.Wire.step` for the op lines -/
def main : IO Unit := Hex.lineLoop ({} : ClusterMulti.Wire.DS) ClusterMulti.Wire.step
