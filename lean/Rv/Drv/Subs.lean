import Rv.Model.Hex
import Rv.Model.Subs
open Rv Rv.Push Rv.Subs

/-- byte strings that are not UTF-8 stay opaque (`hex:<digits>`): the model only compares them -/
def hexStr (h : String) : String :=
  if h == "" || h == "-" then "" else
  match Hex.decode h with
  | some bs => (String.fromUTF8? ⟨bs.toArray⟩).getD ("hex:" ++ h)
  | none => "?"

def strHex (s : String) : String :=
  if s.startsWith "hex:" then (s.drop 4).toString else if s == "" then "" else Hex.encode s.toUTF8.toList

def parsePV (w : String) : PV :=
  let body := (w.drop 1).toString
  match w.front with
  | 's' => .str (hexStr body)
  | 'i' => .int (body.toInt?.getD 0)
  | 'a' => .arr (if body == "" then [] else (body.splitOn ",").map hexStr)
  | _ => .null

def parsePush (w : String) : List PV := if w == "" then [] else (w.splitOn "/").map parsePV

def showMsg (m : Msg) : String := strHex m.pattern ++ "," ++ strHex m.channel ++ "," ++ strHex m.message
def showNote (n : Note) : String := strHex n.kind ++ "," ++ strHex n.channel ++ "," ++ toString n.count

/-- what changed for every subscription of a table: `<id>:<new msgs>:<closes>:<new notes>` -/
def delta (old new : Table) : String :=
  let parts := new.subs.filterMap fun s =>
    let o : Sub := (old.get s.id).getD { id := s.id, chans := [], hasFn := false }
    let ms := s.buf.drop o.buf.length
    let ns := s.notes.drop o.notes.length
    if ms.isEmpty && ns.isEmpty && s.closes == o.closes then none
    else some (toString s.id ++ ":" ++ "+".intercalate (ms.map showMsg) ++ ":" ++ toString s.closes ++ ":" ++ "+".intercalate (ns.map showNote))
  "{" ++ " ".intercalate parts ++ "}"

def deltas (old new : Pipe) : String :=
  "T0" ++ delta old.n new.n ++ " T1" ++ delta old.p new.p ++ " T2" ++ delta old.s new.s

def b01 (b : Bool) : String := if b then "1" else "0"

def showHooks (hs : List HookCall) : String :=
  if hs.isEmpty then "-" else "+".intercalate (hs.map fun | .msg m => "m" ++ showMsg m | .note n => "n" ++ showNote n)

def parseMsg (w : String) : Msg :=
  match w.splitOn "," with
  | [p, c, m] => ⟨hexStr p, hexStr c, hexStr m⟩
  | _ => ⟨"", "", ""⟩

def tableOp (pp : Pipe) (k : Nat) (op : Op) : Pipe × String :=
  let pp' := setTable pp k (Subs.step (getTable pp k) op)
  (pp', deltas pp pp')

def showErr : Err → String
  | .nil => "nil"
  | .ctx => "ctx"
  | .cmd => "cmd"
  | .pipe e => "pipe:" ++ e

structure DSt where
  pp : Pipe := {}
  hk : HookSt := {}

def showHookSt (s : HookSt) : String :=
  " ".intercalate (s.all.map fun c => "[" ++ ",".intercalate c.errs ++ "|" ++ toString c.closes ++ "|" ++ b01 c.sendAfterClose ++ "]")

def step (d : DSt) (ws : List String) : DSt × String :=
  let t (w : String) : Nat := w.toNat?.getD 0
  match ws with
  | ["reset"] => ({}, "ok")
  | ["sub", k, fn, chans] =>
    let tb := getTable d.pp (t k)
    let cs := (chans.splitOn ",").map hexStr
    let pp' := setTable d.pp (t k) (Subs.step tb (.subscribe cs (fn == "1")))
    ({ d with pp := pp' }, if tb.live then s!"id={tb.cnt + 1}" else "dead")
  | ["pub", k, ch, m] => let (pp', s) := tableOp d.pp (t k) (.publish (hexStr ch) (parseMsg m)); ({ d with pp := pp' }, s)
  | ["confirm", k, kind, ch, cnt] =>
    let (pp', s) := tableOp d.pp (t k) (.confirm ⟨hexStr kind, hexStr ch, cnt.toInt?.getD 0⟩); ({ d with pp := pp' }, s)
  | ["unsub", k, kind, ch, cnt] =>
    let (pp', s) := tableOp d.pp (t k) (.unsubscribe ⟨hexStr kind, hexStr ch, cnt.toInt?.getD 0⟩); ({ d with pp := pp' }, s)
  | ["cancel", k, id] => let (pp', s) := tableOp d.pp (t k) (.cancel (t id)); ({ d with pp := pp' }, s)
  | ["close", k] => let (pp', s) := tableOp d.pp (t k) .close; ({ d with pp := pp' }, s)
  | ["hooks", m, s] => ({ d with pp := { d.pp with onMsg := m == "1", onSub := s == "1" } }, "ok")
  | "push" :: rest =>
    let r := handlePush d.pp (parsePush (rest.headD ""))
    ({ d with pp := r.pipe }, s!"r={b01 r.reply} u={b01 r.unsub} hooks={showHooks r.hooks} " ++ deltas d.pp r.pipe)
  | ["wire", w] => ({ d with pp := (handlePush d.pp (parsePush w)).pipe }, "ok")
  | ["log", k, id] =>
    match (getTable d.pp (t k)).get (t id) with
    | some sb => (d, if sb.buf.isEmpty then "-" else "+".intercalate (sb.buf.map showMsg))
    | none => (d, "no-such-sub")
  | "!log" :: k :: chans :: publog =>
    let cs := (chans.splitOn ",").map hexStr
    let pubs : List Pub := publog.filterMap fun w =>
      match w.splitOn ":" with
      | ["P", c, m] => some (.publish (hexStr c) (hexStr m))
      | ["S", c, m] => some (.spublish (hexStr c) (hexStr m))
      | _ => none
    let ms := specLog (t k) cs pubs
    (d, if ms.isEmpty then "-" else "+".intercalate (ms.map showMsg))
  | ["!orphan", _, _] =>
    -- specification: a failed Receive leaves nothing behind; the connection serves all 24 messages,
    -- the regular command and the new Receive
    (d, "cmd=ok msgs=24 newrecv=ok")
  | ["!churn", _, _, share] =>
    -- specification of the churn scenario: A [x1] sees p1; B [x2] sees p2 p3; the new C sees p4 p5,
    -- or p3 p4 when it shares x2 with B and is ended together with it
    (d, if share == "share=true" then "A=p1 B=p2,p3 C=p3,p4" else "A=p1 B=p2,p3 C=p4,p5")
  | ["recv", e, perr] =>
    let en : End := if e == "dead" then .tableDead else if e == "doerr" then .doErr else if e == "ctx" then .ctxDone else .chClosed
    (d, showErr (receiveResult en (if perr == "-" then none else some perr)))
  | ["!recv", e, perr] =>
    -- specification: nil on unsubscribe, the pipe's error (ErrClosing on Close) when closed, the context error when cancelled
    (d, if e == "ctx" then "ctx" else if e == "doerr" then "cmd" else if perr == "-" then "nil" else "pipe:" ++ perr)
  | ["hreset"] => ({ d with hk := {} }, "ok")
  | ["hswapdead", e] =>
    -- SetPubSubHooks(non-zero) on a pipe whose connection already failed: Swap(new), then Swap(empty)
    -- with the error sent to and the close of whatever that second Swap returned
    let h := hookStep (hookStep d.hk .swapNew) (.swapEmpty (some e)); ({ d with hk := h }, showHookSt h)
  | ["!hooks-invariant"] =>
    -- specification: every channel handed out was closed at most once, carries at most one error,
    -- nothing was sent after a close: no Go panic
    (d, "ok")
  | ["hswap"] => let h := hookStep d.hk .swapNew; ({ d with hk := h }, showHookSt h)
  | ["hempty", e] => let h := hookStep d.hk (.swapEmpty (if e == "-" then none else some e)); ({ d with hk := h }, showHookSt h)
  | _ => (d, "bad-op")

def main : IO Unit := Hex.lineLoop ({} : DSt) step
