import Rv.Model.Hex
import Rv.Model.CacheMarshal
open Rv Rv.CacheMarshal

/-- FNV-1a (64 bit) of a byte string, for summarising long outputs -/
def fnv (bs : List UInt8) : UInt64 :=
  bs.foldl (fun h b => (h ^^^ b.toUInt64) * 1099511628211) 14695981039346656037

def summ (bs : List UInt8) : String :=
  if bs.length ≤ 256 then Hex.encode bs
  else "#" ++ toString bs.length ++ ":" ++ toString (fnv bs).toNat ++ ":" ++ Hex.encode (bs.take 16) ++ ":" ++
    Hex.encode (bs.drop (bs.length - 16))

def afterColon (w : String) : Option (Nat × String) :=
  match w.splitOn ":" with
  | [a, b] => match (String.ofList (a.toList.drop 1)).toNat? with
    | some t => some (t, b)
    | none => none
  | _ => none

/-- tree tokens: `S<typ>:<hex>` string node, `I<typ>:<int>` integer node, `A<typ>:<n>` followed by
    n nodes, `@` followed by the attribute node and the node it decorates -/
def parseNode : Nat → List String → Option (Msg × List String)
  | 0, _ => none
  | _, [] => none
  | f + 1, w :: ws =>
    if w == "@" then
      match parseNode f ws with
      | some (a, ws1) => match parseNode f ws1 with
        | some (m, ws2) => some (m.withAttr [a], ws2)
        | none => none
      | none => none
    else
      match afterColon w with
      | none => none
      | some (t, v) =>
        let ty := UInt8.ofNat t
        if w.startsWith "S" then
          match Hex.decode v with
          | some s => some (Msg.mk ty s s.length [] [], ws)
          | none => none
        else if w.startsWith "I" then
          match v.toInt? with
          | some i => some (Msg.mk ty [] i [] [], ws)
          | none => none
        else if w.startsWith "A" then
          match v.toNat? with
          | some n =>
            let rec kids : Nat → List String → Option (List Msg × List String)
              | 0, ws => some ([], ws)
              | k + 1, ws => match parseNode f ws with
                | some (m, ws1) => match kids k ws1 with
                  | some (ms, ws2) => some (m :: ms, ws2)
                  | none => none
                | none => none
            match kids n ws with
            | some (ms, ws1) => some (Msg.mk ty [] ms.length ms [], ws1)
            | none => none
          | none => none
        else none

def parseTree (ws : List String) : Option Msg :=
  match parseNode (ws.length + 1) ws with
  | some (m, []) => some m
  | _ => none

/-- bytes one allocation may take in the driver's runs (1 GiB); the harness never generates element
    counts in the band where the real process might or might not survive -/
def memLimit : Nat := 1073741824

def showUn : Res (Msg × List UInt8) → String
  | .ok (m, ttl) => "ok " ++ dumpMarked m ++ " " ++ toString (unpackTTL ttl)
  | .err e => "err:" ++ e
  | .panic => "panic"
  | .oom => "oom"

def step (_ : Unit) (ws : List String) : Unit × String :=
  match ws with
  | "sz" :: tree =>
    match parseTree tree with
    | some m => ((), toString (cacheSize m))
    | none => ((), "bad-op")
  | "ms" :: ttl :: tree =>
    match Hex.decode ttl, parseTree tree with
    | some t, some m => ((), summ (marshal t m))
    | _, _ => ((), "bad-op")
  | ["un", h] =>
    match Hex.decode h with
    | some buf => ((), showUn (unmarshal memLimit buf))
    | none => ((), "bad-op")
  | ["ttl", v] =>
    match v.toInt? with
    | some i => ((), Hex.encode (packTTL i) ++ " " ++ toString (unpackTTL (packTTL i)))
    | none => ((), "bad-op")
  | "!rt" :: ttl :: tree =>     -- oracle: the specification of the round trip, not the model of unmarshalView
    match Hex.decode ttl, parseTree tree with
    | some t, some m => ((), "ok " ++ dumpMarked (norm m) ++ " " ++ toString (unpackTTL t))
    | _, _ => ((), "bad-op")
  | "!tr" :: ttl :: tree =>     -- oracle: every proper prefix is ErrCacheUnmarshal
    match Hex.decode ttl, parseTree tree with
    | some _, some m => ((), "allerr " ++ toString (cacheSize m))
    | _, _ => ((), "bad-op")
  | _ => ((), "bad-op")

def main : IO Unit := Hex.lineLoop () step
