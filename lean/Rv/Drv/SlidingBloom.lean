import Rv.Model.Hex
import Rv.Model.SlidingBloom
open Rv Rv.SBloom Rv.BloomFmt
open Rv.Bloom (allIdx)

structure DS where
  cfg : Cfg := ⟨1, 1, 500⟩
  ro : Bool := false
  now : Nat := 0
  st : SBloom.St := SBloom.St.init
  added : List ((Nat × Nat) × Nat) := []   -- specification state: item ↦ time of its last successful add

def keys5 : String := "@,@:n,@:c,@:nc,@:lr"
def existsName (d : DS) : String := if d.ro then "sbfexistsro" else "sbfexists"
def optN : Option Nat → String | none => "_" | some n => toString n

def stateText (d : DS) : String :=
  "cur=" ++ (if d.st.cur.isSome then "1" else "0") ++ " next=" ++ (if d.st.next.isSome then "1" else "0") ++
  " c=" ++ optN d.st.curC ++ " nc=" ++ optN d.st.nextC ++ " lock=" ++ (if lockHeld d.st d.now then optN d.st.lock else "_")

def lastAdd (d : DS) (x : Nat × Nat) : Option Nat := (d.added.find? (·.1 == x)).map (·.2)

def stepBase (d : DS) (ws : List String) : DS × String :=
  match ws with
  | ["reset", m, k, half, ro, _, _, now] =>
    match parseNats [m, k, half, (now.drop 4).toString] with
    | some [m, k, half, now] =>
      let d0 : DS := { cfg := ⟨m, k, half⟩, ro := ro == "ro=1", now := now }
      match initScript half now d0.st with
      | .ok s => ({ d0 with st := s }, "ok " ++ call "sbfinit" keys5 (toString half) ":1")
      | .error s => ({ d0 with st := s }, "err:redis " ++ call "sbfinit" keys5 (toString half) "-ERR")
    | _ => (d, "bad-op")
  | ["now", t] =>
    match t.toNat? with
    | some t => ({ d with now := t }, "ok")
    | none => (d, "bad-op")
  | ["s.state"] => (d, stateText d)
  | ["s.init", half] =>
    match half.toNat? with
    | some half =>
      match initScript half d.now d.st with
      | .ok s => ({ d with st := s }, ":1")
      | .error s => ({ d with st := s }, "-ERR")
    | none => (d, "bad-op")
  | "s.add" :: k :: half :: is =>
    match k.toNat?, half.toNat?, parseNats is with
    | some k, some half, some is =>
      match addScript k half d.now is d.st with
      | .ok (s, c) => ({ d with st := s }, ":" ++ toString c)
      | .error s => ({ d with st := s }, "-ERR")
    | _, _, _ => (d, "bad-op")
  | "s.exists" :: k :: half :: is =>
    match k.toNat?, half.toNat?, parseNats is with
    | some k, some half, some is =>
      match existsScript k half d.now is d.st with
      | .ok (s, r) => ({ d with st := s }, boolsReply r)
      | .error s => ({ d with st := s }, "-ERR")
    | _, _, _ => (d, "bad-op")
  | ["s.reset"] =>
    match resetScript d.st with
    | .ok s => ({ d with st := s }, "_")
    | .error s => ({ d with st := s }, "-ERR")
  | "add" :: items =>
    match items.mapM parseItem with
    | some keys =>
      if keys.isEmpty then (d, "ok") else
      let idxs := idxsOf d.cfg keys
      let args := natsC (d.cfg.k :: d.cfg.half :: idxs)
      match addScript d.cfg.k d.cfg.half d.now idxs d.st with
      | .ok (s, c) =>
        ({ d with st := s, added := keys.map (fun x => (x, d.now)) ++ d.added },
          "ok " ++ call "sbfadd" keys5 args (":" ++ toString c))
      | .error s => ({ d with st := s }, "err:redis " ++ call "sbfadd" keys5 args "-ERR")
    | none => (d, "bad-op")
  | "exists" :: items =>
    match items.mapM parseItem with
    | some keys =>
      if keys.isEmpty then (d, "nil") else
      let idxs := idxsOf d.cfg keys
      let args := natsC (d.cfg.k :: d.cfg.half :: idxs)
      match existsMulti d.cfg d.now keys d.st, existsScript d.cfg.k d.cfg.half d.now idxs d.st with
      | .ok (s, some r), .ok (_, raw) => ({ d with st := s }, boolsAns r ++ " " ++ call (existsName d) keys5 args (boolsReply raw))
      | .error s, _ => ({ d with st := s }, "err:redis " ++ call (existsName d) keys5 args "-ERR")
      | _, _ => (d, "bad-op")
    | none => (d, "bad-op")
  | ["!exists", item] =>      -- oracle: the specification (added at t, asked no later than t + half)
    match parseItem item with
    | some key =>
      (d, match lastAdd d key with
          | some t => if d.now ≤ t + d.cfg.half then "1" else "unconstrained"
          | none => "unconstrained")
    | none => (d, "bad-op")
  | ["count"] => (d, toString (count d.st) ++ " " ++ call "get" "@:c" "" (match d.st.curC with | none => "_" | some c => "$" ++ toString c))
  | ["greset"] =>
    match resetScript d.st with
    | .ok s => ({ d with st := s, added := [] }, "err:nil " ++ call "sbfreset" "@,@:n,@:c,@:nc" "@:lr" "_")
    | .error s => ({ d with st := s, added := [] }, "err:redis " ++ call "sbfreset" "@,@:n,@:c,@:nc" "@:lr" "-ERR")
  | ["gdelete"] =>
    let r := delete d.now d.st
    ({ d with st := r.1, added := [] }, "ok " ++ call "del" keys5 "" (":" ++ toString r.2))
  | _ => (d, "bad-op")

/-- `overlap <opA…> / <opB…>`: opA was parked in the client before its arguments were read while opB
ran to completion, so the server executed opB first; the model's answer for each is the ordinary one
(the arguments of a call depend on its own items only, `Rv.C35.argv_depends_only_on_item`). -/
def step (d : DS) (ws : List String) : DS × String :=
  match ws with
  | "overlap" :: rest =>
    let a := rest.takeWhile (· != "/")
    let b := (rest.dropWhile (· != "/")).drop 1
    let r1 := stepBase d b
    let r2 := stepBase r1.1 a
    (r2.1, r2.2 ++ " | " ++ r1.2)
  | _ => stepBase d ws

def main : IO Unit := Hex.lineLoop ({} : DS) step
