import Rv.Model.Hex
import Rv.Model.Scanner
import Rv.Spec.Scanner
open Rv Rv.Scanner

/-
ops (elements are opaque words, hex on the Go side):
  iter  <stop|-> <resp>*   model of Iter      resp = p<cursor> | p<cursor>:<e1>,<e2>,… | e:<name>
  iter2 <stop|-> <resp>*   model of Iter2
  !iter / !iter2           the specification (Rv.Spec.Scanner.specIter/specIter2)
  seq <n> (<iter|iter2> <stop|->){n} <resp>*    n consecutive iterations over the SAME Scanner; the server is
                           cursor-keyed (entry i answers the cursor returned by entry i-1, entry 0 answers 0),
                           which is the script served in order iff the request cursors are distinct
                           (otherwise: bad-op:dup-cursor); answers joined by " | "
  !seq …                   the specification: every iteration is specIter/specIter2 from cursor 0
answer: y=<n>:<items> c=<cursors> err=<-|name>
-/

def parseResp (w : String) : Option Resp :=
  if w.startsWith "e:" then some (.err (w.drop 2).toString)
  else if w.startsWith "p" then
    match (w.drop 1).toString.splitOn ":" with
    | [c] => c.toNat?.map fun c => .page c []
    | [c, es] => c.toNat?.map fun c => .page c (es.splitOn ",")
    | _ => none
  else none

def parseStop (w : String) : Option (Option Nat) :=
  if w == "-" then some none else w.toNat?.map some

def render {β : Type} (f : β → String) (o : Out β) : String :=
  "y=" ++ toString o.yielded.length ++ ":" ++ ",".intercalate (o.yielded.map f)
    ++ " c=" ++ ",".intercalate (o.cursors.map toString)
    ++ " err=" ++ (o.err.getD "-")

def parseReqs : Nat → List String → Option (List Req × List String)
  | 0, ws => some ([], ws)
  | n + 1, op :: st :: ws => do
    let stop ← parseStop st
    let r ← if op == "iter" then some (Req.iter stop) else if op == "iter2" then some (Req.iter2 stop) else none
    let (rs, ws') ← parseReqs n ws
    pure (r :: rs, ws')
  | _, _ => none

def renderRes : Res → String
  | .items o => render id o
  | .pairs o => render (fun p => p.1 ++ "+" ++ p.2) o

def stepSeq (spec : Bool) (n : String) (ws : List String) : String :=
  (do
    let n ← n.toNat?
    let (reqs, rs) ← parseReqs n ws
    let script ← rs.mapM parseResp
    if ¬ (reqCursors script 0).Nodup then pure "bad-op:dup-cursor" else
    let res :=
      if spec then reqs.map fun (r : Req) => match r with
        | Req.iter stop => Res.items (Spec.Scanner.specIter script stop)
        | Req.iter2 stop => Res.pairs (Spec.Scanner.specIter2 script stop)
      else (runSeq ⟨none⟩ script reqs).1
    pure (" | ".intercalate (res.map renderRes))).getD "bad-op"

def step (_ : Unit) (ws : List String) : Unit × String :=
  match ws with
  | "seq" :: n :: rest => ((), stepSeq false n rest)
  | "!seq" :: n :: rest => ((), stepSeq true n rest)
  | op :: st :: rs =>
    match parseStop st, rs.mapM parseResp with
    | some stop, some script =>
      if op == "iter" then ((), render id (iter script stop))
      else if op == "!iter" then ((), render id (Spec.Scanner.specIter script stop))
      else if op == "iter2" then ((), render (fun p => p.1 ++ "+" ++ p.2) (iter2 script stop))
      else if op == "!iter2" then ((), render (fun p => p.1 ++ "+" ++ p.2) (Spec.Scanner.specIter2 script stop))
      else ((), "bad-op")
    | _, _ => ((), "bad-op")
  | _ => ((), "bad-op")

def main : IO Unit := Hex.lineLoop () step
