import Rv.Model.Hex
import Rv.Model.Scanner
import Rv.Spec.Scanner
open Rv Rv.Scanner

/-
ops (elements are opaque words, hex on the Go side):
  iter  <stop|-> <resp>*   model of Iter      resp = p<cursor> | p<cursor>:<e1>,<e2>,… | e:<name>
  iter2 <stop|-> <resp>*   model of Iter2
  !iter / !iter2           the specification (Rv.Spec.Scanner.specIter/specIter2)
answer: y=<n>:<items> c=<cursors> err=<-|name>
-/

def parseResp (w : String) : Option Resp :=
  if w.startsWith "e:" then some (.err (w.drop 2).toString)
  else if w.startsWith "p" then
    match (w.drop 1).toString.splitOn ":" with
    | [c] => c.toNat?.map fun c => .page c []
    | [c, es] => c.toNat?.map fun c => .page c (es.splitOn ",")
    | _ => none
  else none

def parseStop (w : String) : Option (Option Nat) :=
  if w == "-" then some none else w.toNat?.map some

def render {β : Type} (f : β → String) (o : Out β) : String :=
  "y=" ++ toString o.yielded.length ++ ":" ++ ",".intercalate (o.yielded.map f)
    ++ " c=" ++ ",".intercalate (o.cursors.map toString)
    ++ " err=" ++ (o.err.getD "-")

def step (_ : Unit) (ws : List String) : Unit × String :=
  match ws with
  | op :: st :: rs =>
    match parseStop st, rs.mapM parseResp with
    | some stop, some script =>
      if op == "iter" then ((), render id (iter script stop))
      else if op == "!iter" then ((), render id (Spec.Scanner.specIter script stop))
      else if op == "iter2" then ((), render (fun p => p.1 ++ "+" ++ p.2) (iter2 script stop))
      else if op == "!iter2" then ((), render (fun p => p.1 ++ "+" ++ p.2) (Spec.Scanner.specIter2 script stop))
      else ((), "bad-op")
    | _, _ => ((), "bad-op")
  | _ => ((), "bad-op")

def main : IO Unit := Hex.lineLoop () step
