import Rv.Model.Hex
import Rv.Model.Binary
open Rv Rv.Binary

/-
ops:
  vs32 <u32>*  -> hex     VectorString32 of the patterns         vs64 likewise
  tv32 <hex>   -> n:<u32,…> | panic   ToVector32                 tv64 likewise
  !rt32 <u32>* -> n:<u32,…>  specification: the round trip returns the input   !rt64 likewise
  bin <hex> / !bin <hex> -> hex       BinaryString (model / specification: the same bytes)
  !json <seed> <hex> -> hex           JSON(x) must be the standard encoding carried in the op
  json <seed> err -> panic            json.Marshal failed: JSON panics
-/

def toHex (bs : List Nat) : String := Hex.encode (bs.map UInt8.ofNat)
def ofHex (h : String) : Option (List Nat) := (Hex.decode h).map (·.map UInt8.toNat)
def showVec (v : List Nat) : String := toString v.length ++ ":" ++ ",".intercalate (v.map toString)

def step (_ : Unit) (ws : List String) : Unit × String :=
  match ws with
  | "vs32" :: xs => match xs.mapM String.toNat? with
    | some v => ((), toHex (vectorString32 v))
    | none => ((), "bad-op")
  | "vs64" :: xs => match xs.mapM String.toNat? with
    | some v => ((), toHex (vectorString64 v))
    | none => ((), "bad-op")
  | ["tv32", h] => match ofHex h with
    | some s => ((), match toVector32 s with | some v => showVec v | none => "panic")
    | none => ((), "bad-op")
  | ["tv64", h] => match ofHex h with
    | some s => ((), match toVector64 s with | some v => showVec v | none => "panic")
    | none => ((), "bad-op")
  | "!rt32" :: xs => match xs.mapM String.toNat? with
    | some v => ((), showVec v)
    | none => ((), "bad-op")
  | "!rt64" :: xs => match xs.mapM String.toNat? with
    | some v => ((), showVec v)
    | none => ((), "bad-op")
  | ["bin", h] => match ofHex h with
    | some s => ((), toHex (binaryString s))
    | none => ((), "bad-op")
  | ["!bin", h] => ((), h)
  | ["!json", _, h] => ((), h)
  | ["json", _, "err"] => ((), "panic")
  | _ => ((), "bad-op")

def main : IO Unit := Hex.lineLoop () step
