import Rv.Model.Hex
import Rv.Model.Adapter
import Rv.Spec.Cache
/-!
Driver of the `adapter` correspondence suites (harness/cache/suite_adapter.go).
Ordinary lines: the model `Rv.Adapter`; `!` lines: the specification `Rv.Spec.Cache`.
-/
open Rv Rv.Lru Rv.Adapter

namespace AdDrv

structure St where
  m  : Adapter.State
  sp : Spec.Cache.Spec

def hexB (b : Bytes) : String := Hex.encode b

def showRes : FRes → String
  | .hit v e => s!"h:{v}:{e}"
  | .wait i => s!"w:{i}"
  | .send => "s"

def sortStr (l : List String) : List String := l.mergeSort (fun a b => decide (a ≤ b))

def showFlights (s : Adapter.State) : String :=
  match s.flights with
  | none => "nil"
  | some fl =>
    let items := fl.map fun p =>
      s!"{hexB p.1.1}:{hexB p.1.2}=" ++ (match p.2 with | none => "nil" | some e => s!"{e.id}@{e.xat}")
    " ".intercalate (sortStr items)

def showStore (s : Adapter.State) : String :=
  " ".intercalate (sortStr (s.store.map fun p => s!"{hexB p.1}={p.2.1}@{p.2.2}"))

def showOutcome : Nat × Outcome → String
  | (i, .val v e) => s!"{i}=v{v}@{e}"
  | (i, .err x) => s!"{i}=e{x}"

def showDone (d : List (Nat × Outcome)) : String :=
  " ".intercalate ((d.mergeSort (fun a b => decide (a.1 ≤ b.1))).map showOutcome)

def answer (st : St) (m' : Adapter.State) (res : String) : St × String :=
  ({ st with m := m' },
   res ++ s!" | F {showFlights m'} | U {showStore m'} | D {showDone (m'.done.drop st.m.done.length)}")

def judgeFlight (sp : Spec.Cache.Spec) (k c : Bytes) (ttl now : Int) (obs : String) : Spec.Cache.Spec × String :=
  match obs.splitOn ":" with
  | ["h", v, e] =>
    match v.toNat?, e.toInt? with
    | some v, some e =>
      if Spec.Cache.lookup sp (k, c) (unixMilli now) = some (v, e) then (sp, "ok")
      else (sp, "stale-or-wrong-hit")
    | _, _ => (sp, "bad-op")
  | ["w", _] => if (sp.out (k, c)).isSome then (sp, "ok") else (sp, "wait-without-request")
  | ["s"] =>
    if !sp.closed && (sp.out (k, c)).isSome then (sp, "duplicate-send")
    else (Spec.Cache.sent sp (k, c) (unixMilli (now + ttl)), "ok")
  | _ => (sp, "bad-op")


def parseIds (s : String) : Option (List Nat) :=
  if s == "-" then some [] else (s.splitOn ",").mapM String.toNat?

def step (st : St) (ws : List String) : St × String :=
  match ws with
  | ["reset"] => ({ m := Adapter.init, sp := Spec.Cache.empty }, "ok")
  | ["flight", k, c, ttl, now] =>
    match Hex.decode k, Hex.decode c, ttl.toInt?, now.toInt? with
    | some k, some c, some ttl, some now =>
      let r := Adapter.flight st.m k c ttl now
      answer st r.1 (showRes r.2)
    | _, _, _, _ => (st, "bad-op")
  | ["update", k, c, v, raw] =>
    match Hex.decode k, Hex.decode c, v.toNat?, raw.toInt? with
    | some k, some c, some v, some raw =>
      let r := Adapter.update st.m k c v raw
      answer st r.1 s!"pxat={r.2}"
    | _, _, _, _ => (st, "bad-op")
  | ["cancel", k, c, err] =>
    match Hex.decode k, Hex.decode c, err.toNat? with
    | some k, some c, some err =>
      let (st', a) := answer st (Adapter.cancel st.m k c err) "ok"
      ({ st' with sp := Spec.Cache.cancel st.sp (k, c) }, a)
    | _, _, _ => (st, "bad-op")
  | "delete" :: ks =>
    match ks.mapM Hex.decode with
    | some keys =>
      let (st', a) := answer st (Adapter.delete st.m (some keys)) "ok"
      ({ st' with sp := Spec.Cache.delete st.sp keys }, a)
    | none => (st, "bad-op")
  | ["flush"] =>
    let (st', a) := answer st (Adapter.delete st.m none) "ok"
    ({ st' with sp := Spec.Cache.flush st.sp }, a)
  | ["close", err] =>
    match err.toNat? with
    | some err =>
      let (st', a) := answer st (Adapter.close st.m err) "ok"
      ({ st' with sp := Spec.Cache.close st.sp }, a)
    | none => (st, "bad-op")
  | ["!flight", k, c, ttl, now, obs] =>
    match Hex.decode k, Hex.decode c, ttl.toInt?, now.toInt? with
    | some k, some c, some ttl, some now =>
      let (sp, a) := judgeFlight st.sp k c ttl now obs
      ({ st with sp := sp }, a)
    | _, _, _, _ => (st, "bad-op")
  | ["!update", k, c, v, raw, pxat] =>
    match Hex.decode k, Hex.decode c, v.toNat?, raw.toInt?, pxat.toInt? with
    | some k, some c, some v, some raw, some pxat =>
      let want := Spec.Cache.updatePxat st.sp (k, c) (pack raw)
      let sp := Spec.Cache.update st.sp (k, c) v (pack raw)
      ({ st with sp := sp }, if want = pxat then "ok" else s!"pxat-should-be={want}")
    | _, _, _, _, _ => (st, "bad-op")
  | ["!close", pending, released] =>
    -- specification: Close(err) wakes the waiters of EVERY pending entry, and only those, with the error
    match parseIds pending, parseIds released with
    | some p, some r =>
      (st, if Spec.Cache.closeOk p r then "ok"
           else s!"not-released={",".intercalate ((p.filter fun i => !r.contains i).map toString)}")
    | _, _ => (st, "bad-op")
  | _ => (st, "bad-op")

end AdDrv

def main : IO Unit :=
  Hex.lineLoop ({ m := Adapter.init, sp := Spec.Cache.empty } : AdDrv.St) AdDrv.step
