import Rv.Model.Hex
import Rv.Model.Resp
open Rv

def showDec (total : Nat) : Res (Msg × List UInt8) → String
  | .ok (m, r) => "ok " ++ m.dump ++ " " ++ toString (total - r.length)
  | .err e => "err:" ++ e
  | .panic => "panic"
  | .oom => "oom"

/-- `!big t n seed nested`: the SPECIFICATION's answer for one large well-formed string reply of type `t` whose
    payload is byte i = (7*i + seed) mod 251, followed by `:42` (inside `*2` when nested): the value is exactly the
    payload, the next reply is untouched. Digest: typ, length, weighted byte sum mod 2^32, second integer, bytes of
    the first frame. -/
def bigSum (n seed : Nat) : Nat :=
  (List.range n).foldl (fun acc i => (acc + (i + 1) * ((7 * i + seed) % 251)) % 4294967296) 0

def bigAnswer (t n seed nested : Nat) : String :=
  let hdr := 1 + (toString n).length + 2
  let frame := (if nested == 1 then 4 else 0) + hdr + n + 2 + (if nested == 1 then 5 else 0)
  s!"ok {t} {n} {bigSum n seed} 42 {frame}"

def step (_ : Unit) (ws : List String) : Unit × String :=
  match ws with
  | ["!big", t, n, seed, nested] =>
    match t.toNat?, n.toNat?, seed.toNat?, nested.toNat? with
    | some t, some n, some sd, some ne => ((), bigAnswer t n sd ne)
    | _, _, _, _ => ((), "bad-op")
  | [op, sz, h] =>
    if op == "dec" || op == "!dec" then
      match sz.toNat?, Hex.decode h with
      | some n, some bs => ((), showDec bs.length (Resp.decode n bs))
      | _, _ => ((), "bad-op")
    else ((), "bad-op")
  | _ => ((), "bad-op")

def main : IO Unit := Hex.lineLoop () step
