import Rv.Model.Hex
import Rv.Model.Resp
open Rv

def showDec (total : Nat) : Res (Msg × List UInt8) → String
  | .ok (m, r) => "ok " ++ m.dump ++ " " ++ toString (total - r.length)
  | .err e => "err:" ++ e
  | .panic => "panic"
  | .oom => "oom"

def step (_ : Unit) (ws : List String) : Unit × String :=
  match ws with
  | [op, sz, h] =>
    if op == "dec" || op == "!dec" then
      match sz.toNat?, Hex.decode h with
      | some n, some bs => ((), showDec bs.length (Resp.decode n bs))
      | _, _ => ((), "bad-op")
    else ((), "bad-op")
  | _ => ((), "bad-op")

def main : IO Unit := Hex.lineLoop () step
