import Rv.Model.Hex
import Rv.Model.Hook
open Rv

def parsePath (s : String) : List String :=
  if s == "-" then [] else s.splitOn ","

/-- a trailing `ctx=live|done` word says whether the call gets an already cancelled context; neither the
    model (the wrapper bodies do not look at the context) nor the specification (the hook decides what
    to do with a done context) depends on it -/
def dropCtx (ws : List String) : List String :=
  match ws.getLast? with
  | some w => if w.startsWith "ctx=" then ws.dropLast else ws
  | none => ws

def step (_ : Unit) (ws0 : List String) : Unit × String :=
  let ws := dropCtx ws0
  match ws with
  | ["call", p, m, f] => ((), Hook.answer (parsePath p) m (f == "1"))
  | ["!call", p, m] =>  -- oracle line: the property, not the table
    if Hook.entryPoints.contains m then ((), Hook.specAnswer (parsePath p) m) else ((), "bad-op")
  -- `argc` (number of commands handed to DoMulti/DoMultiCache/DoMultiStream) does not occur in the model:
  -- the table says the wrapper bodies do not branch on their arguments
  | ["hook", m, _argc, p, f] => ((), Hook.answer (parsePath p) m (f == "1"))
  | ["!hook", m, _argc, p] =>
    if Hook.entryPoints.contains m then ((), Hook.specAnswer (parsePath p) m) else ((), "bad-op")
  | ["stack", d, m, _argc, p] => ((), Hook.stackAnswer (d.toNat?.getD 1) (parsePath p) m)
  | ["!stack", d, m, _argc, p] =>
    if Hook.entryPoints.contains m then ((), Hook.specStackAnswer (d.toNat?.getD 1) (parsePath p) m) else ((), "bad-op")
  | _ => ((), "bad-op")

def main : IO Unit := Hex.lineLoop () step
