import Rv.Model.Hex
import Rv.Model.Hook
open Rv

def parsePath (s : String) : List String :=
  if s == "-" then [] else s.splitOn ","

def step (_ : Unit) (ws : List String) : Unit × String :=
  match ws with
  | ["call", p, m, f] => ((), Hook.answer (parsePath p) m (f == "1"))
  | ["!call", p, m] =>  -- oracle line: the property, not the table
    if Hook.entryPoints.contains m then ((), Hook.specAnswer (parsePath p) m) else ((), "bad-op")
  -- `argc` (number of commands handed to DoMulti/DoMultiCache/DoMultiStream) does not occur in the model:
  -- the table says the wrapper bodies do not branch on their arguments
  | ["hook", m, _argc, p, f] => ((), Hook.answer (parsePath p) m (f == "1"))
  | ["!hook", m, _argc, p] =>
    if Hook.entryPoints.contains m then ((), Hook.specAnswer (parsePath p) m) else ((), "bad-op")
  | ["stack", d, m, _argc, p] => ((), Hook.stackAnswer (d.toNat?.getD 1) (parsePath p) m)
  | ["!stack", d, m, _argc, p] =>
    if Hook.entryPoints.contains m then ((), Hook.specStackAnswer (d.toNat?.getD 1) (parsePath p) m) else ((), "bad-op")
  | _ => ((), "bad-op")

def main : IO Unit := Hex.lineLoop () step
