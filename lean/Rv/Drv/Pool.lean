import Rv.Model.Hex
import Rv.Model.Pool
/-!
Driver for the `pool` and `callers` correspondence suites of C24 (harness/pool).

Ordinary lines are answered from the model `Rv.Pool.step` — every change of the pool
state below goes through `step` with the labels of Rv/Model/Pool.lean; this file only
adds the deterministic scheduling of the harness (one goroutine runs at a time, `Signal`
wakes the oldest waiter, a broadcast wakes all of them in queue order).
Lines starting with `!` are answered from the specification `Rv.Pool.Spec`.
-/
open Rv Rv.Pool

inductive Handout
  | wire (w : Nat)
  | dead      -- counted hand-out of the shared dead wire (failed dial)
  | deadU     -- shared dead wire handed out because the pool is down
  | ctx (kind : String)
  deriving Repr

def Handout.show : Handout → String
  | .wire w => s!"w{w}"
  | .dead => "dead"
  | .deadU => "dead"
  | .ctx k => s!"ctxdead:{k}"

inductive GSt
  | blocked
  | parked (item : String)
  | held (h : Handout)
  | stored (h : Handout)
  deriving Repr

structure G where
  id : Nat
  ctx : String
  script : List String
  st : GSt
  reported : Bool := false
  deriving Repr

structure Sim where
  cfg : Cfg := { cap := 1, minSize := 0 }
  st : St := {}
  gs : List G := []
  queue : List Nat := []
  ctxDone : List String := []
  expired : List Nat := []
  /-- a model transition that the schedule needs was not enabled -/
  stuck : Bool := false
  -- callers suite: the two pools of a client
  dp : St := {}
  sp : St := {}
  staleD : List Nat := []
  staleS : List Nat := []
  dialFailed : Bool := false
  deriving Repr

namespace Sim

def ctxIsDone (s : Sim) (c : String) : Bool := c == "done" || c == "dl" || s.ctxDone.contains c
def ctxKind (c : String) : String := if c == "dl" then "deadline" else "canceled"

def setG (s : Sim) (g : G) : Sim :=
  { s with gs := if s.gs.any (·.id == g.id) then s.gs.map (fun x => if x.id == g.id then g else x) else s.gs ++ [g] }

def getG (s : Sim) (id : Nat) : Option G := s.gs.find? (·.id == id)

/-- apply one model transition -/
def app (s : Sim) (op : Op) : Sim :=
  match step s.cfg s.st op with
  | some st' => { s with st := st' }
  | none => { s with stuck := true }

inductive Mode
  | loop
  | make (item : String)

def enqueue (s : Sim) (id : Nat) : Sim := { s with queue := s.queue ++ [id] }

/-- run goroutine `g` from the label `retry` (or from the return of `makeFn`) until it
    returns, blocks in `cond.Wait` or parks inside a held `makeFn` call. -/
def go : Nat → Sim → G → Mode → Sim
  | 0, s, _, _ => { s with stuck := true }
  | fuel + 1, s, g, .loop =>
    let live := !s.ctxIsDone g.ctx
    if exhausted s.cfg s.st && live then
      (s.setG { g with st := .blocked }).enqueue g.id
    else if !live then
      (s.app .acqCtxDead).setG { g with st := .held (.ctx (ctxKind g.ctx)) }
    else if s.st.down then
      (s.app .acqDown).setG { g with st := .held .deadU }
    else match s.st.list with
      | [] =>
        let s1 := s.app .acqNew
        match g.script with
        | [] => go fuel s1 g (.make "ok")
        | item :: rest =>
          if item.startsWith "h:" then s1.setG { g with script := rest, st := .parked (item.drop 2).toString }
          else go fuel s1 { g with script := rest } (.make item)
      | w :: _ =>
        let ok := !s.expired.contains w
        let s1 := s.app (.acqPop ok)
        if s1.st.out.contains w then s1.setG { g with st := .held (.wire w) }
        else go fuel s1 g .loop
  | fuel + 1, s, g, .make item =>
    let w := s.st.next
    if item == "dead" then (s.app .makeDead).setG { g with st := .held .dead }
    else if item == "exp" then go fuel ((s.app (.makeRet true false)).app (.dropFresh w)) g .loop
    else if item == "err" then (s.app (.makeRet false true)).setG { g with st := .held (.wire w) }
    else (s.app (.makeRet true true)).setG { g with st := .held (.wire w) }

def fuel : Nat := 200

/-- wake the given waiters one after the other -/
def wake (s : Sim) (ids : List Nat) : Sim :=
  ids.foldl (fun s id =>
    match s.getG id with
    | some g => go fuel { s with queue := s.queue.erase id } g .loop
    | none => s) s

def signal (s : Sim) : Sim :=
  match s.queue with
  | [] => s
  | id :: _ => s.wake [id]

def broadcast (s : Sim) : Sim := s.wake s.queue

def showList (xs : List Nat) : String :=
  if xs.isEmpty then "-" else ",".intercalate (xs.map toString)

def sortDedup (xs : List Nat) : List Nat :=
  (List.range (xs.foldl max 0 + 1)).filter (xs.contains ·)

def snapshot (s : Sim) : String :=
  let d := if s.st.down then "1" else "0"
  let closed := if s.st.closed.isEmpty then [] else sortDedup s.st.closed
  s!"size={s.st.size} idle={showList s.st.list.reverse} down={d} closed={showList closed} waiters={s.queue.length}"

/-- events of this op: goroutines that returned (not yet reported), plus the state of `self` -/
def events (s : Sim) (self : Option Nat) : Sim × String :=
  let ev := s.gs.filterMap fun g =>
    match g.st with
    | .held h => if g.reported then none else some s!"g{g.id}={h.show}"
    | .stored h => if g.reported then none else some s!"g{g.id}={h.show}"
    | .blocked => if self == some g.id then some s!"g{g.id}=blocked" else none
    | .parked _ => if self == some g.id then some s!"g{g.id}=inmake" else none
  let gs := s.gs.map fun g => match g.st with
    | .held _ | .stored _ => { g with reported := true }
    | _ => g
  ({ s with gs := gs }, if ev.isEmpty then "-" else " ".intercalate ev)

def answer (s : Sim) (self : Option Nat) : Sim × String :=
  let (s1, ev) := s.events self
  let ev := if s1.stuck then ev ++ " model-stuck" else ev
  (s1, ev ++ " | " ++ s1.snapshot)

end Sim

def natOf (s : String) (pre : String) : Option Nat :=
  if s.startsWith pre then (s.drop pre.length).toNat? else none

def intOf (s : String) (pre : String) : Option Int :=
  if s.startsWith pre then (s.drop pre.length).toInt? else none

def kv (ws : List String) (key : String) : Option Int :=
  ws.findSome? fun w => intOf w (key ++ "=")

/-! ### callers suite: each line is one complete call, mapped to model transitions -/

/-- `Acquire` with a live context on a pool where it never has to wait (complete calls,
    nothing else is held): pop bad idle wires, hand out a good one or dial one. With
    `dialFails` the dial returns the shared dead wire (`none` = that dead wire was handed out). -/
def acquireNow : Nat → Cfg → St → Bool → Option (St × Option Nat)
  | 0, _, _, _ => none
  | fuel + 1, c, s, dialFails =>
    match s.list with
    | [] => do
      let s1 ← step c s .acqNew
      if dialFails then
        let s2 ← step c s1 .makeDead
        pure (s2, none)
      else
        let s2 ← step c s1 (.makeRet true true)
        pure (s2, some s.next)
    | w :: _ => do
      let s1 ← step c s (.acqPop true)
      if s1.out.contains w then pure (s1, some w) else acquireNow fuel c s1 dialFails

/-- a complete call on one pool: `fate` = what happens to the wire while it is held. -/
inductive Fate | fine | failed | untouched
  deriving DecidableEq

/-- returns the new pool state and whether the wire that was used turned out stale
    (closed by the server while idle: it looks healthy until it is used) -/
def callOn (c : Cfg) (s : St) (stale : List Nat) (ctxDone : Bool) (fate : Fate) (dialFails : Bool := false) :
    Option (St × Bool × Bool) :=
  if ctxDone then do
    let s1 ← step c s .acqCtxDead
    let s2 ← step c s1 .storeCtx
    pure (s2, false, false)
  else if s.down then do
    -- Acquire hands out the shared dead wire, the caller stores it
    let s1 ← step c s .acqDown
    let s2 ← step c s1 .storeDeadU
    pure (s2, false, false)
  else do
    let (s1, w?) ← acquireNow 64 c s dialFails
    match w? with
    | none => do
      -- failed dial: the counted shared dead wire was handed out; every caller stores it
      -- (mux.blocking / release directly, the stream callers through pipe.DoStream on the dead pipe)
      let s2 ← step c s1 .storeDead
      pure (s2, true, true)
    | some w =>
    let isStale := stale.contains w
    if fate == .untouched then
      let s2 ← run c s1 (streamEarlyReturn w)
      pure (s2, false, false)
    else
      let s2 ← run c s1 (useAndStore w (isStale || fate == .failed))
      pure (s2, isStale, false)

def poolShow (s : St) : String :=
  s!"{s.size}/{s.list.length}/{if s.down then 1 else 0}"

def callersSnap (s : Sim) : String := s!"d={poolShow s.dp} s={poolShow s.sp}"

def callersAnswer (s : Sim) (res : String) : Sim × String :=
  (s, (if s.stuck then res ++ " model-stuck" else res) ++ " | " ++ callersSnap s)

/-- one row per harness op: pool (true = blocking/dedicated pool), done context, fate of the
    wire, and the client's result when all is well / the wire was stale / the client is closed.
    The results are fixed by the fake server's script, not by the pool. -/
def callersTable : List (List String × Bool × Bool × Fate × String × String × String) := [
  (["block", "ok"], true, false, .fine, "nil", "err:io", "err:closing"),
  (["block", "fail"], true, false, .failed, "err:eof", "err:io", "err:closing"),
  (["block", "ctxdone"], true, true, .fine, "err:canceled", "err:canceled", "err:canceled"),
  (["block", "multi"], true, false, .fine, "ok,nil", "err:io,err:io", "err:closing,err:closing"),
  (["block", "multifail"], true, false, .failed, "err:eof,err:eof", "err:io,err:io", "err:closing,err:closing"),
  (["block", "multictxdone"], true, true, .fine, "err:canceled,err:canceled", "err:canceled,err:canceled", "err:canceled,err:canceled"),
  (["stream", "ok"], false, false, .fine, "ok", "none:err:io", "none:err:closing"),
  (["stream", "fail"], false, false, .failed, "err:eof", "none:err:io", "none:err:closing"),
  (["stream", "ctxdone"], false, true, .fine, "none:err:canceled", "none:err:canceled", "none:err:canceled"),
  (["stream", "multictxdone"], false, true, .fine, "none:err:canceled", "none:err:canceled", "none:err:canceled"),
  (["stream", "flip"], false, false, .untouched, "none:err:canceled", "none:err:canceled", "none:err:canceled"),
  (["stream", "multiflip"], false, false, .untouched, "none:err:canceled", "none:err:canceled", "none:err:canceled"),
  (["stream", "multi"], false, false, .fine, "ok,ok,ok", "none:err:io", "none:err:closing"),
  (["stream", "badwriter"], false, false, .fine, "err:io,err:io", "none:err:io", "none:err:closing"),
  (["dedicated", "ok"], true, false, .fine, "ok,ok", "err:io,ok", "err:closing,ok"),
  (["dedicated", "fail"], true, false, .failed, "err:eof,ok", "err:io,ok", "err:closing,ok"),
  (["dedicate", "ok"], true, false, .fine, "ok", "err:io", "err:closing"),
  (["dedicate", "fail"], true, false, .failed, "err:eof", "err:io", "err:closing")]

def callers (s : Sim) (ws : List String) : Option (Sim × String) :=
  if ws == ["stale"] then
    -- the server closes its end of every pool connection: all idle wires are stale now
    some (callersAnswer { s with staleD := s.dp.list ++ s.staleD, staleS := s.sp.list ++ s.staleS } "ok")
  else
  -- "<op> …dialfail": the same call, but a dial (if one is needed) fails; the client then
  -- reports the dial error, which falls into the same class as a write on a stale wire
  let (ws', dialFails) := match ws with
    | [op, "dialfail"] => ([op, "ok"], true)
    | [op, "multidialfail"] => ([op, "multi"], true)
    | _ => (ws, false)
  match callersTable.find? (·.1 == ws') with
  | none => none
  | some (_, onD, ctxDone, fate, rOk, rStale, rClosed) =>
    let pool := if onD then s.dp else s.sp
    let stale := if onD then s.staleD else s.staleS
    match callOn s.cfg pool stale ctxDone fate dialFails with
    | none => some (callersAnswer { s with stuck := true } rOk)
    | some (p', wasStale, dialFailed) =>
      let s1 := if onD then { s with dp := p' } else { s with sp := p' }
      let s1 := { s1 with dialFailed := s1.dialFailed || dialFailed }
      -- makeMux's wireFn stores the dial error into the mux's shared dead wire, so once a dial
      -- has failed that error (not ErrClosing) is what a closed client reports
      let res := if ctxDone then rOk else if pool.down then (if s.dialFailed then rStale else rClosed)
                 else if wasStale then rStale else rOk
      some (callersAnswer s1 res)

def step' (s : Sim) (ws : List String) : Sim × String :=
  match ws with
  -- ---------------- oracle lines: the specification ----------------
  | "!bounded" :: rest =>
    match kv rest "cap", kv rest "live", kv rest "making" with
    | some c, some l, some m => (s, if Spec.boundedOk c l m then "ok" else "violated")
    | _, _, _ => (s, "bad-op")
  | "!accounting" :: rest =>
    match kv rest "size", kv rest "out", kv rest "making", kv rest "idle", kv rest "down" with
    | some sz, some o, some m, some i, some d => (s, if Spec.accountingOk sz o m i (d != 0) then "ok" else "violated")
    | _, _, _, _, _ => (s, "bad-op")
  | "!exclusive" :: rest =>
    match kv rest "shared" with
    | some n => (s, if n == 0 then "ok" else "violated")
    | none => (s, "bad-op")
  | "!settled" :: rest =>
    match kv rest "dsize", kv rest "didle", kv rest "ddown", kv rest "ssize", kv rest "sidle", kv rest "sdown", kv rest "open", kv rest "base" with
    | some a, some b, some c, some d, some e, some f, some o, some base =>
      (s, if Spec.settledOk a b (c != 0) && Spec.settledOk d e (f != 0) &&
             o == base + (if c != 0 then 0 else b) + (if f != 0 then 0 else e) then "ok" else "violated")
    | _, _, _, _, _, _, _, _ => (s, "bad-op")
  -- a waiter whose context became done must come back with the dead wire of its context
  | ["!race-latectx", _] => (s, "returned ctxdead:deadline")
  -- idle cleanup racing with Store: `Rv.C24.returned_or_closed` (no wire lost), idle wires are
  -- not closed while the pool is up, `bounded`, `settled`
  | "!race-cleanup" :: _ => (s, "lost=0 idleclosed=0 over=0 size-idle=0")
  | ["!race-cancel", _] => (s, "stuck=0")
  | ["!race-store", _] => (s, "stuck=0 wrong=0")
  -- ---------------- source shape of Acquire (race suite) ----------------
  | ["shape", "wait-loop-cond"] => (s, PoolWait.Shape.waitLoopCond)
  | ["shape", "wait-loop-body"] => (s, PoolWait.Shape.waitLoopBody)
  | ["shape", "setup-cond"] => (s, PoolWait.Shape.setupCond)
  | ["shape", "broadcast-under-mutex"] => (s, PoolWait.Shape.broadcastUnderMutex PoolWait.repaired)
  -- ---------------- pool suite ----------------
  | "reset" :: rest =>
    let cap := ((kv rest "cap").getD 1).toNat
    match kv rest "min" with
    | some m =>
      let s1 : Sim := { cfg := { cap := cap, minSize := m.toNat } }
      s1.answer none
    | none =>
      -- callers suite: a client with two pools
      let s1 : Sim := { cfg := { cap := cap, minSize := 0 } }
      callersAnswer s1 "ok"
  | ["acq", g, c, mk] =>
    match natOf g "g" with
    | some id =>
      let ctx := (c.drop 4).toString
      let script := if mk == "mk=-" then [] else (mk.drop 3).toString.splitOn ","
      let gg : G := { id := id, ctx := ctx, script := script, st := .blocked }
      (Sim.go Sim.fuel (s.setG gg) gg .loop).answer (some id)
    | none => (s, "bad-op")
  | ["release", g] =>
    match (natOf g "g").bind s.getG with
    | some gg =>
      match gg.st with
      | .parked item => (Sim.go Sim.fuel s gg (.make item)).answer (some gg.id)
      | _ => (s, "bad-op")
    | none => (s, "bad-op")
  | ["store", g] =>
    match (natOf g "g").bind s.getG with
    | some gg =>
      match gg.st with
      | .held h =>
        let op := match h with
          | .wire w => Op.store w
          | .dead => Op.storeDead
          | .deadU => Op.storeDeadU
          | .ctx _ => Op.storeCtx
        (((s.app op).setG { gg with st := .stored h }).signal).answer none
      | _ => (s, "bad-op")
    | none => (s, "bad-op")
  | ["closew", g] =>
    match (natOf g "g").bind s.getG with
    | some gg =>
      match gg.st with
      | .held (.wire w) => (s.app (.closeWire w)).answer none
      | .held _ => s.answer none
      | _ => (s, "bad-op")
    | none => (s, "bad-op")
  | ["break", w] =>
    match natOf w "w" with
    | some id => if id < s.st.next then (s.app (.breakWire id)).answer none else (s, "bad-op")
    | none => (s, "bad-op")
  | ["expire", w] =>
    match natOf w "w" with
    | some id => if id < s.st.next then ({ s with expired := id :: s.expired }).answer none else (s, "bad-op")
    | none => (s, "bad-op")
  | ["cancel", c] =>
    let s1 := { s with ctxDone := c :: s.ctxDone }
    -- the cancellation goroutine of every waiter on this context broadcasts
    let hit := s1.queue.any fun id => match s1.getG id with
      | some g => g.ctx == c
      | none => false
    (if hit then s1.broadcast else s1).answer none
  | ["close"] => ((s.app .close).broadcast).answer none
  | ["idle"] => (s.app .removeIdle).answer none
  | _ =>
    match callers s ws with
    | some r => r
    | none => (s, "bad-op")

/-- `close` belongs to both suites: the callers suite closes both pools of the client. The
    suite is recognised by the `reset` line (`min=` only in the pool suite). -/
structure DrvSt where
  sim : Sim := {}
  callersMode : Bool := false

def stepLine (d : DrvSt) (ws : List String) : DrvSt × String :=
  match ws with
  | "reset" :: rest =>
    let cm := (kv rest "min").isNone
    let (s, out) := step' d.sim ws
    ({ sim := s, callersMode := cm }, out)
  | ["close"] =>
    if d.callersMode then
      let s := d.sim
      match step s.cfg s.dp .close, step s.cfg s.sp .close with
      | some a, some b =>
        let s1 := { s with dp := a, sp := b }
        let (s2, out) := callersAnswer s1 "ok"
        ({ d with sim := s2 }, out)
      | _, _ => (d, "bad-op")
    else
      let (s, out) := step' d.sim ws
      ({ d with sim := s }, out)
  | _ =>
    let (s, out) := step' d.sim ws
    ({ d with sim := s }, out)

def main : IO Unit := Hex.lineLoop ({} : DrvSt) stepLine
