/-
Driver for the `luaexec` correspondence suite (C30): answers each op line from the model
Rv.LuaExec (ordinary lines) or from the specification Rv.LuaExec.Spec (`!` lines).
-/
import Rv.Model.Hex
import Rv.Model.LuaExec
open Rv Rv.LuaExec

def field (ws : List String) (name : String) : Option String :=
  ws.findSome? fun w =>
    if w.startsWith (name ++ "=") then some (String.ofList (w.toList.drop (name.length + 1))) else none

def splitL (s sep : String) : List String := if s == "_" || s == "" then [] else s.splitOn sep

def joinL (xs : List String) (sep : String) : String := if xs.isEmpty then "_" else sep.intercalate xs

def bytesList (s : String) : Option (List Bytes) := (splitL s ",").mapM Hex.decode

def tail (w : String) (n : Nat) : String := String.ofList (w.toList.drop n)

def parseReply (w : String) : Option Reply :=
  if w == "n" then some .nil
  else if w.startsWith "s:" then (Hex.decode (tail w 2)).map .str
  else if w.startsWith "e:" then (Hex.decode (tail w 2)).map .rerr
  else if w.startsWith "x:" then (Hex.decode (tail w 2)).map .io
  else if w.startsWith "i:" then (tail w 2).toInt?.map .int
  else none

def flag (ws : List String) (name : String) : Option Bool :=
  (field ws name).map (· == "1")

def str (s : String) : Bytes := s.toUTF8.toList

def kindWords : Kind → List Bytes
  | .scriptLoad => [str "SCRIPT", str "LOAD"]
  | .evalsha => [str "EVALSHA"]
  | .evalshaRo => [str "EVALSHA_RO"]
  | .eval => [str "EVAL"]
  | .evalRo => [str "EVAL_RO"]

def showCmd (c : Cmd) : String :=
  (if c.retry then "R" else "-") ++ ":" ++ joinL ((kindWords c.kind ++ c.args).map Hex.encode) ","

def showReply : Reply → String
  | .str s => "s:" ++ Hex.encode s
  | .int n => "i:" ++ toString n
  | .nil => "n"
  | .rerr t => "e:" ++ Hex.encode (trimErr t)
  | .io t => "x:" ++ Hex.encode t

def showRes : Res → String
  | .reply r => showReply r
  | .eRedis t => "E:" ++ Hex.encode t
  | .eNil => "EN"
  | .zero => "z"

structure St where
  cfg : Option Cfg := none
  sha : Bytes := []
  specLoaded : Bool := false

def parseKind (s : String) : Option Kind :=
  if s == "SCRIPTLOAD" then some .scriptLoad
  else if s == "EVALSHA" then some .evalsha
  else if s == "EVALSHA_RO" then some .evalshaRo
  else if s == "EVAL" then some .eval
  else if s == "EVAL_RO" then some .evalRo
  else none

def parseCls (s : String) : Option Spec.Cls :=
  if s == "ok" then some .ok
  else if s == "empty" then some .empty
  else if s == "noscript" then some .noscript
  else if s == "other" then some .other
  else none

def parseEv (w : String) : Option Spec.Ev :=
  match w.splitOn "." with
  | [k, c] => do pure ⟨← parseKind k, ← parseCls c⟩
  | _ => none

def parseMulti (s : String) : Option (List (List Bytes × List Bytes)) :=
  (splitL s "|").mapM fun m =>
    match m.splitOn "/" with
    | [k, a] => do pure (← bytesList k, ← bytesList a)
    | _ => none

/-- `conc n fail`: n concurrent first Exec calls on a WithLoadSHA1 script while the server
    fails the first `fail` SCRIPT LOADs: under the lock protocol each caller that still sees an
    empty SHA-1 loads once; the first success ends all loading. -/
def concAnswer (n fail : Nat) : String :=
  let loads := min n (fail + 1)
  let errs := min n fail
  s!"loads={loads} errs={errs} oks={n - errs}"

def step (st : St) (ws : List String) : St × String :=
  match ws with
  | "reset" :: rest =>
    match (do
      let ro ← flag rest "ro"; let nosha ← flag rest "nosha"; let load ← flag rest "load"
      let retry ← flag rest "retry"
      let script ← (field rest "script").bind Hex.decode
      let sha ← (field rest "sha").bind Hex.decode
      pure (Cfg.mk ro nosha load retry script sha)) with
    | some c => ({ cfg := some c, sha := initSha c, specLoaded := false }, "ok")
    | none => (st, "bad-op")
  | "exec" :: rest =>
    match st.cfg, (do
      let k ← (field rest "k").bind bytesList
      let a ← (field rest "a").bind bytesList
      let rs ← (field rest "srv").bind fun s => (splitL s ";").mapM parseReply
      pure (k, a, rs)) with
    | some c, some (k, a, rs) =>
      let o := exec c st.sha k a scripted rs
      ({ st with sha := o.sha },
        "log=" ++ joinL (o.trace.map fun p => "D" ++ showCmd p.1) ";" ++ " res=" ++ showRes o.res)
    | _, _ => (st, "bad-op")
  | "multi" :: rest =>
    match st.cfg, (do
      let nodes ← (field rest "nodes").bind fun s => (splitL s ";").mapM parseReply
      let m ← (field rest "m").bind parseMulti
      let rs ← (field rest "srv").bind fun s => (splitL s ";").mapM parseReply
      pure (nodes, m, rs)) with
    | some c, some (nodes, m, rs) =>
      let o := execMulti c st.sha nodes m (fun cmds => (List.range cmds.length).map fun i => rs.getD i eofReply)
      ({ st with sha := o.sha },
        "nodes=" ++ joinL (o.nodeCmds.map showCmd) "|" ++
        " log=" ++ (match o.batch with
          | some cs => "M[" ++ joinL (cs.map showCmd) "+" ++ "]"
          | none => "_") ++
        " res=" ++ joinL (o.res.map showRes) ";")
    | _, _ => (st, "bad-op")
  | "conc" :: rest =>
    match (field rest "n").bind String.toNat?, (field rest "fail").bind String.toNat? with
    | some n, some f => (st, concAnswer n f)
    | _, _ => (st, "bad-op")
  | "!trace" :: rest =>   -- oracle: the specification evaluated on the observed log
    match st.cfg, (field rest "log").bind (fun s => (splitL s ",").mapM parseEv), field rest "runs" with
    | some c, some log, some runs =>
      let okRuns := match runs.toNat? with | some n => n ≤ 1 | none => true
      let ok := Spec.execOk c.ro c.nosha c.load st.specLoaded log && okRuns
      ({ st with specLoaded := Spec.loadedAfter st.specLoaded log },
        if ok then "ok" else "violates-C30")
    | _, _, _ => (st, "bad-op")
  | "!exec" :: rest =>   -- oracle: body executions of one Exec, from the specification
    match st.cfg, (field rest "runs").bind String.toNat?, (field rest "resend").bind String.toNat? with
    | some c, some runs, some resend =>
      (st, if Spec.bodyRunsOk c.ro c.retry (resend != 0) runs then "ok" else "violates-C30:body-executed-twice")
    | _, _, _ => (st, "bad-op")
  | "!multilen" :: rest =>  -- oracle: one result per LuaExec
    match field rest "n" with
    | some n => (st, n)
    | none => (st, "bad-op")
  | "!multifail" :: rest =>  -- oracle: SCRIPT LOAD failed on a node => every LuaExec fails, no batch
    match field rest "n" with
    | some n => (st, n ++ " sent=0")
    | none => (st, "bad-op")
  | _ => (st, "bad-op")

def main : IO Unit := Hex.lineLoop ({} : St) step
