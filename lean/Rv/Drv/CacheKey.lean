import Rv.Model.Hex
import Rv.Model.CacheKey
open Rv Rv.CacheKey

def splitSlash (ws : List String) : List String × List String :=
  (ws.takeWhile (· ≠ "/"), (ws.dropWhile (· ≠ "/")).drop 1)

/-- `<scr> <hex>*` -/
def parseCmd (ws : List String) : Option (Bool × List (List UInt8)) :=
  match ws with
  | f :: as => match as.mapM Hex.decode with
    | some s => some (f == "1", s)
    | none => none
  | [] => none

def showPair : Res (List UInt8 × List UInt8) → String
  | .ok (k, c) => Hex.encode k ++ " " ++ Hex.encode c
  | .err e => "err:" ++ e
  | .panic => "panic"
  | .oom => "oom"

/-- do two commands share an entry? `lru`: same (key, cmd) pair (so also the same adapter address);
    `adapter`: different pairs, same `key ++ cmd`; `none`; `same`: it is the same command -/
def collide (a b : Bool × List (List UInt8)) : String :=
  if a.2 == b.2 then "same" else
  match cacheKey a.1 a.2, cacheKey b.1 b.2 with
  | .ok (k, c), .ok (k', c') =>
    if k == k' && c == c' then "lru"
    else if adapterAddr k c == adapterAddr k' c' then "adapter"
    else "none"
  | _, _ => "panic"

def step (_ : Unit) (ws : List String) : Unit × String :=
  match ws with
  | "ck" :: rest =>
    match parseCmd rest with
    | some (f, s) => ((), showPair (cacheKey f s))
    | none => ((), "bad-op")
  | ["reset"] => ((), "ok")
  | "use" :: _ :: rest =>   -- the identity is a pure function of the argv: no state carries over between commands
    match parseCmd rest with
    | some (f, s) => ((), showPair (cacheKey f s))
    | none => ((), "bad-op")
  | "addr" :: rest =>
    match parseCmd rest with
    | some (f, s) => match cacheKey f s with
      | .ok (k, c) => ((), Hex.encode (adapterAddr k c))
      | _ => ((), "panic")
    | none => ((), "bad-op")
  | "mg" :: i :: as =>
    match i.toNat?, as.mapM Hex.decode with
    | some n, some s => match mgetCacheKey s n, mgetCacheCmd s with
      | .ok k, .ok c => ((), Hex.encode k ++ " " ++ Hex.encode c)
      | _, _ => ((), "panic")
    | _, _ => ((), "bad-op")
  | "pair" :: rest =>
    let (x, y) := splitSlash rest
    match parseCmd x, parseCmd y with
    | some a, some b => ((), collide a b)
    | _, _ => ((), "bad-op")
  | _ => ((), "bad-op")

def main : IO Unit := Hex.lineLoop () step
