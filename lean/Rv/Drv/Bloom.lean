import Rv.Model.Hex
import Rv.Model.Bloom
open Rv Rv.Bloom Rv.BloomFmt

structure DS where
  cfg : Cfg := ⟨1, 1⟩
  ro : Bool := false
  st : St := St.init
  added : List (Nat × Nat) := []   -- specification state for `!exists`

def existsName (d : DS) : String := if d.ro then "bfexistsro" else "bfexists"

def glueExists (d : DS) (keys : List (Nat × Nat)) : String × String :=
  match existsMulti d.cfg keys d.st with
  | .nil => ("nil", "")
  | .panic => ("panic", "")
  | .ok r =>
    let idxs := allIdx d.cfg.m d.cfg.k keys
    let argv := ((existsMultiTrace d.cfg keys d.st).2).getD []
    (boolsAns r, " " ++ call (existsName d) "@" (natsC argv) (boolsReply (existsScript d.cfg.k idxs d.st.bits)))

def stepBase (d : DS) (ws : List String) : DS × String :=
  match ws with
  | ["reset", m, k, ro, _, _] =>
    match m.toNat?, k.toNat? with
    | some m, some k => ({ cfg := ⟨m, k⟩, ro := ro == "ro=1" }, "ok")
    | _, _ => (d, "bad-op")
  | ["idx", a, b, i, m] =>
    match parseNats [a, b, i, m] with
    | some [a, b, i, m] => (d, toString (indexGo a b i m))
    | _ => (d, "bad-op")
  | ["!idx", a, b, i, m] =>   -- oracle: the formula of the property statement
    match parseNats [a, b, i, m] with
    | some [a, b, i, m] => (d, toString (((a + i * b) % 2 ^ 64) % m))
    | _ => (d, "bad-op")
  | ["new", nl, rc, bits, _, _, _] =>
    match nl.toNat?, rc.toInt?, bits.toNat? with
    | some nl, some rc, some bits =>
      match newBloomFilter nl rc bits 0 with
      | .ok _ => (d, "ok")
      | .error e => (d, "err:" ++ (match e with
          | .emptyName => "emptyName" | .rateLeZero => "rateLeZero" | .rateGtOne => "rateGtOne"
          | .bitsZero => "bitsZero" | .bitsTooLarge => "bitsTooLarge"))
    | _, _, _ => (d, "bad-op")
  | ["!cfg", m, k, _, _, _] =>          -- oracle: an accepted configuration must be usable
    match m.toNat?, k.toNat? with
    | some m, some k => (d, if 1 ≤ m ∧ 1 ≤ k then "ok" else "unusable")
    | _, _ => (d, "bad-op")
  -- script level
  | "s.add" :: k :: is =>
    match k.toNat?, parseNats is with
    | some k, some is =>
      let r := addScript k is d.st
      ({ d with st := r.1 }, ":" ++ toString r.2)
    | _, _ => (d, "bad-op")
  | "s.exists" :: k :: is =>
    match k.toNat?, parseNats is with
    | some k, some is => (d, boolsReply (existsScript k is d.st.bits))
    | _, _ => (d, "bad-op")
  | ["s.reset"] => ({ d with st := resetScript d.st }, ":1")
  | ["s.delete"] => ({ d with st := deleteScript d.st }, ":1")
  | ["s.get"] => (d, match d.st.counter with | none => "_" | some c => "$" ++ toString c)
  -- glue level
  | "add" :: items =>
    match items.mapM parseItem with
    | some keys =>
      match addMultiTrace d.cfg keys d.st with
      | (_, none) => (d, "ok")
      | (s', some argv) =>
        ({ d with st := s', added := keys ++ d.added },
          "ok " ++ call "bfadd" "@,@:c" (natsC argv) (":" ++ toString (count s')))
    | none => (d, "bad-op")
  | "exists" :: items =>
    match items.mapM parseItem with
    | some keys => let r := glueExists d keys; (d, r.1 ++ r.2)
    | none => (d, "bad-op")
  | ["exists1", item] =>
    match parseItem item with
    | some key =>
      match existsMulti d.cfg [key] d.st with
      | .ok (b :: _) => (d, (if b then "1" else "0") ++ (glueExists d [key]).2)
      | _ => (d, "panic")
    | none => (d, "bad-op")
  | ["!exists", item] =>       -- oracle: the specification (set membership), not the model
    match parseItem item with
    | some key => (d, match specExists d.added key with | some true => "1" | some false => "0" | none => "unconstrained")
    | none => (d, "bad-op")
  | ["count"] =>
    (d, toString (count d.st) ++ " " ++ call "get" "@:c" "" (match d.st.counter with | none => "_" | some c => "$" ++ toString c))
  | ["greset"] => ({ d with st := resetScript d.st, added := [] }, "ok " ++ call "bfreset" "@,@:c" "" ":1")
  | ["gdelete"] => ({ d with st := deleteScript d.st, added := [] }, "ok " ++ call "bfdelete" "@,@:c" "" ":1")
  | _ => (d, "bad-op")

/-- `overlap <opA…> / <opB…>`: opA was parked in the client before its arguments were read while opB
ran to completion, so the server executed opB first; the model's answer for each is the ordinary one
(the arguments of a call depend on its own items only, `Rv.C35.argv_depends_only_on_item`). -/
def step (d : DS) (ws : List String) : DS × String :=
  match ws with
  | "overlap" :: rest =>
    let a := rest.takeWhile (· != "/")
    let b := (rest.dropWhile (· != "/")).drop 1
    let r1 := stepBase d b
    let r2 := stepBase r1.1 a
    (r2.1, r2.2 ++ " | " ++ r1.2)
  | _ => stepBase d ws

def main : IO Unit := Hex.lineLoop ({} : DS) step
