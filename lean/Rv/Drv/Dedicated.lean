import Rv.Model.Hex
import Rv.Model.Dedicated
open Rv Rv.Dedicated

def b01 (b : Bool) : String := if b then "1" else "0"

def showCall : Call → Option String
  | .wDo => some "do"
  | .wMulti n => some s!"multi:{n}"
  | .wReceive => some "receive"
  | .wGetHooks => none            -- not logged by the harness wire
  | .wSetHooks h => some s!"sethooks:{b01 h.msg},{b01 h.sub},{b01 h.inv}"
  | .wClean => some "clean"
  | .wTrackingOff => some "trackingoff"
  | .wClose => some "close"
  | .poolStore => none            -- observed through wire reuse only
  | .poolDiscard => some "close"   -- the pool closes a broken wire instead of keeping it

def showRet : Ret → String
  | .ok => "ok"
  | .recycled => "recycled"
  | .void => "void"
  | .nilEmpty => "nilempty"

def answer (r : St × List Call × Ret) : St × String :=
  let cs := r.2.1.filterMap showCall
  (r.1, showRet r.2.2 ++ " " ++ (if cs.isEmpty then "-" else " ".intercalate cs))

def parseTok (w : String) : Tok :=
  if w == "m" then .mine else if w == "c" then .cleanup else if w == "t" then .tx else .other

structure DSt where
  st : St := {}
  cst : CSt := {}

def canswer (r : CSt × List Call × Ret) : CSt × String :=
  let cs := r.2.1.filterMap showCall
  (r.1, showRet r.2.2 ++ " " ++ (if cs.isEmpty then "-" else " ".intercalate cs))

def cstepLine (cst : CSt) (ws : List String) : Option (CSt × String) :=
  match ws with
  | ["creset"] => some ({}, "ok")
  | ["cdo"] => some (canswer (cstep cst .do_))
  | ["cmulti", n] => some (canswer (cstep cst (.doMulti (n.toNat?.getD 0))))
  | ["creceive"] => some (canswer (cstep cst .receive))
  | ["csethooks", m, s] => some (canswer (cstep cst (.setHooks { msg := m == "1", sub := s == "1" })))
  | ["csetinv", on] => some (canswer (cstep cst (.setInv (on == "1"))))
  | ["cclose"] => some (canswer (cstep cst .close))
  | ["crelease"] => some (canswer (cstep cst .release))
  | _ => none

def step0 (st : St) (ws : List String) : St × String :=
  match ws with
  | ["reset"] => ({}, "ok")
  | ["do"] => answer (Dedicated.step st .do_)
  | ["multi", n] => answer (Dedicated.step st (.doMulti (n.toNat?.getD 0)))
  | ["receive"] => answer (Dedicated.step st .receive)
  | ["sethooks", m, s] => answer (Dedicated.step st (.setHooks { msg := m == "1", sub := s == "1" }))
  | ["setinv", on] => answer (Dedicated.step st (.setInv (on == "1")))
  | ["close"] => answer (Dedicated.step st .close)
  | ["release"] => answer (Dedicated.step st .release)
  | ["clean", blk, state, ver, inv] =>
    -- commands mux.Store puts on the wire: CleanSubscriptions' decision, then CLIENT TRACKING OFF
    let c := match cleanSubscriptions (blk == "1") (state.toNat?.getD 0) (ver.toNat?.getD 0) with
      | .closePipe => ["<close>"]
      | .cmds cs => cs
      | .nothing => []
    (st, " ".intercalate (c ++ (if inv == "1" then ["CLIENT_TRACKING_OFF"] else [])))
  | "retry" :: meth :: delays =>
    -- model: the retry loop with what happened during each delay (n nothing | r release | c close)
    let m : Meth := if meth == "do" then .do_ else if meth == "multi" then .doMulti 2 else .receive
    let ds : List Between := delays.map fun w => if w == "r" then .release else if w == "c" then .close else .nothing
    let r := retryLoop m {} ds
    (st, showRet r.2.2 ++ s!" passes={(r.2.1.filter (· == m.call)).length}")
  | "!retry" :: _ :: delays =>
    -- specification: nothing issued through the handle reaches the server once it was released
    let k := (delays.takeWhile (· == "n")).length
    (st, if k == delays.length then s!"ok passes={k + 1}" else s!"recycled passes={k + 1}")
  | "!iso" :: needs :: toks => (st, if isoOK (needs == "needs=1") (toks.map parseTok) then "ok" else "VIOLATION:not-isolated")
  | _ => (st, "bad-op")

def step (d : DSt) (ws : List String) : DSt × String :=
  match ws with
  | "!cstale" :: meth :: _ =>
    -- specification: every method of a released cluster dedicated client answers the recycled error
    -- (Close is void), the next session keeps its hooks and receives its message
    (d, (if meth == "close" then "void" else "recycled") ++ " next-session=intact")
  | ["blocking", early] =>
    -- model: is the wire of a shared-client blocking call still in the pool afterwards
    (d, if blockingKeepsWire (early == "early=1") then "kept" else "discarded")
  | "!fresh" :: _ =>
    -- specification: a connection handed to a dedicated client has no command of anybody else pending
    (d, "pending=0 served=ok")
  | "cret" :: rest =>
    -- end-to-end line: only the returned value is observable
    match cstepLine d.cst rest with
    | some (c, a) => ({ d with cst := c }, (a.splitOn " ").headD "")
    | none => (d, "bad-op")
  | _ =>
    match cstepLine d.cst ws with
    | some (c, a) => ({ d with cst := c }, a)
    | none => let (s, a) := step0 d.st ws; ({ d with st := s }, a)

def main : IO Unit := Hex.lineLoop ({} : DSt) step
