import Rv.Model.Hex
import Rv.Model.PipeLife
/-!
Driver of the `pipelife` suite (harness/pipe/suite_pipelife.go).

Ordinary lines run the interleaving model Rv/Model/PipeLife.lean on the sequentialised schedule the
harness drove the real pipe through: every action is followed by `quiesce` (all internal steps, prompt
PING replies, the 1 s grace timer last), which is what the harness waits for event by event.
  reset pl=<0|1> k k …             k ∈ bg (Background ctx) | cn (cancellable, no deadline) | dl (deadline)
  act call i | calldone i | calldl i | release | cancel i | kill | close
  raw <label> <label> …            single steps without quiescence (the hook-driven schedules):
                                   enter i | decide i | put i | closeEnter | closeCas | closePing
  rawq <label> …                   the same, followed by quiescence
  settle                           quiesce
  end
`!` lines are answered from the specification (the statements of Rv.C04.Life), not from the model:
  !call <returned> <class> <ctxAtStart> <ctxDone> <sent>
  !final <bgStarted> <triggered> <state> <waits>
  !race <variant> <A returned> <B returned> <Close returned> <state> <waits>
-/
open Rv Rv.PipeLife

structure D where
  s : St := {}
  ok : Bool := false
  bad : String := ""

def fuel : Nat := 4000

def kindCall (k : String) : Call :=
  if k == "cn" then { needBg := true, canDone := true }
  else if k == "dl" then { canDone := true }
  else {}

def resName : Res → String
  | .reply => "reply" | .transport => "transport" | .expired => "expired"
  | .closing => "closing" | .ctx => "ctx" | .nilerr => "nilerr"

def whyName : Option Why → String
  | none => "none" | some .broken => "transport" | some .closing => "closing" | some .expired => "expired"

def insertSorted (p : Nat × Res) : List (Nat × Res) → List (Nat × Res)
  | [] => [p]
  | q :: qs => if p.1 ≤ q.1 then p :: q :: qs else q :: insertSorted p qs

def showRets (log : List (Nat × Res)) : String :=
  let sorted := log.foldl (fun acc p => insertSorted p acc) []
  let parts := sorted.map fun p => toString p.1 ++ ":" ++ resName p.2
  if parts.isEmpty then "-" else ",".intercalate parts

def snapshot (s : St) : String := "st=" ++ toString s.state ++ " ret=" ++ showRets s.log

/-- apply labels in order; a label that is not enabled is reported -/
def applyAll (s : St) : List Label → Except String St
  | [] => .ok s
  | l :: ls =>
    match stepNow s l with
    | some s' => applyAll s' ls
    | none => .error (reprStr l)

def q (s : St) : St := quiesce true fuel s

def syncingCall (s : St) : Option Nat :=
  (List.range s.calls.length).find? fun i => stOf s i == some .syncing

def act (s : St) (ws : List String) : Except String St :=
  match ws with
  | ["call", i] => match i.toNat? with
    | some i => (applyAll s [.enter i]).map q
    | none => .error "bad-index"
  | ["calldone", i] => match i.toNat? with
    | some i => (applyAll s [.cancel i, .enter i]).map q
    | none => .error "bad-index"
  | ["calldl", i] => match i.toNat? with
    | some i => do
        let s1 ← applyAll s [.enter i]
        let s2 := q s1
        -- the deadline passes (a call that already returned has nothing left to cancel)
        match stepNow s2 (.cancel i) with
        | some s3 => pure (q s3)
        | none => .error "cancel-disabled"
    | none => .error "bad-index"
  | ["release"] =>
    match syncingCall s with
    | some i => (applyAll s [.syncOk i]).map q
    | none => (applyAll s [.rFetch, .rDeliver]).map q
  | ["cancel", i] => match i.toNat? with
    | some i => (applyAll s [.cancel i]).map q
    | none => .error "bad-index"
  | ["kill"] => if s.connUp then (applyAll s [.connBreak]).map q else .ok (q s)
  | ["close"] => (applyAll s [.closeEnter .closing]).map q
  | _ => .error "bad-act"

/-- labels of a `raw` line -/
def parseLabels : List String → Option (List Label)
  | [] => some []
  | "enter" :: i :: rest => do let i ← i.toNat?; let ls ← parseLabels rest; pure (.enter i :: ls)
  | "decide" :: i :: rest => do let i ← i.toNat?; let ls ← parseLabels rest; pure (.decide i :: ls)
  | "put" :: i :: rest => do let i ← i.toNat?; let ls ← parseLabels rest; pure (.put i :: ls)
  | "closeEnter" :: rest => do let ls ← parseLabels rest; pure (.closeEnter .closing :: ls)
  | "closeCas" :: rest => do let ls ← parseLabels rest; pure (.closeCas :: ls)
  | "closePing" :: rest => do let ls ← parseLabels rest; pure (.closePing :: ls)
  | _ => none

/-! the specification side (`!` lines) -/

def b (w : String) : Bool := w == "1"

/-- what C04/C05 demand of one call (Rv.C04.Life: no_call_left_behind, every_admitted_call_resolves_partial,
    closed_pipe_rejects, reply_exactly_once, done_ctx_sends_nothing, done_ctx_returns): it returned; with
    its replies, a transport error, ErrClosing or its own context error; the context error only when its
    context is done; when the context was done before the call, the context error and nothing sent -/
def callOk (returned : Bool) (cls : String) (ctxAtStart ctxDone sent : Bool) : Bool :=
  returned &&
  (cls == "reply" || cls == "transport" || cls == "closing" || cls == "ctx") &&
  (cls != "ctx" || ctxDone) &&
  (!ctxAtStart || (cls == "ctx" && !sent))

/-- the regression of the Close-vs-admission race (Rv.C04.Life.every_admitted_call_resolves applied to the schedule
    of close_race_strands_call): every party returned, the pipe reached state 4 and nobody holds `waits`
    (no leaked PING helper) -/
def raceOk (aRet bRet closeRet : Bool) (state waits : Nat) : Bool :=
  aRet && bRet && closeRet && state == 4 && waits == 0

/-- once the teardown was triggered on a pipe with a background goroutine and everything has settled:
    state 4 and nobody holds `waits` -/
def finalOk (bgStarted triggered : Bool) (state waits : Nat) : Bool :=
  !(bgStarted && triggered) || (state == 4 && waits == 0)

def verdict (ok : Bool) : String := if ok then "ok" else "violates-property"

def stepD (d : D) (ws : List String) : D × String :=
  match ws with
  | "reset" :: pl :: ks =>
    let s := init (ks.map kindCall) (pl == "pl=1")
    ({ s := s, ok := true }, "ok")
  | "act" :: rest =>
    if !d.ok then (d, "model-stuck:" ++ d.bad) else
    match act d.s rest with
    | .ok s' => ({ d with s := s' }, snapshot s')
    | .error e => ({ d with ok := false, bad := e }, "model-stuck:" ++ e)
  | "raw" :: rest =>
    if !d.ok then (d, "model-stuck:" ++ d.bad) else
    match parseLabels rest with
    | none => (d, "bad-op")
    | some ls =>
      match applyAll d.s ls with
      | .ok s' => ({ d with s := s' }, snapshot s')
      | .error e => ({ d with ok := false, bad := e }, "model-stuck:" ++ e)
  | "rawq" :: rest =>
    if !d.ok then (d, "model-stuck:" ++ d.bad) else
    match parseLabels rest with
    | none => (d, "bad-op")
    | some ls =>
      match applyAll d.s ls with
      | .ok s' => ({ d with s := q s' }, snapshot (q s'))
      | .error e => ({ d with ok := false, bad := e }, "model-stuck:" ++ e)
  | ["settle"] =>
    if !d.ok then (d, "model-stuck:" ++ d.bad) else
    let s' := q d.s
    ({ d with s := s' }, snapshot s')
  | ["end"] =>
    if !d.ok then (d, "model-stuck:" ++ d.bad) else
    (d, "state=" ++ toString d.s.state ++ " waits=" ++ toString d.s.waits ++ " err=" ++ whyName d.s.err)
  | ["!call", r, cls, cs, cd, sent] => (d, verdict (callOk (b r) cls (b cs) (b cd) (b sent)))
  | ["!race", _, a, bb, c, st, w] =>
    match st.toNat?, w.toNat? with
    | some st, some w => (d, verdict (raceOk (b a) (b bb) (b c) st w))
    | _, _ => (d, "bad-op")
  | ["!final", bg, tr, st, w] =>
    match st.toNat?, w.toNat? with
    | some st, some w => (d, verdict (finalOk (b bg) (b tr) st w))
    | _, _ => (d, "bad-op")
  | _ => (d, "bad-op")

def main : IO Unit := Hex.lineLoop ({} : D) stepD
