import Rv.Model.Hex
import Rv.Spec.PipeJudge
open Rv Rv.Spec.PipeJudge

def b (s : String) : Bool := s == "1"
def verdict (ok : Bool) : String := if ok then "ok" else "violates-property"

def step (_ : Unit) (ws : List String) : Unit × String :=
  match ws with
  | ["!amo", _, n, ack] => match n.toNat? with
    | some k => ((), verdict (amo k (b ack)))
    | none => ((), "bad-op")
  | ["!broken", _, _, r, e, o] => ((), verdict (broken (b r) (b e) (b o)))
  | ["!later", f, o] => ((), verdict (later f o))
  | ["!deadline", kind, mode, r, p, c, n] =>
    -- waiting on another caller's flight never sends by construction; everything else is judged in full
    ((), verdict (deadline (if kind == "cachewait" then "deadline" else mode) (b r) (b p) (b c) (b n)))
  | _ => ((), "bad-op")

def main : IO Unit := Hex.lineLoop () step
