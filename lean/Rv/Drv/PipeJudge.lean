import Rv.Model.Hex
import Rv.Spec.PipeJudge
open Rv Rv.Spec.PipeJudge

def b (s : String) : Bool := s == "1"
def verdict (ok : Bool) : String := if ok then "ok" else "violates-property"

def step (_ : Unit) (ws : List String) : Unit × String :=
  match ws with
  | ["!amo", _, n, ack] => match n.toNat? with
    | some k => ((), verdict (amo k (b ack)))
    | none => ((), "bad-op")
  | ["!broken", _, _, r, e, o] => ((), verdict (broken (b r) (b e) (b o)))
  | ["!own", _, _, r, e, o] => ((), verdict (broken (b r) (b e) (b o)))
  | ["!later", f, o] => ((), verdict (later f o))
  | ["!deadline", kind, mode, r, p, c, n] =>
    -- waiting on another caller's flight never sends by construction; everything else is judged in full
    ((), verdict (deadline (if kind == "cachewait" then "deadline" else mode) (b r) (b p) (b c) (b n)))
  | ["!cacheread", _, fl, ver, hit, own] =>
    match fl.toInt?, ver.toInt? with
    | some f, some v => ((), verdict (cacheRead f v (b hit) (b own)))
    | _, _ => ((), "bad-op")
  | ["!flight", gets, nok, nerr, lh, lo] =>     -- the success case has an empty fault word
    match gets.toNat?, nok.toNat?, nerr.toNat? with
    | some g, some k, some e => ((), verdict (flight false g k e (b lh) (b lo)))
    | _, _, _ => ((), "bad-op")
  | ["!flight", _, gets, nok, nerr, lh, lo] =>
    match gets.toNat?, nok.toNat?, nerr.toNat? with
    | some g, some k, some e => ((), verdict (flight true g k e (b lh) (b lo)))
    | _, _, _ => ((), "bad-op")
  | _ => ((), "bad-op")

def main : IO Unit := Hex.lineLoop () step
