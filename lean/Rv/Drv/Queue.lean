import Rv.Model.Hex
import Rv.Model.Ring
import Rv.Model.FlowBuffer
import Rv.Spec.Fifo
open Rv

/-!
Line-protocol driver for C02.
  reset ring <k> <base>   start a sequential episode on a ring of 2^k slots whose counters are `base`
                          → ok cv=2 n=<2^k> (two condition variables per slot sharing one mutex)
  reset flow <k>          … on a flow buffer of 2^k tokens → ok n=<2^k>
  put | putm              PutOne / PutMulti by a new caller   → ch:<i> | block
  next                    NextWriteCmd                        → cmd:<c> | nil | block
  wait                    WaitForWrite                        → cmd:<c> | block
  res                     NextResultCh                        → cmd:<c> | nil | block
  fin                     FinishResult                        → ok
  snap                    state snapshot
  !obs put <c> | !obs next|wait|res nil | !obs next|wait|res cmd <c>
                          what the real queue answered to the preceding call, judged by the
                          FIFO specification (Spec.Fifo.seqPut/seqNext/seqRes)
  reset conc …            start the replay of an observed concurrent history; the following
  !call/!ret/!deq/!res/!fin/!end lines are judged by the FIFO specification (Spec.Fifo.Obs)
-/

/-- the unique position in (base, base + 2^k] that is congruent to s -/
def genAt (k base s : Nat) : Nat := base + 1 + (s + 2 ^ k - (base + 1) % 2 ^ k) % 2 ^ k

/-- the empty ring after `base` commands went through it (ghost fields restart) -/
def ringAt (k base : Nat) : Ring.State :=
  { Ring.init k with
    slot := fun s => { mark := 0, slept := false, cmd := none, gen := genAt k base s }
    top := genAt k base
    write := base, read1 := base, read2 := base }

inductive St
  | none
  | ring (k : Nat) (σ : Ring.State) (q : Spec.Fifo.Q)
  | flow (σ : Flow.State) (q : Spec.Fifo.Q)
  | obs (o : Spec.Fifo.Obs)

def digits (k : Nat) (f : Nat → Nat) : String :=
  String.join ((List.range (2 ^ k)).map fun i => toString (f i))

def ringSnap (k : Nat) (σ : Ring.State) : String :=
  let held := match σ.rpc with
    | .holding s _ => toString s
    | _ => "-"
  let cmds := String.intercalate "," ((List.range (2 ^ k)).map fun i =>
    match (σ.slot i).cmd with
    | some c => toString c
    | Option.none => "-")
  s!"w={σ.write % 2 ^ 32} r1={σ.read1 % 2 ^ 32} r2={σ.read2 % 2 ^ 32} held={held} m={digits k fun i => (σ.slot i).mark} s={digits k fun i => if (σ.slot i).slept then 1 else 0} c={cmds}"

def ringStep (k : Nat) (σ : Ring.State) : List String → Ring.State × String
  | ["put"] | ["putm"] =>
    match Ring.putOne k σ with
    | some σ' => match σ'.pc σ.ncalls with
      | .filled s => (σ', s!"ch:{s}")
      | _ => (σ, "bad-model")
    | Option.none => (σ, "block")
  | ["next"] =>
    if Ring.enabled k .wTry σ then
      let σ' := Ring.apply k .wTry σ
      if σ'.read1 = σ.read1 + 1 then
        (σ', match σ'.wlog.getLast? with | some c => s!"cmd:{c}" | Option.none => "cmd:?")
      else (σ', "nil")
    else (σ, "block")
  | ["wait"] =>
    if Ring.enabled k .wWait σ then
      let σ' := Ring.apply k .wWait σ
      if σ'.read1 = σ.read1 + 1 then
        (σ', match σ'.wlog.getLast? with | some c => s!"cmd:{c}" | Option.none => "cmd:?")
      else (σ, "block")
    else (σ, "block")
  | ["res"] =>
    if Ring.enabled k .rBegin σ then
      let σ' := Ring.apply k .rBegin σ
      match σ'.rpc with
      | .holding _ (some c) =>
        -- single-threaded use: nobody sends on the channel; account the reply to its owner
        let σ'' := if Ring.enabled k (.rDeliver c) σ' then Ring.apply k (.rDeliver c) σ' else σ'
        (σ'', s!"cmd:{c}")
      | _ => (σ', "nil")
    else (σ, "block")
  | ["fin"] =>
    match σ.rpc with
    | .holding s _ =>
      let σ1 := Ring.apply k .rUnlock σ
      let w := (List.range σ1.ncalls).find? fun c => σ1.pc c == .waiting s
      (Ring.apply k (.rSignal w) σ1, "ok")
    | _ => (σ, "ok")
  | ["snap"] => (σ, ringSnap k σ)
  | _ => (σ, "bad-op")

def flowStep (σ : Flow.State) : List String → Flow.State × String
  | ["put"] | ["putm"] =>
    if Flow.enabled .recv σ then
      let c := σ.ncalls
      let σ1 := Flow.apply .recv σ
      if Flow.enabled (.send c) σ1 then
        let σ2 := Flow.apply (.send c) σ1
        match σ2.pc c with
        | .filled ch => (σ2, s!"ch:{ch}")
        | _ => (σ, "bad-model")
      else (σ, "block")
    else (σ, "block")
  | ["next"] =>
    if Flow.enabled .wTake σ then
      let σ' := Flow.apply .wTake σ
      (σ', match σ'.wlog.getLast? with | some c => s!"cmd:{c}" | Option.none => "cmd:?")
    else if σ.w.isEmpty then (σ, "nil") else (σ, "block")
  | ["wait"] =>
    if Flow.enabled .wTake σ then
      let σ' := Flow.apply .wTake σ
      (σ', match σ'.wlog.getLast? with | some c => s!"cmd:{c}" | Option.none => "cmd:?")
    else (σ, "block")
  | ["res"] =>
    if Flow.enabled .rBegin σ then
      let σ' := Flow.apply .rBegin σ
      match σ'.cur with
      | some (_, c) =>
        let σ'' := if Flow.enabled (.rDeliver c) σ' then Flow.apply (.rDeliver c) σ' else σ'
        (σ'', s!"cmd:{c}")
      | Option.none => (σ, "bad-model")
    else if σ.cur.isSome then
      -- NextResultCh again without FinishResult: Go overwrites b.c (the first token is lost); never exercised
      (σ, "block")
    else (σ, "nil")
  | ["fin"] =>
    if σ.cur.isSome then
      if Flow.enabled .rFinish σ then (Flow.apply .rFinish σ, "ok") else (σ, "block")
    else (σ, "ok")
  | ["snap"] =>
    (σ, s!"f={σ.f.length} w={σ.w.length} r={σ.r.length} cur={if σ.cur.isSome then 1 else 0} size={σ.size}")
  | _ => (σ, "bad-op")

def obsStep (o : Spec.Fifo.Obs) : List String → Spec.Fifo.Obs × String
  | ["!call", c, ow] => match c.toNat?, ow.toNat? with
    | some c, some ow => o.call c ow
    | _, _ => (o, "bad-op")
  | ["!ret", c, ow] => match c.toNat?, ow.toNat? with
    | some c, some ow => o.ret c ow
    | _, _ => (o, "bad-op")
  | ["!deq", "nil"] => (o, "reject:writer-got-nothing")
  | ["!res", "nil"] => (o, "reject:result-slot-empty")
  | ["!deq", c] => match c.toNat? with
    | some c => o.deq c
    | _ => (o, "bad-op")
  | ["!res", c] => match c.toNat? with
    | some c => o.res c
    | _ => (o, "bad-op")
  | ["!fin", c, ow, r] => match c.toNat?, ow.toNat?, r.toNat? with
    | some c, some ow, some r => o.fin c ow r
    | _, _, _ => (o, "bad-op")
  | ["!end"] => o.fini
  | _ => (o, "bad-op")

/-- `!obs` lines of the sequential suites: the real queue's answer judged by the FIFO specification -/
def seqObs (q : Spec.Fifo.Q) : List String → Spec.Fifo.Q × String
  | ["!obs", "put", c] => match c.toNat? with
    | some c => Spec.Fifo.seqPut q c
    | _ => (q, "bad-op")
  | ["!obs", "next", "nil"] | ["!obs", "wait", "nil"] => Spec.Fifo.seqNext q Option.none
  | ["!obs", "next", "cmd", c] | ["!obs", "wait", "cmd", c] => match c.toNat? with
    | some c => Spec.Fifo.seqNext q (some c)
    | _ => (q, "bad-op")
  | ["!obs", "res", "nil"] => Spec.Fifo.seqRes q Option.none
  | ["!obs", "res", "cmd", c] => match c.toNat? with
    | some c => Spec.Fifo.seqRes q (some c)
    | _ => (q, "bad-op")
  | _ => (q, "bad-op")

def step (st : St) (ws : List String) : St × String :=
  match ws with
  | ["reset", "ring", k, base] => match k.toNat?, base.toNat? with
    | some k, some b => (.ring k (ringAt k b) Spec.Fifo.empty, s!"ok cv=2 n={2 ^ k}")
    | _, _ => (st, "bad-op")
  | ["reset", "flow", k] => match k.toNat? with
    | some k => (.flow (Flow.init (2 ^ k)) Spec.Fifo.empty, s!"ok n={2 ^ k}")
    | _ => (st, "bad-op")
  | "reset" :: "conc" :: _ => (.obs Spec.Fifo.Obs.empty, "ok")
  | _ => match st with
    | .ring k σ q => match ws with
      | "!obs" :: _ => let (q', a) := seqObs q ws; (.ring k σ q', a)
      | _ => let (σ', a) := ringStep k σ ws; (.ring k σ' q, a)
    | .flow σ q => match ws with
      | "!obs" :: _ => let (q', a) := seqObs q ws; (.flow σ q', a)
      | _ => let (σ', a) := flowStep σ ws; (.flow σ' q, a)
    | .obs o => let (o', a) := obsStep o ws; (.obs o', a)
    | .none => (st, "bad-op")

def main : IO Unit := Hex.lineLoop St.none step
