import Rv.Model.Hex
import Rv.Model.StreamTo
/-!
Driver for the `streamto` correspondence suite of C29 (harness/stream).

`st <B> <budget|-> <over> <hex>`  — one `streamTo` call of the model on the byte stream
with a writer that accepts `budget` bytes (`-`: never fails); answer
`<n> <err> <clean> <consumed|-> <written hex>` (consumed only when clean).
`!st <B> <hex>` — oracle line, answered from the specification `specReply`.
-/
open Rv Rv.StreamTo

def showOut (total : Nat) (o : Out) : String :=
  toString o.n ++ " " ++ o.err.show ++ " " ++ toString o.clean ++ " " ++
    (if o.clean then toString (total - o.rest.length) else "-") ++ " " ++ Hex.encode o.w.out

def parseBudget (s : String) : Option (Option Nat) :=
  if s == "-" then some none else s.toNat?.map some

def step (_ : Unit) (ws : List String) : Unit × String :=
  match ws with
  | ["st", b, bud, ov, h] =>
    match b.toNat?, parseBudget bud, ov.toNat?, Hex.decode h with
    | some B, some k, some o, some bs => ((), showOut bs.length (run B ⟨k, o, []⟩ bs))
    | _, _, _, _ => ((), "bad-op")
  | ["!st", b, h] =>
    match b.toNat?, Hex.decode h with
    | some B, some bs => ((), specReply B (bs.length + 1) bs.length bs)
    | _, _ => ((), "bad-op")
  | _ => ((), "bad-op")

def main : IO Unit := Hex.lineLoop () step
