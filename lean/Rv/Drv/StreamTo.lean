import Rv.Model.Hex
import Rv.Model.StreamTo
import Rv.Model.ResultStream
/-!
Driver for the `streamto` and `e2e` correspondence suites of C29 (harness/stream).

`st <B> <budget|-> <over> <hex>`  — one `streamTo` call of the model on the byte stream
with a writer that accepts `budget` bytes (`-`: never fails); answer
`<n> <err> <clean> <consumed|-> <written hex>` (consumed only when clean).
`!st <B> <hex>` — oracle line, answered from the specification `specReply`.

`e2e <entry> <ncmd> <hex> <b:o,b:o,…>` — DoStream / DoMultiStream of `ncmd` commands entered
through `entry` (ok | ctxDone | ctxLate | flushErr | closing); `hex` is everything the server sends on
the streaming connection; one `budget:over` writer per `WriteTo` call. Answered from
`Rv.ResultStream.session`: per call `n/err/written/hasNext`, the sticky error, the pool
summary derived from the event log (held | stored | closed | dead) and which connection
serves the next DoStream.
`!next <id>` — oracle line: the next streaming command receives its own payload.
`!recycled <entry> <ncmd> <hex> <calls>` — oracle line: once the stream has no next reply the wire
has been handed back exactly once (`once`), before that it is held (`held`).
-/
open Rv Rv.StreamTo Rv.ResultStream

def showOut (total : Nat) (o : Out) : String :=
  toString o.n ++ " " ++ o.err.show ++ " " ++ toString o.clean ++ " " ++
    (if o.clean then toString (total - o.rest.length) else "-") ++ " " ++ Hex.encode o.w.out

def parseBudget (s : String) : Option (Option Nat) :=
  if s == "-" then some none else s.toNat?.map some

def stickyShow : Option SErr → String
  | none => "none"
  | some .eof => "sticky:io-or-eof"
  | some .ctx => "sticky:ctx"
  | some .pipe => "sticky:pipe"
  | some (.stream e) => if e.show == "err:io" then "sticky:io-or-eof" else "sticky:" ++ e.show

def callShow (c : CallRes) (sticky : Bool) : String :=
  let e := match c.err with
    | none => if sticky then "none" else "ok"
    | some (.stream x) => if sticky then stickyShow c.err else x.show
    | some _ => stickyShow c.err
  toString c.n ++ "/" ++ e ++ "/" ++ Hex.encode c.out ++ "/" ++ toString c.hasNext

def parseCall (s : String) : Option (Option Nat × Nat) :=
  match s.splitOn ":" with
  | [b, o] => match parseBudget b, o.toNat? with
    | some k, some ov => some (k, ov)
    | _, _ => none
  | _ => none

def parseEntry (s : String) : Option Entry :=
  if s == "ok" then some .ok else if s == "ctxDone" || s == "ctxLate" then some .ctxDone
  else if s == "flushErr" then some .flushErr else if s == "closing" then some .closing else none

/-- `dead`: the wire stored at a `ctxDone` entry is the uncounted dead pipe `pool.Acquire` made for a
    context that was already done (C24); with `late` the context turned done after a live wire was acquired -/
def poolShow (k : Entry) (late : Bool) (log : List Ev) : String :=
  if countStore log = 0 then "held"
  else if countStore log > 1 then "double-store"
  else if log.contains .close || log.contains .connClose then "closed"
  else if k == .ctxDone && !late then "dead"
  else "stored"

def e2e (k : Entry) (late : Bool) (ncmd : Nat) (bs : List UInt8) (calls : List (Option Nat × Nat)) : String :=
  let s0 := start k ncmd
  let (s, _, rs) := session 524288 s0 bs calls []
  -- which calls were sticky: recompute along the session
  let rec flags (s : RS) (bs : List UInt8) (cs : List (Option Nat × Nat)) : List Bool :=
    match cs with
    | [] => []
    | (b, ov) :: cs =>
      if s.e.isSome || !(decide (s.n > 0)) then true :: flags s bs cs
      else
        let o := run 524288 ⟨b, ov, []⟩ bs
        false :: flags (afterStream s ⟨o.n, o.err, o.clean⟩) o.rest cs
  let fl := flags s0 bs calls
  let shown := (rs.zip fl).map fun (c, f) => callShow c f
  let pool := poolShow k late s.log
  ";".intercalate shown ++ " e=" ++ stickyShow s.e ++ " pool=" ++ pool ++ " next=" ++
    (if pool == "held" then "-" else if pool == "stored" then "same" else "new")

def step (_ : Unit) (ws : List String) : Unit × String :=
  match ws with
  | ["!next", _] => ((), "own")
  | ["!recycled", en, nc, h, cs] =>
    -- specification: a stream that has no next reply has handed its wire back exactly once;
    -- one that still has a next reply holds it
    match parseEntry en, nc.toNat?, Hex.decode h, (cs.splitOn ",").mapM parseCall with
    | some k, some n, some bs, some calls =>
      let (s, _, _) := session 524288 (start k n) bs calls []
      ((), if s.hasNext then "held" else "once")
    | _, _, _, _ => ((), "bad-op")
  | ["e2e", en, nc, h, cs] =>
    match parseEntry en, nc.toNat?, Hex.decode h, (cs.splitOn ",").mapM parseCall with
    | some k, some n, some bs, some calls => ((), e2e k (en == "ctxLate") n bs calls)
    | _, _, _, _ => ((), "bad-op")
  | ["st", b, bud, ov, h] =>
    match b.toNat?, parseBudget bud, ov.toNat?, Hex.decode h with
    | some B, some k, some o, some bs => ((), showOut bs.length (run B ⟨k, o, []⟩ bs))
    | _, _, _, _ => ((), "bad-op")
  | ["!st", b, h] =>
    match b.toNat?, Hex.decode h with
    | some B, some bs => ((), specReply B (bs.length + 1) bs.length bs)
    | _, _ => ((), "bad-op")
  | _ => ((), "bad-op")

def main : IO Unit := Hex.lineLoop () step
