import Rv.Model.Hex
import Rv.Model.Msg
import Rv.Model.Topology
import Rv.Spec.Cluster
open Rv Rv.Topology Rv.ClusterWire

/-
ops of the `topology` suite (stateless):
  slots <defaultAddr-hex> <msg tokens…>             parseSlots
  shards <defaultAddr-hex> <tls 0|1> <msg tokens…>  parseShards
  endpoint <fallback-hex> <endpoint-hex> <port>     parseEndpoint
  atoi <hex>                                        strconv.ParseInt(s,10,64) value
  itoa <int>                                        strconv.FormatInt
  splithost <hex>                                   host of net.SplitHostPort
-/
def step (_ : Unit) (ws : List String) : Unit × String :=
  match ws with
  | "slots" :: a :: rest =>
    match Hex.decode a, parseMsgAll rest with
    | some addr, some m => ((), dumpRes (parseSlots m addr))
    | _, _ => ((), "bad-op")
  | "shards" :: a :: tls :: rest =>
    match Hex.decode a, parseMsgAll rest with
    | some addr, some m => ((), dumpRes (parseShards m addr (tls == "1")))
    | _, _ => ((), "bad-op")
  | ["endpoint", f, e, p] =>
    match Hex.decode f, Hex.decode e, p.toInt? with
    | some f, some e, some p => ((), Hex.encode (parseEndpoint f e p))
    | _, _, _ => ((), "bad-op")
  | ["atoi", h] =>
    match Hex.decode h with
    | some s => ((), toString (parseInt64 s))
    | none => ((), "bad-op")
  | ["itoa", n] =>
    match n.toInt? with
    | some n => ((), Hex.encode (fmtInt n))
    | none => ((), "bad-op")
  | ["splithost", h] =>
    match Hex.decode h with
    | some s => ((), Hex.encode (splitHost s))
    | none => ((), "bad-op")
  | "!owners" :: ver :: tls :: _resp3 :: da :: rest =>
    -- oracle line: the specification on the description, not the parser model
    match ver.toNat?, Hex.decode da, Spec.Cluster.Wire.parseDesc rest with
    | some ver, some da, some (ds, _ :: slots) =>
      let v : Spec.Cluster.View := { ver := ver, tls := tls == "1", defaultAddr := da }
      ((), " ".intercalate (slots.map fun s =>
        match s.toInt? with
        | none => "bad"
        | some s =>
          match Spec.Cluster.ownerOf v ds s with
          | none => "-"
          | some (m, reps) =>
            Hex.encode m ++ "/" ++ ",".intercalate ((sortByKey (reps.map fun r => (Hex.encode r, ""))).map (·.1))))
    | _, _, _ => ((), "bad-op")
  | _ => ((), "bad-op")

def main : IO Unit := Hex.lineLoop () step
