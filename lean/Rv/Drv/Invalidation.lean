import Rv.Model.Hex
import Rv.Model.Invalidation
open Rv Rv.Push Rv.Inval

/-- byte strings that are not UTF-8 stay opaque (`hex:<digits>`): the model only compares them -/
def hexStr (h : String) : String :=
  match Hex.decode h with
  | some bs => (String.fromUTF8? ⟨bs.toArray⟩).getD ("hex:" ++ h)
  | none => "?"

def strHex (s : String) : String :=
  if s.startsWith "hex:" then (s.drop 4).toString else if s == "" then "" else Hex.encode s.toUTF8.toList

/-- value syntax: s<hex> | i<int> | n | a<hex>,<hex>,… (`a` alone: empty array) -/
def parsePV (w : String) : PV :=
  let body := (w.drop 1).toString
  match w.front with
  | 's' => .str (hexStr body)
  | 'i' => .int (body.toInt?.getD 0)
  | 'a' => .arr (if body == "" then [] else (body.splitOn ",").map hexStr)
  | _ => .null

def parsePush (w : String) : List PV := if w == "" then [] else (w.splitOn "/").map parsePV

def showArg : InvArg → String
  | none => "nil"
  | some ks => "[" ++ ",".intercalate (ks.map strHex) ++ "]"

def showCalls (cs : List Call) : String :=
  if cs.isEmpty then "-" else " ".intercalate (cs.map fun | .opt a => "opt:" ++ showArg a | .hook a => "hook:" ++ showArg a)

def showArgs (as : List InvArg) : String := if as.isEmpty then "-" else " ".intercalate (as.map showArg)

def kv (w : String) : String := (w.splitOn "=").getD 1 ""

def parseFrame (w : String) : Ev :=
  if w == "r" then .frame (.reply [])
  else if w.startsWith "r:" then .frame (.reply (((w.drop 2).toString.splitOn ";").map parsePush))  -- reply with embedded pushes
  else if w.startsWith "p:" then .frame (.push (parsePush (w.drop 2).toString))
  else if w == "hook1" then .setHook true
  else if w == "hook0" then .setHook false
  else if w == "clear" then .clearHook
  else if w == "x:close" then .disconnect .clientClose
  else if w == "x:write" then .disconnect .writeError
  else if w == "x:lifetime" then .disconnect .lifetime
  else .disconnect .serverKill

/-- specification of a connection that carries both callbacks: every invalidation push reaches the
    option-level callback, and the dedicated hook while it is installed; the loss of the connection
    gives one nil to each installed callback -/
def specBoth (evs : List Ev) : List InvArg × List InvArg :=
  let r := evs.foldl (fun (acc : List InvArg × List InvArg × Bool × Bool) e =>
    let (o, h, inst, alive) := acc
    if !alive then acc else
    match e with
    | .frame (.push vs) =>
      match invArg vs with
      | some a => (o ++ [a], if inst then h ++ [a] else h, inst, alive)
      | none => acc
    | .frame (.reply _) => acc
    | .setHook inv => (o, h, inv, alive)
    | .clearHook => (o, h, false, alive)
    | .disconnect _ => (o ++ [none], if inst then h ++ [none] else h, false, false)) ([], [], false, true)
  (r.1, r.2.1)

structure DSt where
  cfg : Cfg := ⟨false, false⟩
  st : St := {}

def step (d : DSt) (ws : List String) : DSt × String :=
  match ws with
  | ["reset", v, o] => ({ cfg := ⟨kv v == "1", kv o == "1"⟩, st := {} }, "ok")
  | ["hook", i] => ({ d with st := (Inval.step d.cfg d.st (.setHook (kv i == "1"))).1 }, "ok")
  | ["clear"] => ({ d with st := (Inval.step d.cfg d.st .clearHook).1 }, "ok")
  | ["push"] => (d, showCalls (Inval.step d.cfg d.st (.frame (.push []))).2)
  | ["push", w] => (d, showCalls (Inval.step d.cfg d.st (.frame (.push (parsePush w)))).2)
  | ["!push"] => (d, "-")
  | ["!push", w] =>
    -- specification: every installed callback gets the argument of an invalidation push
    (d, match invArg (parsePush w) with
      | none => "-"
      | some a => showCalls ((if d.cfg.optCb then [Call.opt a] else []) ++ (if d.st.hookInv then [Call.hook a] else [])))
  | "!redis6" :: _ => (d, "served")   -- specification: a reply with embedded pushes never crashes the client
  | "e2e6" :: frames =>
    -- a Redis 6 connection: pushes embedded in replies are dispatched too
    (d, showArgs (optLog (run ⟨true, true⟩ {} (frames.map parseFrame))))
  | "!e2e6" :: frames =>
    let evs := frames.map parseFrame
    let live := evs.takeWhile fun | .disconnect _ => false | _ => true
    (d, showArgs (pushLog ⟨true, true⟩ live ++ [none]))
  | "e2eboth" :: frames =>
    let cs := run ⟨false, true⟩ {} (frames.map parseFrame)
    (d, "opt=" ++ showArgs (optLog cs) ++ " hook=" ++ showArgs (hookLog cs))
  | "!e2eboth" :: frames =>
    let (o, h) := specBoth (frames.map parseFrame)
    (d, "opt=" ++ showArgs o ++ " hook=" ++ showArgs h)
  | "e2e" :: o :: frames =>
    -- model: what the option-level callback saw
    let cfg : Cfg := ⟨false, kv o == "1"⟩
    (d, showArgs (optLog (run cfg {} (frames.map parseFrame))))
  | "!e2e" :: _ :: frames =>
    -- specification: the server's push log, then nil once
    let evs := frames.map parseFrame
    let live := evs.takeWhile fun | .disconnect _ => false | _ => true
    (d, showArgs (pushLog ⟨false, true⟩ live ++ [none]))
  | "e2ehook" :: frames =>
    (d, showArgs (hookLog (run ⟨false, false⟩ {} (frames.map parseFrame))))
  | _ => (d, "bad-op")

def main : IO Unit := Hex.lineLoop ({} : DSt) step
