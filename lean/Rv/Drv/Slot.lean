import Rv.Model.Hex
import Rv.Model.Slot
import Rv.Spec.Slot
open Rv

def step (_ : Unit) (ws : List String) : Unit × String :=
  match ws with
  | ["slot", h] =>
    match Hex.decode h with
    | some k => ((), toString (Slot.slot k))
    | none => ((), "bad-op")
  | ["!slot", h] =>  -- oracle line: the specification, not the model
    match Hex.decode h with
    | some k => ((), toString (Spec.Slot.slotSpec k))
    | none => ((), "bad-op")
  | ["crc16", h] =>
    match Hex.decode h with
    | some k => ((), toString (Slot.crc16 k).toNat)
    | none => ((), "bad-op")
  | "!keys" :: init :: ks =>  -- oracle line: acceptance and slot from the specification only
    match ks.mapM Hex.decode with
    | some keys =>
      let slots := keys.map Spec.Slot.slotSpec
      if init == "noslot" then ((), "accept")
      else match slots with
        | [] => ((), "bad-op")
        | s0 :: rest => if rest.all (· == s0) then ((), "accept " ++ toString s0) else ((), "panic")
    | none => ((), "bad-op")
  | "keys" :: init :: ks =>
    let i := if init == "noslot" then Slot.noSlot else Slot.initSlot
    match ks.mapM Hex.decode with
    | some keys => match Slot.keyFold i keys with
      | some v => ((), toString v)
      | none => ((), "panic")
    | none => ((), "bad-op")
  | _ => ((), "bad-op")

def main : IO Unit := Hex.lineLoop () step
