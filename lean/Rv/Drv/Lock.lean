import Rv.Model.Hex
import Rv.Model.Lock
open Rv Rv.Lock

def unhx (s : String) : String :=
  match Hex.decode s with
  | some bs => String.ofList (bs.map fun b => Char.ofNat b.toNat)
  | none => "?"

structure DS where
  sys : Sys := { m := 1 }
  nextVal : Nat := 100
  holders : List Nat := []          -- values whose context was handed out, in order
  hlock : List (Nat × Nat) := []    -- value -> Locker index
  sent : List Nat := []             -- holders whose last monitor has sent the explicit gate token
  waiters : List (Nat × Nat) := []  -- pending WithContext calls: (waiter id, Locker index)
  nextW : Nat := 0
  failAcq : Option Nat := none      -- the next acquire script on this key fails with a server error
  sib : Sib.St := { noloop := true }
  name : String := "L"

def DS.waiting (d : DS) : Nat := d.waiters.length

def runningIdx (s : Sys) (v : Nat) : List Nat := (List.range s.n).filter fun i => (s.hs v).mons i == .running

/-- one attempt of `try` with value `v` on the canonical schedule: keys in order, nothing is
attempted after the first refusal (ErrNotLocked), an acquisition that fails with a server error
does not stop the next keys; success = `ret`, failure = cancel and let the monitors clean up.
Returns the state, success, the remaining armed acquire failure and the key that refused. -/
def attempt (s : Sys) (v : Nat) (force : Bool) (failAcq : Option Nat) : Sys × Bool × Option Nat × Option Nat :=
  let (s1, ref, fa) := (List.range s.n).foldl (fun (acc : Sys × Option Nat × Option Nat) i =>
    let (t, ref, fa) := acc
    if ref.isSome then (next t (.skip v i), ref, fa)
    else if fa == some i then (next t (.acqErr v i), none, none)
    else if force then (next t (.force v i), none, fa)
    else if t.regs i = none then (next t (.acq v i), none, fa)
    else (next t (.acq v i), some i, fa)) (s, none, failAcq)
  let s2 := next s1 (.ret v)
  if live s2 v then (s2, true, fa, ref)
  else
    let s3 := next s2 (.release v)
    ((runningIdx s3 v).foldl (fun t i => next t (.mon v i)) s3, false, fa, ref)

/-- every monitor that has something to do (context cancelled, or its key is no longer ours) runs -/
def monitorsOnce (s : Sys) (vals : List Nat) : Sys :=
  vals.foldl (fun t v => (runningIdx t v).foldl (fun u i =>
    if (u.hs v).cancelled || u.regs i != some v then next u (.mon v i) else u) t) s

/-- an attempt of waiter (w, L): on success it becomes a holder, otherwise it parks on the key that
refused it, or — if only server errors stopped it — on nothing -/
def waiterTry (d : DS) (w L : Nat) : DS :=
  let v := d.nextVal
  let (t, ok, fa, ref) := attempt d.sys v false d.failAcq
  if ok then
    { d with sys := t, nextVal := v + 1, failAcq := fa, holders := d.holders ++ [v], hlock := (v, L) :: d.hlock,
             waiters := d.waiters.filter (·.1 != w) }
  else
    let t' := match ref with
      | some i => next t (.park w i)
      | none => next t (.parkErr w)
    { d with sys := t', nextVal := v + 1, failAcq := fa }

def allExited (s : Sys) (v : Nat) : Bool := (List.range s.n).all fun i => (s.hs v).mons i == .exited

def settleRound (d : DS) : DS :=
  let d1 := { d with sys := monitorsOnce d.sys d.holders }
  -- explicit gate send of a successful lock that has let go of everything, to the waiters of its Locker
  let d2 := d1.holders.foldl (fun (x : DS) v =>
    if allExited x.sys v && !x.sent.contains v then
      let L := ((x.hlock.find? (·.1 == v)).map (·.2)).getD 1000
      { x with sent := v :: x.sent,
               sys := (x.waiters.filter (·.2 == L)).foldl (fun t wl => next t (.gate wl.1)) x.sys }
    else x) d1
  -- waiters holding a gate token try again
  d2.waiters.foldl (fun (x : DS) wl =>
    if (x.sys.ws wl.1).parked && (x.sys.ws wl.1).token then waiterTry { x with sys := next x.sys (.wake wl.1) } wl.1 wl.2
    else x) d2

def settleLoop (d : DS) : Nat → DS
  | 0 => d
  | fuel + 1 => settleLoop (settleRound d) fuel

def stateStr (d : DS) : String :=
  let s := d.sys
  let lives := d.holders.filter (fun v => live s v)
  let maj := lives.all fun v => decide (s.m ≤ owned s v)
  let held := ((List.range s.n).filter fun i => (s.regs i).isSome).length
  let free := if lives.length == 0 && d.waiting == 0 then (if held == 0 then "1" else "0") else "-"
  s!"live={lives.length} waiting={d.waiting} maj={if maj then "1" else "0"} idle-free={free}"

def fin (d : DS) : DS × String := let d' := settleLoop d 12; (d', stateStr d')

def ownersStr (s : Sys) : String :=
  ",".intercalate ((List.range s.n).map fun i => match s.regs i with | some v => toString v | none => "-")

def sibStr (s : Sib.St) : String :=
  s!"held={(s.regs.filter Option.isSome).length} parked={s.parked} live={s.live}"

def sibOut (d : DS) (es : List Sib.Ev) : DS × String :=
  let s := Sib.run d.sib es
  ({ d with sib := s }, sibStr s)

def step (d : DS) (ws : List String) : DS × String :=
  match ws with
  | "reset" :: m :: rest =>
    let nm := match rest.find? (·.startsWith "name=") with
      | some x => unhx (String.ofList (x.toList.drop 5))
      | none => "L"
    ({ sys := { m := m.toNat?.getD 1 }, sib := { noloop := !rest.contains "noloop=0" }, name := nm }, "ok")
  | ["inval", k] =>
    -- the push reaches the waiters' Locker: its gate (registered under the lock name, 2m-1 channels) is
    -- signalled or not; a signalled parked waiter tries once more (and is refused: the state stays)
    match KeyName.signal "rueidislock".toList d.name.toList d.sys.n (unhx k).toList with
    | .panic => (d, "panic")
    | .gate _ => (d, s!"retries={if d.waiting > 0 then 1 else 0}")
    | .none => (d, "retries=0")
  | "try-raced" :: l :: js =>
    -- the acquire script of every key runs; the listed keys are deleted by a third party right after their script
    let v := d.nextVal
    let del := js.filterMap String.toNat?
    let s1 := (List.range d.sys.n).foldl (fun t i =>
      let t1 := next t (.acq v i)
      if del.contains i && t1.regs i == some v then next t1 (.extdel i) else t1) d.sys
    -- try() counts the acquisitions it made and returns the context; the monitors find out afterwards
    let s2 := next s1 (.ret v)
    let ok := live s2 v
    let s3 := if ok then s2 else
      let s' := next s2 (.release v)
      (runningIdx s' v).foldl (fun t i => next t (.mon v i)) s'
    fin { d with sys := s3, nextVal := v + 1,
                 holders := if ok then d.holders ++ [v] else d.holders,
                 hlock := if ok then (v, l.toNat?.getD 0) :: d.hlock else d.hlock }
  | [op, _, v, i] =>
    let v := v.toNat?.getD 0
    let i := i.toNat?.getD 0
    let r := d.sys.regs i
    let (r', rep) : Option Nat × String := match op with
      | "s.acq" => let x := acqScript v r; (x.1, if x.2 then "+OK" else "_")
      | "s.fcq" => let x := forceScript v r; (x.1, "+OK")
      | "s.ext" => let x := extendScript v r; (x.1, if x.2 then ":1" else ":0")
      | "s.del" => let x := delScript v r; (x.1, if x.2 then ":1" else ":0")
      | _ => (r, "bad-op")
    let s' := { d.sys with regs := upd d.sys.regs i r' }
    ({ d with sys := s' }, rep ++ " " ++ ownersStr s')
  | "try" :: l :: _ =>
    let (t, ok, fa, _) := attempt d.sys d.nextVal false d.failAcq
    fin { d with sys := t, nextVal := d.nextVal + 1, failAcq := fa,
                 holders := if ok then d.holders ++ [d.nextVal] else d.holders,
                 hlock := if ok then (d.nextVal, l.toNat?.getD 0) :: d.hlock else d.hlock }
  | "force" :: l :: _ =>
    let (t, ok, fa, _) := attempt d.sys d.nextVal true d.failAcq
    fin { d with sys := t, nextVal := d.nextVal + 1, failAcq := fa,
                 holders := if ok then d.holders ++ [d.nextVal] else d.holders,
                 hlock := if ok then (d.nextVal, l.toNat?.getD 0) :: d.hlock else d.hlock }
  | ["sib.setup"] => sibOut d [.park 0, .park 0]
  | ["sib.hdel", i] =>
    -- the holder's deletion, then (while the first attempt's cleanup is held back) whoever is woken attempts
    let i := i.toNat?.getD 0
    let s1 := Sib.next d.sib (.otherDel i)
    let s2 := if s1.token ∧ 0 < s1.parked then
        (if i == 0 then Sib.run s1 [.wake, .ownAcq 7 0, .ownRefused 1]       -- A: cleanup gated, not parked
         else Sib.settle s1 4 20)                                            -- B: a complete (failing) attempt
      else s1
    ({ d with sib := s2 }, sibStr s2)
  | ["sib.adel"] =>
    let s1 := Sib.settle (Sib.run d.sib [.ownDel 7 0, .repark]) 4 30
    ({ d with sib := s1 }, sibStr s1)
  | ["failacq", i] => fin { d with failAcq := some (i.toNat?.getD 0) }
  | ["extset", i] => fin { d with sys := next d.sys (.extset (i.toNat?.getD 0) 0) }
  | "with" :: l :: _ =>
    let w := d.nextW
    let L := l.toNat?.getD 0
    fin (waiterTry { d with nextW := w + 1, waiters := d.waiters ++ [(w, L)] } w L)
  | ["release"] =>
    match d.holders.find? (fun v => live d.sys v) with
    | some v => fin { d with sys := next d.sys (.release v) }
    | none => (d, "no-holder")
  | ["extdel", i] => fin { d with sys := next d.sys (.extdel (i.toNat?.getD 0)) }
  | ["expire", i] => fin { d with sys := next d.sys (.expire (i.toNat?.getD 0)) }
  | ["failext", i] =>
    let i := i.toNat?.getD 0
    -- the monitor of the key's owner runs extend, which fails with a server error
    match d.sys.regs i with
    | some v => if (d.sys.hs v).mons i == .running then fin { d with sys := next d.sys (.monErr v i) } else fin d
    | none => fin d
  | _ => (d, "bad-op")

def main : IO Unit := Hex.lineLoop ({} : DS) step
