import Rv.Model.Hex
import Rv.Model.InitPlan
open Rv Rv.InitPlan

def undash (s : String) : String := if s == "-" then "" else s
def dash (s : String) : String := if s == "" then "-" else s

def parseOpt (w : List String) : Option (Opt × Bool) :=
  match w with
  | [u, p, fn, name, db, ro, ms, nt, ne, rd, az, dc, r2, tr, si, r2ps] =>
    let credFn : Option (Option (String × String)) :=
      if fn == "none" then none
      else if fn == "err" then some none
      else match fn.splitOn ":" with
        | [_, fu, fp] => some (some (undash fu, undash fp))
        | _ => some none
    let tracking : Option (List String) :=
      if tr == "nil" then none else if tr == "empty" then some [] else some (tr.splitOn ",")
    let setInfo : SetInfo := if si == "off" then .off else if si == "pair" then .pair "mylib" "9.9" else .dflt
    some ({ username := undash u, password := undash p, credFn := credFn, clientName := undash name,
            selectDB := db.toInt?.getD 0, replicaOnly := ro == "1", sentinelMasterSet := undash ms,
            noTouch := nt == "1", noEvict := ne == "1", redirect := rd == "1", azInfo := az == "1",
            disableCache := dc == "1", alwaysResp2 := r2 == "1", tracking := tracking, setInfo := setInfo }, r2ps == "1")
  | _ => none

def classOf (c : Char) : Reply :=
  if c == '3' then .map 3 else if c == '2' then .map 2 else if c == '0' then .map 0
  else if c == 's' then .str else if c == 'z' then .strAZ else if c == 'e' then .rerr false
  else if c == 'h' then .rerr true else .ioerr

def replyFn (s : String) : Nat → Reply :=
  let cs := (undash s).toList
  fun i => match cs[i]? with | some c => classOf c | none => .ioerr

def showCmds (cs : List Cmd) : String :=
  if cs.isEmpty then "-" else ";".intercalate (cs.map fun c => ",".intercalate c)

def parseCmds (s : String) : List Cmd :=
  if s == "-" then [] else (s.splitOn ";").map fun c => c.splitOn ","

def showRes : Res → String
  | .serving true => "ok3"
  | .serving false => "ok2"
  | .failed .cred => "fail:cred"
  | .failed .err => "fail:err"
  | .failed .noCache => "fail:nocache"
  | .failed .panic => "panic"

/-- specification: the session state the options demand of a served connection, judged on the
    server's view of the connection (not on the command list): the authenticated user is the
    configured user name (the server's default user only when none is configured), database, client
    name, tracking mode, READONLY, NO-TOUCH, NO-EVICT and library info -/
def demandedState (o : Opt) (u : String) : String :=
  let trk := !o.disableCache
  let (lib, ver) := match o.setInfo with
    | .dflt => (Rv.Gen.InitPlan.libName, Rv.Gen.InitPlan.libVer)
    | .pair a b => (a, b)
    | .off => ("", "")
  let b (x : Bool) : String := if x then "1" else "0"
  s!"user={if u == "" then "default" else u} db={o.selectDB} name={dash o.clientName} trk={b trk} optin={b (trk && o.tracking.isNone)} " ++
  s!"ro={b (o.replicaOnly && o.sentinelMasterSet == "")} nt={b o.noTouch} ne={b o.noEvict} lib={dash lib} ver={dash ver}"

def kv (w : String) : String := (w.splitOn "=").getD 1 ""

def step (_ : Unit) (ws : List String) : Unit × String :=
  match ws with
  | "sopt" :: [u, p, n, db, su, sp, sn] =>
    let o := sentinelOpt { username := undash u, password := undash p, clientName := undash n, selectDB := db.toInt?.getD 0 }
      (undash su) (undash sp) (undash sn)
    ((), s!"{dash o.username} {dash o.password} {dash o.clientName} {o.selectDB} {o.credFn.isNone}")
  | "!sopt" :: [_, _, _, _, su, sp, sn] =>
    -- specification: a sentinel connection uses the sentinel credentials and client name, whatever
    -- the data-node options are, and never selects a database
    ((), s!"{su} {sp} {sn} 0 true")
  | "!sstate" :: [_, _, _, _, su, _, sn] =>
    ((), s!"user={if su == "-" then "default" else su} db=0 name={sn} leaked=0")
  | "!state" :: rest =>
    match parseOpt (rest.take 16) with
    | some (o, _) =>
      match creds o with
      | some (u, _) => ((), demandedState o u)
      | none => ((), "no-credentials")
    | none => ((), "bad-op")
  | "!sess" :: rest =>
    match parseOpt (rest.take 16), rest.drop 16 with
    | some (o, _), [served, proto, log, rep] =>
      match creds o with
      | none => ((), "ok")
      | some (u, p) =>
        ((), sessOracle o u p (kv served == "1") ((kv proto).toNat?.getD 0) (parseCmds (kv log)) ((undash (kv rep)).toList.map classOf))
    | _, _ => ((), "bad-op")
  | verb :: rest =>
    if verb == "conn" || verb == "client" then
      match parseOpt (rest.take 16), rest.drop 16 with
      | some (o, r2ps), [rs3, rs2, logged] =>
        let out := connect o r2ps (replyFn rs3) (replyFn rs2)
        ((), showRes out.res ++ " " ++ showCmds (out.sent.take (logged.toNat?.getD 0)))
      | _, _ => ((), "bad-op")
    else ((), "bad-op")
  | _ => ((), "bad-op")

def main : IO Unit := Hex.lineLoop () step
