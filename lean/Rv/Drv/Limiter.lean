import Rv.Model.Hex
import Rv.Model.Limiter
open Rv Rv.Limiter

structure Win where
  id : String
  resetAt : Int
  requested : Int := 0
  admitted : Int := 0

structure DS where
  sts : List (String × FSt) := []
  wins : List Win := []        -- specification state for `!result`

def getSt (d : DS) (id : String) : FSt := ((d.sts.find? (·.1 == id)).map (·.2)).getD {}
def setSt (d : DS) (id : String) (s : FSt) : DS := { d with sts := (id, s) :: d.sts.filter (·.1 != id) }

def ints (ws : List String) : Option (List Int) := ws.mapM String.toInt?

def step (d : DS) (ws : List String) : DS × String :=
  match ws with
  | ["reset"] => ({}, "ok")
  | ["reset-e2e"] => ({}, "ok")
  | ["s.rl", id, inc, next, cur, srv] =>
    match ints [inc, next, cur, srv] with
    | some [inc, next, cur, srv] =>
      let r := scriptF inc next cur srv (getSt d id)
      (setSt d id r.1, match r.2 with | .ok c e => "*[:" ++ toString c ++ ",:" ++ toString e ++ "]" | .err => "-ERR")
    | _ => (d, "bad-op")
  | ["allow", id, n, limit, wns, cur, next, srv] =>
    match ints [n, limit, wns, cur, next, srv] with
    | some [n, limit, wns, cur, next, srv] =>
      if n < 0 then (d, "err:tokens") else
      -- the arguments the real glue sent must be what `argsOf` computes for some clock reading in that millisecond
      if ¬ (next - cur = wns / 1000000 ∨ next - cur = wns / 1000000 + 1) then (d, "bad-args") else
      let r := scriptF n next cur srv (getSt d id)
      (setSt d id r.1, match r.2 with
        | .ok c e => let x := decide_ n limit c e
                     (if x.allowed then "1" else "0") ++ " " ++ toString x.remaining ++ " " ++ toString x.resetAt
        | .err => "err:redis")
    | _ => (d, "bad-op")
  | ["!result", id, n, limit, allowed, remaining, resetAt, before] =>
    -- oracle: the property itself, from the observed results only (no script model):
    -- Remaining = max(limit - everything requested so far in the window, 0); admitted units stay within the limit
    match ints [n, limit, remaining, resetAt, before] with
    | some [n, limit, remaining, resetAt, before] =>
      -- `before` ≤ the caller's clock reading; the window a call is counted in never ended before it
      -- (`Rv.C38.reset_at_not_in_past`)
      if resetAt < before then (d, "violates:stale-window") else
      let w := (d.wins.find? (fun w => w.id == id && w.resetAt == resetAt)).getD { id := id, resetAt := resetAt }
      let req := w.requested + n
      let adm := if allowed == "1" ∧ n > 0 then w.admitted + n else w.admitted
      let w' := { w with requested := req, admitted := adm }
      let d' := { d with wins := w' :: d.wins.filter (fun x => !(x.id == id && x.resetAt == resetAt)) }
      if remaining ≠ max (limit - req) 0 then (d', "violates:remaining")
      else if adm > limit ∧ allowed == "1" ∧ n > 0 then (d', "violates:limit")
      else if n == 0 ∧ (allowed == "1") ≠ decide (req < limit) then (d', "violates:check")
      else (d', "ok")
    | _ => (d, "bad-op")
  | _ => (d, "bad-op")

def main : IO Unit := Hex.lineLoop ({} : DS) step
