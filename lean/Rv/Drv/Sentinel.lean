/-
Driver for the `sentinel` correspondence suite (C23): runs the model Rv.Sentinel on the op lines
(`reset`, `world`, `refresh`, `ev`, `do`) and the specification on `!traffic` lines.
Addresses: node j ↦ j, sentinel i ↦ 100 + i.
-/
import Rv.Model.Hex
import Rv.Model.Sentinel
open Rv Rv.Sentinel

def field (ws : List String) (name : String) : Option String :=
  ws.findSome? fun w =>
    if w.startsWith (name ++ "=") then some (String.ofList (w.toList.drop (name.length + 1))) else none

def joinL (xs : List String) (sep : String) : String := if xs.isEmpty then "_" else sep.intercalate xs

def tailS (w : String) (n : Nat) : String := String.ofList (w.toList.drop n)

def showAddr (a : Addr) : String := if a ≥ 100 then s!"s{a - 100}" else s!"n{a}"

structure DW where
  sents : List (Nat × SentinelView) := []
  nodes : List (Nat × Bool × List RoleAns) := []

def parseRole (c : Char) : RoleAns :=
  if c == 'M' then .arr .master else if c == 'S' then .arr .slave else if c == 'o' then .arr .other
  else if c == 'z' then .empty else .err

def parseSent (v : String) : Option SentinelView :=
  match v.splitOn ":" with
  | [d, ss, ms, rs] =>
    let sentinels : Option (List Addr) :=
      if ss == "E" then none else if ss == "-" then some []
      else some (ss.toList.filterMap fun c => (String.singleton c).toNat?.map (· + 100))
    let master : MasterAns :=
      if ms.startsWith "n" then (match (tailS ms 1).toNat? with | some j => .addr j | none => .err)
      else if ms == "Z" || ms == "O" then .short else .err
    let replicas : Option (List (Addr × Bool)) :=
      if rs == "E" then none else if rs == "-" then some []
      else some ((rs.splitOn ",").filterMap fun r =>
        let down := r.endsWith "!"
        let digits := if down then String.ofList (r.toList.dropLast) else r
        digits.toNat?.map fun j => (j, down))
    some ⟨d == "D", sentinels, master, replicas⟩
  | _ => none

def updAssoc {α} (l : List (Nat × α)) (k : Nat) (v : α) : List (Nat × α) :=
  (l.filter (·.1 != k)) ++ [(k, v)]

def applyWorld (dw : DW) (ws : List String) : DW :=
  ws.foldl (fun dw w =>
    match w.splitOn "=" with
    | [k, v] =>
      if k.startsWith "s" then
        match (tailS k 1).toNat?, parseSent v with
        | some i, some sv => { dw with sents := updAssoc dw.sents i sv }
        | _, _ => dw
      else if k.startsWith "n" then
        match (tailS k 1).toNat?, v.splitOn ":" with
        | some j, [d, q] => { dw with nodes := updAssoc dw.nodes j (d == "D", q.toList.map parseRole) }
        | _, _ => dw
      else dw
    | _ => dw) dw

def badView : SentinelView := ⟨false, none, .err, none⟩

def toWorld (dw : DW) : World :=
  { sent := fun a => ((dw.sents.find? fun (i, _) => i + 100 == a).map (·.2)).getD badView,
    nodeDialOk := fun a => ((dw.nodes.find? fun (j, _) => j == a).map (·.2.1)).getD false,
    roles := dw.nodes.map fun (j, _, q) => (j, q) }

/-- write the consumed ROLE queues back -/
def fromWorld (dw : DW) (w : World) : DW :=
  { dw with nodes := dw.nodes.map fun (j, d, q) =>
      (j, d, ((w.roles.find? (·.1 == j)).map (·.2)).getD q) }

structure DS where
  dw : DW := {}
  st : Option St := none

def actName : Act → Addr × String
  | .dial a => (a, "dial") | .listWatch a => (a, "lw") | .role a _ => (a, "role") | .close a => (a, "close")

def showActs (acts : List Act) : String :=
  let named := acts.map actName
  let addrs := (named.map (·.1)).eraseDups
  let nodes := (addrs.filter (· < 100)).mergeSort (· ≤ ·)
  let sents := (addrs.filter (· ≥ 100)).mergeSort (· ≤ ·)
  joinL ((nodes ++ sents).map fun a =>
    showAddr a ++ "=" ++ ".".intercalate ((named.filter (·.1 == a)).map (·.2))) " "

def showConn (a : Option Addr) (c : Option Conn) : String :=
  match c with
  | none => "none"
  | some c =>
    let an := match a with
      | some x => if x == c.addr then showAddr x else showAddr x ++ "!=" ++ showAddr c.addr
      | none => "!=" ++ showAddr c.addr
    an ++ "/" ++ (if c.closed then "1" else "0")

def showSt (s : St) : String :=
  s!"tgt=m:{showConn s.mAddr s.mConn},r:{showConn s.rAddr s.rConn} sl={joinL (s.sentinels.map showAddr) ","}"

def budget : Nat := 16
def fuel : Nat := 12

def step (ds : DS) (ws : List String) : DS × String :=
  match ws with
  | "reset" :: r =>
    let dw := applyWorld {} r
    let mode : Mode := match field r "mode" with
      | some "r" => .replicaOnly | some "b" => .both | _ => .masterOnly
    let inits := (((field r "init").getD "").splitOn ",").filterMap fun x => x.toNat?.map (· + 100)
    let s0 : St := { mode := mode, sentinels := inits }
    let (s1, w1, acts, res) := refresh s0 (toWorld dw) budget
    let dw := fromWorld dw w1
    if res == .ok then ({ dw := dw, st := some s1 }, s!"ok acts={showActs acts} {showSt s1}")
    else
      -- the constructor closes the client: the kept sentinel / target connections are closed
      let closes : List Act := (match s1.sConn with | some c => [Act.close c.addr] | none => []) ++
        (match s1.mConn with | some c => [Act.close c.addr] | none => []) ++
        (match s1.rConn with | some c => [Act.close c.addr] | none => [])
      ({ dw := dw, st := none }, s!"err acts={showActs (acts ++ closes)} tgt=none sl=_")
  | "world" :: r => ({ ds with dw := applyWorld ds.dw r }, "ok")
  | ["refresh"] =>
    match ds.st with
    | none => (ds, "no-client")
    | some s =>
      let (s1, w1, acts, res) := refresh s (toWorld ds.dw) budget
      let rs := match res with | .ok => "ok" | .failed => "failed" | .noTarget => "notarget"
      ({ dw := fromWorld ds.dw w1, st := some s1 }, s!"{rs} acts={showActs acts} {showSt s1}")
  | "ev" :: kind :: r =>
    match ds.st with
    | none => (ds, "no-client")
    | some s =>
      let named := field r "named" == some "1"
      let addr := ((field r "addr").bind String.toNat?).getD 0
      let ev : Event :=
        if kind == "sm" then .switchMaster named addr
        else if kind == "rbm" then .rebootMaster named addr
        else if kind == "slv" then .slaveChange named
        else .other
      let (s1, w1, acts, _) :=
        if kind == "brk" then refreshRetry fuel s (toWorld ds.dw) budget   -- subscription break: refreshRetry()
        else onEvent s (toWorld ds.dw) ev fuel budget
      ({ dw := fromWorld ds.dw w1, st := some s1 }, s!"ok acts={showActs acts} {showSt s1}")
  | "evdur" :: kind :: r =>
    match ds.st with
    | none => (ds, "no-client")
    | some s =>
      let named := field r "named" == some "1"
      let addr := ((field r "addr").bind String.toNat?).getD 0
      let ev : Event := if kind == "sm" then .switchMaster named addr else if kind == "rbm" then .rebootMaster named addr else .other
      let (s1, w1, acts, res) := eventDuringRefresh s (toWorld ds.dw) ev fuel budget
      let rs := match res with | .ok => "ok" | .failed => "failed" | .noTarget => "notarget"
      ({ dw := fromWorld ds.dw w1, st := some s1 }, s!"{rs} acts={showActs acts} {showSt s1}")
  | "!foreign" :: r =>
    -- the specification: an event of another master set never changes where primary traffic goes
    (ds, if field r "before" == field r "after" then "ok" else "bad")
  | "!evlost" :: r =>
    -- the specification: after a refresh and a +switch-master / +reboot event for our master set have both
    -- finished, primary traffic goes over a live connection to the address the event named
    (ds, if field r "closed" == some "0" && field r "to" == field r "named" then "ok" else "bad")
  | "do" :: r =>
    match ds.st with
    | none => (ds, "no-client")
    | some s =>
      let repl := field r "repl" == some "1"
      match userTarget s repl with
      | none => (ds, "panic")     -- `.Load().(conn)` on an empty atomic.Value
      | some c => (ds, s!"to={showAddr c.addr}/{if c.closed then "1" else "0"}")
  | "!traffic" :: r =>
    -- the specification: traffic reaches a live connection only of a node that was reported in that
    -- role and whose last ROLE answer to the client was that role
    let closed := field r "closed" == some "1"
    let reported := field r "reported" == some "1"
    let want := if field r "kind" == some "R" then "S" else "M"
    (ds, if closed || (reported && field r "last" == some want) then "ok" else "bad")
  | "!eval" :: r =>
    -- the specification after a completed switch evaluation, from the fakes' ground truth: the connection
    -- that now carries the traffic is closed (commands fail), or belongs to an address named in that role
    -- during this evaluation AND answered ROLE with that role on this connection during this evaluation
    let closed := field r "closed" == some "1"
    let named := field r "named" == some "1"
    let want := if field r "kind" == some "R" then "S" else "M"
    (ds, if closed || (named && field r "role" == some want) then "ok" else "bad")
  | _ => (ds, "bad-op")

def main : IO Unit := Hex.lineLoop ({} : DS) step
