import Rv.Model.Hex
import Rv.Model.Reader
open Rv Rv.Reader

def parseCmd (s : String) : Option Cmd :=
  match s.splitOn "," with
  | [i, nr, us, n] => do
    let i ← i.toNat?
    let n ← n.toNat?
    pure { id := i, noReply := nr == "1", isUnsub := us == "1", nargs := n }
  | _ => none

def showOut : Out → String
  | .skipped => "skip"
  | .deliver c mid done => "d " ++ toString c ++ " " ++ (match mid with | some i => toString i | none => "-") ++ " " ++ (if done then "1" else "0")
  | .panic w => "panic:" ++ w

/-- judge an observed delivery against the model's: `obs` is the command that received the frame, or `?` -/
def judge (o : Out) (obs : String) : String :=
  match o with
  | .panic w => "reject:model-panics:" ++ w
  | .skipped => if obs == "?" then "ok" else "reject:model=skip observed=" ++ obs
  | .deliver c mid _ =>
    if obs == "?" then "ok"
    else if obs == toString c && mid.isSome then "ok"
    else "reject:model=" ++ showOut o ++ " observed=" ++ obs

def step' (s : St) (ws : List String) : St × String :=
  match ws with
  | ["reset"] => ({}, "ok")
  | ["reset", _] => ({}, "ok")
  | ["!m", "r", mid, pong, queued, obs] =>
    match mid.toNat? with
    | some i => let (s', o) := step s (.reply i (pong == "1") (queued == "1")); (s', judge o obs)
    | none => (s, "bad-op")
  | ["!m", "p", mid, k, obs] =>
    match mid.toNat? with
    | some i =>
      let pk := if k == "d" then PushK.data else if k == "s" then PushK.sub else PushK.unsub
      let (s', o) := step s (.push i pk); (s', judge o obs)
    | none => (s, "bad-op")
  | ["w", b] =>
    match (b.splitOn ";").mapM parseCmd with
    | some cs => (write s cs, "ok")
    | none => (s, "bad-op")
  | ["m", "r", mid, pong, queued] =>
    match mid.toNat? with
    | some i => let (s', o) := step s (.reply i (pong == "1") (queued == "1")); (s', showOut o)
    | none => (s, "bad-op")
  | ["m", "p", mid, k] =>
    match mid.toNat? with
    | some i =>
      let pk := if k == "d" then PushK.data else if k == "s" then PushK.sub else PushK.unsub
      let (s', o) := step s (.push i pk); (s', showOut o)
    | none => (s, "bad-op")
  | _ => (s, "bad-op")

def main : IO Unit := Hex.lineLoop ({} : St) step'
