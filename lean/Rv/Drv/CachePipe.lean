import Rv.Model.Hex
import Rv.Model.Lru
import Rv.Spec.Cache
/-!
Driver of the pipe-level cache suites `cachettl` (C07) and `flightdup` (C09) of harness/cachee2e.
Ordinary lines are answered by the model (`Rv.Lru.expiryOf`, the conversion used by `Rv.CachePipe`);
`!` lines by the specification (`Rv.Spec.Cache`) judging what the real client was observed to do.
-/
open Rv

def b01 (s : String) : Bool := s == "1"
def verdict (ok : Bool) (why : String) : String := if ok then "ok" else why

def step (_ : Unit) (ws : List String) : Unit × String :=
  match ws with
  -- model: expiry of a reply (times in ms on the line, ns in the model)
  | ["expiry", ttl, pttl, start, arrival] =>
    match ttl.toInt?, pttl.toInt?, start.toInt?, arrival.toInt? with
    | some ttl, some pttl, some s, some a =>
      ((), toString (Lru.expiryOf (s * 1000000) (ttl * 1000000) (a * 1000000) pttl))
    | _, _, _, _ => ((), "bad-op")
  | ["!expiry", _, _, ttl, pttl, tb, ta, pxat] =>
    match ttl.toInt?, pttl.toInt?, tb.toInt?, ta.toInt?, pxat.toInt? with
    | some ttl, some pttl, some tb, some ta, some pxat =>
      ((), verdict (Spec.Cache.expiryWindowOk ttl pttl tb ta pxat)
        s!"expiry-should-be-in=[{Spec.Cache.expiryMs tb ttl tb pttl},{Spec.Cache.expiryMs ta ttl ta pttl}]")
    | _, _, _, _, _ => ((), "bad-op")
  | ["!rehit", _, _, pxat, t2b, t2a, hit, pxat2] =>
    match pxat.toInt?, t2b.toInt?, t2a.toInt?, pxat2.toInt? with
    | some pxat, some t2b, some t2a, some pxat2 =>
      ((), verdict (Spec.Cache.rehitOk pxat t2b t2a (b01 hit) pxat2)
        (if b01 hit then "hit-at-or-after-expiry-or-other-expiry" else "miss-before-expiry"))
    | _, _, _, _ => ((), "bad-op")
  | ["!acc", pxat, tb, ta, pttl, ttl] =>
    match pxat.toInt?, tb.toInt?, ta.toInt?, pttl.toInt?, ttl.toInt? with
    | some pxat, some tb, some ta, some pttl, some ttl =>
      ((), verdict (Spec.Cache.accessorsOk pxat tb ta pttl ttl) "accessors-disagree-with-expiry")
    | _, _, _, _, _ => ((), "bad-op")
  | ["!dupflight", _, _, fail, n, returned, nok, nerr, gets, lr, lh, lo, lg] =>
    match n.toNat?, returned.toNat?, nok.toNat?, nerr.toNat?, gets.toNat?, lg.toNat? with
    | some n, some returned, some nok, some nerr, some gets, some lg =>
      ((), verdict (Spec.Cache.dupFlightOk (fail != "ok") n returned nok nerr gets (b01 lr) (b01 lh) (b01 lo) lg)
        "violates-property")
    | _, _, _, _, _, _ => ((), "bad-op")
  | ["!expiry2", _, _, ttl, pttl, sb, sa, ab, aa, pxat] =>
    match ttl.toInt?, pttl.toInt?, sb.toInt?, sa.toInt?, ab.toInt?, aa.toInt?, pxat.toInt? with
    | some ttl, some pttl, some sb, some sa, some ab, some aa, some pxat =>
      ((), verdict (Spec.Cache.expiryWindow2Ok ttl pttl sb sa ab aa pxat)
        s!"expiry-should-be-in=[{Spec.Cache.expiryMs sb ttl ab pttl},{Spec.Cache.expiryMs sa ttl aa pttl}]")
    | _, _, _, _, _, _, _ => ((), "bad-op")
  | ["!closehang", _, n, returned, nerr] =>
    match n.toNat?, returned.toNat?, nerr.toNat? with
    | some n, some r, some e => ((), verdict (Spec.Cache.closeHangOk n r e) "violates-property")
    | _, _, _ => ((), "bad-op")
  | ["!hitvalue", _, _, _, _, _, _, ok] => ((), verdict (Spec.Cache.hitValueOk (b01 ok)) "value-is-not-the-servers-reply-for-this-command")
  | ["!mgetown", _, _, wr, wo, ao, lh, lo, f] =>
    match f.toNat? with
    | some f => ((), verdict (Spec.Cache.mgetOwnOk (b01 wr) (b01 wo) (b01 ao) (b01 lh) (b01 lo) f) "violates-property")
    | none => ((), "bad-op")
  | ["!ctxdead", _, _, oe, jr, lr, lo] =>
    ((), verdict (Spec.Cache.ctxDeadOk (b01 oe) (b01 jr) (b01 lr) (b01 lo)) "violates-property")
  | ["!jsonident", p, q, eq] =>
    match Hex.decode p, Hex.decode q with
    | some p, some q => ((), verdict (Spec.Cache.jsonIdentOk p q (b01 eq))
        (if b01 eq then "distinct-paths-share-an-entry" else "same-path-does-not-share-the-entry"))
    | _, _ => ((), "bad-op")
  | _ => ((), "bad-op")

def main : IO Unit := Hex.lineLoop () step
