import Rv.Model.Hex
import Rv.Model.Aside
open Rv Rv.Aside

def unhx (s : String) : String :=
  match Hex.decode s with
  | some bs => String.ofList (bs.map fun b => Char.ofNat b.toNat)
  | none => "?"
def hx (s : String) : String := Hex.encode (s.toList.map fun c => UInt8.ofNat c.toNat)

def phPrefix : String := "rueidisid:"

/-- a string read from / written to the key: placeholders by prefix (a user value carrying the
prefix is the placeholder of a client that does not exist: id 999) -/
def valOf (s : String) : Val := if s.startsWith phPrefix then .ph 999 else .value s

def idOfWord (w : String) : Nat := match w with | "a" => 101 | "b" => 102 | "c" => 103 | _ => 999
def wordOfId (n : Nat) : String := match n with | 101 => "a" | 102 => "b" | 103 => "c" | _ => "user"

structure DS where
  sys : Sys := {}
  known : List Nat := []

def insertSorted (x : String) : List String → List String
  | [] => [x]
  | y :: r => if x < y then x :: y :: r else y :: insertSorted x r
def sortStrs (xs : List String) : List String := xs.foldl (fun acc x => insertSorted x acc) []

def keyStr (k : Option Val) (named : Bool) : String :=
  match k with
  | none => "key=none"
  | some (.value s) => "key=v:" ++ hx s
  | some (.ph i) => if named then "key=ph:" ++ wordOfId i else "key=ph"

def isLoading (g : G) : Bool := match g.pc with | .loading => true | _ => false
def isDone (g : G) : Bool := match g.pc with | .done _ => true | _ => false

def stateStr (s : Sys) : String :=
  let loading := (s.gs.filter isLoading).length
  let parked := (s.gs.filter fun g => !isLoading g && !isDone g).length
  let res := sortStrs (s.gs.filterMap fun g => match g.pc with
    | .done (.ok (.value v)) => some ("ok:" ++ hx v)
    | .done (.ok (.ph _)) => some "ok:PLACEHOLDER"
    | .done .err => some "err"
    | _ => none)
  s!"{keyStr s.srv.key false} loading={loading} parked={parked} done=[{",".intercalate res}] loads={s.srv.loads}"

/-- run every Get that can move (not in the loader, not finished) until nothing changes -/
def quiesce (s : Sys) : Nat → Sys
  | 0 => s
  | fuel + 1 =>
    let s' := (List.range s.gs.length).foldl (fun acc i =>
      match acc.gs[i]? with
      | some g => if isLoading g || isDone g then acc else next acc (.step i none)
      | none => acc) s
    if s' == s then s else quiesce s' fuel

def firstIdx (gs : List G) (p : G → Bool) : Option Nat := (List.range gs.length).find? fun i =>
  match gs[i]? with | some g => p g | none => false

def ev (d : DS) (e : Ev) : DS × String :=
  let s := quiesce (next d.sys e) 200
  let known := s.srv.alive.foldl (fun acc i => if i ∈ acc then acc else i :: acc) d.known
  ({ sys := s, known := known }, stateStr s)

def step (d : DS) (ws : List String) : DS × String :=
  match ws with
  | "reset" :: _ => ({}, "ok")
  | ["s.acq", id] =>
    let r := acquire (idOfWord id) d.sys.srv.key
    let rep := match r.2 with
      | none => "_"
      | some (.value s) => "$" ++ hx s
      | some (.ph i) => "ph:" ++ wordOfId i
    ({ d with sys := { d.sys with srv := { d.sys.srv with key := r.1 } } }, rep ++ " " ++ keyStr r.1 true)
  | ["s.set", id, v] =>
    let r := setkey (idOfWord id) (valOf (unhx v)) d.sys.srv.key
    ({ d with sys := { d.sys with srv := { d.sys.srv with key := r.1 } } },
      (if r.2 then "+OK" else ":0") ++ " " ++ keyStr r.1 true)
  | ["s.del", id] =>
    let r := delkey (idOfWord id) d.sys.srv.key
    ({ d with sys := { d.sys with srv := { d.sys.srv with key := r.1 } } },
      (if r.2 then ":1" else ":0") ++ " " ++ keyStr r.1 true)
  | ["get", c] => ev d (.newGet (c.toNat?.getD 0 + 1))
  | ["fresh-race", _, _] =>
    -- the two Gets were emitted as lines of their own; the side Get on another key and the late marker SET do
    -- not touch the cache key: the state is the one after them
    (d, stateStr (quiesce d.sys 200))
  | ["get-race", c, v] =>
    -- the new Get registers and reads; if it read a placeholder the holder's loader finishes right now
    let s1 := next d.sys (.newGet (c.toNat?.getD 0 + 1))
    let idx := s1.gs.length - 1
    let s3 := next (next s1 (.step idx none)) (.step idx none)
    let isCH := match s3.gs[idx]? with | some g => (match g.pc with | .checkHolder _ => true | _ => false) | none => false
    let s4 := if isCH then (match firstIdx s3.gs isLoading with
      | some h => next s3 (.step h (some (valOf (unhx v))))
      | none => s3) else s3
    let s := quiesce s4 200
    ({ d with sys := s, known := s.srv.alive.foldl (fun acc i => if i ∈ acc then acc else i :: acc) d.known }, stateStr s)
  | ["dead-race", c1, c2] =>
    -- both Gets register, read the placeholder, find the liveness key missing (pc = freeing); then the
    -- first one's release goes through and it runs on, then the second's
    let add (s : Sys) (c : String) : Sys × Nat :=
      let s1 := next s (.newGet (c.toNat?.getD 0 + 1))
      let idx := s1.gs.length - 1
      ((List.range 3).foldl (fun t _ => next t (.step idx none)) s1, idx)
    let (sa, ia) := add d.sys c1
    let (sb, ib) := add sa c2
    let isFreeing (s : Sys) (i : Nat) : Bool := match s.gs[i]? with
      | some g => (match g.pc with | .freeing _ => true | _ => false)
      | none => false
    let rel := (if isFreeing sb ia then ["as.delkey"] else []) ++ (if isFreeing sb ib then ["as.delkey"] else [])
    -- the first Get alone up to its loader (or wherever it stops), then everybody
    let runOne (s : Sys) (i : Nat) : Sys := (List.range 8).foldl (fun t _ =>
      match t.gs[i]? with
      | some g => if isLoading g || isDone g then t else next t (.step i none)
      | none => t) s
    let s := quiesce (runOne sb ia) 200
    ({ d with sys := s, known := s.srv.alive.foldl (fun acc i => if i ∈ acc then acc else i :: acc) d.known },
      "release=" ++ ",".intercalate rel ++ " " ++ stateStr s)
  | ["load-ok", v] =>
    match firstIdx d.sys.gs isLoading with
    | some i => ev d (.step i (some (valOf (unhx v))))
    | none => (d, "no-loader")
  | ["load-ok-storefail", v] =>
    -- the loader returned v; the store of v fails on the caller's side (same as the context being done at
    -- that moment): the holder gives the lock back and returns the error
    match firstIdx d.sys.gs isLoading with
    | some i =>
      let s1 := next (next d.sys (.step i (some (valOf (unhx v))))) (.cancel i)
      let s := quiesce s1 200
      ({ d with sys := s, known := s.srv.alive.foldl (fun acc i => if i ∈ acc then acc else i :: acc) d.known }, stateStr s)
    | none => (d, "no-loader")
  | ["load-err"] =>
    match firstIdx d.sys.gs isLoading with
    | some i => ev d (.step i none)
    | none => (d, "no-loader")
  | ["del"] => ev d .del
  | ["expire"] => ev d .expire
  | ["put", v] => ev d (.put (valOf (unhx v)))
  | ["death", c] => ev d (.death (c.toNat?.getD 0 + 1))
  | ["refresh", c] =>
    let id := c.toNat?.getD 0 + 1
    if id ∈ d.known then ev d (.refresh id) else (d, stateStr d.sys)
  | ["cancel-parked"] =>
    match firstIdx d.sys.gs (fun g => !isLoading g && !isDone g) with
    | some i => ev d (.cancel i)
    | none => (d, "no-parked")
  | "!results" :: vs =>
    -- specification: every returned value is a loader output or a value stored for the key,
    -- and never a lock placeholder
    let bad := vs.filter fun v =>
      let s := unhx v
      s.startsWith phPrefix || !(d.sys.srv.seen.contains (.value s))
    (d, if bad.isEmpty then "ok" else "violates:" ++ " ".intercalate bad)
  | _ => (d, "bad-op")

def main : IO Unit := Hex.lineLoop ({} : DS) step
