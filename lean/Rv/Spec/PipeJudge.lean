/-
What C03/C04/C05 demand of one observed end-to-end outcome (used on `!` lines of the
pipe harness). Hand-written from the property statements; trusted. Core Lean only.
-/
namespace Rv.Spec.PipeJudge

/-- C03: a non-retryable write may be executed at most once per call; an acknowledged one exactly once -/
def amo (execs : Nat) (ack : Bool) : Bool := execs ≤ 1 && (!ack || execs = 1)

/-- C04: a call pending at a connection failure / Close returns, with an error or with its own reply -/
def broken (returned hasErr own : Bool) : Bool := returned && (hasErr || own)

/-- C04: a later call is served by a fresh connection; after Close it fails with ErrClosing -/
def later (fault outcome : String) : Bool :=
  if fault == "clientclose" then outcome == "closing" else outcome == "served"

/-- C05: the call returned, promptly, with the context's error; a context that was already done sent nothing -/
def deadline (mode : String) (returned prompt ctxErr nothingSent : Bool) : Bool :=
  returned && prompt && ctxErr && (mode != "done" || nothingSent)

/-- C06: a cached read that started after an invalidation for version `floor` had been processed may
    return as a hit only a value of at least that version, and only its own key's value -/
def cacheRead (floor ver : Int) (hit own : Bool) : Bool := own && (!hit || floor ≤ ver)

/-- C09: concurrent cold reads of one command share one request; on success every waiter gets the reply
    and the value is cached; on failure nobody gets a value and nothing is cached -/
def flight (failed : Bool) (gets nok nerr : Nat) (laterHit laterOk : Bool) : Bool :=
  gets ≤ 1 + (if failed then 1 else 0) && laterOk &&
  (if failed then nok = 0 && !laterHit else nerr = 0 && laterHit)

end Rv.Spec.PipeJudge
