/-
Specification side of C12/C14: the *wire syntax* a RESP2/RESP3 server may use
for a reply (`Wire`), its byte encoding (`bytes`), the value it denotes
(`value`) and the well-formedness predicate (`WF`). Hand-written from the RESP3
specification; trusted. Core Lean only.
-/
import Rv.Model.Msg
namespace Rv.Spec

/-- decimal digits of a natural number, most significant first -/
def digits (n : Nat) : List UInt8 :=
  if h : n < 10 then [UInt8.ofNat (48 + n)]
  else digits (n / 10) ++ [UInt8.ofNat (48 + n % 10)]
termination_by n
decreasing_by omega

def crlf : List UInt8 := [13, 10]

/-- decimal rendering of an integer -/
def decI (v : Int) : List UInt8 :=
  if v < 0 then 45 :: digits (-v).toNat else digits v.toNat

inductive Wire where
  | blob (t : UInt8) (s : List UInt8)            -- `$n` `!n` `=n`
  | chunked (t : UInt8) (cs : List (List UInt8)) -- `$?` `;n`… `;0`
  | nullBlob (t : UInt8)                         -- `$-1`
  | line (t : UInt8) (s : List UInt8)            -- `+` `-` `,` `(`
  | int (v : Int)                                -- `:`
  | null                                         -- `_`
  | bool (b : Bool)                              -- `#t` `#f`
  | arr (t : UInt8) (xs : List Wire)             -- `*n` `~n` `>n`
  | map (t : UInt8) (xs : List Wire)             -- `%n` (`|n` under `attr`), 2n elements
  | stream (t : UInt8) (xs : List Wire)          -- `*?`/`~?`/`>?`/`%?` … `.`
  | nullArr (t : UInt8)                          -- `*-1`
  | attr (a : Wire) (w : Wire)                   -- attribute frame `a` followed by the reply `w`

def chunkBytes (c : List UInt8) : List UInt8 := 59 :: digits c.length ++ crlf ++ c ++ crlf

mutual
def bytes : Wire → List UInt8
  | .blob t s => t :: digits s.length ++ crlf ++ s ++ crlf
  | .chunked t cs => t :: 63 :: crlf ++ (cs.map chunkBytes).flatten ++ [59, 48, 13, 10]
  | .nullBlob t => [t, 45, 49, 13, 10]
  | .line t s => t :: s ++ crlf
  | .int v => 58 :: decI v ++ crlf
  | .null => [95, 13, 10]
  | .bool b => [35, if b then 116 else 102, 13, 10]
  | .arr t xs => t :: digits xs.length ++ crlf ++ bytesL xs
  | .map t xs => t :: digits (xs.length / 2) ++ crlf ++ bytesL xs
  | .stream t xs => t :: 63 :: crlf ++ bytesL xs ++ [46, 13, 10]
  | .nullArr t => [t, 45, 49, 13, 10]
  | .attr a w => bytes a ++ bytes w
def bytesL : List Wire → List UInt8
  | [] => []
  | x :: xs => bytes x ++ bytesL xs
end

mutual
/-- the message a wire form denotes, given the attributes pending from a preceding `|` frame -/
def value : Wire → List Msg → Msg
  | .blob t s, ats => Msg.mk t s s.length [] ats
  | .chunked t cs, ats => Msg.mk t cs.flatten cs.flatten.length [] ats
  | .nullBlob _, _ => Msg.null
  | .line t s, ats => Msg.mk t s s.length [] ats
  | .int v, ats => Msg.mk 58 [] v [] ats
  | .null, ats => Msg.mk 95 [] 0 [] ats
  | .bool b, ats => Msg.mk 35 [] (if b then 1 else 0) [] ats
  | .arr t xs, ats => Msg.mk t [] xs.length (valueL xs) ats
  | .map t xs, ats => Msg.mk t [] xs.length (valueL xs) ats
  | .stream t xs, ats => Msg.mk t [] xs.length (valueL xs) ats
  | .nullArr _, _ => Msg.null
  | .attr a w, _ => value w [value a []]
def valueL : List Wire → List Msg
  | [] => []
  | x :: xs => value x [] :: valueL xs
end

def isBlobT (t : UInt8) : Bool := t == 36 || t == 33 || t == 61
def isLineT (t : UInt8) : Bool := t == 43 || t == 45 || t == 44 || t == 40
def isArrT (t : UInt8) : Bool := t == 42 || t == 126 || t == 62
def isStreamT (t : UInt8) : Bool := isArrT t || t == 37
def lim : Nat := 9223372036854775808  -- 2^63

mutual
/-- well-formed wire forms (decidable) -/
def WF : Wire → Bool
  | .blob t s => isBlobT t && decide (s.length < lim)
  | .chunked t cs => isBlobT t && cs.all (fun c => !c.isEmpty && decide (c.length < lim))
  | .nullBlob t => isBlobT t
  | .line t s => isLineT t && !s.contains 10
  | .int v => decide (-(lim : Int) < v) && decide (v < lim)
  | .null => true
  | .bool _ => true
  | .arr t xs => isArrT t && decide (xs.length < lim) && WFL xs
  | .map t xs => t == 37 && decide (xs.length % 2 = 0) && decide (xs.length < lim) && WFL xs
  | .stream t xs => isStreamT t && WFL xs
  | .nullArr t => isArrT t
  | .attr a w => attrOK a && WF w
def WFL : List Wire → Bool
  | [] => true
  | x :: xs => WF x && WFL xs
/-- the attribute frame: a `|n` map or a streamed `|?` aggregate -/
def attrOK : Wire → Bool
  | .map t xs => t == 124 && decide (xs.length % 2 = 0) && decide (xs.length < lim) && WFL xs
  | .stream t xs => t == 124 && WFL xs
  | _ => false
end

end Rv.Spec
